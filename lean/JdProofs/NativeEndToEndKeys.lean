/-
  JdProofs.NativeEndToEndKeys (+ JdProofs.NativeEndToEndKeysB: non-vacuity and witnesses) — property
  C02, the END-TO-END consequence "a diff printed by `jd -setkeys k1,k2 a b` and applied with `jd -p`
  turns a into b", for the SetKeys reading (sets of objects identified by keys), strict strategy: the
  reading JdProofs.NativeEndToEnd (`Jd.E2E`, list) and JdProofs.NativeEndToEndSet (`Jd.E2ES`, SET /
  MULTISET / MERGE) leave open.  Everything lives in the namespace `Jd.E2EK`.

  ALL THREE TARGETS REACHED (shape; lossless text; end to end + total form), plus the input-level form
  of the path hypothesis, non-vacuity on two concrete pairs, and five witnesses.

  All theorems are about the LIBRARY functions of the model: `diffM` (`a.Diff(b, options...)`),
  `renderM nc []` (`Diff.Render()`), `readDiffM nc` (`ReadDiffString`), `patchM` (`a.Patch(d)`),
  `equals` (`Equals`), and the hash-free specification `equivB`.

  Options: `dispatchTag o = .set`, `keysOf o = some ks` (a SetKeys option is the first of the
  SET / MULTISET / SetKeys options and the first SetKeys option carries `ks`; in particular
  `[SetKeys(ks...)]`), `isMerge o = false`; for the end-to-end theorem also `precOf o = 0`.

  ───────────── 1. the shape of the generated hunks (sections 1–4) ─────────────
   * `Nav K ks q a` (inductive) — the paths: `q` NAVIGATES the first document `a`: object keys of `a`;
       keyed-member elements `PathSetKeys` whose object is `DPK.pathObjOf ks kvs` for an object member
       `kvs` of the array at hand (the values of the set keys the member carries, `null` for the keys
       it lacks — `newPathSetKeys`); possibly a final key taken from `K` (a key only the second
       document has); possibly, at an array, the final `{}` of a set hunk.  Finitely many for a given
       document.
   * `kdiff_ok`, `diffM_khunk` — the induction (over `jsonInd`, with `SetDP.diffNode_set_set`,
       `DPK.sub_origin'`, `RealS.set_hunk_real`, `RealS.mem_diffKvs`): every hunk of `a.Diff(b)` is
       `KHunk`: strict, no context lines, a path with `Nav (docKeys b) ks path a`, several removed /
       added values only with the final `{}`, no void entry (except the single `+ void` of an object
       replaced by the absent document at the root), at least one `-` / `+` line, every payload value
       LITERALLY a sub-term of `a` or `b` and a plain document.
       Unlike the SET reading (`E2ES.sdiff_ok`) the diff DOES descend below `PathSetKeys` elements
       (matched members are sub-diffed), and the induction needs NO hash hypothesis, no `wf`, nothing
       on the precision: the shape does not depend on which members the set diff matches.
   * `diffM_premises_setkeys` — hence `wfDiff d`, `d.all rawHunk`, `noEmptySetKeys d`, `d.all voidOK`,
       `d.all listDocHunk`, and strict / context-free / `Nav` for every hunk: the premises of
       `NativeRT.read_render`, `NativeRT.render_norm`, `Robust.patchAll_normDiff_of_noEmptySetKeys`.
       `diffM_wfDiff_setkeys`: `wfDiff` and `voidOK` hold for EVERY `ks`, also `ks = []`.
   * `diffM_payloads_setkeys`, `diffM_codecOK_setkeys`, `diffM_renders_setkeys`,
     `diffM_pathOK_of_inputs_setkeys` (any property of all `Nav` paths of `a` holds of the paths of
       the diff — used in the examples to get the codec contract on the paths WITHOUT computing the
       diff).
   `ks = []` (DECIDED): `newPathSetKeys` then gives `PathSetKeys{}` and `Diff` DOES emit it — under
       `SetKeys()` every object has the same identity, so any two object members are sub-diffed
       through the empty path object.  It is rendered `{}`, which `NewPath` reads as `PathSet`: the
       text cannot carry it.  Hence the hypothesis `ks ≠ []`; witness `EmptyKeys.emptyKeys_witness`
       (below).  With `ks ≠ []` the path object is never empty, also when a member has none of the
       keys (`pathObjOf_nonempty`: absent keys are written with `null`).

  ───────────── 2. the text is a lossless carrier (section 5) ─────────────
   * `diff_text_lossless_setkeys`:
         renderM nc [] (diffM o a b) = some text →
         ∃ d', readDiffM nc text = .ok d' ∧ renderM nc [] d' = some text ∧
               ∀ c, patchM c d' = patchM c (diffM o a b)        (EXACT, on EVERY document c).
     `text_outcome_eq_memory`: the total form (the text exists).
   HYPOTHESES: `ks ≠ []`; `a.rawDoc`, `b.rawDoc` (plain arrays: documents as read from JSON / YAML);
     `E2E.voidFree a`, `E2E.voidFree b`; the codec contract (below).  NO hash hypothesis, no `wf`, no
     float law.

  ───────────── 3. THE END-TO-END THEOREM (section 5) ─────────────
   * `diff_render_read_patch_setkeys`:
         renderM nc [] (diffM o a b) = some text →
         ∃ d', readDiffM nc text = .ok d' ∧ d' = normDiff (diffM o a b) ∧
           ∃ r, patchM a d' = .ok r ∧ patchM a (diffM o a b) = .ok r ∧
                equals o r b = true ∧ equivB o r b = true ∧ hashCode o r = hashCode o b.
     (the result is the SAME document as the one the in-memory patch gives.)
   * `diff_print_read_patch_setkeys` — total form: the text EXISTS, is read back, and the diff read
       back patches `a` to a document equal to `b`.
   * `patchM_readDiffM_SetKeys` — the instance for the option list `[SetKeys(ks...)]`.
   HYPOTHESES
     `ks ≠ []`: NEEDED, `EmptyKeys.emptyKeys_witness` (library level; the command line rejects an
       empty `-setkeys` value, so it always holds for `jd -setkeys …`).
     `a.setDoc`, `b.setDoc`: documents as read from JSON text (plain arrays, sorted unique keys,
       finite numbers, no `-0`): the domain of `DPK.diff_then_patch_setkeys`.
     `E2E.voidFree a`, `E2E.voidFree b`: no void array element / object member; contains `DPL.memOK`
       (the C01 hypothesis) and is NEEDED beyond it: `VoidWitness.void_element_witness_setkeys`
       (`[void]` → `[]`: in the C01 domain, `KeysHyp` holds, the in-memory patch succeeds, the text
       is `@ [{}]` alone and `ReadDiffString` REJECTS it).  Void is not a JSON value.
     `DPK.KeysHyp o ks a b` (decidable; see JdProofs.DiffPatchKeys): `HashFaithful`,
       `KeyedDistinct`, `KindSepI`, `IdentInj`, `PathFaithful`, `KeyTuple` — exactly the hypotheses
       of the in-memory theorem C01.  The three that JdProofs.DiffPatchKeys shows necessary in memory
       are necessary END TO END with the same outcome, because the text is lossless:
       `KeysHypNeeded.identperm_breaks_text` (`KeyTuple`: `Patch` of the diff read back returns an
       error), `KeysHypNeeded.duplicate_member_breaks_text` (`KeyedDistinct`: succeeds with a
       document that does not `Equals` the target), `KeysHypNeeded.null_completion_breaks_text`
       (`PathFaithful`: the wrong member is patched).  `HashFaithful` / `KindSepI` / `IdentInj` are
       the hash-collision class (KF-C04); not shown necessary here.
     `precOf o = 0`, `FloatEq0`, `FloatLaws`: inherited from the in-memory theorem; whether
       `precOf o = 0` is necessary was not decided.
     `∀ z ∈ subterms a ++ subterms b, ValOK nc z`, `∀ h ∈ diffM o a b, PathOK nc h.path`: the contract
       on encoding/json (not modelled) for the values of the two documents and the path arrays of the
       diff, as in `Jd.E2E` / `Jd.E2ES`; `diffM_pathOK_of_inputs_setkeys` derives the second from the
       contract on the `Nav` paths of `a`.

  ───────────── NativeEndToEndKeysB: non-vacuity and witnesses (sections 6–9) ─────────────
   * `Example.ex_keys_end_to_end` (codec `NativeRT.exCodec`, `SetKeys("id","k")`)
       `[{"id":"1","k":"a","v":"x"},{"id":"2","k":"a","v":["p"]},"s"]` →
       `[{"id":"2","k":"a","v":["q"],"w":true},{"id":"1","k":"b","v":"x"},"t"]`: the printed diff has a
       set hunk nested below a keyed member (`@ [{"id":"2","k":"a"},"v",{}]`), a key added to a keyed
       member, and a `@ [{}]` hunk with two `-` and two `+` lines.  Every hypothesis is proved; only
       `FloatLaws` / `FloatEq0` remain.  The path contract is obtained from `Example.nav_exA` (the 13
       `Nav` paths of the document) without computing the diff.
   * `Example.ex3_keys_end_to_end`: `[{"id":"1","v":"x"},{"v":"q"}]` → `[{"id":"1","v":"z"},{"v":"r"}]`:
       members LACKING set keys (`@ [{"id":"1","k":null},"v"]`, `@ [{"id":null,"k":null},"v"]`).
   * two `example`s: the hypotheses of `diff_text_lossless_setkeys` / `diffM_premises_setkeys` hold.
   * `EmptyKeys.emptyKeys_witness` — `[{"a":"x"}]` → `[{"a":"y"}]`, `SetKeys()`: every hypothesis of
       the end-to-end theorem except `ks ≠ []` holds; `Diff` returns `@ [{},"a"] / - "x" / + "y"`
       (`noEmptySetKeys = false`); the in-memory patch gives the target; the text is read back
       without error as the hunk at `[PathSet, "a"]`, and `Patch` of it returns an ERROR.  Replayed
       on the Go library v2 (`jd.SetKeys()`): same text, in-memory result `Equals` the target,
       `ReadDiffString` succeeds, `Patch` fails with "invalid diff: expected "x" at [] but found
       nothing".  Not reachable from the command line (`-setkeys ""` means no option).
   * `VoidWitness.void_element_witness_setkeys`, `KeysHypNeeded.*_breaks_text` (above).

  NOT PROVED here: SetKeys combined with the MERGE strategy; a Precision option together with
  SetKeys; colour output; anything under a hash collision; necessity of `precOf o = 0`.
  No existing file was modified; no lemma had to be re-proved (only new helper lemmas:
  `rawDocKvs_ainsert`, `pathObjOf_rawDoc`, `pathObjOf_nonempty`).
-/
import JdModel
import JdSpec
import JdProofs.NativeRoundTrip
import JdProofs.Robust
import JdProofs.NativeEndToEnd
import JdProofs.NativeEndToEndSet
import JdProofs.SetDiffPatch
import JdProofs.DiffEmptySet
import JdProofs.RealDiff
import JdProofs.RealDiffSet
import JdProofs.DiffPatchKeys

set_option linter.unusedVariables false

namespace Jd.E2EK
open Jd Jd.Spec Jd.NativeRT Jd.Robust Jd.SetDP

/-! ## 1. paths of the SetKeys reading: navigation in the first document -/

/-- `Nav K ks q a`: the path `q` of a hunk of `a.Diff(b, SetKeys(ks...))`, read in the FIRST document
    `a`.  It descends through object keys of `a` and through keyed-member elements `{"k":v,…}` whose
    object is the path object `newPathSetKeys` builds for an object member of the array at hand
    (`DPK.pathObjOf ks kvs`: the values of the set keys the member carries, `null` for the others);
    it may end at a key the object lacks (taken from `K`: a member that only the second document has)
    or, at an array, with the `{}` of a set hunk. -/
inductive Nav (K ks : List String) : Path → Json → Prop
  | nil (a : Json) : Nav K ks [] a
  | key {k : String} {v : Json} {kvs : List (String × Json)} {r : Path} :
      (k, v) ∈ kvs → Nav K ks r v → Nav K ks (.key k :: r) (.obj kvs)
  | newKey {k : String} (kvs : List (String × Json)) : k ∈ K → Nav K ks [.key k] (.obj kvs)
  | member {t : Tag} {xs : List Json} {kvs : List (String × Json)} {r : Path} :
      Json.obj kvs ∈ xs → Nav K ks r (.obj kvs) →
      Nav K ks (.setKeys (DPK.pathObjOf ks kvs) :: r) (.arr t xs)
  | setLeaf (t : Tag) (xs : List Json) : Nav K ks [.set] (.arr t xs)

/-- what the induction establishes of every hunk of a strict diff in the SetKeys reading;
    `a` is the node of the first document the hunk belongs to, `p` the path prefix of that node, `S`
    a list of nodes containing the sub-terms of both documents -/
structure KHunk (S : List Json) (K ks : List String) (a : Json) (p : Path) (h : Hunk) : Prop where
  strict : h.merge = false
  before : h.before = []
  after : h.after = []
  path : ∃ q, Nav K ks q a ∧ h.path = p ++ q ∧
    ((h.remove.length ≤ 1 ∧ h.add.length ≤ 1) ∨ ∃ q', q = q' ++ [.set])
  remNV : ∀ v ∈ h.remove, v.isVoid = false
  addNV : (∀ v ∈ h.add, v.isVoid = false) ∨ (h.path = [] ∧ h.add.length ≤ 1)
  some : h.remove ≠ [] ∨ ∃ v ∈ h.add, v.isVoid = false
  pay : ∀ v ∈ h.remove ++ h.add, v.isVoid = true ∨ (v.rawDoc = true ∧ v ∈ S)

theorem KHunk.lift_key {S : List Json} {K ks : List String} {p : Path} {k : String} {v : Json}
    {kvs : List (String × Json)} {h : Hunk} (hm : (k, v) ∈ kvs)
    (H : KHunk S K ks v (p ++ [.key k]) h) : KHunk S K ks (.obj kvs) p h := by
  obtain ⟨q, hq, hpath, hmul⟩ := H.path
  refine ⟨H.strict, H.before, H.after,
    ⟨.key k :: q, .key hm hq, by simpa using hpath, ?_⟩, H.remNV, H.addNV, H.some, H.pay⟩
  rcases hmul with h1 | ⟨q', rfl⟩
  · exact .inl h1
  · exact .inr ⟨.key k :: q', rfl⟩

theorem KHunk.lift_member {S : List Json} {K ks : List String} {p : Path} {t : Tag}
    {xs : List Json} {kvs : List (String × Json)} {h : Hunk} (hm : Json.obj kvs ∈ xs)
    (H : KHunk S K ks (.obj kvs) (p ++ [.setKeys (DPK.pathObjOf ks kvs)]) h) :
    KHunk S K ks (.arr t xs) p h := by
  obtain ⟨q, hq, hpath, hmul⟩ := H.path
  refine ⟨H.strict, H.before, H.after,
    ⟨.setKeys (DPK.pathObjOf ks kvs) :: q, .member hm hq, by simpa using hpath, ?_⟩,
    H.remNV, H.addNV, H.some, H.pay⟩
  rcases hmul with h1 | ⟨q', rfl⟩
  · exact .inl h1
  · exact .inr ⟨.setKeys (DPK.pathObjOf ks kvs) :: q', rfl⟩

/-! ## 2. the induction over the strict diff in the SetKeys reading -/

/-- the hunk replacing one value by another one -/
theorem khunk_value {S : List Json} {K ks : List String} {a0 : Json} {p q : Path} {a b : Json}
    (hq : Nav K ks q a0)
    (ha : a.isVoid = false ∨ b.isVoid = false)
    (hra : a.rawDoc = true) (hrb : b.rawDoc = true) (hsa : a.isVoid = true ∨ a ∈ S)
    (hsb : b.isVoid = true ∨ b ∈ S) :
    KHunk S K ks a0 p { path := p ++ q, remove := a.nodeList, add := b.nodeList } := by
  refine ⟨rfl, rfl, rfl, ⟨q, hq, rfl,
    .inl ⟨E2E.nodeList_length_le a, E2E.nodeList_length_le b⟩⟩, ?_, .inl ?_, ?_, ?_⟩
  · intro v hv; rw [(E2E.mem_nodeList.1 hv).1]; exact (E2E.mem_nodeList.1 hv).2
  · intro v hv; rw [(E2E.mem_nodeList.1 hv).1]; exact (E2E.mem_nodeList.1 hv).2
  · rcases ha with ha | hb
    · exact .inl (E2E.nodeList_ne_nil ha)
    · exact .inr ⟨b, E2E.mem_nodeList.2 ⟨rfl, hb⟩, hb⟩
  · intro v hv
    rcases List.mem_append.1 hv with hv | hv
    · obtain ⟨rfl, nv⟩ := E2E.mem_nodeList.1 hv
      rcases hsa with h | h
      · rw [nv] at h; cases h
      · exact .inr ⟨hra, h⟩
    · obtain ⟨rfl, nv⟩ := E2E.mem_nodeList.1 hv
      rcases hsb with h | h
      · rw [nv] at h; cases h
      · exact .inr ⟨hrb, h⟩

theorem khunk_value' {S : List Json} {K ks : List String} {a0 : Json} {p : Path} {a b : Json}
    (ha : a.isVoid = false ∨ b.isVoid = false)
    (hra : a.rawDoc = true) (hrb : b.rawDoc = true) (hsa : a.isVoid = true ∨ a ∈ S)
    (hsb : b.isVoid = true ∨ b ∈ S) :
    KHunk S K ks a0 p { path := p, remove := a.nodeList, add := b.nodeList } := by
  have := khunk_value (S := S) (K := K) (ks := ks) (p := p) (Nav.nil a0) ha hra hrb hsa hsb
  simpa using this

/-- **the generated hunks, SetKeys reading, strict strategy.** `SA` / `SB` contain the sub-terms of
    the two documents; no void constituent; keys of the second document in `K`.  NO hash hypothesis,
    no well-formedness, no hypothesis on the precision option: the shape of the hunks does not depend
    on which members the set diff matches. -/
theorem kdiff_ok {o : Opts} {ks : List String} (hd : dispatchTag o = .set)
    (hk : keysOf o = some ks) {SA SB : List Json} (K : List String)
    (hA : ∀ z ∈ SA, E2E.KidsNV z) (hB : ∀ z ∈ SB, E2E.KidsNV z ∧ E2E.KeysIn K z) :
    ∀ a : Json, a.rawDoc = true → Within SA a →
      ∀ b : Json, b.rawDoc = true → Within SB b →
      ∀ p, (b.isVoid = true → p = []) →
      ∀ h ∈ diffNode o false a b p, KHunk (SA ++ SB) K ks a p h := by
  have scalar : ∀ a : Json, (∀ t xs, a ≠ .arr t xs) → (∀ kvs, a ≠ .obj kvs) →
      a.rawDoc = true → Within SA a → ∀ b : Json, b.rawDoc = true → Within SB b →
      ∀ p, ∀ h ∈ diffNode o false a b p, KHunk (SA ++ SB) K ks a p h := by
    intro a h1 h2 hr wa b hrb wb p h hh
    rw [DPL.diffNode_scalar o a b h1 h2] at hh
    unfold diffCommon at hh
    split at hh
    · cases hh
    · next hne =>
      simp only [Bool.false_eq_true, if_false, List.mem_singleton] at hh
      subst hh
      refine khunk_value' ?_ hr hrb (.inr (List.mem_append_left _ wa.self))
        (.inr (List.mem_append_right _ wb.self))
      cases ha : a.isVoid with
      | false => exact .inl rfl
      | true =>
        right
        cases hb : b.isVoid with
        | false => rfl
        | true =>
          exfalso; apply hne
          cases a <;> simp [Json.isVoid] at ha
          cases b <;> simp [Json.isVoid] at hb
          simp [equals, Json.isVoid]
  intro a
  induction a using jsonInd with
  | void => intro hr wa b hrb wb p _ h hh
            exact scalar _ (fun _ _ e => by cases e) (fun _ e => by cases e) hr wa b hrb wb p h hh
  | null => intro hr wa b hrb wb p _ h hh
            exact scalar _ (fun _ _ e => by cases e) (fun _ e => by cases e) hr wa b hrb wb p h hh
  | bool x => intro hr wa b hrb wb p _ h hh
              exact scalar _ (fun _ _ e => by cases e) (fun _ e => by cases e) hr wa b hrb wb p h hh
  | num x => intro hr wa b hrb wb p _ h hh
             exact scalar _ (fun _ _ e => by cases e) (fun _ e => by cases e) hr wa b hrb wb p h hh
  | str x => intro hr wa b hrb wb p _ h hh
             exact scalar _ (fun _ _ e => by cases e) (fun _ e => by cases e) hr wa b hrb wb p h hh
  | arr t xs ih =>
    intro hr wa b hrb wb p hbv h hh
    have hr0 := hr
    simp only [Json.rawDoc, Bool.and_eq_true, beq_iff_eq] at hr
    obtain ⟨rfl, hrx⟩ := hr
    have nvx : ∀ x ∈ xs, x.isVoid = false := hA _ wa.self
    by_cases hb : ∃ t' ys, b = .arr t' ys
    · obtain ⟨t', ys, rfl⟩ := hb
      simp only [Json.rawDoc, Bool.and_eq_true, beq_iff_eq] at hrb
      obtain ⟨rfl, hry⟩ := hrb
      have nvy : ∀ y ∈ ys, y.isVoid = false := (hB _ wb.self).1
      rw [diffNode_set_set hd] at hh
      rcases List.mem_append.1 hh with hh | hh
      · -- a sub-diff below a keyed member
        obtain ⟨kp, hkp, hin⟩ := List.mem_flatMap.1 hh
        have hkp' := Real.mem_ksort hkp
        obtain ⟨c, part⟩ := kp
        cases part with
        | removed x => simp [subOf] at hin
        | sub d =>
          simp only [subOf] at hin
          obtain ⟨kvs, kvs', hx, hy, _, _, rfl⟩ := DPK.sub_origin' o false p ys xs c d hkp'
          rw [DPK.newPathSetKeys_some hk] at hin
          have := ih _ hx (DES.rawDocList_mem hrx hx) (wa.elem hx) (.obj kvs')
            (DES.rawDocList_mem hry hy) (wb.elem hy) _ (fun e => by cases e) h hin
          exact this.lift_member hx
      · -- the set hunk of the array itself
        obtain ⟨e, real⟩ := RealS.set_hunk_real o p xs ys hh
        refine ⟨real.merge, real.before, real.after,
          ⟨[.set], .setLeaf _ _, e, .inr ⟨[], rfl⟩⟩,
          fun v hv => nvx v (real.rem_mem v hv), .inl (fun v hv => nvy v (real.add_mem v hv)), ?_, ?_⟩
        · rcases real.nonempty with h6 | h6
          · exact .inl h6
          · right
            cases hadd : h.add with
            | nil => exact absurd hadd h6
            | cons y r => exact ⟨y, by simp, nvy y (real.add_mem y (by simp [hadd]))⟩
        · intro v hv
          rcases List.mem_append.1 hv with hv | hv
          · exact .inr ⟨DES.rawDocList_mem hrx (real.rem_mem v hv),
              List.mem_append_left _ (wa.elem (real.rem_mem v hv)).self⟩
          · exact .inr ⟨DES.rawDocList_mem hry (real.add_mem v hv),
              List.mem_append_right _ (wb.elem (real.add_mem v hv)).self⟩
    · rw [diffNode_arr_other (.inl hd) xs b (fun t' ys e => hb ⟨t', ys, e⟩)] at hh
      simp only [List.mem_singleton] at hh
      subst hh
      have : [Json.arr .raw xs] = (Json.arr .raw xs).nodeList := by simp [Json.nodeList, Json.isVoid]
      rw [this]
      refine khunk_value' (.inl rfl) hr0 hrb (.inr (List.mem_append_left _ wa.self)) ?_
      exact .inr (List.mem_append_right _ wb.self)
  | obj kvs ih =>
    intro hr wa b hrb wb p hbv h hh
    by_cases hb : ∃ kvs', b = .obj kvs'
    · obtain ⟨kvs', rfl⟩ := hb
      have hr' := hr
      have hrb' := hrb
      simp only [Json.rawDoc] at hr' hrb'
      have kA := hA _ wa.self
      have kB := hB _ wb.self
      rw [DE.diffNode_obj_obj] at hh
      rcases List.mem_append.1 hh with hh | hh
      · obtain ⟨k, v, hmem, hcase⟩ := RealS.mem_diffKvs o p kvs' hh
        have nv : v.isVoid = false := kA (k, v) hmem
        rcases hcase with ⟨v', hl', hin⟩ | ⟨hn, rfl⟩
        · have hmem' := mem_of_alookup hl'
          have nv' : v'.isVoid = false := kB.1 (k, v') hmem'
          exact (ih k v hmem (DES.rawDocKvs_mem hr' hmem) (wa.val hmem)
            v' (DES.rawDocKvs_mem hrb' hmem') (wb.val hmem') _
            (fun e => by rw [nv'] at e; cases e) h hin).lift_key hmem
        · have : ([] : List Json) = Json.void.nodeList := by simp [Json.nodeList, Json.isVoid]
          refine KHunk.lift_key hmem ?_
          show KHunk _ _ _ _ _ { path := p ++ [.key k], remove := v.nodeList, add := [] }
          rw [this]
          exact khunk_value' (.inl nv) (DES.rawDocKvs_mem hr' hmem) rfl
            (.inr (List.mem_append_left _ (wa.val hmem).self)) (.inl rfl)
      · obtain ⟨kv, hkv, rfl⟩ := List.mem_map.1 hh
        simp only [List.mem_filter, Option.isNone_iff_eq_none] at hkv
        have hkK : kv.1 ∈ K := kB.2 kv hkv.1
        have nv : kv.2.isVoid = false := kB.1 kv hkv.1
        have : ([] : List Json) = Json.void.nodeList := by simp [Json.nodeList, Json.isVoid]
        show KHunk _ _ _ _ _ { path := p ++ [.key kv.1], remove := [], add := kv.2.nodeList }
        rw [this]
        exact khunk_value (.newKey kvs hkK) (.inr nv) rfl
          (DES.rawDocKvs_mem hrb' (k := kv.1) (v := kv.2) hkv.1)
          (.inl rfl) (.inr (List.mem_append_right _ (wb.val (k := kv.1) (v := kv.2) hkv.1).self))
    · rw [DPL.diffNode_obj_other o kvs b (fun kvs' e => hb ⟨kvs', e⟩)] at hh
      simp only [List.mem_singleton] at hh
      subst hh
      refine ⟨rfl, rfl, rfl, ⟨[], .nil _, by simp, .inl ⟨by simp, by simp⟩⟩,
        by simp [Json.isVoid], ?_, .inl (by simp), ?_⟩
      · cases hbb : b.isVoid with
        | false => exact .inl (by simp [hbb])
        | true => exact .inr ⟨hbv hbb, by simp⟩
      · intro v hv
        simp only [List.cons_append, List.nil_append, List.mem_cons, List.not_mem_nil,
          or_false] at hv
        rcases hv with rfl | rfl
        · exact .inr ⟨hr, List.mem_append_left _ wa.self⟩
        · exact .inr ⟨hrb, List.mem_append_right _ wb.self⟩

/-! ## 3. a generated hunk satisfies the premises of the round-trip theorems -/

theorem rawDocKvs_ainsert (k : String) (v : Json) (hv : v.rawDoc = true) :
    ∀ kvs : List (String × Json), rawDocKvs kvs = true → rawDocKvs (ainsert k v kvs) = true
  | [], _ => by simp [ainsert, rawDocKvs, hv]
  | (k', v') :: r, h => by
    simp only [rawDocKvs, Bool.and_eq_true] at h
    unfold ainsert
    split
    · simp [rawDocKvs, hv, h.1, h.2]
    · split
      · simp [rawDocKvs, hv, h.2]
      · simp [rawDocKvs, h.1, rawDocKvs_ainsert k v hv r h.2]

theorem keyVal_rawDoc {kvs : List (String × Json)} (h : rawDocKvs kvs = true) (k : String) :
    (DPK.keyVal kvs k).rawDoc = true := by
  unfold DPK.keyVal
  cases hl : alookup k kvs with
  | none => rfl
  | some v => exact DES.rawDocKvs_mem h (mem_of_alookup hl)

theorem pathFold_rawDoc {kvs : List (String × Json)} (h : rawDocKvs kvs = true) :
    ∀ (ks : List String) (acc : List (String × Json)), rawDocKvs acc = true →
      rawDocKvs (ks.foldl (fun acc k => ainsert k (DPK.keyVal kvs k) acc) acc) = true
  | [], _, ha => ha
  | k :: r, acc, ha => pathFold_rawDoc h r _ (rawDocKvs_ainsert k _ (keyVal_rawDoc h k) acc ha)

/-- the path object of a document as read from text is one -/
theorem pathObjOf_rawDoc {kvs : List (String × Json)} (h : rawDocKvs kvs = true)
    (ks : List String) : rawDocKvs (DPK.pathObjOf ks kvs) = true :=
  pathFold_rawDoc h ks [] rfl

/-- with at least one set key the path object is not `{}` (a key the member lacks is written
    with the value `null`) -/
theorem pathObjOf_nonempty {ks : List String} (hks : ks ≠ []) (kvs : List (String × Json)) :
    (DPK.pathObjOf ks kvs).isEmpty = false := by
  cases ks with
  | nil => exact absurd rfl hks
  | cons k r =>
    have := DPK.pathObjOf_lookup (k :: r) kvs k
    simp only [List.mem_cons, true_or, if_true] at this
    cases hpo : DPK.pathObjOf (k :: r) kvs with
    | nil => rw [hpo] at this; simp [alookup] at this
    | cons _ _ => rfl

/-- a navigation path has no list index -/
theorem Nav.idxOK {K ks : List String} {q : Path} {a : Json} (h : Nav K ks q a) :
    idxOK q = true := by
  induction h with
  | nil _ => rfl
  | key _ _ ih => simpa [NativeRT.idxOK] using ih
  | newKey _ _ => rfl
  | member _ _ ih => simpa [NativeRT.idxOK] using ih
  | setLeaf _ _ => rfl

/-- … its key objects are plain documents, and not `{}` when there is at least one set key -/
theorem Nav.facts {K ks : List String} (hks : ks ≠ []) {q : Path} {a : Json} (h : Nav K ks q a) :
    a.rawDoc = true →
      noEmptySetKeysP q = true ∧ rawDocPath q = true ∧ listDocPath q = true := by
  induction h with
  | nil _ => exact fun _ => ⟨rfl, rfl, rfl⟩
  | @key k v kvs r hm _ ih =>
    intro hr
    simp only [Json.rawDoc] at hr
    obtain ⟨h2, h3, h4⟩ := ih (DES.rawDocKvs_mem hr hm)
    exact ⟨by simpa [noEmptySetKeysP] using h2, by simpa [rawDocPath] using h3,
      by simpa [NativeRT.listDocPath] using h4⟩
  | newKey _ _ => exact fun _ => ⟨rfl, rfl, rfl⟩
  | @member t xs kvs r hm _ ih =>
    intro hr
    simp only [Json.rawDoc, Bool.and_eq_true] at hr
    have hro := DES.rawDocList_mem hr.2 hm
    obtain ⟨h2, h3, h4⟩ := ih hro
    simp only [Json.rawDoc] at hro
    have hraw := pathObjOf_rawDoc hro ks
    have hne := pathObjOf_nonempty hks kvs
    refine ⟨?_, ?_, ?_⟩
    · simp only [noEmptySetKeysP, List.all_cons, hne, Bool.not_false, Bool.true_and] at h2 ⊢
      exact h2
    · simp only [rawDocPath, List.all_cons, hraw, Bool.true_and] at h3 ⊢
      exact h3
    · simp only [NativeRT.listDocPath, rawDocKvs_listDocKvs _ hraw, h4, Bool.and_self]
  | setLeaf _ _ => exact fun _ => ⟨rfl, rfl, rfl⟩

section
variable {S : List Json} {K ks : List String} {a : Json} {h : Hunk}

theorem KHunk.remLines (hk : KHunk S K ks a [] h) : remLines h = h.remove :=
  E2E.filter_nonvoid_self hk.remNV

theorem KHunk.addLines (hk : KHunk S K ks a [] h) :
    addLines h = h.add.filter (fun v => !v.isVoid) := by
  unfold NativeRT.addLines; rw [hk.strict]; rfl

theorem KHunk.nav (hk : KHunk S K ks a [] h) : Nav K ks h.path a := by
  obtain ⟨q, hq, hpath, _⟩ := hk.path
  rw [hpath, List.nil_append]
  exact hq

theorem KHunk.pathFacts (hks : ks ≠ []) (ha : a.rawDoc = true) (hk : KHunk S K ks a [] h) :
    noEmptySetKeysP h.path = true ∧ rawDocPath h.path = true ∧ listDocPath h.path = true :=
  hk.nav.facts hks ha

theorem KHunk.wfHunk (hk : KHunk S K ks a [] h) : wfHunk h = true := by
  unfold NativeRT.wfHunk
  rw [hk.remLines, hk.addLines, hk.before]
  simp only [Bool.and_eq_true, Bool.or_eq_true]
  refine ⟨⟨⟨hk.nav.idxOK, rfl⟩, ?_⟩, ?_⟩
  · rcases hk.some with h1 | ⟨v, hv, nv⟩
    · left
      cases hr : h.remove with
      | nil => exact absurd hr h1
      | cons x r => rfl
    · right
      have : v ∈ h.add.filter (fun v => !v.isVoid) := List.mem_filter.2 ⟨hv, by simp [nv]⟩
      cases hf : h.add.filter (fun v => !v.isVoid) with
      | nil => rw [hf] at this; cases this
      | cons x r => rfl
  · obtain ⟨q, hq, hpath, hmul⟩ := hk.path
    rcases hmul with ⟨h1, h2⟩ | ⟨q', rfl⟩
    · left
      have := List.length_filter_le (fun v : Json => !v.isVoid) h.add
      exact ⟨by simp only [decide_eq_true_eq]; omega, by simpa using h1⟩
    · right
      rw [hpath, List.nil_append]
      exact E2ES.multiLast_snoc_set _

theorem KHunk.voidOK (hk : KHunk S K ks a [] h) : voidOK h = true := by
  unfold Robust.voidOK
  rw [hk.strict]
  have hr : Robust.noVoid h.remove = true := by
    unfold Robust.noVoid; rw [List.all_eq_true]; intro v hv; simp [hk.remNV v hv]
  simp only [Bool.false_eq_true, if_false, Bool.or_eq_true, Bool.and_eq_true]
  rcases hk.addNV with h1 | ⟨h1, h2⟩
  · left
    refine ⟨hr, ?_⟩
    unfold Robust.noVoid; rw [List.all_eq_true]; intro v hv; simp [h1 v hv]
  · right
    refine ⟨⟨by rw [h1]; rfl, by unfold voidAlone; simp [hr]⟩, ?_⟩
    unfold voidAlone; simp [h2]

theorem KHunk.payRaw (hk : KHunk S K ks a [] h) : ∀ v ∈ h.remove ++ h.add, v.rawDoc = true := by
  intro v hv
  rcases hk.pay v hv with h1 | h1
  · cases v <;> simp [Json.isVoid] at h1; rfl
  · exact h1.1

theorem KHunk.rawHunk (hks : ks ≠ []) (ha : a.rawDoc = true) (hk : KHunk S K ks a [] h) :
    rawHunk h = true := by
  unfold Robust.rawHunk
  rw [hk.before, hk.after]
  simp only [rawDocList, Bool.true_and, Bool.and_true, Bool.and_eq_true]
  exact ⟨⟨E2ES.rawDocList_of_forall (fun v hv => hk.payRaw v (by simp [hv])),
    E2ES.rawDocList_of_forall (fun v hv => hk.payRaw v (by simp [hv]))⟩, (hk.pathFacts hks ha).2.1⟩

theorem KHunk.listDocHunk (hks : ks ≠ []) (ha : a.rawDoc = true)
    (hk : KHunk S K ks a [] h) : listDocHunk h = true := by
  have hr := hk.rawHunk hks ha
  simp only [Robust.rawHunk, Bool.and_eq_true] at hr
  unfold NativeRT.listDocHunk Spec.hunkListDoc
  simp only [Bool.and_eq_true]
  exact ⟨⟨⟨⟨rawDocList_listDocList _ hr.1.1.1.1, rawDocList_listDocList _ hr.1.1.1.2⟩,
    rawDocList_listDocList _ hr.1.1.2⟩, rawDocList_listDocList _ hr.1.2⟩, (hk.pathFacts hks ha).2.2⟩

theorem KHunk.payloads (hk : KHunk S K ks a [] h) : ∀ v ∈ payloads h, v ∈ S := by
  intro v hv
  unfold NativeRT.payloads at hv
  obtain ⟨h1, h2⟩ := List.mem_filter.1 hv
  rw [hk.before, hk.after, List.nil_append, List.append_nil] at h1
  rcases hk.pay v h1 with h3 | h3
  · simp [h3] at h2
  · exact h3.2

end

/-! ## 4. SetKeys reading, strict strategy: the premises hold of `a.Diff(b)` -/

theorem kidsNV_of_voidFree {x : Json} (hv : E2E.voidFree x = true) :
    ∀ z ∈ subterms x, E2E.KidsNV z := fun z hz => (E2ES.kidsKeys_of_voidFree hv _ (fun _ h => h) z hz).1

/-- **the generated hunks** (`KHunk`): strict; no context; a path that navigates the first document
    (`Nav`: keys, keyed-member elements `{"k":v,…}` built from a member of the array at hand, a final
    key of the second document, a final `{}` at an array); several removed / added values only with
    the final `{}`; no void entry except the `+ void` of an object replaced by the absent document
    at the root; at least one `-` / `+` line; every payload value is a plain document and a
    sub-term of `a` or `b`.  No hash hypothesis, no `wf`, nothing on the precision. -/
theorem diffM_khunk {o : Opts} {ks : List String} (hd : dispatchTag o = .set)
    (hk : keysOf o = some ks) (hmg : isMerge o = false)
    (a b : Json) (ha : a.rawDoc = true) (hb : b.rawDoc = true)
    (hva : E2E.voidFree a = true) (hvb : E2E.voidFree b = true) :
    ∀ h ∈ diffM o a b, KHunk (subterms a ++ subterms b) (E2E.docKeys b) ks a [] h := by
  intro h hh
  unfold diffM at hh
  rw [hmg] at hh
  exact kdiff_ok hd hk _ (kidsNV_of_voidFree hva)
    (E2ES.kidsKeys_of_voidFree hvb _ (fun k hk => hk))
    a ha (DES.within_subterms a) b hb (DES.within_subterms b) [] (fun _ => rfl) h hh

/-- **the premises of the round-trip theorems hold of `a.Diff(b)`, SetKeys reading with at least
    one set key**: the hunk sequence is in the domain of the reader (`wfDiff`); every hunk is
    tag-free (`rawHunk`), has no `{}`-keyed path element (`noEmptySetKeys`), harmless void entries
    (`voidOK`), re-renders identically (`listDocHunk`), is strict, context-free and its path
    navigates `a` (`Nav`) -/
theorem diffM_premises_setkeys {o : Opts} {ks : List String} (hd : dispatchTag o = .set)
    (hk : keysOf o = some ks) (hmg : isMerge o = false) (hks : ks ≠ [])
    (a b : Json) (ha : a.rawDoc = true) (hb : b.rawDoc = true)
    (hva : E2E.voidFree a = true) (hvb : E2E.voidFree b = true) :
    wfDiff (diffM o a b) = true ∧ (diffM o a b).all rawHunk = true ∧
    noEmptySetKeys (diffM o a b) = true ∧ (diffM o a b).all voidOK = true ∧
    (diffM o a b).all listDocHunk = true ∧
    (∀ h ∈ diffM o a b, h.merge = false ∧ h.before = [] ∧ h.after = [] ∧
      Nav (E2E.docKeys b) ks h.path a) := by
  have key := diffM_khunk hd hk hmg a b ha hb hva hvb
  refine ⟨?_, ?_, ?_, ?_, ?_, fun h hh =>
    ⟨(key h hh).strict, (key h hh).before, (key h hh).after, (key h hh).nav⟩⟩
  · unfold NativeRT.wfDiff
    rw [Bool.and_eq_true, List.all_eq_true]
    exact ⟨fun h hh => (key h hh).wfHunk,
      E2E.mergeMono_of_strict _ false rfl (fun h hh => (key h hh).strict)⟩
  · rw [List.all_eq_true]; exact fun h hh => (key h hh).rawHunk hks ha
  · unfold Robust.noEmptySetKeys
    rw [List.all_eq_true]; exact fun h hh => ((key h hh).pathFacts hks ha).1
  · rw [List.all_eq_true]; exact fun h hh => (key h hh).voidOK
  · rw [List.all_eq_true]; exact fun h hh => (key h hh).listDocHunk hks ha

/-- the reader's domain needs no hypothesis on the set keys: also with `SetKeys()` (no key) the
    hunk sequence is `wfDiff` and harmless as to void entries — what fails then is
    `noEmptySetKeys` (section 7) -/
theorem diffM_wfDiff_setkeys {o : Opts} {ks : List String} (hd : dispatchTag o = .set)
    (hk : keysOf o = some ks) (hmg : isMerge o = false)
    (a b : Json) (ha : a.rawDoc = true) (hb : b.rawDoc = true)
    (hva : E2E.voidFree a = true) (hvb : E2E.voidFree b = true) :
    wfDiff (diffM o a b) = true ∧ (diffM o a b).all voidOK = true := by
  have key := diffM_khunk hd hk hmg a b ha hb hva hvb
  refine ⟨?_, ?_⟩
  · unfold NativeRT.wfDiff
    rw [Bool.and_eq_true, List.all_eq_true]
    exact ⟨fun h hh => (key h hh).wfHunk,
      E2E.mergeMono_of_strict _ false rfl (fun h hh => (key h hh).strict)⟩
  · rw [List.all_eq_true]; exact fun h hh => (key h hh).voidOK

/-- every payload value of the diff is (literally) a sub-term of `a` or of `b` -/
theorem diffM_payloads_setkeys {o : Opts} {ks : List String} (hd : dispatchTag o = .set)
    (hk : keysOf o = some ks) (hmg : isMerge o = false)
    (a b : Json) (ha : a.rawDoc = true) (hb : b.rawDoc = true)
    (hva : E2E.voidFree a = true) (hvb : E2E.voidFree b = true) :
    ∀ h ∈ diffM o a b, ∀ v ∈ payloads h, v ∈ subterms a ++ subterms b :=
  fun h hh => (diffM_khunk hd hk hmg a b ha hb hva hvb h hh).payloads

/-- the codec contract of `NativeRT.read_render` for the diff, from the contract on the sub-terms of
    the two documents and on the paths of the diff -/
theorem diffM_codecOK_setkeys (nc : NumCodec) {o : Opts} {ks : List String}
    (hd : dispatchTag o = .set) (hk : keysOf o = some ks) (hmg : isMerge o = false)
    (a b : Json) (ha : a.rawDoc = true) (hb : b.rawDoc = true)
    (hva : E2E.voidFree a = true) (hvb : E2E.voidFree b = true)
    (hv : ∀ z ∈ subterms a ++ subterms b, ValOK nc z)
    (hpth : ∀ h ∈ diffM o a b, PathOK nc h.path) :
    CodecOK nc (diffM o a b) :=
  fun h hh => ⟨hpth h hh, fun v hv' =>
    hv v (diffM_payloads_setkeys hd hk hmg a b ha hb hva hvb h hh v hv')⟩

/-- the input-level form of the path hypothesis: the contract on all paths that navigate `a`
    (finitely many: `Nav` follows the structure of `a`) -/
theorem diffM_pathOK_of_inputs_setkeys {P : Path → Prop} {o : Opts} {ks : List String}
    (hd : dispatchTag o = .set) (hk : keysOf o = some ks) (hmg : isMerge o = false)
    (a b : Json) (ha : a.rawDoc = true) (hb : b.rawDoc = true)
    (hva : E2E.voidFree a = true) (hvb : E2E.voidFree b = true)
    (hpaths : ∀ p, Nav (E2E.docKeys b) ks p a → P p) :
    ∀ h ∈ diffM o a b, P h.path :=
  fun h hh => hpaths _ (diffM_khunk hd hk hmg a b ha hb hva hvb h hh).nav

/-! ## 5. the text is a lossless carrier; the end-to-end theorem -/

/-- **C02 for every diff PRODUCED by `Diff` in the SetKeys reading (strict strategy, at least one
    set key): the text is a lossless carrier.** The printed text of `a.Diff(b, SetKeys(ks...))` is
    read back as a diff that renders to the IDENTICAL text and has EXACTLY the same effect as
    `a.Diff(b)` on EVERY document `c` (whatever its array tags).  The only hypotheses on the
    documents: plain arrays (`rawDoc`) and no void constituent; no hash hypothesis at all. -/
theorem diff_text_lossless_setkeys (nc : NumCodec) {o : Opts} {ks : List String}
    (hd : dispatchTag o = .set) (hk : keysOf o = some ks) (hmg : isMerge o = false)
    (hks : ks ≠ []) (a b : Json) (ha : a.rawDoc = true) (hb : b.rawDoc = true)
    (hva : E2E.voidFree a = true) (hvb : E2E.voidFree b = true)
    (hv : ∀ z ∈ subterms a ++ subterms b, ValOK nc z)
    (hpth : ∀ h ∈ diffM o a b, PathOK nc h.path)
    (text : String) (hr : renderM nc [] (diffM o a b) = some text) :
    ∃ d', readDiffM nc text = .ok d' ∧ renderM nc [] d' = some text ∧
      ∀ c : Json, patchM c d' = patchM c (diffM o a b) := by
  obtain ⟨hw, h1, h2, h3, h4, _⟩ := diffM_premises_setkeys hd hk hmg hks a b ha hb hva hvb
  have hc := diffM_codecOK_setkeys nc hd hk hmg a b ha hb hva hvb hv hpth
  refine ⟨normDiff (diffM o a b), read_render nc _ text hw hc hr, ?_, fun c => ?_⟩
  · rw [render_norm nc _ h4, hr]
  · exact patchAll_normDiff_of_noEmptySetKeys true _ h1 h2 h3 c

/-- **C02 end to end, SetKeys reading, strict strategy.** The text printed for
    `a.Diff(b, SetKeys(ks...))` is read back as a diff `d'`, and the LIBRARY's `a.Patch(d')` succeeds
    with a document that `Equals` `b` under the options of the diff, is equivalent to `b` (`equivB`)
    and has the hash code of `b`; it is the SAME document as the one the in-memory patch gives. -/
theorem diff_render_read_patch_setkeys (F : FloatEq0) (L : FloatLaws) (nc : NumCodec) (o : Opts)
    (ks : List String) (hd : dispatchTag o = .set) (hk : keysOf o = some ks)
    (hmg : isMerge o = false) (hp : precOf o = 0) (hks : ks ≠ []) (a b : Json)
    (ha : a.setDoc = true) (hb : b.setDoc = true)
    (hva : E2E.voidFree a = true) (hvb : E2E.voidFree b = true)
    (KH : DPK.KeysHyp o ks a b)
    (hv : ∀ z ∈ subterms a ++ subterms b, ValOK nc z)
    (hpth : ∀ h ∈ diffM o a b, PathOK nc h.path)
    (text : String) (hr : renderM nc [] (diffM o a b) = some text) :
    ∃ d', readDiffM nc text = .ok d' ∧ d' = normDiff (diffM o a b) ∧
      ∃ r, patchM a d' = .ok r ∧ patchM a (diffM o a b) = .ok r ∧
        equals o r b = true ∧ equivB o r b = true ∧ hashCode o r = hashCode o b := by
  have ha' := ha
  have hb' := hb
  simp only [Json.setDoc, Bool.and_eq_true] at ha' hb'
  obtain ⟨hw, h1, h2, h3, _, _⟩ :=
    diffM_premises_setkeys hd hk hmg hks a b ha'.1.1.1 hb'.1.1.1 hva hvb
  have hc := diffM_codecOK_setkeys nc hd hk hmg a b ha'.1.1.1 hb'.1.1.1 hva hvb hv hpth
  obtain ⟨r, hr1, hr2, hr3, hr4⟩ := DPK.diff_then_patch_setkeys F L true o ks hd hk hmg hp a b ha hb
    (E2E.memOK_of_voidFree hva) (E2E.memOK_of_voidFree hvb) KH
  refine ⟨normDiff (diffM o a b), read_render nc _ text hw hc hr, rfl, r, ?_, hr1, hr2, hr3, hr4⟩
  show patchAll true a (normDiff (diffM o a b)) = .ok r
  rw [patchAll_normDiff_of_noEmptySetKeys true _ h1 h2 h3 a]
  exact hr1

/-- `a.Diff(b).Render()` succeeds when `json.Marshal` succeeds on every sub-term of `a` and `b` and
    on the paths of the diff -/
theorem diffM_renders_setkeys (nc : NumCodec) {o : Opts} {ks : List String}
    (hd : dispatchTag o = .set) (hk : keysOf o = some ks) (hmg : isMerge o = false)
    (a b : Json) (ha : a.rawDoc = true) (hb : b.rawDoc = true)
    (hva : E2E.voidFree a = true) (hvb : E2E.voidFree b = true)
    (hmv : ∀ z ∈ subterms a ++ subterms b, (marshalNode nc z).isSome = true)
    (hmp : ∀ h ∈ diffM o a b, (jsonM nc (pathToJson h.path)).isSome = true) :
    ∃ text, renderM nc [] (diffM o a b) = some text :=
  E2E.renderM_isSome nc _ (fun h hh => E2E.renderHunk_isSome nc h (hmp h hh) (fun v hv =>
    hmv v (diffM_payloads_setkeys hd hk hmg a b ha hb hva hvb h hh v hv)))

/-- **C02 end to end, SetKeys reading, total form**: the text EXISTS, is read back, and the diff
    read back patches `a` to a document equal to `b` -/
theorem diff_print_read_patch_setkeys (F : FloatEq0) (L : FloatLaws) (nc : NumCodec) (o : Opts)
    (ks : List String) (hd : dispatchTag o = .set) (hk : keysOf o = some ks)
    (hmg : isMerge o = false) (hp : precOf o = 0) (hks : ks ≠ []) (a b : Json)
    (ha : a.setDoc = true) (hb : b.setDoc = true)
    (hva : E2E.voidFree a = true) (hvb : E2E.voidFree b = true)
    (KH : DPK.KeysHyp o ks a b)
    (hv : ∀ z ∈ subterms a ++ subterms b, (marshalNode nc z).isSome = true ∧ ValOK nc z)
    (hpth : ∀ h ∈ diffM o a b, (jsonM nc (pathToJson h.path)).isSome = true ∧ PathOK nc h.path) :
    ∃ text d' r, renderM nc [] (diffM o a b) = some text ∧ readDiffM nc text = .ok d' ∧
      patchM a d' = .ok r ∧ equals o r b = true ∧ equivB o r b = true := by
  have ha' := ha
  have hb' := hb
  simp only [Json.setDoc, Bool.and_eq_true] at ha' hb'
  obtain ⟨text, ht⟩ := diffM_renders_setkeys nc hd hk hmg a b ha'.1.1.1 hb'.1.1.1
    hva hvb (fun z hz => (hv z hz).1) (fun h hh => (hpth h hh).1)
  obtain ⟨d', h1, _, r, h2, _, h3, h4, _⟩ := diff_render_read_patch_setkeys F L nc o ks hd hk hmg hp
    hks a b ha hb hva hvb KH (fun z hz => (hv z hz).2) (fun h hh => (hpth h hh).2) text ht
  exact ⟨text, d', r, ht, h1, h2, h3, h4⟩

/-- the library call with the option list `[SetKeys(ks...)]` (what `jd -setkeys k1,k2 a b` passes;
    the command line rejects an empty key list) -/
theorem patchM_readDiffM_SetKeys (F : FloatEq0) (L : FloatLaws) (nc : NumCodec)
    (ks : List String) (hks : ks ≠ []) (a b : Json)
    (ha : a.setDoc = true) (hb : b.setDoc = true)
    (hva : E2E.voidFree a = true) (hvb : E2E.voidFree b = true)
    (KH : DPK.KeysHyp [.setKeys ks] ks a b)
    (hv : ∀ z ∈ subterms a ++ subterms b, ValOK nc z)
    (hpth : ∀ h ∈ diffM [.setKeys ks] a b, PathOK nc h.path)
    (text : String) (hr : renderM nc [] (diffM [.setKeys ks] a b) = some text) :
    ∃ d', readDiffM nc text = .ok d' ∧
      ∃ r, patchM a d' = .ok r ∧ equals [.setKeys ks] r b = true ∧
        equivB [.setKeys ks] r b = true := by
  obtain ⟨d', h1, _, r, h2, _, h3, h4, _⟩ := diff_render_read_patch_setkeys F L nc [.setKeys ks] ks
    rfl rfl rfl rfl hks a b ha hb hva hvb KH hv hpth text hr
  exact ⟨d', h1, r, h2, h3, h4⟩

/-- the text pipeline gives exactly the outcome of the in-memory patch (total form of
    `diff_text_lossless_setkeys` on the source document) -/
theorem text_outcome_eq_memory (nc : NumCodec) {o : Opts} {ks : List String}
    (hd : dispatchTag o = .set) (hk : keysOf o = some ks) (hmg : isMerge o = false)
    (hks : ks ≠ []) (a b : Json) (ha : a.rawDoc = true) (hb : b.rawDoc = true)
    (hva : E2E.voidFree a = true) (hvb : E2E.voidFree b = true)
    (hv : ∀ z ∈ subterms a ++ subterms b, (marshalNode nc z).isSome = true ∧ ValOK nc z)
    (hpth : ∀ h ∈ diffM o a b, (jsonM nc (pathToJson h.path)).isSome = true ∧ PathOK nc h.path) :
    ∃ text d', renderM nc [] (diffM o a b) = some text ∧ readDiffM nc text = .ok d' ∧
      ∀ c : Json, patchM c d' = patchM c (diffM o a b) := by
  obtain ⟨text, ht⟩ := diffM_renders_setkeys nc hd hk hmg a b ha hb hva hvb
    (fun z hz => (hv z hz).1) (fun h hh => (hpth h hh).1)
  obtain ⟨d', h1, _, h2⟩ := diff_text_lossless_setkeys nc hd hk hmg hks a b ha hb hva hvb
    (fun z hz => (hv z hz).2) (fun h hh => (hpth h hh).2) text ht
  exact ⟨text, d', ht, h1, h2⟩

end Jd.E2EK

/-! ### axioms -/
#print axioms Jd.E2EK.kdiff_ok
#print axioms Jd.E2EK.diffM_khunk
#print axioms Jd.E2EK.diffM_premises_setkeys
#print axioms Jd.E2EK.diffM_wfDiff_setkeys
#print axioms Jd.E2EK.diffM_payloads_setkeys
#print axioms Jd.E2EK.diffM_codecOK_setkeys
#print axioms Jd.E2EK.diffM_pathOK_of_inputs_setkeys
#print axioms Jd.E2EK.diff_text_lossless_setkeys
#print axioms Jd.E2EK.diff_render_read_patch_setkeys
#print axioms Jd.E2EK.diffM_renders_setkeys
#print axioms Jd.E2EK.diff_print_read_patch_setkeys
#print axioms Jd.E2EK.patchM_readDiffM_SetKeys
#print axioms Jd.E2EK.text_outcome_eq_memory
