/-
  JdProofs.RealDiffList — property C07 (v2 library, LIST reading `dispatchTag o = .list`, STRICT
  strategy), clauses 1–3 for arrays whose elements may be CONTAINERS, at full nesting depth.
  Namespace `Jd.RealL`.

  A. `Script` (an ALIGNMENT of two arrays: `keep x y` / `sub x y` / `edit R A` steps), its rendering
     `hunks o p k prev S`, and the loop invariant `diffRest_script`: the cursor walk of
     `jsonList.diffRest` IS the rendering of an alignment whose kept pairs have equal hash codes,
     whose `sub` pairs are same-kind containers with different hash codes and whose `edit` steps
     replace a non-empty run `R` of the first array by a run `A` of the second with position-wise
     different hash codes. `diffNode_aligned`: the same for `diffNode` on two arrays (`Aligned`).
  B. consequences at one array level: every hunk located (`aligned_hunk`), kept elements are not
     mentioned (`kept_not_mentioned`), hunks below an index belong to the `sub` step standing there
     (`hunk_below_index`).
  C. full depth: the joint navigation `Nav` of `a` and `b` (object keys; list indices = positions in
     `b`, the partner in `a` being the one the alignment pairs it with), `Leaf` / `HunkReal`,
     `diffNode_hunk_real` / `diffM_hunk_real`: EVERY hunk of `a.Diff(b)` is real.
  D. what `Nav` means: `Nav.getAt_b` (the path of a hunk, read literally, is a path of `b`),
     `Nav.getAt_a` (in `a` the same keys and, at each list level, the index shifted by the edits
     that precede it: `shiftOf`), `Nav.hash_ne` / `Nav.not_equals` (no step of the navigation enters
     an `Equals` pair of list elements).
  E. the `Equals` forms of clause 3.
  F. clause 1 at full depth: `equal_not_mentioned`, `kept_not_mentioned_deep`.
-/
import JdProofs.ListRecursion

set_option autoImplicit false

namespace Jd.RealL
open Jd Jd.Spec Jd.DPL Jd.Rec

/-! ## A. alignments -/

/-- one step of an alignment of two arrays -/
inductive Step where
  /-- `x` of the first array is kept and stands for `y` of the second -/
  | keep (x y : Json)
  /-- `x` and `y` are containers of the same kind: the diff recurses into the pair -/
  | sub (x y : Json)
  /-- the run `R` of the first array is replaced by the run `A` of the second -/
  | edit (R A : List Json)

abbrev Script := List Step

/-- the elements of the first array a step consumes -/
def Step.src : Step → List Json
  | .keep x _ => [x]
  | .sub x _ => [x]
  | .edit R _ => R

/-- the elements of the second array a step produces -/
def Step.tgt : Step → List Json
  | .keep _ y => [y]
  | .sub _ y => [y]
  | .edit _ A => A

/-- the first array of an alignment -/
def src : Script → List Json
  | [] => []
  | st :: r => st.src ++ src r

/-- the second array of an alignment -/
def tgt : Script → List Json
  | [] => []
  | st :: r => st.tgt ++ tgt r

/-- what the diff guarantees about a step: a kept pair has ONE hash code (list elements are matched
    by hash code); a pair that is recursed into consists of two containers of the same kind with
    DIFFERENT hash codes; an edit removes or adds something and pairs, position by position, values
    with different hash codes -/
def Step.ok (o : Opts) : Step → Prop
  | .keep x y => hashCode o x = hashCode o y
  | .sub x y => sameContainerType o x y = true ∧ hashCode o x ≠ hashCode o y
  | .edit R A => (R ≠ [] ∨ A ≠ []) ∧ Real.HashApart o R A

/-- the hunks an alignment stands for, below the path `p`: `k` is the index (in the SECOND array) of
    the first element the alignment produces, `prev` the element before it (void: array start) -/
def hunks (o : Opts) (p : Path) : Nat → Json → Script → Diff
  | _, _, [] => []
  | k, _, .keep _ y :: r => hunks o p (k + 1) y r
  | k, _, .sub x y :: r => diffNode o false x y (p ++ [.idx (k : Int)]) ++ hunks o p (k + 1) y r
  | k, prev, .edit R A :: r =>
    { path := p ++ [.idx (k : Int)], before := [prev], remove := R, add := A,
      after := [(src r).headD .void] } :: hunks o p (k + A.length) (A.getLast?.getD prev) r

@[simp] theorem src_nil : src [] = [] := rfl
@[simp] theorem tgt_nil : tgt [] = [] := rfl
@[simp] theorem src_cons (st : Step) (r : Script) : src (st :: r) = st.src ++ src r := rfl
@[simp] theorem tgt_cons (st : Step) (r : Script) : tgt (st :: r) = st.tgt ++ tgt r := rfl

theorem src_append : ∀ (S1 S2 : Script), src (S1 ++ S2) = src S1 ++ src S2
  | [], _ => rfl
  | st :: r, S2 => by simp [src_append r S2]

theorem tgt_append : ∀ (S1 S2 : Script), tgt (S1 ++ S2) = tgt S1 ++ tgt S2
  | [], _ => rfl
  | st :: r, S2 => by simp [tgt_append r S2]

/-- the pending hunk of the walk, as a script -/
def editIf (R A : List Json) : Script :=
  if R.isEmpty && A.isEmpty then [] else [.edit R A]

theorem src_editIf (R A : List Json) : src (editIf R A) = R := by
  unfold editIf
  split
  · next h =>
    simp only [Bool.and_eq_true, List.isEmpty_iff] at h
    simp [h.1]
  · simp [Step.src]

theorem tgt_editIf (R A : List Json) : tgt (editIf R A) = A := by
  unfold editIf
  split
  · next h =>
    simp only [Bool.and_eq_true, List.isEmpty_iff] at h
    simp [h.2]
  · simp [Step.tgt]

theorem ok_editIf {o : Opts} {R A : List Json} (h : Real.HashApart o R A) :
    ∀ st ∈ editIf R A, st.ok o := by
  unfold editIf
  split
  · intro st hst; cases hst
  · next hne =>
    intro st hst
    simp only [List.mem_singleton] at hst
    subst hst
    refine ⟨?_, h⟩
    simp only [Bool.and_eq_true, List.isEmpty_iff, not_and] at hne
    by_cases hR : R = []
    · exact .inr (hne hR)
    · exact .inl hR

/-- flushing the pending hunk in front of the rest of the walk -/
theorem accHunk_append_hunks (o : Opts) (p : Path) (s : Nat) (prev : Json) (R A : List Json)
    (S' : Script) :
    accHunk p s prev R A ((src S').headD .void) ++
        hunks o p (s + A.length) (A.getLast?.getD prev) S' =
      hunks o p s prev (editIf R A ++ S') := by
  unfold accHunk editIf
  split
  · next h =>
    simp only [Bool.and_eq_true, List.isEmpty_iff] at h
    simp [h.2]
  · simp [hunks]

/-- **the loop invariant**: the cursor walk of `jsonList.diffRest` is the rendering of an alignment
    of `R ++ a` (what is pending to be removed, then the remaining elements of the first array) and
    `A ++ b`. Hypotheses as in `Rec.diffRest_located_containers` and `Real.diffRest_hashApart`: `c` is
    a LONGEST common subsequence of the remaining hash lists; the sub-diff of two remaining
    elements is empty only for equal hash codes; no typed list against a plain array; the pending
    `R`, `A` are hash-apart and the walk is in the phase they indicate. The alignment does not
    depend on the path `p`. -/
theorem diffRest_script (o : Opts) :
    ∀ (n : Nat) (a b : List Json), a.length + b.length = n →
      (∀ x ∈ a, ∀ y ∈ b, mixedPair x y = false) →
      ∀ (k s : Nat) (prev : Json) (c : List UInt64) (R A : List Json),
        EmptyMeansSameHash o a b → LOpt c (hashList o a) (hashList o b) →
        Real.HashApart o R A →
        (R.length < A.length → ∃ x a', a = x :: a' ∧ atC o x c = true) →
        (A.length < R.length → ∃ y b', b = y :: b' ∧ atC o y c = true) →
        k = s + A.length →
        ∃ S : Script, src S = R ++ a ∧ tgt S = A ++ b ∧ (∀ st ∈ S, st.ok o) ∧
          ∀ p, diffRest o p k s prev a b c R A = hunks o p s prev S := by
  intro n
  induction n using Nat.strongRecOn with
  | _ n ih =>
    intro a b hn hnm k s prev c R A hE hL hRA hphA hphB hk
    cases a with
    | nil =>
      have hc : c = [] := Real.lopt_nil_left hL
      have hle : R.length ≤ A.length := by
        apply Nat.le_of_not_lt
        intro hlt
        obtain ⟨y, b', _, hy⟩ := hphB hlt
        rw [hc] at hy
        simp [atC] at hy
      refine ⟨editIf R (A ++ b), by simp [src_editIf], by simp [tgt_editIf],
        ok_editIf (hRA.append_right hle b), fun p => ?_⟩
      rw [diffRest_nilA]
      have := accHunk_append_hunks o p s prev R (A ++ b) []
      simpa [hunks] using this
    | cons x a' =>
      cases b with
      | nil =>
        have hc : c = [] := Real.lopt_nil_right hL
        have hle : A.length ≤ R.length := by
          apply Nat.le_of_not_lt
          intro hlt
          obtain ⟨x0, a0, _, hx⟩ := hphA hlt
          rw [hc] at hx
          simp [atC] at hx
        refine ⟨editIf (R ++ x :: a') A, by simp [src_editIf], by simp [tgt_editIf],
          ok_editIf (hRA.append_left hle _), fun p => ?_⟩
        rw [diffRest_nilB _ _ _ _ _ _ _ _ _ (by simp)]
        have := accHunk_append_hunks o p s prev (R ++ x :: a') A []
        simpa [hunks] using this
      | cons y b' =>
        simp only [List.length_cons] at hn
        have hAA : ∀ z ∈ a', ∀ w ∈ b', mixedPair z w = false := fun z hz w hw =>
          hnm z (List.mem_cons_of_mem _ hz) w (List.mem_cons_of_mem _ hw)
        have hA1 : ∀ z ∈ a', ∀ w ∈ y :: b', mixedPair z w = false := fun z hz w hw =>
          hnm z (List.mem_cons_of_mem _ hz) w hw
        have h1B : ∀ z ∈ x :: a', ∀ w ∈ b', mixedPair z w = false := fun z hz w hw =>
          hnm z hz w (List.mem_cons_of_mem _ hw)
        rw [hashList_cons, hashList_cons] at hL
        have hxA : ∀ x0 a0, x :: a' = x0 :: a0 → atC o x0 c = true → atC o x c = true := by
          intro x0 a0 e hx; cases e; exact hx
        have hyB : ∀ y0 b0, y :: b' = y0 :: b0 → atC o y0 c = true → atC o y c = true := by
          intro y0 b0 e hy; cases e; exact hy
        cases hA : atC o x c with
        | true =>
          cases hB : atC o y c with
          | true =>
            -- both cursor elements are the next common element: flush, keep
            have hxy : hashCode o x = hashCode o y := atC_both_hash hA hB
            have hL' : LOpt c.tail (hashList o a') (hashList o b') := by
              have hc := atC_true hA
              rw [hc, ← hxy] at hL
              exact hL.both
            obtain ⟨S', e1, e2, hok, hd⟩ := ih (a'.length + b'.length) (by omega) a' b' rfl hAA
              (k + 1) (k + 1) y c.tail [] [] hE.tailA.tailB hL' (Real.HashApart.nil o) (by simp)
              (by simp) (by simp)
            refine ⟨editIf R A ++ .keep x y :: S', ?_, ?_, ?_, fun p => ?_⟩
            · simp [src_append, src_editIf, Step.src, e1]
            · simp [tgt_append, tgt_editIf, Step.tgt, e2]
            · intro st hst
              rcases List.mem_append.1 hst with hst | hst
              · exact ok_editIf hRA st hst
              · rcases List.mem_cons.1 hst with rfl | hst
                · exact hxy
                · exact hok st hst
            · rw [diffRest_cons]
              simp only [hA, hB, Bool.and_self, if_true]
              rw [hd p, ← accHunk_append_hunks]
              simp [hunks, Step.src, hk]
          | false =>
            -- `x` is the next common element: add `y`
            have hle : R.length ≤ A.length := by
              apply Nat.le_of_not_lt
              intro hlt
              obtain ⟨y0, b0, e, hy⟩ := hphB hlt
              rw [hyB y0 b0 e hy] at hB
              cases hB
            obtain ⟨S', e1, e2, hok, hd⟩ := ih ((x :: a').length + b'.length) (by simp; omega)
              (x :: a') b' rfl h1B (k + 1) s prev c R (A ++ [y]) hE.tailB
              (by rw [hashList_cons]; exact hL.skipB (atC_false hB))
              (hRA.append_right hle _) (fun _ => ⟨x, a', rfl, hA⟩)
              (by
                intro hlt
                simp only [List.length_append, List.length_cons, List.length_nil] at hlt
                omega)
              (by simp; omega)
            refine ⟨S', e1, by simp [e2], hok, fun p => ?_⟩
            rw [diffRest_cons]
            simp only [hA, hB, Bool.and_false, Bool.false_eq_true, if_false, if_true]
            exact hd p
        | false =>
          have hleA : A.length ≤ R.length := by
            apply Nat.le_of_not_lt
            intro hlt
            obtain ⟨x0, a0, e, hx⟩ := hphA hlt
            rw [hxA x0 a0 e hx] at hA
            cases hA
          cases hB : atC o y c with
          | true =>
            -- `y` is the next common element: remove `x`
            obtain ⟨S', e1, e2, hok, hd⟩ := ih (a'.length + (y :: b').length) (by simp; omega)
              a' (y :: b') rfl hA1 k s prev c (R ++ [x]) A hE.tailA
              (by rw [hashList_cons]; exact hL.skipA (atC_false hA))
              (hRA.append_left hleA _)
              (by
                intro hlt
                simp only [List.length_append, List.length_cons, List.length_nil] at hlt
                omega)
              (fun _ => ⟨y, b', rfl, hB⟩) hk
            refine ⟨S', by simp [e1], e2, hok, fun p => ?_⟩
            rw [diffRest_cons]
            simp only [hA, hB, Bool.false_and, Bool.false_eq_true, if_false, if_true]
            exact hd p
          | false =>
            have hleB : R.length ≤ A.length := by
              apply Nat.le_of_not_lt
              intro hlt
              obtain ⟨y0, b0, e, hy⟩ := hphB hlt
              rw [hyB y0 b0 e hy] at hB
              cases hB
            have hlen : R.length = A.length := by omega
            have hne : hashCode o x ≠ hashCode o y := by
              intro e
              rw [← e] at hL
              exact hL.heads_ne (atC_false hA)
            have hL' : LOpt c (hashList o a') (hashList o b') :=
              (hL.skipA (atC_false hA)).skipB (atC_false hB)
            cases hsame : sameContainerType o x y with
            | false =>
              -- different kinds: replace `x` by `y` in the pending hunk
              obtain ⟨S', e1, e2, hok, hd⟩ := ih (a'.length + b'.length) (by omega) a' b' rfl hAA
                (k + 1) s prev c (R ++ [x]) (A ++ [y]) hE.tailA.tailB hL' (hRA.snoc hlen hne)
                (by
                  intro hlt
                  simp only [List.length_append, List.length_cons, List.length_nil] at hlt
                  omega)
                (by
                  intro hlt
                  simp only [List.length_append, List.length_cons, List.length_nil] at hlt
                  omega)
                (by simp; omega)
              refine ⟨S', by simp [e1], by simp [e2], hok, fun p => ?_⟩
              rw [diffRest_cons]
              simp only [hA, hB, hsame, Bool.false_and, Bool.false_eq_true, if_false]
              exact hd p
            | true =>
              -- same-kind containers: flush, recurse
              obtain ⟨S', e1, e2, hok, hd⟩ := ih (a'.length + b'.length) (by omega) a' b' rfl hAA
                (k + 1) (k + 1) y c [] [] hE.tailA.tailB hL' (Real.HashApart.nil o) (by simp)
                (by simp) (by simp)
              refine ⟨editIf R A ++ .sub x y :: S', ?_, ?_, ?_, fun p => ?_⟩
              · simp [src_append, src_editIf, Step.src, e1]
              · simp [tgt_append, tgt_editIf, Step.tgt, e2]
              · intro st hst
                rcases List.mem_append.1 hst with hst | hst
                · exact ok_editIf hRA st hst
                · rcases List.mem_cons.1 hst with rfl | hst
                  · exact ⟨hsame, hne⟩
                  · exact hok st hst
              · have hD : (diffNode o false x y (p ++ [.idx (k : Int)])).isEmpty = false := by
                  cases hdn : diffNode o false x y (p ++ [.idx (k : Int)]) with
                  | nil => exact absurd (hE x List.mem_cons_self y List.mem_cons_self _ hdn) hne
                  | cons _ _ => rfl
                rw [diffRest_cons]
                simp only [hA, hB, hsame, hD, Bool.false_and, Bool.false_eq_true, if_false, if_true]
                rw [Real.subAfter_diffNode_of_not_mixed o hsame
                  (hnm x List.mem_cons_self y List.mem_cons_self), hd p, List.append_assoc,
                  ← accHunk_append_hunks]
                simp [hunks, Step.src, hk]

/-- `S` is the alignment the diff of the arrays `xs` (tag `t`) and `ys` (tag `t'`) follows: it
    consumes `xs`, produces `ys`, every step is `ok`, and below EVERY path `p` the diff is its
    rendering -/
structure Aligned (o : Opts) (t : Tag) (xs : List Json) (t' : Tag) (ys : List Json) (S : Script) :
    Prop where
  src_eq : src S = xs
  tgt_eq : tgt S = ys
  ok : ∀ st ∈ S, st.ok o
  diff_eq : ∀ p, diffNode o false (.arr t xs) (.arr t' ys) p = hunks o p 0 .void S

/-- **the diff of two arrays is the rendering of an alignment** (containers allowed as elements).
    Hypotheses as in `Rec.diffNode_located_containers`: elements `GoodL` (list documents, sorted
    unique keys, finite numbers, no void member), `NumHashOK` (numbers equal as floats hash alike),
    no typed list against a plain array; NO hash-collision hypothesis. -/
theorem diffNode_aligned {o : Opts} (ho : dispatchTag o = .list) {t t' : Tag} (xs ys : List Json)
    (ht : (t == .raw || t == .list) = true) (ht' : (t' == .raw || t' == .list) = true)
    (htt : t = .raw ∨ t' = .list) (gx : GoodL xs) (gy : GoodL ys)
    (Z : NumHashOK o (subtermsList xs) (subtermsList ys))
    (nomix : ∀ x ∈ xs, ∀ y ∈ ys, mixedPair x y = false) :
    ∃ S, Aligned o t xs t' ys S := by
  obtain ⟨S, e1, e2, hok, hd⟩ := diffRest_script o _ xs ys rfl nomix 0 0 .void
    (lcsValues (hashList o xs) (hashList o ys)) [] []
    (emptyMeansSameHash_of_good ho gx gy Z) (LOpt.lcs _ _) (Real.HashApart.nil o) (by simp)
    (by simp) (by simp)
  exact ⟨S, by simpa using e1, by simpa using e2, hok,
    fun p => by rw [diffNode_arr_arr ho xs ys ht ht' htt p]; exact hd p⟩

/-! ## B. what an alignment says about each hunk -/

theorem getLast?_getD_append {α} (l1 l2 : List α) (d : α) :
    (l1 ++ l2).getLast?.getD d = l2.getLast?.getD (l1.getLast?.getD d) := by
  cases l2 with
  | nil => simp
  | cons x r => simp [List.getLast?_append]

/-- a hunk of a rendered alignment comes from one `edit` step (and is then that step, written at
    the index at which the step starts in the second array, with the neighbours as context), or
    belongs to the sub-diff of one `sub` step (computed below that index) -/
theorem mem_hunks {o : Opts} {p : Path} : ∀ (S : Script) (k : Nat) (prev : Json) {h : Hunk},
    h ∈ hunks o p k prev S →
    (∃ S1 R A S2, S = S1 ++ .edit R A :: S2 ∧
      h = { path := p ++ [.idx ((k + (tgt S1).length : Nat) : Int)],
            before := [(tgt S1).getLast?.getD prev], remove := R, add := A,
            after := [(src S2).headD .void] }) ∨
    (∃ S1 x y S2, S = S1 ++ .sub x y :: S2 ∧
      h ∈ diffNode o false x y (p ++ [.idx ((k + (tgt S1).length : Nat) : Int)]))
  | [], _, _, h, hm => by simp [hunks] at hm
  | .keep x y :: r, k, prev, h, hm => by
    simp only [hunks] at hm
    rcases mem_hunks r (k + 1) y hm with ⟨S1, R, A, S2, e, eh⟩ | ⟨S1, x', y', S2, e, eh⟩
    · refine .inl ⟨.keep x y :: S1, R, A, S2, by simp [e], ?_⟩
      rw [eh]
      simp only [tgt_cons, Step.tgt, List.length_append, List.length_cons, List.length_nil,
        getLast?_getD_append, List.getLast?_singleton, Option.getD_some]
      congr 4
      omega
    · refine .inr ⟨.keep x y :: S1, x', y', S2, by simp [e], ?_⟩
      have e' : k + (tgt (Step.keep x y :: S1)).length = k + 1 + (tgt S1).length := by
        simp [Step.tgt]; omega
      rw [e']; exact eh
  | .sub x y :: r, k, prev, h, hm => by
    simp only [hunks] at hm
    rcases List.mem_append.1 hm with hm | hm
    · exact .inr ⟨[], x, y, r, rfl, by simpa using hm⟩
    · rcases mem_hunks r (k + 1) y hm with ⟨S1, R, A, S2, e, eh⟩ | ⟨S1, x', y', S2, e, eh⟩
      · refine .inl ⟨.sub x y :: S1, R, A, S2, by simp [e], ?_⟩
        rw [eh]
        simp only [tgt_cons, Step.tgt, List.length_append, List.length_cons, List.length_nil,
          getLast?_getD_append, List.getLast?_singleton, Option.getD_some]
        congr 4
        omega
      · refine .inr ⟨.sub x y :: S1, x', y', S2, by simp [e], ?_⟩
        have e' : k + (tgt (Step.sub x y :: S1)).length = k + 1 + (tgt S1).length := by
          simp [Step.tgt]; omega
        rw [e']; exact eh
  | .edit R0 A0 :: r, k, prev, h, hm => by
    simp only [hunks] at hm
    rcases List.mem_cons.1 hm with hm | hm
    · exact .inl ⟨[], R0, A0, r, rfl, by simpa using hm⟩
    · rcases mem_hunks r (k + A0.length) (A0.getLast?.getD prev) hm with
        ⟨S1, R, A, S2, e, eh⟩ | ⟨S1, x', y', S2, e, eh⟩
      · refine .inl ⟨.edit R0 A0 :: S1, R, A, S2, by simp [e], ?_⟩
        rw [eh]
        simp only [tgt_cons, Step.tgt, List.length_append, getLast?_getD_append]
        congr 4
        omega
      · refine .inr ⟨.edit R0 A0 :: S1, x', y', S2, by simp [e], ?_⟩
        have e' : k + (tgt (Step.edit R0 A0 :: S1)).length = k + A0.length + (tgt S1).length := by
          simp [Step.tgt]; omega
        rw [e']; exact eh

theorem split_cases {α} {l1 l2 l1' l2' : List α} {a a' : α}
    (h : l1 ++ a :: l2 = l1' ++ a' :: l2') :
    (l1 = l1' ∧ a = a' ∧ l2 = l2') ∨ (∃ m, l1' = l1 ++ a :: m) ∨ (∃ m, l1 = l1' ++ a' :: m) := by
  rcases List.append_eq_append_iff.1 h with ⟨m, e1, e2⟩ | ⟨m, e1, e2⟩
  · cases m with
    | nil =>
      simp only [List.nil_append, List.cons.injEq] at e2
      exact .inl ⟨by simpa using e1.symm, e2.1, e2.2⟩
    | cons b m' =>
      simp only [List.cons_append, List.cons.injEq] at e2
      exact .inr (.inl ⟨m', by rw [e1, e2.1]⟩)
  · cases m with
    | nil =>
      simp only [List.nil_append, List.cons.injEq] at e2
      exact .inl ⟨by simpa using e1, e2.1.symm, e2.2.symm⟩
    | cons b m' =>
      simp only [List.cons_append, List.cons.injEq] at e2
      exact .inr (.inr ⟨m', by rw [e1, e2.1]⟩)

/-- a step that produces something stands at ONE position of the second array -/
theorem decomp_unique {S1 S2 S1' S2' : Script} {st st' : Step}
    (h : S1 ++ st :: S2 = S1' ++ st' :: S2') (hl : (tgt S1).length = (tgt S1').length)
    (hs : st.tgt ≠ []) (hs' : st'.tgt ≠ []) : S1 = S1' ∧ st = st' ∧ S2 = S2' := by
  rcases split_cases h with e | ⟨m, e⟩ | ⟨m, e⟩
  · exact e
  · exfalso
    rw [e] at hl
    simp only [tgt_append, tgt_cons, List.length_append] at hl
    have := List.length_pos_iff.2 hs
    omega
  · exfalso
    rw [e] at hl
    simp only [tgt_append, tgt_cons, List.length_append] at hl
    have := List.length_pos_iff.2 hs'
    omega

theorem idx_prefix_unique {p l r : Path} {i j : Int} (h1 : (p ++ [PathElem.idx i]) <+: l)
    (h2 : (p ++ PathElem.idx j :: r) <+: l) : i = j := by
  have h2' : (p ++ [PathElem.idx j]) <+: l := by
    refine List.IsPrefix.trans ?_ h2
    exact ⟨r, by simp⟩
  have h3 := List.prefix_of_prefix_length_le h1 h2' (by simp)
  have h4 := h3.eq_of_length (by simp)
  have h5 := List.append_cancel_left h4
  simp only [List.cons.injEq, and_true] at h5
  exact PathElem.idx.inj h5

/-- **localisation below a list index.** A hunk of a rendered alignment whose path goes STRICTLY
    below the index `j` (it starts with `p ++ [j, e]`) belongs to the sub-diff of a `sub` step
    standing at position `j` of the second array -/
theorem hunk_below_index {o : Opts} {p : Path} {S : Script} {h : Hunk}
    (hm : h ∈ hunks o p 0 .void S) {j : Nat} {e : PathElem}
    (hpre : (p ++ [PathElem.idx (j : Int), e]) <+: h.path) :
    ∃ S1 x y S2, S = S1 ++ .sub x y :: S2 ∧ (tgt S1).length = j ∧
      h ∈ diffNode o false x y (p ++ [.idx (j : Int)]) := by
  rcases mem_hunks S 0 .void hm with ⟨S1, R, A, S2, _, eh⟩ | ⟨S1, x, y, S2, e1, eh⟩
  · exfalso
    have := hpre.length_le
    rw [eh] at this
    simp at this
  · have hp1 := Real.diff_paths_extend_general o false x y _ h eh
    have hj : ((0 + (tgt S1).length : Nat) : Int) = (j : Int) := idx_prefix_unique hp1 hpre
    have hj' : (tgt S1).length = j := by omega
    refine ⟨S1, x, y, S2, e1, hj', ?_⟩
    rw [← hj]; exact eh

/-- **clause 1 for list elements, one array level.** An element `y` of the second array that the
    alignment KEEPS (it stands for an element `x` of the first array with the same hash code) is not
    mentioned: no hunk goes below its index `j`, and a hunk addressed to `j` itself adds nothing (it
    removes elements standing before the kept one) -/
theorem kept_not_mentioned {o : Opts} {t t' : Tag} {xs ys : List Json} {S1 S2 : Script} {x y : Json}
    (al : Aligned o t xs t' ys (S1 ++ .keep x y :: S2)) (p : Path) :
    ∀ h ∈ diffNode o false (.arr t xs) (.arr t' ys) p,
      (∀ e, ¬ (p ++ [PathElem.idx ((tgt S1).length : Int), e]) <+: h.path) ∧
      (h.path = p ++ [PathElem.idx ((tgt S1).length : Int)] →
        h.add = [] ∧ ∃ S0 R S0', S1 = S0 ++ .edit R [] :: S0' ∧ tgt S0' = [] ∧ h.remove = R) := by
  intro h hm
  rw [al.diff_eq p] at hm
  constructor
  · intro e hpre
    obtain ⟨S1', x', y', S2', e1, hl, _⟩ := hunk_below_index hm hpre
    have := decomp_unique e1 hl.symm (by simp [Step.tgt]) (by simp [Step.tgt])
    cases this.2.1
  · intro hpath
    rcases mem_hunks _ 0 .void hm with ⟨S1', R, A, S2', e1, eh⟩ | ⟨S1', x', y', S2', e1, eh⟩
    · have hj : ((0 + (tgt S1').length : Nat) : Int) = ((tgt S1).length : Int) := by
        have h1 : (p ++ [PathElem.idx ((0 + (tgt S1').length : Nat) : Int)]) <+: h.path := by
          rw [eh]; exact List.prefix_refl _
        have h2 : (p ++ PathElem.idx ((tgt S1).length : Int) :: []) <+: h.path := by
          rw [hpath]; exact List.prefix_refl _
        exact idx_prefix_unique h1 h2
      have hj' : (tgt S1').length = (tgt S1).length := by omega
      rcases split_cases e1 with e2 | ⟨m, e2⟩ | ⟨m, e2⟩
      · cases e2.2.1
      · exfalso
        rw [e2] at hj'
        simp [tgt_append, Step.tgt] at hj'
      · rw [e2] at hj'
        simp only [tgt_append, tgt_cons, Step.tgt, List.length_append] at hj'
        have hA : A = [] := List.eq_nil_of_length_eq_zero (by omega)
        have hM : tgt m = [] := List.eq_nil_of_length_eq_zero (by omega)
        subst hA
        rw [eh]
        exact ⟨rfl, S1', R, m, e2, hM, rfl⟩
    · exfalso
      have hp1 := Real.diff_paths_extend_general o false x' y' _ h eh
      have hj : ((0 + (tgt S1').length : Nat) : Int) = ((tgt S1).length : Int) := by
        have h2 : (p ++ PathElem.idx ((tgt S1).length : Int) :: []) <+: h.path := by
          rw [hpath]; exact List.prefix_refl _
        exact idx_prefix_unique hp1 h2
      have hj' : (tgt S1').length = (tgt S1).length := by omega
      have := decomp_unique e1 hj'.symm (by simp [Step.tgt]) (by simp [Step.tgt])
      cases this.2.1

/-- **clauses 2 and 3, one array level, static form.** Every hunk of the diff of two arrays is
    * an ARRAY-LEVEL hunk coming from one `edit R A` step of the alignment: addressed to the index at
      which `A` stands in the second array, `remove = R` a contiguous run of the first array,
      `add = A` the contiguous run of the second array at that index, the context lines LITERALLY
      the neighbours (`Real.Located`), not empty, and the j-th removed value and the j-th added
      value have different hash codes; or
    * a hunk of the sub-diff of one `sub x y` step: two same-kind containers with different hash
      codes, `y` standing at the index the sub-diff is addressed to -/
theorem aligned_hunk {o : Opts} {t t' : Tag} {xs ys : List Json} {S : Script}
    (al : Aligned o t xs t' ys S) (p : Path) :
    ∀ h ∈ diffNode o false (.arr t xs) (.arr t' ys) p,
      (Real.Located p xs ys h ∧ Real.HashApart o h.remove h.add ∧
        (h.remove ≠ [] ∨ h.add ≠ []) ∧ h.merge = false) ∨
      (∃ S1 x y S2, S = S1 ++ .sub x y :: S2 ∧ sameContainerType o x y = true ∧
        hashCode o x ≠ hashCode o y ∧
        h ∈ diffNode o false x y (p ++ [.idx ((tgt S1).length : Int)])) := by
  intro h hm
  rw [al.diff_eq p] at hm
  rcases mem_hunks S 0 .void hm with ⟨S1, R, A, S2, e1, eh⟩ | ⟨S1, x, y, S2, e1, eh⟩
  · left
    have hok := al.ok (.edit R A) (by rw [e1]; simp)
    refine ⟨⟨(tgt S1).length, src S1, src S2, tgt S1, tgt S2, ?_, ?_, ?_, rfl, ?_, ?_⟩, ?_, ?_, ?_⟩
    · rw [eh]; simp
    · rw [← al.src_eq, e1, eh]; simp [src_append, Step.src]
    · rw [← al.tgt_eq, e1, eh]; simp [tgt_append, Step.tgt]
    · rw [eh]
    · rw [eh]
    · rw [eh]; exact hok.2
    · rw [eh]; exact hok.1
    · rw [eh]
  · right
    have hok := al.ok (.sub x y) (by rw [e1]; simp)
    exact ⟨S1, x, y, S2, e1, hok.1, hok.2, by simpa using eh⟩

/-! ## C. full depth: joint navigation of `a` and `b`, every hunk is real -/

/-- **joint navigation.** `Nav o a b qa q u w`: following the path `q`, `b` leads to `w`; following `qa`,
    `a` leads to `u`; `q` is the path the hunks carry. An object key enters the member of that name
    on both sides (same key in `qa` and `q`). A list index `j` in `q` enters, in `b`, the element `y`
    at position `j`; in `a` the element `x` that the alignment of the two arrays pairs with `y` by a
    `sub` step (`S1 ++ sub x y :: S2` with `|tgt S1| = j`): `x` stands at position `|src S1|` of the
    first array, which is the index `qa` carries — `j` shifted by the edits of `S1` -/
inductive Nav (o : Opts) : Json → Json → Path → Path → Json → Json → Prop
  | here (a b : Json) : Nav o a b [] [] a b
  | key {kvs kvs' : List (String × Json)} {k : String} {v v' : Json} {qa q : Path} {u w : Json} :
      alookup k kvs = some v → alookup k kvs' = some v' → Nav o v v' qa q u w →
      Nav o (.obj kvs) (.obj kvs') (.key k :: qa) (.key k :: q) u w
  | idx {t t' : Tag} {xs ys : List Json} {S1 S2 : Script} {x y : Json} {qa q : Path} {u w : Json} :
      Aligned o t xs t' ys (S1 ++ .sub x y :: S2) → Nav o x y qa q u w →
      Nav o (.arr t xs) (.arr t' ys) (.idx ((src S1).length : Int) :: qa)
        (.idx ((tgt S1).length : Int) :: q) u w

/-- **what a hunk with path `r` says about the two values `u`, `w` standing at `r`** -/
inductive Leaf (o : Opts) (u w : Json) (r : Path) (h : Hunk) : Prop
  /-- it replaces `u` by `w` as a whole (`Real.RealOpt`: removes what `a` holds, adds what `b` holds,
      and these are not `Equals`) -/
  | value : h.path = r → h.before = [] → h.after = [] → h.merge = false →
      sameContainerType o u w = false → Real.RealOpt o (some u) (some w) h → Leaf o u w r h
  /-- `u`, `w` are objects and it removes or adds the member `k`, present on one side only -/
  | member (kvs kvs' : List (String × Json)) (k : String) : u = .obj kvs → w = .obj kvs' →
      h.path = r ++ [.key k] → h.before = [] → h.after = [] → h.merge = false →
      (alookup k kvs = none ∨ alookup k kvs' = none) →
      Real.RealOpt o (alookup k kvs) (alookup k kvs') h → Leaf o u w r h
  /-- `u`, `w` are arrays and it is the `edit R A` step of their alignment: at the index where `A`
      stands in `w`, removing the run `R` of `u`, with the neighbours as context -/
  | list (t : Tag) (xs : List Json) (t' : Tag) (ys : List Json) (S1 : Script) (R A : List Json)
      (S2 : Script) : u = .arr t xs → w = .arr t' ys →
      Aligned o t xs t' ys (S1 ++ .edit R A :: S2) →
      h = { path := r ++ [.idx ((tgt S1).length : Int)],
            before := [(tgt S1).getLast?.getD .void], remove := R, add := A,
            after := [(src S2).headD .void] } → Leaf o u w r h

/-- the hunk `h` of the diff of `a` and `b` computed below the path `p` is real: its path is `p ++ q`
    (`++ [k]`, `++ [i]`) for a joint navigation `q` of `a` and `b`, and it is a `Leaf` there -/
def HunkReal (o : Opts) (a b : Json) (p : Path) (h : Hunk) : Prop :=
  ∃ qa q u w, Nav o a b qa q u w ∧ Leaf o u w (p ++ q) h

theorem rawDoc_of_mem {x : Json} : ∀ {xs : List Json}, rawDocList xs = true → x ∈ xs →
    x.rawDoc = true
  | [], _, h => by cases h
  | y :: r, hr, h => by
    simp only [rawDocList, Bool.and_eq_true] at hr
    rcases List.mem_cons.1 h with rfl | h
    · exact hr.1
    · exact rawDoc_of_mem hr.2 h

theorem sizeOf_lt_of_mem_arr {x : Json} {t : Tag} {xs : List Json} (h : x ∈ xs) :
    sizeOf x < sizeOf (Json.arr t xs) := by
  have := List.sizeOf_lt_of_mem h
  simp only [Json.arr.sizeOf_spec]
  omega

theorem sizeOf_lt_of_mem_obj {k : String} {v : Json} {kvs : List (String × Json)}
    (h : (k, v) ∈ kvs) : sizeOf v < sizeOf (Json.obj kvs) := by
  have := List.sizeOf_lt_of_mem h
  simp only [Prod.mk.sizeOf_spec] at this
  simp only [Json.obj.sizeOf_spec]
  omega

/-- **clauses 2 and 3 at full depth.** Every hunk of the diff of `a` and `b` below `p` is real.
    `a` as read from text (`rawDoc`), both documents `Good` (list documents, sorted unique keys,
    finite numbers, no void member), numbers of `a` and `b` that are equal as floats hash alike
    (`NumHashOK` on supersets `S`, `T` of the sub-terms), no Precision. -/
theorem diffNode_hunk_real {o : Opts} (ho : dispatchTag o = .list) (hp : precOf o = 0)
    {S T : List Json} (N : NumHashOK o S T) :
    ∀ (n : Nat) (a b : Json), sizeOf a ≤ n → a.rawDoc = true → Good a → Good b →
      Sub (subterms a) S → Sub (subterms b) T →
      ∀ p, ∀ h ∈ diffNode o false a b p, HunkReal o a b p h := by
  intro n
  induction n with
  | zero =>
    intro a b hsz
    exfalso
    cases a <;> simp at hsz
  | succ n ih =>
    intro a b hsz hr ha hb hS hT p h hm
    cases a with
    | obj kvs =>
      have ha' := good_obj.1 ha
      simp only [Json.rawDoc] at hr
      cases b with
      | obj kvs' =>
        have hb' := good_obj.1 hb
        rw [diffNode_obj_obj] at hm
        rcases List.mem_append.1 hm with hm | hm
        · obtain ⟨k, v, hmem, _, hcase⟩ := Real.mem_diffKvs ho hb'.2.listDoc ha'.2.listDoc hm
          have hv : alookup k kvs = some v := alookup_of_mem ha'.1 hmem
          rcases hcase with ⟨v', hv', hmem'⟩ | ⟨hn, he⟩
          · have hlt := sizeOf_lt_of_mem_obj hmem
            obtain ⟨qa, q, u, w, nav, leaf⟩ := ih v v' (by omega) (alookup_rawDoc hv hr)
              (ha'.2.lookup hv).1 (hb'.2.lookup hv').1 (sub_lookup (sub_obj hS) hv)
              (sub_lookup (sub_obj hT) hv') _ h hmem'
            exact ⟨.key k :: qa, .key k :: q, u, w, .key hv hv' nav,
              by simpa [List.append_assoc] using leaf⟩
          · subst he
            refine ⟨[], [], _, _, .here _ _, .member kvs kvs' k rfl rfl (by simp) rfl rfl rfl (.inr hn) ?_⟩
            rw [hv, hn]
            exact Real.realOpt_removeOnly rfl rfl
        · obtain ⟨kv, hkv, rfl⟩ := List.mem_map.1 hm
          simp only [List.mem_filter] at hkv
          have hnone : alookup kv.1 kvs = none := by simpa using hkv.2
          have hsome : alookup kv.1 kvs' = some kv.2 := alookup_of_mem hb'.1 hkv.1
          refine ⟨[], [], _, _, .here _ _,
            .member kvs kvs' kv.1 rfl rfl (by simp) rfl rfl rfl (.inl hnone) ?_⟩
          rw [hnone, hsome]
          exact Real.realOpt_addOnly rfl rfl
      | _ =>
        rw [diffNode_obj_other o kvs _ (by intro kvs' e; cases e)] at hm
        simp only [List.mem_singleton] at hm
        subst hm
        exact ⟨[], [], _, _, .here _ _, .value (by simp) rfl rfl rfl
          (sameContainerType_obj_other (by intro kvs' e; cases e))
          (Real.realOpt_both (.inr rfl) (.inr rfl) (by simp [equals]) (by simp [Real.asList, equals]))⟩
    | arr t xs =>
      simp only [Json.rawDoc, Bool.and_eq_true, beq_iff_eq] at hr
      obtain ⟨rfl, hrx⟩ := hr
      have ha' := good_arr.1 ha
      cases b with
      | arr t' ys =>
        have hb' := good_arr.1 hb
        have nomix : ∀ x ∈ xs, ∀ y ∈ ys, mixedPair x y = false :=
          fun x hx y _ => mixedPair_of_rawDoc_left y (rawDoc_of_mem hrx hx)
        have Z : NumHashOK o (subtermsList xs) (subtermsList ys) :=
          fun u v hu hv => N u v (sub_arr hS _ hu) (sub_arr hT _ hv)
        obtain ⟨Sc, al⟩ := diffNode_aligned ho xs ys rfl hb'.1 (.inl rfl) ha'.2 hb'.2 Z nomix
        rw [al.diff_eq p] at hm
        rcases mem_hunks Sc 0 .void hm with ⟨S1, R, A, S2, e1, eh⟩ | ⟨S1, x, y, S2, e1, eh⟩
        · subst e1
          exact ⟨[], [], _, _, .here _ _, .list _ xs t' ys S1 R A S2 rfl rfl al (by simpa using eh)⟩
        · subst e1
          have hx : x ∈ xs := by rw [← al.src_eq]; simp [src_append, Step.src]
          have hy : y ∈ ys := by rw [← al.tgt_eq]; simp [tgt_append, Step.tgt]
          have hlt := sizeOf_lt_of_mem_arr (t := .raw) hx
          obtain ⟨qa, q, u, w, nav, leaf⟩ := ih x y (by omega) (rawDoc_of_mem hrx hx)
            (ha'.2.of_mem hx) (hb'.2.of_mem hy)
            (fun z hz => sub_arr hS z (subterms_sub_of_mem hx z hz))
            (fun z hz => sub_arr hT z (subterms_sub_of_mem hy z hz)) _ h eh
          refine ⟨.idx ((src S1).length : Int) :: qa, .idx ((tgt S1).length : Int) :: q, u, w,
            .idx al nav, ?_⟩
          simpa [List.append_assoc] using leaf
      | _ =>
        rw [diffNode_arr_other ho xs _ rfl (.inl (by intro t' ys e; cases e))] at hm
        simp only [List.mem_singleton] at hm
        subst hm
        exact ⟨[], [], _, _, .here _ _, .value (by simp) rfl rfl rfl
          (sameContainerType_arr_other (by intro t' ys e; cases e))
          (Real.realOpt_both (.inr rfl) (.inl rfl)
            (equals_kind_ne o _ _ (by simp [Json.kind]))
            (equals_kind_ne o _ _ (by simp [Json.kind, Real.asList])))⟩
    | _ =>
      refine ⟨[], [], _, _, .here _ _, .value ?_ ?_ ?_ ?_
        (sameContainerType_scalar' (by intro t xs e; cases e) (by intro kvs e; cases e))
        (Real.root_scalar_real hp (by intro t xs e; cases e) (by intro kvs e; cases e) hm)⟩ <;>
      · rw [diffNode_scalar o _ b (by intro t xs e; cases e) (by intro kvs e; cases e)] at hm
        unfold diffCommon at hm
        split at hm
        · cases hm
        · simp only [Bool.false_eq_true, if_false, List.mem_singleton] at hm
          subst hm
          simp

/-- `a.Diff(b)` -/
theorem diffM_hunk_real {o : Opts} (ho : dispatchTag o = .list) (hp : precOf o = 0)
    (hm : isMerge o = false) {a b : Json} (hr : a.rawDoc = true) (ha : Good a) (hb : Good b)
    (N : NumHashOK o (subterms a) (subterms b)) :
    ∀ h ∈ diffM o a b, HunkReal o a b [] h := by
  rw [diffM, hm]
  exact diffNode_hunk_real ho hp N _ a b (Nat.le_refl _) hr ha hb (fun _ h => h) (fun _ h => h) []

/-! ## D. what the navigation means -/

/-- the path a hunk carries, read literally, is a path of `b` -/
theorem Nav.getAt_b {o : Opts} {a b : Json} {qa q : Path} {u w : Json} (nav : Nav o a b qa q u w) :
    Real.getAt b q = some w := by
  induction nav with
  | here a b => rfl
  | key hv hv' _ ih => simp [Real.getAt, hv', ih]
  | @idx t t' xs ys S1 S2 x y qa q u w al _ ih =>
    have e : ys = tgt S1 ++ y :: tgt S2 := by
      rw [← al.tgt_eq]; simp [tgt_append, Step.tgt]
    have h0 : ¬ ((tgt S1).length : Int) < 0 := by omega
    simp only [Real.getAt, h0, if_false, Int.toNat_natCast]
    rw [e, getElem?_mid]
    simpa using ih

/-- in `a` the hunk's location is reached by `qa`: the same keys, and at each list level the index
    of the partner element -/
theorem Nav.getAt_a {o : Opts} {a b : Json} {qa q : Path} {u w : Json} (nav : Nav o a b qa q u w) :
    Real.getAt a qa = some u := by
  induction nav with
  | here a b => rfl
  | key hv hv' _ ih => simp [Real.getAt, hv, ih]
  | @idx t t' xs ys S1 S2 x y qa q u w al _ ih =>
    have e : xs = src S1 ++ x :: src S2 := by
      rw [← al.src_eq]; simp [src_append, Step.src]
    have h0 : ¬ ((src S1).length : Int) < 0 := by omega
    simp only [Real.getAt, h0, if_false, Int.toNat_natCast]
    rw [e, getElem?_mid]
    simpa using ih

/-- the two paths have the same shape: the same keys at the same places, list indices at the same
    places -/
def sameShape : Path → Path → Prop
  | [], [] => True
  | .key k :: r, .key k' :: r' => k = k' ∧ sameShape r r'
  | .idx _ :: r, .idx _ :: r' => sameShape r r'
  | _, _ => False

theorem Nav.sameShape {o : Opts} {a b : Json} {qa q : Path} {u w : Json}
    (nav : Nav o a b qa q u w) : sameShape qa q := by
  induction nav with
  | here a b => trivial
  | key _ _ _ ih => exact ⟨rfl, ih⟩
  | idx _ _ ih => exact ih

/-- what an alignment removes (adds) in all: the lengths of its `edit` steps -/
def removedLen : Script → Nat
  | [] => 0
  | .edit R _ :: r => R.length + removedLen r
  | _ :: r => removedLen r

def addedLen : Script → Nat
  | [] => 0
  | .edit _ A :: r => A.length + addedLen r
  | _ :: r => addedLen r

/-- **the index shift**: the position in the first array (`|src S1|`) plus what the preceding edits
    add equals the position in the second array (`|tgt S1|`, the index in the path) plus what they
    remove -/
theorem index_shift : ∀ (S1 : Script),
    (src S1).length + addedLen S1 = (tgt S1).length + removedLen S1
  | [] => rfl
  | .keep _ _ :: r => by
    have := index_shift r
    simp only [src_cons, tgt_cons, Step.src, Step.tgt, List.length_append, List.length_cons,
      List.length_nil, addedLen, removedLen]
    omega
  | .sub _ _ :: r => by
    have := index_shift r
    simp only [src_cons, tgt_cons, Step.src, Step.tgt, List.length_append, List.length_cons,
      List.length_nil, addedLen, removedLen]
    omega
  | .edit R A :: r => by
    have := index_shift r
    simp only [src_cons, tgt_cons, Step.src, Step.tgt, List.length_append, addedLen, removedLen]
    omega

/-- a navigation that ends with a list index ends at a `sub` pair: two containers of the same kind
    with different hash codes -/
theorem Nav.ends_idx {o : Opts} {a b : Json} {qa q : Path} {u w : Json} (nav : Nav o a b qa q u w) :
    ∀ (q' : Path) (i : Int), q = q' ++ [.idx i] →
      sameContainerType o u w = true ∧ hashCode o u ≠ hashCode o w := by
  induction nav with
  | here a b => intro q' i e; simp at e
  | key _ _ _ ih =>
    intro q' i e
    cases q' with
    | nil => simp at e
    | cons e0 r =>
      simp only [List.cons_append, List.cons.injEq] at e
      exact ih r i e.2
  | @idx t t' xs ys S1 S2 x y qa q u w al nav ih =>
    intro q' i e
    cases q' with
    | nil =>
      simp only [List.nil_append, List.cons.injEq] at e
      obtain ⟨_, rfl⟩ := e
      cases nav
      exact al.ok (.sub x y) (by simp)
    | cons e0 r =>
      simp only [List.cons_append, List.cons.injEq] at e
      exact ih r i e.2

theorem domL_mem {x : Json} : ∀ {xs : List Json}, DomL xs → x ∈ xs → Dom x
  | [], _, h => by cases h
  | y :: r, hd, h => by
    rw [domL_cons] at hd
    rcases List.mem_cons.1 h with rfl | h
    · exact hd.1
    · exact domL_mem hd.2 h

/-- navigation stays inside the domain -/
theorem Nav.dom {o : Opts} {a b : Json} {qa q : Path} {u w : Json} (nav : Nav o a b qa q u w) :
    Dom a → Dom b → Dom u ∧ Dom w := by
  induction nav with
  | here a b => exact fun ha hb => ⟨ha, hb⟩
  | key hv hv' _ ih =>
    exact fun ha hb => ih ((dom_obj.1 ha).2.lookup hv) ((dom_obj.1 hb).2.lookup hv')
  | @idx t t' xs ys S1 S2 x y qa q u w al _ ih =>
    intro ha hb
    have hx : x ∈ xs := by rw [← al.src_eq]; simp [src_append, Step.src]
    have hy : y ∈ ys := by rw [← al.tgt_eq]; simp [tgt_append, Step.tgt]
    exact ih (domL_mem (dom_arr.1 ha).2 hx) (domL_mem (dom_arr.1 hb).2 hy)

/-! ## E. the flat reading of a list hunk, and the `Equals` forms of clause 3 -/

/-- **every hunk whose path ends with a list index, at any depth** (`h.path = q ++ [i]`): `b` holds
    an array `ys` at `q` (the path read literally); `a` holds an array `xs` at a path `qa` of the same
    shape (same keys; indices shifted, `Nav`); `remove` is a contiguous run of `xs`, `add` is the
    contiguous run of `ys` standing at index `i`, `before` / `after` are LITERALLY the neighbours
    (`Real.Located`); the hunk is not empty; the j-th removed and the j-th added value have
    different hash codes -/
theorem hunkReal_list {o : Opts} {a b : Json} {h : Hunk} (hr : HunkReal o a b [] h)
    {q : Path} {i : Int} (hpath : h.path = q ++ [.idx i]) :
    ∃ (qa : Path) (t : Tag) (xs : List Json) (t' : Tag) (ys : List Json),
      Nav o a b qa q (.arr t xs) (.arr t' ys) ∧
      Real.getAt a qa = some (.arr t xs) ∧ Real.getAt b q = some (.arr t' ys) ∧ sameShape qa q ∧
      Real.Located q xs ys h ∧ Real.HashApart o h.remove h.add ∧ (h.remove ≠ [] ∨ h.add ≠ []) ∧
      h.merge = false := by
  obtain ⟨qa, q0, u, w, nav, leaf⟩ := hr
  simp only [List.nil_append] at leaf
  cases leaf with
  | value hp0 _ _ _ hs _ =>
    exfalso
    have := (nav.ends_idx q i (hp0.symm.trans hpath)).1
    rw [hs] at this
    cases this
  | member kvs kvs' k _ _ hp0 =>
    exfalso
    rw [hpath] at hp0
    have := List.append_inj_right' hp0 (by simp)
    simp at this
  | list t xs t' ys S1 R A S2 hu hw al eh =>
    subst hu; subst hw
    have hq : q0 = q := by
      rw [eh] at hpath
      exact List.append_inj_left' hpath (by simp)
    subst hq
    have hok := al.ok (.edit R A) (by simp)
    refine ⟨qa, t, xs, t', ys, nav, nav.getAt_a, nav.getAt_b, nav.sameShape,
      ⟨(tgt S1).length, src S1, src S2, tgt S1, tgt S2, ?_, ?_, ?_, rfl, ?_, ?_⟩, ?_, ?_, ?_⟩
    · rw [eh]
    · rw [← al.src_eq, eh]; simp [src_append, Step.src]
    · rw [← al.tgt_eq, eh]; simp [tgt_append, Step.tgt]
    · rw [eh]
    · rw [eh]
    · rw [eh]; exact hok.2
    · rw [eh]; exact hok.1
    · rw [eh]

/-- every OTHER hunk (its path does not end with a list index) replaces one value: `a` holds `u` at
    `qa`, `b` holds `w` at the hunk's path (or one of them holds nothing there: a member removed
    or added), and `Real.RealOpt` -/
theorem hunkReal_value {o : Opts} {a b : Json} {h : Hunk} (hr : HunkReal o a b [] h)
    (hpath : ∀ q i, h.path ≠ q ++ [.idx i]) :
    h.before = [] ∧ h.after = [] ∧ h.merge = false ∧
    ∃ qa, sameShape qa h.path ∧ Real.RealOpt o (Real.getAt a qa) (Real.getAt b h.path) h := by
  obtain ⟨qa, q0, u, w, nav, leaf⟩ := hr
  simp only [List.nil_append] at leaf
  cases leaf with
  | value hp0 hb ha hm _ hro =>
    refine ⟨hb, ha, hm, qa, ?_, ?_⟩
    · rw [hp0]; exact nav.sameShape
    · rw [hp0, nav.getAt_a, nav.getAt_b]; exact hro
  | member kvs kvs' k hu hw hp0 hb ha hm _ hro =>
    subst hu; subst hw
    refine ⟨hb, ha, hm, qa ++ [.key k], ?_, ?_⟩
    · rw [hp0]
      have := nav.sameShape
      clear hro hp0 hpath nav
      induction qa generalizing q0 with
      | nil => cases q0 <;> simp_all [sameShape]
      | cons e r ih =>
        cases q0 with
        | nil => cases e <;> simp [sameShape] at this
        | cons e' r' =>
          cases e <;> cases e' <;> simp_all [sameShape]
    · have ga : ∀ (kvs : List (String × Json)) (qa : Path) (n : Json),
          Real.getAt n qa = some (.obj kvs) →
          Real.getAt n (qa ++ [.key k]) = alookup k kvs := by
        intro kvs qa
        induction qa with
        | nil => intro n hn; simp only [Real.getAt, Option.some.injEq] at hn; subst hn
                 simp only [List.nil_append, Real.getAt]
                 cases alookup k kvs <;> simp
        | cons e r ih =>
          intro n hn
          cases e <;> cases n <;> simp only [Real.getAt, List.cons_append] at hn ⊢ <;>
            try (cases hn; done)
          · next kk kvs0 =>
            cases hl : alookup kk kvs0 with
            | none => simp [hl] at hn
            | some v => simp only [hl, Option.bind_some] at hn ⊢; exact ih v hn
          · next ii tt xs0 =>
            split at hn
            · cases hn
            · next hi =>
              simp only [hi, if_false]
              cases hl : xs0[ii.toNat]? with
              | none => simp [hl] at hn
              | some v => simp only [hl, Option.bind_some] at hn ⊢; exact ih v hn
      rw [hp0, ga kvs qa a nav.getAt_a]
      have gb := ga kvs' q0 b nav.getAt_b
      rw [gb]
      exact hro
  | list t xs t' ys S1 R A S2 hu hw al eh =>
    exfalso
    exact hpath q0 _ (by rw [eh])

/-- hash-apart values are not `Equals` (on the domain of `hashCode_eq_of_equals`) -/
theorem hashApart_not_equals (F : FloatEq0) {o : Opts} (ho : dispatchTag o = .list)
    (hp : precOf o = 0) {R A : List Json} (h : Real.HashApart o R A)
    (hR : ∀ r ∈ R, Dom r) (hA : ∀ a ∈ A, Dom a) :
    ∀ (j : Nat) (r a : Json), R[j]? = some r → A[j]? = some a → equals o r a = false := by
  intro j r a hr ha
  cases he : equals o r a with
  | false => rfl
  | true =>
    exact absurd (hashCode_eq_of_equals F o ho hp r a (hR r (List.mem_of_getElem? hr))
      (hA a (List.mem_of_getElem? ha)) he) (h j r a hr ha)

/-- **clause 3 at full depth, `Equals` form**: in every hunk whose path ends with a list index the
    j-th removed value is not `Equals` to the j-th added value, and `remove ≠ add` -/
theorem hunkReal_list_not_equals (F : FloatEq0) {o : Opts} (ho : dispatchTag o = .list)
    (hp : precOf o = 0) {a b : Json} (da : Dom a) (db : Dom b) {h : Hunk}
    (hr : HunkReal o a b [] h) {q : Path} {i : Int} (hpath : h.path = q ++ [.idx i]) :
    (∀ (j : Nat) (r w : Json), h.remove[j]? = some r → h.add[j]? = some w → equals o r w = false) ∧
    h.remove ≠ h.add := by
  obtain ⟨qa, t, xs, t', ys, nav, _, _, _, ⟨i', preA, postA, preB, postB, _, eX, eY, _⟩, hap, hne, _⟩ :=
    hunkReal_list hr hpath
  obtain ⟨du, dw⟩ := nav.dom da db
  have hR : ∀ r ∈ h.remove, Dom r := fun r hr =>
    domL_mem (dom_arr.1 du).2 (by rw [eX]; simp [hr])
  have hA : ∀ w ∈ h.add, Dom w := fun w hw =>
    domL_mem (dom_arr.1 dw).2 (by rw [eY]; simp [hw])
  refine ⟨hashApart_not_equals F ho hp hap hR hA, fun e => ?_⟩
  cases hadd : h.add with
  | nil => rw [e, hadd] at hne; simp at hne
  | cons w r =>
    rw [e, hadd] at hap
    exact hap 0 w w rfl rfl rfl

/-- **no step of the navigation enters an `Equals` pair of list elements**: whenever the path of the
    navigation ends with a list index, the two elements reached are not `Equals` -/
theorem Nav.not_equals (F : FloatEq0) {o : Opts} (ho : dispatchTag o = .list) (hp : precOf o = 0)
    {a b : Json} (da : Dom a) (db : Dom b) {qa q : Path} {u w : Json} (nav : Nav o a b qa q u w)
    {q' : Path} {i : Int} (e : q = q' ++ [.idx i]) : equals o u w = false := by
  obtain ⟨du, dw⟩ := nav.dom da db
  cases he : equals o u w with
  | false => rfl
  | true => exact absurd (hashCode_eq_of_equals F o ho hp u w du dw he) (nav.ends_idx q' i e).2

/-! ## F. clause 1 at full depth: hunks below a location belong to the sub-diff there -/

theorem listDoc_of_mem {x : Json} : ∀ {xs : List Json}, listDocList xs = true → x ∈ xs →
    x.listDoc = true
  | [], _, h => by cases h
  | y :: r, hr, h => by
    simp only [listDocList, Bool.and_eq_true] at hr
    rcases List.mem_cons.1 h with rfl | h
    · exact hr.1
    · exact listDoc_of_mem hr.2 h

theorem wf_of_mem {x : Json} : ∀ {xs : List Json}, wfList xs = true → x ∈ xs → x.wf = true
  | [], _, h => by cases h
  | y :: r, hr, h => by
    simp only [wfList, Bool.and_eq_true] at hr
    rcases List.mem_cons.1 h with rfl | h
    · exact hr.1
    · exact wf_of_mem hr.2 h

/-- **localisation.** The hunks of the diff of `a` and `b` (below `p`) whose path starts with
    `p ++ q ++ r`, where `q` is a joint navigation of `a` and `b` to `u`, `w`, are hunks of the sub-diff
    of `u` and `w` computed at `p ++ q` — provided `r ≠ []` (strictly below) or `q` does not end with
    a list index (an array-level hunk addressed TO the index `j` is not a hunk of the element
    standing at `j`). List documents with sorted unique keys. -/
theorem hunk_below_nav {o : Opts} (ho : dispatchTag o = .list) {a b : Json} {qa q : Path}
    {u w : Json} (nav : Nav o a b qa q u w) :
    a.listDoc = true → a.wf = true → b.listDoc = true → b.wf = true →
    ∀ (p : Path) (h : Hunk), h ∈ diffNode o false a b p → ∀ (r : Path), (p ++ q ++ r) <+: h.path →
      (r ≠ [] ∨ ∀ q' i, q ≠ q' ++ [PathElem.idx i]) → h ∈ diffNode o false u w (p ++ q) := by
  induction nav with
  | here a b => intro _ _ _ _ p h hm _ _ _; simpa using hm
  | @key kvs kvs' k v v' qa q0 u w hv hv' nav ih =>
    intro hla hwa hlb hwb p h hm r hpre hc
    simp only [Json.listDoc] at hla hlb
    simp only [Json.wf, Bool.and_eq_true] at hwa hwb
    have hpre1 : (p ++ [PathElem.key k]) <+: h.path := by
      refine List.IsPrefix.trans ?_ hpre
      exact ⟨q0 ++ r, by simp⟩
    have hpre2 : ((p ++ [PathElem.key k]) ++ q0 ++ r) <+: h.path := by simpa using hpre
    have hc2 : r ≠ [] ∨ ∀ q' i, q0 ≠ q' ++ [PathElem.idx i] := by
      rcases hc with hc | hc
      · exact .inl hc
      · exact .inr (fun q' i e => hc (.key k :: q') i (by rw [e]; rfl))
    rw [diffNode_obj_obj] at hm
    rcases List.mem_append.1 hm with hm | hm
    · obtain ⟨k0, v0, hmem, hpre0, hcase⟩ := Real.mem_diffKvs ho hlb hla hm
      have hk : k0 = k := Real.key_prefix_unique hpre0 hpre1
      subst hk
      have hv0 : alookup k0 kvs = some v0 := alookup_of_mem hwa.1 hmem
      rw [hv] at hv0
      cases hv0
      rcases hcase with ⟨v'', hv'', hmem'⟩ | ⟨hn, _⟩
      · rw [hv'] at hv''
        cases hv''
        have := ih (alookup_listDoc hv hla) (alookup_wf hv hwa.2) (alookup_listDoc hv' hlb)
          (alookup_wf hv' hwb.2) (p ++ [.key k0]) h hmem' r hpre2 hc2
        simpa using this
      · rw [hv'] at hn; cases hn
    · exfalso
      obtain ⟨kv, hkv, rfl⟩ := List.mem_map.1 hm
      simp only [List.mem_filter] at hkv
      have hk : kv.1 = k := Real.key_prefix_unique (List.prefix_refl _) hpre1
      rw [hk, hv] at hkv
      simp at hkv
  | @idx t t' xs ys S1 S2 x y qa q0 u w al nav ih =>
    intro hla hwa hlb hwb p h hm r hpre hc
    simp only [Json.listDoc, Bool.and_eq_true] at hla hlb
    simp only [Json.wf] at hwa hwb
    have hx : x ∈ xs := by rw [← al.src_eq]; simp [src_append, Step.src]
    have hy : y ∈ ys := by rw [← al.tgt_eq]; simp [tgt_append, Step.tgt]
    have hpre2 : ((p ++ [PathElem.idx ((tgt S1).length : Int)]) ++ q0 ++ r) <+: h.path := by
      simpa using hpre
    have hc2 : r ≠ [] ∨ ∀ q' i, q0 ≠ q' ++ [PathElem.idx i] := by
      rcases hc with hc | hc
      · exact .inl hc
      · exact .inr (fun q' i e => hc (.idx ((tgt S1).length : Int) :: q') i (by rw [e]; rfl))
    obtain ⟨e, rest, he⟩ : ∃ e rest, q0 ++ r = e :: rest := by
      cases hq : q0 ++ r with
      | cons e rest => exact ⟨e, rest, rfl⟩
      | nil =>
        exfalso
        simp only [List.append_eq_nil_iff] at hq
        rcases hc with hc | hc
        · exact hc hq.2
        · exact hc [] _ (by rw [hq.1]; rfl)
    have hpre3 : (p ++ [PathElem.idx ((tgt S1).length : Int), e]) <+: h.path := by
      refine List.IsPrefix.trans ?_ hpre
      refine ⟨rest, ?_⟩
      simp only [List.append_assoc, List.cons_append, List.nil_append]
      rw [he]
    rw [al.diff_eq p] at hm
    obtain ⟨S1', x', y', S2', e1, hl, hm'⟩ := hunk_below_index hm hpre3
    obtain ⟨rfl, e2, rfl⟩ := decomp_unique e1 hl.symm (by simp [Step.tgt]) (by simp [Step.tgt])
    cases e2
    have := ih (listDoc_of_mem hla.2 hx) (wf_of_mem hwa hx) (listDoc_of_mem hlb.2 hy)
      (wf_of_mem hwb hy) (p ++ [.idx ((tgt S1).length : Int)]) h hm' r hpre2 hc2
    simpa using this

/-- **clause 1 for list elements at full depth.** `a` and `b` hold the arrays `xs`, `ys` at the joint
    location `q`, and their alignment KEEPS `x` for `y` (one hash code; `y` stands at index `j` of
    `ys`). Then no hunk of the diff goes below `q ++ [j]`, and a hunk addressed to `q ++ [j]` itself
    adds nothing -/
theorem kept_not_mentioned_deep {o : Opts} (ho : dispatchTag o = .list) {a b : Json} {qa q : Path}
    {t t' : Tag} {xs ys : List Json} (nav : Nav o a b qa q (.arr t xs) (.arr t' ys))
    {S1 S2 : Script} {x y : Json} (al : Aligned o t xs t' ys (S1 ++ .keep x y :: S2))
    (hla : a.listDoc = true) (hwa : a.wf = true) (hlb : b.listDoc = true) (hwb : b.wf = true)
    (p : Path) :
    ∀ h ∈ diffNode o false a b p,
      (∀ e, ¬ (p ++ q ++ [PathElem.idx ((tgt S1).length : Int), e]) <+: h.path) ∧
      (h.path = p ++ q ++ [PathElem.idx ((tgt S1).length : Int)] → h.add = []) := by
  intro h hm
  constructor
  · intro e hpre
    have hm' := hunk_below_nav ho nav hla hwa hlb hwb p h hm _ hpre (.inl (by simp))
    exact (kept_not_mentioned al (p ++ q) h hm').1 e hpre
  · intro hpath
    have hm' := hunk_below_nav ho nav hla hwa hlb hwb p h hm [.idx ((tgt S1).length : Int)]
      (by rw [hpath]; exact List.prefix_refl _) (.inl (by simp))
    exact ((kept_not_mentioned al (p ++ q) h hm').2 hpath).1

theorem Nav.rawDoc {o : Opts} {a b : Json} {qa q : Path} {u w : Json} (nav : Nav o a b qa q u w) :
    a.rawDoc = true → u.rawDoc = true := by
  induction nav with
  | here a b => exact id
  | key hv _ _ ih =>
    intro hr
    simp only [Json.rawDoc] at hr
    exact ih (alookup_rawDoc hv hr)
  | @idx t t' xs ys S1 S2 x y qa q u w al _ ih =>
    intro hr
    simp only [Json.rawDoc, Bool.and_eq_true] at hr
    have hx : x ∈ xs := by rw [← al.src_eq]; simp [src_append, Step.src]
    exact ih (rawDoc_of_mem hr.2 hx)

/-- **clause 1 at full depth: `Equals` sub-documents are never mentioned.** If the joint navigation
    `q` leads to `Equals` values `u`, `w` (through object keys AND list elements), no hunk of the diff
    has a path at or below `q` -/
theorem equal_not_mentioned (F : FloatEq0) {o : Opts} (ho : dispatchTag o = .list)
    (hp : precOf o = 0) {a b : Json} (hr : a.rawDoc = true) (da : Dom a) (db : Dom b)
    {qa q : Path} {u w : Json} (nav : Nav o a b qa q u w) (he : equals o u w = true) (p : Path) :
    ∀ h ∈ diffNode o false a b p, ¬ (p ++ q) <+: h.path := by
  intro h hm hpre
  obtain ⟨du, dw⟩ := nav.dom da db
  have hc : ∀ q' i, q ≠ q' ++ [PathElem.idx i] := by
    intro q' i e
    have := nav.not_equals F ho hp da db e
    rw [he] at this
    cases this
  have hm' := hunk_below_nav ho nav da.listDoc da.wf db.listDoc db.wf p h hm []
    (by simpa using hpre) (.inr hc)
  rw [diffNode_nil_of_equals F o ho hp false u w (nav.rawDoc hr) du dw he (p ++ q)] at hm'
  cases hm'

end Jd.RealL
