/-
  JdProofs.EqualsList — property C04 (list mode, no hashes involved):
  `Equals` decides exactly the advertised equivalence `equivB`, different kinds are never equal,
  and on list-mode documents `Equals` is reflexive (finite numbers, non-negative precision) and
  symmetric (well-formed objects).
-/
import JdModel
import JdSpec

namespace Jd
open Jd.Spec

/-! ### kinds -/

/-- the JSON kind of a node (the array tag is not part of the kind) -/
inductive Kind where
  | void | null | bool | num | str | arr | obj
deriving DecidableEq, Repr

def Json.kind : Json → Kind
  | .void => .void
  | .null => .null
  | .bool _ => .bool
  | .num _ => .num
  | .str _ => .str
  | .arr _ _ => .arr
  | .obj _ => .obj

/-- `Equals` never identifies nodes of different kinds: valid for ALL options and all documents. -/
theorem equals_kind (o : Opts) (a b : Json) (h : equals o a b = true) : a.kind = b.kind := by
  cases a with
  | arr t xs =>
    cases b with
    | arr t' ys => rfl
    | _ => simp [equals, Json.dispatch] at h
  | _ => cases b <;> simp_all [equals, Json.isVoid, Json.isNull, Json.kind]

/-- the advertised equivalence never identifies nodes of different kinds (all options). -/
theorem equivB_kind (o : Opts) (a b : Json) (h : equivB o a b = true) : a.kind = b.kind := by
  cases a <;> cases b <;> simp_all [equivB, Json.kind]

theorem equals_kind_ne (o : Opts) (a b : Json) (h : a.kind ≠ b.kind) : equals o a b = false := by
  cases hc : equals o a b with
  | false => rfl
  | true => exact absurd (equals_kind o a b hc) h

/-- `[] ≠ ""` for all options and all array tags -/
theorem equals_emptyArr_emptyStr (o : Opts) (t : Tag) : equals o (.arr t []) (.str "") = false :=
  equals_kind_ne o _ _ (by simp [Json.kind])

theorem equals_emptyStr_emptyArr (o : Opts) (t : Tag) : equals o (.str "") (.arr t []) = false :=
  equals_kind_ne o _ _ (by simp [Json.kind])

theorem equals_arr_str (o : Opts) (t : Tag) (xs : List Json) (s : String) :
    equals o (.arr t xs) (.str s) = false :=
  equals_kind_ne o _ _ (by simp [Json.kind])

/-- a string is never equal to a number, for all options -/
theorem equals_str_num (o : Opts) (s : String) (n : UInt64) : equals o (.str s) (.num n) = false :=
  equals_kind_ne o _ _ (by simp [Json.kind])

theorem equals_num_str (o : Opts) (s : String) (n : UInt64) : equals o (.num n) (.str s) = false :=
  equals_kind_ne o _ _ (by simp [Json.kind])

/-! ### association-list helpers -/

theorem alookup_listDoc {k : String} {v : Json} :
    ∀ {kvs : List (String × Json)}, alookup k kvs = some v → listDocKvs kvs = true →
      v.listDoc = true
  | [], h, _ => by simp [alookup] at h
  | (k', v') :: r, h, hd => by
    simp only [listDocKvs, Bool.and_eq_true] at hd
    simp only [alookup] at h
    split at h
    · cases h; exact hd.1
    · exact alookup_listDoc h hd.2

theorem alookup_wf {k : String} {v : Json} :
    ∀ {kvs : List (String × Json)}, alookup k kvs = some v → wfKvs kvs = true → v.wf = true
  | [], h, _ => by simp [alookup] at h
  | (k', v') :: r, h, hd => by
    simp only [wfKvs, Bool.and_eq_true] at hd
    simp only [alookup] at h
    split at h
    · cases h; exact hd.1
    · exact alookup_wf h hd.2

/-! ### 1. `equals` is `equivB` in list mode -/

theorem effTag_list {o : Opts} (h : dispatchTag o = .list) {t : Tag}
    (ht : (t == .raw || t == .list) = true) : effTag o t = .list := by
  cases t <;> simp_all [effTag]

/-- array case shared by the theorems below: in list mode, on list documents, array comparison is
    pointwise comparison -/
theorem equals_arr_list {o : Opts} (h : dispatchTag o = .list) {t t' : Tag} (xs ys : List Json)
    (ht : (t == .raw || t == .list) = true) (ht' : (t' == .raw || t' == .list) = true) :
    equals o (.arr t xs) (.arr t' ys) = equalsList o xs ys := by
  cases t <;> cases t' <;> simp_all [equals, effTag, Json.dispatch]

mutual
theorem equals_eq_equivB_list (o : Opts) (h : dispatchTag o = .list) :
    ∀ (a b : Json), a.listDoc = true → b.listDoc = true → equals o a b = equivB o a b
  | .void, b, _, _ => by cases b <;> simp [equals, equivB, Json.isVoid]
  | .null, b, _, _ => by cases b <;> simp [equals, equivB, Json.isNull]
  | .bool x, b, _, _ => by cases b <;> simp [equals, equivB]
  | .num x, b, _, _ => by cases b <;> simp [equals, equivB]
  | .str x, b, _, _ => by cases b <;> simp [equals, equivB]
  | .arr t xs, b, ha, hb => by
    simp only [Json.listDoc, Bool.and_eq_true] at ha
    cases b with
    | arr t' ys =>
      simp only [Json.listDoc, Bool.and_eq_true] at hb
      rw [equals_arr_list h xs ys ha.1 hb.1, equalsList_eq_equivList o h xs ys ha.2 hb.2]
      simp [equivB, h]
    | _ => simp [equals, equivB, Json.dispatch, effTag_list h ha.1]
  | .obj kvs, b, ha, hb => by
    cases b with
    | obj kvs' =>
      simp only [Json.listDoc] at ha hb
      simp [equals, equivB, equalsKvs_eq_equivKvs o h kvs kvs' ha hb]
    | _ => simp [equals, equivB]
theorem equalsList_eq_equivList (o : Opts) (h : dispatchTag o = .list) :
    ∀ (xs ys : List Json), listDocList xs = true → listDocList ys = true →
      equalsList o xs ys = equivList o xs ys
  | [], ys, _, _ => by cases ys <;> simp [equalsList, equivList]
  | x :: xs, [], _, _ => by simp [equalsList, equivList]
  | x :: xs, y :: ys, ha, hb => by
    simp only [listDocList, Bool.and_eq_true] at ha hb
    simp [equalsList, equivList, equals_eq_equivB_list o h x y ha.1 hb.1,
      equalsList_eq_equivList o h xs ys ha.2 hb.2]
theorem equalsKvs_eq_equivKvs (o : Opts) (h : dispatchTag o = .list) :
    ∀ (kvs kvs' : List (String × Json)), listDocKvs kvs = true → listDocKvs kvs' = true →
      equalsKvs o kvs kvs' = equivKvs o kvs kvs'
  | [], kvs', _, _ => by simp [equalsKvs, equivKvs]
  | (k, v) :: r, kvs', ha, hb => by
    simp only [listDocKvs, Bool.and_eq_true] at ha
    rw [equalsKvs, equivKvs, equalsKvs_eq_equivKvs o h r kvs' ha.2 hb]
    cases hl : alookup k kvs' with
    | none => rfl
    | some v' => simp [equals_eq_equivB_list o h v v' ha.1 (alookup_listDoc hl hb)]
end

/-! ### sorted keys -/

theorem keysSorted_tail {β} {kv : String × β} {r : List (String × β)}
    (h : keysSorted (kv :: r) = true) : keysSorted r = true := by
  cases r with
  | nil => rfl
  | cons kv' r' =>
    obtain ⟨k, v⟩ := kv
    obtain ⟨k', v'⟩ := kv'
    simp only [keysSorted, Bool.and_eq_true] at h
    exact h.2

theorem keysSorted_head_lt {β} {k : String} {v : β} :
    ∀ {r : List (String × β)}, keysSorted ((k, v) :: r) = true →
      ∀ k' v', (k', v') ∈ r → k < k'
  | [], _, _, _, hm => by simp at hm
  | (k1, v1) :: r', h, k', v', hm => by
    simp only [keysSorted, Bool.and_eq_true, decide_eq_true_eq] at h
    rcases List.mem_cons.1 hm with he | hm'
    · cases he; exact h.1
    · exact String.lt_trans h.1 (keysSorted_head_lt h.2 k' v' hm')

/-- with strictly increasing keys, every binding is the one found by lookup -/
theorem alookup_of_mem {β} {k : String} {v : β} :
    ∀ {kvs : List (String × β)}, keysSorted kvs = true → (k, v) ∈ kvs → alookup k kvs = some v
  | [], _, hm => by simp at hm
  | (k0, v0) :: r, hs, hm => by
    rcases List.mem_cons.1 hm with he | hm'
    · cases he; simp [alookup]
    · have hlt := keysSorted_head_lt hs k v hm'
      have hne : k ≠ k0 := fun e => String.lt_irrefl k0 (e ▸ hlt)
      simp only [alookup, hne, if_false]
      exact alookup_of_mem (keysSorted_tail hs) hm'

theorem mem_of_alookup {β} {k : String} {v : β} :
    ∀ {kvs : List (String × β)}, alookup k kvs = some v → (k, v) ∈ kvs
  | [], h => by simp [alookup] at h
  | (k0, v0) :: r, h => by
    simp only [alookup] at h
    split at h
    · next e => cases h; cases e; exact List.mem_cons_self
    · exact List.mem_cons_of_mem _ (mem_of_alookup h)

theorem keysSorted_nodup {β} :
    ∀ {kvs : List (String × β)}, keysSorted kvs = true → (kvs.map Prod.fst).Nodup
  | [], _ => List.nodup_nil
  | (k, v) :: r, h => by
    rw [List.map_cons, List.nodup_cons]
    refine ⟨?_, keysSorted_nodup (keysSorted_tail h)⟩
    intro hm
    obtain ⟨⟨k', v'⟩, hm', he⟩ := List.mem_map.1 hm
    have := keysSorted_head_lt h k' v' hm'
    simp only at he
    exact String.lt_irrefl k (he ▸ this)

/-! ### 3. reflexivity -/

mutual
/-- every number in the document is finite (no NaN / ±Inf bit pattern) -/
def Json.finiteNums : Json → Bool
  | .num b => finiteBits b
  | .arr _ xs => finiteNumsList xs
  | .obj kvs => finiteNumsKvs kvs
  | _ => true
def finiteNumsList : List Json → Bool
  | [] => true
  | x :: r => x.finiteNums && finiteNumsList r
def finiteNumsKvs : List (String × Json) → Bool
  | [] => true
  | (_, v) :: r => v.finiteNums && finiteNumsKvs r
end

mutual
theorem equals_refl_list (L : FloatLaws) (o : Opts) (h : dispatchTag o = .list)
    (hp : nonnegBits (precOf o) = true) :
    ∀ (a : Json), a.listDoc = true → a.wf = true → a.finiteNums = true → equals o a a = true
  | .void, _, _, _ => by simp [equals, Json.isVoid]
  | .null, _, _, _ => by simp [equals, Json.isNull]
  | .bool x, _, _, _ => by simp [equals]
  | .num x, _, _, hf => by
    simp only [Json.finiteNums] at hf
    simp [equals, L.refl _ _ hf hp]
  | .str x, _, _, _ => by simp [equals]
  | .arr t xs, ha, hw, hf => by
    simp only [Json.listDoc, Bool.and_eq_true] at ha
    simp only [Json.wf] at hw
    simp only [Json.finiteNums] at hf
    rw [equals_arr_list h xs xs ha.1 ha.1]
    exact equalsList_refl_list L o h hp xs ha.2 hw hf
  | .obj kvs, ha, hw, hf => by
    simp only [Json.listDoc] at ha
    simp only [Json.wf, Bool.and_eq_true] at hw
    simp only [Json.finiteNums] at hf
    simp only [equals, beq_self_eq_true, Bool.true_and]
    exact equalsKvs_refl_list L o h hp kvs kvs (fun k v hm => alookup_of_mem hw.1 hm) ha hw.2 hf
theorem equalsList_refl_list (L : FloatLaws) (o : Opts) (h : dispatchTag o = .list)
    (hp : nonnegBits (precOf o) = true) :
    ∀ (xs : List Json), listDocList xs = true → wfList xs = true → finiteNumsList xs = true →
      equalsList o xs xs = true
  | [], _, _, _ => by simp [equalsList]
  | x :: xs, ha, hw, hf => by
    simp only [listDocList, wfList, finiteNumsList, Bool.and_eq_true] at ha hw hf
    simp [equalsList, equals_refl_list L o h hp x ha.1 hw.1 hf.1,
      equalsList_refl_list L o h hp xs ha.2 hw.2 hf.2]
theorem equalsKvs_refl_list (L : FloatLaws) (o : Opts) (h : dispatchTag o = .list)
    (hp : nonnegBits (precOf o) = true) :
    ∀ (r kvs : List (String × Json)), (∀ k v, (k, v) ∈ r → alookup k kvs = some v) →
      listDocKvs r = true → wfKvs r = true → finiteNumsKvs r = true → equalsKvs o r kvs = true
  | [], _, _, _, _, _ => by simp [equalsKvs]
  | (k, v) :: r, kvs, hsub, ha, hw, hf => by
    simp only [listDocKvs, wfKvs, finiteNumsKvs, Bool.and_eq_true] at ha hw hf
    rw [equalsKvs, hsub k v List.mem_cons_self]
    simp [equals_refl_list L o h hp v ha.1 hw.1 hf.1,
      equalsKvs_refl_list L o h hp r kvs (fun k' v' hm => hsub k' v' (List.mem_cons_of_mem _ hm))
        ha.2 hw.2 hf.2]
end

/-! ### 4. symmetry -/

/-- pigeonhole: a duplicate-free list included in a list that is not longer covers it -/
theorem subset_of_nodup_subset_length {α} [BEq α] [LawfulBEq α] :
    ∀ (l l' : List α), l.Nodup → l ⊆ l' → l'.length ≤ l.length → l' ⊆ l
  | [], l', _, _, hlen => by
    cases l' with
    | nil => exact fun _ h => h
    | cons _ _ => simp at hlen
  | a :: r, l', hnd, hsub, hlen => by
    rw [List.nodup_cons] at hnd
    have ha : a ∈ l' := hsub List.mem_cons_self
    have hsub' : r ⊆ l'.erase a := by
      intro x hx
      have hne : x ≠ a := fun e => hnd.1 (e ▸ hx)
      exact (List.mem_erase_of_ne hne).2 (hsub (List.mem_cons_of_mem _ hx))
    have hlen' : (l'.erase a).length ≤ r.length := by
      rw [List.length_erase_of_mem ha]
      simp only [List.length_cons] at hlen
      omega
    have ih := subset_of_nodup_subset_length r (l'.erase a) hnd.2 hsub' hlen'
    intro x hx
    by_cases hxa : x = a
    · exact hxa ▸ List.mem_cons_self
    · exact List.mem_cons_of_mem _ (ih ((List.mem_erase_of_ne hxa).2 hx))

/-- every binding of `kvs` has a binding in `kvs'` with a related value -/
def AllLook (R : Json → Json → Bool) (kvs kvs' : List (String × Json)) : Prop :=
  ∀ k v, (k, v) ∈ kvs → ∃ v', alookup k kvs' = some v' ∧ R v v' = true

/-- objects with unique keys and the same number of keys: inclusion one way is inclusion the
    other way -/
theorem AllLook.flip {R : Json → Json → Bool} {kvs kvs' : List (String × Json)}
    (hs : keysSorted kvs = true) (hs' : keysSorted kvs' = true) (hlen : kvs.length = kvs'.length)
    (hall : AllLook R kvs kvs') : AllLook (fun x y => R y x) kvs' kvs := by
  have hsub : kvs.map Prod.fst ⊆ kvs'.map Prod.fst := by
    intro k hk
    obtain ⟨⟨k0, v⟩, hm, he⟩ := List.mem_map.1 hk
    simp only at he
    subst he
    obtain ⟨v', hl, _⟩ := hall k0 v hm
    exact List.mem_map.2 ⟨(k0, v'), mem_of_alookup hl, rfl⟩
  have hsub' : kvs'.map Prod.fst ⊆ kvs.map Prod.fst :=
    subset_of_nodup_subset_length _ _ (keysSorted_nodup hs) hsub (by simp [hlen])
  intro k' v' hm'
  have hk' : k' ∈ kvs.map Prod.fst := hsub' (List.mem_map.2 ⟨(k', v'), hm', rfl⟩)
  obtain ⟨⟨k0, v⟩, hm, he⟩ := List.mem_map.1 hk'
  simp only at he
  subst he
  obtain ⟨v'', hl, hr⟩ := hall k0 v hm
  have : v'' = v' := by
    have := alookup_of_mem hs' hm'
    rw [hl] at this
    exact Option.some.inj this
  subst this
  exact ⟨v, alookup_of_mem hs hm, hr⟩

/-- `equalsKvs` with the comparison of values abstracted -/
def lookAll (R : Json → Json → Bool) : List (String × Json) → List (String × Json) → Bool
  | [], _ => true
  | (k, v) :: r, kvs' =>
    (match alookup k kvs' with
     | some v' => R v v'
     | none => false) && lookAll R r kvs'

theorem lookAll_iff (R : Json → Json → Bool) (kvs' : List (String × Json)) :
    ∀ (kvs : List (String × Json)), lookAll R kvs kvs' = true ↔ AllLook R kvs kvs'
  | [] => by simp [lookAll, AllLook]
  | (k, v) :: r => by
    rw [lookAll, Bool.and_eq_true, lookAll_iff R kvs' r]
    constructor
    · rintro ⟨h1, h2⟩ k0 v0 hm
      rcases List.mem_cons.1 hm with he | hm'
      · cases he
        cases hl : alookup k kvs' with
        | none => simp [hl] at h1
        | some v' => exact ⟨v', rfl, by simpa [hl] using h1⟩
      · exact h2 k0 v0 hm'
    · intro h
      refine ⟨?_, fun k0 v0 hm => h k0 v0 (List.mem_cons_of_mem _ hm)⟩
      obtain ⟨v', hl, hr⟩ := h k v List.mem_cons_self
      simp [hl, hr]

theorem equalsKvs_eq_lookAll (o : Opts) (kvs' : List (String × Json)) :
    ∀ (kvs : List (String × Json)), equalsKvs o kvs kvs' = lookAll (equals o) kvs kvs'
  | [] => by simp [equalsKvs, lookAll]
  | (k, v) :: r => by rw [equalsKvs, lookAll, equalsKvs_eq_lookAll o kvs' r]; rfl

/-- for objects with unique keys and the same number of keys, "every key of the first is in the
    second with an equal value" can be read from either side -/
theorem lookAll_flip (R : Json → Json → Bool) {kvs kvs' : List (String × Json)}
    (hs : keysSorted kvs = true) (hs' : keysSorted kvs' = true) (hlen : kvs.length = kvs'.length) :
    lookAll (fun x y => R y x) kvs kvs' = lookAll R kvs' kvs := by
  rw [Bool.eq_iff_iff, lookAll_iff, lookAll_iff]
  exact ⟨fun h => AllLook.flip hs hs' hlen h, fun h => AllLook.flip hs' hs hlen.symm h⟩

mutual
theorem equals_symm_list (L : FloatLaws) (o : Opts) (h : dispatchTag o = .list) :
    ∀ (a b : Json), a.listDoc = true → b.listDoc = true → a.wf = true → b.wf = true →
      equals o a b = equals o b a
  | .void, b, _, _, _, _ => by cases b <;> simp [equals, Json.isVoid, Json.isNull, Json.dispatch, effTag]
  | .null, b, _, _, _, _ => by cases b <;> simp [equals, Json.isVoid, Json.isNull, Json.dispatch]
  | .bool x, b, _, _, _, _ => by
    cases b <;> simp [equals, Json.isVoid, Json.isNull, Json.dispatch, Bool.beq_comm]
  | .num x, b, _, _, _, _ => by
    cases b <;> simp [equals, Json.isVoid, Json.isNull, Json.dispatch, L.symm _ x]
  | .str x, b, _, _, _, _ => by
    cases b <;> simp [equals, Json.isVoid, Json.isNull, Json.dispatch, Bool.beq_comm]
  | .arr t xs, b, ha, hb, hw, hw' => by
    simp only [Json.listDoc, Bool.and_eq_true] at ha
    simp only [Json.wf] at hw
    cases b with
    | arr t' ys =>
      simp only [Json.listDoc, Bool.and_eq_true] at hb
      simp only [Json.wf] at hw'
      rw [equals_arr_list h xs ys ha.1 hb.1, equals_arr_list h ys xs hb.1 ha.1]
      exact equalsList_symm_list L o h xs ys ha.2 hb.2 hw hw'
    | _ => simp [equals, Json.isVoid, Json.isNull, Json.dispatch, effTag_list h ha.1]
  | .obj kvs, b, ha, hb, hw, hw' => by
    cases b with
    | obj kvs' =>
      simp only [Json.listDoc] at ha hb
      simp only [Json.wf, Bool.and_eq_true] at hw hw'
      simp only [equals]
      by_cases hlen : kvs.length = kvs'.length
      · rw [equalsKvs_flip_list L o h kvs kvs' ha hb hw.2 hw'.2,
          lookAll_flip (equals o) hw.1 hw'.1 hlen, ← equalsKvs_eq_lookAll, hlen]
      · have hlen' : ¬ kvs'.length = kvs.length := fun e => hlen e.symm
        rw [beq_false_of_ne hlen, beq_false_of_ne hlen']; rfl
    | _ => simp [equals, Json.isVoid, Json.isNull, Json.dispatch]
theorem equalsList_symm_list (L : FloatLaws) (o : Opts) (h : dispatchTag o = .list) :
    ∀ (xs ys : List Json), listDocList xs = true → listDocList ys = true → wfList xs = true →
      wfList ys = true → equalsList o xs ys = equalsList o ys xs
  | [], ys, _, _, _, _ => by cases ys <;> simp [equalsList]
  | x :: xs, [], _, _, _, _ => by simp [equalsList]
  | x :: xs, y :: ys, ha, hb, hw, hw' => by
    simp only [listDocList, wfList, Bool.and_eq_true] at ha hb hw hw'
    simp only [equalsList]
    rw [equals_symm_list L o h x y ha.1 hb.1 hw.1 hw'.1,
      equalsList_symm_list L o h xs ys ha.2 hb.2 hw.2 hw'.2]
/-- the values can be compared the other way round -/
theorem equalsKvs_flip_list (L : FloatLaws) (o : Opts) (h : dispatchTag o = .list) :
    ∀ (r kvs' : List (String × Json)), listDocKvs r = true → listDocKvs kvs' = true →
      wfKvs r = true → wfKvs kvs' = true →
      equalsKvs o r kvs' = lookAll (fun x y => equals o y x) r kvs'
  | [], _, _, _, _, _ => by simp [equalsKvs, lookAll]
  | (k, v) :: r, kvs', ha, hb, hw, hw' => by
    simp only [listDocKvs, wfKvs, Bool.and_eq_true] at ha hw
    rw [equalsKvs, lookAll, equalsKvs_flip_list L o h r kvs' ha.2 hb hw.2 hw']
    cases hl : alookup k kvs' with
    | none => rfl
    | some v' =>
      show (equals o v v' && _) = (equals o v' v && _)
      rw [equals_symm_list L o h v v' ha.1 (alookup_listDoc hl hb) hw.1 (alookup_wf hl hw')]
end

/-! ### axioms -/

#print axioms equals_eq_equivB_list
#print axioms equals_kind
#print axioms equivB_kind
#print axioms equals_emptyArr_emptyStr
#print axioms equals_str_num
#print axioms equals_refl_list
#print axioms equals_symm_list

end Jd
