/-
  JdProofs.CliRoundTripModesPatch (namespace `Jd.CliRTM`, continuation of
  JdProofs.CliRoundTripModes) — property C14, last sentence, for `-f patch` (RFC 6902 text):
  `jd -f patch a b` followed by `jd -p -f patch T a`, list reading, v2 library.

  WHAT WAS MISSING.  JdProofs.PatchOwnOutput (`Own.own_patch_output_reproduces_target…`, C10) is
  stated on the OPERATION LIST: `renderPatchOps (diffM o a b) = ok ops`, `readPatchOps ops = ok d'`,
  `patchM a d' = ok r`.  JdProofs.JsonTextRoundTrip gives the text layer: `readPatchM nc (text) =
  readPatchOps ops` when the written values are documents as read (`…_own`), and `= readPatchOps
  (ops.map untagOp)` in general (`…_untag`).  The two do NOT compose directly: in the list reading
  `Diff` reports an array that is replaced by a non-array as the TYPED node `jsonList` (`remove :=
  [.arr .list xs]`, JdModel/Diff.lean), the JSON text loses the tag, so `ReadPatchString` sees the
  operations with UNTAGGED values, and `Own.*` says nothing about those.  The gap is closed here.

  ═══ THEOREMS ═══
  §1  the diff with untagged payloads, `d.map Robust.untagHunk`, stays in the parse-back grammar
      (`PBwf_map_untagHunk`, `all_jdShaped_map_untagHunk`, `all_hunkListDoc_map_untagHunk`: the
      grammar `PB.PBwf` looks at paths, lengths, void-ness, and `valOK` = non-void ∧ listDoc ∧ wf ∧
      finite, all blind to array tags) and has the same effect under the reference interpreter up to
      tags (`applyStrictAll_map_untagHunk`, from `Robust.applyStrict_untagHunk`).
  §2  `RenderPatch` commutes with untagging (`renderPatchOps_map_untagHunk`:
      `renderPatchOps d = ok ops → renderPatchOps (d.map untagHunk) = ok (ops.map untagOp)`; through
      `ctxOps_untagHunk`, `remOpsOf_map_untag`, `addOpsOf_map_untag`, `renderPatchHunk_untagHunk`).
  §3  the input domain: `docOK_subterms` (`JText.DocOK nc` — rawDoc, wf, `Yaml.voidFree`, `NumOK nc` —
      is inherited by sub-terms), and the conversions to the other "void-free" / length predicates
      of the proof files: `e2eVoidFree_of_docOK` (`E2E.voidFree`), `vfree_of_voidFree` (`PRC.vfree`),
      `shortArrays_of_lenLe` (`E2E.shortArrays` from `PRC.lenLe N`, `N < 2^53`).
  §4  `patch_lib_round_trip` (LIBRARY LEVEL, new): for `dispatchTag o = .list`, `isMerge o = false`
      (ANY precision option),
         ∃ text d' r, renderPatchM nc (diffM o a b) = ok (some text) ∧ readPatchM nc text = ok d' ∧
           patchM a d' = ok r ∧ specEq r b ∧ specEq b r ∧ r.listDoc ∧
           (PrecMono o → equivB o r b ∧ equals o r b).
      Proof: `Own.diffM_in_grammar_of_paths` (the diff is in the grammar), `DPL.diffM_list_correct`
      (it turns `a` into `m`, `specEq m b`), `E2E.diffM_payloads` (every value written is a sub-term
      of `a` or `b` up to the tag, hence `preOK nc` and `mSetFree`), `JText.readPatchM_renderPatchM_untag`
      (the text exists and reads as `readPatchOps (ops.map untagOp)`), §2 (these ARE the operations
      of the untagged diff), §1 + `Own.parse_back_of_grammar` applied to the UNTAGGED diff.
  §5  `libRoundTrip_patch` (`LibRoundTrip (nativeLib nc Y) .patch color o a b …`),
      `patch_cli_round_trip` (TARGET 3): `fl.f = "patch"`, no `-set -mset -setkeys`, ANY `-precision`
      (the option list is `[Precision e]`), ANY `-color` (not used by `RenderPatch`), `-yaml`, `-o`,
      file or stdin.  First exit status: 0 iff the text is `[]`.

  HYPOTHESES (on the two parsed documents)
    `JText.DocOK nc a`, `JText.DocOK nc b'`: documents as read from text (`rawDoc`, `wf`), no void
       node — ROOT INCLUDED, so an empty input file (which `ReadJsonString` turns into the void
       document) is NOT covered, although `Own.*` covers `{…}` → void at the operation level — and
       `NumOK nc` (the number codec round-trips the numbers: `strconv` is a parameter of the model;
       a theorem for integers, `JText.numOK_int`).
    `finiteNums`, `PRC.lenLe Na a`, `PRC.lenLe Nb b'`, `Na + Nb < 2^53`, `HashOK o a b'`, `ZeroOK a b'`,
    `PRC.keysExpressible a`, `… b'`, `FloatLaws`, `FloatEq0`: exactly those of
       `Own.own_patch_output_reproduces_target_rawDoc`; necessity is discussed there
       (`keysExpressible`: `RenderPatch` fails otherwise, `PRC.render_diffM_ok_iff`).
    The hypothesis `Own.elemsRaw a` (needed: `Own.Witness.typed_list_element_witness`) follows from
       `a.rawDoc` and does not appear.
  NOT PROVED: `-f patch` with `-set` / `-mset` / `-setkeys` (C10 is a list-mode property); the void
  root; the v1 library.  Non-vacuity: `Ex.PatchEx.ex_patch_cli` (JdProofs.CliRoundTripModesEx).
-/
import JdProofs.CliRoundTripModes

set_option linter.unusedVariables false
set_option autoImplicit false

namespace Jd.CliRTM
open Jd Jd.Spec Jd.Cli Jd.CliRT Jd.PB Jd.Robust

/-! ## 1. the diff with its payload values untagged (`Robust.untagHunk`): what the JSON text carries -/

theorem untagOp_op (p : PatchOp) : (JText.untagOp p).op = p.op := rfl

theorem realCtx_map_untag (c : List Json) : realCtx (c.map untag) = realCtx c := by
  induction c with
  | nil => rfl
  | cons x r ih =>
    simp only [realCtx, List.map_cons, List.any_cons, untag_isVoid] at ih ⊢
    rw [ih]

theorem valOK_untag {v : Json} (h : valOK v = true) : valOK (untag v) = true := by
  simp only [valOK, Bool.and_eq_true, Bool.not_eq_true'] at h ⊢
  exact ⟨⟨⟨by rw [untag_isVoid]; exact h.1.1.1, untag_listDoc v⟩, by rw [untag_wf]; exact h.1.2⟩,
    by rw [V1T.finiteNums_untag]; exact h.2⟩

theorem all_valOK_map_untag {l : List Json} (h : l.all valOK = true) :
    (l.map untag).all valOK = true := by
  rw [List.all_eq_true] at h ⊢
  intro x hx
  obtain ⟨y, hy, rfl⟩ := List.mem_map.1 hx
  exact valOK_untag (h y hy)

theorem all_notVoid_map_untag (l : List Json) :
    (l.map untag).all (fun v => !v.isVoid) = l.all (fun v => !v.isVoid) := by
  induction l with
  | nil => rfl
  | cons x r ih => simp only [List.map_cons, List.all_cons, untag_isVoid, ih]

theorem PBwfH_untagHunk {h : Hunk} (hw : PBwfH h = true) : PBwfH (untagHunk h) = true := by
  unfold PBwfH at hw ⊢
  simp only [untagHunk, List.length_map, List.isEmpty_map, realCtx_map_untag,
    all_notVoid_map_untag] at hw ⊢
  simp only [Bool.and_eq_true] at hw ⊢
  obtain ⟨⟨⟨⟨⟨⟨⟨h1, h2⟩, h3⟩, h4⟩, h5⟩, h6⟩, h7⟩, h8⟩ := hw
  exact ⟨⟨⟨⟨⟨⟨⟨h1, h2⟩, h3⟩, h4⟩, all_valOK_map_untag h5⟩, h6⟩, h7⟩, h8⟩

theorem sepH_untagHunk (h1 h2 : Hunk) : sepH (untagHunk h1) (untagHunk h2) = sepH h1 h2 := by
  simp only [sepH, hasContext_eq]
  show (!pathEq h1.path h2.path ||
    (realCtx (h2.before.map untag) || realCtx (h2.after.map untag))) = _
  rw [realCtx_map_untag, realCtx_map_untag]

theorem chainOK_map_untagHunk : ∀ d : Diff, chainOK (d.map untagHunk) = chainOK d
  | [] => rfl
  | [_] => rfl
  | h1 :: h2 :: r => by
    simp only [List.map_cons, chainOK, sepH_untagHunk]
    have := chainOK_map_untagHunk (h2 :: r)
    simp only [List.map_cons] at this
    rw [this]

theorem PBwf_map_untagHunk {d : Diff} (h : PBwf d = true) : PBwf (d.map untagHunk) = true := by
  simp only [PBwf, Bool.and_eq_true] at h ⊢
  refine ⟨?_, by rw [chainOK_map_untagHunk]; exact h.2⟩
  rw [List.all_eq_true] at h ⊢
  intro x hx
  obtain ⟨y, hy, rfl⟩ := List.mem_map.1 hx
  exact PBwfH_untagHunk (h.1 y hy)

theorem jdShaped_untagHunk (h : Hunk) : jdShaped (untagHunk h) = jdShaped h := by
  simp only [jdShaped, untagHunk, List.length_map]

theorem all_jdShaped_map_untagHunk {d : Diff} (h : d.all jdShaped = true) :
    (d.map untagHunk).all jdShaped = true := by
  rw [List.all_eq_true] at h ⊢
  intro x hx
  obtain ⟨y, hy, rfl⟩ := List.mem_map.1 hx
  rw [jdShaped_untagHunk]; exact h y hy

theorem all_hunkListDoc_map_untagHunk (d : Diff) : (d.map untagHunk).all hunkListDoc = true := by
  rw [List.all_eq_true]
  intro x hx
  obtain ⟨y, hy, rfl⟩ := List.mem_map.1 hx
  exact hunkListDoc_untagHunk y

/-- the reference interpreter on the untagged diff: same result up to tags -/
theorem applyStrictAll_map_untagHunk : ∀ (d : Diff) {n n' : Json}, untag n = untag n' →
    (applyStrictAll n (d.map untagHunk)).map untag = (applyStrictAll n' d).map untag
  | [], n, n', e => by simp [applyStrictAll, e]
  | h :: d, n, n', e => by
    have h1 : (applyStrict n h.path (untagHunk h)).map untag = (applyStrict n' h.path h).map untag :=
      (applyStrict_untagHunk h.path h n).trans (applyStrict_untag_congr e h.path h)
    simp only [List.map_cons, applyStrictAll]
    rw [show (untagHunk h).path = h.path from rfl]
    cases ha : applyStrict n h.path (untagHunk h) with
    | none =>
      rw [ha] at h1
      cases hb : applyStrict n' h.path h with
      | none => rfl
      | some b => rw [hb] at h1; cases h1
    | some a =>
      rw [ha] at h1
      cases hb : applyStrict n' h.path h with
      | none => rw [hb] at h1; cases h1
      | some b =>
        rw [hb] at h1
        simp only [Option.map_some, Option.some.injEq] at h1
        simpa using applyStrictAll_map_untagHunk d h1

/-! ## 2. `RenderPatch` commutes with untagging the payload values -/

theorem ctxOps_untagHunk (h : Hunk) (c : List Json) (f : Int → Int) :
    ctxOps (untagHunk h) (c.map untag) f = Outcome.mapO (List.map JText.untagOp) (ctxOps h c f) := by
  unfold ctxOps
  rw [show (untagHunk h).path = h.path from rfl]
  match c with
  | [] => rfl
  | [b] =>
    simp only [List.map_cons, List.map_nil, untag_isVoid]
    split
    · rfl
    · split
      · rfl
      · cases lastIdx? h.path with
        | none => rfl
        | some i =>
          simp only
          cases writePointerPath (setLastIdx h.path (f i)) with
          | ok pp => rfl
          | err => rfl
          | panic => rfl
  | _ :: _ :: _ => rfl

theorem remOpsOf_map_untag (s : String) (r : List Json) :
    remOpsOf s (r.map untag) = (remOpsOf s r).map JText.untagOp := by
  cases r with
  | nil => rfl
  | cons r0 rest =>
    simp only [remOpsOf, List.map_cons, untag_isVoid]
    split
    · rfl
    · simp only [← List.map_cons, List.flatMap_map, List.map_flatMap]
      rfl

theorem addOpsOf_map_untag (s : String) (a : List Json) :
    addOpsOf s (a.map untag) = (addOpsOf s a).map JText.untagOp := by
  cases a with
  | nil => rfl
  | cons a0 rest =>
    simp only [addOpsOf, List.map_cons, untag_isVoid]
    split
    · rfl
    · simp only [← List.map_cons, ← List.map_reverse, List.map_map]
      rfl

theorem renderPatchHunk_untagHunk {h : Hunk} {ops : List PatchOp}
    (e : renderPatchHunk h = .ok ops) :
    renderPatchHunk (untagHunk h) = .ok (ops.map JText.untagOp) := by
  obtain ⟨s, bo, ao, h1, h2, h3, h4, h5, h6, rfl⟩ := renderPatchHunk_ok e
  rw [renderPatchHunk_eq]
  unfold renderPatchHunk'
  have hb := ctxOps_untagHunk h h.before (fun i => i - 1)
  have ha := ctxOps_untagHunk h h.after (fun i => i + (h.remove.length : Int))
  rw [h5] at hb
  rw [h6] at ha
  simp only [show (untagHunk h).path = h.path from rfl,
    show (untagHunk h).before = h.before.map untag from rfl,
    show (untagHunk h).after = h.after.map untag from rfl,
    show (untagHunk h).remove = h.remove.map untag from rfl,
    show (untagHunk h).add = h.add.map untag from rfl, List.length_map, List.isEmpty_map, h1, h2,
    Outcome.bind_ok, Bool.false_eq_true, if_false, hb, ha, Outcome.mapO,
    remOpsOf_map_untag, addOpsOf_map_untag, List.map_append]
  rw [if_neg (by omega), if_neg (by omega)]
  rfl

theorem renderPatchOps_map_untagHunk : ∀ {d : Diff} {ops : List PatchOp},
    renderPatchOps d = .ok ops → renderPatchOps (d.map untagHunk) = .ok (ops.map JText.untagOp)
  | [], ops, e => by
    simp only [renderPatchOps, Outcome.ok.injEq] at e
    subst e; rfl
  | h :: d, ops, e => by
    obtain ⟨a, b, h1, h2, rfl⟩ := renderPatchOps_ok_cons e
    simp only [List.map_cons, renderPatchOps, renderPatchHunk_untagHunk h1,
      renderPatchOps_map_untagHunk h2, Outcome.bind_ok, List.map_append]
    rfl

/-! ## 3. the input domain `JText.DocOK nc` and the other "no void inside" / length predicates -/

/-- `DocOK` (a document as read from text whose numbers the codec round-trips) is inherited by
    every sub-term -/
theorem docOK_subterms (nc : NumCodec) : ∀ x : Json, JText.DocOK nc x → ∀ z ∈ subterms x,
    JText.DocOK nc z := by
  intro x
  induction x using jsonInd with
  | void => intro h z hz; simp only [subterms, List.mem_singleton] at hz; rw [hz]; exact h
  | null => intro h z hz; simp only [subterms, List.mem_singleton] at hz; rw [hz]; exact h
  | bool _ => intro h z hz; simp only [subterms, List.mem_singleton] at hz; rw [hz]; exact h
  | num _ => intro h z hz; simp only [subterms, List.mem_singleton] at hz; rw [hz]; exact h
  | str _ => intro h z hz; simp only [subterms, List.mem_singleton] at hz; rw [hz]; exact h
  | arr t xs ih =>
    intro h z hz
    simp only [subterms, List.mem_cons] at hz
    rcases hz with rfl | hz
    · exact h
    · obtain ⟨x, hx, hzx⟩ := DES.mem_subtermsList_inv hz
      obtain ⟨h1, h2, h3, h4⟩ := h
      simp only [Json.rawDoc, Bool.and_eq_true] at h1
      simp only [Json.wf] at h2
      simp only [Yaml.voidFree] at h3
      simp only [JText.NumOK] at h4
      exact ih x hx ⟨DES.rawDocList_mem h1.2 hx, DES.wfList_mem h2 hx, V1T.voidFreeList_mem h3 hx,
        V1T.numOKList_mem nc h4 hx⟩ z hzx
  | obj kvs ih =>
    intro h z hz
    simp only [subterms, List.mem_cons] at hz
    rcases hz with rfl | hz
    · exact h
    · obtain ⟨k, v, hm, hzv⟩ := DES.mem_subtermsKvs_inv hz
      obtain ⟨h1, h2, h3, h4⟩ := h
      simp only [Json.rawDoc] at h1
      simp only [Json.wf, Bool.and_eq_true] at h2
      simp only [Yaml.voidFree] at h3
      simp only [JText.NumOK] at h4
      exact ih k v hm ⟨DES.rawDocKvs_mem h1 hm, DES.wfKvs_mem h2.2 hm, V1T.voidFreeKvs_mem h3 hm,
        V1T.numOKKvs_mem nc h4 hm⟩ z hzv

theorem kidsNonVoid_of_voidFree {z : Json} (h : Yaml.voidFree z = true) :
    E2E.kidsNonVoid z = true := by
  cases z with
  | arr t xs =>
    simp only [Yaml.voidFree] at h
    simp only [E2E.kidsNonVoid, List.all_eq_true, Bool.not_eq_true']
    exact fun x hx => V1T.voidFree_notVoid (V1T.voidFreeList_mem h hx)
  | obj kvs =>
    simp only [Yaml.voidFree] at h
    simp only [E2E.kidsNonVoid, List.all_eq_true, Bool.not_eq_true']
    exact fun kv hkv => V1T.voidFree_notVoid (V1T.voidFreeKvs_mem (k := kv.1) h hkv)
  | _ => rfl

/-- `Yaml.voidFree` (no void node at all) implies `E2E.voidFree` (nothing inside is void) -/
theorem e2eVoidFree_of_docOK {nc : NumCodec} {x : Json} (h : JText.DocOK nc x) :
    E2E.voidFree x = true := by
  unfold E2E.voidFree
  rw [E2ES.subterms_eq, List.all_eq_true]
  exact fun z hz => kidsNonVoid_of_voidFree (docOK_subterms nc x h z hz).2.2.1

mutual
theorem vfree_of_voidFree : ∀ v : Json, Yaml.voidFree v = true → PRC.vfree v = true
  | .void, _ => rfl
  | .null, _ => rfl
  | .bool _, _ => rfl
  | .num _, _ => rfl
  | .str _, _ => rfl
  | .arr _ xs, h => by
    simp only [Yaml.voidFree] at h
    simp only [PRC.vfree]; exact vfreeList_of_voidFree xs h
  | .obj kvs, h => by
    simp only [Yaml.voidFree] at h
    simp only [PRC.vfree]; exact vfreeKvs_of_voidFree kvs h
theorem vfreeList_of_voidFree : ∀ xs : List Json, Yaml.voidFreeList xs = true →
    PRC.vfreeList xs = true
  | [], _ => rfl
  | x :: r, h => by
    simp only [Yaml.voidFreeList, Bool.and_eq_true] at h
    simp [PRC.vfreeList, V1T.voidFree_notVoid h.1, vfree_of_voidFree x h.1,
      vfreeList_of_voidFree r h.2]
theorem vfreeKvs_of_voidFree : ∀ kvs : List (String × Json), Yaml.voidFreeKvs kvs = true →
    PRC.vfreeKvs kvs = true
  | [], _ => rfl
  | (k, v) :: r, h => by
    simp only [Yaml.voidFreeKvs, Bool.and_eq_true] at h
    simp [PRC.vfreeKvs, V1T.voidFree_notVoid h.1, vfree_of_voidFree v h.1,
      vfreeKvs_of_voidFree r h.2]
end

theorem lenLeList_mem {N : Nat} : ∀ {xs : List Json} {x : Json}, PRC.lenLeList N xs = true → x ∈ xs →
    PRC.lenLe N x = true
  | y :: r, x, h, hx => by
    simp only [PRC.lenLeList, Bool.and_eq_true] at h
    rcases List.mem_cons.1 hx with rfl | hx
    · exact h.1
    · exact lenLeList_mem h.2 hx

theorem lenLeKvs_mem {N : Nat} : ∀ {kvs : List (String × Json)} {k : String} {x : Json},
    PRC.lenLeKvs N kvs = true → (k, x) ∈ kvs → PRC.lenLe N x = true
  | (k', y) :: r, k, x, h, hx => by
    simp only [PRC.lenLeKvs, Bool.and_eq_true] at h
    rcases List.mem_cons.1 hx with e | hx
    · cases e; exact h.1
    · exact lenLeKvs_mem h.2 hx

theorem lenLe_subterms {N : Nat} : ∀ x : Json, PRC.lenLe N x = true → ∀ z ∈ subterms x,
    PRC.lenLe N z = true := by
  intro x
  induction x using jsonInd with
  | void => intro h z hz; simp only [subterms, List.mem_singleton] at hz; rw [hz]; exact h
  | null => intro h z hz; simp only [subterms, List.mem_singleton] at hz; rw [hz]; exact h
  | bool _ => intro h z hz; simp only [subterms, List.mem_singleton] at hz; rw [hz]; exact h
  | num _ => intro h z hz; simp only [subterms, List.mem_singleton] at hz; rw [hz]; exact h
  | str _ => intro h z hz; simp only [subterms, List.mem_singleton] at hz; rw [hz]; exact h
  | arr t xs ih =>
    intro h z hz
    simp only [subterms, List.mem_cons] at hz
    rcases hz with rfl | hz
    · exact h
    · obtain ⟨x, hx, hzx⟩ := DES.mem_subtermsList_inv hz
      simp only [PRC.lenLe, Bool.and_eq_true] at h
      exact ih x hx (lenLeList_mem h.2 hx) z hzx
  | obj kvs ih =>
    intro h z hz
    simp only [subterms, List.mem_cons] at hz
    rcases hz with rfl | hz
    · exact h
    · obtain ⟨k, v, hm, hzv⟩ := DES.mem_subtermsKvs_inv hz
      simp only [PRC.lenLe] at h
      exact ih k v hm (lenLeKvs_mem h hm) z hzv

theorem shortArrays_of_lenLe {N : Nat} (hN : N < 2 ^ 53) {x : Json} (h : PRC.lenLe N x = true) :
    E2E.shortArrays x = true := by
  unfold E2E.shortArrays
  rw [E2ES.subterms_eq, List.all_eq_true]
  intro z hz
  have := lenLe_subterms x h z hz
  cases z with
  | arr t xs =>
    simp only [PRC.lenLe, Bool.and_eq_true, decide_eq_true_eq] at this
    simp only [E2E.shortArr, decide_eq_true_eq]
    omega
  | _ => rfl

/-! ## 4. THE LIBRARY-LEVEL ROUND TRIP, RFC 6902 format, list reading -/

open Jd.DPL in
/-- **`patch_lib_round_trip`**: `a.Diff(b).RenderPatch()` returns a text, `ReadPatchString` reads
    it, `a.Patch` of the diff read succeeds and the result is structurally equal to `b`
    (and `Equals` it under `PrecMono`, e.g. without a Precision option). -/
theorem patch_lib_round_trip (L : FloatLaws) (F : FloatEq0) (nc : NumCodec) (o : Opts)
    (ho : dispatchTag o = .list) (hm : isMerge o = false) (a b : Json)
    (ha : JText.DocOK nc a) (ha3 : a.finiteNums = true)
    (hb : JText.DocOK nc b) (hb3 : b.finiteNums = true)
    {Na Nb : Nat} (la : PRC.lenLe Na a = true) (lb : PRC.lenLe Nb b = true) (hN : Na + Nb < 2 ^ 53)
    (H : HashOK o a b) (Z : ZeroOK a b)
    (ka : PRC.keysExpressible a = true) (kb : PRC.keysExpressible b = true) :
    ∃ text d' r, renderPatchM nc (diffM o a b) = .ok (some text) ∧
      readPatchM nc text = .ok d' ∧ patchM a d' = .ok r ∧
      specEq r b = true ∧ specEq b r = true ∧ r.listDoc = true ∧
      (PrecMono o → equivB o r b = true ∧ equals o r b = true) := by
  obtain ⟨ha1, ha2, hav, haN⟩ := ha
  obtain ⟨hb1, hb2, hbv, hbN⟩ := hb
  have hal := rawDoc_listDoc a ha1
  have hbl := rawDoc_listDoc b hb1
  have ha4 := vfree_of_voidFree a hav
  have hb4 := vfree_of_voidFree b hbv
  have ha5 := Own.elemsRaw_of_rawDoc ha1
  have hv : (a.isObj && b.isVoid) = false := by
    rw [V1T.voidFree_notVoid hbv]; simp
  have hp := PRC.diffM_paths_expressible o ho hm a b hal hbl ka kb
  -- the diff in memory
  obtain ⟨ops, er⟩ := (PRC.render_diffM_ok_iff o ho hm a b hal ha2 ha4 hbl hb2 hb4).2 hp
  obtain ⟨g1, g2, g3⟩ := Own.diffM_in_grammar_of_paths o ho hm a b hal ha2 ha3 ha4 ha5 hbl hb2 hb4 F
    la lb hN hv hp
  obtain ⟨m, hm1, hm2, hm3, _, hm5⟩ := DPL.diffM_list_correct L o ho hm a b hal ha2 ha3
    (PRC.memOK_of_vfree a ha4) hbl hb2 hb3 (PRC.memOK_of_vfree b hb4) H Z
  -- the values written are sub-terms of the two documents (up to the tag of an array)
  have hsub : ∀ z ∈ DPL.subterms a ++ DPL.subterms b,
      JText.preOK nc z = true ∧ JText.mSetFree z = true := by
    intro z hz
    rw [E2ES.subterms_eq, E2ES.subterms_eq] at hz
    have hd : JText.DocOK nc z := by
      rcases List.mem_append.1 hz with hz | hz
      · exact docOK_subterms nc a ⟨ha1, ha2, hav, haN⟩ z hz
      · exact docOK_subterms nc b ⟨hb1, hb2, hbv, hbN⟩ z hz
    exact ⟨hd.preOK, JText.mSetFree_of_setFree _
      (JText.setFree_of_listDoc _ (rawDoc_listDoc z hd.1))⟩
  have hpay := E2E.diffM_payloads o ho hm a b hal hbl
    (e2eVoidFree_of_docOK (nc := nc) ⟨ha1, ha2, hav, haN⟩)
    (e2eVoidFree_of_docOK (nc := nc) ⟨hb1, hb2, hbv, hbN⟩)
    (shortArrays_of_lenLe (N := Nb) (by omega) lb)
    (fun v => JText.preOK nc v = true ∧ JText.mSetFree v = true)
    (fun t xs h => by simpa only [JText.preOK, JText.mSetFree] using h) hsub
  have hvals : ∀ h ∈ diffM o a b,
      JText.HunkVals (fun v => JText.preOK nc v = true ∧ JText.mSetFree v = true) h := by
    intro h hh
    have hw : PBwfH h = true := by
      simp only [PBwf, Bool.and_eq_true] at g1
      exact List.all_eq_true.1 g1.1 h hh
    simp only [PBwfH, Bool.and_eq_true] at hw
    obtain ⟨⟨⟨⟨_, hR⟩, hA⟩, _⟩, _⟩ := hw
    have inpay : ∀ v, v ∈ h.before ++ h.remove ++ h.add ++ h.after → v.isVoid = false →
        JText.preOK nc v = true ∧ JText.mSetFree v = true := by
      intro v hv hnv
      exact hpay h hh v (List.mem_filter.2 ⟨hv, by simp [hnv]⟩)
    refine ⟨fun v hv hnv => inpay v (by simp [hv]) hnv, fun v hv hnv => inpay v (by simp [hv]) hnv,
      .inl fun v hv => inpay v (by simp [hv]) ?_, .inl fun v hv => inpay v (by simp [hv]) ?_⟩
    · have := List.all_eq_true.1 hR v hv
      simp only [valOK, Bool.and_eq_true, Bool.not_eq_true'] at this
      exact this.1.1.1
    · have := List.all_eq_true.1 hA v hv
      simpa using this
  have hok := JText.renderPatchOps_values er hvals
  -- the text, and what the reader makes of it
  obtain ⟨text, t1, t2⟩ := JText.readPatchM_renderPatchM_untag nc (diffM o a b) ops er hok
  -- the untagged diff is in the grammar and has the same effect up to tags
  have er2 := renderPatchOps_map_untagHunk er
  have hab2 : ∃ m2, applyStrictAll a ((diffM o a b).map untagHunk) = some m2 ∧
      untag m2 = untag m := by
    have := applyStrictAll_map_untagHunk (diffM o a b) (n := a) (n' := a) rfl
    rw [hm1] at this
    cases h2 : applyStrictAll a ((diffM o a b).map untagHunk) with
    | none => rw [h2] at this; cases this
    | some m2 =>
      rw [h2] at this
      simp only [Option.map_some, Option.some.injEq] at this
      exact ⟨m2, rfl, this⟩
  obtain ⟨m2, hab2, hum⟩ := hab2
  obtain ⟨hread, r, hP, hu, hrl⟩ := Own.parse_back_of_grammar L F (PBwf_map_untagHunk g1)
    (all_jdShaped_map_untagHunk g2) (all_hunkListDoc_map_untagHunk _) er2 hal hab2
  rw [hum] at hu
  refine ⟨text, _, r, t1, t2.trans hread, hP, ?_, ?_, hrl, fun hpm => ?_⟩
  · rw [← specEq_untag_left, hu, specEq_untag_left]; exact hm2
  · rw [← specEq_untag_right, hu, specEq_untag_right]; exact hm3
  · have e : equivB o r b = true := by
      rw [← equivB_untag_left o ho, hu, equivB_untag_left o ho]; exact (hm5 hpm).1
    exact ⟨e, by rw [equals_eq_equivB_list o ho r b hrl hbl]; exact e⟩

/-! ## 5. `jd -f patch a b` then `jd -p -f patch` -/

theorem parsedOptions_patchList (b : Binary) {fl : Flags} (hset : fl.set = false)
    (hmset : fl.mset = false) (hkeys : fl.setkeys = "") (hf : fl.f = "patch") :
    parsedOptions b fl = .ok [Opt.prec fl.precision] := by
  rw [parsedOptions_same]
  simp [optionsOf, hset, hmset, hkeys, hf]

theorem renderAs_patch_ok (nc : NumCodec) (Y : YamlCarrier) (color : Bool) (d : Diff) {text : String}
    (h : renderPatchM nc d = .ok (some text)) :
    renderAs (nativeLib nc Y) .patch color d = .ok text := by
  show ofOutcomeText (renderPatchM nc d) = .ok text
  rw [h]; rfl

theorem readDiff_patch_ok (nc : NumCodec) (Y : YamlCarrier) {T : String} {d' : Diff}
    (h : readPatchM nc T = .ok d') : (nativeLib nc Y).readDiff .patch T = .ok d' := by
  show ofOutcome (readPatchM nc T) = .ok d'
  rw [h]; rfl

open Jd.DPL in
/-- **`LibRoundTrip` for `-f patch`** (list reading), from `patch_lib_round_trip` -/
theorem libRoundTrip_patch (L : FloatLaws) (F : FloatEq0) (nc : NumCodec) (Y : YamlCarrier)
    (color : Bool) (o : Opts) (ho : dispatchTag o = .list) (hm : isMerge o = false) (a b : Json)
    (ha : JText.DocOK nc a) (ha3 : a.finiteNums = true)
    (hb : JText.DocOK nc b) (hb3 : b.finiteNums = true)
    {Na Nb : Nat} (la : PRC.lenLe Na a = true) (lb : PRC.lenLe Nb b = true) (hN : Na + Nb < 2 ^ 53)
    (H : HashOK o a b) (Z : ZeroOK a b)
    (ka : PRC.keysExpressible a = true) (kb : PRC.keysExpressible b = true) :
    LibRoundTrip (nativeLib nc Y) .patch color o a b
      (fun r => specEq r b = true ∧ specEq b r = true ∧ r.listDoc = true ∧
        (PrecMono o → equivB o r b = true ∧ equals o r b = true)) := by
  obtain ⟨text, d', r, g1, g2, g3, g4⟩ := patch_lib_round_trip L F nc o ho hm a b ha ha3 hb hb3 la lb
    hN H Z ka kb
  intro T hT
  rw [nativeLib_diff, renderAs_patch_ok nc Y color _ g1] at hT
  cases hT
  exact ⟨d', r, readDiff_patch_ok nc Y g2, by rw [nativeLib_patch, g3]; rfl, g4⟩

open Jd.DPL in
/-- **END TO END, `-f patch` (RFC 6902), list reading, v2 library** (`patch_cli_round_trip`):
    `jd -f patch [-precision e] [-yaml] [-color] [-o F] a b` followed by
    `jd -p -f patch [same flags] [-o G] T a`. -/
theorem patch_cli_round_trip (L : FloatLaws) (F : FloatEq0) (nc : NumCodec)
    (Y : YamlCarrier) (Ls : Bool → LibPack) (hL : Ls false = ⟨Json, Diff, nativeLib nc Y⟩)
    (b : Binary) {fl fl2 : Flags} {e1 e2 : Env}
    (hm : isDiffMode fl) (h : PatchTwin fl fl2) (hv2 : libIsV1 b fl = false)
    (hf : fl.f = "patch") (hset : fl.set = false) (hmset : fl.mset = false)
    (hkeys : fl.setkeys = "") (hn : fl.nargs = 1 ∨ fl.nargs = 2)
    {ta tb : String} {a b' : Json}
    (hi1 : e1.in1 = .ok ta) (hi2 : e1.in2 = .ok tb) (hw1 : fl.o = "" ∨ e1.write = .ok ())
    (hra : (nativeLib nc Y).readDoc fl.yaml ta = .ok a)
    (hrb : (nativeLib nc Y).readDoc fl.yaml tb = .ok b')
    (ha : JText.DocOK nc a) (ha3 : a.finiteNums = true)
    (hb : JText.DocOK nc b') (hb3 : b'.finiteNums = true)
    {Na Nb : Nat} (la : PRC.lenLe Na a = true) (lb : PRC.lenLe Nb b' = true)
    (hN : Na + Nb < 2 ^ 53)
    (H : HashOK [Opt.prec fl.precision] a b') (Z : ZeroOK a b')
    (ka : PRC.keysExpressible a = true) (kb : PRC.keysExpressible b' = true)
    (hT : e2.in1 = .ok (emitted (proc Ls b fl e1)))
    (ha2 : e2.in2 = e1.in1) (hw : fl2.o = "" ∨ e2.write = .ok ()) :
    ∃ T d' r,
      parsedOptions b fl = .ok [Opt.prec fl.precision] ∧
      renderPatchM nc (diffM [Opt.prec fl.precision] a b') = .ok (some T) ∧
      readPatchM nc T = .ok d' ∧ patchM a d' = .ok r ∧
      specEq r b' = true ∧ specEq b' r = true ∧ r.listDoc = true ∧
      (PrecMono [Opt.prec fl.precision] →
        equivB [Opt.prec fl.precision] r b' = true ∧ equals [Opt.prec fl.precision] r b' = true) ∧
      TwoRuns (proc Ls b fl e1) (proc Ls b fl2 e2) fl fl2 T (if T = "[]" then 0 else 1)
        ((nativeLib nc Y).renderDoc fl.yaml [Opt.prec fl.precision] r) := by
  have ho := parsedOptions_patchList b hset hmset hkeys hf
  have hfmt : formatOf fl.f = some .patch := by rw [hf]; rfl
  obtain ⟨text, d', r, g1, g2, g3, g4, g5, g6, g7⟩ := patch_lib_round_trip L F nc
    [Opt.prec fl.precision] rfl rfl a b' ha ha3 hb hb3 la lb hN H Z ka kb
  refine ⟨text, d', r, ho, g1, g2, g3, g4, g5, g6, g7, ?_⟩
  exact native_total_cli_round_trip nc Y Ls hL b hm h hv2 ho hn hfmt hi1 hi2 hw1 hra hrb
    (renderAs_patch_ok nc Y _ _ g1) (readDiff_patch_ok nc Y g2) g3 hT ha2 hw

#print axioms PBwf_map_untagHunk
#print axioms applyStrictAll_map_untagHunk
#print axioms renderPatchOps_map_untagHunk
#print axioms docOK_subterms
#print axioms patch_lib_round_trip
#print axioms libRoundTrip_patch
#print axioms patch_cli_round_trip

end Jd.CliRTM
