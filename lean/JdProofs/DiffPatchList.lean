/-
  JdProofs.DiffPatchList — property C01 in LIST mode, strict strategy:
  applying `a.Diff(b)` to `a` yields a document equal to `b`.

  The hunks are interpreted by the REFERENCE semantics `Jd.Spec.applyStrictAll` (JdSpec.HunkSem:
  paths, removed values, before / after context lines all checked), not by the library's patch code.

  Everything lives in the namespace `Jd.DPL` (so that the file can be imported next to the other
  proof files); definitions on documents are plain functions (`DPL.subterms a`, `DPL.memOK a`, …).

  Main results (all for options `o` with `dispatchTag o = .list` and `isMerge o = false`):

  * `diffM_list_correct` (full nesting: lists in lists, objects, scalars — "Stage C"):
      for `a b` list documents, well-formed (sorted unique keys), finite numbers, no void member,
      under `HashOK o a b` (no FNV collision between a sub-term of `a` and a sub-term of `b`) and
      `ZeroOK a b` (no `0` / `-0` pair between the numbers of `a` and of `b`):
        ∃ r, applyStrictAll a (diffM o a b) = some r ∧ specEq r b ∧ specEq b r ∧ r.listDoc ∧
             (PrecMono o → equivB o r b ∧ equals o r b)
    and `diffM_list_correct_noPrecision` (`precOf o = 0`: `equals o r b` without `PrecMono`).
  * `diffM_list_correct_scalar_arrays` ("Stage A", kept): arrays of scalars, no `ZeroOK` needed,
    with the sharper pointwise description of the result (`PWL`: each element is the target's, or
    an element of the source with the same hash code), any precision (`PrecMono o`).
  * `Example.hyps`: a concrete pair with a three-hunk diff (one of them inside a nested list)
    satisfies all the hypotheses.
  * FORMER FINDING (`Example.cexA`, `Example.cexB`): with the ORIGINAL hash (taken over the bits of
    the numbers, `0` and `-0` different) the statement was FALSE without `ZeroOK`, for the model and
    for the Go library: `[1,{"a":0}]` → `[2,{"a":-0}]` produced a hunk whose after-context was wrong,
    and `a.Patch(a.Diff(b))` failed. The Go code was repaired (`0` and `-0` hash alike,
    JdModel.Hash); on the repaired model the pair goes through (see the `#eval`s). `ZeroOK` is kept
    as a hypothesis: it is now stronger than necessary.

  Structure of the proof: unfolding equations of `diffNode` / `diffKvs` / `diffRest` in list mode
  and an induction principle with only the reachable branches (`listDiff_induct`, from
  `diffNode.mutual_induct`); the path argument is a prefix (`diff_shift`); one accumulated list hunk
  against `splice` (`splice_ok`, `apply_accHunk`); frame lemmas below an index / a key
  (`applyStrictAll_idx_frame`, `applyStrictAll_key_frame'`); an empty sub-diff means equal hash
  codes (`diff_empty_hash`), which with the optimality of the golcs common sequence (`LOpt`, from
  `lcs_optimal`) shows that the sub-diff of two compatible containers that are not common elements is
  never empty (so the after-context of the accumulated hunk is the element itself); the main
  induction `diff_correct`. The sub-diff of two compatible containers passes through `Jd.subAfter`
  (the end block of Go's `diffRest`: a wholesale replacement with nothing accumulated receives the
  TRUE next element, or the array end, as after-context): `applyStrict_idx_replace_after`,
  `applyStrictAll_idx_frame_subAfter` (the strict splice checks that context and it holds),
  `subAfter_diffNode_cases` (identity except for a typed `jsonList` against a plain `jsonArray`).
-/
import JdModel
import JdSpec
import JdProofs.EqualsList
import JdProofs.LcsProofs
import JdProofs.SubAfter

namespace Jd.DPL
open Jd Jd.Spec

/-! ## 0. unfolding equations of the diff functions in list mode, strict strategy -/

/-- "the cursor element is the next element of the common sequence" (`atCommonA` / `atCommonB`) -/
def atC (o : Opts) (x : Json) (c : List UInt64) : Bool :=
  match c with | [] => false | z :: _ => hashCode o x == z

theorem diffRest_nil_nil (o : Opts) (p : Path) (k s : Nat) (prev : Json) (c : List UInt64) :
    diffRest o p k s prev [] [] c [] [] = [] := by
  rw [diffRest.eq_def]; simp [accHunk]

theorem diffRest_nilA (o : Opts) (p : Path) (k s : Nat) (prev : Json) (b : List Json) (c : List UInt64)
    (R A : List Json) :
    diffRest o p k s prev [] b c R A = accHunk p s prev R (A ++ b) .void := by
  rw [diffRest.eq_def]

theorem diffRest_nilB (o : Opts) (p : Path) (k s : Nat) (prev : Json) (a : List Json) (c : List UInt64)
    (R A : List Json) (ha : a ≠ []) :
    diffRest o p k s prev a [] c R A = accHunk p s prev (R ++ a) A .void := by
  rw [diffRest.eq_def]
  cases a with
  | nil => exact absurd rfl ha
  | cons x a' => rfl

theorem diffRest_cons (o : Opts) (p : Path) (k s : Nat) (prev x y : Json) (a' b' : List Json)
    (c : List UInt64) (R A : List Json) :
    diffRest o p k s prev (x :: a') (y :: b') c R A =
      if atC o x c && atC o y c then
        accHunk p s prev R A x ++ diffRest o p (k + 1) (k + 1) y a' b' c.tail [] []
      else if atC o x c then diffRest o p (k + 1) s prev (x :: a') b' c R (A ++ [y])
      else if atC o y c then diffRest o p k s prev a' (y :: b') c (R ++ [x]) A
      else if sameContainerType o x y then
        accHunk p s prev R A
            (if (diffNode o false x y (p ++ [.idx k])).isEmpty then a'.headD .void else x) ++
          subAfter p (R.isEmpty && A.isEmpty) (a'.headD .void) (diffNode o false x y (p ++ [.idx k])) ++
          diffRest o p (k + 1) (k + 1) y a' b' c [] []
      else diffRest o p (k + 1) s prev a' b' c (R ++ [x]) (A ++ [y]) := by
  rw [diffRest.eq_def]
  simp only [atC]
  have h0 : ∀ c', (if (a'.isEmpty && b'.isEmpty) = true then ([] : Diff)
      else diffRest o p (k + 1) (k + 1) y a' b' c' [] []) =
      diffRest o p (k + 1) (k + 1) y a' b' c' [] [] := by
    intro c'
    split
    · next h =>
      simp only [Bool.and_eq_true, List.isEmpty_iff] at h
      obtain ⟨rfl, rfl⟩ := h
      rw [diffRest_nil_nil]
    · rfl
  simp only [h0]
  rfl

theorem diffNode_arr_arr {o : Opts} (ho : dispatchTag o = .list) {t t' : Tag} (xs ys : List Json)
    (ht : (t == .raw || t == .list) = true) (ht' : (t' == .raw || t' == .list) = true)
    (htt : t = .raw ∨ t' = .list) (p : Path) :
    diffNode o false (.arr t xs) (.arr t' ys) p =
      diffRest o p 0 0 .void xs ys (lcsValues (hashList o xs) (hashList o ys)) [] [] := by
  rw [diffNode.eq_def]
  cases t <;> cases t' <;> simp_all [effTag, Json.dispatch]

/-- a list against a non-array, or a typed `jsonList` against a plain `jsonArray`: one hunk
    replacing the whole value -/
theorem diffNode_arr_other {o : Opts} (ho : dispatchTag o = .list) {t : Tag} (xs : List Json) (b : Json)
    (ht : (t == .raw || t == .list) = true)
    (hb : (∀ t' ys, b ≠ .arr t' ys) ∨ (t = .list ∧ ∃ ys, b = .arr .raw ys)) (p : Path) :
    diffNode o false (.arr t xs) b p =
      [{ path := p, remove := [Json.arr .list xs], add := b.nodeList }] := by
  rw [diffNode.eq_def]
  rcases hb with hb | ⟨rfl, ys, rfl⟩
  · cases t <;> cases b <;> simp_all [effTag, Json.dispatch, Json.nodeList, Json.isVoid]
  · simp [effTag, Json.nodeList, Json.isVoid]

theorem diffNode_obj_obj (o : Opts) (kvs kvs' : List (String × Json)) (p : Path) :
    diffNode o false (.obj kvs) (.obj kvs') p =
      diffKvs o false p kvs' kvs ++
        (kvs'.filter (fun kv => (alookup kv.1 kvs).isNone)).map (fun kv =>
          { merge := false, path := p ++ [.key kv.1], add := kv.2.nodeList }) := by
  rw [diffNode.eq_def]

theorem diffNode_obj_other (o : Opts) (kvs : List (String × Json)) (b : Json)
    (hb : ∀ kvs', b ≠ .obj kvs') (p : Path) :
    diffNode o false (.obj kvs) b p = [{ path := p, remove := [Json.obj kvs], add := [b] }] := by
  rw [diffNode.eq_def]
  cases b <;> simp_all

theorem diffNode_scalar (o : Opts) (a b : Json) (ha : ∀ t xs, a ≠ .arr t xs) (ha' : ∀ kvs, a ≠ .obj kvs)
    (p : Path) : diffNode o false a b p = diffCommon false a b p := by
  rw [diffNode.eq_def]
  cases a <;> simp_all

theorem diffKvs_nil (o : Opts) (p : Path) (kvs' : List (String × Json)) :
    diffKvs o false p kvs' [] = [] := by
  rw [diffKvs.eq_def]

theorem diffKvs_cons (o : Opts) (p : Path) (kvs' : List (String × Json)) (k : String) (v : Json)
    (r : List (String × Json)) :
    diffKvs o false p kvs' ((k, v) :: r) =
      (match alookup k kvs' with
       | some v' => diffNode o false v v' (p ++ [.key k])
       | none => [{ path := p ++ [.key k], remove := v.nodeList }]) ++ diffKvs o false p kvs' r := by
  rw [diffKvs.eq_def]
  simp only [Bool.false_eq_true, if_false]
  rfl

theorem effTag_absurd_set {o : Opts} (ho : dispatchTag o = .list) {t : Tag} {xs : List Json}
    (hl : (Json.arr t xs).listDoc = true) (h : effTag o t = .set) : False := by
  simp only [Json.listDoc, Bool.and_eq_true] at hl
  rw [effTag_list ho hl.1] at h; cases h

theorem effTag_absurd_mset {o : Opts} (ho : dispatchTag o = .list) {t : Tag} {xs : List Json}
    (hl : (Json.arr t xs).listDoc = true) (h : effTag o t = .mset) : False := by
  simp only [Json.listDoc, Bool.and_eq_true] at hl
  rw [effTag_list ho hl.1] at h; cases h

theorem atC_split (o : Opts) (x : Json) (c : List UInt64) :
    (match c with | [] => false | z :: _ => hashCode o x == z) = atC o x c := rfl

theorem bprime_list {o : Opts} (ho : dispatchTag o = .list) {t t' : Tag} {ys ys' : List Json}
    (ht : (t == .raw || t == .list) = true) (ht' : (t' == .raw || t' == .list) = true)
    (h : (if (t == Tag.raw) = true then Json.dispatch o (.arr t' ys') else .arr t' ys') = .arr .list ys) :
    ys' = ys ∧ (t = .raw ∨ t' = .list) := by
  cases t <;> cases t' <;> simp_all [Json.dispatch]

theorem bprime_not_list {o : Opts} (ho : dispatchTag o = .list) {t t' : Tag} {ys' : List Json}
    (ht : (t == .raw || t == .list) = true) (ht' : (t' == .raw || t' == .list) = true)
    (h : ∀ ys, (if (t == Tag.raw) = true then Json.dispatch o (.arr t' ys') else .arr t' ys') = .arr .list ys → False) :
    t = .list ∧ t' = .raw := by
  cases t <;> cases t' <;> simp_all [Json.dispatch]

/-- induction principle of the `diffNode` / `diffKvs` / `diffRest` recursion specialised to list
    mode, strict strategy, list documents: only the reachable branches remain -/
theorem listDiff_induct (o : Opts) (ho : dispatchTag o = .list)
    (mN : Json → Json → Prop) (mK : List (String × Json) → List (String × Json) → Prop)
    (mR : Nat → Nat → Json → List Json → List Json → List UInt64 → List Json → List Json → Prop)
    (arr_arr : ∀ t t' xs ys, (t == .raw || t == .list) = true → (t' == .raw || t' == .list) = true →
      (t = .raw ∨ t' = .list) → listDocList xs = true → listDocList ys = true →
      mR 0 0 .void xs ys (lcsValues (hashList o xs) (hashList o ys)) [] [] →
      mN (.arr t xs) (.arr t' ys))
    (arr_other : ∀ t xs b, (t == .raw || t == .list) = true → listDocList xs = true →
      b.listDoc = true → ((∀ t' ys, b ≠ .arr t' ys) ∨ (t = .list ∧ ∃ ys, b = .arr .raw ys)) →
      mN (.arr t xs) b)
    (obj_obj : ∀ kvs kvs', listDocKvs kvs = true → listDocKvs kvs' = true → mK kvs' kvs →
      mN (.obj kvs) (.obj kvs'))
    (obj_other : ∀ kvs b, listDocKvs kvs = true → b.listDoc = true → (∀ kvs', b ≠ .obj kvs') →
      mN (.obj kvs) b)
    (scalar : ∀ a b, (∀ t xs, a ≠ .arr t xs) → (∀ kvs, a ≠ .obj kvs) → b.listDoc = true → mN a b)
    (kvs_nil : ∀ kvs', mK kvs' [])
    (kvs_cons : ∀ kvs' k v r, listDocKvs kvs' = true → v.listDoc = true → listDocKvs r = true →
      (∀ v', v'.listDoc = true → mN v v') → mK kvs' r → mK kvs' ((k, v) :: r))
    (r_nilA : ∀ k s prev c R A b, listDocList b = true → mR k s prev [] b c R A)
    (r_nilB : ∀ k s prev c R A a, a ≠ [] → listDocList a = true → mR k s prev a [] c R A)
    (r_both : ∀ k s prev c R A x a' y b', listDocList (x :: a') = true → listDocList (y :: b') = true →
      atC o x c = true → atC o y c = true → mR (k + 1) (k + 1) y a' b' c.tail [] [] →
      mR k s prev (x :: a') (y :: b') c R A)
    (r_A : ∀ k s prev c R A x a' y b', listDocList (x :: a') = true → listDocList (y :: b') = true →
      atC o x c = true → atC o y c = false → mR (k + 1) s prev (x :: a') b' c R (A ++ [y]) →
      mR k s prev (x :: a') (y :: b') c R A)
    (r_B : ∀ k s prev c R A x a' y b', listDocList (x :: a') = true → listDocList (y :: b') = true →
      atC o x c = false → atC o y c = true → mR k s prev a' (y :: b') c (R ++ [x]) A →
      mR k s prev (x :: a') (y :: b') c R A)
    (r_sub : ∀ k s prev c R A x a' y b', listDocList (x :: a') = true → listDocList (y :: b') = true →
      atC o x c = false → atC o y c = false → sameContainerType o x y = true → mN x y →
      mR (k + 1) (k + 1) y a' b' c [] [] → mR k s prev (x :: a') (y :: b') c R A)
    (r_diff : ∀ k s prev c R A x a' y b', listDocList (x :: a') = true → listDocList (y :: b') = true →
      atC o x c = false → atC o y c = false → sameContainerType o x y = false →
      mR (k + 1) s prev a' b' c (R ++ [x]) (A ++ [y]) → mR k s prev (x :: a') (y :: b') c R A) :
    (∀ a b, a.listDoc = true → b.listDoc = true → mN a b) ∧
    (∀ kvs' kvs, listDocKvs kvs' = true → listDocKvs kvs = true → mK kvs' kvs) ∧
    (∀ k s prev a b c R A, listDocList a = true → listDocList b = true → mR k s prev a b c R A) := by
  have key := diffNode.mutual_induct o
    (motive1 := fun merge a b _ => merge = false → a.listDoc = true → b.listDoc = true → mN a b)
    (motive2 := fun merge _ kvs' kvs => merge = false → listDocKvs kvs' = true → listDocKvs kvs = true →
      mK kvs' kvs)
    (motive3 := fun _ k s prev a b c R A => listDocList a = true → listDocList b = true →
      mR k s prev a b c R A)
    (motive4 := fun _ _ _ _ => True)
  refine (fun h => ⟨fun a b => h.1 false a b [] rfl, fun kvs' kvs => h.2.1 false [] kvs' kvs rfl,
    fun k s prev a b c R A => h.2.2.1 [] k s prev a b c R A⟩) (key ?_ ?_ ?_ ?_ ?_ ?_ ?_ ?_ ?_ ?_ ?_ ?_ ?_ ?_ ?_ ?_ ?_ ?_ ?_ ?_ ?_ ?_ ?_ ?_ ?_ ?_ ?_ ?_ ?_ ?_ ?_ ?_)
  all_goals intros
  all_goals first
    | trivial
    | exact (effTag_absurd_set ho ‹(Json.arr _ _).listDoc = true› ‹effTag o _ = Tag.set›).elim
    | exact (effTag_absurd_mset ho ‹(Json.arr _ _).listDoc = true› ‹effTag o _ = Tag.mset›).elim
    | skip
  · -- list against list
    rename_i b p t xs b' ys hb' _ c _ _ ih _ hl hlb
    simp only [Json.listDoc, Bool.and_eq_true] at hl
    cases b with
    | arr t' ys' =>
      simp only [Json.listDoc, Bool.and_eq_true] at hlb
      have hys : ys' = ys ∧ (t = .raw ∨ t' = .list) := bprime_list ho hl.1 hlb.1 (by simpa [b'] using hb')
      obtain ⟨rfl, htt⟩ := hys
      exact arr_arr t t' xs ys' hl.1 hlb.1 htt hl.2 hlb.2 (ih hl.2 hlb.2)
    | _ => cases t <;> simp [b', Json.dispatch] at hb'
  · -- list against something else
    rename_i b p t xs b' _ _ _ hb' _ hl hlb
    simp only [Json.listDoc, Bool.and_eq_true] at hl
    refine arr_other t xs b hl.1 hl.2 hlb ?_
    cases b with
    | arr t' ys =>
      right
      simp only [Json.listDoc, Bool.and_eq_true] at hlb
      obtain ⟨rfl, rfl⟩ := bprime_not_list ho hl.1 hlb.1 (by simpa [b'] using hb')
      exact ⟨rfl, ys, rfl⟩
    | _ => left; intro t' ys h; cases h
  · rename_i kvs kvs' ih hm hl hl'
    simp only [Json.listDoc] at hl hl'
    exact obj_obj kvs kvs' hl hl' (ih hm hl' hl)
  · rename_i b p kvs _ hb _ hl hlb
    simp only [Json.listDoc] at hl
    exact obj_other kvs b hl hlb (fun kvs' h => hb kvs' h)
  · rename_i b p a h1 h2 _ _ hlb
    exact scalar a b (fun t xs h => h1 t xs h) (fun kvs h => h2 kvs h) hlb
  · exact kvs_nil _
  · rename_i kvs' k v r ih2 ih1 hm hl' hl
    simp only [listDocKvs, Bool.and_eq_true] at hl
    exact kvs_cons kvs' k v r hl' hl.1 hl.2 (fun v' hv' => ih2 v' hm hl.1 hv') (ih1 hm hl' hl.2)
  · exact r_nilA _ _ _ _ _ _ _ ‹_›
  · rename_i a hne hl _
    exact r_nilB _ _ _ _ _ _ a (fun h => hne h) hl
  · rename_i c R A x a' y b' atA atB h ih hl hl'
    simp only [Bool.and_eq_true] at h
    have hl2 := hl; have hl2' := hl'
    simp only [listDocList, Bool.and_eq_true] at hl2 hl2'
    exact r_both _ _ _ c _ _ x a' y b' hl hl' h.1 h.2 (ih hl2.2 hl2'.2)
  · rename_i c R A x a' y b' atA atB h hA ih hl hl'
    have hl2' := hl'
    simp only [listDocList, Bool.and_eq_true] at hl2'
    have hB : atC o y c = false := by
      cases hb : atC o y c with
      | false => rfl
      | true => exact absurd (show (atA && atB) = true by rw [Bool.and_eq_true]; exact ⟨hA, hb⟩) h
    exact r_A _ _ _ c _ _ x a' y b' hl hl' hA hB (ih hl hl2'.2)
  · rename_i c R A x a' y b' atA atB h hA hB ih hl hl'
    have hl2 := hl
    simp only [listDocList, Bool.and_eq_true] at hl2
    exact r_B _ _ _ c _ _ x a' y b' hl hl' (Bool.eq_false_iff.2 hA) hB (ih hl2.2 hl')
  · rename_i c R A x a' y b' atA atB h hA hB hs ih2 ih1 hl hl'
    have hl2 := hl; have hl2' := hl'
    simp only [listDocList, Bool.and_eq_true] at hl2 hl2'
    exact r_sub _ _ _ c _ _ x a' y b' hl hl' (Bool.eq_false_iff.2 hA) (Bool.eq_false_iff.2 hB) hs
      (ih2 rfl hl2.1 hl2'.1) (ih1 hl2.2 hl2'.2)
  · rename_i c R A x a' y b' atA atB h hA hB hs ih1 hl hl'
    have hl2 := hl; have hl2' := hl'
    simp only [listDocList, Bool.and_eq_true] at hl2 hl2'
    exact r_diff _ _ _ c _ _ x a' y b' hl hl' (Bool.eq_false_iff.2 hA) (Bool.eq_false_iff.2 hB)
      (Bool.eq_false_iff.2 hs) (ih1 hl2.2 hl2'.2)

/-! ## 1. the path argument is only a prefix -/

/-- prefix the path of a hunk -/
def shiftHunk (p : Path) (h : Hunk) : Hunk := { h with path := p ++ h.path }

theorem accHunk_shift (p q : Path) (s : Nat) (prev : Json) (R A : List Json) (after : Json) :
    accHunk (p ++ q) s prev R A after = (accHunk q s prev R A after).map (shiftHunk p) := by
  unfold accHunk
  split <;> simp [shiftHunk]

theorem subAfter_shift (p q : Path) (n : Bool) (x : Json) (D : Diff) :
    subAfter (p ++ q) n x (D.map (shiftHunk p)) = (subAfter q n x D).map (shiftHunk p) :=
  subAfter_map_prefix p q n x D

theorem diffCommon_shift (p q : Path) (a b : Json) :
    diffCommon false a b (p ++ q) = (diffCommon false a b q).map (shiftHunk p) := by
  unfold diffCommon
  split <;> simp [shiftHunk]

theorem diff_shift (o : Opts) (ho : dispatchTag o = .list) :
    (∀ a b, a.listDoc = true → b.listDoc = true → ∀ p q,
      diffNode o false a b (p ++ q) = (diffNode o false a b q).map (shiftHunk p)) ∧
    (∀ kvs' kvs, listDocKvs kvs' = true → listDocKvs kvs = true → ∀ p q,
      diffKvs o false (p ++ q) kvs' kvs = (diffKvs o false q kvs' kvs).map (shiftHunk p)) ∧
    (∀ k s prev a b c R A, listDocList a = true → listDocList b = true → ∀ p q,
      diffRest o (p ++ q) k s prev a b c R A =
        (diffRest o q k s prev a b c R A).map (shiftHunk p)) := by
  apply listDiff_induct o ho
    (mN := fun a b => ∀ p q,
      diffNode o false a b (p ++ q) = (diffNode o false a b q).map (shiftHunk p))
    (mK := fun kvs' kvs => ∀ p q,
      diffKvs o false (p ++ q) kvs' kvs = (diffKvs o false q kvs' kvs).map (shiftHunk p))
    (mR := fun k s prev a b c R A => ∀ p q,
      diffRest o (p ++ q) k s prev a b c R A =
        (diffRest o q k s prev a b c R A).map (shiftHunk p))
  · intro t t' xs ys ht ht' htt _ _ ih p q
    rw [diffNode_arr_arr ho xs ys ht ht' htt, diffNode_arr_arr ho xs ys ht ht' htt, ih]
  · intro t xs b ht _ _ hb p q
    rw [diffNode_arr_other ho xs b ht hb, diffNode_arr_other ho xs b ht hb]
    simp [shiftHunk]
  · intro kvs kvs' _ _ ih p q
    rw [diffNode_obj_obj, diffNode_obj_obj, ih]
    simp [shiftHunk, List.map_map, Function.comp_def]
  · intro kvs b _ _ hb p q
    rw [diffNode_obj_other o kvs b hb, diffNode_obj_other o kvs b hb]
    simp [shiftHunk]
  · intro a b h1 h2 _ p q
    rw [diffNode_scalar o a b h1 h2, diffNode_scalar o a b h1 h2, diffCommon_shift]
  · intro kvs' p q
    simp [diffKvs_nil]
  · intro kvs' k v r hl' _ _ ihN ihK p q
    rw [diffKvs_cons, diffKvs_cons, ihK, List.map_append]
    congr 1
    cases hlk : alookup k kvs' with
    | none => simp [shiftHunk]
    | some v' =>
      simp only []
      rw [List.append_assoc, ihN v' (alookup_listDoc hlk hl')]
  · intro k s prev c R A b _ p q
    rw [diffRest_nilA, diffRest_nilA, accHunk_shift]
  · intro k s prev c R A a ha _ p q
    rw [diffRest_nilB _ _ _ _ _ _ _ _ _ ha, diffRest_nilB _ _ _ _ _ _ _ _ _ ha, accHunk_shift]
  · intro k s prev c R A x a' y b' _ _ hA hB ih p q
    rw [diffRest_cons, diffRest_cons]
    simp only [hA, hB, Bool.and_self, if_true, List.map_append, ih, accHunk_shift]
  · intro k s prev c R A x a' y b' _ _ hA hB ih p q
    rw [diffRest_cons, diffRest_cons]
    simp only [hA, hB, Bool.and_false, Bool.false_eq_true, if_false, if_true, ih]
  · intro k s prev c R A x a' y b' _ _ hA hB ih p q
    rw [diffRest_cons, diffRest_cons]
    simp only [hA, hB, Bool.false_and, Bool.false_eq_true, if_false, if_true, ih]
  · intro k s prev c R A x a' y b' _ _ hA hB hs ihN ihR p q
    rw [diffRest_cons, diffRest_cons]
    simp only [hA, hB, hs, Bool.false_and, Bool.false_eq_true, if_false, if_true, ihR,
      List.map_append, accHunk_shift, List.append_assoc, ihN, List.isEmpty_map, subAfter_shift]
  · intro k s prev c R A x a' y b' _ _ hA hB hs ih p q
    rw [diffRest_cons, diffRest_cons]
    simp only [hA, hB, hs, Bool.false_and, Bool.false_eq_true, if_false, ih]



/-! ## 2. the domain: list documents, well-formed, finite numbers, no void object member -/

mutual
/-- no object member is void (void stands for "absent" and never occurs inside a document) -/
def memOK : Json → Bool
  | .arr _ xs => memOKList xs
  | .obj kvs => memOKKvs kvs
  | _ => true
def memOKList : List Json → Bool
  | [] => true
  | x :: r => (memOK x) && memOKList r
def memOKKvs : List (String × Json) → Bool
  | [] => true
  | (_, v) :: r => !v.isVoid && (memOK v) && memOKKvs r
end

/-- the documents of the theorem -/
structure Good (x : Json) : Prop where
  listDoc : x.listDoc = true
  wf : x.wf = true
  fin : x.finiteNums = true
  mem : (memOK x) = true

structure GoodL (xs : List Json) : Prop where
  listDoc : listDocList xs = true
  wf : wfList xs = true
  fin : finiteNumsList xs = true
  mem : memOKList xs = true

structure GoodK (kvs : List (String × Json)) : Prop where
  listDoc : listDocKvs kvs = true
  wf : wfKvs kvs = true
  fin : finiteNumsKvs kvs = true
  mem : memOKKvs kvs = true

theorem GoodL.nil : GoodL [] := ⟨rfl, rfl, rfl, rfl⟩

theorem goodL_cons {x : Json} {r : List Json} : GoodL (x :: r) ↔ Good x ∧ GoodL r := by
  constructor
  · rintro ⟨h1, h2, h3, h4⟩
    simp only [listDocList, wfList, finiteNumsList, memOKList, Bool.and_eq_true] at h1 h2 h3 h4
    exact ⟨⟨h1.1, h2.1, h3.1, h4.1⟩, ⟨h1.2, h2.2, h3.2, h4.2⟩⟩
  · rintro ⟨⟨h1, h2, h3, h4⟩, ⟨g1, g2, g3, g4⟩⟩
    exact ⟨by simp [listDocList, h1, g1], by simp [wfList, h2, g2], by simp [finiteNumsList, h3, g3],
      by simp [memOKList, h4, g4]⟩

theorem GoodL.append {xs ys : List Json} (h1 : GoodL xs) (h2 : GoodL ys) : GoodL (xs ++ ys) := by
  induction xs with
  | nil => exact h2
  | cons x r ih =>
    rw [List.cons_append, goodL_cons]
    rw [goodL_cons] at h1
    exact ⟨h1.1, ih h1.2⟩

theorem GoodL.of_mem {xs : List Json} (h : GoodL xs) {x : Json} (hx : x ∈ xs) : Good x := by
  induction xs with
  | nil => cases hx
  | cons y r ih =>
    rw [goodL_cons] at h
    rcases List.mem_cons.1 hx with rfl | hx
    · exact h.1
    · exact ih h.2 hx

theorem good_arr {t : Tag} {xs : List Json} :
    Good (.arr t xs) ↔ (t == .raw || t == .list) = true ∧ GoodL xs := by
  constructor
  · rintro ⟨h1, h2, h3, h4⟩
    simp only [Json.listDoc, Bool.and_eq_true] at h1
    simp only [Json.wf] at h2
    simp only [Json.finiteNums] at h3
    simp only [memOK] at h4
    exact ⟨h1.1, ⟨h1.2, h2, h3, h4⟩⟩
  · rintro ⟨ht, ⟨g1, g2, g3, g4⟩⟩
    exact ⟨by simp only [Json.listDoc, Bool.and_eq_true]; exact ⟨ht, g1⟩, by simpa [Json.wf] using g2,
      by simpa [Json.finiteNums] using g3, by simpa [memOK] using g4⟩

theorem good_obj {kvs : List (String × Json)} :
    Good (.obj kvs) ↔ keysSorted kvs = true ∧ GoodK kvs := by
  constructor
  · rintro ⟨h1, h2, h3, h4⟩
    simp only [Json.listDoc] at h1
    simp only [Json.wf, Bool.and_eq_true] at h2
    simp only [Json.finiteNums] at h3
    simp only [memOK] at h4
    exact ⟨h2.1, ⟨h1, h2.2, h3, h4⟩⟩
  · rintro ⟨hs, ⟨g1, g2, g3, g4⟩⟩
    exact ⟨by simpa [Json.listDoc] using g1, by simp [Json.wf, hs, g2],
      by simpa [Json.finiteNums] using g3, by simpa [memOK] using g4⟩

theorem goodK_cons {k : String} {v : Json} {r : List (String × Json)} :
    GoodK ((k, v) :: r) ↔ (Good v ∧ v.isVoid = false) ∧ GoodK r := by
  constructor
  · rintro ⟨h1, h2, h3, h4⟩
    simp only [listDocKvs, wfKvs, finiteNumsKvs, memOKKvs, Bool.and_eq_true, Bool.not_eq_true'] at h1 h2 h3 h4
    exact ⟨⟨⟨h1.1, h2.1, h3.1, h4.1.2⟩, h4.1.1⟩, ⟨h1.2, h2.2, h3.2, h4.2⟩⟩
  · rintro ⟨⟨⟨h1, h2, h3, h4⟩, hv⟩, ⟨g1, g2, g3, g4⟩⟩
    exact ⟨by simp [listDocKvs, h1, g1], by simp [wfKvs, h2, g2], by simp [finiteNumsKvs, h3, g3],
      by simp [memOKKvs, h4, g4, hv]⟩

theorem GoodK.of_mem {kvs : List (String × Json)} (h : GoodK kvs) {k : String} {v : Json}
    (hm : (k, v) ∈ kvs) : Good v ∧ v.isVoid = false := by
  induction kvs with
  | nil => cases hm
  | cons kv r ih =>
    obtain ⟨k', v'⟩ := kv
    rw [goodK_cons] at h
    rcases List.mem_cons.1 hm with e | hm
    · cases e; exact h.1
    · exact ih h.2 hm

theorem GoodK.lookup {kvs : List (String × Json)} (h : GoodK kvs) {k : String} {v : Json}
    (hl : alookup k kvs = some v) : Good v ∧ v.isVoid = false :=
  h.of_mem (mem_of_alookup hl)

/-! ### structural equality on the domain -/

theorem nonnegBits_zero : nonnegBits 0 = true := by decide

theorem specEq_eq_equals {x y : Json} (hx : x.listDoc = true) (hy : y.listDoc = true) :
    specEq x y = equals [] x y :=
  (equals_eq_equivB_list [] rfl x y hx hy).symm

theorem specEq_refl (L : FloatLaws) {x : Json} (h : Good x) : specEq x x = true := by
  rw [specEq_eq_equals h.listDoc h.listDoc]
  exact equals_refl_list L [] rfl nonnegBits_zero x h.listDoc h.wf h.fin

theorem specEq_symm (L : FloatLaws) {x y : Json} (hx : Good x) (hy : Good y) :
    specEq x y = specEq y x := by
  rw [specEq_eq_equals hx.listDoc hy.listDoc, specEq_eq_equals hy.listDoc hx.listDoc]
  exact equals_symm_list L [] rfl x y hx.listDoc hy.listDoc hx.wf hy.wf


/-- the conclusion: equal to the target, read from either side -/
def Rel (z y : Json) : Prop := specEq z y = true ∧ specEq y z = true

inductive RelL : List Json → List Json → Prop
  | nil : RelL [] []
  | cons {z y : Json} {zs ys : List Json} : Rel z y → RelL zs ys → RelL (z :: zs) (y :: ys)

theorem Rel.refl (L : FloatLaws) {x : Json} (h : Good x) : Rel x x :=
  ⟨specEq_refl L h, specEq_refl L h⟩

theorem RelL.refl (L : FloatLaws) {xs : List Json} (h : GoodL xs) : RelL xs xs := by
  induction xs with
  | nil => exact .nil
  | cons x r ih =>
    rw [goodL_cons] at h
    exact .cons (Rel.refl L h.1) (ih h.2)

theorem equivList_of_relL {zs ys : List Json} (h : RelL zs ys) :
    equivList [] zs ys = true ∧ equivList [] ys zs = true := by
  induction h with
  | nil => simp [equivList]
  | cons h _ ih =>
    simp only [equivList, Bool.and_eq_true]
    exact ⟨⟨h.1, ih.1⟩, ⟨h.2, ih.2⟩⟩

theorem Rel.arr {zs ys : List Json} (h : RelL zs ys) (t t' : Tag) : Rel (.arr t zs) (.arr t' ys) := by
  have := equivList_of_relL h
  constructor <;> simp [specEq, equivB, dispatchTag, this.1, this.2]

theorem rel_void_left {y : Json} (h : Rel .void y) : y = .void := by
  have := h.1
  cases y <;> simp_all [specEq, equivB]

theorem Rel.isVoid_eq {z y : Json} (h : Rel z y) : z.isVoid = y.isVoid := by
  have := h.1
  cases z <;> cases y <;> simp_all [specEq, equivB, Json.isVoid]

/-! ### objects -/

theorem equivKvs_of_forall (o : Opts) (kvs' : List (String × Json)) :
    ∀ (r : List (String × Json)),
      (∀ k v, (k, v) ∈ r → ∃ v', alookup k kvs' = some v' ∧ equivB o v v' = true) →
      equivKvs o r kvs' = true
  | [], _ => by simp [equivKvs]
  | (k, v) :: r, h => by
    rw [equivKvs, Bool.and_eq_true]
    refine ⟨?_, equivKvs_of_forall o kvs' r (fun k' v' hm => h k' v' (List.mem_cons_of_mem _ hm))⟩
    obtain ⟨v', hl, he⟩ := h k v List.mem_cons_self
    simp [hl, he]

theorem nodup_subset_length_le {α} [BEq α] [LawfulBEq α] :
    ∀ (l l' : List α), l.Nodup → l ⊆ l' → l.length ≤ l'.length
  | [], _, _, _ => by simp
  | a :: r, l', hnd, hsub => by
    rw [List.nodup_cons] at hnd
    have ha : a ∈ l' := hsub List.mem_cons_self
    have hsub' : r ⊆ l'.erase a := by
      intro x hx
      have hne : x ≠ a := fun e => hnd.1 (e ▸ hx)
      exact (List.mem_erase_of_ne hne).2 (hsub (List.mem_cons_of_mem _ hx))
    have ih := nodup_subset_length_le r (l'.erase a) hnd.2 hsub'
    rw [List.length_erase_of_mem ha] at ih
    have : 0 < l'.length := List.length_pos_of_mem ha
    simp only [List.length_cons]
    omega

theorem mem_keys_iff_lookup {β} {k : String} {kvs : List (String × β)} :
    k ∈ kvs.map Prod.fst ↔ (alookup k kvs).isSome = true := by
  induction kvs with
  | nil => simp [alookup]
  | cons kv r ih =>
    obtain ⟨k', v'⟩ := kv
    simp only [List.map_cons, List.mem_cons, alookup]
    by_cases e : k = k'
    · simp [e]
    · simp [e, ih]

/-- two objects with sorted keys: the first has exactly the members of the second, up to `Rel` -/
theorem Rel.obj {cur kvs' : List (String × Json)} (hs : keysSorted cur = true)
    (hs' : keysSorted kvs' = true)
    (h : ∀ k, match alookup k kvs' with
      | none => alookup k cur = none
      | some v' => ∃ z, alookup k cur = some z ∧ Rel z v') :
    Rel (.obj cur) (.obj kvs') := by
  have hsub1 : cur.map Prod.fst ⊆ kvs'.map Prod.fst := by
    intro k hk
    rw [mem_keys_iff_lookup] at hk ⊢
    have := h k
    cases hl : alookup k kvs' with
    | none => rw [hl] at this; simp [this] at hk
    | some v' => rfl
  have hsub2 : kvs'.map Prod.fst ⊆ cur.map Prod.fst := by
    intro k hk
    rw [mem_keys_iff_lookup] at hk ⊢
    have := h k
    cases hl : alookup k kvs' with
    | none => simp [hl] at hk
    | some v' =>
      rw [hl] at this
      obtain ⟨z, hz, _⟩ := this
      simp [hz]
  have hlen : cur.length = kvs'.length := by
    have h1 := nodup_subset_length_le _ _ (keysSorted_nodup hs) hsub1
    have h2 := nodup_subset_length_le _ _ (keysSorted_nodup hs') hsub2
    simp only [List.length_map] at h1 h2
    omega
  have e1 : equivKvs [] cur kvs' = true := by
    apply equivKvs_of_forall
    intro k z hm
    have hz := alookup_of_mem hs hm
    have := h k
    cases hl : alookup k kvs' with
    | none => rw [hl] at this; simp [this] at hz
    | some v' =>
      rw [hl] at this
      obtain ⟨z', hz', hr⟩ := this
      rw [hz] at hz'
      cases hz'
      exact ⟨v', rfl, hr.1⟩
  have e2 : equivKvs [] kvs' cur = true := by
    apply equivKvs_of_forall
    intro k v' hm
    have hl := alookup_of_mem hs' hm
    have := h k
    rw [hl] at this
    obtain ⟨z, hz, hr⟩ := this
    exact ⟨z, hz, hr.2⟩
  constructor <;> simp [specEq, equivB, hlen, e1, e2]


/-! ## 3. one list hunk against the reference `splice` -/


/-- before-context of a hunk at the end of `pre`: the array start marker, or the last element -/
def PrevOK (pre : List Json) (prev : Json) : Prop :=
  match pre.getLast? with
  | none => prev.isVoid = true
  | some x => specEq prev x = true

/-- after-context of a hunk in front of `post`: the array end marker, or the first element -/
def AfterOK (post : List Json) (after : Json) : Prop :=
  match post.head? with
  | none => after.isVoid = true
  | some x => specEq after x = true

theorem prefixEq_append (R post : List Json) (h : ∀ x ∈ R, specEq x x = true) :
    prefixEq R (R ++ post) = true := by
  induction R with
  | nil => simp [prefixEq]
  | cons x R ih =>
    simp only [List.cons_append, prefixEq, Bool.and_eq_true]
    exact ⟨h x List.mem_cons_self, ih (fun y hy => h y (List.mem_cons_of_mem _ hy))⟩

theorem beforeOk_one (l : List Json) (i : Nat) (prev : Json) :
    beforeOk l (i : Int) 1 0 [prev] =
      (match i with
       | 0 => prev.isVoid
       | j + 1 => match l[j]? with
         | some x => specEq prev x
         | none => false) := by
  simp only [beforeOk, Bool.and_true]
  cases i with
  | zero => simp
  | succ j =>
    have h1 : ¬ (((j + 1 : Nat) : Int) - (((1 : Nat) : Int) - ((0 : Nat) : Int)) < 0) := by omega
    have h2 : (((j + 1 : Nat) : Int) - (((1 : Nat) : Int) - ((0 : Nat) : Int))).toNat = j := by omega
    rw [if_neg h1, h2]
    rfl

theorem splice_ok (pre R A post : List Json) (prev after : Json) (p : Path)
    (hR : ∀ x ∈ R, specEq x x = true) (hp : PrevOK pre prev) (ha : AfterOK post after) :
    splice (pre ++ R ++ post) (pre.length : Int)
      { path := p, before := [prev], remove := R, add := A, after := [after] } =
      some (pre ++ A ++ post) := by
  unfold splice
  have h1 : ((pre.length : Int) == -1) = false := by
    simp only [beq_eq_false_iff_ne, ne_eq]; omega
  have h2 : ((pre.length : Int) < 0 || (pre.length : Int) > ((pre ++ R ++ post).length : Int)) = false := by
    simp only [List.length_append, Bool.or_eq_false_iff, decide_eq_false_iff_not]
    omega
  simp only [h1, h2, Bool.false_eq_true, if_false, Int.toNat_natCast]
  have h3 : (pre ++ R ++ post).take pre.length = pre := by simp [List.append_assoc]
  have h4 : (pre ++ R ++ post).drop pre.length = R ++ post := by simp [List.append_assoc]
  have h5 : (R ++ post).drop R.length = post := by simp
  rw [h3, h4, h5, prefixEq_append R post hR]
  have h6 : beforeOk (pre ++ R ++ post) (pre.length : Int) [prev].length 0 [prev] = true := by
    show beforeOk (pre ++ R ++ post) (pre.length : Int) 1 0 [prev] = true
    rw [beforeOk_one]
    unfold PrevOK at hp
    rcases List.eq_nil_or_concat pre with rfl | ⟨pre', z, rfl⟩
    · simpa using hp
    · simp only [List.concat_eq_append, List.getLast?_append, List.getLast?_singleton,
        Option.some_or] at hp
      simp [List.append_assoc, hp]
  have h7 : afterOk post 0 [after] = true := by
    simp only [afterOk, Bool.and_true]
    unfold AfterOK at ha
    cases post with
    | nil => simp at ha; simp [ha]
    | cons x post' => simp at ha; simp [ha]
  rw [h6, h7]
  simp



theorem applyStrictAll_append (n : Json) (d1 d2 : Diff) :
    applyStrictAll n (d1 ++ d2) = (applyStrictAll n d1).bind (applyStrictAll · d2) := by
  induction d1 generalizing n with
  | nil => simp [applyStrictAll]
  | cons h d ih =>
    simp only [List.cons_append, applyStrictAll]
    cases applyStrict n h.path h <;> simp [ih]

theorem PrevOK.concat (pre : List Json) (x prev : Json) (h : specEq prev x = true) :
    PrevOK (pre ++ [x]) prev := by
  simp [PrevOK, h]

theorem AfterOK.nil : AfterOK [] .void := by simp [AfterOK, Json.isVoid]

theorem AfterOK.cons (x : Json) (post : List Json) (after : Json) (h : specEq after x = true) :
    AfterOK (x :: post) after := by
  simp [AfterOK, h]

/-- applying the accumulated hunk of one pass (or nothing, when nothing was accumulated) -/
theorem apply_accHunk (L : FloatLaws) (t : Tag) (pre R A post : List Json) (prev after : Json)
    (hR : GoodL R) (hp : PrevOK pre prev) (ha : AfterOK post after) :
    ∃ t', (t' = t ∨ t' = .raw) ∧
      applyStrictAll (.arr t (pre ++ R ++ post)) (accHunk [] pre.length prev R A after) =
      some (.arr t' (pre ++ A ++ post)) := by
  unfold accHunk
  split
  · next h =>
    simp only [Bool.and_eq_true, List.isEmpty_iff] at h
    obtain ⟨rfl, rfl⟩ := h
    exact ⟨t, .inl rfl, by simp [applyStrictAll]⟩
  · refine ⟨.raw, .inr rfl, ?_⟩
    have := splice_ok pre R A post prev after [PathElem.idx (pre.length : Int)]
      (fun x hx => specEq_refl L (hR.of_mem hx)) hp ha
    simp only [applyStrictAll, List.nil_append, applyStrict, this, Option.map_some, Option.bind_some]


/-! ## 4. Stage A: arrays of scalars -/

def isScalar : Json → Bool
  | .arr _ _ => false
  | .obj _ => false
  | _ => true

theorem sameContainerType_scalar (o : Opts) {x : Json} (y : Json) (h : (isScalar x) = true) :
    sameContainerType o x y = false := by
  cases x <;> simp_all [isScalar, sameContainerType, Json.dispatch]

theorem atC_both_hash {o : Opts} {x y : Json} {c : List UInt64} (hx : atC o x c = true)
    (hy : atC o y c = true) : hashCode o x = hashCode o y := by
  cases c with
  | nil => simp [atC] at hx
  | cons z c' =>
    simp only [atC, beq_iff_eq] at hx hy
    rw [hx, hy]

/-- `z` is the target element, or an element of the source list with the same hash code -/
def PW (o : Opts) (a : List Json) (z y : Json) : Prop :=
  z = y ∨ (z ∈ a ∧ hashCode o z = hashCode o y)

inductive PWL (o : Opts) (a : List Json) : List Json → List Json → Prop
  | nil : PWL o a [] []
  | cons {z y : Json} {zs ys : List Json} : PW o a z y → PWL o a zs ys → PWL o a (z :: zs) (y :: ys)

theorem PWL.mono {o : Opts} {a a' : List Json} (hsub : ∀ x, x ∈ a → x ∈ a') {zs ys : List Json}
    (h : PWL o a zs ys) : PWL o a' zs ys := by
  induction h with
  | nil => exact .nil
  | cons h _ ih =>
    refine .cons ?_ ih
    rcases h with h | ⟨h1, h2⟩
    · exact .inl h
    · exact .inr ⟨hsub _ h1, h2⟩

theorem PWL.refl (o : Opts) (a ys : List Json) : PWL o a ys ys := by
  induction ys with
  | nil => exact .nil
  | cons y r ih => exact .cons (.inl rfl) ih

theorem diffRest_scalars (L : FloatLaws) (o : Opts) (ho : dispatchTag o = .list) :
    ∀ k s prev a b c R A, listDocList a = true → listDocList b = true →
      ∀ (t : Tag) (pre : List Json), pre.length = s → k = s + A.length → PrevOK pre prev →
        GoodL R → GoodL a → GoodL b → (∀ x ∈ a, (isScalar x) = true) →
        (∀ x ∈ a, ∀ y ∈ b, hashCode o x = hashCode o y → Rel x y) →
        ∃ t' zs, applyStrictAll (.arr t (pre ++ R ++ a)) (diffRest o [] k s prev a b c R A) =
            some (.arr t' (pre ++ A ++ zs)) ∧ RelL zs b ∧ PWL o a zs b := by
  refine (listDiff_induct o ho (mN := fun _ _ => True) (mK := fun _ _ => True)
    (mR := fun k s prev a b c R A =>
      ∀ (t : Tag) (pre : List Json), pre.length = s → k = s + A.length → PrevOK pre prev →
        GoodL R → GoodL a → GoodL b → (∀ x ∈ a, (isScalar x) = true) →
        (∀ x ∈ a, ∀ y ∈ b, hashCode o x = hashCode o y → Rel x y) →
        ∃ t' zs, applyStrictAll (.arr t (pre ++ R ++ a)) (diffRest o [] k s prev a b c R A) =
            some (.arr t' (pre ++ A ++ zs)) ∧ RelL zs b ∧ PWL o a zs b)
    ?_ ?_ ?_ ?_ ?_ ?_ ?_ ?_ ?_ ?_ ?_ ?_ ?_ ?_).2.2
  any_goals (intros; trivial)
  · -- end of a
    intro k s prev c R A b _ t pre hlen hk hp hR _ hb _ _
    subst hlen
    rw [diffRest_nilA]
    obtain ⟨t', ht', h⟩ := apply_accHunk L t pre R (A ++ b) [] prev .void hR hp AfterOK.nil
    refine ⟨t', b, ?_, RelL.refl L hb, PWL.refl o _ b⟩
    simpa [List.append_assoc] using h
  · -- end of b
    intro k s prev c R A a hne _ t pre hlen hk hp hR ha _ _ _
    subst hlen
    rw [diffRest_nilB _ _ _ _ _ _ _ _ _ hne]
    obtain ⟨t', ht', h⟩ := apply_accHunk L t pre (R ++ a) A [] prev .void (hR.append ha) hp AfterOK.nil
    refine ⟨t', [], ?_, .nil, .nil⟩
    simpa [List.append_assoc] using h
  · -- both cursors at the next common element
    intro k s prev c R A x a' y b' _ _ hA hB ih t pre hlen hk hp hR ha hb hsc hh
    subst hlen
    rw [goodL_cons] at ha hb
    rw [diffRest_cons]
    simp only [hA, hB, Bool.and_self, if_true]
    have hxy : Rel x y := hh x List.mem_cons_self y List.mem_cons_self (atC_both_hash hA hB)
    obtain ⟨t1, ht1, h1⟩ := apply_accHunk L t pre R A (x :: a') prev x hR hp
      (AfterOK.cons x a' x (specEq_refl L ha.1))
    obtain ⟨t', zs, h2, hrel, hpw⟩ := ih t1 (pre ++ A ++ [x]) (by simp; omega) rfl
      (PrevOK.concat _ x y hxy.2) GoodL.nil ha.2 hb.2
      (fun z hz => hsc z (List.mem_cons_of_mem _ hz))
      (fun z hz w hw => hh z (List.mem_cons_of_mem _ hz) w (List.mem_cons_of_mem _ hw))
    refine ⟨t', x :: zs, ?_, .cons hxy hrel, .cons (.inr ⟨List.mem_cons_self, atC_both_hash hA hB⟩)
      (hpw.mono (fun z hz => List.mem_cons_of_mem _ hz))⟩
    rw [applyStrictAll_append, h1]
    simp only [Option.bind_some]
    simpa [List.append_assoc] using h2
  · -- a at the common element: add from b
    intro k s prev c R A x a' y b' _ _ hA hB ih t pre hlen hk hp hR ha hb hsc hh
    rw [goodL_cons] at hb
    rw [diffRest_cons]
    simp only [hA, hB, Bool.and_false, Bool.false_eq_true, if_false, if_true]
    obtain ⟨t', zs, h2, hrel, hpw⟩ := ih t pre hlen (by simp; omega) hp hR ha hb.2 hsc
      (fun z hz w hw => hh z hz w (List.mem_cons_of_mem _ hw))
    refine ⟨t', y :: zs, ?_, .cons (Rel.refl L hb.1) hrel, .cons (.inl rfl) hpw⟩
    simpa [List.append_assoc] using h2
  · -- b at the common element: remove from a
    intro k s prev c R A x a' y b' _ _ hA hB ih t pre hlen hk hp hR ha hb hsc hh
    have ha' := goodL_cons.1 ha
    rw [diffRest_cons]
    simp only [hA, hB, Bool.false_and, Bool.false_eq_true, if_false, if_true]
    obtain ⟨t', zs, h2, hrel, hpw⟩ := ih t pre hlen hk hp
      (hR.append (goodL_cons.2 ⟨ha'.1, GoodL.nil⟩)) ha'.2 hb
      (fun z hz => hsc z (List.mem_cons_of_mem _ hz))
      (fun z hz w hw => hh z (List.mem_cons_of_mem _ hz) w hw)
    refine ⟨t', zs, ?_, hrel, hpw.mono (fun z hz => List.mem_cons_of_mem _ hz)⟩
    simpa [List.append_assoc] using h2
  · -- compatible containers: impossible for scalars
    intro k s prev c R A x a' y b' _ _ hA hB hs _ _ t pre hlen hk hp hR ha hb hsc hh
    rw [sameContainerType_scalar o y (hsc x List.mem_cons_self)] at hs
    cases hs
  · -- different elements
    intro k s prev c R A x a' y b' _ _ hA hB hs ih t pre hlen hk hp hR ha hb hsc hh
    have ha' := goodL_cons.1 ha
    have hb' := goodL_cons.1 hb
    rw [diffRest_cons]
    simp only [hA, hB, hs, Bool.false_and, Bool.false_eq_true, if_false]
    obtain ⟨t', zs, h2, hrel, hpw⟩ := ih t pre hlen (by simp; omega) hp
      (hR.append (goodL_cons.2 ⟨ha'.1, GoodL.nil⟩)) ha'.2 hb'.2
      (fun z hz => hsc z (List.mem_cons_of_mem _ hz))
      (fun z hz w hw => hh z (List.mem_cons_of_mem _ hz) w (List.mem_cons_of_mem _ hw))
    refine ⟨t', y :: zs, ?_, .cons (Rel.refl L hb'.1) hrel,
      .cons (.inl rfl) (hpw.mono (fun z hz => List.mem_cons_of_mem _ hz))⟩
    simpa [List.append_assoc] using h2


/-! ### the advertised equivalence depends on the options only through the array reading and the
    precision -/

mutual
theorem equivB_congr (o o' : Opts) (h : dispatchTag o = .list) (h' : dispatchTag o' = .list)
    (hp : precOf o = precOf o') : ∀ (a b : Json), equivB o a b = equivB o' a b
  | .void, b => by cases b <;> simp [equivB]
  | .null, b => by cases b <;> simp [equivB]
  | .bool _, b => by cases b <;> simp [equivB]
  | .num _, b => by cases b <;> simp [equivB, hp]
  | .str _, b => by cases b <;> simp [equivB]
  | .arr t xs, b => by
    cases b with
    | arr t' ys => simp [equivB, h, h', equivList_congr o o' h h' hp xs ys]
    | _ => simp [equivB]
  | .obj kvs, b => by
    cases b with
    | obj kvs' => simp [equivB, equivKvs_congr o o' h h' hp kvs kvs']
    | _ => simp [equivB]
theorem equivList_congr (o o' : Opts) (h : dispatchTag o = .list) (h' : dispatchTag o' = .list)
    (hp : precOf o = precOf o') : ∀ (xs ys : List Json), equivList o xs ys = equivList o' xs ys
  | [], ys => by cases ys <;> simp [equivList]
  | x :: xs, [] => by simp [equivList]
  | x :: xs, y :: ys => by
    simp [equivList, equivB_congr o o' h h' hp x y, equivList_congr o o' h h' hp xs ys]
theorem equivKvs_congr (o o' : Opts) (h : dispatchTag o = .list) (h' : dispatchTag o' = .list)
    (hp : precOf o = precOf o') :
    ∀ (kvs kvs' : List (String × Json)), equivKvs o kvs kvs' = equivKvs o' kvs kvs'
  | [], _ => by simp [equivKvs]
  | (k, v) :: r, kvs' => by
    rw [equivKvs, equivKvs, equivKvs_congr o o' h h' hp r kvs']
    cases alookup k kvs' with
    | none => rfl
    | some v' => simp [equivB_congr o o' h h' hp v v']
end

/-- without a precision option, the advertised equivalence in list mode is structural equality -/
theorem equivB_of_specEq {o : Opts} (h : dispatchTag o = .list) (hp : precOf o = 0) {a b : Json}
    (hab : specEq a b = true) : equivB o a b = true := by
  rw [equivB_congr o [] h rfl (by simpa [precOf] using hp)]
  exact hab

/-! ### from structural equality to the advertised equivalence under a precision -/

mutual
theorem equivB_mono (o : Opts) (h : dispatchTag o = .list)
    (hm : ∀ u v, numWithin 0 u v = true → numWithin (precOf o) u v = true) :
    ∀ (a b : Json), equivB [] a b = true → equivB o a b = true
  | .void, b, e => by cases b <;> simp_all [equivB]
  | .null, b, e => by cases b <;> simp_all [equivB]
  | .bool _, b, e => by cases b <;> simp_all [equivB]
  | .num u, b, e => by
    cases b with
    | num v => simp only [equivB, precOf] at e ⊢; exact hm u v e
    | _ => simp [equivB] at e
  | .str _, b, e => by cases b <;> simp_all [equivB]
  | .arr t xs, b, e => by
    cases b with
    | arr t' ys =>
      simp only [equivB, dispatchTag, h] at e ⊢
      exact equivList_mono o h hm xs ys e
    | _ => simp [equivB] at e
  | .obj kvs, b, e => by
    cases b with
    | obj kvs' =>
      simp only [equivB, Bool.and_eq_true] at e ⊢
      exact ⟨e.1, equivKvs_mono o h hm kvs kvs' e.2⟩
    | _ => simp [equivB] at e
theorem equivList_mono (o : Opts) (h : dispatchTag o = .list)
    (hm : ∀ u v, numWithin 0 u v = true → numWithin (precOf o) u v = true) :
    ∀ (xs ys : List Json), equivList [] xs ys = true → equivList o xs ys = true
  | [], ys, e => by cases ys <;> simp_all [equivList]
  | x :: xs, [], e => by simp [equivList] at e
  | x :: xs, y :: ys, e => by
    simp only [equivList, Bool.and_eq_true] at e ⊢
    exact ⟨equivB_mono o h hm x y e.1, equivList_mono o h hm xs ys e.2⟩
theorem equivKvs_mono (o : Opts) (h : dispatchTag o = .list)
    (hm : ∀ u v, numWithin 0 u v = true → numWithin (precOf o) u v = true) :
    ∀ (kvs kvs' : List (String × Json)), equivKvs [] kvs kvs' = true → equivKvs o kvs kvs' = true
  | [], _, _ => by simp [equivKvs]
  | (k, v) :: r, kvs', e => by
    rw [equivKvs, Bool.and_eq_true] at e ⊢
    refine ⟨?_, equivKvs_mono o h hm r kvs' e.2⟩
    cases hl : alookup k kvs' with
    | none => simp [hl] at e
    | some v' =>
      have e1 := e.1
      simp only [hl] at e1 ⊢
      exact equivB_mono o h hm v v' e1
end


/-- a float within `0` of another is within the precision of `o` of it (true for every IEEE
    `eps ≥ 0`; `numWithin` is opaque to the kernel, so it is a hypothesis; trivial when `o` has no
    precision option) -/
def PrecMono (o : Opts) : Prop :=
  ∀ u v, numWithin 0 u v = true → numWithin (precOf o) u v = true

theorem PrecMono.of_noPrecision {o : Opts} (h : precOf o = 0) : PrecMono o := by
  intro u v e; rw [h]; exact e

theorem applyStrict_root_replace (a a' b : Json)
    (ha' : specEq a a' = true) :
    applyStrictAll a [{ path := [], remove := [a'], add := [b] }] = some b := by
  simp [applyStrictAll, applyStrict, single, Json.singleValue, ha']

/-- **Stage A.** Arrays of scalars, list mode (any options whose array reading is "list", e.g. a
    precision), strict strategy: the diff applies to its source, and the result is the target with
    some elements replaced by elements of the source carrying the same hash code (`PWL`); as
    hash-equal elements are structurally equal (hypothesis: no collision) the result is
    structurally equal to the target, hence equivalent to it under `o` (`PrecMono o`: trivial
    without a precision option). No hypothesis about `0` / `-0` is needed here. -/
theorem diffM_list_correct_scalar_arrays (L : FloatLaws) (o : Opts) (ho : dispatchTag o = .list)
    (hm : isMerge o = false) (t t' : Tag) (xs ys : List Json)
    (ha : Good (.arr t xs)) (hb : Good (.arr t' ys)) (hsc : ∀ x ∈ xs, (isScalar x) = true)
    (HashOK : ∀ x ∈ xs, ∀ y ∈ ys, hashCode o x = hashCode o y →
      specEq x y = true ∧ specEq y x = true) :
    ∃ t'' zs, applyStrictAll (.arr t xs) (diffM o (.arr t xs) (.arr t' ys)) = some (.arr t'' zs) ∧
      PWL o xs zs ys ∧ specEq (.arr t'' zs) (.arr t' ys) = true ∧
      (PrecMono o → equivB o (.arr t'' zs) (.arr t' ys) = true) := by
  have ha' := good_arr.1 ha
  have hb' := good_arr.1 hb
  unfold diffM
  rw [hm]
  by_cases htt : t = .raw ∨ t' = .list
  · rw [diffNode_arr_arr ho xs ys ha'.1 hb'.1 htt]
    obtain ⟨t'', zs, h, hrel, hpw⟩ := diffRest_scalars L o ho 0 0 .void xs ys
      (lcsValues (hashList o xs) (hashList o ys)) [] [] ha'.2.listDoc hb'.2.listDoc t [] rfl rfl
      (by simp [PrevOK, Json.isVoid]) GoodL.nil ha'.2 hb'.2 hsc HashOK
    refine ⟨t'', zs, by simpa using h, hpw, (Rel.arr hrel t'' t').1,
      fun hp => equivB_mono o ho hp _ _ (Rel.arr hrel t'' t').1⟩
  · have htt' : t = .list ∧ t' = .raw := by
      have h1 := ha'.1; have h2 := hb'.1
      cases t <;> cases t' <;> simp_all
    obtain ⟨rfl, rfl⟩ := htt'
    rw [diffNode_arr_other ho xs _ ha'.1 (.inr ⟨rfl, ys, rfl⟩)]
    have hr : Rel (.arr .raw ys) (.arr .raw ys) := Rel.refl L hb
    refine ⟨.raw, ys, ?_, PWL.refl o xs ys, hr.1, fun hp => equivB_mono o ho hp _ _ hr.1⟩
    exact applyStrict_root_replace _ _ _ (Rel.arr (RelL.refl L ha'.2) _ _).1




/-! ## 5. frame lemmas: hunks below a list index or an object key act on that member only -/

theorem str_lt_of_not_lt_of_ne {a b : String} (h : ¬ a < b) (h2 : a ≠ b) : b < a := by
  have h3 : b ≤ a := String.not_lt.1 h
  exact String.not_le.1 (fun h5 => h2 (String.le_antisymm h5 h3))

theorem keysSorted_cons_iff {β} {k : String} {v : β} {r : List (String × β)} :
    keysSorted ((k, v) :: r) = true ↔ (∀ k' v', (k', v') ∈ r → k < k') ∧ keysSorted r = true := by
  constructor
  · intro h
    exact ⟨keysSorted_head_lt h, keysSorted_tail h⟩
  · rintro ⟨h1, h2⟩
    cases r with
    | nil => rfl
    | cons kv r' =>
      obtain ⟨k1, v1⟩ := kv
      simp only [keysSorted, Bool.and_eq_true, decide_eq_true_eq]
      exact ⟨h1 k1 v1 List.mem_cons_self, h2⟩

theorem mem_ainsert {β} {k : String} {v : β} {p : String × β} :
    ∀ {l : List (String × β)}, p ∈ ainsert k v l → p = (k, v) ∨ p ∈ l
  | [], h => by simp [ainsert] at h; exact .inl h
  | (k', v') :: r, h => by
    simp only [ainsert] at h
    split at h
    · rcases List.mem_cons.1 h with h | h
      · exact .inl h
      · exact .inr h
    · split at h
      · rcases List.mem_cons.1 h with h | h
        · exact .inl h
        · exact .inr (List.mem_cons_of_mem _ h)
      · rcases List.mem_cons.1 h with h | h
        · exact .inr (h ▸ List.mem_cons_self)
        · rcases mem_ainsert h with h | h
          · exact .inl h
          · exact .inr (List.mem_cons_of_mem _ h)

theorem mem_aerase {β} {k : String} {p : String × β} :
    ∀ {l : List (String × β)}, p ∈ aerase k l → p ∈ l
  | [], h => by simp [aerase] at h
  | (k', v') :: r, h => by
    simp only [aerase] at h
    split at h
    · exact List.mem_cons_of_mem _ h
    · rcases List.mem_cons.1 h with h | h
      · exact h ▸ List.mem_cons_self
      · exact List.mem_cons_of_mem _ (mem_aerase h)

theorem keysSorted_ainsert {β} (k : String) (v : β) :
    ∀ (l : List (String × β)), keysSorted l = true → keysSorted (ainsert k v l) = true
  | [], _ => rfl
  | (k', v') :: r, h => by
    have h' := keysSorted_cons_iff.1 h
    simp only [ainsert]
    split
    · next hlt =>
      rw [keysSorted_cons_iff]
      refine ⟨?_, h⟩
      intro k1 v1 hm
      rcases List.mem_cons.1 hm with e | hm
      · cases e; exact hlt
      · exact String.lt_trans hlt (h'.1 k1 v1 hm)
    · next hnlt =>
      split
      · next e =>
        subst e
        rw [keysSorted_cons_iff]
        exact ⟨h'.1, h'.2⟩
      · next hne =>
        rw [keysSorted_cons_iff]
        refine ⟨?_, keysSorted_ainsert k v r h'.2⟩
        intro k1 v1 hm
        rcases mem_ainsert hm with e | hm
        · cases e; exact str_lt_of_not_lt_of_ne hnlt hne
        · exact h'.1 k1 v1 hm

theorem keysSorted_aerase {β} (k : String) :
    ∀ (l : List (String × β)), keysSorted l = true → keysSorted (aerase k l) = true
  | [], _ => rfl
  | (k', v') :: r, h => by
    have h' := keysSorted_cons_iff.1 h
    simp only [aerase]
    split
    · exact h'.2
    · rw [keysSorted_cons_iff]
      exact ⟨fun k1 v1 hm => h'.1 k1 v1 (mem_aerase hm), keysSorted_aerase k r h'.2⟩

theorem alookup_ainsert {β} (k k0 : String) (v : β) :
    ∀ (l : List (String × β)), alookup k0 (ainsert k v l) = if k0 = k then some v else alookup k0 l
  | [] => by simp [ainsert, alookup]
  | (k', v') :: r => by
    simp only [ainsert]
    split
    · simp only [alookup]
    · split
      · next e => subst e; simp only [alookup]; split <;> rfl
      · next hne =>
        simp only [alookup, alookup_ainsert k k0 v r]
        by_cases e : k0 = k'
        · subst e; simp
          intro e2; exact absurd e2.symm hne
        · simp [e]

theorem alookup_aerase_ne {β} {k k0 : String} (hne : k0 ≠ k) :
    ∀ (l : List (String × β)), alookup k0 (aerase k l) = alookup k0 l
  | [] => rfl
  | (k', v') :: r => by
    simp only [aerase]
    split
    · next e => subst e; simp [alookup, hne]
    · simp only [alookup, alookup_aerase_ne hne r]

theorem alookup_none_of_lt {β} {k : String} :
    ∀ {l : List (String × β)}, (∀ k' v', (k', v') ∈ l → k < k') → alookup k l = none
  | [], _ => rfl
  | (k', v') :: r, h => by
    have hlt := h k' v' List.mem_cons_self
    have hne : k ≠ k' := fun e => String.lt_irrefl k' (e ▸ hlt)
    simp only [alookup, hne, if_false]
    exact alookup_none_of_lt (fun k1 v1 hm => h k1 v1 (List.mem_cons_of_mem _ hm))

theorem alookup_aerase_self {β} (k : String) :
    ∀ (l : List (String × β)), keysSorted l = true → alookup k (aerase k l) = none
  | [], _ => rfl
  | (k', v') :: r, h => by
    have h' := keysSorted_cons_iff.1 h
    simp only [aerase]
    split
    · next e => subst e; exact alookup_none_of_lt h'.1
    · next hne => simp only [alookup, hne, if_false]; exact alookup_aerase_self k r h'.2


/-- a hunk that can be moved below a list index: it addresses something inside the element, or it
    replaces the element as a whole (one value removed, one added, no context) -/
def frameOK (h : Hunk) : Prop :=
  h.path ≠ [] ∨ (h.before = [] ∧ h.after = [] ∧ h.remove.length = 1 ∧ h.add.length = 1)

theorem applyStrict_idx_frame (t : Tag) (l : List Json) (k : Nat) (x : Json) (hx : l[k]? = some x)
    (h : Hunk) (hf : (frameOK h)) :
    applyStrict (.arr t l) (.idx (k : Int) :: h.path) h =
      (applyStrict x h.path h).map (fun v => .arr .raw (l.set k v)) := by
  have hk : k < l.length := by
    rcases Nat.lt_or_ge k l.length with h | h
    · exact h
    · rw [List.getElem?_eq_none h] at hx; cases hx
  rcases hf with hp | ⟨hb, ha, hr, hadd⟩
  · cases hq : h.path with
    | nil => exact absurd hq hp
    | cons q qs =>
      rw [applyStrict]
      · simp only [show ¬ ((k : Int) < 0) by omega, if_false, Int.toNat_natCast, hx]
      · intro e; cases e
  · cases hq : h.path with
    | cons q qs =>
      rw [applyStrict]
      · simp only [show ¬ ((k : Int) < 0) by omega, if_false, Int.toNat_natCast, hx]
      · intro e; cases e
    | nil =>
      obtain ⟨x', hx'⟩ : ∃ x', h.remove = [x'] := by
        cases hrm : h.remove with
        | nil => simp [hrm] at hr
        | cons x' r' => cases r' with
          | nil => exact ⟨x', rfl⟩
          | cons _ _ => simp [hrm] at hr
      obtain ⟨y', hy'⟩ : ∃ y', h.add = [y'] := by
        cases hrm : h.add with
        | nil => simp [hrm] at hadd
        | cons x' r' => cases r' with
          | nil => exact ⟨x', rfl⟩
          | cons _ _ => simp [hrm] at hadd
      have hdrop : l.drop k = x :: l.drop (k + 1) := by
        rw [List.drop_eq_getElem_cons hk]
        congr 1
        rw [List.getElem?_eq_getElem hk] at hx
        exact Option.some.inj hx
      simp only [applyStrict, splice, hb, ha, hx', hy', List.length_cons, List.length_nil,
        beforeOk, afterOk, single, Json.singleValue]
      have h1 : ((k : Int) == -1) = false := by
        simp only [beq_eq_false_iff_ne, ne_eq]; omega
      have h2 : ((k : Int) < 0 || (k : Int) > (l.length : Int)) = false := by
        simp only [Bool.or_eq_false_iff, decide_eq_false_iff_not]; omega
      simp only [h1, h2, Bool.false_eq_true, if_false, Int.toNat_natCast, hdrop, prefixEq,
        Bool.and_true]
      have hset : l.set k y' = l.take k ++ [y'] ++ (x :: l.drop (k + 1)).drop (0 + 1) := by
        rw [List.set_eq_take_append_cons_drop, if_pos hk]
        simp
      split <;> simp_all


theorem splice_path_irrel (l : List Json) (i : Int) (h : Hunk) (q : Path) :
    splice l i { h with path := q } = splice l i h := rfl

theorem applyStrict_path_irrel (q : Path) (n : Json) (p : Path) (h : Hunk) :
    applyStrict n p { h with path := q } = applyStrict n p h := by
  fun_induction applyStrict n p h <;> simp_all [applyStrict, splice_path_irrel]
  intro hlt; omega

theorem applyStrictAll_idx_frame (D : Diff) (hD : ∀ h ∈ D, (frameOK h)) :
    ∀ (t : Tag) (l : List Json) (k : Nat) (x : Json), l[k]? = some x →
      ∀ r, applyStrictAll x D = some r →
      ∃ t', (t' = t ∨ t' = .raw) ∧
        applyStrictAll (.arr t l) (D.map (shiftHunk [.idx (k : Int)])) =
        some (.arr t' (l.set k r)) := by
  induction D with
  | nil =>
    intro t l k x hx r hr
    simp only [applyStrictAll, Option.some.injEq] at hr
    subst hr
    refine ⟨t, .inl rfl, ?_⟩
    have hk : k < l.length := by
      rcases Nat.lt_or_ge k l.length with h | h
      · exact h
      · rw [List.getElem?_eq_none h] at hx; cases hx
    rw [List.getElem?_eq_getElem hk] at hx
    cases hx
    simp [applyStrictAll, List.set_getElem_self]
  | cons h D ih =>
    intro t l k x hx r hr
    simp only [applyStrictAll] at hr
    cases hv : applyStrict x h.path h with
    | none => rw [hv] at hr; cases hr
    | some v =>
      rw [hv] at hr
      simp only [Option.bind_some] at hr
      have hk : k < l.length := by
        rcases Nat.lt_or_ge k l.length with h | h
        · exact h
        · rw [List.getElem?_eq_none h] at hx; cases hx
      obtain ⟨t', ht', h'⟩ := ih (fun h' hm => hD h' (List.mem_cons_of_mem _ hm)) .raw (l.set k v) k v
        (List.getElem?_set_self hk) r hr
      refine ⟨t', .inr (by rcases ht' with e | e <;> exact e), ?_⟩
      simp only [List.map_cons, applyStrictAll, shiftHunk, List.cons_append, List.nil_append]
      have := applyStrict_idx_frame t l k x hx h (hD h List.mem_cons_self)
      have e : applyStrict (.arr t l) (.idx (k : Int) :: h.path)
          { h with path := .idx (k : Int) :: h.path } =
          applyStrict (.arr t l) (.idx (k : Int) :: h.path) h :=
        applyStrict_path_irrel _ _ _ _
      rw [e, this, hv]
      simp only [Option.map_some, Option.bind_some]
      rw [h', List.set_set]


/-- a hunk that replaces the element as a whole, moved below the index AND given the after-context
    `nx` (what `subAfter` does): the splice at that index checks `nx` against the element that follows -/
theorem applyStrict_idx_replace_after (t : Tag) (l : List Json) (k : Nat) (x : Json)
    (hx : l[k]? = some x) (h : Hunk) (hb : h.before = [])
    (hr : h.remove.length = 1) (hadd : h.add.length = 1) (nx : Json)
    (hn : AfterOK (l.drop (k + 1)) nx) :
    applyStrict (.arr t l) [.idx (k : Int)] { h with after := [nx] } =
      (applyStrict x [] h).map (fun v => .arr .raw (l.set k v)) := by
  have hk : k < l.length := by
    rcases Nat.lt_or_ge k l.length with h | h
    · exact h
    · rw [List.getElem?_eq_none h] at hx; cases hx
  obtain ⟨x', hx'⟩ : ∃ x', h.remove = [x'] := by
    cases hrm : h.remove with
    | nil => simp [hrm] at hr
    | cons x' r' => cases r' with
      | nil => exact ⟨x', rfl⟩
      | cons _ _ => simp [hrm] at hr
  obtain ⟨y', hy'⟩ : ∃ y', h.add = [y'] := by
    cases hrm : h.add with
    | nil => simp [hrm] at hadd
    | cons x' r' => cases r' with
      | nil => exact ⟨x', rfl⟩
      | cons _ _ => simp [hrm] at hadd
  have hdrop : l.drop k = x :: l.drop (k + 1) := by
    rw [List.drop_eq_getElem_cons hk]
    congr 1
    rw [List.getElem?_eq_getElem hk] at hx
    exact Option.some.inj hx
  have h7 : afterOk (l.drop (k + 1)) 0 [nx] = true := by
    simp only [afterOk, Bool.and_true]
    unfold AfterOK at hn
    cases hpost : l.drop (k + 1) with
    | nil => rw [hpost] at hn; simp at hn; simp [hn]
    | cons z post' => rw [hpost] at hn; simp at hn; simp [hn]
  simp only [applyStrict, splice, hb, hx', hy', List.length_cons, List.length_nil,
    beforeOk, single, Json.singleValue]
  have h1 : ((k : Int) == -1) = false := by
    simp only [beq_eq_false_iff_ne, ne_eq]; omega
  have h2 : ((k : Int) < 0 || (k : Int) > (l.length : Int)) = false := by
    simp only [Bool.or_eq_false_iff, decide_eq_false_iff_not]; omega
  simp only [h1, h2, Bool.false_eq_true, if_false, Int.toNat_natCast, hdrop, prefixEq,
    Bool.and_true]
  have hpost : (x :: l.drop (k + 1)).drop (0 + 1) = l.drop (k + 1) := by simp
  rw [hpost, h7]
  have hset : l.set k y' = l.take k ++ [y'] ++ l.drop (k + 1) := by
    rw [List.set_eq_take_append_cons_drop, if_pos hk]
    simp
  split <;> simp_all

/-- `applyStrictAll_idx_frame` through `subAfter`: the sub-diff of an element, moved below its index
    and passed through `subAfter` with the TRUE next element (or the array end) as after-context -/
theorem applyStrictAll_idx_frame_subAfter (D : Diff) (hD : ∀ h ∈ D, (frameOK h))
    (t : Tag) (l : List Json) (k : Nat) (x : Json) (hx : l[k]? = some x)
    (r : Json) (hr : applyStrictAll x D = some r) (n : Bool) (nx : Json)
    (hn : AfterOK (l.drop (k + 1)) nx) :
    ∃ t', (t' = t ∨ t' = .raw) ∧
      applyStrictAll (.arr t l) (subAfter [] n nx (D.map (shiftHunk [.idx (k : Int)]))) =
      some (.arr t' (l.set k r)) := by
  rcases subAfter_cases [] n nx (D.map (shiftHunk [.idx (k : Int)])) with e | ⟨h, hsub, hfire, e⟩
  · rw [e]
    exact applyStrictAll_idx_frame D hD t l k x hx r hr
  · rw [e]
    match D, hsub, hD, hr with
    | [h0], hsub, hD, hr =>
      simp only [List.map_cons, List.map_nil, List.cons.injEq, and_true] at hsub
      subst hsub
      simp only [subAfterFires, shiftHunk, List.length_append, List.length_cons, List.length_nil,
        Bool.and_eq_true, decide_eq_true_eq] at hfire
      have hp0 : h0.path = [] := List.eq_nil_of_length_eq_zero (by omega)
      rcases hD h0 List.mem_cons_self with hne | ⟨hb, _, hrm, hadd⟩
      · exact absurd hp0 hne
      · refine ⟨.raw, .inr rfl, ?_⟩
        simp only [applyStrictAll, hp0] at hr
        cases hv : applyStrict x [] h0 with
        | none => rw [hv] at hr; cases hr
        | some v =>
          rw [hv] at hr
          simp only [Option.bind_some, Option.some.injEq] at hr
          subst hr
          have := applyStrict_idx_replace_after t l k x hx h0 hb hrm hadd nx hn
          rw [hv] at this
          simp only [applyStrictAll, shiftHunk, hp0, List.append_nil]
          have e2 : applyStrict (.arr t l) [.idx (k : Int)]
              { h0 with path := [.idx (k : Int)], after := [nx] } =
              applyStrict (.arr t l) [.idx (k : Int)] { h0 with after := [nx] } :=
            applyStrict_path_irrel _ _ _ { h0 with after := [nx] }
          rw [e2, this]
          rfl

/-- the member update performed by a hunk below an object key -/
def aput (k : String) (v : Json) (cur : List (String × Json)) : List (String × Json) :=
  if v.isVoid then aerase k cur else ainsert k v cur

theorem keysSorted_aput (k : String) (v : Json) (cur : List (String × Json))
    (h : keysSorted cur = true) : keysSorted (aput k v cur) = true := by
  unfold aput; split
  · exact keysSorted_aerase k cur h
  · exact keysSorted_ainsert k v cur h

theorem alookup_aput_ne {k k0 : String} (hne : k0 ≠ k) (v : Json) (cur : List (String × Json)) :
    alookup k0 (aput k v cur) = alookup k0 cur := by
  unfold aput; split
  · exact alookup_aerase_ne hne cur
  · rw [alookup_ainsert, if_neg hne]

theorem alookup_aput_self (k : String) (v : Json) (cur : List (String × Json))
    (h : keysSorted cur = true) : (alookup k (aput k v cur)).getD .void = v := by
  unfold aput; split
  · next hv =>
    rw [alookup_aerase_self k cur h]
    cases v <;> simp_all [Json.isVoid]
  · rw [alookup_ainsert, if_pos rfl]; rfl

theorem applyStrict_key (kvs : List (String × Json)) (k : String) (q : Path) (h : Hunk) :
    applyStrict (.obj kvs) (.key k :: q) h =
      (applyStrict ((alookup k kvs).getD .void) q h).map (fun v => .obj (aput k v kvs)) := by
  rw [applyStrict]
  cases applyStrict ((alookup k kvs).getD .void) q h with
  | none => rfl
  | some v => simp only [Option.map_some, aput]; split <;> rfl

theorem applyStrictAll_key_frame (D : Diff) (k : String) :
    ∀ (cur : List (String × Json)), keysSorted cur = true →
      ∀ r, applyStrictAll ((alookup k cur).getD .void) D = some r →
      ∃ cur', applyStrictAll (.obj cur) (D.map (shiftHunk [.key k])) = some (.obj cur') ∧
        keysSorted cur' = true ∧ (∀ k0, k0 ≠ k → alookup k0 cur' = alookup k0 cur) ∧
        (alookup k cur').getD .void = r := by
  induction D with
  | nil =>
    intro cur hs r hr
    simp only [applyStrictAll, Option.some.injEq] at hr
    exact ⟨cur, by simp [applyStrictAll], hs, fun _ _ => rfl, hr⟩
  | cons h D ih =>
    intro cur hs r hr
    simp only [applyStrictAll] at hr
    cases hv : applyStrict ((alookup k cur).getD .void) h.path h with
    | none => rw [hv] at hr; cases hr
    | some v =>
      rw [hv] at hr
      simp only [Option.bind_some] at hr
      have hs1 := keysSorted_aput k v cur hs
      rw [← alookup_aput_self k v cur hs] at hr
      obtain ⟨cur', h1, h2, h3, h4⟩ := ih (aput k v cur) hs1 r hr
      refine ⟨cur', ?_, h2, fun k0 hne => by rw [h3 k0 hne, alookup_aput_ne hne], h4⟩
      simp only [List.map_cons, applyStrictAll, shiftHunk, List.cons_append, List.nil_append]
      rw [applyStrict_path_irrel, applyStrict_key, hv]
      simp only [Option.map_some, Option.bind_some]
      exact h1




/-! ## 6. sub-terms and the hypotheses about hash codes -/

mutual
/-- all sub-terms of a document, the document included -/
def subterms : Json → List Json
  | .arr t xs => .arr t xs :: subtermsList xs
  | .obj kvs => .obj kvs :: subtermsKvs kvs
  | n => [n]
def subtermsList : List Json → List Json
  | [] => []
  | x :: r => (subterms x) ++ subtermsList r
def subtermsKvs : List (String × Json) → List Json
  | [] => []
  | (_, v) :: r => (subterms v) ++ subtermsKvs r
end

theorem self_mem_subterms (x : Json) : x ∈ (subterms x) := by
  cases x <;> simp [subterms]

theorem subterms_of_mem_kvs {k : String} {v : Json} :
    ∀ {kvs : List (String × Json)}, (k, v) ∈ kvs → ∀ z, z ∈ (subterms v) → z ∈ subtermsKvs kvs
  | [], h, _, _ => by cases h
  | (k', v') :: r, h, z, hz => by
    simp only [subtermsKvs, List.mem_append]
    rcases List.mem_cons.1 h with e | h
    · cases e; exact .inl hz
    · exact .inr (subterms_of_mem_kvs h z hz)

/-- `S ⊆ T` for lists, spelled out (core `List.Subset`) -/
abbrev Sub (l S : List Json) : Prop := ∀ z, z ∈ l → z ∈ S

theorem sub_arr {t : Tag} {xs S : List Json} (h : Sub (subterms (Json.arr t xs)) S) :
    Sub (subtermsList xs) S :=
  fun z hz => h z (by simp [subterms, hz])

theorem sub_obj {kvs : List (String × Json)} {S : List Json} (h : Sub (subterms (Json.obj kvs)) S) :
    Sub (subtermsKvs kvs) S :=
  fun z hz => h z (by simp [subterms, hz])

theorem sub_cons {x : Json} {r S : List Json} (h : Sub (subtermsList (x :: r)) S) :
    Sub (subterms x) S ∧ Sub (subtermsList r) S :=
  ⟨fun z hz => h z (by simp [subtermsList, hz]), fun z hz => h z (by simp [subtermsList, hz])⟩

theorem sub_kvs_cons {k : String} {v : Json} {r : List (String × Json)} {S : List Json}
    (h : Sub (subtermsKvs ((k, v) :: r)) S) : Sub (subterms v) S ∧ Sub (subtermsKvs r) S :=
  ⟨fun z hz => h z (by simp [subtermsKvs, hz]), fun z hz => h z (by simp [subtermsKvs, hz])⟩

theorem sub_lookup {k : String} {v : Json} {kvs : List (String × Json)} {S : List Json}
    (h : Sub (subtermsKvs kvs) S) (hl : alookup k kvs = some v) : Sub (subterms v) S :=
  fun z hz => h z (subterms_of_mem_kvs (mem_of_alookup hl) z hz)

/-- The hypotheses about hash codes, for the sub-terms `S` of the source and `T` of the target.
    `hash`: a sub-term of the source and a sub-term of the target with the same hash code are
    structurally equal (no FNV collision). `zero`: no number of the source is equal as a float to
    a number of the target with a different bit pattern (that is: no `0` against `-0`). -/
structure NoCollision (o : Opts) (S T : List Json) : Prop where
  hash : ∀ x ∈ S, ∀ y ∈ T, hashCode o x = hashCode o y → specEq x y = true ∧ specEq y x = true
  zero : ∀ u v, Json.num u ∈ S → Json.num v ∈ T → numWithin 0 u v = true → u = v

/-! ### the longest-common-subsequence invariant of the cursor walk -/

/-- `c` is a longest common subsequence of `ha` and `hb` -/
def LOpt (c ha hb : List UInt64) : Prop :=
  c.Sublist ha ∧ c.Sublist hb ∧ ∀ c' : List UInt64, c'.Sublist ha → c'.Sublist hb → c'.length ≤ c.length

theorem sublist_of_head_ne {c : List UInt64} {h : UInt64} {l : List UInt64}
    (hs : c.Sublist (h :: l)) (hne : c.head? ≠ some h) : c.Sublist l := by
  cases c with
  | nil => exact List.nil_sublist _
  | cons z c' =>
    rcases List.sublist_cons_iff.1 hs with h1 | ⟨r, e, _⟩
    · exact h1
    · cases e; simp at hne

theorem LOpt.skipA {c ha hb : List UInt64} {h : UInt64} (ho : LOpt c (h :: ha) hb)
    (hne : c.head? ≠ some h) : LOpt c ha hb :=
  ⟨sublist_of_head_ne ho.1 hne, ho.2.1, fun c' h1 h2 => ho.2.2 c' (h1.cons _) h2⟩

theorem LOpt.skipB {c ha hb : List UInt64} {h : UInt64} (ho : LOpt c ha (h :: hb))
    (hne : c.head? ≠ some h) : LOpt c ha hb :=
  ⟨ho.1, sublist_of_head_ne ho.2.1 hne, fun c' h1 h2 => ho.2.2 c' h1 (h2.cons _)⟩

theorem LOpt.both {z : UInt64} {c ha hb : List UInt64} (ho : LOpt (z :: c) (z :: ha) (z :: hb)) :
    LOpt c ha hb := by
  refine ⟨List.cons_sublist_cons.1 ho.1, List.cons_sublist_cons.1 ho.2.1, fun c' h1 h2 => ?_⟩
  have := ho.2.2 (z :: c') (h1.cons_cons z) (h2.cons_cons z)
  simp only [List.length_cons] at this
  omega

theorem LOpt.heads_ne {c ha hb : List UInt64} {h : UInt64} (ho : LOpt c (h :: ha) (h :: hb))
    (hne : c.head? ≠ some h) : False := by
  have h1 := sublist_of_head_ne ho.1 hne
  have h2 := sublist_of_head_ne ho.2.1 hne
  have := ho.2.2 (h :: c) (h1.cons_cons h) (h2.cons_cons h)
  simp only [List.length_cons] at this
  omega

theorem atC_true {o : Opts} {x : Json} {c : List UInt64} (h : atC o x c = true) :
    c = hashCode o x :: c.tail := by
  cases c with
  | nil => simp [atC] at h
  | cons z c' => simp only [atC, beq_iff_eq] at h; simp [h]

theorem atC_false {o : Opts} {x : Json} {c : List UInt64} (h : atC o x c = false) :
    c.head? ≠ some (hashCode o x) := by
  cases c with
  | nil => simp
  | cons z c' =>
    simp only [atC, beq_eq_false_iff_ne, ne_eq] at h
    simp only [List.head?_cons, ne_eq, Option.some.injEq]
    exact fun e => h e.symm

theorem LOpt.lcs (ha hb : List UInt64) : LOpt (lcsValues ha hb) ha hb :=
  ⟨lcsValues_sublist_left ha hb, lcsValues_sublist_right ha hb, lcs_optimal ha hb⟩




/-! ## 7. an empty diff means equal hash codes -/

theorem hashKvs_eq_of (o : Opts) :
    ∀ (kvs kvs' : List (String × Json)), keysSorted kvs = true → keysSorted kvs' = true →
      (∀ k v, (k, v) ∈ kvs → ∃ v', alookup k kvs' = some v' ∧ hashCode o v = hashCode o v') →
      (∀ k v', (k, v') ∈ kvs' → (alookup k kvs).isSome = true) →
      hashKvs o kvs = hashKvs o kvs'
  | [], kvs', _, _, _, h2 => by
    cases kvs' with
    | nil => rfl
    | cons kv r => have := h2 kv.1 kv.2 List.mem_cons_self; simp [alookup] at this
  | (k, v) :: r, kvs', hs, hs', h1, h2 => by
    obtain ⟨v', hl, hh⟩ := h1 k v List.mem_cons_self
    cases kvs' with
    | nil => simp [alookup] at hl
    | cons kv r' =>
      obtain ⟨k', w⟩ := kv
      have hsr := keysSorted_cons_iff.1 hs
      have hsr' := keysSorted_cons_iff.1 hs'
      have hk : k = k' := by
        apply Classical.byContradiction
        intro hne
        have hl' : alookup k r' = some v' := by simpa [alookup, hne] using hl
        have lt1 : k' < k := hsr'.1 k v' (mem_of_alookup hl')
        have := h2 k' w List.mem_cons_self
        have hne' : k' ≠ k := fun e => hne e.symm
        simp only [alookup, hne', if_false] at this
        cases hlr : alookup k' r with
        | none => simp [hlr] at this
        | some w' => exact String.lt_asymm lt1 (hsr.1 k' w' (mem_of_alookup hlr))
      subst hk
      have hv : v' = w := by simpa [alookup] using hl.symm
      subst hv
      have ih := hashKvs_eq_of o r r' hsr.2 hsr'.2
        (fun k1 v1 hm => by
          obtain ⟨v1', hl1, hh1⟩ := h1 k1 v1 (List.mem_cons_of_mem _ hm)
          have hne : k1 ≠ k := fun e => String.lt_irrefl k (e ▸ hsr.1 k1 v1 hm)
          exact ⟨v1', by simpa [alookup, hne] using hl1, hh1⟩)
        (fun k1 v1' hm => by
          have := h2 k1 v1' (List.mem_cons_of_mem _ hm)
          have hne : k1 ≠ k := fun e => String.lt_irrefl k (e ▸ hsr'.1 k1 v1' hm)
          simpa [alookup, hne] using this)
      simp only [hashKvs, hh, ih]

theorem hashCode_arr_list {o : Opts} (ho : dispatchTag o = .list) {t : Tag} (xs : List Json)
    (ht : (t == .raw || t == .list) = true) :
    hashCode o (.arr t xs) = fnv1a (Gen.seedList ++ (hashList o xs).flatMap le8) := by
  simp [hashCode, effTag_list ho ht]

theorem accHunk_eq_nil {p : Path} {s : Nat} {prev : Json} {R A : List Json} {after : Json}
    (h : accHunk p s prev R A after = []) : R = [] ∧ A = [] := by
  unfold accHunk at h
  split at h
  · next h' => simpa using h'
  · cases h

theorem diffCommon_empty_hash (o : Opts) {S T : List Json} (N : NoCollision o S T) (a b : Json)
    (h1 : ∀ t xs, a ≠ .arr t xs) (h2 : ∀ kvs, a ≠ .obj kvs) (ha : a ∈ S) (hb : b ∈ T) (p : Path)
    (h : diffCommon false a b p = []) : hashCode o a = hashCode o b := by
  unfold diffCommon at h
  split at h
  · next he =>
    cases a with
    | arr t xs => exact absurd rfl (h1 t xs)
    | obj kvs => exact absurd rfl (h2 kvs)
    | num u =>
      cases b <;> simp [equals] at he
      next v =>
      have := N.zero u v ha hb (by simpa [precOf] using he)
      rw [this]
    | _ => cases b <;> simp_all [equals, Json.isVoid, Json.isNull]
  · simp at h


theorem diff_empty_hash (o : Opts) (ho : dispatchTag o = .list) {S T : List Json}
    (N : NoCollision o S T) :
    (∀ a b, a.listDoc = true → b.listDoc = true →
      Sub (subterms a) S → Sub (subterms b) T → Good a → Good b →
      ∀ p, diffNode o false a b p = [] → hashCode o a = hashCode o b) ∧
    (∀ kvs' kvs, listDocKvs kvs' = true → listDocKvs kvs = true →
      Sub (subtermsKvs kvs) S → Sub (subtermsKvs kvs') T → GoodK kvs → GoodK kvs' →
      ∀ p, diffKvs o false p kvs' kvs = [] →
        ∀ k v, (k, v) ∈ kvs → ∃ v', alookup k kvs' = some v' ∧ hashCode o v = hashCode o v') ∧
    (∀ k s prev a b c R A, listDocList a = true → listDocList b = true →
      Sub (subtermsList a) S → Sub (subtermsList b) T → GoodL a → GoodL b →
      ∀ p, diffRest o p k s prev a b c R A = [] → R = [] ∧ A = [] ∧ hashList o a = hashList o b) := by
  apply listDiff_induct o ho
    (mN := fun a b => Sub (subterms a) S → Sub (subterms b) T → Good a → Good b →
      ∀ p, diffNode o false a b p = [] → hashCode o a = hashCode o b)
    (mK := fun kvs' kvs => Sub (subtermsKvs kvs) S → Sub (subtermsKvs kvs') T → GoodK kvs →
      GoodK kvs' → ∀ p, diffKvs o false p kvs' kvs = [] →
        ∀ k v, (k, v) ∈ kvs → ∃ v', alookup k kvs' = some v' ∧ hashCode o v = hashCode o v')
    (mR := fun k s prev a b c R A => Sub (subtermsList a) S → Sub (subtermsList b) T → GoodL a →
      GoodL b → ∀ p, diffRest o p k s prev a b c R A = [] →
        R = [] ∧ A = [] ∧ hashList o a = hashList o b)
  · intro t t' xs ys ht ht' htt _ _ ih hS hT ha hb p h
    rw [diffNode_arr_arr ho xs ys ht ht' htt] at h
    have := ih (sub_arr hS) (sub_arr hT) (good_arr.1 ha).2 (good_arr.1 hb).2 p h
    rw [hashCode_arr_list ho xs ht, hashCode_arr_list ho ys ht', this.2.2]
  · intro t xs b ht _ _ hb _ _ _ _ p h
    rw [diffNode_arr_other ho xs b ht hb] at h
    cases h
  · intro kvs kvs' _ _ ih hS hT ha hb p h
    rw [diffNode_obj_obj, List.append_eq_nil_iff, List.map_eq_nil_iff, List.filter_eq_nil_iff] at h
    have ha' := good_obj.1 ha
    have hb' := good_obj.1 hb
    have h1 := ih (sub_obj hS) (sub_obj hT) ha'.2 hb'.2 p h.1
    have h2 : ∀ k v', (k, v') ∈ kvs' → (alookup k kvs).isSome = true := by
      intro k v' hm
      have := h.2 (k, v') hm
      cases hl : alookup k kvs with
      | none => simp [hl] at this
      | some _ => rfl
    simp only [hashCode, hashKvs_eq_of o kvs kvs' ha'.1 hb'.1 h1 h2]
  · intro kvs b _ _ hb _ _ _ _ p h
    rw [diffNode_obj_other o kvs b hb] at h
    cases h
  · intro a b h1 h2 _ hS hT _ _ p h
    rw [diffNode_scalar o a b h1 h2] at h
    exact diffCommon_empty_hash o N a b h1 h2 (hS a (self_mem_subterms a))
      (hT b (self_mem_subterms b)) p h
  · intro kvs' _ _ _ _ p _ k v hm
    cases hm
  · intro kvs' k v r hl' _ _ ihN ihK hS hT ha hb p h k0 v0 hm
    rw [diffKvs_cons, List.append_eq_nil_iff] at h
    have ha' := goodK_cons.1 ha
    have hS' := sub_kvs_cons hS
    rcases List.mem_cons.1 hm with e | hm
    · cases e
      cases hlk : alookup k kvs' with
      | none => rw [hlk] at h; cases h.1
      | some v' =>
        rw [hlk] at h
        exact ⟨v', rfl, ihN v' (alookup_listDoc hlk hl') hS'.1 (sub_lookup hT hlk) ha'.1.1
          (hb.lookup hlk).1 _ h.1⟩
    · exact ihK hS'.2 hT ha'.2 hb p h.2 k0 v0 hm
  · intro k s prev c R A b _ _ _ _ _ p h
    rw [diffRest_nilA] at h
    have := accHunk_eq_nil h
    have hb : b = [] := by simpa using List.append_eq_nil_iff.1 this.2 |>.2
    have hA : A = [] := (List.append_eq_nil_iff.1 this.2).1
    subst hb
    exact ⟨this.1, hA, rfl⟩
  · intro k s prev c R A a hne _ _ _ _ _ p h
    rw [diffRest_nilB _ _ _ _ _ _ _ _ _ hne] at h
    have := accHunk_eq_nil h
    exact absurd (List.append_eq_nil_iff.1 this.1).2 hne
  · intro k s prev c R A x a' y b' _ _ hA hB ih hS hT ha hb p h
    rw [diffRest_cons] at h
    simp only [hA, hB, Bool.and_self, if_true, List.append_eq_nil_iff] at h
    have h1 := accHunk_eq_nil h.1
    have h2 := ih (sub_cons hS).2 (sub_cons hT).2 (goodL_cons.1 ha).2 (goodL_cons.1 hb).2 p h.2
    refine ⟨h1.1, h1.2, ?_⟩
    simp only [hashList, atC_both_hash hA hB, h2.2.2]
  · intro k s prev c R A x a' y b' _ _ hA hB ih hS hT ha hb p h
    rw [diffRest_cons] at h
    simp only [hA, hB, Bool.and_false, Bool.false_eq_true, if_false, if_true] at h
    have h2 := ih hS (sub_cons hT).2 ha (goodL_cons.1 hb).2 p h
    simp at h2
  · intro k s prev c R A x a' y b' _ _ hA hB ih hS hT ha hb p h
    rw [diffRest_cons] at h
    simp only [hA, hB, Bool.false_and, Bool.false_eq_true, if_false, if_true] at h
    have h2 := ih (sub_cons hS).2 hT (goodL_cons.1 ha).2 hb p h
    simp at h2
  · intro k s prev c R A x a' y b' _ _ hA hB hs ihN ihR hS hT ha hb p h
    rw [diffRest_cons] at h
    simp only [hA, hB, hs, Bool.false_and, Bool.false_eq_true, if_false, if_true,
      List.append_eq_nil_iff] at h
    have h1 := accHunk_eq_nil h.1.1
    have h2 := ihR (sub_cons hS).2 (sub_cons hT).2 (goodL_cons.1 ha).2 (goodL_cons.1 hb).2 p h.2
    have h3 := ihN (sub_cons hS).1 (sub_cons hT).1 (goodL_cons.1 ha).1 (goodL_cons.1 hb).1 _
      ((subAfter_eq_nil_iff _ _ _ _).1 h.1.2)
    refine ⟨h1.1, h1.2, ?_⟩
    simp only [hashList, h3, h2.2.2]
  · intro k s prev c R A x a' y b' _ _ hA hB hs ih hS hT ha hb p h
    rw [diffRest_cons] at h
    simp only [hA, hB, hs, Bool.false_and, Bool.false_eq_true, if_false] at h
    have h2 := ih (sub_cons hS).2 (sub_cons hT).2 (goodL_cons.1 ha).2 (goodL_cons.1 hb).2 p h
    simp at h2




/-! ## 8. every hunk of a sub-diff can be moved below an index -/

theorem diffNode_at (o : Opts) (ho : dispatchTag o = .list) (a b : Json) (ha : a.listDoc = true)
    (hb : b.listDoc = true) (e : PathElem) :
    diffNode o false a b ([] ++ [e]) = (diffNode o false a b []).map (shiftHunk [e]) := by
  have := (diff_shift o ho).1 a b ha hb [e] []
  simpa using this

theorem shift_path_ne_nil (e : PathElem) {D : Diff} {h : Hunk} (hm : h ∈ D.map (shiftHunk [e])) :
    h.path ≠ [] := by
  obtain ⟨h', _, rfl⟩ := List.mem_map.1 hm
  simp [shiftHunk]

theorem accHunk_path_ne_nil {s : Nat} {prev : Json} {R A : List Json} {after : Json} {h : Hunk}
    (hm : h ∈ accHunk [] s prev R A after) : h.path ≠ [] := by
  unfold accHunk at hm
  split at hm
  · cases hm
  · simp only [List.mem_singleton] at hm; subst hm; simp

theorem diff_frameOK (o : Opts) (ho : dispatchTag o = .list) :
    (∀ a b, a.listDoc = true → b.listDoc = true → a.isVoid = false → b.isVoid = false →
      ∀ h ∈ diffNode o false a b [], (frameOK h)) ∧
    (∀ kvs' kvs, listDocKvs kvs' = true → listDocKvs kvs = true →
      ∀ h ∈ diffKvs o false [] kvs' kvs, h.path ≠ []) ∧
    (∀ k s prev a b c R A, listDocList a = true → listDocList b = true →
      ∀ h ∈ diffRest o [] k s prev a b c R A, h.path ≠ []) := by
  apply listDiff_induct o ho
    (mN := fun a b => a.isVoid = false → b.isVoid = false →
      ∀ h ∈ diffNode o false a b [], (frameOK h))
    (mK := fun kvs' kvs => ∀ h ∈ diffKvs o false [] kvs' kvs, h.path ≠ [])
    (mR := fun k s prev a b c R A => ∀ h ∈ diffRest o [] k s prev a b c R A, h.path ≠ [])
  · intro t t' xs ys ht ht' htt _ _ ih _ _ h hm
    rw [diffNode_arr_arr ho xs ys ht ht' htt] at hm
    exact .inl (ih h hm)
  · intro t xs b ht _ _ hb _ hbv h hm
    rw [diffNode_arr_other ho xs b ht hb] at hm
    simp only [List.mem_singleton] at hm
    subst hm
    right
    simp [Json.nodeList, hbv]
  · intro kvs kvs' _ _ ih _ _ h hm
    rw [diffNode_obj_obj, List.mem_append] at hm
    rcases hm with hm | hm
    · exact .inl (ih h hm)
    · obtain ⟨kv, _, rfl⟩ := List.mem_map.1 hm
      left; simp
  · intro kvs b _ _ hb _ _ h hm
    rw [diffNode_obj_other o kvs b hb] at hm
    simp only [List.mem_singleton] at hm
    subst hm
    right; simp
  · intro a b h1 h2 _ hav hbv h hm
    rw [diffNode_scalar o a b h1 h2] at hm
    unfold diffCommon at hm
    split at hm
    · cases hm
    · simp only [Bool.false_eq_true, if_false, List.mem_singleton] at hm
      subst hm
      right; simp [Json.nodeList, hav, hbv]
  · intro kvs' h hm
    rw [diffKvs_nil] at hm; cases hm
  · intro kvs' k v r hl' hv _ _ ihK h hm
    rw [diffKvs_cons, List.mem_append] at hm
    rcases hm with hm | hm
    · cases hlk : alookup k kvs' with
      | none =>
        rw [hlk] at hm
        simp only [List.mem_singleton] at hm
        subst hm; simp
      | some v' =>
        rw [hlk] at hm
        simp only [] at hm
        rw [diffNode_at o ho v v' hv (alookup_listDoc hlk hl')] at hm
        exact shift_path_ne_nil _ hm
    · exact ihK h hm
  · intro k s prev c R A b _ h hm
    rw [diffRest_nilA] at hm
    exact accHunk_path_ne_nil hm
  · intro k s prev c R A a hne _ h hm
    rw [diffRest_nilB _ _ _ _ _ _ _ _ _ hne] at hm
    exact accHunk_path_ne_nil hm
  · intro k s prev c R A x a' y b' _ _ hA hB ih h hm
    rw [diffRest_cons] at hm
    simp only [hA, hB, Bool.and_self, if_true, List.mem_append] at hm
    rcases hm with hm | hm
    · exact accHunk_path_ne_nil hm
    · exact ih h hm
  · intro k s prev c R A x a' y b' _ _ hA hB ih h hm
    rw [diffRest_cons] at hm
    simp only [hA, hB, Bool.and_false, Bool.false_eq_true, if_false, if_true] at hm
    exact ih h hm
  · intro k s prev c R A x a' y b' _ _ hA hB ih h hm
    rw [diffRest_cons] at hm
    simp only [hA, hB, Bool.false_and, Bool.false_eq_true, if_false, if_true] at hm
    exact ih h hm
  · intro k s prev c R A x a' y b' hl hl' hA hB hs _ ihR h hm
    rw [diffRest_cons] at hm
    simp only [listDocList, Bool.and_eq_true] at hl hl'
    simp only [hA, hB, hs, Bool.false_and, Bool.false_eq_true, if_false, if_true,
      List.mem_append] at hm
    rcases hm with (hm | hm) | hm
    · exact accHunk_path_ne_nil hm
    · rw [diffNode_at o ho x y hl.1 hl'.1] at hm
      obtain ⟨h0, hm0, hp0, _⟩ := mem_subAfter' hm
      rw [hp0]
      exact shift_path_ne_nil _ hm0
    · exact ihR h hm
  · intro k s prev c R A x a' y b' _ _ hA hB hs ih h hm
    rw [diffRest_cons] at hm
    simp only [hA, hB, hs, Bool.false_and, Bool.false_eq_true, if_false] at hm
    exact ih h hm




/-! ### 8b. what `subAfter` does to the sub-diff of two same-kind containers (list documents) -/

/-- two same-kind containers (list documents) are a typed `jsonList` against a plain `jsonArray`, or
    every hunk of their sub-diff is addressed strictly inside them -/
theorem mixed_or_paths_ne_nil (o : Opts) (ho : dispatchTag o = .list) {x y : Json}
    (hx : x.listDoc = true) (hy : y.listDoc = true) (hs : sameContainerType o x y = true) :
    (∃ xs ys, x = .arr .list xs ∧ y = .arr .raw ys) ∨ ∀ h ∈ diffNode o false x y [], h.path ≠ [] := by
  cases x with
  | obj kvs =>
    cases y with
    | obj kvs' =>
      right
      intro h hm
      simp only [Json.listDoc] at hx hy
      rw [diffNode_obj_obj, List.mem_append] at hm
      rcases hm with hm | hm
      · exact (diff_frameOK o ho).2.1 kvs' kvs hy hx h hm
      · obtain ⟨kv, _, rfl⟩ := List.mem_map.1 hm
        simp
    | arr t ys => cases t <;> simp [sameContainerType, Json.dispatch] at hs
    | _ => simp [sameContainerType, Json.dispatch] at hs
  | arr t xs =>
    cases y with
    | arr t' ys =>
      simp only [Json.listDoc, Bool.and_eq_true] at hx hy
      by_cases htt : t = .raw ∨ t' = .list
      · right
        intro h hm
        rw [diffNode_arr_arr ho xs ys hx.1 hy.1 htt] at hm
        exact (diff_frameOK o ho).2.2 _ _ _ xs ys _ _ _ hx.2 hy.2 h hm
      · left
        have h1 := hx.1; have h2 := hy.1
        have : t = .list ∧ t' = .raw := by cases t <;> cases t' <;> simp_all
        exact ⟨xs, ys, by rw [this.1], by rw [this.2]⟩
    | _ => cases t <;> simp [sameContainerType, Json.dispatch] at hs
  | _ => simp [sameContainerType, Json.dispatch] at hs

/-- **`subAfter` on the sub-diff of two same-kind containers** (list documents): it is the identity,
    except for a typed `jsonList` against a plain `jsonArray` with nothing accumulated, where the one
    wholesale hunk receives the after-context -/
theorem subAfter_diffNode_cases (o : Opts) (ho : dispatchTag o = .list) {x y : Json}
    (hx : x.listDoc = true) (hy : y.listDoc = true) (hs : sameContainerType o x y = true)
    (p : Path) (k : Int) (n : Bool) (nx : Json) :
    subAfter p n nx (diffNode o false x y (p ++ [.idx k])) = diffNode o false x y (p ++ [.idx k]) ∨
    (n = true ∧ ∃ xs ys, x = .arr .list xs ∧ y = .arr .raw ys ∧
      diffNode o false x y (p ++ [.idx k]) =
        [{ path := p ++ [.idx k], remove := [.arr .list xs], add := [.arr .raw ys] }] ∧
      subAfter p n nx (diffNode o false x y (p ++ [.idx k])) =
        [{ path := p ++ [.idx k], remove := [.arr .list xs], add := [.arr .raw ys], after := [nx] }]) := by
  rcases mixed_or_paths_ne_nil o ho hx hy hs with ⟨xs, ys, rfl, rfl⟩ | hne
  · have e := diffNode_arr_other ho (t := .list) xs (.arr .raw ys) rfl (.inr ⟨rfl, ys, rfl⟩)
      (p ++ [.idx k])
    cases n with
    | false => left; exact subAfter_false _ _ _
    | true =>
      right
      refine ⟨rfl, xs, ys, rfl, rfl, ?_, ?_⟩
      · rw [e]; simp [Json.nodeList, Json.isVoid]
      · rw [e, subAfter_single]
        simp [subAfterFires, Json.nodeList, Json.isVoid]
  · left
    apply subAfter_of_paths
    intro h hm
    have e := (diff_shift o ho).1 x y hx hy (p ++ [.idx k]) []
    rw [List.append_nil] at e
    rw [e] at hm
    obtain ⟨h0, hm0, rfl⟩ := List.mem_map.1 hm
    have := List.length_pos_iff.2 (hne h0 hm0)
    simp only [shiftHunk, List.length_append, List.length_singleton]
    omega

/-! ## 9. objects: the member hunks -/

/-- stronger form of the key frame lemma: the member after the hunks is exactly the patched value
    (absent when void) -/
theorem applyStrictAll_key_frame' (D : Diff) (k : String) :
    ∀ (cur : List (String × Json)) (x : Json), keysSorted cur = true →
      alookup k cur = (if x.isVoid then none else some x) →
      ∀ r, applyStrictAll x D = some r →
      ∃ cur', applyStrictAll (.obj cur) (D.map (shiftHunk [.key k])) = some (.obj cur') ∧
        keysSorted cur' = true ∧ (∀ k0, k0 ≠ k → alookup k0 cur' = alookup k0 cur) ∧
        alookup k cur' = (if r.isVoid then none else some r) := by
  induction D with
  | nil =>
    intro cur x hs hx r hr
    simp only [applyStrictAll, Option.some.injEq] at hr
    subst hr
    exact ⟨cur, by simp [applyStrictAll], hs, fun _ _ => rfl, hx⟩
  | cons h D ih =>
    intro cur x hs hx r hr
    simp only [applyStrictAll] at hr
    have hget : (alookup k cur).getD .void = x := by
      rw [hx]; split
      · next hv => cases x <;> simp_all [Json.isVoid]
      · rfl
    cases hv : applyStrict x h.path h with
    | none => rw [hv] at hr; cases hr
    | some v =>
      rw [hv] at hr
      simp only [Option.bind_some] at hr
      have hs1 := keysSorted_aput k v cur hs
      have hx1 : alookup k (aput k v cur) = (if v.isVoid then none else some v) := by
        unfold aput; split
        · exact alookup_aerase_self k cur hs
        · rw [alookup_ainsert, if_pos rfl]
      obtain ⟨cur', h1, h2, h3, h4⟩ := ih (aput k v cur) v hs1 hx1 r hr
      refine ⟨cur', ?_, h2, fun k0 hne => by rw [h3 k0 hne, alookup_aput_ne hne], h4⟩
      simp only [List.map_cons, applyStrictAll, shiftHunk, List.cons_append, List.nil_append]
      rw [applyStrict_path_irrel, applyStrict_key, hget, hv]
      simp only [Option.map_some, Option.bind_some]
      exact h1

theorem single_nodeList (b : Json) : single b.nodeList = b := by
  cases b <;> simp [single, Json.nodeList, Json.isVoid, Json.singleValue]

/-- a hunk at the root: replace the value -/
theorem apply_root (a : Json) (rm add : List Json) (h1 : rm.length ≤ 1) (h2 : add.length ≤ 1)
    (h : specEq a (single rm) = true) :
    applyStrictAll a [{ path := [], remove := rm, add := add }] = some (single add) := by
  have e : (rm.length > 1 || add.length > 1) = false := by
    simp only [Bool.or_eq_false_iff, decide_eq_false_iff_not]; omega
  simp [applyStrictAll, applyStrict, e, h]

theorem specEq_void_void : specEq .void .void = true := by simp [specEq, equivB]

/-- the hunk adding a member -/
def addHunk (kv : String × Json) : Hunk :=
  { merge := false, path := [] ++ [.key kv.1], add := kv.2.nodeList }

/-- the second loop of `jsonObject.diff`: members of the target that the source does not have -/
theorem apply_adds (P : String → Bool) :
    ∀ (kvs' : List (String × Json)), keysSorted kvs' = true → GoodK kvs' →
      ∀ (cur : List (String × Json)), keysSorted cur = true →
      (∀ k v', (k, v') ∈ kvs' → P k = true → alookup k cur = none) →
      ∃ cur', applyStrictAll (.obj cur) ((kvs'.filter (fun kv => P kv.1)).map addHunk) =
          some (.obj cur') ∧ keysSorted cur' = true ∧
        (∀ k0, (∀ v', (k0, v') ∈ kvs' → P k0 = false) → alookup k0 cur' = alookup k0 cur) ∧
        (∀ k v', (k, v') ∈ kvs' → P k = true → alookup k cur' = some v')
  | [], _, _, cur, hs, _ => ⟨cur, by simp [applyStrictAll], hs, fun _ _ => rfl, fun _ _ h => by cases h⟩
  | (k, v') :: r, hs', hg, cur, hs, hnone => by
    have hs'r := keysSorted_cons_iff.1 hs'
    have hg' := goodK_cons.1 hg
    by_cases hP : P k = true
    · -- the member is added
      have hx : alookup k cur = (if Json.void.isVoid then none else some Json.void) := by
        simpa [Json.isVoid] using hnone k v' List.mem_cons_self hP
      have hv : applyStrictAll Json.void [{ path := [], add := v'.nodeList }] = some v' := by
        have := apply_root .void [] v'.nodeList (by simp) (by simp [Json.nodeList]; split <;> simp)
          (by simpa [single, Json.singleValue] using specEq_void_void)
        rw [this, single_nodeList]
      obtain ⟨cur1, h1, h2, h3, h4⟩ := applyStrictAll_key_frame' _ k cur .void hs hx v' hv
      rw [hg'.1.2] at h4
      simp only [Bool.false_eq_true, if_false] at h4
      obtain ⟨cur', g1, g2, g3, g4⟩ := apply_adds P r hs'r.2 hg'.2 cur1 h2 (fun k1 v1 hm hP1 => by
        have hne : k1 ≠ k := fun e => String.lt_irrefl k (e ▸ hs'r.1 k1 v1 hm)
        rw [h3 k1 hne]
        exact hnone k1 v1 (List.mem_cons_of_mem _ hm) hP1)
      refine ⟨cur', ?_, g2, ?_, ?_⟩
      · simp only [List.filter_cons, hP, if_true, List.map_cons]
        have e : addHunk (k, v') :: List.map addHunk (List.filter (fun kv => P kv.1) r) =
            List.map (shiftHunk [.key k]) [{ path := [], add := v'.nodeList }] ++
            List.map addHunk (List.filter (fun kv => P kv.1) r) := by
          simp [shiftHunk, addHunk]
        rw [e, applyStrictAll_append, h1]
        exact g1
      · intro k0 hk0
        have hne : k0 ≠ k := fun e => by
          have := hk0 v' (e ▸ List.mem_cons_self); simp [e, hP] at this
        rw [g3 k0 (fun v1 hm => hk0 v1 (List.mem_cons_of_mem _ hm)), h3 k0 hne]
      · intro k1 v1 hm hP1
        rcases List.mem_cons.1 hm with e | hm
        · cases e
          rw [g3 k (fun v2 hm2 => absurd (hs'r.1 k v2 hm2) (String.lt_irrefl k)), h4]
        · exact g4 k1 v1 hm hP1
    · -- the source has the member: no hunk
      obtain ⟨cur', g1, g2, g3, g4⟩ := apply_adds P r hs'r.2 hg'.2 cur hs (fun k1 v1 hm hP1 =>
        hnone k1 v1 (List.mem_cons_of_mem _ hm) hP1)
      refine ⟨cur', ?_, g2, ?_, ?_⟩
      · simp only [List.filter_cons, hP, Bool.false_eq_true, if_false]
        exact g1
      · intro k0 hk0
        exact g3 k0 (fun v1 hm => hk0 v1 (List.mem_cons_of_mem _ hm))
      · intro k1 v1 hm hP1
        rcases List.mem_cons.1 hm with e | hm
        · cases e; exact absurd hP1 hP
        · exact g4 k1 v1 hm hP1




/-! ## 10. the main induction -/

theorem sameContainerType_notVoid {o : Opts} {x y : Json} (h : sameContainerType o x y = true) :
    x.isVoid = false ∧ y.isVoid = false := by
  cases x <;> cases y <;> simp_all [sameContainerType, Json.dispatch, Json.isVoid]

theorem getElem?_mid (pre : List Json) (x : Json) (post : List Json) :
    (pre ++ x :: post)[pre.length]? = some x := by
  simp

theorem set_mid (pre : List Json) (x r : Json) (post : List Json) :
    (pre ++ x :: post).set pre.length r = pre ++ r :: post := by
  simp

theorem hashList_cons (o : Opts) (x : Json) (r : List Json) :
    hashList o (x :: r) = hashCode o x :: hashList o r := by
  simp [hashList]

theorem listDocKvs_of_lookup :
    ∀ (l : List (String × Json)), keysSorted l = true →
      (∀ k v, alookup k l = some v → v.listDoc = true) → listDocKvs l = true
  | [], _, _ => rfl
  | (k, v) :: r, hs, h => by
    have hs' := keysSorted_cons_iff.1 hs
    simp only [listDocKvs, Bool.and_eq_true]
    refine ⟨h k v (by simp [alookup]), listDocKvs_of_lookup r hs'.2 (fun k1 v1 hl => ?_)⟩
    have hne : k1 ≠ k := fun e => String.lt_irrefl k (e ▸ hs'.1 k1 v1 (mem_of_alookup hl))
    exact h k1 v1 (by simpa [alookup, hne] using hl)

theorem okTag_of {t t' : Tag} (ht : (t == .raw || t == .list) = true) (h : t' = t ∨ t' = .raw) :
    (t' == .raw || t' == .list) = true := by
  rcases h with rfl | rfl
  · exact ht
  · rfl

theorem diff_correct (L : FloatLaws) (o : Opts) (ho : dispatchTag o = .list) {S T : List Json}
    (N : NoCollision o S T) :
    (∀ a b, a.listDoc = true → b.listDoc = true →
      Sub (subterms a) S → Sub (subterms b) T → Good a → Good b →
      ∃ r, applyStrictAll a (diffNode o false a b []) = some r ∧ Rel r b ∧ r.listDoc = true) ∧
    (∀ kvs' kvs, listDocKvs kvs' = true → listDocKvs kvs = true →
      Sub (subtermsKvs kvs) S → Sub (subtermsKvs kvs') T → GoodK kvs → GoodK kvs' →
      keysSorted kvs = true → ∀ cur, keysSorted cur = true →
      (∀ k v, (k, v) ∈ kvs → alookup k cur = some v) →
      ∃ cur', applyStrictAll (.obj cur) (diffKvs o false [] kvs' kvs) = some (.obj cur') ∧
        keysSorted cur' = true ∧
        (∀ k0, (∀ v, (k0, v) ∉ kvs) → alookup k0 cur' = alookup k0 cur) ∧
        (∀ k v, (k, v) ∈ kvs → match alookup k kvs' with
          | none => alookup k cur' = none
          | some v' => ∃ z, alookup k cur' = some z ∧ Rel z v' ∧ z.listDoc = true)) ∧
    (∀ k s prev a b c R A, listDocList a = true → listDocList b = true →
      ∀ (t : Tag) (pre : List Json), pre.length = s → k = s + A.length → PrevOK pre prev →
        GoodL R → GoodL a → GoodL b → Sub (subtermsList a) S → Sub (subtermsList b) T →
        LOpt c (hashList o a) (hashList o b) →
        ∃ t' zs, (t' = t ∨ t' = .raw) ∧
          applyStrictAll (.arr t (pre ++ R ++ a)) (diffRest o [] k s prev a b c R A) =
            some (.arr t' (pre ++ A ++ zs)) ∧ RelL zs b ∧ listDocList zs = true) := by
  apply listDiff_induct o ho
    (mN := fun a b => Sub (subterms a) S → Sub (subterms b) T → Good a → Good b →
      ∃ r, applyStrictAll a (diffNode o false a b []) = some r ∧ Rel r b ∧ r.listDoc = true)
    (mK := fun kvs' kvs => Sub (subtermsKvs kvs) S → Sub (subtermsKvs kvs') T → GoodK kvs →
      GoodK kvs' → keysSorted kvs = true → ∀ cur, keysSorted cur = true →
      (∀ k v, (k, v) ∈ kvs → alookup k cur = some v) →
      ∃ cur', applyStrictAll (.obj cur) (diffKvs o false [] kvs' kvs) = some (.obj cur') ∧
        keysSorted cur' = true ∧
        (∀ k0, (∀ v, (k0, v) ∉ kvs) → alookup k0 cur' = alookup k0 cur) ∧
        (∀ k v, (k, v) ∈ kvs → match alookup k kvs' with
          | none => alookup k cur' = none
          | some v' => ∃ z, alookup k cur' = some z ∧ Rel z v' ∧ z.listDoc = true))
    (mR := fun k s prev a b c R A =>
      ∀ (t : Tag) (pre : List Json), pre.length = s → k = s + A.length → PrevOK pre prev →
        GoodL R → GoodL a → GoodL b → Sub (subtermsList a) S → Sub (subtermsList b) T →
        LOpt c (hashList o a) (hashList o b) →
        ∃ t' zs, (t' = t ∨ t' = .raw) ∧
          applyStrictAll (.arr t (pre ++ R ++ a)) (diffRest o [] k s prev a b c R A) =
            some (.arr t' (pre ++ A ++ zs)) ∧ RelL zs b ∧ listDocList zs = true)
  · -- list against list
    intro t t' xs ys ht ht' htt _ _ ih hS hT ha hb
    rw [diffNode_arr_arr ho xs ys ht ht' htt]
    obtain ⟨t'', zs, htag, h, hrel, hld⟩ := ih t [] rfl rfl (by simp [PrevOK, Json.isVoid]) GoodL.nil
      (good_arr.1 ha).2 (good_arr.1 hb).2 (sub_arr hS) (sub_arr hT) (LOpt.lcs _ _)
    refine ⟨.arr t'' zs, by simpa using h, Rel.arr hrel t'' t', ?_⟩
    simp only [Json.listDoc, Bool.and_eq_true]
    exact ⟨okTag_of ht htag, hld⟩
  · -- list against something else: replaced as a whole
    intro t xs b ht _ _ hb' _ _ ha hb
    rw [diffNode_arr_other ho xs b ht hb']
    refine ⟨b, ?_, Rel.refl L hb, hb.listDoc⟩
    have := apply_root (.arr t xs) [.arr .list xs] b.nodeList (by simp)
      (by simp only [Json.nodeList]; split <;> simp)
      (by simpa [single, Json.singleValue] using (Rel.arr (RelL.refl L (good_arr.1 ha).2) t .list).1)
    rw [this, single_nodeList]
  · -- object against object
    intro kvs kvs' _ _ ih hS hT ha hb
    have ha' := good_obj.1 ha
    have hb' := good_obj.1 hb
    rw [diffNode_obj_obj]
    obtain ⟨cur1, h1, hs1, hother1, hmem1⟩ := ih (sub_obj hS) (sub_obj hT) ha'.2 hb'.2 ha'.1 kvs ha'.1
      (fun k v hm => alookup_of_mem ha'.1 hm)
    obtain ⟨cur2, h2, hs2, hother2, hmem2⟩ := apply_adds (fun k => (alookup k kvs).isNone) kvs'
      hb'.1 hb'.2 cur1 hs1 (fun k v' _ hP => by
        have hk : alookup k kvs = none := by simpa using hP
        rw [hother1 k (fun v hm => by rw [alookup_of_mem ha'.1 hm] at hk; cases hk), hk])
    have hfin : ∀ k, match alookup k kvs' with
        | none => alookup k cur2 = none
        | some v' => ∃ z, alookup k cur2 = some z ∧ Rel z v' ∧ z.listDoc = true := ?_
    · refine ⟨.obj cur2, ?_, Rel.obj hs2 hb'.1 (fun k => ?_), ?_⟩
      · rw [applyStrictAll_append, h1]
        exact h2
      · have := hfin k
        cases hlk' : alookup k kvs' with
        | none => rw [hlk'] at this; exact this
        | some v' =>
          rw [hlk'] at this
          obtain ⟨z, hz, hr, _⟩ := this
          exact ⟨z, hz, hr⟩
      · simp only [Json.listDoc]
        refine listDocKvs_of_lookup cur2 hs2 (fun k z hz => ?_)
        have := hfin k
        cases hlk' : alookup k kvs' with
        | none => rw [hlk'] at this; rw [this] at hz; cases hz
        | some v' =>
          rw [hlk'] at this
          obtain ⟨z', hz', _, hl⟩ := this
          rw [hz] at hz'; cases hz'; exact hl
    · intro k
      cases hlk' : alookup k kvs' with
      | some v' =>
        simp only []
        have hm' := mem_of_alookup hlk'
        cases hlk : alookup k kvs with
        | none =>
          exact ⟨v', hmem2 k v' hm' (by simp [hlk]), Rel.refl L (hb'.2.of_mem hm').1,
            (hb'.2.of_mem hm').1.listDoc⟩
        | some v =>
          have := hmem1 k v (mem_of_alookup hlk)
          rw [hlk'] at this
          obtain ⟨z, hz, hr⟩ := this
          refine ⟨z, ?_, hr⟩
          rw [hother2 k (fun _ _ => by simp [hlk]), hz]
      | none =>
        simp only []
        rw [hother2 k (fun v' hm => by rw [alookup_of_mem hb'.1 hm] at hlk'; cases hlk')]
        cases hlk : alookup k kvs with
        | none =>
          rw [hother1 k (fun v hm => by rw [alookup_of_mem ha'.1 hm] at hlk; cases hlk), hlk]
        | some v =>
          have := hmem1 k v (mem_of_alookup hlk)
          rw [hlk'] at this
          exact this
  · -- object against something else
    intro kvs b _ _ hb' _ _ ha hb
    rw [diffNode_obj_other o kvs b hb']
    refine ⟨b, ?_, Rel.refl L hb, hb.listDoc⟩
    have := apply_root (.obj kvs) [.obj kvs] [b] (by simp) (by simp)
      (by simpa [single, Json.singleValue] using specEq_refl L ha)
    simpa [single, Json.singleValue] using this
  · -- scalars
    intro a b h1 h2 _ _ _ ha hb
    rw [diffNode_scalar o a b h1 h2]
    unfold diffCommon
    split
    · next he =>
      refine ⟨a, by simp [applyStrictAll], ?_, ha.listDoc⟩
      have e1 : specEq a b = true := by rw [specEq_eq_equals ha.listDoc hb.listDoc]; exact he
      exact ⟨e1, by rw [specEq_symm L hb ha]; exact e1⟩
    · refine ⟨b, ?_, Rel.refl L hb, hb.listDoc⟩
      simp only [Bool.false_eq_true, if_false]
      have := apply_root a a.nodeList b.nodeList
        (by simp only [Json.nodeList]; split <;> simp)
        (by simp only [Json.nodeList]; split <;> simp)
        (by rw [single_nodeList]; exact specEq_refl L ha)
      rw [this, single_nodeList]
  · -- no member left
    intro kvs' _ _ _ _ _ cur hs _
    exact ⟨cur, by simp [diffKvs_nil, applyStrictAll], hs, fun _ _ => rfl, fun _ _ h => by cases h⟩
  · -- one member of the source
    intro kvs' k v r hl' hv _ ihN ihK hS hT ha hb hsk cur hs hcur
    have ha' := goodK_cons.1 ha
    have hS' := sub_kvs_cons hS
    have hsk' := keysSorted_cons_iff.1 hsk
    have hx : alookup k cur = (if v.isVoid then none else some v) := by
      rw [hcur k v List.mem_cons_self, ha'.1.2]; rfl
    have hknr : ∀ w, (k, w) ∉ r := fun w hm => String.lt_irrefl k (hsk'.1 k w hm)
    -- the hunks for this member are hunks on the member, moved below the key
    have step : ∀ (D0 : Diff) (r0 : Json), applyStrictAll v D0 = some r0 →
        ((r0 = .void ∧ alookup k kvs' = none) ∨
          ∃ v', alookup k kvs' = some v' ∧ Rel r0 v' ∧ r0.listDoc = true) →
        ∃ cur', applyStrictAll (.obj cur) (D0.map (shiftHunk [.key k]) ++ diffKvs o false [] kvs' r) =
            some (.obj cur') ∧ keysSorted cur' = true ∧
          (∀ k0, (∀ v_1, (k0, v_1) ∉ (k, v) :: r) → alookup k0 cur' = alookup k0 cur) ∧
          (∀ k_1 v_1, (k_1, v_1) ∈ (k, v) :: r → match alookup k_1 kvs' with
            | none => alookup k_1 cur' = none
            | some v' => ∃ z, alookup k_1 cur' = some z ∧ Rel z v' ∧ z.listDoc = true) := by
      intro D0 r0 hr0 hres
      obtain ⟨cur1, g1, g2, g3, g4⟩ := applyStrictAll_key_frame' D0 k cur v hs hx r0 hr0
      obtain ⟨cur', f1, f2, f3, f4⟩ := ihK hS'.2 hT ha'.2 hb hsk'.2 cur1 g2 (fun k1 v1 hm => by
        have hne : k1 ≠ k := fun e => String.lt_irrefl k (e ▸ hsk'.1 k1 v1 hm)
        rw [g3 k1 hne]
        exact hcur k1 v1 (List.mem_cons_of_mem _ hm))
      refine ⟨cur', ?_, f2, ?_, ?_⟩
      · rw [applyStrictAll_append, g1]
        exact f1
      · intro k0 hk0
        have hne : k0 ≠ k := fun e => hk0 v (e ▸ List.mem_cons_self)
        rw [f3 k0 (fun w hm => hk0 w (List.mem_cons_of_mem _ hm)), g3 k0 hne]
      · intro k1 v1 hm
        rcases List.mem_cons.1 hm with e | hm
        · cases e
          rw [f3 k hknr, g4]
          rcases hres with ⟨rfl, hlk⟩ | ⟨v', hlk, hres, hld⟩
          · rw [hlk]; rfl
          · rw [hlk]
            have hnv : r0.isVoid = false := by rw [hres.isVoid_eq]; exact (hb.lookup hlk).2
            exact ⟨r0, by rw [hnv]; rfl, hres, hld⟩
        · exact f4 k1 v1 hm
    rw [diffKvs_cons]
    cases hlk : alookup k kvs' with
    | some v' =>
      obtain ⟨r0, h1, h2, h2'⟩ := ihN v' (alookup_listDoc hlk hl') hS'.1 (sub_lookup hT hlk) ha'.1.1
        (hb.lookup hlk).1
      simp only []
      rw [diffNode_at o ho v v' hv (alookup_listDoc hlk hl')]
      exact step _ r0 h1 (.inr ⟨v', hlk, h2, h2'⟩)
    | none =>
      simp only []
      have h1 : applyStrictAll v [{ path := [], remove := v.nodeList }] = some .void := by
        have := apply_root v v.nodeList [] (by simp only [Json.nodeList]; split <;> simp)
          (by simp) (by rw [single_nodeList]; exact specEq_refl L ha'.1.1)
        simpa [single, Json.singleValue] using this
      have := step _ .void h1 (.inl ⟨rfl, hlk⟩)
      simpa [shiftHunk] using this
  · -- end of a
    intro k s prev c R A b _ t pre hlen hk hp hR _ hb _ _ _
    subst hlen
    rw [diffRest_nilA]
    obtain ⟨t', ht', h⟩ := apply_accHunk L t pre R (A ++ b) [] prev .void hR hp AfterOK.nil
    refine ⟨t', b, ht', ?_, RelL.refl L hb, hb.listDoc⟩
    simpa [List.append_assoc] using h
  · -- end of b
    intro k s prev c R A a hne _ t pre hlen hk hp hR ha _ _ _ _
    subst hlen
    rw [diffRest_nilB _ _ _ _ _ _ _ _ _ hne]
    obtain ⟨t', ht', h⟩ := apply_accHunk L t pre (R ++ a) A [] prev .void (hR.append ha) hp AfterOK.nil
    refine ⟨t', [], ht', ?_, .nil, rfl⟩
    simpa [List.append_assoc] using h
  · -- both cursors at the next common element
    intro k s prev c R A x a' y b' _ _ hA hB ih t pre hlen hk hp hR ha hb hS hT hopt
    subst hlen
    rw [goodL_cons] at ha hb
    rw [diffRest_cons]
    simp only [hA, hB, Bool.and_self, if_true]
    have hh := atC_both_hash hA hB
    have hxy : Rel x y := N.hash x ((sub_cons hS).1 x (self_mem_subterms x)) y
      ((sub_cons hT).1 y (self_mem_subterms y)) hh
    have hopt' : LOpt c.tail (hashList o a') (hashList o b') := by
      rw [hashList_cons, hashList_cons, ← hh, atC_true hA] at hopt
      exact hopt.both
    obtain ⟨t1, ht1, h1⟩ := apply_accHunk L t pre R A (x :: a') prev x hR hp
      (AfterOK.cons x a' x (specEq_refl L ha.1))
    obtain ⟨t', zs, ht', h2, hrel, hld⟩ := ih t1 (pre ++ A ++ [x]) (by simp; omega) rfl
      (PrevOK.concat _ x y hxy.2) GoodL.nil ha.2 hb.2 (sub_cons hS).2 (sub_cons hT).2 hopt'
    refine ⟨t', x :: zs, by rcases ht' with rfl | rfl <;> simp [ht1], ?_, .cons hxy hrel,
      by simp [listDocList, ha.1.listDoc, hld]⟩
    rw [applyStrictAll_append, h1]
    simp only [Option.bind_some]
    simpa [List.append_assoc] using h2
  · -- a at the common element: add from b
    intro k s prev c R A x a' y b' _ _ hA hB ih t pre hlen hk hp hR ha hb hS hT hopt
    rw [goodL_cons] at hb
    rw [diffRest_cons]
    simp only [hA, hB, Bool.and_false, Bool.false_eq_true, if_false, if_true]
    rw [hashList_cons o y] at hopt
    obtain ⟨t', zs, ht', h2, hrel, hld⟩ := ih t pre hlen (by simp; omega) hp hR ha hb.2 hS
      (sub_cons hT).2 (hopt.skipB (atC_false hB))
    refine ⟨t', y :: zs, ht', ?_, .cons (Rel.refl L hb.1) hrel,
      by simp [listDocList, hb.1.listDoc, hld]⟩
    simpa [List.append_assoc] using h2
  · -- b at the common element: remove from a
    intro k s prev c R A x a' y b' _ _ hA hB ih t pre hlen hk hp hR ha hb hS hT hopt
    have ha' := goodL_cons.1 ha
    rw [diffRest_cons]
    simp only [hA, hB, Bool.false_and, Bool.false_eq_true, if_false, if_true]
    rw [hashList_cons o x] at hopt
    obtain ⟨t', zs, ht', h2, hrel, hld⟩ := ih t pre hlen hk hp
      (hR.append (goodL_cons.2 ⟨ha'.1, GoodL.nil⟩)) ha'.2 hb (sub_cons hS).2 hT
      (hopt.skipA (atC_false hA))
    refine ⟨t', zs, ht', ?_, hrel, hld⟩
    simpa [List.append_assoc] using h2
  · -- compatible containers: the accumulated hunk, the sub-diff below the index, the rest
    intro k s prev c R A x a' y b' hl hl' hA hB hs ihN ihR t pre hlen hk hp hR ha hb hS hT hopt
    subst hlen
    have ha' := goodL_cons.1 ha
    have hb' := goodL_cons.1 hb
    simp only [listDocList, Bool.and_eq_true] at hl hl'
    have hS' := sub_cons hS
    have hT' := sub_cons hT
    rw [hashList_cons o x, hashList_cons o y] at hopt
    -- the hash codes differ (the common sequence is a longest one), so the sub-diff is not empty
    have hne : hashCode o x ≠ hashCode o y := by
      intro e
      rw [← e] at hopt
      exact hopt.heads_ne (atC_false hA)
    have hD0 : diffNode o false x y [] ≠ [] := fun e =>
      hne ((diff_empty_hash o ho N).1 x y hl.1 hl'.1 hS'.1 hT'.1 ha'.1 hb'.1 [] e)
    obtain ⟨r, hr, hrel0, hldr⟩ := ihN hS'.1 hT'.1 ha'.1 hb'.1
    have hnv := sameContainerType_notVoid hs
    have hframe := (diff_frameOK o ho).1 x y hl.1 hl'.1 hnv.1 hnv.2
    rw [diffRest_cons]
    simp only [hA, hB, hs, Bool.false_and, Bool.false_eq_true, if_false, if_true]
    rw [diffNode_at o ho x y hl.1 hl'.1]
    have hemp : (List.map (shiftHunk [PathElem.idx (k : Int)]) (diffNode o false x y [])).isEmpty
        = false := by
      rw [List.isEmpty_map]
      cases hd : diffNode o false x y [] with
      | nil => exact absurd hd hD0
      | cons _ _ => rfl
    simp only [hemp, Bool.false_eq_true, if_false]
    obtain ⟨t1, ht1, h1⟩ := apply_accHunk L t pre R A (x :: a') prev x hR hp
      (AfterOK.cons x a' x (specEq_refl L ha'.1))
    have hnext : AfterOK ((pre ++ A ++ x :: a').drop (k + 1)) (a'.headD .void) := by
      have e : (pre ++ A ++ x :: a').drop (k + 1) = a' := by
        have e1 : pre ++ A ++ x :: a' = (pre ++ A ++ [x]) ++ a' := by simp
        rw [e1, List.drop_left' (by simp [hk]; omega)]
      rw [e]
      cases a' with
      | nil => exact AfterOK.nil
      | cons z a'' => exact AfterOK.cons z a'' z (specEq_refl L (goodL_cons.1 ha'.2).1)
    obtain ⟨t2, ht2, h2⟩ := applyStrictAll_idx_frame_subAfter _ hframe t1 (pre ++ A ++ x :: a') k x
      (by rw [hk, ← List.length_append]; exact getElem?_mid _ _ _) r hr
      (R.isEmpty && A.isEmpty) (a'.headD .void) hnext
    have hset : (pre ++ A ++ x :: a').set k r = pre ++ A ++ r :: a' := by
      rw [hk, ← List.length_append]; exact set_mid _ _ _ _
    rw [hset] at h2
    obtain ⟨t', zs, ht', h3, hrel, hld⟩ := ihR t2 (pre ++ A ++ [r]) (by simp; omega) rfl
      (PrevOK.concat _ r y hrel0.2) GoodL.nil ha'.2 hb'.2 hS'.2 hT'.2
      ((hopt.skipA (atC_false hA)).skipB (atC_false hB))
    refine ⟨t', r :: zs, ?_, ?_, .cons hrel0 hrel, by simp [listDocList, hldr, hld]⟩
    · rcases ht' with rfl | rfl <;> rcases ht2 with rfl | rfl <;> rcases ht1 with rfl | rfl <;> simp
    · rw [applyStrictAll_append, applyStrictAll_append, h1]
      simp only [Option.bind_some]
      rw [h2]
      simp only [Option.bind_some]
      simpa [List.append_assoc] using h3
  · -- different elements
    intro k s prev c R A x a' y b' _ _ hA hB hs ih t pre hlen hk hp hR ha hb hS hT hopt
    have ha' := goodL_cons.1 ha
    have hb' := goodL_cons.1 hb
    rw [diffRest_cons]
    simp only [hA, hB, hs, Bool.false_and, Bool.false_eq_true, if_false]
    rw [hashList_cons o x, hashList_cons o y] at hopt
    obtain ⟨t', zs, ht', h2, hrel, hld⟩ := ih t pre hlen (by simp; omega) hp
      (hR.append (goodL_cons.2 ⟨ha'.1, GoodL.nil⟩)) ha'.2 hb'.2 (sub_cons hS).2 (sub_cons hT).2
      ((hopt.skipA (atC_false hA)).skipB (atC_false hB))
    refine ⟨t', y :: zs, ht', ?_, .cons (Rel.refl L hb'.1) hrel,
      by simp [listDocList, hb'.1.listDoc, hld]⟩
    simpa [List.append_assoc] using h2




/-! ## 11. the theorem -/

mutual
theorem good_subterms : ∀ (a : Json), Good a → ∀ x, x ∈ (subterms a) → Good x
  | .arr t xs, h, x, hx => by
    simp only [subterms, List.mem_cons] at hx
    rcases hx with rfl | hx
    · exact h
    · exact goodL_subterms xs (good_arr.1 h).2 x hx
  | .obj kvs, h, x, hx => by
    simp only [subterms, List.mem_cons] at hx
    rcases hx with rfl | hx
    · exact h
    · exact goodK_subterms kvs (good_obj.1 h).2 x hx
  | .void, h, x, hx => by simp only [subterms, List.mem_singleton] at hx; exact hx ▸ h
  | .null, h, x, hx => by simp only [subterms, List.mem_singleton] at hx; exact hx ▸ h
  | .bool _, h, x, hx => by simp only [subterms, List.mem_singleton] at hx; exact hx ▸ h
  | .num _, h, x, hx => by simp only [subterms, List.mem_singleton] at hx; exact hx ▸ h
  | .str _, h, x, hx => by simp only [subterms, List.mem_singleton] at hx; exact hx ▸ h
theorem goodL_subterms : ∀ (xs : List Json), GoodL xs → ∀ x, x ∈ subtermsList xs → Good x
  | [], _, x, hx => by simp [subtermsList] at hx
  | y :: r, h, x, hx => by
    simp only [subtermsList, List.mem_append] at hx
    rcases hx with hx | hx
    · exact good_subterms y (goodL_cons.1 h).1 x hx
    · exact goodL_subterms r (goodL_cons.1 h).2 x hx
theorem goodK_subterms : ∀ (kvs : List (String × Json)), GoodK kvs → ∀ x, x ∈ subtermsKvs kvs → Good x
  | [], _, x, hx => by simp [subtermsKvs] at hx
  | (k, v) :: r, h, x, hx => by
    simp only [subtermsKvs, List.mem_append] at hx
    rcases hx with hx | hx
    · exact good_subterms v (goodK_cons.1 h).1.1 x hx
    · exact goodK_subterms r (goodK_cons.1 h).2 x hx
end

/-- **No hash collision** between the source and the target: a sub-term of `a` and a sub-term of
    `b` with the same hash code are structurally equal. (List elements are matched by hash code; in
    list mode the hash code does not depend on the options.) For documents of the domain this
    says exactly that FNV-1a does not collide on the pairs (sub-term of `a`, sub-term of `b`). -/
def HashOK (o : Opts) (a b : Json) : Prop :=
  ∀ x, x ∈ (subterms a) → ∀ y, y ∈ (subterms b) → hashCode o x = hashCode o y → specEq x y = true

/-- **No signed-zero pair**: a number of `a` and a number of `b` that are equal as floats have the
    same bit pattern. Needed because scalars are compared with `Equals` while list elements are
    matched by the hash code of the bits: `{"a":0}` against `{"a":-0}` gives an EMPTY sub-diff for
    two list elements with different hash codes, and `diffRest` then records the wrong
    after-context for the enclosing list hunk (see `Example.cexA` below: the diff does not apply). -/
def ZeroOK (a b : Json) : Prop :=
  ∀ u v, Json.num u ∈ (subterms a) → Json.num v ∈ (subterms b) → numWithin 0 u v = true → u = v

/-- **C01, list mode, strict strategy.** For documents of the domain (list documents, sorted
    unique keys, finite numbers, no void member) without hash collision and without `0` / `-0`
    pair, the hunks of `a.Diff(b)` apply in sequence to `a` under the reference semantics of hunks
    (`Jd.Spec.applyStrictAll`: paths, removed values and before / after contexts all checked), and
    the result `r` is structurally equal to `b` (`specEq` = `equivB []`: ordered lists, exact
    numbers), read from either side; it is a list document, and it is equal to `b` for the
    library's `Equals` with the options `o` (under `PrecMono o` when `o` has a precision). -/
theorem diffM_list_correct (L : FloatLaws) (o : Opts) (ho : dispatchTag o = .list)
    (hm : isMerge o = false) (a b : Json)
    (ha1 : a.listDoc = true) (ha2 : a.wf = true) (ha3 : a.finiteNums = true) (ha4 : (memOK a) = true)
    (hb1 : b.listDoc = true) (hb2 : b.wf = true) (hb3 : b.finiteNums = true) (hb4 : (memOK b) = true)
    (H : HashOK o a b) (Z : ZeroOK a b) :
    ∃ r, applyStrictAll a (diffM o a b) = some r ∧ specEq r b = true ∧ specEq b r = true ∧
      r.listDoc = true ∧ (PrecMono o → equivB o r b = true ∧ equals o r b = true) := by
  have ha : Good a := ⟨ha1, ha2, ha3, ha4⟩
  have hb : Good b := ⟨hb1, hb2, hb3, hb4⟩
  have N : NoCollision o (subterms a) (subterms b) :=
    ⟨fun x hx y hy h => by
      have e := H x hx y hy h
      exact ⟨e, by rw [specEq_symm L (good_subterms b hb y hy) (good_subterms a ha x hx)]; exact e⟩,
     Z⟩
  obtain ⟨r, h, hr, hld⟩ := (diff_correct L o ho N).1 a b ha1 hb1 (fun _ h => h) (fun _ h => h) ha hb
  refine ⟨r, ?_, hr.1, hr.2, hld, fun hp => ?_⟩
  · unfold diffM
    rw [hm]
    exact h
  · have e := equivB_mono o ho hp r b hr.1
    exact ⟨e, by rw [equals_eq_equivB_list o ho r b hld hb1]; exact e⟩

/-- the same without a precision option: the patched document `Equals` the target -/
theorem diffM_list_correct_noPrecision (L : FloatLaws) (o : Opts) (ho : dispatchTag o = .list)
    (hm : isMerge o = false) (hp : precOf o = 0) (a b : Json)
    (ha1 : a.listDoc = true) (ha2 : a.wf = true) (ha3 : a.finiteNums = true) (ha4 : (memOK a) = true)
    (hb1 : b.listDoc = true) (hb2 : b.wf = true) (hb3 : b.finiteNums = true) (hb4 : (memOK b) = true)
    (H : HashOK o a b) (Z : ZeroOK a b) :
    ∃ r, applyStrictAll a (diffM o a b) = some r ∧ equivB o r b = true ∧ equals o r b = true := by
  obtain ⟨r, h1, _, _, _, h2⟩ :=
    diffM_list_correct L o ho hm a b ha1 ha2 ha3 ha4 hb1 hb2 hb3 hb4 H Z
  exact ⟨r, h1, h2 (PrecMono.of_noPrecision hp)⟩

/-! ## 12. non-vacuity, and the former counterexample behind `ZeroOK` -/

namespace Example

def one : Json := .num 0x3FF0000000000000
/-- `[true, 1, [1], null]` -/
def exA : Json := .arr .raw [.bool true, one, .arr .raw [one], .null]
/-- `[false, 1, [1, 1], null, null]` -/
def exB : Json := .arr .raw [.bool false, one, .arr .raw [one, one], .null, .null]

-- three hunks: one at `[0]`, one inside the nested list at `[2, 1]`, one at `[4]`
#eval (diffM [] exA exB).map (·.path)

set_option maxRecDepth 8000 in
/-- the hypotheses of `diffM_list_correct` hold for this pair (given the float laws) -/
theorem hyps (L : FloatLaws) :
    exA.listDoc = true ∧ exA.wf = true ∧ exA.finiteNums = true ∧ (memOK exA) = true ∧
    exB.listDoc = true ∧ exB.wf = true ∧ exB.finiteNums = true ∧ (memOK exB) = true ∧
    HashOK [] exA exB ∧ ZeroOK exA exB := by
  refine ⟨by decide, by decide, by decide, by decide, by decide, by decide, by decide, by decide,
    ?_, ?_⟩
  · intro x hx y hy h
    simp [exA, exB, one, subterms, subtermsList] at hx hy
    have g1 : Good one := ⟨by decide, by decide, by decide, by decide⟩
    have g2 : Good Json.null := ⟨by decide, by decide, by decide, by decide⟩
    rcases hx with rfl | rfl | rfl | rfl | rfl | rfl <;>
      rcases hy with rfl | rfl | rfl | rfl | rfl | rfl <;>
      first
        | exact absurd h (by decide)
        | exact specEq_refl L g1
        | exact specEq_refl L g2
  · intro u v hu hv _
    simp only [exA, exB, subterms, subtermsList, List.cons_append, List.nil_append,
      List.append_nil, List.mem_cons, List.not_mem_nil, or_false, one] at hu hv
    simp at hu hv
    rw [hu, hv]

example (L : FloatLaws) :
    ∃ r, applyStrictAll exA (diffM [] exA exB) = some r ∧ specEq r exB = true := by
  obtain ⟨h1, h2, h3, h4, h5, h6, h7, h8, h9, h10⟩ := hyps L
  obtain ⟨r, hr, e, _⟩ := diffM_list_correct L [] rfl rfl exA exB h1 h2 h3 h4 h5 h6 h7 h8 h9 h10
  exact ⟨r, hr, e⟩


/-! ### why `ZeroOK` was introduced: a pair on which `a.Diff(b)` did NOT apply to `a`

`a = [1, {"a": 0}]`, `b = [2, {"a": -0}]` (all other hypotheses hold; checked by `decide` below).
BEFORE THE REPAIR of the hash (it was taken over the bits of the numbers) the two objects had
different hash codes so they were not a common element, they are compatible containers, and their
sub-diff is EMPTY because scalars are compared with `Equals` (`0 == -0` as floats). `diffRest` then
took the after-context of the accumulated hunk `- 1 + 2` from the position AFTER the object
(`after()` is evaluated once more after the cursor has advanced, because `len(d) < 2`), here the end
of the array, while the element that follows the removed `1` in the document is the object: the
context check failed. The unrepaired Go library (v2, `a.Patch(a.Diff(b))`) answered
`invalid patch. expected {} after. got map[a:0]` on this input.
AFTER THE REPAIR (`hashCode o (.num bits)` maps `-0` to `0`, JdModel.Hash) the two objects have the
same hash code, are a common element, and the diff applies; the model shows it: -/

def pz : Json := .num 0
def nz : Json := .num 0x8000000000000000
def cexA : Json := .arr .raw [one, .obj [("a", pz)]]
def cexB : Json := .arr .raw [.num 0x4000000000000000, .obj [("a", nz)]]

-- one hunk `@ [0]  [ -1 +2 ]` whose after-context is now the object `{"a":0}`
#eval diffM [] cexA cexB
-- `some [2, {"a":0}]`: the hunk is accepted (it was `none` before the repair)
#eval applyStrictAll cexA (diffM [] cexA cexB)
-- `true`: `0` and `-0` are equal as floats, which is what `ZeroOK` excludes
#eval numWithin 0 0 0x8000000000000000

example : cexA.listDoc = true ∧ cexA.wf = true ∧ cexA.finiteNums = true ∧ (memOK cexA) = true ∧
    cexB.listDoc = true ∧ cexB.wf = true ∧ cexB.finiteNums = true ∧ (memOK cexB) = true := by
  decide

end Example

/-! ### axioms -/

#print axioms diffM_list_correct_scalar_arrays
#print axioms diff_correct
#print axioms diffM_list_correct
#print axioms diffM_list_correct_noPrecision
#print axioms Example.hyps

end Jd.DPL
