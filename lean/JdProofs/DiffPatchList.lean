/-
  JdProofs.DiffPatchList — property C01 in LIST mode, strict strategy:
  applying `a.Diff(b)` to `a` (reference interpreter `Jd.Spec.applyStrictAll`) yields a document
  structurally equal to `b`.
-/
import JdModel
import JdSpec
import JdProofs.EqualsList
import JdProofs.LcsProofs

namespace Jd
open Jd.Spec

/-! ## 0. unfolding equations of the diff functions in list mode, strict strategy -/

/-- "the cursor element is the next element of the common sequence" (`atCommonA` / `atCommonB`) -/
def atC (o : Opts) (x : Json) (c : List UInt64) : Bool :=
  match c with | [] => false | z :: _ => hashCode o x == z

theorem diffRest_nil_nil (o : Opts) (p : Path) (k s : Nat) (prev : Json) (c : List UInt64) :
    diffRest o p k s prev [] [] c [] [] = [] := by
  rw [diffRest.eq_def]; simp [accHunk]

theorem diffRest_nilA (o : Opts) (p : Path) (k s : Nat) (prev : Json) (b : List Json) (c : List UInt64)
    (R A : List Json) :
    diffRest o p k s prev [] b c R A = accHunk p s prev R (A ++ b) .void := by
  rw [diffRest.eq_def]

theorem diffRest_nilB (o : Opts) (p : Path) (k s : Nat) (prev : Json) (a : List Json) (c : List UInt64)
    (R A : List Json) (ha : a ≠ []) :
    diffRest o p k s prev a [] c R A = accHunk p s prev (R ++ a) A .void := by
  rw [diffRest.eq_def]
  cases a with
  | nil => exact absurd rfl ha
  | cons x a' => rfl

theorem diffRest_cons (o : Opts) (p : Path) (k s : Nat) (prev x y : Json) (a' b' : List Json)
    (c : List UInt64) (R A : List Json) :
    diffRest o p k s prev (x :: a') (y :: b') c R A =
      if atC o x c && atC o y c then
        accHunk p s prev R A x ++ diffRest o p (k + 1) (k + 1) y a' b' c.tail [] []
      else if atC o x c then diffRest o p (k + 1) s prev (x :: a') b' c R (A ++ [y])
      else if atC o y c then diffRest o p k s prev a' (y :: b') c (R ++ [x]) A
      else if sameContainerType o x y then
        accHunk p s prev R A
            (if (diffNode o false x y (p ++ [.idx k])).isEmpty then a'.headD .void else x) ++
          diffNode o false x y (p ++ [.idx k]) ++
          diffRest o p (k + 1) (k + 1) y a' b' c [] []
      else diffRest o p (k + 1) s prev a' b' c (R ++ [x]) (A ++ [y]) := by
  rw [diffRest.eq_def]
  simp only [atC]
  have h0 : ∀ c', (if (a'.isEmpty && b'.isEmpty) = true then ([] : Diff)
      else diffRest o p (k + 1) (k + 1) y a' b' c' [] []) =
      diffRest o p (k + 1) (k + 1) y a' b' c' [] [] := by
    intro c'
    split
    · next h =>
      simp only [Bool.and_eq_true, List.isEmpty_iff] at h
      obtain ⟨rfl, rfl⟩ := h
      rw [diffRest_nil_nil]
    · rfl
  simp only [h0]
  rfl

theorem diffNode_arr_arr {o : Opts} (ho : dispatchTag o = .list) {t t' : Tag} (xs ys : List Json)
    (ht : (t == .raw || t == .list) = true) (ht' : (t' == .raw || t' == .list) = true)
    (htt : t = .raw ∨ t' = .list) (p : Path) :
    diffNode o false (.arr t xs) (.arr t' ys) p =
      diffRest o p 0 0 .void xs ys (lcsValues (hashList o xs) (hashList o ys)) [] [] := by
  rw [diffNode.eq_def]
  cases t <;> cases t' <;> simp_all [effTag, Json.dispatch]

/-- a list against a non-array, or a typed `jsonList` against a plain `jsonArray`: one hunk
    replacing the whole value -/
theorem diffNode_arr_other {o : Opts} (ho : dispatchTag o = .list) {t : Tag} (xs : List Json) (b : Json)
    (ht : (t == .raw || t == .list) = true)
    (hb : (∀ t' ys, b ≠ .arr t' ys) ∨ (t = .list ∧ ∃ ys, b = .arr .raw ys)) (p : Path) :
    diffNode o false (.arr t xs) b p =
      [{ path := p, remove := [Json.arr .list xs], add := b.nodeList }] := by
  rw [diffNode.eq_def]
  rcases hb with hb | ⟨rfl, ys, rfl⟩
  · cases t <;> cases b <;> simp_all [effTag, Json.dispatch, Json.nodeList, Json.isVoid]
  · simp [effTag, Json.nodeList, Json.isVoid]

theorem diffNode_obj_obj (o : Opts) (kvs kvs' : List (String × Json)) (p : Path) :
    diffNode o false (.obj kvs) (.obj kvs') p =
      diffKvs o false p kvs' kvs ++
        (kvs'.filter (fun kv => (alookup kv.1 kvs).isNone)).map (fun kv =>
          { merge := false, path := p ++ [.key kv.1], add := kv.2.nodeList }) := by
  rw [diffNode.eq_def]

theorem diffNode_obj_other (o : Opts) (kvs : List (String × Json)) (b : Json)
    (hb : ∀ kvs', b ≠ .obj kvs') (p : Path) :
    diffNode o false (.obj kvs) b p = [{ path := p, remove := [Json.obj kvs], add := [b] }] := by
  rw [diffNode.eq_def]
  cases b <;> simp_all

theorem diffNode_scalar (o : Opts) (a b : Json) (ha : ∀ t xs, a ≠ .arr t xs) (ha' : ∀ kvs, a ≠ .obj kvs)
    (p : Path) : diffNode o false a b p = diffCommon false a b p := by
  rw [diffNode.eq_def]
  cases a <;> simp_all

theorem diffKvs_nil (o : Opts) (p : Path) (kvs' : List (String × Json)) :
    diffKvs o false p kvs' [] = [] := by
  rw [diffKvs.eq_def]

theorem diffKvs_cons (o : Opts) (p : Path) (kvs' : List (String × Json)) (k : String) (v : Json)
    (r : List (String × Json)) :
    diffKvs o false p kvs' ((k, v) :: r) =
      (match alookup k kvs' with
       | some v' => diffNode o false v v' (p ++ [.key k])
       | none => [{ path := p ++ [.key k], remove := v.nodeList }]) ++ diffKvs o false p kvs' r := by
  rw [diffKvs.eq_def]
  simp only [Bool.false_eq_true, if_false]
  rfl

theorem effTag_absurd_set {o : Opts} (ho : dispatchTag o = .list) {t : Tag} {xs : List Json}
    (hl : (Json.arr t xs).listDoc = true) (h : effTag o t = .set) : False := by
  simp only [Json.listDoc, Bool.and_eq_true] at hl
  rw [effTag_list ho hl.1] at h; cases h

theorem effTag_absurd_mset {o : Opts} (ho : dispatchTag o = .list) {t : Tag} {xs : List Json}
    (hl : (Json.arr t xs).listDoc = true) (h : effTag o t = .mset) : False := by
  simp only [Json.listDoc, Bool.and_eq_true] at hl
  rw [effTag_list ho hl.1] at h; cases h

theorem atC_split (o : Opts) (x : Json) (c : List UInt64) :
    (match c with | [] => false | z :: _ => hashCode o x == z) = atC o x c := rfl

theorem bprime_list {o : Opts} (ho : dispatchTag o = .list) {t t' : Tag} {ys ys' : List Json}
    (ht : (t == .raw || t == .list) = true) (ht' : (t' == .raw || t' == .list) = true)
    (h : (if (t == Tag.raw) = true then Json.dispatch o (.arr t' ys') else .arr t' ys') = .arr .list ys) :
    ys' = ys ∧ (t = .raw ∨ t' = .list) := by
  cases t <;> cases t' <;> simp_all [Json.dispatch]

theorem bprime_not_list {o : Opts} (ho : dispatchTag o = .list) {t t' : Tag} {ys' : List Json}
    (ht : (t == .raw || t == .list) = true) (ht' : (t' == .raw || t' == .list) = true)
    (h : ∀ ys, (if (t == Tag.raw) = true then Json.dispatch o (.arr t' ys') else .arr t' ys') = .arr .list ys → False) :
    t = .list ∧ t' = .raw := by
  cases t <;> cases t' <;> simp_all [Json.dispatch]

/-- induction principle of the `diffNode` / `diffKvs` / `diffRest` recursion specialised to list
    mode, strict strategy, list documents: only the reachable branches remain -/
theorem listDiff_induct (o : Opts) (ho : dispatchTag o = .list)
    (mN : Json → Json → Prop) (mK : List (String × Json) → List (String × Json) → Prop)
    (mR : Nat → Nat → Json → List Json → List Json → List UInt64 → List Json → List Json → Prop)
    (arr_arr : ∀ t t' xs ys, (t == .raw || t == .list) = true → (t' == .raw || t' == .list) = true →
      (t = .raw ∨ t' = .list) → listDocList xs = true → listDocList ys = true →
      mR 0 0 .void xs ys (lcsValues (hashList o xs) (hashList o ys)) [] [] →
      mN (.arr t xs) (.arr t' ys))
    (arr_other : ∀ t xs b, (t == .raw || t == .list) = true → listDocList xs = true →
      b.listDoc = true → ((∀ t' ys, b ≠ .arr t' ys) ∨ (t = .list ∧ ∃ ys, b = .arr .raw ys)) →
      mN (.arr t xs) b)
    (obj_obj : ∀ kvs kvs', listDocKvs kvs = true → listDocKvs kvs' = true → mK kvs' kvs →
      mN (.obj kvs) (.obj kvs'))
    (obj_other : ∀ kvs b, listDocKvs kvs = true → b.listDoc = true → (∀ kvs', b ≠ .obj kvs') →
      mN (.obj kvs) b)
    (scalar : ∀ a b, (∀ t xs, a ≠ .arr t xs) → (∀ kvs, a ≠ .obj kvs) → b.listDoc = true → mN a b)
    (kvs_nil : ∀ kvs', mK kvs' [])
    (kvs_cons : ∀ kvs' k v r, listDocKvs kvs' = true → v.listDoc = true → listDocKvs r = true →
      (∀ v', v'.listDoc = true → mN v v') → mK kvs' r → mK kvs' ((k, v) :: r))
    (r_nilA : ∀ k s prev c R A b, listDocList b = true → mR k s prev [] b c R A)
    (r_nilB : ∀ k s prev c R A a, a ≠ [] → listDocList a = true → mR k s prev a [] c R A)
    (r_both : ∀ k s prev c R A x a' y b', listDocList (x :: a') = true → listDocList (y :: b') = true →
      atC o x c = true → atC o y c = true → mR (k + 1) (k + 1) y a' b' c.tail [] [] →
      mR k s prev (x :: a') (y :: b') c R A)
    (r_A : ∀ k s prev c R A x a' y b', listDocList (x :: a') = true → listDocList (y :: b') = true →
      atC o x c = true → atC o y c = false → mR (k + 1) s prev (x :: a') b' c R (A ++ [y]) →
      mR k s prev (x :: a') (y :: b') c R A)
    (r_B : ∀ k s prev c R A x a' y b', listDocList (x :: a') = true → listDocList (y :: b') = true →
      atC o x c = false → atC o y c = true → mR k s prev a' (y :: b') c (R ++ [x]) A →
      mR k s prev (x :: a') (y :: b') c R A)
    (r_sub : ∀ k s prev c R A x a' y b', listDocList (x :: a') = true → listDocList (y :: b') = true →
      atC o x c = false → atC o y c = false → sameContainerType o x y = true → mN x y →
      mR (k + 1) (k + 1) y a' b' c [] [] → mR k s prev (x :: a') (y :: b') c R A)
    (r_diff : ∀ k s prev c R A x a' y b', listDocList (x :: a') = true → listDocList (y :: b') = true →
      atC o x c = false → atC o y c = false → sameContainerType o x y = false →
      mR (k + 1) s prev a' b' c (R ++ [x]) (A ++ [y]) → mR k s prev (x :: a') (y :: b') c R A) :
    (∀ a b, a.listDoc = true → b.listDoc = true → mN a b) ∧
    (∀ kvs' kvs, listDocKvs kvs' = true → listDocKvs kvs = true → mK kvs' kvs) ∧
    (∀ k s prev a b c R A, listDocList a = true → listDocList b = true → mR k s prev a b c R A) := by
  have key := diffNode.mutual_induct o
    (motive1 := fun merge a b _ => merge = false → a.listDoc = true → b.listDoc = true → mN a b)
    (motive2 := fun merge _ kvs' kvs => merge = false → listDocKvs kvs' = true → listDocKvs kvs = true →
      mK kvs' kvs)
    (motive3 := fun _ k s prev a b c R A => listDocList a = true → listDocList b = true →
      mR k s prev a b c R A)
    (motive4 := fun _ _ _ _ => True)
  refine (fun h => ⟨fun a b => h.1 false a b [] rfl, fun kvs' kvs => h.2.1 false [] kvs' kvs rfl,
    fun k s prev a b c R A => h.2.2.1 [] k s prev a b c R A⟩) (key ?_ ?_ ?_ ?_ ?_ ?_ ?_ ?_ ?_ ?_ ?_ ?_ ?_ ?_ ?_ ?_ ?_ ?_ ?_ ?_ ?_ ?_ ?_ ?_ ?_ ?_ ?_ ?_ ?_ ?_ ?_ ?_)
  all_goals intros
  all_goals first
    | trivial
    | exact (effTag_absurd_set ho ‹(Json.arr _ _).listDoc = true› ‹effTag o _ = Tag.set›).elim
    | exact (effTag_absurd_mset ho ‹(Json.arr _ _).listDoc = true› ‹effTag o _ = Tag.mset›).elim
    | skip
  · -- list against list
    rename_i b p t xs b' ys hb' _ c _ _ ih _ hl hlb
    simp only [Json.listDoc, Bool.and_eq_true] at hl
    cases b with
    | arr t' ys' =>
      simp only [Json.listDoc, Bool.and_eq_true] at hlb
      have hys : ys' = ys ∧ (t = .raw ∨ t' = .list) := bprime_list ho hl.1 hlb.1 (by simpa [b'] using hb')
      obtain ⟨rfl, htt⟩ := hys
      exact arr_arr t t' xs ys' hl.1 hlb.1 htt hl.2 hlb.2 (ih hl.2 hlb.2)
    | _ => cases t <;> simp [b', Json.dispatch] at hb'
  · -- list against something else
    rename_i b p t xs b' _ _ _ hb' _ hl hlb
    simp only [Json.listDoc, Bool.and_eq_true] at hl
    refine arr_other t xs b hl.1 hl.2 hlb ?_
    cases b with
    | arr t' ys =>
      right
      simp only [Json.listDoc, Bool.and_eq_true] at hlb
      obtain ⟨rfl, rfl⟩ := bprime_not_list ho hl.1 hlb.1 (by simpa [b'] using hb')
      exact ⟨rfl, ys, rfl⟩
    | _ => left; intro t' ys h; cases h
  · rename_i kvs kvs' ih hm hl hl'
    simp only [Json.listDoc] at hl hl'
    exact obj_obj kvs kvs' hl hl' (ih hm hl' hl)
  · rename_i b p kvs _ hb _ hl hlb
    simp only [Json.listDoc] at hl
    exact obj_other kvs b hl hlb (fun kvs' h => hb kvs' h)
  · rename_i b p a h1 h2 _ _ hlb
    exact scalar a b (fun t xs h => h1 t xs h) (fun kvs h => h2 kvs h) hlb
  · exact kvs_nil _
  · rename_i kvs' k v r ih2 ih1 hm hl' hl
    simp only [listDocKvs, Bool.and_eq_true] at hl
    exact kvs_cons kvs' k v r hl' hl.1 hl.2 (fun v' hv' => ih2 v' hm hl.1 hv') (ih1 hm hl' hl.2)
  · exact r_nilA _ _ _ _ _ _ _ ‹_›
  · rename_i a hne hl _
    exact r_nilB _ _ _ _ _ _ a (fun h => hne h) hl
  · rename_i c R A x a' y b' atA atB h ih hl hl'
    simp only [Bool.and_eq_true] at h
    have hl2 := hl; have hl2' := hl'
    simp only [listDocList, Bool.and_eq_true] at hl2 hl2'
    exact r_both _ _ _ c _ _ x a' y b' hl hl' h.1 h.2 (ih hl2.2 hl2'.2)
  · rename_i c R A x a' y b' atA atB h hA ih hl hl'
    have hl2' := hl'
    simp only [listDocList, Bool.and_eq_true] at hl2'
    have hB : atC o y c = false := by
      cases hb : atC o y c with
      | false => rfl
      | true => exact absurd (show (atA && atB) = true by rw [Bool.and_eq_true]; exact ⟨hA, hb⟩) h
    exact r_A _ _ _ c _ _ x a' y b' hl hl' hA hB (ih hl hl2'.2)
  · rename_i c R A x a' y b' atA atB h hA hB ih hl hl'
    have hl2 := hl
    simp only [listDocList, Bool.and_eq_true] at hl2
    exact r_B _ _ _ c _ _ x a' y b' hl hl' (Bool.eq_false_iff.2 hA) hB (ih hl2.2 hl')
  · rename_i c R A x a' y b' atA atB h hA hB hs ih2 ih1 hl hl'
    have hl2 := hl; have hl2' := hl'
    simp only [listDocList, Bool.and_eq_true] at hl2 hl2'
    exact r_sub _ _ _ c _ _ x a' y b' hl hl' (Bool.eq_false_iff.2 hA) (Bool.eq_false_iff.2 hB) hs
      (ih2 rfl hl2.1 hl2'.1) (ih1 hl2.2 hl2'.2)
  · rename_i c R A x a' y b' atA atB h hA hB hs ih1 hl hl'
    have hl2 := hl; have hl2' := hl'
    simp only [listDocList, Bool.and_eq_true] at hl2 hl2'
    exact r_diff _ _ _ c _ _ x a' y b' hl hl' (Bool.eq_false_iff.2 hA) (Bool.eq_false_iff.2 hB)
      (Bool.eq_false_iff.2 hs) (ih1 hl2.2 hl2'.2)

/-! ## 1. the path argument is only a prefix -/

/-- prefix the path of a hunk -/
def Hunk.shift (p : Path) (h : Hunk) : Hunk := { h with path := p ++ h.path }

theorem accHunk_shift (p q : Path) (s : Nat) (prev : Json) (R A : List Json) (after : Json) :
    accHunk (p ++ q) s prev R A after = (accHunk q s prev R A after).map (Hunk.shift p) := by
  unfold accHunk
  split <;> simp [Hunk.shift]

theorem diffCommon_shift (p q : Path) (a b : Json) :
    diffCommon false a b (p ++ q) = (diffCommon false a b q).map (Hunk.shift p) := by
  unfold diffCommon
  split <;> simp [Hunk.shift]

theorem diff_shift (o : Opts) (ho : dispatchTag o = .list) :
    (∀ a b, a.listDoc = true → b.listDoc = true → ∀ p q,
      diffNode o false a b (p ++ q) = (diffNode o false a b q).map (Hunk.shift p)) ∧
    (∀ kvs' kvs, listDocKvs kvs' = true → listDocKvs kvs = true → ∀ p q,
      diffKvs o false (p ++ q) kvs' kvs = (diffKvs o false q kvs' kvs).map (Hunk.shift p)) ∧
    (∀ k s prev a b c R A, listDocList a = true → listDocList b = true → ∀ p q,
      diffRest o (p ++ q) k s prev a b c R A =
        (diffRest o q k s prev a b c R A).map (Hunk.shift p)) := by
  apply listDiff_induct o ho
    (mN := fun a b => ∀ p q,
      diffNode o false a b (p ++ q) = (diffNode o false a b q).map (Hunk.shift p))
    (mK := fun kvs' kvs => ∀ p q,
      diffKvs o false (p ++ q) kvs' kvs = (diffKvs o false q kvs' kvs).map (Hunk.shift p))
    (mR := fun k s prev a b c R A => ∀ p q,
      diffRest o (p ++ q) k s prev a b c R A =
        (diffRest o q k s prev a b c R A).map (Hunk.shift p))
  · intro t t' xs ys ht ht' htt _ _ ih p q
    rw [diffNode_arr_arr ho xs ys ht ht' htt, diffNode_arr_arr ho xs ys ht ht' htt, ih]
  · intro t xs b ht _ _ hb p q
    rw [diffNode_arr_other ho xs b ht hb, diffNode_arr_other ho xs b ht hb]
    simp [Hunk.shift]
  · intro kvs kvs' _ _ ih p q
    rw [diffNode_obj_obj, diffNode_obj_obj, ih]
    simp [Hunk.shift, List.map_map, Function.comp_def]
  · intro kvs b _ _ hb p q
    rw [diffNode_obj_other o kvs b hb, diffNode_obj_other o kvs b hb]
    simp [Hunk.shift]
  · intro a b h1 h2 _ p q
    rw [diffNode_scalar o a b h1 h2, diffNode_scalar o a b h1 h2, diffCommon_shift]
  · intro kvs' p q
    simp [diffKvs_nil]
  · intro kvs' k v r hl' _ _ ihN ihK p q
    rw [diffKvs_cons, diffKvs_cons, ihK, List.map_append]
    congr 1
    cases hlk : alookup k kvs' with
    | none => simp [Hunk.shift]
    | some v' =>
      simp only []
      rw [List.append_assoc, ihN v' (alookup_listDoc hlk hl')]
  · intro k s prev c R A b _ p q
    rw [diffRest_nilA, diffRest_nilA, accHunk_shift]
  · intro k s prev c R A a ha _ p q
    rw [diffRest_nilB _ _ _ _ _ _ _ _ _ ha, diffRest_nilB _ _ _ _ _ _ _ _ _ ha, accHunk_shift]
  · intro k s prev c R A x a' y b' _ _ hA hB ih p q
    rw [diffRest_cons, diffRest_cons]
    simp only [hA, hB, Bool.and_self, if_true, List.map_append, ih, accHunk_shift]
  · intro k s prev c R A x a' y b' _ _ hA hB ih p q
    rw [diffRest_cons, diffRest_cons]
    simp only [hA, hB, Bool.and_false, Bool.false_eq_true, if_false, if_true, ih]
  · intro k s prev c R A x a' y b' _ _ hA hB ih p q
    rw [diffRest_cons, diffRest_cons]
    simp only [hA, hB, Bool.false_and, Bool.false_eq_true, if_false, if_true, ih]
  · intro k s prev c R A x a' y b' _ _ hA hB hs ihN ihR p q
    rw [diffRest_cons, diffRest_cons]
    simp only [hA, hB, hs, Bool.false_and, Bool.false_eq_true, if_false, if_true, ihR,
      List.map_append, accHunk_shift, List.append_assoc, ihN, List.isEmpty_map]
  · intro k s prev c R A x a' y b' _ _ hA hB hs ih p q
    rw [diffRest_cons, diffRest_cons]
    simp only [hA, hB, hs, Bool.false_and, Bool.false_eq_true, if_false, ih]



/-! ## 2. the domain: list documents, well-formed, finite numbers, no void object member -/

mutual
/-- no object member is void (void stands for "absent" and never occurs inside a document) -/
def Json.memOK : Json → Bool
  | .arr _ xs => memOKList xs
  | .obj kvs => memOKKvs kvs
  | _ => true
def memOKList : List Json → Bool
  | [] => true
  | x :: r => x.memOK && memOKList r
def memOKKvs : List (String × Json) → Bool
  | [] => true
  | (_, v) :: r => !v.isVoid && v.memOK && memOKKvs r
end

/-- the documents of the theorem -/
structure Good (x : Json) : Prop where
  listDoc : x.listDoc = true
  wf : x.wf = true
  fin : x.finiteNums = true
  mem : x.memOK = true

structure GoodL (xs : List Json) : Prop where
  listDoc : listDocList xs = true
  wf : wfList xs = true
  fin : finiteNumsList xs = true
  mem : memOKList xs = true

structure GoodK (kvs : List (String × Json)) : Prop where
  listDoc : listDocKvs kvs = true
  wf : wfKvs kvs = true
  fin : finiteNumsKvs kvs = true
  mem : memOKKvs kvs = true

theorem GoodL.nil : GoodL [] := ⟨rfl, rfl, rfl, rfl⟩

theorem goodL_cons {x : Json} {r : List Json} : GoodL (x :: r) ↔ Good x ∧ GoodL r := by
  constructor
  · rintro ⟨h1, h2, h3, h4⟩
    simp only [listDocList, wfList, finiteNumsList, memOKList, Bool.and_eq_true] at h1 h2 h3 h4
    exact ⟨⟨h1.1, h2.1, h3.1, h4.1⟩, ⟨h1.2, h2.2, h3.2, h4.2⟩⟩
  · rintro ⟨⟨h1, h2, h3, h4⟩, ⟨g1, g2, g3, g4⟩⟩
    exact ⟨by simp [listDocList, h1, g1], by simp [wfList, h2, g2], by simp [finiteNumsList, h3, g3],
      by simp [memOKList, h4, g4]⟩

theorem GoodL.append {xs ys : List Json} (h1 : GoodL xs) (h2 : GoodL ys) : GoodL (xs ++ ys) := by
  induction xs with
  | nil => exact h2
  | cons x r ih =>
    rw [List.cons_append, goodL_cons]
    rw [goodL_cons] at h1
    exact ⟨h1.1, ih h1.2⟩

theorem GoodL.of_mem {xs : List Json} (h : GoodL xs) {x : Json} (hx : x ∈ xs) : Good x := by
  induction xs with
  | nil => cases hx
  | cons y r ih =>
    rw [goodL_cons] at h
    rcases List.mem_cons.1 hx with rfl | hx
    · exact h.1
    · exact ih h.2 hx

theorem good_arr {t : Tag} {xs : List Json} :
    Good (.arr t xs) ↔ (t == .raw || t == .list) = true ∧ GoodL xs := by
  constructor
  · rintro ⟨h1, h2, h3, h4⟩
    simp only [Json.listDoc, Bool.and_eq_true] at h1
    simp only [Json.wf] at h2
    simp only [Json.finiteNums] at h3
    simp only [Json.memOK] at h4
    exact ⟨h1.1, ⟨h1.2, h2, h3, h4⟩⟩
  · rintro ⟨ht, ⟨g1, g2, g3, g4⟩⟩
    exact ⟨by simp only [Json.listDoc, Bool.and_eq_true]; exact ⟨ht, g1⟩, by simpa [Json.wf] using g2,
      by simpa [Json.finiteNums] using g3, by simpa [Json.memOK] using g4⟩

theorem good_obj {kvs : List (String × Json)} :
    Good (.obj kvs) ↔ keysSorted kvs = true ∧ GoodK kvs := by
  constructor
  · rintro ⟨h1, h2, h3, h4⟩
    simp only [Json.listDoc] at h1
    simp only [Json.wf, Bool.and_eq_true] at h2
    simp only [Json.finiteNums] at h3
    simp only [Json.memOK] at h4
    exact ⟨h2.1, ⟨h1, h2.2, h3, h4⟩⟩
  · rintro ⟨hs, ⟨g1, g2, g3, g4⟩⟩
    exact ⟨by simpa [Json.listDoc] using g1, by simp [Json.wf, hs, g2],
      by simpa [Json.finiteNums] using g3, by simpa [Json.memOK] using g4⟩

theorem goodK_cons {k : String} {v : Json} {r : List (String × Json)} :
    GoodK ((k, v) :: r) ↔ (Good v ∧ v.isVoid = false) ∧ GoodK r := by
  constructor
  · rintro ⟨h1, h2, h3, h4⟩
    simp only [listDocKvs, wfKvs, finiteNumsKvs, memOKKvs, Bool.and_eq_true, Bool.not_eq_true'] at h1 h2 h3 h4
    exact ⟨⟨⟨h1.1, h2.1, h3.1, h4.1.2⟩, h4.1.1⟩, ⟨h1.2, h2.2, h3.2, h4.2⟩⟩
  · rintro ⟨⟨⟨h1, h2, h3, h4⟩, hv⟩, ⟨g1, g2, g3, g4⟩⟩
    exact ⟨by simp [listDocKvs, h1, g1], by simp [wfKvs, h2, g2], by simp [finiteNumsKvs, h3, g3],
      by simp [memOKKvs, h4, g4, hv]⟩

theorem GoodK.of_mem {kvs : List (String × Json)} (h : GoodK kvs) {k : String} {v : Json}
    (hm : (k, v) ∈ kvs) : Good v ∧ v.isVoid = false := by
  induction kvs with
  | nil => cases hm
  | cons kv r ih =>
    obtain ⟨k', v'⟩ := kv
    rw [goodK_cons] at h
    rcases List.mem_cons.1 hm with e | hm
    · cases e; exact h.1
    · exact ih h.2 hm

theorem GoodK.lookup {kvs : List (String × Json)} (h : GoodK kvs) {k : String} {v : Json}
    (hl : alookup k kvs = some v) : Good v ∧ v.isVoid = false :=
  h.of_mem (mem_of_alookup hl)

/-! ### structural equality on the domain -/

theorem nonnegBits_zero : nonnegBits 0 = true := by decide

theorem specEq_eq_equals {x y : Json} (hx : x.listDoc = true) (hy : y.listDoc = true) :
    specEq x y = equals [] x y :=
  (equals_eq_equivB_list [] rfl x y hx hy).symm

theorem specEq_refl (L : FloatLaws) {x : Json} (h : Good x) : specEq x x = true := by
  rw [specEq_eq_equals h.listDoc h.listDoc]
  exact equals_refl_list L [] rfl nonnegBits_zero x h.listDoc h.wf h.fin

theorem specEq_symm (L : FloatLaws) {x y : Json} (hx : Good x) (hy : Good y) :
    specEq x y = specEq y x := by
  rw [specEq_eq_equals hx.listDoc hy.listDoc, specEq_eq_equals hy.listDoc hx.listDoc]
  exact equals_symm_list L [] rfl x y hx.listDoc hy.listDoc hx.wf hy.wf


/-- the conclusion: equal to the target, read from either side -/
def Rel (z y : Json) : Prop := specEq z y = true ∧ specEq y z = true

inductive RelL : List Json → List Json → Prop
  | nil : RelL [] []
  | cons {z y : Json} {zs ys : List Json} : Rel z y → RelL zs ys → RelL (z :: zs) (y :: ys)

theorem Rel.refl (L : FloatLaws) {x : Json} (h : Good x) : Rel x x :=
  ⟨specEq_refl L h, specEq_refl L h⟩

theorem RelL.refl (L : FloatLaws) {xs : List Json} (h : GoodL xs) : RelL xs xs := by
  induction xs with
  | nil => exact .nil
  | cons x r ih =>
    rw [goodL_cons] at h
    exact .cons (Rel.refl L h.1) (ih h.2)

theorem equivList_of_relL {zs ys : List Json} (h : RelL zs ys) :
    equivList [] zs ys = true ∧ equivList [] ys zs = true := by
  induction h with
  | nil => simp [equivList]
  | cons h _ ih =>
    simp only [equivList, Bool.and_eq_true]
    exact ⟨⟨h.1, ih.1⟩, ⟨h.2, ih.2⟩⟩

theorem Rel.arr {zs ys : List Json} (h : RelL zs ys) (t t' : Tag) : Rel (.arr t zs) (.arr t' ys) := by
  have := equivList_of_relL h
  constructor <;> simp [specEq, equivB, dispatchTag, this.1, this.2]

theorem rel_void_left {y : Json} (h : Rel .void y) : y = .void := by
  have := h.1
  cases y <;> simp_all [specEq, equivB]

theorem Rel.isVoid_eq {z y : Json} (h : Rel z y) : z.isVoid = y.isVoid := by
  have := h.1
  cases z <;> cases y <;> simp_all [specEq, equivB, Json.isVoid]

/-! ### objects -/

theorem equivKvs_of_forall (o : Opts) (kvs' : List (String × Json)) :
    ∀ (r : List (String × Json)),
      (∀ k v, (k, v) ∈ r → ∃ v', alookup k kvs' = some v' ∧ equivB o v v' = true) →
      equivKvs o r kvs' = true
  | [], _ => by simp [equivKvs]
  | (k, v) :: r, h => by
    rw [equivKvs, Bool.and_eq_true]
    refine ⟨?_, equivKvs_of_forall o kvs' r (fun k' v' hm => h k' v' (List.mem_cons_of_mem _ hm))⟩
    obtain ⟨v', hl, he⟩ := h k v List.mem_cons_self
    simp [hl, he]

theorem nodup_subset_length_le {α} [BEq α] [LawfulBEq α] :
    ∀ (l l' : List α), l.Nodup → l ⊆ l' → l.length ≤ l'.length
  | [], _, _, _ => by simp
  | a :: r, l', hnd, hsub => by
    rw [List.nodup_cons] at hnd
    have ha : a ∈ l' := hsub List.mem_cons_self
    have hsub' : r ⊆ l'.erase a := by
      intro x hx
      have hne : x ≠ a := fun e => hnd.1 (e ▸ hx)
      exact (List.mem_erase_of_ne hne).2 (hsub (List.mem_cons_of_mem _ hx))
    have ih := nodup_subset_length_le r (l'.erase a) hnd.2 hsub'
    rw [List.length_erase_of_mem ha] at ih
    have : 0 < l'.length := List.length_pos_of_mem ha
    simp only [List.length_cons]
    omega

theorem mem_keys_iff_lookup {β} {k : String} {kvs : List (String × β)} :
    k ∈ kvs.map Prod.fst ↔ (alookup k kvs).isSome = true := by
  induction kvs with
  | nil => simp [alookup]
  | cons kv r ih =>
    obtain ⟨k', v'⟩ := kv
    simp only [List.map_cons, List.mem_cons, alookup]
    by_cases e : k = k'
    · simp [e]
    · simp [e, ih]

/-- two objects with sorted keys: the first has exactly the members of the second, up to `Rel` -/
theorem Rel.obj {cur kvs' : List (String × Json)} (hs : keysSorted cur = true)
    (hs' : keysSorted kvs' = true)
    (h : ∀ k, match alookup k kvs' with
      | none => alookup k cur = none
      | some v' => ∃ z, alookup k cur = some z ∧ Rel z v') :
    Rel (.obj cur) (.obj kvs') := by
  have hsub1 : cur.map Prod.fst ⊆ kvs'.map Prod.fst := by
    intro k hk
    rw [mem_keys_iff_lookup] at hk ⊢
    have := h k
    cases hl : alookup k kvs' with
    | none => rw [hl] at this; simp [this] at hk
    | some v' => rfl
  have hsub2 : kvs'.map Prod.fst ⊆ cur.map Prod.fst := by
    intro k hk
    rw [mem_keys_iff_lookup] at hk ⊢
    have := h k
    cases hl : alookup k kvs' with
    | none => simp [hl] at hk
    | some v' =>
      rw [hl] at this
      obtain ⟨z, hz, _⟩ := this
      simp [hz]
  have hlen : cur.length = kvs'.length := by
    have h1 := nodup_subset_length_le _ _ (keysSorted_nodup hs) hsub1
    have h2 := nodup_subset_length_le _ _ (keysSorted_nodup hs') hsub2
    simp only [List.length_map] at h1 h2
    omega
  have e1 : equivKvs [] cur kvs' = true := by
    apply equivKvs_of_forall
    intro k z hm
    have hz := alookup_of_mem hs hm
    have := h k
    cases hl : alookup k kvs' with
    | none => rw [hl] at this; simp [this] at hz
    | some v' =>
      rw [hl] at this
      obtain ⟨z', hz', hr⟩ := this
      rw [hz] at hz'
      cases hz'
      exact ⟨v', rfl, hr.1⟩
  have e2 : equivKvs [] kvs' cur = true := by
    apply equivKvs_of_forall
    intro k v' hm
    have hl := alookup_of_mem hs' hm
    have := h k
    rw [hl] at this
    obtain ⟨z, hz, hr⟩ := this
    exact ⟨z, hz, hr.2⟩
  constructor <;> simp [specEq, equivB, hlen, e1, e2]


/-! ## 3. one list hunk against the reference `splice` -/


/-- before-context of a hunk at the end of `pre`: the array start marker, or the last element -/
def PrevOK (pre : List Json) (prev : Json) : Prop :=
  match pre.getLast? with
  | none => prev.isVoid = true
  | some x => specEq prev x = true

/-- after-context of a hunk in front of `post`: the array end marker, or the first element -/
def AfterOK (post : List Json) (after : Json) : Prop :=
  match post.head? with
  | none => after.isVoid = true
  | some x => specEq after x = true

theorem prefixEq_append (R post : List Json) (h : ∀ x ∈ R, specEq x x = true) :
    prefixEq R (R ++ post) = true := by
  induction R with
  | nil => simp [prefixEq]
  | cons x R ih =>
    simp only [List.cons_append, prefixEq, Bool.and_eq_true]
    exact ⟨h x List.mem_cons_self, ih (fun y hy => h y (List.mem_cons_of_mem _ hy))⟩

theorem beforeOk_one (l : List Json) (i : Nat) (prev : Json) :
    beforeOk l (i : Int) 1 0 [prev] =
      (match i with
       | 0 => prev.isVoid
       | j + 1 => match l[j]? with
         | some x => specEq prev x
         | none => false) := by
  simp only [beforeOk, Bool.and_true]
  cases i with
  | zero => simp
  | succ j =>
    have h1 : ¬ (((j + 1 : Nat) : Int) - (((1 : Nat) : Int) - ((0 : Nat) : Int)) < 0) := by omega
    have h2 : (((j + 1 : Nat) : Int) - (((1 : Nat) : Int) - ((0 : Nat) : Int))).toNat = j := by omega
    rw [if_neg h1, h2]
    rfl

theorem splice_ok (pre R A post : List Json) (prev after : Json) (p : Path)
    (hR : ∀ x ∈ R, specEq x x = true) (hp : PrevOK pre prev) (ha : AfterOK post after) :
    splice (pre ++ R ++ post) (pre.length : Int)
      { path := p, before := [prev], remove := R, add := A, after := [after] } =
      some (pre ++ A ++ post) := by
  unfold splice
  have h1 : ((pre.length : Int) == -1) = false := by
    simp only [beq_eq_false_iff_ne, ne_eq]; omega
  have h2 : ((pre.length : Int) < 0 || (pre.length : Int) > ((pre ++ R ++ post).length : Int)) = false := by
    simp only [List.length_append, Bool.or_eq_false_iff, decide_eq_false_iff_not]
    omega
  simp only [h1, h2, Bool.false_eq_true, if_false, Int.toNat_natCast]
  have h3 : (pre ++ R ++ post).take pre.length = pre := by simp [List.append_assoc]
  have h4 : (pre ++ R ++ post).drop pre.length = R ++ post := by simp [List.append_assoc]
  have h5 : (R ++ post).drop R.length = post := by simp
  rw [h3, h4, h5, prefixEq_append R post hR]
  have h6 : beforeOk (pre ++ R ++ post) (pre.length : Int) [prev].length 0 [prev] = true := by
    show beforeOk (pre ++ R ++ post) (pre.length : Int) 1 0 [prev] = true
    rw [beforeOk_one]
    unfold PrevOK at hp
    rcases List.eq_nil_or_concat pre with rfl | ⟨pre', z, rfl⟩
    · simpa using hp
    · simp only [List.concat_eq_append, List.getLast?_append, List.getLast?_singleton,
        Option.some_or] at hp
      simp [List.append_assoc, hp]
  have h7 : afterOk post 0 [after] = true := by
    simp only [afterOk, Bool.and_true]
    unfold AfterOK at ha
    cases post with
    | nil => simp at ha; simp [ha]
    | cons x post' => simp at ha; simp [ha]
  rw [h6, h7]
  simp



theorem applyStrictAll_append (n : Json) (d1 d2 : Diff) :
    applyStrictAll n (d1 ++ d2) = (applyStrictAll n d1).bind (applyStrictAll · d2) := by
  induction d1 generalizing n with
  | nil => simp [applyStrictAll]
  | cons h d ih =>
    simp only [List.cons_append, applyStrictAll]
    cases applyStrict n h.path h <;> simp [ih]

theorem PrevOK.concat (pre : List Json) (x prev : Json) (h : specEq prev x = true) :
    PrevOK (pre ++ [x]) prev := by
  simp [PrevOK, h]

theorem AfterOK.nil : AfterOK [] .void := by simp [AfterOK, Json.isVoid]

theorem AfterOK.cons (x : Json) (post : List Json) (after : Json) (h : specEq after x = true) :
    AfterOK (x :: post) after := by
  simp [AfterOK, h]

/-- applying the accumulated hunk of one pass (or nothing, when nothing was accumulated) -/
theorem apply_accHunk (L : FloatLaws) (t : Tag) (pre R A post : List Json) (prev after : Json)
    (hR : GoodL R) (hp : PrevOK pre prev) (ha : AfterOK post after) :
    ∃ t', applyStrictAll (.arr t (pre ++ R ++ post)) (accHunk [] pre.length prev R A after) =
      some (.arr t' (pre ++ A ++ post)) := by
  unfold accHunk
  split
  · next h =>
    simp only [Bool.and_eq_true, List.isEmpty_iff] at h
    obtain ⟨rfl, rfl⟩ := h
    exact ⟨t, by simp [applyStrictAll]⟩
  · refine ⟨.raw, ?_⟩
    have := splice_ok pre R A post prev after [PathElem.idx (pre.length : Int)]
      (fun x hx => specEq_refl L (hR.of_mem hx)) hp ha
    simp only [applyStrictAll, List.nil_append, applyStrict, this, Option.map_some, Option.bind_some]


/-! ## 4. Stage A: arrays of scalars -/

def Json.isScalar : Json → Bool
  | .arr _ _ => false
  | .obj _ => false
  | _ => true

theorem sameContainerType_scalar (o : Opts) {x : Json} (y : Json) (h : x.isScalar = true) :
    sameContainerType o x y = false := by
  cases x <;> simp_all [Json.isScalar, sameContainerType, Json.dispatch]

theorem atC_both_hash {o : Opts} {x y : Json} {c : List UInt64} (hx : atC o x c = true)
    (hy : atC o y c = true) : hashCode o x = hashCode o y := by
  cases c with
  | nil => simp [atC] at hx
  | cons z c' =>
    simp only [atC, beq_iff_eq] at hx hy
    rw [hx, hy]

/-- `z` is the target element, or an element of the source list with the same hash code -/
def PW (o : Opts) (a : List Json) (z y : Json) : Prop :=
  z = y ∨ (z ∈ a ∧ hashCode o z = hashCode o y)

inductive PWL (o : Opts) (a : List Json) : List Json → List Json → Prop
  | nil : PWL o a [] []
  | cons {z y : Json} {zs ys : List Json} : PW o a z y → PWL o a zs ys → PWL o a (z :: zs) (y :: ys)

theorem PWL.mono {o : Opts} {a a' : List Json} (hsub : ∀ x, x ∈ a → x ∈ a') {zs ys : List Json}
    (h : PWL o a zs ys) : PWL o a' zs ys := by
  induction h with
  | nil => exact .nil
  | cons h _ ih =>
    refine .cons ?_ ih
    rcases h with h | ⟨h1, h2⟩
    · exact .inl h
    · exact .inr ⟨hsub _ h1, h2⟩

theorem PWL.refl (o : Opts) (a ys : List Json) : PWL o a ys ys := by
  induction ys with
  | nil => exact .nil
  | cons y r ih => exact .cons (.inl rfl) ih

theorem diffRest_scalars (L : FloatLaws) (o : Opts) (ho : dispatchTag o = .list) :
    ∀ k s prev a b c R A, listDocList a = true → listDocList b = true →
      ∀ (t : Tag) (pre : List Json), pre.length = s → k = s + A.length → PrevOK pre prev →
        GoodL R → GoodL a → GoodL b → (∀ x ∈ a, x.isScalar = true) →
        (∀ x ∈ a, ∀ y ∈ b, hashCode o x = hashCode o y → Rel x y) →
        ∃ t' zs, applyStrictAll (.arr t (pre ++ R ++ a)) (diffRest o [] k s prev a b c R A) =
            some (.arr t' (pre ++ A ++ zs)) ∧ RelL zs b ∧ PWL o a zs b := by
  refine (listDiff_induct o ho (mN := fun _ _ => True) (mK := fun _ _ => True)
    (mR := fun k s prev a b c R A =>
      ∀ (t : Tag) (pre : List Json), pre.length = s → k = s + A.length → PrevOK pre prev →
        GoodL R → GoodL a → GoodL b → (∀ x ∈ a, x.isScalar = true) →
        (∀ x ∈ a, ∀ y ∈ b, hashCode o x = hashCode o y → Rel x y) →
        ∃ t' zs, applyStrictAll (.arr t (pre ++ R ++ a)) (diffRest o [] k s prev a b c R A) =
            some (.arr t' (pre ++ A ++ zs)) ∧ RelL zs b ∧ PWL o a zs b)
    ?_ ?_ ?_ ?_ ?_ ?_ ?_ ?_ ?_ ?_ ?_ ?_ ?_ ?_).2.2
  any_goals (intros; trivial)
  · -- end of a
    intro k s prev c R A b _ t pre hlen hk hp hR _ hb _ _
    subst hlen
    rw [diffRest_nilA]
    obtain ⟨t', h⟩ := apply_accHunk L t pre R (A ++ b) [] prev .void hR hp AfterOK.nil
    refine ⟨t', b, ?_, RelL.refl L hb, PWL.refl o _ b⟩
    simpa [List.append_assoc] using h
  · -- end of b
    intro k s prev c R A a hne _ t pre hlen hk hp hR ha _ _ _
    subst hlen
    rw [diffRest_nilB _ _ _ _ _ _ _ _ _ hne]
    obtain ⟨t', h⟩ := apply_accHunk L t pre (R ++ a) A [] prev .void (hR.append ha) hp AfterOK.nil
    refine ⟨t', [], ?_, .nil, .nil⟩
    simpa [List.append_assoc] using h
  · -- both cursors at the next common element
    intro k s prev c R A x a' y b' _ _ hA hB ih t pre hlen hk hp hR ha hb hsc hh
    subst hlen
    rw [goodL_cons] at ha hb
    rw [diffRest_cons]
    simp only [hA, hB, Bool.and_self, if_true]
    have hxy : Rel x y := hh x List.mem_cons_self y List.mem_cons_self (atC_both_hash hA hB)
    obtain ⟨t1, h1⟩ := apply_accHunk L t pre R A (x :: a') prev x hR hp
      (AfterOK.cons x a' x (specEq_refl L ha.1))
    obtain ⟨t', zs, h2, hrel, hpw⟩ := ih t1 (pre ++ A ++ [x]) (by simp; omega) rfl
      (PrevOK.concat _ x y hxy.2) GoodL.nil ha.2 hb.2
      (fun z hz => hsc z (List.mem_cons_of_mem _ hz))
      (fun z hz w hw => hh z (List.mem_cons_of_mem _ hz) w (List.mem_cons_of_mem _ hw))
    refine ⟨t', x :: zs, ?_, .cons hxy hrel, .cons (.inr ⟨List.mem_cons_self, atC_both_hash hA hB⟩)
      (hpw.mono (fun z hz => List.mem_cons_of_mem _ hz))⟩
    rw [applyStrictAll_append, h1]
    simp only [Option.bind_some]
    simpa [List.append_assoc] using h2
  · -- a at the common element: add from b
    intro k s prev c R A x a' y b' _ _ hA hB ih t pre hlen hk hp hR ha hb hsc hh
    rw [goodL_cons] at hb
    rw [diffRest_cons]
    simp only [hA, hB, Bool.and_false, Bool.false_eq_true, if_false, if_true]
    obtain ⟨t', zs, h2, hrel, hpw⟩ := ih t pre hlen (by simp; omega) hp hR ha hb.2 hsc
      (fun z hz w hw => hh z hz w (List.mem_cons_of_mem _ hw))
    refine ⟨t', y :: zs, ?_, .cons (Rel.refl L hb.1) hrel, .cons (.inl rfl) hpw⟩
    simpa [List.append_assoc] using h2
  · -- b at the common element: remove from a
    intro k s prev c R A x a' y b' _ _ hA hB ih t pre hlen hk hp hR ha hb hsc hh
    have ha' := goodL_cons.1 ha
    rw [diffRest_cons]
    simp only [hA, hB, Bool.false_and, Bool.false_eq_true, if_false, if_true]
    obtain ⟨t', zs, h2, hrel, hpw⟩ := ih t pre hlen hk hp
      (hR.append (goodL_cons.2 ⟨ha'.1, GoodL.nil⟩)) ha'.2 hb
      (fun z hz => hsc z (List.mem_cons_of_mem _ hz))
      (fun z hz w hw => hh z (List.mem_cons_of_mem _ hz) w hw)
    refine ⟨t', zs, ?_, hrel, hpw.mono (fun z hz => List.mem_cons_of_mem _ hz)⟩
    simpa [List.append_assoc] using h2
  · -- compatible containers: impossible for scalars
    intro k s prev c R A x a' y b' _ _ hA hB hs _ _ t pre hlen hk hp hR ha hb hsc hh
    rw [sameContainerType_scalar o y (hsc x List.mem_cons_self)] at hs
    cases hs
  · -- different elements
    intro k s prev c R A x a' y b' _ _ hA hB hs ih t pre hlen hk hp hR ha hb hsc hh
    have ha' := goodL_cons.1 ha
    have hb' := goodL_cons.1 hb
    rw [diffRest_cons]
    simp only [hA, hB, hs, Bool.false_and, Bool.false_eq_true, if_false]
    obtain ⟨t', zs, h2, hrel, hpw⟩ := ih t pre hlen (by simp; omega) hp
      (hR.append (goodL_cons.2 ⟨ha'.1, GoodL.nil⟩)) ha'.2 hb'.2
      (fun z hz => hsc z (List.mem_cons_of_mem _ hz))
      (fun z hz w hw => hh z (List.mem_cons_of_mem _ hz) w (List.mem_cons_of_mem _ hw))
    refine ⟨t', y :: zs, ?_, .cons (Rel.refl L hb'.1) hrel,
      .cons (.inl rfl) (hpw.mono (fun z hz => List.mem_cons_of_mem _ hz))⟩
    simpa [List.append_assoc] using h2


/-! ### the advertised equivalence depends on the options only through the array reading and the
    precision -/

mutual
theorem equivB_congr (o o' : Opts) (h : dispatchTag o = .list) (h' : dispatchTag o' = .list)
    (hp : precOf o = precOf o') : ∀ (a b : Json), equivB o a b = equivB o' a b
  | .void, b => by cases b <;> simp [equivB]
  | .null, b => by cases b <;> simp [equivB]
  | .bool _, b => by cases b <;> simp [equivB]
  | .num _, b => by cases b <;> simp [equivB, hp]
  | .str _, b => by cases b <;> simp [equivB]
  | .arr t xs, b => by
    cases b with
    | arr t' ys => simp [equivB, h, h', equivList_congr o o' h h' hp xs ys]
    | _ => simp [equivB]
  | .obj kvs, b => by
    cases b with
    | obj kvs' => simp [equivB, equivKvs_congr o o' h h' hp kvs kvs']
    | _ => simp [equivB]
theorem equivList_congr (o o' : Opts) (h : dispatchTag o = .list) (h' : dispatchTag o' = .list)
    (hp : precOf o = precOf o') : ∀ (xs ys : List Json), equivList o xs ys = equivList o' xs ys
  | [], ys => by cases ys <;> simp [equivList]
  | x :: xs, [] => by simp [equivList]
  | x :: xs, y :: ys => by
    simp [equivList, equivB_congr o o' h h' hp x y, equivList_congr o o' h h' hp xs ys]
theorem equivKvs_congr (o o' : Opts) (h : dispatchTag o = .list) (h' : dispatchTag o' = .list)
    (hp : precOf o = precOf o') :
    ∀ (kvs kvs' : List (String × Json)), equivKvs o kvs kvs' = equivKvs o' kvs kvs'
  | [], _ => by simp [equivKvs]
  | (k, v) :: r, kvs' => by
    rw [equivKvs, equivKvs, equivKvs_congr o o' h h' hp r kvs']
    cases alookup k kvs' with
    | none => rfl
    | some v' => simp [equivB_congr o o' h h' hp v v']
end

/-- without a precision option, the advertised equivalence in list mode is structural equality -/
theorem equivB_of_specEq {o : Opts} (h : dispatchTag o = .list) (hp : precOf o = 0) {a b : Json}
    (hab : specEq a b = true) : equivB o a b = true := by
  rw [equivB_congr o [] h rfl (by simpa [precOf] using hp)]
  exact hab

theorem applyStrict_root_replace (a a' b : Json)
    (ha' : specEq a a' = true) :
    applyStrictAll a [{ path := [], remove := [a'], add := [b] }] = some b := by
  simp [applyStrictAll, applyStrict, single, Json.singleValue, ha']

/-- **Stage A.** Arrays of scalars, list mode (any options whose array reading is "list", e.g. a
    precision), strict strategy: the diff applies to its source, and the result is the target with
    some elements replaced by elements of the source carrying the same hash code; under `HashOK`
    (no hash collision between non-equal elements) that is structurally equal to the target. -/
theorem diffM_list_correct_scalar_arrays (L : FloatLaws) (o : Opts) (ho : dispatchTag o = .list)
    (hm : isMerge o = false) (t t' : Tag) (xs ys : List Json)
    (ha : Good (.arr t xs)) (hb : Good (.arr t' ys)) (hsc : ∀ x ∈ xs, x.isScalar = true)
    (HashOK : ∀ x ∈ xs, ∀ y ∈ ys, hashCode o x = hashCode o y →
      specEq x y = true ∧ specEq y x = true) :
    ∃ t'' zs, applyStrictAll (.arr t xs) (diffM o (.arr t xs) (.arr t' ys)) = some (.arr t'' zs) ∧
      PWL o xs zs ys ∧ specEq (.arr t'' zs) (.arr t' ys) = true ∧
      (precOf o = 0 → equivB o (.arr t'' zs) (.arr t' ys) = true) := by
  have ha' := good_arr.1 ha
  have hb' := good_arr.1 hb
  unfold diffM
  rw [hm]
  by_cases htt : t = .raw ∨ t' = .list
  · rw [diffNode_arr_arr ho xs ys ha'.1 hb'.1 htt]
    obtain ⟨t'', zs, h, hrel, hpw⟩ := diffRest_scalars L o ho 0 0 .void xs ys
      (lcsValues (hashList o xs) (hashList o ys)) [] [] ha'.2.listDoc hb'.2.listDoc t [] rfl rfl
      (by simp [PrevOK, Json.isVoid]) GoodL.nil ha'.2 hb'.2 hsc HashOK
    refine ⟨t'', zs, by simpa using h, hpw, (Rel.arr hrel t'' t').1,
      fun hp => equivB_of_specEq ho hp (Rel.arr hrel t'' t').1⟩
  · have htt' : t = .list ∧ t' = .raw := by
      have h1 := ha'.1; have h2 := hb'.1
      cases t <;> cases t' <;> simp_all
    obtain ⟨rfl, rfl⟩ := htt'
    rw [diffNode_arr_other ho xs _ ha'.1 (.inr ⟨rfl, ys, rfl⟩)]
    have hr : Rel (.arr .raw ys) (.arr .raw ys) := Rel.refl L hb
    refine ⟨.raw, ys, ?_, PWL.refl o xs ys, hr.1, fun hp => equivB_of_specEq ho hp hr.1⟩
    exact applyStrict_root_replace _ _ _ (Rel.arr (RelL.refl L ha'.2) _ _).1

#print axioms Jd.diffM_list_correct_scalar_arrays

end Jd
