/-
  JdProofs.V1KeysDiffPatchC — companion of V1KeysDiffPatchB (SET + setkeys, v1): the hypotheses are
  decidable (Bool checkers `…_of_check`), they are NEEDED (namespace `Witness`: concrete pairs of
  documents, each violating exactly one hypothesis of `v1_diff_patch_setkeys` and satisfying all the
  others, on which the statement is FALSE on the model — replayed on the Go library /repo/lib with
  the same outcome, except `keyless_member_breaks` in memory, see there), and they are SATISFIABLE
  (namespace `ExampleK`: a pair with a changed member (a scalar field and a member of a NESTED keyed
  set), a removed member, an added member, a scalar member). Namespace `Jd.V1K`.

  THEOREMS
    `Witness.duplicate_member_breaks`  (¬ KeyedDistinct)  `[{"id":"1","v":"1"},{"id":"1","v":"1"}]` →
        `[{"id":"1","v":"2"}]`, setkeys(id): `patchM … = .ok [{"id":"1","v":"2"},{"id":"1","v":"1"}]`,
        `V1.equals m … b = false`.
    `Witness.identperm_breaks`  (¬ KeyTuple)  `[{"id":"5","k":"3"}]` → `[{"id":"3","k":"5"}]`,
        setkeys(id,k): `patchM … = .err`.
    `Witness.keytwin_breaks`  (¬ PathFaithful)  `[{"id":"1","k":"2","v":"0"},{"id":"1","v":"1"}]` →
        `[{"id":"1","k":"2","v":"0"},{"id":"1","v":"9"}]`, setkeys(id,k): `patchM … = .ok a`
        (unchanged), not `Equals`.
    `Witness.keyless_member_breaks`  (¬ HasKey)  `[{"v":"1","w":"1"}]` → `[{"v":"2","w":"2"}]`,
        setkeys(id): `patchM … = .err` (Go: after `Render`/`ReadDiffString`; in memory the Go run
        succeeds because the path object aliases the member — model inaccuracy, see file B).
    `Witness.target_duplicate_breaks`  (¬ IdentInj)  `[{"id":"1","v":"1"}]` →
        `[{"id":"1","v":"1"},{"id":"1","v":"2"}]`, setkeys(id): result `[{"id":"1","v":"2"}]`, not `Equals`.
    `Witness.alias_breaks_equivB`  (¬ HashFaithful)  `[[]]` → `[""]`: empty diff, `Equals` TRUE,
        `equivB` FALSE (KF-C04-alias for the v1 hashes).
    `ExampleK.ex_run` : the example satisfies every hypothesis (`ex_keysHyp`), only the IEEE laws
        are assumed.
    `diff_str`, `ap_str`, `ap_obj_str`: evaluation lemmas for the concrete runs.
-/
import JdProofs.V1KeysDiffPatchB

namespace Jd.V1K
open Jd Jd.Spec
open Jd.SetDP (Ok Within)
open Jd.V1P (shift ap)
open Jd.V1S (metaItems pm NM)

/-! ## 2.7 the hypotheses are decidable: checkers -/

theorem hashFaithful_of_check {m : V1.Metas} {o : Opts} {S : List Json}
    (h : (S.all fun x => S.all fun y => V1.hashCode m x != V1.hashCode m y || equivB o x y) = true) :
    V1S.HashFaithful m o S := by
  intro x hx y hy e
  simp only [List.all_eq_true] at h
  simpa [e] using h x hx y hy

theorem keyedDistinct_of_check {m : V1.Metas} {S : List Json}
    (h : S.all (nodeKeyedDistinct m) = true) : KeyedDistinct m S :=
  fun n hn => List.all_eq_true.1 h n hn

theorem hasKey_of_check {ks : List String} {S : List Json}
    (h : S.all (nodeHasKey ks) = true) : HasKey ks S :=
  fun n hn => List.all_eq_true.1 h n hn

theorem pathFaithful_of_check {m : V1.Metas} {ks : List String} {S : List Json}
    (h : S.all (nodePathFaithful m ks) = true) : PathFaithful m ks S :=
  fun n hn => List.all_eq_true.1 h n hn

theorem identInj_of_check {m : V1.Metas} {S : List Json}
    (h : S.all (nodeIdentInj m) = true) : IdentInj m S :=
  fun n hn => List.all_eq_true.1 h n hn

theorem keyTuple_of_check {m : V1.Metas} {ks : List String} {SA SB : List Json}
    (h : (SA.all fun x => SB.all fun y => keyTupleOK m ks x y) = true) : KeyTuple m ks SA SB := by
  intro x hx y hy
  simp only [List.all_eq_true] at h
  exact h x hx y hy

theorem kindSepI_of_check {m : V1.Metas} {SA S : List Json}
    (h : (SA.all fun x => S.all fun y =>
      V1.identOf m x != V1.identOf m y || x.isObj == y.isObj) = true) : KindSepI m SA S := by
  intro x hx y hy e
  simp only [List.all_eq_true] at h
  simpa [e] using h x hx y hy

/-! ## 2.8 small evaluation lemmas for concrete runs -/

theorem diff_str (m : V1.Metas) (s t : String) (p : List Json) :
    V1.diffNode m false (.str s) (.str t) p =
      if s = t then [] else [{ path := p, old := [.str s], new := [.str t] }] := by
  rw [V1P.diffNode_scalar m _ _ (fun _ _ e => by cases e) (fun _ e => by cases e)]
  by_cases h : s = t <;> simp [V1.diffCommon, V1.equals, h, Json.nodeList, Json.isVoid]

/-- replacing a string at the root -/
theorem ap_str (s s' t : String) :
    ap (.str s) { path := [], old := [.str s'], new := [.str t] } =
      if s = s' then .ok (.str t) else .err := by
  unfold ap
  rw [V1.patchNode.eq_def]
  simp only [V1.liftPath, List.map_nil]
  rw [V1.patchCommon.eq_def]
  by_cases h : s = s' <;>
    simp [V1.pathIsLeaf, Json.singleValue, V1.equals, h]

/-- replacing the string under a key of an object -/
theorem ap_obj_str (kvs : List (String × Json)) (k s s' t : String)
    (hl : alookup k kvs = some (.str s)) :
    ap (.obj kvs) { path := [.str k], old := [.str s'], new := [.str t] } =
      if s = s' then .ok (.obj (DPL.aput k (.str t) kvs)) else .err := by
  have := V1P.ap_key kvs k { path := [], old := [.str s'], new := [.str t] }
  simp only [shift, List.append_nil] at this
  rw [this, hl]
  simp only [Option.getD_some, ap_str]
  by_cases h : s = s' <;> simp [h]

/-! ## 2.9 the hypotheses are needed: where the property is FALSE

  Concrete pairs of documents; each violates ONE hypothesis of `v1_diff_patch_setkeys` and satisfies
  all the others (shown). The runs were replayed on the Go library /repo/lib
  (`a.Patch(a.Diff(b, SET, Setkeys(...)))`, in memory and after `Render` / `ReadDiffString`):
  same outcomes, except for `keyless_member_breaks` IN MEMORY (see there). -/

namespace Witness

def m1 : V1.Metas := [.set, .setkeys ["id"]]
def m2 : V1.Metas := [.set, .setkeys ["id", "k"]]
theorem K1 : KMode m1 ["id"] := KMode.single "id" []
theorem K2 : KMode m2 ["id", "k"] := KMode.single "id" ["k"]

/-! ### (1) two members with the same identity in one array of the source: `KeyedDistinct` is needed

  `[{"id":"1","v":"1"},{"id":"1","v":"1"}]` → `[{"id":"1","v":"2"}]` under SET + setkeys(id): the
  diff is one hunk addressed through `{"id":"1"}`; the patch changes the FIRST member with that key
  value and leaves the second: `Patch` succeeds and the result does not `Equals` the target. -/

abbrev dx : Json := .obj [("id", .str "1"), ("v", .str "1")]
abbrev dy : Json := .obj [("id", .str "1"), ("v", .str "2")]
def da : Json := .arr .raw [dx, dx]
def db : Json := .arr .raw [dy]
def dd : V1.VDiff :=
  [{ path := [.arr .raw (metaItems m1), .obj [("id", .str "1")], .str "v"],
     old := [.str "1"], new := [.str "2"] }]

theorem d_ident : V1.identOf m1 dy = V1.identOf m1 dx := by decide +kernel

theorem d_diff : V1.diffM m1 da db = dd := by
  unfold V1.diffM da db
  rw [show V1.hasMerge m1 = false from rfl, V1S.diffNode_set_set (m := m1) rfl]
  rw [V1S.diffSetElems_cons, V1S.diffSetElems_cons, V1S.diffSetElems_nil]
  simp [d_ident, V1.identLookup, ksort, kinsert, V1S.subOf, V1S.remOf, V1S.setAdd, hdedup, hsort]
  rw [V1P.diffNode_obj_obj, V1P.diffKvs_cons, V1P.diffKvs_cons, V1P.diffKvs_nil]
  simp [alookup, diff_str, V1S.appendIndex_eq, V1.pathObject, V1.keysOf, m1, dd]

theorem d_m1 : matchP m1 [("id", .str "1")] dx = true := by decide +kernel

theorem d_patch : V1.patchM da dd = .ok (.arr .set [dy, dx]) := by
  apply V1S.patchAll_single _ _ (nm_metaK K1 _ _ _)
  have := patchNode_keyed K1 .raw (Or.inl rfl) [("id", .str "1")] (.str "v") [] (by rfl)
    [.str "1"] [.str "2"] [] [("id", .str "1"), ("v", .str "1")] [dx] (by simp) d_m1
  simp only [List.nil_append] at this
  unfold ap da
  rw [this]
  have h2 := ap_obj_str [("id", .str "1"), ("v", .str "1")] "v" "1" "1" "2" (by simp [alookup])
  simp only [ap, if_true] at h2
  rw [h2]
  simp [DPL.aput, ainsert, Json.isVoid]

theorem d_hf : V1S.HashFaithful m1 [.set] (subterms da ++ subterms db) := by
  intro x hx y hy
  simp only [da, db, subterms, subtermsList, subtermsKvs, List.cons_append, List.nil_append,
    List.append_nil, List.mem_cons, List.not_mem_nil, or_false] at hx hy
  rcases hx with rfl | rfl | rfl | rfl | rfl | rfl | rfl | rfl | rfl | rfl | rfl <;>
  rcases hy with rfl | rfl | rfl | rfl | rfl | rfl | rfl | rfl | rfl | rfl | rfl <;>
  first
  | (intro e; exact absurd e (by decide +kernel))
  | (intro _; simp [equivB, dispatchTag, allIn, allCovered, anyEquiv, equivKvs, alookup]; done)

/-- **a duplicated keyed member.** Every hypothesis of the theorem but `KeyedDistinct` holds,
    `a.Patch(a.Diff(b, SET, Setkeys(id)))` succeeds and its result does NOT `Equals` `b`. -/
theorem duplicate_member_breaks :
    da.setDoc = true ∧ db.setDoc = true ∧ DPL.memOK da = true ∧ DPL.memOK db = true ∧
    V1S.HashFaithful m1 [.set] (subterms da ++ subterms db) ∧ ¬ KeyedDistinct m1 (subterms da) ∧
    HasKey ["id"] (subterms da) ∧
    KindSepI m1 (subterms da) (subterms da ++ subterms db) ∧ IdentInj m1 (subterms db) ∧
    PathFaithful m1 ["id"] (subterms da) ∧ KeyTuple m1 ["id"] (subterms da) (subterms db) ∧
    V1.patchM da (V1.diffM m1 da db) = .ok (.arr .set [dy, dx]) ∧
    V1.equals m1 (.arr .set [dy, dx]) db = false := by
  refine ⟨by decide, by decide, by decide, by decide, d_hf, ?_,
    hasKey_of_check (by decide +kernel),
    kindSepI_of_check (by decide +kernel),
    identInj_of_check (by decide +kernel), pathFaithful_of_check (by decide +kernel),
    keyTuple_of_check (by decide +kernel), ?_, by decide +kernel⟩
  · intro h
    exact absurd (h da (mem_subterms_self da)) (by decide +kernel)
  · rw [d_diff]; exact d_patch

/-! ### (2) KF-C01-identperm: `KeyTuple` is needed

  `[{"id":"5","k":"3"}]` → `[{"id":"3","k":"5"}]` under SET + setkeys(id,k): the identity combines the
  hash codes of the key values as a SORTED list, so the two members have the same identity; the
  diff changes `id`, then `k`, both addressed through `{"id":"5","k":"3"}`; after the first hunk no
  member matches: `Patch` returns an ERROR. -/

abbrev pxk : List (String × Json) := [("id", .str "5"), ("k", .str "3")]
abbrev px : Json := .obj pxk
abbrev py : Json := .obj [("id", .str "3"), ("k", .str "5")]
def pa : Json := .arr .raw [px]
def pb : Json := .arr .raw [py]
abbrev ph1 : V1.Hunk :=
  { path := [.arr .raw (metaItems m2), .obj pxk, .str "id"], old := [.str "5"], new := [.str "3"] }
abbrev ph2 : V1.Hunk :=
  { path := [.arr .raw (metaItems m2), .obj pxk, .str "k"], old := [.str "3"], new := [.str "5"] }
def pd : V1.VDiff := [ph1, ph2]

theorem p_ident : V1.identOf m2 py = V1.identOf m2 px := by decide +kernel

theorem p_diff : V1.diffM m2 pa pb = pd := by
  unfold V1.diffM pa pb
  rw [show V1.hasMerge m2 = false from rfl, V1S.diffNode_set_set (m := m2) rfl]
  rw [V1S.diffSetElems_cons, V1S.diffSetElems_nil]
  simp [p_ident, V1.identLookup, ksort, kinsert, V1S.subOf, V1S.remOf, V1S.setAdd, hdedup, hsort]
  rw [V1P.diffNode_obj_obj, V1P.diffKvs_cons, V1P.diffKvs_cons, V1P.diffKvs_nil]
  simp [alookup, diff_str, V1S.appendIndex_eq, V1.pathObject, V1.keysOf, m2, pd]

theorem p_m1 : matchP m2 pxk px = true := by decide +kernel
theorem p_m2 : matchP m2 pxk (.obj [("id", .str "3"), ("k", .str "3")]) = false := by
  decide +kernel

theorem p_patch : V1.patchM pa pd = .err := by
  unfold V1.patchM pd
  rw [V1S.patchAll_cons _ _ _ (nm_metaK K2 _ _ _)]
  have h1 : ap pa ph1 = .ok (.arr .set [.obj [("id", .str "3"), ("k", .str "3")]]) := by
    have := patchNode_keyed K2 .raw (Or.inl rfl) pxk (.str "id") [] (by rfl)
      [.str "5"] [.str "3"] [] pxk [] (by simp) p_m1
    simp only [List.nil_append] at this
    unfold ap pa
    rw [this]
    have h2 := ap_obj_str pxk "id" "5" "5" "3" (by simp [alookup])
    simp only [ap, if_true] at h2
    rw [h2]
    simp [DPL.aput, ainsert, Json.isVoid]
  rw [h1]
  simp only [Outcome.bind_ok]
  rw [V1S.patchAll_cons _ _ _ (nm_metaK K2 _ _ _)]
  have h2 : ap (.arr .set [.obj [("id", .str "3"), ("k", .str "3")]]) ph2 = .err := by
    unfold ap
    rw [patchNode_keyed_eq K2 .set (Or.inr rfl)]
    apply patchKeyed_none K2
    intro z hz
    simp only [List.mem_singleton] at hz
    subst hz
    exact p_m2
  rw [h2]
  rfl

theorem p_hf : V1S.HashFaithful m2 [.set] (subterms pa ++ subterms pb) := by
  intro x hx y hy
  simp only [pa, pb, subterms, subtermsList, subtermsKvs, List.cons_append, List.nil_append,
    List.append_nil, List.mem_cons, List.not_mem_nil, or_false] at hx hy
  rcases hx with rfl | rfl | rfl | rfl | rfl | rfl | rfl | rfl <;>
  rcases hy with rfl | rfl | rfl | rfl | rfl | rfl | rfl | rfl <;>
  first
  | (intro e; exact absurd e (by decide +kernel))
  | (intro _; simp [equivB, dispatchTag, allIn, allCovered, anyEquiv, equivKvs, alookup]; done)

theorem identperm_breaks :
    pa.setDoc = true ∧ pb.setDoc = true ∧ DPL.memOK pa = true ∧ DPL.memOK pb = true ∧
    V1S.HashFaithful m2 [.set] (subterms pa ++ subterms pb) ∧ KeyedDistinct m2 (subterms pa) ∧
    HasKey ["id", "k"] (subterms pa) ∧
    KindSepI m2 (subterms pa) (subterms pa ++ subterms pb) ∧ IdentInj m2 (subterms pb) ∧
    PathFaithful m2 ["id", "k"] (subterms pa) ∧
    ¬ KeyTuple m2 ["id", "k"] (subterms pa) (subterms pb) ∧
    V1.patchM pa (V1.diffM m2 pa pb) = .err := by
  refine ⟨by decide, by decide, by decide, by decide, p_hf,
    keyedDistinct_of_check (by decide +kernel),
    hasKey_of_check (by decide +kernel),
    kindSepI_of_check (by decide +kernel),
    identInj_of_check (by decide +kernel), pathFaithful_of_check (by decide +kernel), ?_, ?_⟩
  · intro h
    have := h px (by simp [pa, subterms, subtermsList]) py (by simp [pb, subterms, subtermsList])
    exact absurd this (by decide +kernel)
  · rw [p_diff]; exact p_patch

/-! ### (3) KF-C01-keytwin: a member lacking a set key next to one that has it: `PathFaithful` is needed

  `[{"id":"1","k":"2","v":"0"},{"id":"1","v":"1"}]` → `[{"id":"1","k":"2","v":"0"},{"id":"1","v":"9"}]`
  under SET + setkeys(id,k). The identities differ (the second member lacks `k`), the diff is one
  hunk for the second member, addressed through `{"id":"1"}`; the keyed lookup restricts every
  member to the keys OF THE PATH OBJECT, so the FIRST member passes the test; the nested patch
  fails there (`v` is `"0"`, not `"1"`), the failure is DISCARDED: `Patch` succeeds, the document is
  unchanged and does not `Equals` the target. -/

abbrev n1k : List (String × Json) := [("id", .str "1"), ("k", .str "2"), ("v", .str "0")]
abbrev n1 : Json := .obj n1k
abbrev n2 : Json := .obj [("id", .str "1"), ("v", .str "1")]
abbrev n3 : Json := .obj [("id", .str "1"), ("v", .str "9")]
def na : Json := .arr .raw [n1, n2]
def nb : Json := .arr .raw [n1, n3]
abbrev nh : V1.Hunk :=
  { path := [.arr .raw (metaItems m2), .obj [("id", .str "1")], .str "v"], old := [.str "1"],
    new := [.str "9"] }
def nd : V1.VDiff := [nh]

theorem n_i1 : V1.identOf m2 n3 = V1.identOf m2 n2 := by decide +kernel
theorem n_i2 : ¬ V1.identOf m2 n2 = V1.identOf m2 n1 := by decide +kernel
theorem n_i3 : ¬ V1.identOf m2 n1 = V1.identOf m2 n2 := by decide +kernel
theorem n_i4 : ¬ V1.identOf m2 n3 = V1.identOf m2 n1 := by decide +kernel
theorem n_i5 : ¬ V1.identOf m2 n1 = V1.identOf m2 n3 := by decide +kernel

theorem n_d1 (q : List Json) : V1.diffNode m2 false n1 n1 q = [] := by
  rw [V1P.diffNode_obj_obj, V1P.diffKvs_cons, V1P.diffKvs_cons, V1P.diffKvs_cons, V1P.diffKvs_nil]
  simp [alookup, diff_str]

theorem n_d2 (q : List Json) : V1.diffNode m2 false n2 n3 q =
    [{ path := q ++ [.str "v"], old := [.str "1"], new := [.str "9"] }] := by
  rw [V1P.diffNode_obj_obj, V1P.diffKvs_cons, V1P.diffKvs_cons, V1P.diffKvs_nil]
  simp [alookup, diff_str]

theorem n_parts : V1.diffSetElems m2 false [] [n1, n3] [n1, n2] =
    [(V1.identOf m2 n1, .sub []), (V1.identOf m2 n2, .sub [nh])] := by
  have hpo : V1.pathObject m2 [("id", .str "1"), ("v", .str "1")] = [("id", .str "1")] := by
    simp [V1.pathObject, V1.keysOf, m2]
  rw [V1S.diffSetElems_cons, V1S.diffSetElems_cons, V1S.diffSetElems_nil]
  simp [n_i1, n_i2, n_i3, V1.identLookup, n_d1, n_d2, V1S.appendIndex_eq, hpo]

theorem n_diff : V1.diffM m2 na nb = nd := by
  unfold V1.diffM na nb
  rw [show V1.hasMerge m2 = false from rfl, V1S.diffNode_set_set (m := m2) rfl, n_parts]
  have hk : ∀ l : List (UInt64 × V1.SetPart), l.Perm [(V1.identOf m2 n1, .sub []),
      (V1.identOf m2 n2, .sub [nh])] → l.flatMap V1S.subOf = [nh] ∧ l.filterMap V1S.remOf = [] := by
    intro l hl
    constructor
    · have := hl.flatMap_right V1S.subOf
      simp only [List.flatMap_cons, List.flatMap_nil, V1S.subOf, List.nil_append,
        List.append_nil] at this
      exact List.perm_singleton.1 this
    · have := hl.filterMap V1S.remOf
      simp only [List.filterMap_cons, List.filterMap_nil, V1S.remOf] at this
      exact List.perm_nil.1 this
  obtain ⟨e1, e2⟩ := hk _ (ksort_perm _)
  rw [e1, e2]
  simp [V1S.setAdd, n_i1, n_i2, n_i3, hdedup, hsort, nd]


theorem n_m1 : matchP m2 [("id", .str "1")] n1 = true := by decide +kernel

theorem n_patch : V1.patchM na nd = .ok (.arr .set [n1, n2]) := by
  apply V1S.patchAll_single _ _ (nm_metaK K2 _ _ _)
  have := patchNode_keyed K2 .raw (Or.inl rfl) [("id", .str "1")] (.str "v") [] (by rfl)
    [.str "1"] [.str "9"] [] n1k [n2] (by simp) n_m1
  simp only [List.nil_append] at this
  unfold ap na
  rw [this]
  have h2 := ap_obj_str n1k "v" "0" "1" "9" (by simp [alookup])
  simp only [ap] at h2
  rw [h2]
  simp

theorem n_hf : V1S.HashFaithful m2 [.set] (subterms na ++ subterms nb) := by
  intro x hx y hy
  simp only [na, nb, subterms, subtermsList, subtermsKvs, List.cons_append, List.nil_append,
    List.append_nil, List.mem_cons, List.not_mem_nil, or_false] at hx hy
  rcases hx with rfl | rfl | rfl | rfl | rfl | rfl | rfl | rfl | rfl | rfl | rfl | rfl | rfl | rfl | rfl | rfl <;>
  rcases hy with rfl | rfl | rfl | rfl | rfl | rfl | rfl | rfl | rfl | rfl | rfl | rfl | rfl | rfl | rfl | rfl <;>
  first
  | (intro e; exact absurd e (by decide +kernel))
  | (intro _; simp [equivB, dispatchTag, allIn, allCovered, anyEquiv, equivKvs, alookup]; done)

theorem keytwin_breaks :
    na.setDoc = true ∧ nb.setDoc = true ∧ DPL.memOK na = true ∧ DPL.memOK nb = true ∧
    V1S.HashFaithful m2 [.set] (subterms na ++ subterms nb) ∧ KeyedDistinct m2 (subterms na) ∧
    HasKey ["id", "k"] (subterms na) ∧
    KindSepI m2 (subterms na) (subterms na ++ subterms nb) ∧ IdentInj m2 (subterms nb) ∧
    ¬ PathFaithful m2 ["id", "k"] (subterms na) ∧
    KeyTuple m2 ["id", "k"] (subterms na) (subterms nb) ∧
    V1.patchM na (V1.diffM m2 na nb) = .ok (.arr .set [n1, n2]) ∧
    V1.equals m2 (.arr .set [n1, n2]) nb = false := by
  refine ⟨by decide, by decide, by decide, by decide, n_hf,
    keyedDistinct_of_check (by decide +kernel),
    hasKey_of_check (by decide +kernel),
    kindSepI_of_check (by decide +kernel),
    identInj_of_check (by decide +kernel), ?_, keyTuple_of_check (by decide +kernel), ?_,
    by decide +kernel⟩
  · intro h
    exact absurd (h na (mem_subterms_self na)) (by decide +kernel)
  · rw [n_diff]; exact n_patch

/-! ### (4) a member with NONE of the set keys: `HasKey` is needed (on the model; on the Go code
      through the text)

  `[{"v":"1","w":"1"}]` → `[{"v":"2","w":"2"}]` under SET + setkeys(id). Both members have the identity
  of "no key present", the diff has two hunks, both addressed through the WHOLE first member
  (`pathObject` returns the member itself when it has none of the keys). After the first hunk the
  member no longer matches that path object: the second hunk is an ERROR.
  MODEL vs GO: on the Go library the path object IS the member (the same map), `Patch` mutates it
  in place, so IN MEMORY the second hunk still finds it and `a.Patch(a.Diff(b))` yields `b`; after
  `Render` / `ReadDiffString` the path object is a copy and `Patch` returns exactly this error
  ("expected object with id {"v":"1","w":"1"} but found none"). The model's `patchM a (diffM m a b)`
  applies the diff as a VALUE, i.e. it is the reading through the text (see the header). -/

abbrev hkk : List (String × Json) := [("v", .str "1"), ("w", .str "1")]
abbrev hx : Json := .obj hkk
abbrev hy : Json := .obj [("v", .str "2"), ("w", .str "2")]
def ha : Json := .arr .raw [hx]
def hb : Json := .arr .raw [hy]
abbrev hh1 : V1.Hunk :=
  { path := [.arr .raw (metaItems m1), .obj hkk, .str "v"], old := [.str "1"], new := [.str "2"] }
abbrev hh2 : V1.Hunk :=
  { path := [.arr .raw (metaItems m1), .obj hkk, .str "w"], old := [.str "1"], new := [.str "2"] }
def hd : V1.VDiff := [hh1, hh2]

theorem h_ident : V1.identOf m1 hy = V1.identOf m1 hx := by decide +kernel

theorem h_diff : V1.diffM m1 ha hb = hd := by
  unfold V1.diffM ha hb
  rw [show V1.hasMerge m1 = false from rfl, V1S.diffNode_set_set (m := m1) rfl]
  rw [V1S.diffSetElems_cons, V1S.diffSetElems_nil]
  simp [h_ident, V1.identLookup, ksort, kinsert, V1S.subOf, V1S.remOf, V1S.setAdd, hdedup, hsort]
  rw [V1P.diffNode_obj_obj, V1P.diffKvs_cons, V1P.diffKvs_cons, V1P.diffKvs_nil]
  simp [alookup, diff_str, V1S.appendIndex_eq, V1.pathObject, V1.keysOf, m1, hd]

theorem h_m1 : matchP m1 hkk hx = true := by decide +kernel
theorem h_m2 : matchP m1 hkk (.obj [("v", .str "2"), ("w", .str "1")]) = false := by
  decide +kernel

theorem h_patch : V1.patchM ha hd = .err := by
  unfold V1.patchM hd
  rw [V1S.patchAll_cons _ _ _ (nm_metaK K1 _ _ _)]
  have h1 : ap ha hh1 = .ok (.arr .set [.obj [("v", .str "2"), ("w", .str "1")]]) := by
    have := patchNode_keyed K1 .raw (Or.inl rfl) hkk (.str "v") [] (by rfl)
      [.str "1"] [.str "2"] [] hkk [] (by simp) h_m1
    simp only [List.nil_append] at this
    unfold ap ha
    rw [this]
    have h2 := ap_obj_str hkk "v" "1" "1" "2" (by simp [alookup])
    simp only [ap, if_true] at h2
    rw [h2]
    simp [DPL.aput, ainsert, Json.isVoid]
  rw [h1]
  simp only [Outcome.bind_ok]
  rw [V1S.patchAll_cons _ _ _ (nm_metaK K1 _ _ _)]
  have h2 : ap (.arr .set [.obj [("v", .str "2"), ("w", .str "1")]]) hh2 = .err := by
    unfold ap
    rw [patchNode_keyed_eq K1 .set (Or.inr rfl)]
    apply patchKeyed_none K1
    intro z hz
    simp only [List.mem_singleton] at hz
    subst hz
    exact h_m2
  rw [h2]
  rfl

theorem h_hf : V1S.HashFaithful m1 [.set] (subterms ha ++ subterms hb) := by
  intro x hx y hy
  simp only [ha, hb, subterms, subtermsList, subtermsKvs, List.cons_append, List.nil_append,
    List.append_nil, List.mem_cons, List.not_mem_nil, or_false] at hx hy
  rcases hx with rfl | rfl | rfl | rfl | rfl | rfl | rfl | rfl <;>
  rcases hy with rfl | rfl | rfl | rfl | rfl | rfl | rfl | rfl <;>
  first
  | (intro e; exact absurd e (by decide +kernel))
  | (intro _; simp [equivB, dispatchTag, allIn, allCovered, anyEquiv, equivKvs, alookup]; done)

theorem keyless_member_breaks :
    ha.setDoc = true ∧ hb.setDoc = true ∧ DPL.memOK ha = true ∧ DPL.memOK hb = true ∧
    V1S.HashFaithful m1 [.set] (subterms ha ++ subterms hb) ∧ KeyedDistinct m1 (subterms ha) ∧
    ¬ HasKey ["id"] (subterms ha) ∧
    KindSepI m1 (subterms ha) (subterms ha ++ subterms hb) ∧ IdentInj m1 (subterms hb) ∧
    PathFaithful m1 ["id"] (subterms ha) ∧ KeyTuple m1 ["id"] (subterms ha) (subterms hb) ∧
    V1.patchM ha (V1.diffM m1 ha hb) = .err := by
  refine ⟨by decide, by decide, by decide, by decide, h_hf,
    keyedDistinct_of_check (by decide +kernel), ?_,
    kindSepI_of_check (by decide +kernel),
    identInj_of_check (by decide +kernel), pathFaithful_of_check (by decide +kernel),
    keyTuple_of_check (by decide +kernel), ?_⟩
  · intro h
    exact absurd (h ha (mem_subterms_self ha)) (by decide +kernel)
  · rw [h_diff]; exact h_patch

/-! ### (5) two members of the TARGET with the same identity and different contents: `IdentInj` is
      needed

  `[{"id":"1","v":"1"}]` → `[{"id":"1","v":"1"},{"id":"1","v":"2"}]` under SET + setkeys(id): the set
  diff pairs the member with the LAST bearer of its identity in the target and emits the sub-diff
  towards it; nothing is added: the result `[{"id":"1","v":"2"}]` does not `Equals` the target
  (`Equals` compares arrays as sets of FULL hash codes, also under setkeys). -/

def ia : Json := .arr .raw [dx]
def ib : Json := .arr .raw [dx, dy]

theorem i_diff : V1.diffM m1 ia ib = dd := by
  unfold V1.diffM ia ib
  rw [show V1.hasMerge m1 = false from rfl, V1S.diffNode_set_set (m := m1) rfl]
  rw [V1S.diffSetElems_cons, V1S.diffSetElems_nil]
  simp [d_ident, V1.identLookup, ksort, kinsert, V1S.subOf, V1S.remOf, V1S.setAdd, hdedup, hsort]
  rw [V1P.diffNode_obj_obj, V1P.diffKvs_cons, V1P.diffKvs_cons, V1P.diffKvs_nil]
  simp [alookup, diff_str, V1S.appendIndex_eq, V1.pathObject, V1.keysOf, m1, dd]

theorem i_patch : V1.patchM ia dd = .ok (.arr .set [dy]) := by
  apply V1S.patchAll_single _ _ (nm_metaK K1 _ _ _)
  have := patchNode_keyed K1 .raw (Or.inl rfl) [("id", .str "1")] (.str "v") [] (by rfl)
    [.str "1"] [.str "2"] [] [("id", .str "1"), ("v", .str "1")] [] (by simp) d_m1
  simp only [List.nil_append] at this
  unfold ap ia
  rw [this]
  have h2 := ap_obj_str [("id", .str "1"), ("v", .str "1")] "v" "1" "1" "2" (by simp [alookup])
  simp only [ap, if_true] at h2
  rw [h2]
  simp [DPL.aput, ainsert, Json.isVoid]

theorem i_hf : V1S.HashFaithful m1 [.set] (subterms ia ++ subterms ib) := by
  intro x hx y hy
  simp only [ia, ib, subterms, subtermsList, subtermsKvs, List.cons_append, List.nil_append,
    List.append_nil, List.mem_cons, List.not_mem_nil, or_false] at hx hy
  rcases hx with rfl | rfl | rfl | rfl | rfl | rfl | rfl | rfl | rfl | rfl | rfl <;>
  rcases hy with rfl | rfl | rfl | rfl | rfl | rfl | rfl | rfl | rfl | rfl | rfl <;>
  first
  | (intro e; exact absurd e (by decide +kernel))
  | (intro _; simp [equivB, dispatchTag, allIn, allCovered, anyEquiv, equivKvs, alookup]; done)

theorem target_duplicate_breaks :
    ia.setDoc = true ∧ ib.setDoc = true ∧ DPL.memOK ia = true ∧ DPL.memOK ib = true ∧
    V1S.HashFaithful m1 [.set] (subterms ia ++ subterms ib) ∧ KeyedDistinct m1 (subterms ia) ∧
    HasKey ["id"] (subterms ia) ∧
    KindSepI m1 (subterms ia) (subterms ia ++ subterms ib) ∧ ¬ IdentInj m1 (subterms ib) ∧
    PathFaithful m1 ["id"] (subterms ia) ∧ KeyTuple m1 ["id"] (subterms ia) (subterms ib) ∧
    V1.patchM ia (V1.diffM m1 ia ib) = .ok (.arr .set [dy]) ∧
    V1.equals m1 (.arr .set [dy]) ib = false := by
  refine ⟨by decide, by decide, by decide, by decide, i_hf,
    keyedDistinct_of_check (by decide +kernel),
    hasKey_of_check (by decide +kernel),
    kindSepI_of_check (by decide +kernel), ?_, pathFaithful_of_check (by decide +kernel),
    keyTuple_of_check (by decide +kernel), ?_, by decide +kernel⟩
  · intro h
    exact absurd (h ib (mem_subterms_self ib)) (by decide +kernel)
  · rw [i_diff]; exact i_patch

/-! ### (6) KF-C04-alias for the v1 hashes: `HashFaithful` is needed for the `equivB` part

  `[[]]` → `[""]`: both members hash to the FNV offset basis; the diff is EMPTY, the result `Equals`
  the target and is not equivalent to it. -/

def la : Json := .arr .raw [.arr .raw []]
def lb : Json := .arr .raw [.str ""]

theorem l_diff : V1.diffM m1 la lb = [] := by
  have h0 : V1.identOf m1 (.arr .raw []) = V1.identOf m1 (.str "") := by decide +kernel
  unfold V1.diffM la lb
  rw [show V1.hasMerge m1 = false from rfl, V1S.diffNode_set_set (m := m1) rfl,
    V1S.diffSetElems_cons, V1S.diffSetElems_nil]
  simp [V1.identLookup, h0, V1S.setAdd, ksort, hsort, hdedup]


theorem alias_breaks_equivB :
    la.setDoc = true ∧ lb.setDoc = true ∧ DPL.memOK la = true ∧ DPL.memOK lb = true ∧
    ¬ V1S.HashFaithful m1 [.set] (subterms la ++ subterms lb) ∧ KeyedDistinct m1 (subterms la) ∧
    HasKey ["id"] (subterms la) ∧
    KindSepI m1 (subterms la) (subterms la ++ subterms lb) ∧ IdentInj m1 (subterms lb) ∧
    PathFaithful m1 ["id"] (subterms la) ∧ KeyTuple m1 ["id"] (subterms la) (subterms lb) ∧
    V1.patchM la (V1.diffM m1 la lb) = .ok la ∧ V1.equals m1 la lb = true ∧
    equivB [.set] la lb = false := by
  have he : equivB [.set] (.arr .raw []) (.str "") = false := by simp [equivB]
  refine ⟨by decide, by decide, by decide, by decide, ?_,
    keyedDistinct_of_check (by decide +kernel),
    hasKey_of_check (by decide +kernel),
    kindSepI_of_check (by decide +kernel), identInj_of_check (by decide +kernel),
    pathFaithful_of_check (by decide +kernel), keyTuple_of_check (by decide +kernel), ?_,
    by decide +kernel, ?_⟩
  · intro h
    have := h (.arr .raw []) (by simp [la, subterms, subtermsList]) (.str "")
      (by simp [lb, subterms, subtermsList]) (by decide +kernel)
    rw [he] at this
    cases this
  · rw [l_diff]; rfl
  · simp [la, lb, equivB, dispatchTag, allIn, allCovered, anyEquiv]

end Witness

/-! ## 2.10 non-vacuity of the SET + setkeys theorem -/

namespace ExampleK
open Witness (m1 K1)

/-- `[{"id":"1","t":[{"id":"7","w":"a"}],"v":"x"},{"id":"2","v":"y"},"s"]` -/
def exA : Json := .arr .raw [
  .obj [("id", .str "1"), ("t", .arr .raw [.obj [("id", .str "7"), ("w", .str "a")]]),
    ("v", .str "x")],
  .obj [("id", .str "2"), ("v", .str "y")], .str "s"]
/-- `[{"id":"1","t":[{"id":"7","w":"b"}],"v":"z"},{"id":"3","v":"y"},"s"]`: the member `1` is changed
    (a scalar field, and a member of a nested keyed set), `2` is removed, `3` is added, the scalar
    member `"s"` stays -/
def exB : Json := .arr .raw [
  .obj [("id", .str "1"), ("t", .arr .raw [.obj [("id", .str "7"), ("w", .str "b")]]),
    ("v", .str "z")],
  .obj [("id", .str "3"), ("v", .str "y")], .str "s"]

theorem ex_docs : exA.setDoc = true ∧ exB.setDoc = true ∧ DPL.memOK exA = true ∧
    DPL.memOK exB = true := by decide

theorem ex_hf : V1S.HashFaithful m1 [.set] (subterms exA ++ subterms exB) := by
  intro x hx y hy
  simp only [exA, exB, subterms, subtermsList, subtermsKvs, List.cons_append, List.nil_append,
    List.append_nil, List.mem_cons, List.not_mem_nil, or_false] at hx hy
  rcases hx with rfl | rfl | rfl | rfl | rfl | rfl | rfl | rfl | rfl | rfl | rfl | rfl | rfl | rfl | rfl | rfl | rfl | rfl | rfl | rfl | rfl | rfl | rfl | rfl | rfl | rfl <;>
  rcases hy with rfl | rfl | rfl | rfl | rfl | rfl | rfl | rfl | rfl | rfl | rfl | rfl | rfl | rfl | rfl | rfl | rfl | rfl | rfl | rfl | rfl | rfl | rfl | rfl | rfl | rfl <;>
  first
  | (intro e; exact absurd e (by decide +kernel))
  | (intro _; simp [equivB, dispatchTag, allIn, allCovered, anyEquiv, equivKvs, alookup]; done)

theorem ex_keysHyp : KeysHyp m1 ["id"] exA exB where
  hf := ex_hf
  kd := keyedDistinct_of_check (by decide +kernel)
  hk := hasKey_of_check (by decide +kernel)
  ksep := kindSepI_of_check (by decide +kernel)
  ib := identInj_of_check (by decide +kernel)
  pf := pathFaithful_of_check (by decide +kernel)
  kt := keyTuple_of_check (by decide +kernel)

/-- the pair satisfies every hypothesis of the SET + setkeys theorem (only the IEEE-754 laws are
    assumed): the library patches `exA` with its own diff to a document that `Equals` `exB`. (On
    the Go library: three hunks, `@ [["set","setkeys=id"],{"id":"1"},"t",["set","setkeys=id"],{"id":"7"},"w"]`,
    `@ [["set","setkeys=id"],{"id":"1"},"v"]`, `@ [["set","setkeys=id"],{}]`; result `Equals` the target.) -/
theorem ex_run (F : FloatEq0) (L : FloatLaws) :
    ∃ r, V1.patchM exA (V1.diffM m1 exA exB) = .ok r ∧ V1.equals m1 r exB = true ∧
      equivB [.set] r exB = true ∧ V1.hashCode m1 r = V1.hashCode m1 exB :=
  v1_diff_patch_setkeys F L K1 exA exB ex_docs.1 ex_docs.2.1 ex_docs.2.2.1 ex_docs.2.2.2 ex_keysHyp

end ExampleK
end Jd.V1K
