/-
  JdProofs.NativeEndToEndPrecision — property C02 ("a diff printed by `jd a b` and applied with
  `jd -p` turns a into b"), END TO END THROUGH THE TEXT, for the option combinations that
  JdProofs.NativeEndToEnd / …Set / …Keys leave out: a `Precision(eps)` option TOGETHER WITH the
  SET / MULTISET / SetKeys reading (strict strategy and MERGE), MERGE + Precision in the LIST
  reading, and the colour output.  Namespace `Jd.E2EP`.  Statement file: JdProps/C02Precision.lean.

  §1 SET / MULTISET + Precision, strict strategy.  `SP.diffM_strip`: in the set readings
     `diffM o a b = diffM (stripPrec o) a b` on raw documents, so every premise / text theorem of
     `Jd.E2ES` transfers LITERALLY (same diff, same text): `diffM_premises_set_precision`,
     `diffM_codecOK_set_precision`, `diffM_renders_set_precision`, `diff_text_lossless_set_precision`;
     the end-to-end theorems `diff_render_read_patch_set_precision`,
     `diff_print_read_patch_set_precision` conclude `equals o r b` through `SP.equals_mono`
     (`PrecMono o`), plus `equals (stripPrec o) r b`, `equivB (stripPrec o) r b`, and `equivB o r b`
     in the SET reading (`SP.equivB_mono_set`; not available for MULTISET: the greedy bag matching
     of the spec, `SP.Witness.greedy_bag_not_monotone`).
  §2 SetKeys + Precision, strict strategy: `diff_render_read_patch_setkeys_precision`,
     `diff_print_read_patch_setkeys_precision` (`DPK.KeysHyp` read for `stripPrec o`).  The lossless
     theorem `E2EK.diff_text_lossless_setkeys` never had a hypothesis on the precision.
  §3 MERGE + SET / MULTISET + Precision: `diff_text_lossless_mergeSet_precision`,
     `diff_render_read_patch_mergeSet_precision`, `diff_print_read_patch_mergeSet_precision`
     (`E2ES.SetMergeDom (stripPrec o) a b`, written out).
  §4 MERGE + Precision, LIST reading, through the text.  Here the diff DOES depend on the precision
     (arrays within eps are not reported), so nothing transfers: `memSoundU_list_precision` re-runs the
     induction of `MP.memSound_list` for the diff AS READ BACK (untagged values), then
     `diff_render_read_patch_mergeList_precision`, `diff_print_read_patch_mergeList_precision`,
     `readDiffM_patchM_MERGE_precision` (the CLI's option list `[MERGE, Precision(eps)]`).
     Hypotheses as in `MP`: `nonnegBits (precOf o)` (needed: `MP.Witness.negative_precision_breaks`),
     `PrecMono o`, `FloatLaws`.  `specEq r b` is NOT concluded (false: `MP.Witness.specEq_fails_array`).
  §5 colour.  `NativeRT.renderM_color_strip` (colour = plain + ANSI, INCLUDING the character-level
     diff of a hunk that removes one string and adds one string: the model's `colorStringMarshal` is
     the Go function, rune by rune, over the ESCAPED body, greedy against the LCS of the raw runes)
     holds under the contract `NoEsc nc d`.  Here:
     §5a * `NoEscVal` / `NoEscPath`, `noEsc_list`, `noEsc_set`, `noEsc_setkeys`, `noEsc_mergeList`,
           `noEsc_mergeSet`: `NoEsc nc (diffM o a b)` for every reading (with or without a
           Precision), from the contract on the SUB-TERMS of the two documents and on the paths;
         * `noEscVal_str`, `color_strip_char_level`: the character-level colouring strips to the
           plain text for ALL strings (no contract on the strings: encoding/json escapes ESC);
         * `color_text_then_strip`, `color_text_exists`: `Render(COLOR)` gives `ctext` iff `Render()`
           gives `stripAnsi ctext`; hence every end-to-end theorem applies to the colour text once
           the ANSI sequences are stripped (`color_strip_end_to_end_set_precision` is the instance
           for SET / MULTISET + Precision).
     §5b the colour text ITSELF is not input for the reader:
         * `esc_line_not_read`: a text with a line (not the first) that starts with ESC is never
           read as a diff (`allows_esc`: the reader allows the header ESC in no state);
         * `renderHunk_color_esc_line`: the colour text of a hunk that prints at least one `-` / `+`
           line (`printsChange`, implied by `wfHunk`) and is not of the shape "one string removed,
           one string added" HAS such a line (the colour code is written BEFORE the header);
         * `color_hunk_not_read`, `color_diff_not_read`: so `ReadDiffString` returns no diff;
         * `CharWitness.char_level_not_read`: for the character-level shape (`"ab"` → `"ac"`) no line
           starts with ESC, but the ESC sits inside the JSON string, which the JSON reader rejects;
         * `CharWitness.same_string_is_read`: the degenerate hunk that removes and adds the SAME
           string is coloured nowhere and IS read back: "never readable" is false for it.
  §6 non-vacuity (`Example`): `{"n":1,"s":[1,{"k":2}]}` → `{"n":3,"s":[{"k":2},3]}` with
     `Precision(0.001)` under SET, MULTISET (`ex_set_precision`), MERGE+SET / MERGE+MULTISET
     (`ex_mergeSet_precision`), MERGE in the list reading (`ex_mergeList_precision`), colour
     (`ex_color`): every hypothesis is proved (codec contract by evaluation, numbers included);
     only `FloatEq0` / `FloatLaws` / `PrecMono` remain.
  §7 the float hypotheses are needed THROUGH THE TEXT too: `Witness.precMono_needed_text` (every
     reading), `Witness.negative_precision_breaks_text` (`nonnegBits`, MERGE + Precision, list reading).
  NOT PROVED: SetKeys + MERGE (+ Precision) through the text (no end-to-end theorem exists without
  a Precision either; in memory: `SP.merge_diff_then_patch_setkeys_precision_iff`); that `ValOK`
  implies `NoEscVal` (true of the JSON reader — it rejects raw control characters — not proved).
-/
import JdModel
import JdSpec
import JdProofs.NativeRoundTrip
import JdProofs.Robust
import JdProofs.NativeEndToEnd
import JdProofs.NativeEndToEndSet
import JdProofs.NativeEndToEndKeys
import JdProofs.NativeEndToEndKeysB
import JdProofs.SetPrecision
import JdProofs.MergePrecision

set_option autoImplicit false

namespace Jd.E2EP
open Jd Jd.Spec Jd.NativeRT Jd.Robust Jd.SetDP
open Jd.SP (stripPrec)
open Jd.DPL (PrecMono)

/-! ## 1. SET / MULTISET readings with a Precision option, strict strategy -/

/-- the diff of a set reading with a precision is the diff without it (`DES.SetReading` form) -/
theorem diffM_strip_reading {o : Opts} (hm : DES.SetReading o) (a b : Json) (ha : a.rawDoc = true) :
    diffM o a b = diffM (stripPrec o) a b :=
  SP.diffM_strip o (SP.setReading_modes hm) a b ha

theorem isMerge_strip_false {o : Opts} (h : isMerge o = false) : isMerge (stripPrec o) = false := by
  simpa using h

theorem isMerge_strip_true {o : Opts} (h : isMerge o = true) : isMerge (stripPrec o) = true := by
  simpa using h

/-- **the premises of the text theorems hold of `a.Diff(b, SET|MULTISET, Precision(eps))`** -/
theorem diffM_premises_set_precision {o : Opts} (hm : DES.SetReading o) (hmg : isMerge o = false)
    (a b : Json) (ha : a.rawDoc = true) (hwa : a.wf = true) (hb : b.rawDoc = true)
    (hwb : b.wf = true) (hva : E2E.voidFree a = true) (hvb : E2E.voidFree b = true)
    (FH : DES.DiffFaithful (stripPrec o) (subterms a) (subterms b)) :
    wfDiff (diffM o a b) = true ∧ (diffM o a b).all rawHunk = true ∧
    noEmptySetKeys (diffM o a b) = true ∧ (diffM o a b).all voidOK = true ∧
    (diffM o a b).all listDocHunk = true ∧
    (∀ h ∈ diffM o a b, h.merge = false ∧ h.before = [] ∧ h.after = [] ∧
      E2ES.SPath (E2E.docKeys a ++ E2E.docKeys b) h.path) := by
  rw [diffM_strip_reading hm a b ha]
  exact E2ES.diffM_premises_set (SP.setReading_strip hm) (SP.precOf_strip o) (isMerge_strip_false hmg)
    a b ha hwa hb hwb hva hvb FH

/-- every payload value of the diff is (literally) a sub-term of `a` or of `b` -/
theorem diffM_payloads_set_precision {o : Opts} (hm : DES.SetReading o) (hmg : isMerge o = false)
    (a b : Json) (ha : a.rawDoc = true) (hwa : a.wf = true) (hb : b.rawDoc = true)
    (hwb : b.wf = true) (hva : E2E.voidFree a = true) (hvb : E2E.voidFree b = true)
    (FH : DES.DiffFaithful (stripPrec o) (subterms a) (subterms b)) :
    ∀ h ∈ diffM o a b, ∀ v ∈ payloads h, v ∈ subterms a ++ subterms b := by
  rw [diffM_strip_reading hm a b ha]
  exact E2ES.diffM_payloads_set (SP.setReading_strip hm) (SP.precOf_strip o) (isMerge_strip_false hmg)
    a b ha hwa hb hwb hva hvb FH

theorem diffM_codecOK_set_precision (nc : NumCodec) {o : Opts} (hm : DES.SetReading o)
    (hmg : isMerge o = false) (a b : Json) (ha : a.rawDoc = true) (hwa : a.wf = true)
    (hb : b.rawDoc = true) (hwb : b.wf = true) (hva : E2E.voidFree a = true)
    (hvb : E2E.voidFree b = true) (FH : DES.DiffFaithful (stripPrec o) (subterms a) (subterms b))
    (hv : ∀ z ∈ subterms a ++ subterms b, ValOK nc z)
    (hpth : ∀ h ∈ diffM o a b, PathOK nc h.path) :
    CodecOK nc (diffM o a b) :=
  fun h hh => ⟨hpth h hh, fun v hv' =>
    hv v (diffM_payloads_set_precision hm hmg a b ha hwa hb hwb hva hvb FH h hh v hv')⟩

/-- the input-level form of the path hypothesis -/
theorem diffM_pathOK_of_inputs_set_precision (nc : NumCodec) {o : Opts} (hm : DES.SetReading o)
    (hmg : isMerge o = false) (a b : Json) (ha : a.rawDoc = true)
    (hwa : a.wf = true) (hb : b.rawDoc = true) (hwb : b.wf = true)
    (hva : E2E.voidFree a = true) (hvb : E2E.voidFree b = true)
    (FH : DES.DiffFaithful (stripPrec o) (subterms a) (subterms b))
    (hpaths : ∀ p, E2ES.SPath (E2E.docKeys a ++ E2E.docKeys b) p → PathOK nc p) :
    ∀ h ∈ diffM o a b, PathOK nc h.path :=
  fun h hh => hpaths _
    ((diffM_premises_set_precision hm hmg a b ha hwa hb hwb hva hvb FH).2.2.2.2.2 h hh).2.2.2

theorem diffM_renders_set_precision (nc : NumCodec) {o : Opts} (hm : DES.SetReading o)
    (hmg : isMerge o = false) (a b : Json) (ha : a.rawDoc = true) (hwa : a.wf = true)
    (hb : b.rawDoc = true) (hwb : b.wf = true) (hva : E2E.voidFree a = true)
    (hvb : E2E.voidFree b = true) (FH : DES.DiffFaithful (stripPrec o) (subterms a) (subterms b))
    (hmv : ∀ z ∈ subterms a ++ subterms b, (marshalNode nc z).isSome = true)
    (hmp : ∀ h ∈ diffM o a b, (jsonM nc (pathToJson h.path)).isSome = true) :
    ∃ text, renderM nc [] (diffM o a b) = some text := by
  rw [diffM_strip_reading hm a b ha] at hmp ⊢
  exact E2ES.diffM_renders_set nc (SP.setReading_strip hm) (SP.precOf_strip o)
    (isMerge_strip_false hmg) a b ha hwa hb hwb hva hvb FH hmv hmp

/-- **C02 proper for diffs produced under SET / MULTISET with a Precision (strict strategy)**: the
    printed text is read back as a diff that renders to the IDENTICAL text and has EXACTLY the same
    outcome as `a.Diff(b, o)` on EVERY document -/
theorem diff_text_lossless_set_precision (nc : NumCodec) {o : Opts} (hm : DES.SetReading o)
    (hmg : isMerge o = false) (a b : Json) (ha : a.rawDoc = true)
    (hwa : a.wf = true) (hb : b.rawDoc = true) (hwb : b.wf = true)
    (hva : E2E.voidFree a = true) (hvb : E2E.voidFree b = true)
    (FH : DES.DiffFaithful (stripPrec o) (subterms a) (subterms b))
    (hv : ∀ z ∈ subterms a ++ subterms b, ValOK nc z)
    (hpth : ∀ h ∈ diffM o a b, PathOK nc h.path)
    (text : String) (hr : renderM nc [] (diffM o a b) = some text) :
    ∃ d', readDiffM nc text = .ok d' ∧ renderM nc [] d' = some text ∧
      ∀ c : Json, patchM c d' = patchM c (diffM o a b) := by
  rw [diffM_strip_reading hm a b ha] at hpth hr ⊢
  exact E2ES.diff_text_lossless_set nc (SP.setReading_strip hm) (SP.precOf_strip o)
    (isMerge_strip_false hmg) a b ha hwa hb hwb hva hvb FH hv hpth text hr

theorem rawDoc_of_setDoc {a : Json} (ha : a.setDoc = true) : a.rawDoc = true := by
  have := ha; simp only [Json.setDoc, Bool.and_eq_true] at this; exact this.1.1.1

/-- **C02 end to end, SET / MULTISET + Precision, strict strategy.** The text printed for
    `a.Diff(b, o)` is read back as `d' = normDiff (a.Diff(b, o))`, and the library's `a.Patch(d')`
    succeeds with THE SAME document `r` as the in-memory patch; `r` `Equals` `b` under `o`, and even
    without the precision (`Equals` and `equivB`); in the SET reading `r` is equivalent to `b` for the
    advertised equivalence under `o`. -/
theorem diff_render_read_patch_set_precision (F : FloatEq0) (L : FloatLaws) (nc : NumCodec)
    (o : Opts) (hm : dispatchTag o = .set ∨ dispatchTag o = .mset) (hk : keysOf o = none)
    (hmg : isMerge o = false) (M : PrecMono o) (a b : Json)
    (ha : a.setDoc = true) (hb : b.setDoc = true)
    (hva : E2E.voidFree a = true) (hvb : E2E.voidFree b = true)
    (HF : HashFaithful (stripPrec o) (subterms a ++ subterms b))
    (hv : ∀ z ∈ subterms a ++ subterms b, ValOK nc z)
    (hpth : ∀ h ∈ diffM o a b, PathOK nc h.path)
    (text : String) (hr : renderM nc [] (diffM o a b) = some text) :
    ∃ d', readDiffM nc text = .ok d' ∧ d' = normDiff (diffM o a b) ∧
      ∃ r, patchM a d' = .ok r ∧ patchM a (diffM o a b) = .ok r ∧
        equals o r b = true ∧ equals (stripPrec o) r b = true ∧
        equivB (stripPrec o) r b = true ∧ (dispatchTag o = .set → equivB o r b = true) := by
  have har := rawDoc_of_setDoc ha
  rw [SP.diffM_strip o hm a b har] at hpth hr ⊢
  obtain ⟨d', h1, h2, r, h3, h4, h5, h6⟩ := E2ES.diff_render_read_patch_set F L nc (stripPrec o)
    (by simpa using hm) (by simpa using hk) (isMerge_strip_false hmg) (SP.precOf_strip o) a b ha hb
    hva hvb HF hv hpth text hr
  exact ⟨d', h1, h2, r, h3, h4,
    SP.equals_mono (SP.dispatchTag_strip o) (SP.precOf_strip o) M r b h6, h6, h5,
    fun hd => SP.equivB_mono_set (SP.dispatchTag_strip o) hd (SP.precOf_strip o) M r b h5⟩

/-- **end to end, SET / MULTISET + Precision, total form**: the text EXISTS, is read back, and the
    diff read back patches `a` to a document that `Equals` `b` under the options -/
theorem diff_print_read_patch_set_precision (F : FloatEq0) (L : FloatLaws) (nc : NumCodec)
    (o : Opts) (hm : dispatchTag o = .set ∨ dispatchTag o = .mset) (hk : keysOf o = none)
    (hmg : isMerge o = false) (M : PrecMono o) (a b : Json)
    (ha : a.setDoc = true) (hb : b.setDoc = true)
    (hva : E2E.voidFree a = true) (hvb : E2E.voidFree b = true)
    (HF : HashFaithful (stripPrec o) (subterms a ++ subterms b))
    (hv : ∀ z ∈ subterms a ++ subterms b, (marshalNode nc z).isSome = true ∧ ValOK nc z)
    (hpth : ∀ h ∈ diffM o a b, (jsonM nc (pathToJson h.path)).isSome = true ∧ PathOK nc h.path) :
    ∃ text d' r, renderM nc [] (diffM o a b) = some text ∧ readDiffM nc text = .ok d' ∧
      patchM a d' = .ok r ∧ equals o r b = true ∧ equivB (stripPrec o) r b = true ∧
      (dispatchTag o = .set → equivB o r b = true) := by
  have har := rawDoc_of_setDoc ha
  have key := E2ES.diff_print_read_patch_set F L nc (stripPrec o)
    (by simpa using hm) (by simpa using hk) (isMerge_strip_false hmg) (SP.precOf_strip o) a b ha hb
    hva hvb HF hv (by rw [← SP.diffM_strip o hm a b har]; exact hpth)
  rw [← SP.diffM_strip o hm a b har] at key
  obtain ⟨text, d', r, h1, h2, h3, h4, h5⟩ := key
  exact ⟨text, d', r, h1, h2, h3,
    SP.equals_mono (SP.dispatchTag_strip o) (SP.precOf_strip o) M r b h5, h4,
    fun hd => SP.equivB_mono_set (SP.dispatchTag_strip o) hd (SP.precOf_strip o) M r b h4⟩

/-! ## 2. SetKeys reading with a Precision option, strict strategy -/

/-- **C02 end to end, SetKeys + Precision, strict strategy** -/
theorem diff_render_read_patch_setkeys_precision (F : FloatEq0) (L : FloatLaws) (nc : NumCodec)
    (o : Opts) (ks : List String) (hd : dispatchTag o = .set) (hk : keysOf o = some ks)
    (hmg : isMerge o = false) (M : PrecMono o) (hks : ks ≠ []) (a b : Json)
    (ha : a.setDoc = true) (hb : b.setDoc = true)
    (hva : E2E.voidFree a = true) (hvb : E2E.voidFree b = true)
    (KH : DPK.KeysHyp (stripPrec o) ks a b)
    (hv : ∀ z ∈ subterms a ++ subterms b, ValOK nc z)
    (hpth : ∀ h ∈ diffM o a b, PathOK nc h.path)
    (text : String) (hr : renderM nc [] (diffM o a b) = some text) :
    ∃ d', readDiffM nc text = .ok d' ∧ d' = normDiff (diffM o a b) ∧
      ∃ r, patchM a d' = .ok r ∧ patchM a (diffM o a b) = .ok r ∧
        equals o r b = true ∧ equivB o r b = true ∧ equals (stripPrec o) r b = true ∧
        equivB (stripPrec o) r b = true ∧ hashCode o r = hashCode o b := by
  have har := rawDoc_of_setDoc ha
  rw [SP.diffM_strip o (.inl hd) a b har] at hpth hr ⊢
  obtain ⟨d', h1, h2, r, h3, h4, h5, h6, h7⟩ := E2EK.diff_render_read_patch_setkeys F L nc
    (stripPrec o) ks (by simpa using hd) (by simpa using hk) (isMerge_strip_false hmg)
    (SP.precOf_strip o) hks a b ha hb hva hvb KH hv hpth text hr
  refine ⟨d', h1, h2, r, h3, h4,
    SP.equals_mono (SP.dispatchTag_strip o) (SP.precOf_strip o) M r b h5,
    SP.equivB_mono_set (SP.dispatchTag_strip o) hd (SP.precOf_strip o) M r b h6, h5, h6, ?_⟩
  rw [← SP.hashCode_strip, ← SP.hashCode_strip o b]; exact h7

/-- **end to end, SetKeys + Precision, total form** -/
theorem diff_print_read_patch_setkeys_precision (F : FloatEq0) (L : FloatLaws) (nc : NumCodec)
    (o : Opts) (ks : List String) (hd : dispatchTag o = .set) (hk : keysOf o = some ks)
    (hmg : isMerge o = false) (M : PrecMono o) (hks : ks ≠ []) (a b : Json)
    (ha : a.setDoc = true) (hb : b.setDoc = true)
    (hva : E2E.voidFree a = true) (hvb : E2E.voidFree b = true)
    (KH : DPK.KeysHyp (stripPrec o) ks a b)
    (hv : ∀ z ∈ subterms a ++ subterms b, (marshalNode nc z).isSome = true ∧ ValOK nc z)
    (hpth : ∀ h ∈ diffM o a b, (jsonM nc (pathToJson h.path)).isSome = true ∧ PathOK nc h.path) :
    ∃ text d' r, renderM nc [] (diffM o a b) = some text ∧ readDiffM nc text = .ok d' ∧
      patchM a d' = .ok r ∧ equals o r b = true ∧ equivB o r b = true := by
  have har := rawDoc_of_setDoc ha
  have hbr := rawDoc_of_setDoc hb
  obtain ⟨text, ht⟩ := E2EK.diffM_renders_setkeys nc hd hk hmg a b har hbr hva hvb
    (fun z hz => (hv z hz).1) (fun h hh => (hpth h hh).1)
  obtain ⟨d', h1, _, r, h2, _, h3, h4, _⟩ := diff_render_read_patch_setkeys_precision F L nc o ks
    hd hk hmg M hks a b ha hb hva hvb KH (fun z hz => (hv z hz).2) (fun h hh => (hpth h hh).2) text ht
  exact ⟨text, d', r, ht, h1, h2, h3, h4⟩

/-! ## 3. MERGE with SET / MULTISET and a Precision option -/

/-- the domain of `E2ES` section 9, read without the precision -/
theorem setMergeDom_strip {o : Opts} {a b : Json} (hmg : isMerge o = true)
    (hm : dispatchTag o = .set ∨ dispatchTag o = .mset) (hk : keysOf o = none)
    (ha : a.setDoc = true) (hb : b.setDoc = true) (hn : b.nullFree = true)
    (hvf : Merge.objVoidFree b = true) (HF : HashFaithful (stripPrec o) (subterms a ++ subterms b)) :
    E2ES.SetMergeDom (stripPrec o) a b :=
  ⟨isMerge_strip_true hmg, by simpa using hm, by simpa using hk, SP.precOf_strip o, ha, hb, hn, hvf, HF⟩

/-- **C02 proper, MERGE + SET / MULTISET + Precision**: identical text when rendered again; same
    effect on EVERY document up to the Go type of array nodes of the result -/
theorem diff_text_lossless_mergeSet_precision (F : FloatEq0) (nc : NumCodec) {o : Opts} {a b : Json}
    (hmg : isMerge o = true) (hm : dispatchTag o = .set ∨ dispatchTag o = .mset)
    (hk : keysOf o = none) (ha : a.setDoc = true) (hb : b.setDoc = true)
    (hn : b.nullFree = true) (hvf : Merge.objVoidFree b = true)
    (HF : HashFaithful (stripPrec o) (subterms a ++ subterms b))
    (hv : ∀ z ∈ subterms b, ValOK nc z) (hpth : ∀ h ∈ diffM o a b, PathOK nc h.path)
    (text : String) (hr : renderM nc [] (diffM o a b) = some text) :
    ∃ d', readDiffM nc text = .ok d' ∧ renderM nc [] d' = some text ∧
      ∀ c : Json,
        Outcome.mapO untag (patchM c d') = Outcome.mapO untag (patchM c (diffM o a b)) := by
  rw [SP.diffM_strip o hm a b (rawDoc_of_setDoc ha)] at hpth hr ⊢
  exact E2ES.diff_text_lossless_mergeSet F nc (setMergeDom_strip hmg hm hk ha hb hn hvf HF) hv hpth
    text hr

/-- **C02 end to end, MERGE + SET / MULTISET + Precision** -/
theorem diff_render_read_patch_mergeSet_precision (F : FloatEq0) (L : FloatLaws) (nc : NumCodec)
    {o : Opts} {a b : Json} (hmg : isMerge o = true)
    (hm : dispatchTag o = .set ∨ dispatchTag o = .mset) (hk : keysOf o = none) (M : PrecMono o)
    (ha : a.setDoc = true) (hb : b.setDoc = true)
    (hn : b.nullFree = true) (hvf : Merge.objVoidFree b = true)
    (HF : HashFaithful (stripPrec o) (subterms a ++ subterms b))
    (hv : ∀ z ∈ subterms b, ValOK nc z) (hpth : ∀ h ∈ diffM o a b, PathOK nc h.path)
    (text : String) (hr : renderM nc [] (diffM o a b) = some text) :
    ∃ d', readDiffM nc text = .ok d' ∧ d' = normDiff (diffM o a b) ∧
      ∃ r, patchM a d' = .ok r ∧ equals o r b = true ∧ equals (stripPrec o) r b = true ∧
        equivB (stripPrec o) r b = true ∧ (dispatchTag o = .set → equivB o r b = true) := by
  rw [SP.diffM_strip o hm a b (rawDoc_of_setDoc ha)] at hpth hr ⊢
  obtain ⟨d', h1, h2, r, h3, h4, h5⟩ := E2ES.diff_render_read_patch_mergeSet F L nc
    (setMergeDom_strip hmg hm hk ha hb hn hvf HF) hv hpth text hr
  exact ⟨d', h1, h2, r, h3,
    SP.equals_mono (SP.dispatchTag_strip o) (SP.precOf_strip o) M r b h4, h4, h5,
    fun hd => SP.equivB_mono_set (SP.dispatchTag_strip o) hd (SP.precOf_strip o) M r b h5⟩

/-- **end to end, MERGE + SET / MULTISET + Precision, total form** -/
theorem diff_print_read_patch_mergeSet_precision (F : FloatEq0) (L : FloatLaws) (nc : NumCodec)
    {o : Opts} {a b : Json} (hmg : isMerge o = true)
    (hm : dispatchTag o = .set ∨ dispatchTag o = .mset) (hk : keysOf o = none) (M : PrecMono o)
    (ha : a.setDoc = true) (hb : b.setDoc = true)
    (hn : b.nullFree = true) (hvf : Merge.objVoidFree b = true)
    (HF : HashFaithful (stripPrec o) (subterms a ++ subterms b))
    (hv : ∀ z ∈ subterms b, (marshalNode nc z).isSome = true ∧ ValOK nc z)
    (hpth : ∀ h ∈ diffM o a b, (jsonM nc (pathToJson h.path)).isSome = true ∧ PathOK nc h.path) :
    ∃ text d' r, renderM nc [] (diffM o a b) = some text ∧ readDiffM nc text = .ok d' ∧
      patchM a d' = .ok r ∧ equals o r b = true ∧ equivB (stripPrec o) r b = true ∧
      (dispatchTag o = .set → equivB o r b = true) := by
  have har := rawDoc_of_setDoc ha
  have D := setMergeDom_strip hmg hm hk ha hb hn hvf HF
  have hmp : ∀ h ∈ diffM (stripPrec o) a b, (jsonM nc (pathToJson h.path)).isSome = true := by
    rw [← SP.diffM_strip o hm a b har]; exact fun h hh => (hpth h hh).1
  obtain ⟨text, ht⟩ := E2ES.diffM_renders_mergeSet F nc D (fun z hz => (hv z hz).1) hmp
  rw [← SP.diffM_strip o hm a b har] at ht
  obtain ⟨d', h1, _, r, h2, h3, _, h5, h6⟩ := diff_render_read_patch_mergeSet_precision F L nc hmg hm
    hk M ha hb hn hvf HF (fun z hz => (hv z hz).2) (fun h hh => (hpth h hh).2) text ht
  exact ⟨text, d', r, ht, h1, h2, h3, h5, h6⟩

/-! ## 4. MERGE + Precision in the LIST reading, through the text -/

section MergeListPrecision
open Jd.Merge (mh mapply mset consE objVoidFree objVoidFreeKvs dl dlKvs GoodB)
open Jd.MSet (Rel)
open Jd.E2ES (untagE)

/-- **C01 for the merge diff AS READ BACK (values untagged), list reading, with a Precision**: the
    induction of `MP.memSound_list`, run for the untagged pure diff (`E2ES.memSoundU_list` is the
    case `precOf o = 0`). `b` may contain nulls. -/
theorem memSoundU_list_precision (L : FloatLaws) (o : Opts) (ho : dispatchTag o = .list)
    (hp : nonnegBits (precOf o) = true) (M : PrecMono o) :
    ∀ a : Json, a.wf = true → a.rawDoc = true → ∀ b : Json, MP.GoodN b →
      Rel o (mapply ((dl o a b).map untagE) a) b := by
  have single : ∀ a b : Json, MP.GoodN b → dl o a b = [([], b)] →
      Rel o (mapply ((dl o a b).map untagE) a) b := by
    intro a b G h
    rw [h]
    simpa [untagE, untag_rawDoc b G.raw, mapply, mset] using MP.goodN_rel L o ho hp G
  have scalar : ∀ a b : Json, a.isObj = false → Merge.isArr a = false → MP.GoodN b →
      Rel o (mapply ((dl o a b).map untagE) a) b := by
    intro a b h1 h2 G
    cases he : equals [] a b with
    | true =>
      rw [Merge.dl_scalar o h1 h2 b, he]
      simpa [mapply] using MP.rel_scalar_of_equals_nil o M h1 h2 he
    | false =>
      exact single a b G (by rw [Merge.dl_scalar o h1 h2 b, he]; rfl)
  intro a
  induction a using jsonInd with
  | void => intro _ _ b G; exact scalar _ b rfl rfl G
  | null => intro _ _ b G; exact scalar _ b rfl rfl G
  | bool x => intro _ _ b G; exact scalar _ b rfl rfl G
  | num x => intro _ _ b G; exact scalar _ b rfl rfl G
  | str x => intro _ _ b G; exact scalar _ b rfl rfl G
  | arr t xs _ =>
    intro hw hr b G
    cases b with
    | arr t' ys =>
      have hrt : t = .raw := by
        simp only [Json.rawDoc, Bool.and_eq_true, beq_iff_eq] at hr; exact hr.1
      have hG := G.raw
      simp only [Json.rawDoc, Bool.and_eq_true, beq_iff_eq] at hG
      obtain ⟨hrt', hry⟩ := hG
      subst hrt; subst hrt'
      cases he : equals o (.arr .list xs) (.arr .list ys) with
      | true =>
        have := MP.memSound_list L o ho hp M (.arr .raw xs) hw hr (.arr .raw ys) G
        unfold DPK.MemSound at this
        rw [Merge.dl_arr_arr, he] at this ⊢
        simpa using this
      | false =>
        rw [Merge.dl_arr_arr, he]
        have e : untag (.arr .list ys) = .arr .raw ys := by
          simp only [untag, untagList_rawDoc ys hry]
        simpa [untagE, e, mapply, mset] using MP.goodN_rel L o ho hp G
    | _ => exact single _ _ G (Merge.dl_arr_other o t xs rfl)
  | obj kvs ih =>
    intro hw hr b G
    cases b with
    | obj kvs' =>
      simp only [Json.wf, Bool.and_eq_true] at hw
      simp only [Json.rawDoc] at hr
      have hs' : keysSorted kvs' = true := by
        have := G.wf; simp only [Json.wf, Bool.and_eq_true] at this; exact this.1
      have hr' : rawDocKvs kvs' = true := by have := G.raw; simpa only [Json.rawDoc] using this
      have PM := E2ES.pureMerge_dl o
      rw [Merge.dl_obj_obj, List.map_append, E2ES.untagE_adds hr']
      refine DPK.obj_step o (fun a b => (dl o a b).map untagE)
        (fun kvs' kvs => (dlKvs o kvs' kvs).map untagE) kvs kvs' (E2ES.mapU_nil PM kvs')
        (E2ES.mapU_cons PM kvs') hw.1 hs' (fun j v' hj => (G.member hj).notVoid) ?_ ?_
      · intro j v v' hja hjb
        exact ih j v (mem_of_alookup hja) (alookup_wf hja hw.2) (alookup_rawDoc hja hr) v'
          (G.member hjb)
      · intro j v' _ hjb
        exact MP.goodN_rel L o ho hp (G.member hjb)
    | _ => exact single _ _ G (Merge.dl_obj_other o kvs rfl)

/-- **C02 end to end, MERGE strategy WITH a Precision, list reading of arrays.** The text printed
    for `a.Diff(b, MERGE, Precision(eps))` is read back as `d' = normDiff` of the diff (the same merge
    hunks, values as plain arrays), and the library's `a.Patch(d')` succeeds with a document that
    `Equals` `b` under the options and is equivalent to it (`equivB o`).  `b` may contain nulls. -/
theorem diff_render_read_patch_mergeList_precision (L : FloatLaws) (nc : NumCodec) (o : Opts)
    (hm : isMerge o = true) (ho : dispatchTag o = .list)
    (hp : nonnegBits (precOf o) = true) (M : PrecMono o) (a b : Json)
    (haw : a.wf = true) (har : a.rawDoc = true)
    (hbw : b.wf = true) (hbr : b.rawDoc = true)
    (hbv : objVoidFree b = true) (hbf : b.finiteNums = true)
    (hv : ∀ z ∈ subterms b, ValOK nc z)
    (hpth : ∀ h ∈ diffM o a b, PathOK nc h.path)
    (text : String) (hr : renderM nc [] (diffM o a b) = some text) :
    ∃ d', readDiffM nc text = .ok d' ∧ d' = normDiff (diffM o a b) ∧
      ∃ r, patchM a d' = .ok r ∧ equals o r b = true ∧ equivB o r b = true := by
  have G : MP.GoodN b := ⟨hbw, hbr, hbv, hbf⟩
  have S := memSoundU_list_precision L o ho hp M a haw har b G
  rw [E2ES.diffM_mergeList_eq o ho hm a b har hbr hbv] at hr hpth ⊢
  exact ⟨_, E2ES.read_render_mh nc _ (E2ES.dl_codec nc o a b hv hpth) text hr,
    (E2ES.normDiff_mh _).symm, mapply ((dl o a b).map untagE) a, Merge.patchAll_mh true _ a, S.1, S.2⟩

/-- **end to end, MERGE + Precision, list reading, total form** -/
theorem diff_print_read_patch_mergeList_precision (L : FloatLaws) (nc : NumCodec) (o : Opts)
    (hm : isMerge o = true) (ho : dispatchTag o = .list)
    (hp : nonnegBits (precOf o) = true) (M : PrecMono o) (a b : Json)
    (haw : a.wf = true) (har : a.rawDoc = true)
    (hbw : b.wf = true) (hbr : b.rawDoc = true)
    (hbv : objVoidFree b = true) (hbf : b.finiteNums = true)
    (hv : ∀ z ∈ subterms b, (marshalNode nc z).isSome = true ∧ ValOK nc z)
    (hpth : ∀ h ∈ diffM o a b, (jsonM nc (pathToJson h.path)).isSome = true ∧ PathOK nc h.path) :
    ∃ text d' r, renderM nc [] (diffM o a b) = some text ∧ readDiffM nc text = .ok d' ∧
      patchM a d' = .ok r ∧ equals o r b = true ∧ equivB o r b = true := by
  obtain ⟨text, ht⟩ := E2ES.diffM_renders_mergeList nc o ho hm a b har hbr hbv
    (fun z hz => (hv z hz).1) (fun h hh => (hpth h hh).1)
  obtain ⟨d', h1, _, r, h2, h3, h4⟩ := diff_render_read_patch_mergeList_precision L nc o hm ho hp M
    a b haw har hbw hbr hbv hbf (fun z hz => (hv z hz).2) (fun h hh => (hpth h hh).2) text ht
  exact ⟨text, d', r, ht, h1, h2, h3, h4⟩

/-- the library calls for the option list the CLI builds for `jd -f merge -precision eps`:
    `ReadDiffString(a.Diff(b, MERGE, Precision(eps)).Render())`, then `a.Patch` -/
theorem readDiffM_patchM_MERGE_precision (L : FloatLaws) (nc : NumCodec) (eps : UInt64)
    (hp : nonnegBits eps = true) (M : PrecMono [.merge, .prec eps]) (a b : Json)
    (haw : a.wf = true) (har : a.rawDoc = true)
    (hbw : b.wf = true) (hbr : b.rawDoc = true)
    (hbv : objVoidFree b = true) (hbf : b.finiteNums = true)
    (hv : ∀ z ∈ subterms b, ValOK nc z)
    (hpth : ∀ h ∈ diffM [.merge, .prec eps] a b, PathOK nc h.path)
    (text : String) (hr : renderM nc [] (diffM [.merge, .prec eps] a b) = some text) :
    ∃ d', readDiffM nc text = .ok d' ∧
      ∃ r, patchM a d' = .ok r ∧ equals [.merge, .prec eps] r b = true ∧
        equivB [.merge, .prec eps] r b = true := by
  obtain ⟨d', h1, _, r, h2, h3, h4⟩ := diff_render_read_patch_mergeList_precision L nc
    [.merge, .prec eps] rfl rfl hp M a b haw har hbw hbr hbv hbf hv hpth text hr
  exact ⟨d', h1, r, h2, h3, h4⟩

end MergeListPrecision

/-! ## 5. colour -/

/-! ### 5a. `stripAnsi (Render(COLOR)) = Render()` for the diffs produced by `Diff` -/

/-- contract on `json.Marshal` for one value: its text has no ESC (encoding/json escapes control
    characters inside strings as `\u001b`; nothing else can produce one) -/
def NoEscVal (nc : NumCodec) (v : Json) : Prop :=
  ∀ t, marshalNode nc v = some t → '\x1b' ∉ t.toList

/-- the same for the JSON text of a path -/
def NoEscPath (nc : NumCodec) (p : Path) : Prop :=
  ∀ t, jsonM nc (pathToJson p) = some t → '\x1b' ∉ t.toList

theorem noEscVal_retag (nc : NumCodec) (T t : Tag) (xs : List Json) (h : NoEscVal nc (.arr t xs)) :
    NoEscVal nc (.arr T xs) := by
  intro s hs
  exact h s (by simpa only [marshalNode] using hs)

theorem noEsc_intro {nc : NumCodec} {d : Diff} (hp : ∀ h ∈ d, NoEscPath nc h.path)
    (hv : ∀ h ∈ d, ∀ v ∈ payloads h, NoEscVal nc v) : NoEsc nc d :=
  fun h hh => ⟨hp h hh, hv h hh⟩

/-- a list of merge hunks -/
theorem noEsc_mh (nc : NumCodec) (l : List (List String × Json))
    (h : ∀ e ∈ l, NoEscPath nc (e.1.map PathElem.key) ∧ (e.2.isVoid = true ∨ NoEscVal nc e.2)) :
    NoEsc nc (l.map (fun e => Merge.mh e.1 e.2)) := by
  intro x hx
  obtain ⟨e, he, rfl⟩ := List.mem_map.1 hx
  refine ⟨(h e he).1, fun v hv => ?_⟩
  rw [E2ES.payloads_mh] at hv
  rcases (h e he).2 with h2 | h2
  · simp [h2] at hv
  · cases hvv : e.2.isVoid with
    | true => simp [hvv] at hv
    | false =>
      simp only [hvv, Bool.false_eq_true, if_false, List.mem_singleton] at hv
      rw [hv]; exact h2

/-- LIST reading, strict strategy (any Precision) -/
theorem noEsc_list (nc : NumCodec) (o : Opts) (ho : dispatchTag o = .list) (hm : isMerge o = false)
    (a b : Json) (ha : a.listDoc = true) (hb : b.listDoc = true) (hva : E2E.voidFree a = true)
    (hvb : E2E.voidFree b = true) (hlen : E2E.shortArrays b = true)
    (hv : ∀ z ∈ DPL.subterms a ++ DPL.subterms b, NoEscVal nc z)
    (hp : ∀ h ∈ diffM o a b, NoEscPath nc h.path) : NoEsc nc (diffM o a b) :=
  noEsc_intro hp (E2E.diffM_payloads o ho hm a b ha hb hva hvb hlen (NoEscVal nc)
    (noEscVal_retag nc .list) hv)

/-- SET / MULTISET reading, strict strategy, with or without a Precision -/
theorem noEsc_set (nc : NumCodec) {o : Opts} (hm : DES.SetReading o) (hmg : isMerge o = false)
    (a b : Json) (ha : a.rawDoc = true) (hwa : a.wf = true) (hb : b.rawDoc = true)
    (hwb : b.wf = true) (hva : E2E.voidFree a = true) (hvb : E2E.voidFree b = true)
    (FH : DES.DiffFaithful (stripPrec o) (subterms a) (subterms b))
    (hv : ∀ z ∈ subterms a ++ subterms b, NoEscVal nc z)
    (hp : ∀ h ∈ diffM o a b, NoEscPath nc h.path) : NoEsc nc (diffM o a b) :=
  noEsc_intro hp (fun h hh v hv' =>
    hv v (diffM_payloads_set_precision hm hmg a b ha hwa hb hwb hva hvb FH h hh v hv'))

/-- SetKeys reading, strict strategy, with or without a Precision -/
theorem noEsc_setkeys (nc : NumCodec) {o : Opts} {ks : List String} (hd : dispatchTag o = .set)
    (hk : keysOf o = some ks) (hmg : isMerge o = false) (a b : Json) (ha : a.rawDoc = true)
    (hb : b.rawDoc = true) (hva : E2E.voidFree a = true) (hvb : E2E.voidFree b = true)
    (hv : ∀ z ∈ subterms a ++ subterms b, NoEscVal nc z)
    (hp : ∀ h ∈ diffM o a b, NoEscPath nc h.path) : NoEsc nc (diffM o a b) :=
  noEsc_intro hp (fun h hh v hv' =>
    hv v (E2EK.diffM_payloads_setkeys hd hk hmg a b ha hb hva hvb h hh v hv'))

/-- MERGE strategy, LIST reading (any Precision): the values come from `b` only -/
theorem noEsc_mergeList (nc : NumCodec) (o : Opts) (ho : dispatchTag o = .list)
    (hm : isMerge o = true) (a b : Json) (ha : a.rawDoc = true) (hb : b.rawDoc = true)
    (hvf : Merge.objVoidFree b = true) (hv : ∀ z ∈ subterms b, NoEscVal nc z)
    (hp : ∀ h ∈ diffM o a b, NoEscPath nc h.path) : NoEsc nc (diffM o a b) := by
  rw [E2ES.diffM_mergeList_eq o ho hm a b ha hb hvf] at hp ⊢
  refine noEsc_mh nc _ (fun e he => ?_)
  obtain ⟨_, h2⟩ := E2ES.dl_entries o a b (NoEscVal nc) (fun t xs h => noEscVal_retag nc .list t xs h)
    hv e he
  exact ⟨hp (Merge.mh e.1 e.2) (List.mem_map.2 ⟨e, he, rfl⟩), h2⟩

/-- MERGE with SET / MULTISET, with or without a Precision -/
theorem noEsc_mergeSet (F : FloatEq0) (nc : NumCodec) {o : Opts} {a b : Json}
    (hmg : isMerge o = true) (hm : dispatchTag o = .set ∨ dispatchTag o = .mset)
    (hk : keysOf o = none) (ha : a.setDoc = true) (hb : b.setDoc = true)
    (hn : b.nullFree = true) (hvf : Merge.objVoidFree b = true)
    (HF : HashFaithful (stripPrec o) (subterms a ++ subterms b))
    (hv : ∀ z ∈ subterms b, NoEscVal nc z)
    (hp : ∀ h ∈ diffM o a b, NoEscPath nc h.path) : NoEsc nc (diffM o a b) := by
  rw [SP.diffM_strip o hm a b (rawDoc_of_setDoc ha)] at hp ⊢
  rw [E2ES.diffM_mergeSet_eq F (setMergeDom_strip hmg hm hk ha hb hn hvf HF)] at hp ⊢
  refine noEsc_mh nc _ (fun e he => ?_)
  obtain ⟨_, h2⟩ := E2ES.ds_entries (stripPrec o) a b (NoEscVal nc)
    (fun t xs h => noEscVal_retag nc _ t xs h) hv e he
  exact ⟨hp (Merge.mh e.1 e.2) (List.mem_map.2 ⟨e, he, rfl⟩), h2⟩

/-- a JSON string never needs the contract: `encoding/json` escapes every control character, so
    the text of a string has no ESC whatever the string is -/
theorem noEscVal_str (nc : NumCodec) (x : String) : NoEscVal nc (.str x) := by
  intro t ht
  rw [marshalNode_str] at ht
  cases ht
  have := escapeBody_noesc x
  simp [quoteString, this]

/-- **the character-level colouring** (`colorStringMarshal`: a hunk that removes exactly one string
    and adds exactly one string is coloured rune by rune against the longest common subsequence of
    the two strings): stripping the ANSI sequences gives the plain text, for ALL strings `x`, `y`
    (quotes, backslashes, control characters, non-BMP runes included) and every context; the only
    contract left is on the path text and the context values -/
theorem color_strip_char_level (nc : NumCodec) (m : Bool) (p : Path) (bf af : List Json)
    (x y : String) (hp : NoEscPath nc p) (hctx : ∀ v ∈ bf ++ af, NoEscVal nc v) :
    (renderHunk nc [.color]
        { merge := m, path := p, before := bf, remove := [.str x], add := [.str y], after := af }).map
      (fun s => String.ofList (stripAnsi s.toList))
      = renderHunk nc []
        { merge := m, path := p, before := bf, remove := [.str x], add := [.str y], after := af } := by
  refine renderHunk_color_strip nc _ (fun h hh => ?_)
  simp only [List.mem_singleton] at hh
  subst hh
  refine ⟨hp, fun v hv => ?_⟩
  simp only [payloads, List.mem_filter, List.mem_append, List.mem_singleton] at hv
  rcases hv.1 with ((h1 | rfl) | rfl) | h1
  · exact hctx v (List.mem_append_left _ h1)
  · exact noEscVal_str nc x
  · exact noEscVal_str nc y
  · exact hctx v (List.mem_append_right _ h1)

/-- **colour text, ANSI sequences stripped, IS the plain text**: if `Render(COLOR)` gives `ctext`
    then `Render()` gives `stripAnsi ctext` -/
theorem color_text_then_strip (nc : NumCodec) (d : Diff) (hn : NoEsc nc d) (ctext : String)
    (hc : renderM nc [.color] d = some ctext) :
    renderM nc [] d = some (String.ofList (stripAnsi ctext.toList)) := by
  rw [← renderM_color_strip nc d hn, hc]; rfl

/-- … and the colour text exists whenever the plain text does -/
theorem color_text_exists (nc : NumCodec) (d : Diff) (hn : NoEsc nc d) (text : String)
    (hr : renderM nc [] d = some text) :
    ∃ ctext, renderM nc [.color] d = some ctext ∧ String.ofList (stripAnsi ctext.toList) = text := by
  have := renderM_color_strip nc d hn
  rw [hr] at this
  obtain ⟨ctext, hc, he⟩ := Option.map_eq_some_iff.1 this
  exact ⟨ctext, hc, he⟩

/-- **`jd -color -set -precision eps a b`, ANSI sequences stripped, `| jd -p`** (SET / MULTISET +
    Precision, strict strategy; instance of `color_text_then_strip` + the end-to-end theorem): the
    colour text exists, is NOT the input of the reader, but with the ANSI sequences removed it is
    read back as a diff that patches `a` to a document that `Equals` `b` -/
theorem color_strip_end_to_end_set_precision (F : FloatEq0) (L : FloatLaws) (nc : NumCodec)
    (o : Opts) (hm : dispatchTag o = .set ∨ dispatchTag o = .mset) (hk : keysOf o = none)
    (hmg : isMerge o = false) (M : PrecMono o) (a b : Json)
    (ha : a.setDoc = true) (hb : b.setDoc = true)
    (hva : E2E.voidFree a = true) (hvb : E2E.voidFree b = true)
    (HF : HashFaithful (stripPrec o) (subterms a ++ subterms b))
    (hv : ∀ z ∈ subterms a ++ subterms b, ValOK nc z ∧ NoEscVal nc z)
    (hpth : ∀ h ∈ diffM o a b, PathOK nc h.path ∧ NoEscPath nc h.path)
    (ctext : String) (hc : renderM nc [.color] (diffM o a b) = some ctext) :
    ∃ d', readDiffM nc (String.ofList (stripAnsi ctext.toList)) = .ok d' ∧
      ∃ r, patchM a d' = .ok r ∧ equals o r b = true ∧ equivB (stripPrec o) r b = true := by
  have hm' : DES.SetReading o := by
    rcases hm with hd | hd
    · exact .inl ⟨hd, hk⟩
    · exact .inr hd
  have ha' := ha
  have hb' := hb
  simp only [Json.setDoc, Bool.and_eq_true] at ha' hb'
  have FH := DES.diffFaithful_of_hashFaithful F (by simpa using hm) (SP.precOf_strip o)
    (docOk_of_setDoc ha) (docOk_of_setDoc hb) HF
  have hn := noEsc_set nc hm' hmg a b ha'.1.1.1 ha'.1.1.2 hb'.1.1.1 hb'.1.1.2 hva hvb FH
    (fun z hz => (hv z hz).2) (fun h hh => (hpth h hh).2)
  obtain ⟨d', h1, _, r, h2, _, h3, _, h4, _⟩ := diff_render_read_patch_set_precision F L nc o hm hk
    hmg M a b ha hb hva hvb HF (fun z hz => (hv z hz).1) (fun h hh => (hpth h hh).1) _
    (color_text_then_strip nc _ hn ctext hc)
  exact ⟨d', h1, r, h2, h3, h4⟩


/-! ## 5b. the colour text itself is not input for the reader -/

theorem allows_esc (st : RState) : readerAllows st (String.singleton '\x1b') = false := by
  cases st <;> decide

theorem readLine_esc (nc : NumCodec) (acc : RAcc) (rest : List Char) :
    readLine nc acc (String.ofList ('\x1b' :: rest)) = .err := by
  have := allows_esc acc.st
  simpa [readLine] using this

/-- a line that starts with ESC stops the reader -/
theorem readLines_esc (nc : NumCodec) : ∀ (ls : List String) (acc : RAcc),
    (∃ l ∈ ls, ∃ rest, l = String.ofList ('\x1b' :: rest)) → ∀ acc', readLines nc acc ls ≠ .ok acc'
  | [], _, h, _ => by obtain ⟨l, hl, _⟩ := h; cases hl
  | l :: r, acc, h, acc' => by
    rw [readLines]
    cases hl : readLine nc acc l with
    | ok a1 =>
      simp only []
      obtain ⟨l0, hl0, rest, rfl⟩ := h
      rcases List.mem_cons.1 hl0 with rfl | hr
      · rw [readLine_esc] at hl; cases hl
      · exact readLines_esc nc r a1 ⟨_, hr, rest, rfl⟩ acc'
    | err => simp
    | panic => simp

theorem splitOn_nl (s : String) : s.splitOn "\n" = (splitNL s.toList []).map String.ofList := by
  obtain ⟨l, rfl⟩ : ∃ l, s = String.ofList l := ⟨s.toList, by simp⟩
  have hne : ("\n" == "") = false := by decide
  rw [String.splitOn, hne]
  have := splitOnAux_nl [] [] l []
  simp only [List.nil_append, String.utf8Len_nil, Nat.add_zero, List.reverse_nil] at this
  rw [if_neg (by simp)]
  simpa using this

theorem splitNL_head : ∀ (r m : List Char), ∃ r' tl, splitNL r m = (m ++ r') :: tl
  | [], m => ⟨[], [], by simp [splitNL]⟩
  | c :: r, m => by
    rw [splitNL]
    split
    · exact ⟨[], splitNL r [], by simp⟩
    · obtain ⟨r', tl, h⟩ := splitNL_head r (m ++ [c])
      exact ⟨c :: r', tl, by rw [h]; simp⟩

theorem splitNL_esc (rest : List Char) : ∀ (pre m : List Char),
    ∃ l ∈ splitNL (pre ++ '\n' :: '\x1b' :: rest) m, ∃ r, l = '\x1b' :: r
  | [], m => by
    obtain ⟨r', tl, h⟩ := splitNL_head rest ['\x1b']
    refine ⟨'\x1b' :: r', ?_, r', rfl⟩
    simp [splitNL, h]
  | c :: pre, m => by
    rw [List.cons_append, splitNL]
    split
    · obtain ⟨l, hl, hr⟩ := splitNL_esc rest pre []
      exact ⟨l, List.mem_cons_of_mem _ hl, hr⟩
    · exact splitNL_esc rest pre _

/-- the text has a line (not the first) that starts with ESC -/
def HasEscLine (s : String) : Prop := ∃ pre rest, s.toList = pre ++ '\n' :: '\x1b' :: rest

/-- **a text with a line that starts with ESC is never read as a diff** (the reader refuses the
    unknown header; `ReadDiffString` returns an error) -/
theorem esc_line_not_read (nc : NumCodec) (s : String) (h : HasEscLine s) (d : Diff) :
    readDiffM nc s ≠ .ok d := by
  obtain ⟨pre, rest, hs⟩ := h
  obtain ⟨l, hl, r, rfl⟩ := splitNL_esc rest pre []
  have hne := readLines_esc nc (s.splitOn "\n") {} ⟨String.ofList ('\x1b' :: r), by
    rw [splitOn_nl, hs]; exact List.mem_map.2 ⟨_, hl, rfl⟩, r, rfl⟩
  unfold readDiffM
  cases hr : readLines nc {} (s.splitOn "\n") with
  | ok acc => exact absurd hr (hne acc)
  | err => simp
  | panic => simp

/-! ### the colour text of a hunk -/

/-- a character list that is empty or starts with ESC -/
def EoE (cs : List Char) : Prop := cs = [] ∨ ∃ r, cs = '\x1b' :: r

theorem EoE.append {a b : List Char} (ha : EoE a) (hb : EoE b) : EoE (a ++ b) := by
  rcases ha with rfl | ⟨r, rfl⟩
  · simpa using hb
  · exact .inr ⟨r ++ b, rfl⟩

theorem optAll_some_cons {α} {x : Option α} {l : List (Option α)} {ts : List α}
    (h : optAll (x :: l) = some ts) : ∃ t ts', x = some t ∧ optAll l = some ts' ∧ ts = t :: ts' := by
  cases x with
  | none => simp [optAll] at h
  | some t =>
    simp only [optAll] at h
    cases hl : optAll l with
    | none => simp [hl] at h
    | some ts' => simp [hl] at h; exact ⟨t, ts', rfl, rfl, h.symm⟩

/-- lines that are each empty or start with ESC, concatenated -/
theorem join_EoE {α} (f : α → Option String) : ∀ (l : List α) (ts : List String),
    (∀ x ∈ l, ∀ t, f x = some t → EoE t.toList) → optAll (l.map f) = some ts →
    EoE (String.join ts).toList
  | [], ts, _, h => by simp [optAll] at h; subst h; exact .inl (by simp)
  | x :: l, ts, hE, h => by
    obtain ⟨t, ts', h1, h2, rfl⟩ := optAll_some_cons (by simpa using h)
    have := join_EoE f l ts' (fun y hy => hE y (List.mem_cons_of_mem _ hy)) h2
    simp only [String.join_cons, String.toList_append]
    exact (hE x List.mem_cons_self t h1).append this

theorem join_ne_nil {α} (f : α → Option String) (P : α → Prop) : ∀ (l : List α) (ts : List String),
    (∀ x ∈ l, P x → ∀ t, f x = some t → t.toList ≠ []) → optAll (l.map f) = some ts →
    (∃ x ∈ l, P x) → (String.join ts).toList ≠ []
  | [], _, _, _, h => by obtain ⟨x, hx, _⟩ := h; cases hx
  | x :: l, ts, hN, h, hex => by
    obtain ⟨t, ts', h1, h2, rfl⟩ := optAll_some_cons (by simpa using h)
    simp only [String.join_cons, String.toList_append]
    obtain ⟨y, hy, hp⟩ := hex
    rcases List.mem_cons.1 hy with rfl | hy'
    · intro e; exact hN y List.mem_cons_self hp t h1 (List.append_eq_nil_iff.1 e).1
    · intro e
      exact join_ne_nil f P l ts' (fun z hz => hN z (List.mem_cons_of_mem _ hz)) h2 ⟨y, hy', hp⟩
        (List.append_eq_nil_iff.1 e).2

/-- the string ends with a newline -/
def EndsNL (s : String) : Prop := ∃ p, s.toList = p ++ ['\n']

theorem EndsNL.join {α} (f : α → Option String) (s0 : String) (h0 : EndsNL s0) :
    ∀ (l : List α) (ts : List String), (∀ x ∈ l, ∀ t, f x = some t → EndsNL t) →
      optAll (l.map f) = some ts → EndsNL (s0 ++ String.join ts)
  | [], ts, _, h => by simp [optAll] at h; subst h; simpa using h0
  | x :: l, ts, hE, h => by
    obtain ⟨t, ts', h1, h2, rfl⟩ := optAll_some_cons (by simpa using h)
    have ht : EndsNL (s0 ++ t) := by
      obtain ⟨p, hp⟩ := hE x List.mem_cons_self t h1
      exact ⟨s0.toList ++ p, by simp [hp]⟩
    have := EndsNL.join f (s0 ++ t) ht l ts' (fun y hy => hE y (List.mem_cons_of_mem _ hy)) h2
    simpa [String.join_cons, String.append_assoc] using this

theorem red_toList : colorRed.toList = '\x1b' :: ['[', '3', '1', 'm'] := by simp [colorRed]
theorem green_toList : colorGreen.toList = '\x1b' :: ['[', '3', '2', 'm'] := by simp [colorGreen]

theorem esc_prefix (code : String) (hc : ∃ r, code.toList = '\x1b' :: r) (s : String) :
    ∃ r, (code ++ s).toList = '\x1b' :: r := by
  obtain ⟨r, hr⟩ := hc; exact ⟨r ++ s.toList, by simp [hr]⟩

/-- the hunk prints at least one `-` / `+` line -/
def printsChange (h : Hunk) : Bool := !(remLines h).isEmpty || !(addLines h).isEmpty

/-- **the colour text of a hunk that prints a `-` / `+` line and is not of the shape "one string
    removed, one string added" has a line that starts with ESC** (the red / green code is written
    BEFORE the `-` / `+` header, right after the newline of the preceding line) -/
theorem renderHunk_color_esc_line (nc : NumCodec) (h : Hunk) (s : String)
    (hs : renderHunk nc [.color] h = some s)
    (hsingle : ∀ x y, ¬ (h.remove = [.str x] ∧ h.add = [.str y]))
    (hp : printsChange h = true) : HasEscLine s := by
  unfold renderHunk at hs
  extract_lets color merge mline single common at hs
  have hc : color = true := rfl
  have hm : merge = h.merge := by simp [merge, isMerge]
  have hsg : single = none := by
    simp only [single]
    split
    · rename_i x y h1 h2; exact absurd ⟨h1, h2⟩ (hsingle x y)
    · rfl
  clear_value color merge single common
  subst hc hm hsg
  simp only [Option.bind_eq_bind, Option.bind_eq_some_iff, Option.pure_def, Option.some.injEq] at hs
  obtain ⟨pt, hpt, bf, hbf, rm, hrm, ad, had, af, haf, rfl⟩ := hs
  have hhead : EndsNL (mline ++ "@ " ++ pt ++ "\n" ++ String.join bf) := by
    refine EndsNL.join _ _ ⟨(mline ++ "@ " ++ pt).toList, by simp⟩ h.before bf ?_ hbf
    intro b _ t ht
    split at ht
    · cases ht; exact ⟨['['], by simp⟩
    · obtain ⟨t', _, rfl⟩ := Option.map_eq_some_iff.1 ht
      exact ⟨("  " ++ t').toList, by simp⟩
  have hrmE : EoE (String.join rm).toList := by
    refine join_EoE _ h.remove rm ?_ hrm
    intro v _ t ht
    split at ht
    · cases ht; exact .inl rfl
    · simp only [↓reduceIte] at ht
      obtain ⟨t', _, rfl⟩ := Option.map_eq_some_iff.1 ht
      simp only [String.append_assoc]
      exact .inr (esc_prefix _ ⟨_, red_toList⟩ _)
  have hadE : EoE (String.join ad).toList := by
    refine join_EoE _ h.add ad ?_ had
    intro v _ t ht
    split at ht
    · split at ht
      · simp only [↓reduceIte, Option.some.injEq] at ht
        subst ht
        simp only [String.append_assoc]
        exact .inr (esc_prefix _ ⟨_, green_toList⟩ _)
      · cases ht; exact .inl rfl
    · simp only [↓reduceIte] at ht
      obtain ⟨t', _, rfl⟩ := Option.map_eq_some_iff.1 ht
      simp only [String.append_assoc]
      exact .inr (esc_prefix _ ⟨_, green_toList⟩ _)
  have rmNE : (∃ v ∈ h.remove, v.isVoid = false) → (String.join rm).toList ≠ [] := by
    refine join_ne_nil _ (fun v => v.isVoid = false) h.remove rm ?_ hrm
    intro v _ hv t ht
    simp only [hv, Bool.false_eq_true, ↓reduceIte] at ht
    obtain ⟨t', _, rfl⟩ := Option.map_eq_some_iff.1 ht
    simp only [String.append_assoc]
    obtain ⟨r, hr⟩ := esc_prefix colorRed ⟨_, red_toList⟩ ("- " ++ (t' ++ ("\n" ++ colorDefault)))
    rw [hr]; exact List.cons_ne_nil _ _
  have adNE : (∃ v ∈ h.add, v.isVoid = false ∨ h.merge = true) → (String.join ad).toList ≠ [] := by
    refine join_ne_nil _ (fun v => v.isVoid = false ∨ h.merge = true) h.add ad ?_ had
    intro v _ hv t ht
    have : ∃ r, t.toList = '\x1b' :: r := by
      split at ht
      · rename_i hvoid
        rcases hv with hv | hv
        · rw [hv] at hvoid; cases hvoid
        · simp only [hv, ↓reduceIte, Option.some.injEq] at ht
          subst ht
          simp only [String.append_assoc]
          exact esc_prefix _ ⟨_, green_toList⟩ _
      · simp only [↓reduceIte] at ht
        obtain ⟨t', _, rfl⟩ := Option.map_eq_some_iff.1 ht
        simp only [String.append_assoc]
        exact esc_prefix _ ⟨_, green_toList⟩ _
    obtain ⟨r, hr⟩ := this
    rw [hr]; exact List.cons_ne_nil _ _
  have hX : (String.join rm).toList ++ (String.join ad).toList ≠ [] := by
    simp only [printsChange, Bool.or_eq_true, Bool.not_eq_eq_eq_not, Bool.not_true, remLines,
      addLines] at hp
    intro e
    obtain ⟨e1, e2⟩ := List.append_eq_nil_iff.1 e
    rcases hp with hp | hp
    · obtain ⟨v, hv1, hv2⟩ : ∃ x, x ∈ h.remove ∧ x.isVoid = false := by simpa using hp
      exact rmNE ⟨v, hv1, hv2⟩ e1
    · cases hmg : h.merge with
      | true =>
        rw [hmg] at hp
        simp only [↓reduceIte] at hp
        obtain ⟨v, hv⟩ : ∃ v, v ∈ h.add := by
          cases hh : h.add with
          | nil => simp [hh] at hp
          | cons v _ => exact ⟨v, List.mem_cons_self⟩
        exact adNE ⟨v, hv, .inr hmg⟩ e2
      | false =>
        rw [hmg] at hp
        simp only [Bool.false_eq_true, ↓reduceIte] at hp
        obtain ⟨v, hv1, hv2⟩ : ∃ x, x ∈ h.add ∧ x.isVoid = false := by simpa using hp
        exact adNE ⟨v, hv1, .inl hv2⟩ e2
  rcases hrmE.append hadE with e | ⟨r, hr⟩
  · exact absurd e hX
  · obtain ⟨p, hp'⟩ := hhead
    refine ⟨p, r ++ (String.join af).toList, ?_⟩
    have e1 : (mline ++ "@ " ++ pt ++ "\n" ++ String.join bf ++ String.join rm ++ String.join ad ++
        String.join af).toList = (mline ++ "@ " ++ pt ++ "\n" ++ String.join bf).toList ++
          ((String.join rm).toList ++ (String.join ad).toList) ++ (String.join af).toList := by
      simp only [String.toList_append, List.append_assoc]
    rw [e1, hp', hr]; simp

theorem wfHunk_printsChange {h : Hunk} (hw : wfHunk h = true) : printsChange h = true := by
  simp only [wfHunk, Bool.and_eq_true] at hw
  exact hw.1.2

theorem HasEscLine.embed {t s : String} (ht : HasEscLine t) (A B : List Char)
    (hs : s.toList = A ++ t.toList ++ B) : HasEscLine s := by
  obtain ⟨pre, rest, h⟩ := ht
  exact ⟨A ++ pre, rest ++ B, by rw [hs, h]; simp⟩

theorem optAll_mem {α β} (f : α → Option β) : ∀ (l : List α) (ts : List β),
    optAll (l.map f) = some ts → ∀ x ∈ l, ∃ t, f x = some t ∧ ∃ pre post, ts = pre ++ t :: post
  | [], _, _, _, hx => by cases hx
  | y :: l, ts, h, x, hx => by
    obtain ⟨t, ts', h1, h2, rfl⟩ := optAll_some_cons (by simpa using h)
    rcases List.mem_cons.1 hx with rfl | hx'
    · exact ⟨t, h1, [], ts', rfl⟩
    · obtain ⟨t', h3, pre, post, rfl⟩ := optAll_mem f l ts' h2 x hx'
      exact ⟨t', h3, t :: pre, post, rfl⟩

/-- **the colour text of a diff is NOT input for the reader** as soon as one hunk prints a `-` / `+`
    line (every hunk of the reader's domain `wfHunk` does) and is not of the shape "one string
    removed, one string added": `ReadDiffString` does not return a diff -/
theorem color_diff_not_read (nc : NumCodec) (d : Diff) (s : String)
    (hs : renderM nc [.color] d = some s) (h : Hunk) (hh : h ∈ d)
    (hsingle : ∀ x y, ¬ (h.remove = [.str x] ∧ h.add = [.str y]))
    (hp : printsChange h = true) (d' : Diff) : readDiffM nc s ≠ .ok d' := by
  unfold renderM at hs
  obtain ⟨ts, hts, rfl⟩ := Option.map_eq_some_iff.1 hs
  obtain ⟨t, ht, pre, post, rfl⟩ := optAll_mem _ d ts hts h hh
  refine esc_line_not_read nc _ ((renderHunk_color_esc_line nc h t ht hsingle hp).embed
    (String.join pre).toList (String.join post).toList ?_) d'
  simp [String.toList_join]

/-- the same for one hunk -/
theorem color_hunk_not_read (nc : NumCodec) (h : Hunk) (s : String)
    (hs : renderHunk nc [.color] h = some s)
    (hsingle : ∀ x y, ¬ (h.remove = [.str x] ∧ h.add = [.str y]))
    (hp : printsChange h = true) (d' : Diff) : readDiffM nc s ≠ .ok d' :=
  esc_line_not_read nc s (renderHunk_color_esc_line nc h s hs hsingle hp) d'

/-! ### the character-level shape: one string removed, one string added -/

namespace CharWitness

/-- `@ ["a"]` / `- "ab"` / `+ "ac"` -/
def cDiff : Diff := [{ path := [.key "a"], remove := [.str "ab"], add := [.str "ac"] }]

def cText : String :=
  unlines ["@ [\"a\"]", "- \"a\x1b[31mb\x1b[0m\"", "+ \"a\x1b[32mc\x1b[0m\""]

theorem c_render : renderM exCodec [Opt.color] cDiff = some cText := by
  simp [renderM, cDiff, renderHunk, optAll, isColor, isMerge, jsonM, pathToJson, rawNorm, rawNormList,
    jsonText, jsonTextList, String.intercalate_singleton, quoteString, escapeBody, escapeChar,
    lcsValues, lcsRows, lcsRow, lcsRowGo, lcsBack, colorStringMarshal, colorStringMarshal.go,
    Json.isVoid, colorRed, colorGreen, colorDefault, cText, unlines]

theorem read_path_a : readJsonM exCodec " [\"a\"]" = .ok (.arr .raw [.str "a"]) := by
  simp [readJsonM, trimGoSpace, parseJson, parseValue, skipWs, isJsonWs, parseElems, lexString]

theorem read_colored : readJsonM exCodec " \"a\x1b[31mb\x1b[0m\"" = .err := by
  simp [readJsonM, trimGoSpace, parseJson, parseValue, skipWs, isJsonWs, lexString]

theorem c_read : readDiffM exCodec cText = .err := by
  unfold readDiffM
  rw [cText, unlines, splitOn_unlines _ (by simp)]
  have e1 : newPathM (.arr .raw [.str "a"]) = .ok [.key "a"] := by
    simp [newPathM, newPathM.go]
  have s1 : readLine exCodec {} "@ [\"a\"]" =
      .ok { st := .at, cur := { path := [.key "a"] }, out := [] } := by
    simp [readLine, readerAllows, readerFlushes, tableLookup, Gen.readerAllow, Gen.readerFlush,
      RState.name, read_path_a, e1]
  have s2 : readLine exCodec { st := .at, cur := { path := [.key "a"] }, out := [] }
      "- \"a\x1b[31mb\x1b[0m\"" = .err := by
    simp [readLine, readerAllows, tableLookup, Gen.readerAllow, RState.name, read_colored]
  simp [readLines, s1, s2]

/-- **the character-level colouring is not input for the reader either**: for `"ab"` → `"ac"` the
    colour text is `- "a<red>b<reset>"` / `+ "a<green>c<reset>"`; no line starts with ESC, but the
    ESC sits INSIDE the JSON string and the JSON reader rejects a raw control character -/
theorem char_level_not_read :
    wfDiff cDiff = true ∧ (∃ x y, cDiff = [{ path := [.key "a"], remove := [.str x], add := [.str y] }]) ∧
    ∃ text, renderM exCodec [.color] cDiff = some text ∧ readDiffM exCodec text = .err :=
  ⟨by decide, ⟨"ab", "ac", rfl⟩, cText, c_render, c_read⟩

/-- `@ ["s"]` / `- "x"` / `+ "x"`: the same string removed and added (never produced by `Diff`) -/
def sDiff : Diff := [{ path := [.key "s"], remove := [.str "x"], add := [.str "x"] }]

def sText : String := unlines ["@ [\"s\"]", "- \"x\"", "+ \"x\""]

theorem s_render_color : renderM exCodec [Opt.color] sDiff = some sText := by
  simp [renderM, sDiff, renderHunk, optAll, isColor, isMerge, jsonM, pathToJson, rawNorm, rawNormList,
    jsonText, jsonTextList, String.intercalate_singleton, quoteString, escapeBody, escapeChar,
    lcsValues, lcsRows, lcsRow, lcsRowGo, lcsBack, colorStringMarshal, colorStringMarshal.go,
    Json.isVoid, colorRed, colorGreen, colorDefault, sText, unlines]

theorem s_render_plain : renderM exCodec [] sDiff = some sText := by
  simp [renderM, sDiff, renderHunk, optAll, isColor, isMerge, jsonM, pathToJson, rawNorm, rawNormList,
    jsonText, jsonTextList, String.intercalate_singleton, quoteString, escapeBody, escapeChar,
    marshalNode, Json.isVoid, sText, unlines]

theorem s_codec : CodecOK exCodec sDiff := by
  intro h hh
  simp only [sDiff, List.mem_singleton] at hh
  subst hh
  refine ⟨(E2ES.Example.path_key "s" (.inl rfl)).2, fun v hv => ?_⟩
  have : v = .str "x" := by
    simp only [payloads, List.nil_append, List.append_nil, List.cons_append, List.filter_cons,
      Json.isVoid, Bool.not_false, if_true, List.filter_nil, List.mem_cons, List.not_mem_nil,
      or_false, or_self] at hv
    exact hv
  subst this
  exact (by val_ok "\"x\"" : _ ∧ ValOK exCodec (.str "x")).2

/-- **the claim cannot be made for EVERY hunk**: the degenerate hunk that removes and adds the
    same string is coloured nowhere (every rune is in the common sequence), its colour text is its
    plain text, and the reader accepts it -/
theorem same_string_is_read :
    wfDiff sDiff = true ∧ renderM exCodec [.color] sDiff = renderM exCodec [] sDiff ∧
    ∃ text, renderM exCodec [.color] sDiff = some text ∧ readDiffM exCodec text = .ok sDiff := by
  refine ⟨by decide, by rw [s_render_color, s_render_plain], sText, s_render_color, ?_⟩
  have := read_render exCodec sDiff sText (by decide) s_codec s_render_plain
  rw [this]
  rfl

end CharWitness


/-! ## 6. non-vacuity: a concrete pair WITH numbers, the concrete codec `NativeRT.exCodec` -/

namespace Example
set_option linter.unusedSimpArgs false

abbrev one : UInt64 := 0x3ff0000000000000
abbrev two : UInt64 := 0x4000000000000000
abbrev three : UInt64 := 0x4008000000000000
/-- `0.001` -/
abbrev eps : UInt64 := 0x3f50624dd2f1a9fc

/-- `{"n":1,"s":[1,{"k":2}]}` -/
def nA : Json := .obj [("n", .num one), ("s", .arr .raw [.num one, .obj [("k", .num two)]])]
/-- `{"n":3,"s":[{"k":2},3]}` -/
def nB : Json := .obj [("n", .num three), ("s", .arr .raw [.obj [("k", .num two)], .num three])]

theorem fmt_one : fmtNum exCodec one = some "1" := by
  have h2 : floatToInt? one = some 1 := by decide
  have h3 : natToDigits 1 = "1" := by decide
  have h4 : (one == 0x8000000000000000) = false := by decide
  simp [fmtNum, h2, h3, h4]
theorem fmt_two : fmtNum exCodec two = some "2" := by
  have h2 : floatToInt? two = some 2 := by decide
  have h3 : natToDigits 2 = "2" := by decide
  have h4 : (two == 0x8000000000000000) = false := by decide
  simp [fmtNum, h2, h3, h4]
theorem fmt_three : fmtNum exCodec three = some "3" := by
  have h2 : floatToInt? three = some 3 := by decide
  have h3 : natToDigits 3 = "3" := by decide
  have h4 : (three == 0x8000000000000000) = false := by decide
  simp [fmtNum, h2, h3, h4]

theorem bits_one : intToFloatBits 1 = one := by decide
theorem bits_two : intToFloatBits 2 = two := by decide
theorem bits_three : intToFloatBits 3 = three := by decide

theorem val3_intro {nc : NumCodec} {v : Json} (t : String) (h1 : marshalNode nc v = some t)
    (h2 : '\n' ∉ t.toList) (h4 : '\x1b' ∉ t.toList)
    (h3 : readJsonM nc (" " ++ t) = .ok (untag v)) :
    (marshalNode nc v).isSome = true ∧ ValOK nc v ∧ NoEscVal nc v :=
  ⟨by rw [h1]; rfl, fun s hs => by rw [h1] at hs; cases hs; exact ⟨h2, h3⟩,
    fun s hs => by rw [h1] at hs; cases hs; exact h4⟩

theorem path3_intro {nc : NumCodec} {p : Path} (t : String) (h1 : jsonM nc (pathToJson p) = some t)
    (h2 : '\n' ∉ t.toList) (h4 : '\x1b' ∉ t.toList)
    (h3 : readJsonM nc (" " ++ t) = .ok (untag (pathToJson p))) :
    (jsonM nc (pathToJson p)).isSome = true ∧ PathOK nc p ∧ NoEscPath nc p :=
  ⟨by rw [h1]; rfl, fun s hs => by rw [h1] at hs; cases hs; exact ⟨h2, h3⟩,
    fun s hs => by rw [h1] at hs; cases hs; exact h4⟩

/-- the text of a path (keys, `{}`, `[]`) under `exCodec`, and its reading back, by evaluation -/
macro "spath3_ok " t:term : tactic =>
  `(tactic| (refine path3_intro $t ?_ ?_ ?_ ?_
             · simp [jsonM, pathToJson, rawNorm, rawNormList, rawNormKvs, jsonText, jsonTextList,
                 jsonTextKvs, quoteString, escapeBody, escapeChar, String.intercalate_cons_cons,
                 String.intercalate_singleton]
             · simp
             · simp
             · simp [readJsonM, trimGoSpace, parseJson, parseValue, skipWs, isJsonWs, parseElems,
                 parseMembers, lexString, untag, untagList, untagKvs, pathToJson, ainsert]))

/-- the text of a value with (small integer) numbers under `exCodec`, and its reading back -/
macro "valn_ok " t:term : tactic =>
  `(tactic| (refine val3_intro $t ?_ ?_ ?_ ?_
             · simp [marshalNode, marshalList, jsonText, jsonTextList, jsonTextKvs, rawNorm, rawNormList,
                 rawNormKvs, quoteString, escapeBody, escapeChar, String.intercalate_cons_cons,
                 String.intercalate_singleton, fmt_one, fmt_two, fmt_three]
             · simp
             · simp
             · simp [readJsonM, trimGoSpace, parseJson, parseValue, skipWs, isJsonWs, parseElems,
                 parseMembers, lexString, untag, untagList, untagKvs, ainsert, isDigit, lexNumber,
                 lexNumber.lexFrac, lexNumber.lexExp, parseNumToken, exCodec, takeDigits,
                 bits_one, bits_two, bits_three]))

/-- the contract on `json.Marshal` / the JSON reader (success, no newline, read back, no ESC) on
    every sub-term of the two documents, by evaluation -/
theorem vals : ∀ z ∈ subterms nA ++ subterms nB,
    (marshalNode exCodec z).isSome = true ∧ ValOK exCodec z ∧ NoEscVal exCodec z := by
  intro z hz
  simp only [nA, nB, subterms, subtermsList, subtermsKvs, List.cons_append, List.nil_append,
    List.append_nil, List.mem_cons, List.not_mem_nil, or_false] at hz
  rcases hz with rfl | rfl | rfl | rfl | rfl | rfl | rfl | rfl | rfl | rfl | rfl | rfl
  · valn_ok "{\"n\":1,\"s\":[1,{\"k\":2}]}"
  · valn_ok "1"
  · valn_ok "[1,{\"k\":2}]"
  · valn_ok "1"
  · valn_ok "{\"k\":2}"
  · valn_ok "2"
  · valn_ok "{\"n\":3,\"s\":[{\"k\":2},3]}"
  · valn_ok "3"
  · valn_ok "[{\"k\":2},3]"
  · valn_ok "{\"k\":2}"
  · valn_ok "2"
  · valn_ok "3"

theorem vals_B : ∀ z ∈ subterms nB,
    (marshalNode exCodec z).isSome = true ∧ ValOK exCodec z ∧ NoEscVal exCodec z :=
  fun z hz => vals z (List.mem_append_right _ hz)

theorem docs : nA.setDoc = true ∧ nB.setDoc = true ∧ E2E.voidFree nA = true ∧
    E2E.voidFree nB = true ∧ nB.nullFree = true ∧ Merge.objVoidFree nB = true ∧
    nA.wf = true ∧ nA.rawDoc = true ∧ nB.wf = true ∧ nB.rawDoc = true ∧ nB.finiteNums = true ∧
    nonnegBits eps = true := by decide

/-- no two sub-terms of the pair collide (relative to `|x - x| ≤ 0` for `1`, `2`, `3`) -/
theorem hf_set (L : FloatLaws) (o : Opts) (ho : o = [.set] ∨ o = [.merge, .set]) :
    HashFaithful o (subterms nA ++ subterms nB) := by
  have r1 := L.refl 0 one (by decide) (by decide)
  have r2 := L.refl 0 three (by decide) (by decide)
  have r3 := L.refl 0 two (by decide) (by decide)
  rcases ho with rfl | rfl <;> intro x hx y hy <;>
  simp only [nA, nB, subterms, subtermsList, subtermsKvs, List.cons_append, List.nil_append,
    List.append_nil, List.mem_cons, List.not_mem_nil, or_false] at hx hy <;>
  rcases hx with rfl | rfl | rfl | rfl | rfl | rfl | rfl | rfl | rfl | rfl | rfl | rfl <;>
  rcases hy with rfl | rfl | rfl | rfl | rfl | rfl | rfl | rfl | rfl | rfl | rfl | rfl <;>
  first
  | (intro _; simp [equivB, dispatchTag, allIn, allCovered, anyEquiv, equivKvs,
      alookup, precOf, r1, r2, r3]; done)
  | (intro e; exact absurd e (by decide +kernel))

theorem hf_mset (L : FloatLaws) (o : Opts) (ho : o = [.mset] ∨ o = [.merge, .mset]) :
    HashFaithful o (subterms nA ++ subterms nB) := by
  have r1 := L.refl 0 one (by decide) (by decide)
  have r2 := L.refl 0 three (by decide) (by decide)
  have r3 := L.refl 0 two (by decide) (by decide)
  rcases ho with rfl | rfl <;> intro x hx y hy <;>
  simp only [nA, nB, subterms, subtermsList, subtermsKvs, List.cons_append, List.nil_append,
    List.append_nil, List.mem_cons, List.not_mem_nil, or_false] at hx hy <;>
  rcases hx with rfl | rfl | rfl | rfl | rfl | rfl | rfl | rfl | rfl | rfl | rfl | rfl <;>
  rcases hy with rfl | rfl | rfl | rfl | rfl | rfl | rfl | rfl | rfl | rfl | rfl | rfl <;>
  first
  | (intro _; simp [equivB, dispatchTag, bagSub, removeFirst, equivKvs,
      alookup, precOf, r1, r2, r3]; done)
  | (intro e; exact absurd e (by decide +kernel))

/-- the option lists of the example: SET resp. MULTISET with `Precision(0.001)` -/
def oS : Opts := [.set, .prec eps]
def oM : Opts := [.mset, .prec eps]

theorem path_tail (k : String) (hk : k = "n" ∨ k = "s") (tl : Path) (ht : RealS.isTail tl) :
    (jsonM exCodec (pathToJson (.key k :: tl))).isSome = true ∧
      PathOK exCodec (.key k :: tl) ∧ NoEscPath exCodec (.key k :: tl) := by
  rcases hk with rfl | rfl <;> rcases ht with rfl | rfl | rfl
  · spath3_ok "[\"n\"]"
  · spath3_ok "[\"n\",{}]"
  · spath3_ok "[\"n\",[]]"
  · spath3_ok "[\"s\"]"
  · spath3_ok "[\"s\",{}]"
  · spath3_ok "[\"s\",[]]"

theorem faithful (o : Opts) (ho : o = oS ∨ o = oM) :
    DES.DiffFaithful (stripPrec o) (subterms nA) (subterms nB) := by
  rcases ho with rfl | rfl <;> exact DES.diffFaithful_of_check (by decide +kernel)

theorem reading (o : Opts) (ho : o = oS ∨ o = oM) : DES.SetReading o := by
  rcases ho with rfl | rfl
  · exact .inl ⟨rfl, rfl⟩
  · exact .inr rfl

/-- the contract on the paths of the diff, without computing the diff -/
theorem paths (o : Opts) (ho : o = oS ∨ o = oM) : ∀ h ∈ diffM o nA nB,
    (jsonM exCodec (pathToJson h.path)).isSome = true ∧ PathOK exCodec h.path ∧
      NoEscPath exCodec h.path := by
  intro h hh
  have hm := reading o ho
  rw [diffM_strip_reading hm nA nB (by decide)] at hh
  obtain ⟨k, tl, ht, hpath, hk⟩ := E2ES.flat_paths_set (SP.setReading_strip hm) (SP.precOf_strip o)
    (isMerge_strip_false (by rcases ho with rfl | rfl <;> rfl)) _ _ (by decide) (by decide) (by decide)
    (by decide) (faithful o ho) (by decide) h hh
  rw [hpath]
  refine path_tail k ?_ tl ht
  rcases hk with hk | hk <;> simp at hk <;> exact hk

/-- **non-vacuity of §1 (SET / MULTISET + Precision, strict)**: every hypothesis of
    `diff_print_read_patch_set_precision` holds for `{"n":1,"s":[1,{"k":2}]}` → `{"n":3,"s":[{"k":2},3]}`
    under `[SET, Precision(0.001)]` and `[MULTISET, Precision(0.001)]`; only IEEE facts remain -/
theorem ex_set_precision (F : FloatEq0) (L : FloatLaws) (o : Opts) (ho : o = oS ∨ o = oM)
    (M : PrecMono o) :
    ∃ text d' r, renderM exCodec [] (diffM o nA nB) = some text ∧ readDiffM exCodec text = .ok d' ∧
      patchM nA d' = .ok r ∧ equals o r nB = true ∧ equivB (stripPrec o) r nB = true ∧
      (dispatchTag o = .set → equivB o r nB = true) := by
  have HF : HashFaithful (stripPrec o) (subterms nA ++ subterms nB) := by
    rcases ho with rfl | rfl
    · exact hf_set L _ (.inl rfl)
    · exact hf_mset L _ (.inl rfl)
  have hm : dispatchTag o = .set ∨ dispatchTag o = .mset := SP.setReading_modes (reading o ho)
  exact diff_print_read_patch_set_precision F L exCodec o hm (by rcases ho with rfl | rfl <;> rfl)
    (by rcases ho with rfl | rfl <;> rfl) M nA nB docs.1 docs.2.1 docs.2.2.1 docs.2.2.2.1 HF
    (fun z hz => ⟨(vals z hz).1, (vals z hz).2.1⟩)
    (fun h hh => ⟨(paths o ho h hh).1, (paths o ho h hh).2.1⟩)

theorem merge_paths {T : Tag} {D : Json → Json → List (List String × Json)}
    {DK : List (String × Json) → List (String × Json) → List (List String × Json)}
    (PM : E2ES.PureMerge T D DK) :
    ∀ h ∈ (D nA nB).map (fun e => Merge.mh e.1 e.2),
      (jsonM exCodec (pathToJson h.path)).isSome = true ∧ PathOK exCodec h.path ∧
        NoEscPath exCodec h.path := by
  intro h hh
  obtain ⟨e, he, rfl⟩ := List.mem_map.1 hh
  obtain ⟨k, hk1, hk2⟩ := E2ES.flat_paths_merge PM _ _ (by decide) e he
  show (jsonM exCodec (pathToJson (e.1.map PathElem.key))).isSome = true ∧
    PathOK exCodec (e.1.map PathElem.key) ∧ NoEscPath exCodec (e.1.map PathElem.key)
  rw [hk1]
  refine path_tail k ?_ [] (.inl rfl)
  rcases hk2 with hk | hk <;> simp at hk <;> exact hk

/-- **non-vacuity of §4 (MERGE + Precision, list reading, through the text)**: the pair under
    `[MERGE, Precision(0.001)]` (`n` replaced, `s` replaced by a `jsonList` node) -/
theorem ex_mergeList_precision (L : FloatLaws) (M : PrecMono [.merge, .prec eps]) :
    ∃ text d' r, renderM exCodec [] (diffM [.merge, .prec eps] nA nB) = some text ∧
      readDiffM exCodec text = .ok d' ∧ patchM nA d' = .ok r ∧
      equals [.merge, .prec eps] r nB = true ∧ equivB [.merge, .prec eps] r nB = true := by
  obtain ⟨_, _, _, _, _, b4, a1, a2, b1, b2, b5, hp⟩ := docs
  refine diff_print_read_patch_mergeList_precision L exCodec [.merge, .prec eps] rfl rfl hp M _ _
    a1 a2 b1 b2 b4 b5 (fun z hz => ⟨(vals_B z hz).1, (vals_B z hz).2.1⟩) ?_
  rw [E2ES.diffM_mergeList_eq [.merge, .prec eps] rfl rfl _ _ a2 b2 b4]
  exact fun h hh => ⟨(merge_paths (E2ES.pureMerge_dl _) h hh).1,
    (merge_paths (E2ES.pureMerge_dl _) h hh).2.1⟩

/-- **non-vacuity of §3 (MERGE + SET / MULTISET + Precision)** -/
theorem ex_mergeSet_precision (F : FloatEq0) (L : FloatLaws) (o : Opts)
    (ho : o = .merge :: oS ∨ o = .merge :: oM) (M : PrecMono o) :
    ∃ text d' r, renderM exCodec [] (diffM o nA nB) = some text ∧ readDiffM exCodec text = .ok d' ∧
      patchM nA d' = .ok r ∧ equals o r nB = true ∧ equivB (stripPrec o) r nB = true ∧
      (dispatchTag o = .set → equivB o r nB = true) := by
  obtain ⟨a0, b0, _, _, b3, b4, _⟩ := docs
  have HF : HashFaithful (stripPrec o) (subterms nA ++ subterms nB) := by
    rcases ho with rfl | rfl
    · exact hf_set L _ (.inr rfl)
    · exact hf_mset L _ (.inr rfl)
  have hmg : isMerge o = true := by rcases ho with rfl | rfl <;> rfl
  have hm : dispatchTag o = .set ∨ dispatchTag o = .mset := by
    rcases ho with rfl | rfl
    · exact .inl rfl
    · exact .inr rfl
  have hk : keysOf o = none := by rcases ho with rfl | rfl <;> rfl
  refine diff_print_read_patch_mergeSet_precision F L exCodec hmg hm hk M a0 b0 b3 b4 HF
    (fun z hz => ⟨(vals_B z hz).1, (vals_B z hz).2.1⟩) ?_
  rw [SP.diffM_strip o hm nA nB (by decide),
    E2ES.diffM_mergeSet_eq F (setMergeDom_strip hmg hm hk a0 b0 b3 b4 HF)]
  exact fun h hh => ⟨(merge_paths (E2ES.pureMerge_ds _) h hh).1,
    (merge_paths (E2ES.pureMerge_ds _) h hh).2.1⟩

/-- the diff of the pair is not empty (relative to: `1` and `3` are not within `0` of each other) -/
theorem diff_ne_nil (F : FloatEq0) (o : Opts) (ho : o = oS ∨ o = oM) : diffM o nA nB ≠ [] := by
  intro h
  have e := (SP.diffM_nil_iff_equals_strip o (reading o ho) nA nB (by decide) (by decide) (by decide)
    (faithful o ho)).1 h
  have hne : numWithin 0 one three = false := by
    cases hw : numWithin 0 one three with
    | false => rfl
    | true =>
      exact absurd (F.eq_of_within0 one three (by decide) (by decide) (by decide) (by decide) hw)
        (by decide)
  rcases ho with rfl | rfl <;>
    simp [oS, oM, stripPrec, nA, nB, equals, equalsKvs, alookup, precOf, hne] at e

/-- **non-vacuity of §5 (colour)**: for the pair under `[SET, Precision(0.001)]` the colour text
    EXISTS, `ReadDiffString` does NOT return a diff for it, and with the ANSI sequences stripped it
    is read back as a diff that patches the first document to one that `Equals` the second -/
theorem ex_color (F : FloatEq0) (L : FloatLaws) (M : PrecMono oS) :
    ∃ ctext, renderM exCodec [.color] (diffM oS nA nB) = some ctext ∧
      (∀ d', readDiffM exCodec ctext ≠ .ok d') ∧
      ∃ d' r, readDiffM exCodec (String.ofList (stripAnsi ctext.toList)) = .ok d' ∧
        patchM nA d' = .ok r ∧ equals oS r nB = true := by
  have ho : oS = oS ∨ oS = oM := .inl rfl
  have hm := reading oS ho
  obtain ⟨text, d', r, h1, h2, h3, h4, _⟩ := ex_set_precision F L oS ho M
  have hn : NoEsc exCodec (diffM oS nA nB) :=
    noEsc_set exCodec hm rfl nA nB (by decide) (by decide) (by decide) (by decide) docs.2.2.1
      docs.2.2.2.1 (faithful oS ho) (fun z hz => (vals z hz).2.2) (fun h hh => (paths oS ho h hh).2.2)
  obtain ⟨ctext, hc, hs⟩ := color_text_exists exCodec _ hn text h1
  refine ⟨ctext, hc, fun d'' => ?_, d', r, by rw [hs]; exact h2, h3, h4⟩
  obtain ⟨h, hh⟩ := List.exists_mem_of_ne_nil _ (diff_ne_nil F oS ho)
  have prem := diffM_premises_set_precision hm rfl nA nB (by decide) (by decide) (by decide)
    (by decide) docs.2.2.1 docs.2.2.2.1 (faithful oS ho)
  have hw : wfHunk h = true := by
    have := prem.1
    simp only [wfDiff, Bool.and_eq_true, List.all_eq_true] at this
    exact this.1 h hh
  refine color_diff_not_read exCodec _ ctext hc h hh (fun x y hxy => ?_) (wfHunk_printsChange hw) d''
  have hmem : Json.str x ∈ subterms nA ++ subterms nB :=
    diffM_payloads_set_precision hm rfl nA nB (by decide) (by decide) (by decide) (by decide)
      docs.2.2.1 docs.2.2.2.1 (faithful oS ho) h hh (.str x) (by
        simp [payloads, hxy.1, Json.isVoid])
  simp [nA, nB, subterms, subtermsList, subtermsKvs] at hmem

end Example

/-! ## 7. the float hypotheses are needed THROUGH THE TEXT too -/

namespace Witness
set_option linter.unusedSimpArgs false

theorem read_empty (nc : NumCodec) : readDiffM nc "" = .ok [] := by
  have : "".splitOn "\n" = [""] := by rw [splitOn_nl]; simp [splitNL]
  simp [readDiffM, this, readLines, readLine, Gen.readerNonTerminal, RState.name]

/-- **`PrecMono o` is needed through the text, in EVERY reading** (any option list): were a number
    within `+0` of another but not within the precision of `o` (IEEE excludes it for `eps ≥ +0`; it
    HAPPENS for `x = y` under a negative / NaN precision, which `Precision(-1)` allows), the diff is
    empty, its text is the empty text, which is read back as the empty diff; `jd -p` returns `x`,
    and `x` does not `Equals` `y` under `o` -/
theorem precMono_needed_text (nc : NumCodec) (o : Opts) (x y : UInt64) (h0 : numWithin 0 x y = true)
    (h1 : numWithin (precOf o) x y = false) :
    renderM nc [] (diffM o (.num x) (.num y)) = some "" ∧ readDiffM nc "" = .ok [] ∧
    patchM (.num x) [] = .ok (.num x) ∧ equals o (.num x) (.num y) = false := by
  have hd : diffM o (.num x) (.num y) = [] := by
    unfold diffM
    rw [DE.diffNode_scalar _ _ _ _ (fun _ _ e => by cases e) (fun _ e => by cases e)]
    simp [diffCommon, equals, precOf, h0]
  refine ⟨by rw [hd]; rfl, read_empty nc, by simp [patchM, patchAll], by simp [equals, h1]⟩

theorem path_root : (jsonM exCodec (pathToJson [])).isSome = true ∧ PathOK exCodec [] ∧
    NoEscPath exCodec [] := by
  spath3_ok "[]"

/-- **`nonnegBits (precOf o)` is needed through the text (MERGE + Precision, list reading)**,
    relative to the IEEE fact that `|1 - 1| ≤ eps` is false for a negative or NaN `eps` (the CLI
    accepts `-precision=-1`): `null → 1` under `[MERGE, Precision(eps)]` prints
    `^ {"Merge":true}` / `@ []` / `+ 1`, the text is read back, `jd -p` gives `1`, and `1` does not
    `Equals` the target `1` under the options -/
theorem negative_precision_breaks_text (eps : UInt64)
    (h : numWithin eps Example.one Example.one = false) :
    ∃ text d', renderM exCodec [] (diffM [.merge, .prec eps] .null (.num Example.one)) = some text ∧
      readDiffM exCodec text = .ok d' ∧ patchM .null d' = .ok (.num Example.one) ∧
      equals [.merge, .prec eps] (.num Example.one) (.num Example.one) = false := by
  have hv : ∀ z ∈ subterms (.num Example.one),
      (marshalNode exCodec z).isSome = true ∧ ValOK exCodec z := by
    intro z hz
    simp only [subterms, List.mem_singleton] at hz
    subst hz
    have := Example.vals (.num Example.one) (by simp [Example.nA, subterms, subtermsList, subtermsKvs])
    exact ⟨this.1, this.2.1⟩
  have hd : diffM [.merge, .prec eps] .null (.num Example.one) = [Merge.mh [] (.num Example.one)] := by
    rw [E2ES.diffM_mergeList_eq [.merge, .prec eps] rfl rfl .null (.num Example.one) rfl rfl rfl]
    simp [Merge.dl, equals, Json.isNull]
  have hp : ∀ h ∈ diffM [.merge, .prec eps] .null (.num Example.one),
      (jsonM exCodec (pathToJson h.path)).isSome = true ∧ PathOK exCodec h.path := by
    intro h hh
    rw [hd, List.mem_singleton] at hh
    subst hh
    exact ⟨path_root.1, path_root.2.1⟩
  obtain ⟨text, ht⟩ := E2ES.diffM_renders_mergeList exCodec [.merge, .prec eps] rfl rfl .null
    (.num Example.one) rfl rfl rfl (fun z hz => (hv z hz).1) (fun h hh => (hp h hh).1)
  obtain ⟨d', h1, _, h3⟩ := E2ES.diff_text_lossless_mergeList exCodec [.merge, .prec eps] rfl rfl .null
    (.num Example.one) rfl rfl rfl (fun z hz => (hv z hz).2) (fun h hh => (hp h hh).2) text ht
  obtain ⟨m1, m2⟩ := MP.Witness.negative_precision_breaks true eps Example.one h
  refine ⟨text, d', ht, h1, ?_, m2⟩
  have e := h3 .null
  have m1' : patchM .null (diffM [.merge, .prec eps] .null (.num Example.one))
      = .ok (.num Example.one) := m1
  rw [m1'] at e
  cases hr : patchM .null d' with
  | ok r =>
    rw [hr] at e
    simp only [Outcome.mapO] at e
    cases r <;> simp_all [untag]
  | err => rw [hr] at e; simp [Outcome.mapO] at e
  | panic => rw [hr] at e; simp [Outcome.mapO] at e

end Witness

end Jd.E2EP
