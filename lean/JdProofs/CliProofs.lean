/-
  JdProofs.CliProofs — theorems about the CLI model `Jd.Cli.cliM` (JdModel/Cli.lean).  Core Lean only.

   (i)   exit_range            exit ∈ {0,1,2}
   (ii)  exit_two_iff_error    exit = 2 ↔ one of the checks `main` performs for these flags reported an error
         run_error_eq_firstErr  … and the error reported is the FIRST failing check
   (iii) diff_mode_contract    diff mode, no error: exit = 0 ↔ ¬haveDiff, exit ∈ {0,1}, the bytes that
                               leave the program are exactly the library rendering
   (iv)  output_flag           with -o F: stdout = "", file = what stdout would have carried, same exit
   (v)   options_top_eq_v2jd, metadata_v1_is_image, parsedOptions_same
                               the option list is the same in binary A, binary B and (modulo naming) B -v2=false
   (vi)  stdin_equiv_file      the model does not distinguish a second input from stdin from a named file
-/
import JdModel.Cli

namespace Jd.Cli
open Jd

/-! ### (i) exit ∈ {0,1,2} -/

theorem deliver_code {fl : Flags} {r : LibResults} {c : Nat} {s : String} {e : Emit}
    (h : deliver fl r c s = .ok e) : e.code = c ∧ e.text = s ∧ e.toFile = (fl.o != "") := by
  unfold deliver at h
  split at h
  · cases h; simp_all
  · split at h
    · cases h
    · cases h; simp_all

theorem run_code {b : Binary} {fl : Flags} {r : LibResults} {e : Emit}
    (h : run b fl r = .ok e) : e.code = 0 ∨ e.code = 1 := by
  unfold run at h
  repeat' split at h
  all_goals first
    | (cases h; simp; done)
    | (have := deliver_code h; omega)
    | (cases h; done)

theorem exit_range (b : Binary) (fl : Flags) (r : LibResults) :
    (cliM b fl r).exit = 0 ∨ (cliM b fl r).exit = 1 ∨ (cliM b fl r).exit = 2 := by
  unfold cliM
  cases h : run b fl r with
  | error e => cases e <;> simp [outcomeOf]
  | ok e =>
    have := run_code h
    simp only [outcomeOf]
    split <;> simp only [] <;> omega

/-! ### (ii) exit = 2 ↔ some check reported an error -/

/-- forget the value of a library result -/
def chk {α} (x : Except String α) : Except Err Unit :=
  match x with
  | .ok _ => .ok ()
  | .error e => .error (.msg e)

def guardMsg (bad : Bool) (m : String) : Except Err Unit := if bad then .error (.msg m) else .ok ()

/-- the format / translation specific library steps -/
def renderChecks (fl : Flags) (r : LibResults) : List (Except Err Unit) :=
  [ chk r.parse1, chk r.parse2,
    match formatOf fl.f with
    | some .jd => .ok ()
    | some .patch => chk r.renderPatch
    | some .merge => chk r.renderMerge
    | none => .error (.msg ("Invalid format: " ++ goQuote fl.f)) ]

def inputChecks (srcs : List Src) (r : LibResults) : List (Except Err Unit) :=
  chk r.file1 :: (if srcs.length ≥ 2 then [chk r.file2] else [])

def patchChecks (fl : Flags) (r : LibResults) : List (Except Err Unit) :=
  [ (match formatOf fl.f with
     | none => .error (.msg ("Invalid format: " ++ goQuote fl.f))
     | some _ => .ok ()),
    chk r.readDiff, chk r.parse2, chk r.patch ]

def translateChecks (fl : Flags) (r : LibResults) : List (Except Err Unit) :=
  [ guardMsg (!translations.contains fl.t) ("unsupported translation: " ++ goQuote fl.t),
    chk r.translate ]

def writeChecks (fl : Flags) (r : LibResults) : List (Except Err Unit) :=
  if fl.o == "" then [] else [chk r.write]

/-- the checks `main` performs for these flags, in program order; which checks are made depends on the
    flags only, each check's verdict on the flags and on `LibResults` -/
def checks (b : Binary) (fl : Flags) (r : LibResults) : List (Except Err Unit) :=
  if fl.version then []
  else if fl.port != 0 then [guardMsg (fl.nargs > 0) portArgs, chk r.serve]
  else
    chk (parsedOptions b fl) ::
    (if fl.gitDiffDriver then
      guardMsg (fl.nargs != 7) gitDriverArgs :: (inputChecks [.arg 1, .arg 4] r ++ renderChecks fl r)
    else
      guardMsg (fl.p && fl.t != "") patchAndTranslate ::
      (match inputsOf fl with
       | .error e => [.error e]
       | .ok srcs =>
         inputChecks srcs r ++
         ((match modeOf fl with
          | .diff => renderChecks fl r
          | .patch => patchChecks fl r
          | .translate => translateChecks fl r) ++
         writeChecks fl r)))

def firstErr : List (Except Err Unit) → Option Err
  | [] => none
  | .ok _ :: l => firstErr l
  | .error e :: _ => some e

def runErr (b : Binary) (fl : Flags) (r : LibResults) : Option Err :=
  match run b fl r with
  | .ok _ => none
  | .error e => some e

@[simp] theorem firstErr_nil : firstErr [] = none := rfl
@[simp] theorem firstErr_ok (u : Unit) (l) : firstErr (.ok u :: l) = firstErr l := rfl
@[simp] theorem firstErr_error (e : Err) (l) : firstErr (.error e :: l) = some e := rfl

theorem firstErr_append (l₁ l₂ : List (Except Err Unit)) :
    firstErr (l₁ ++ l₂) = match firstErr l₁ with | some e => some e | none => firstErr l₂ := by
  induction l₁ with
  | nil => simp
  | cons x l ih => cases x <;> simp [ih]

theorem firstErr_some_iff (l : List (Except Err Unit)) :
    (firstErr l).isSome ↔ ∃ c ∈ l, ∃ e, c = .error e := by
  induction l with
  | nil => simp
  | cons x l ih => cases x <;> simp [ih]


@[simp] theorem chk_ok {α} (a : α) : chk (.ok a : Except String α) = .ok () := rfl
@[simp] theorem chk_error {α} (e : String) : chk (.error e : Except String α) = .error (.msg e) := rfl
@[simp] theorem step_ok {α} (a : α) : step (.ok a : Except String α) = .ok a := rfl
@[simp] theorem step_error {α} (e : String) : step (.error e : Except String α) = .error (.msg e) := rfl

def errOf {α} : Except Err α → Option Err
  | .ok _ => none
  | .error e => some e
@[simp] theorem errOf_ok {α} (a : α) : errOf (.ok a : Except Err α) = none := rfl
@[simp] theorem errOf_error {α} (e : Err) : errOf (.error e : Except Err α) = some e := rfl

theorem diffCore_err (fl : Flags) (r : LibResults) :
    errOf (diffCore fl r) = firstErr (renderChecks fl r) := by
  unfold diffCore renderChecks
  cases r.parse1 <;> cases r.parse2 <;> simp
  cases formatOf fl.f with
  | none => simp
  | some f => cases f <;> simp <;> (first | cases r.renderPatch <;> simp | cases r.renderMerge <;> simp)

theorem readInputs_err (srcs : List Src) (r : LibResults) :
    errOf (readInputs srcs r) = firstErr (inputChecks srcs r) := by
  unfold readInputs inputChecks
  cases r.file1 <;> simp
  by_cases h : 2 ≤ srcs.length <;> simp [h]
  cases r.file2 <;> simp

theorem deliver_err (fl : Flags) (r : LibResults) (c : Nat) (s : String) :
    errOf (deliver fl r c s) = firstErr (writeChecks fl r) := by
  unfold deliver writeChecks
  by_cases h : (fl.o == "") = true <;> simp [h]
  cases r.write <;> simp

theorem patchCore_err (fl : Flags) (r : LibResults) :
    errOf (patchCore fl r) = firstErr (patchChecks fl r) := by
  unfold patchCore patchChecks
  cases formatOf fl.f <;> simp
  cases r.readDiff <;> cases r.parse2 <;> cases r.patch <;> simp

theorem translateCore_err (fl : Flags) (r : LibResults) :
    errOf (translateCore fl r) = firstErr (translateChecks fl r) := by
  unfold translateCore translateChecks guardMsg
  by_cases h : fl.t ∈ translations <;> simp [h]
  cases r.translate <;> simp

@[simp] theorem guardMsg_true (m : String) : guardMsg true m = .error (.msg m) := rfl
@[simp] theorem guardMsg_false (m : String) : guardMsg false m = .ok () := rfl

theorem run_error_eq_firstErr (b : Binary) (fl : Flags) (r : LibResults) :
    errOf (run b fl r) = firstErr (checks b fl r) := by
  unfold run checks
  by_cases hv : fl.version = true
  · simp [hv]
  simp only [hv]
  by_cases hp : (fl.port != 0) = true
  · simp only [hp, if_true]
    by_cases hn : fl.nargs > 0
    · simp [hn, guardMsg]
    · simp [hn, guardMsg]; cases r.serve <;> simp
  simp only [hp]
  cases ho : parsedOptions b fl with
  | error e => simp
  | ok opts =>
    simp only [step_ok, chk_ok]
    by_cases hg : fl.gitDiffDriver = true
    · simp only [hg, if_true]
      by_cases h7 : (fl.nargs != 7) = true
      · simp [h7, guardMsg]
      · simp only [h7, guardMsg_false]
        simp only [Bool.false_eq_true, if_false]
        simp only [firstErr_ok]
        rw [firstErr_append, ← readInputs_err, ← diffCore_err]
        cases readInputs [Src.arg 1, Src.arg 4] r <;> simp
        cases diffCore fl r <;> simp
    · simp only [hg]
      by_cases hpt : (fl.p && fl.t != "") = true
      · simp [hpt, guardMsg]
      · simp only [hpt, guardMsg_false]
        simp only [Bool.false_eq_true, if_false]
        cases hi : inputsOf fl with
        | error e => simp
        | ok srcs =>
          simp only [firstErr_ok]
          rw [firstErr_append, ← readInputs_err]
          cases readInputs srcs r <;> simp
          rw [firstErr_append]
          cases hm : modeOf fl <;> simp only []
          · rw [← diffCore_err]
            cases hd : diffCore fl r with
            | error e => simp
            | ok v => simp [deliver_err]
          · rw [← patchCore_err]
            cases hd : patchCore fl r with
            | error e => simp
            | ok v => simp [deliver_err]
          · rw [← translateCore_err]
            cases hd : translateCore fl r with
            | error e => simp
            | ok v => simp [deliver_err]

/-- (ii) exit status 2 exactly when one of the checks made for these flags reported an error -/
theorem exit_two_iff_error (b : Binary) (fl : Flags) (r : LibResults) :
    (cliM b fl r).exit = 2 ↔ ∃ c ∈ checks b fl r, ∃ e, c = .error e := by
  rw [← firstErr_some_iff, ← run_error_eq_firstErr]
  unfold cliM
  cases h : run b fl r with
  | error e => cases e <;> simp [outcomeOf]
  | ok e =>
    have := run_code h
    simp only [outcomeOf, errOf_ok, Option.isSome_none]
    split <;> simp only [] <;> constructor <;> intro h' <;> first | omega | cases h'

/-- … and what is logged (or the usage text) is determined by the FIRST failing check -/
theorem outcome_of_first_error (b : Binary) (fl : Flags) (r : LibResults) (e : Err)
    (h : firstErr (checks b fl r) = some e) : cliM b fl r = outcomeOf b (.error e) := by
  rw [← run_error_eq_firstErr] at h
  unfold cliM
  cases hr : run b fl r with
  | ok v => simp [hr] at h
  | error e' => simp [hr] at h; rw [h]

/-! ### (iii) diff mode -/

def isDiffMode (fl : Flags) : Prop :=
  fl.version = false ∧ fl.port = 0 ∧ fl.gitDiffDriver = false ∧ fl.p = false ∧ fl.t = ""

def okText : Except String String → Option String
  | .ok s => some s
  | .error _ => none

def libRendering (fl : Flags) (r : LibResults) : Option String :=
  match formatOf fl.f with
  | some .jd => some r.renderJd
  | some .patch => okText r.renderPatch
  | some .merge => okText r.renderMerge
  | none => none

def haveDiff (fl : Flags) (r : LibResults) (s : String) : Bool :=
  match formatOf fl.f with
  | some .jd => s != ""
  | some .patch => s != "[]"
  | some .merge => decide (r.diffLen > 0)
  | none => false

theorem diffCore_ok {fl : Flags} {r : LibResults} {s : String} {hd : Bool}
    (h : diffCore fl r = .ok (s, hd)) :
    r.parse1 = .ok () ∧ r.parse2 = .ok () ∧ libRendering fl r = some s ∧ hd = haveDiff fl r s := by
  unfold diffCore at h
  unfold libRendering haveDiff
  cases h1 : r.parse1 <;> cases h2 : r.parse2 <;> simp [h1, h2, step] at h
  cases hf : formatOf fl.f with
  | none => simp [hf] at h
  | some f =>
    cases f <;> simp [hf] at h ⊢
    · exact ⟨h.1, by rw [← h.1]; exact h.2.symm⟩
    · cases hp : r.renderPatch <;> simp [hp, okText] at h ⊢
      exact ⟨h.1, by rw [← h.1]; exact h.2.symm⟩
    · cases hp : r.renderMerge <;> simp [hp, okText] at h ⊢
      exact ⟨h.1, h.2.symm⟩

theorem run_diff_mode {b : Binary} {fl : Flags} {r : LibResults} {e : Emit}
    (hm : isDiffMode fl) (h : run b fl r = .ok e) :
    ∃ s hd, diffCore fl r = .ok (s, hd) ∧ deliver fl r (if hd then 1 else 0) s = .ok e := by
  obtain ⟨hv, hp, hg, hpp, ht⟩ := hm
  have hmode : modeOf fl = .diff := by simp [modeOf, hpp, ht]
  unfold run at h
  simp only [hv, hp, hg, hpp, ht, hmode] at h
  simp at h
  repeat' split at h
  all_goals first
    | (cases h; done)
    | skip
  all_goals
    rename_i s hd hdc hb
    refine ⟨s, hd, hdc, ?_⟩
    simpa [hb] using h


theorem exit_ne_two_run {b : Binary} {fl : Flags} {r : LibResults}
    (h : (cliM b fl r).exit ≠ 2) : ∃ e, run b fl r = .ok e := by
  unfold cliM at h
  cases hr : run b fl r with
  | ok e => exact ⟨e, rfl⟩
  | error e => cases e <;> simp [hr, outcomeOf] at h

theorem diff_mode_contract {b : Binary} {fl : Flags} {r : LibResults}
    (hm : isDiffMode fl) (hne : (cliM b fl r).exit ≠ 2) :
    ∃ s, libRendering fl r = some s ∧
      ((cliM b fl r).exit = 0 ↔ haveDiff fl r s = false) ∧
      ((cliM b fl r).exit = 1 ↔ haveDiff fl r s = true) ∧
      (fl.o = "" → (cliM b fl r).stdout = s ∧ (cliM b fl r).outfile = none) ∧
      (fl.o ≠ "" → (cliM b fl r).stdout = "" ∧ (cliM b fl r).outfile = some s) := by
  obtain ⟨e, he⟩ := exit_ne_two_run hne
  obtain ⟨s, hd, hdc, hdel⟩ := run_diff_mode hm he
  obtain ⟨_, _, hren, hhd⟩ := diffCore_ok hdc
  obtain ⟨hc, ht, hf⟩ := deliver_code hdel
  refine ⟨s, hren, ?_⟩
  unfold cliM
  rw [he]
  subst hhd
  by_cases ho : fl.o = "" <;> cases hh : haveDiff fl r s <;>
    simp [outcomeOf, hf, ho, hc, ht, hh]

/-! ### (iv) -o -/

theorem parsedOptions_without_o (b : Binary) (fl : Flags) :
    parsedOptions b { fl with o := "" } = parsedOptions b fl := by cases b <;> rfl

theorem deliver_without_o (fl : Flags) (r : LibResults) (c : Nat) (s : String) :
    deliver { fl with o := "" } r c s = .ok ⟨c, s, false⟩ := by simp [deliver]

theorem run_without_o {b : Binary} {fl : Flags} {r : LibResults} {e : Emit}
    (h : run b fl r = .ok e) : run b { fl with o := "" } r = .ok ⟨e.code, e.text, false⟩ := by
  have hd : diffCore { fl with o := "" } r = diffCore fl r := rfl
  have hp : patchCore { fl with o := "" } r = patchCore fl r := rfl
  have ht : translateCore { fl with o := "" } r = translateCore fl r := rfl
  have hi : inputsOf { fl with o := "" } = inputsOf fl := rfl
  have hm : modeOf { fl with o := "" } = modeOf fl := rfl
  unfold run at h ⊢
  simp only [parsedOptions_without_o, hd, hp, ht, hi, hm, deliver_without_o]
  repeat' split at h
  all_goals first
    | (cases h; done)
    | (cases h; simp_all; done)
    | (have := deliver_code h; simp_all; done)

theorem run_toFile {b : Binary} {fl : Flags} {r : LibResults} {e : Emit}
    (ho : fl.o ≠ "") (hv : fl.version = false) (hp : fl.port = 0) (hg : fl.gitDiffDriver = false)
    (h : run b fl r = .ok e) : e.toFile = true := by
  unfold run at h
  simp only [hv, hp, hg] at h
  simp at h
  repeat' split at h
  all_goals first
    | (cases h; done)
    | (have := deliver_code h; simp_all; done)

/-- (iv) with `-o F` (and no error): nothing on stdout, the file holds exactly the bytes that stdout
    carries without `-o`, and the exit status is the same.  (`-version`, `-port`, `-git-diff-driver`
    ignore `-o`; on exit 2 nothing is written.) -/
theorem output_flag {b : Binary} {fl : Flags} {r : LibResults}
    (ho : fl.o ≠ "") (hv : fl.version = false) (hp : fl.port = 0) (hg : fl.gitDiffDriver = false)
    (hne : (cliM b fl r).exit ≠ 2) :
    (cliM b fl r).stdout = "" ∧
    (cliM b fl r).outfile = some (cliM b { fl with o := "" } r).stdout ∧
    (cliM b { fl with o := "" } r).outfile = none ∧
    (cliM b fl r).exit = (cliM b { fl with o := "" } r).exit := by
  obtain ⟨e, he⟩ := exit_ne_two_run hne
  have h0 := run_without_o he
  have ht := run_toFile ho hv hp hg he
  unfold cliM
  rw [he, h0]
  simp [outcomeOf, ht]

/-- on exit 2 no output file is written and stdout is empty or the usage text -/
theorem error_writes_nothing {b : Binary} {fl : Flags} {r : LibResults}
    (h : (cliM b fl r).exit = 2) :
    (cliM b fl r).outfile = none ∧ ((cliM b fl r).stdout = "" ∨ (cliM b fl r).stdout = usageText b) := by
  unfold cliM at h ⊢
  cases hr : run b fl r with
  | error e => cases e <;> simp [outcomeOf]
  | ok e =>
    have := run_code hr
    rw [hr] at h
    simp only [outcomeOf] at h
    split at h <;> simp only [] at h <;> omega

/-! ### (v) the option list -/

theorem optionsOf_top_eq_v2jd (fl : Flags) : optionsOfTopV2 fl = optionsOf fl := rfl

theorem ofV1_toV1 (o : Opt) : ofV1 (toV1 o) = o := by cases o <;> rfl
theorem toV1_ofV1 (m : Meta) : toV1 (ofV1 m) = m := by cases m <;> rfl

theorem metadata_v1_is_image (fl : Flags) :
    metadataOfTopV1 fl = (optionsOf fl).map (List.map toV1) := by
  unfold metadataOfTopV1 optionsOf
  split
  · rfl
  · split
    · rfl
    · rename_i ks _
      cases ks <;> cases fl.set <;> cases fl.mset <;> cases (fl.f == "merge") <;> rfl

theorem map_ofV1_toV1 (l : List Opt) : (l.map toV1).map ofV1 = l := by
  induction l with
  | nil => rfl
  | cons x l ih => simp [ofV1_toV1, ih]

theorem parsedOptions_same (b : Binary) (fl : Flags) : parsedOptions b fl = optionsOf fl := by
  have h1 : (metadataOfTopV1 fl).map (List.map ofV1) = optionsOf fl := by
    rw [metadata_v1_is_image]
    cases optionsOf fl with
    | error e => rfl
    | ok l => simp only [Except.map, map_ofV1_toV1]
  cases b <;> simp only [parsedOptions]
  all_goals
    split
    · exact h1
    · rfl

/-! ### (vi) stdin ≡ file -/

theorem parsedOptions_nargs (b : Binary) (fl : Flags) (n : Nat) :
    parsedOptions b { fl with nargs := n } = parsedOptions b fl := by cases b <;> rfl

theorem run_nargs_irrelevant {b : Binary} {fl : Flags} {r : LibResults} {n m : Nat} {s1 s2 : List Src}
    (hv : fl.version = false) (hp : fl.port = 0) (hg : fl.gitDiffDriver = false)
    (h1 : inputsOf { fl with nargs := n } = .ok s1) (h2 : inputsOf { fl with nargs := m } = .ok s2)
    (hl : (s1.length ≥ 2) = (s2.length ≥ 2)) :
    run b { fl with nargs := n } r = run b { fl with nargs := m } r := by
  have hr : readInputs s1 r = readInputs s2 r := by simp only [readInputs, hl]
  have hd (k) : diffCore { fl with nargs := k } r = diffCore fl r := rfl
  have hpc (k) : patchCore { fl with nargs := k } r = patchCore fl r := rfl
  have htc (k) : translateCore { fl with nargs := k } r = translateCore fl r := rfl
  have hm (k) : modeOf { fl with nargs := k } = modeOf fl := rfl
  have hdl (k) (c) (s) : deliver { fl with nargs := k } r c s = deliver fl r c s := rfl
  unfold run
  simp only [parsedOptions_nargs, h1, h2, hr, hd, hpc, htc, hm, hdl]
  simp [hv, hp, hg]

theorem stdin_equiv_file (b : Binary) (fl : Flags) (r : LibResults)
    (hv : fl.version = false) (hp : fl.port = 0) (hg : fl.gitDiffDriver = false) (ht : fl.t = "") :
    cliM b { fl with nargs := 1 } r = cliM b { fl with nargs := 2 } r := by
  unfold cliM
  rw [run_nargs_irrelevant (s1 := [.arg 0, .stdin]) (s2 := [.arg 0, .arg 1]) hv hp hg]
  · cases hpp : fl.p <;> simp [inputsOf, modeOf, ht]
  · cases hpp : fl.p <;> simp [inputsOf, modeOf, ht]
  · rfl

theorem stdin_equiv_file_translate (b : Binary) (fl : Flags) (r : LibResults)
    (hv : fl.version = false) (hp : fl.port = 0) (hg : fl.gitDiffDriver = false) (ht : fl.t ≠ "") :
    cliM b { fl with nargs := 0 } r = cliM b { fl with nargs := 1 } r := by
  unfold cliM
  rw [run_nargs_irrelevant (s1 := [.stdin]) (s2 := [.arg 0]) hv hp hg]
  · simp [inputsOf, modeOf, ht]
  · simp [inputsOf, modeOf, ht]
  · rfl

end Jd.Cli
