/-
  JdProofs.V1SetDiffPatch — property C17 (v1 API `lib/`), the readings other than the in-memory LIST
  reading of JdProofs/V1ListDiffPatch.lean:

    patching `a` with `a.Diff(b, m...)`, directly or after `Render` and `ReadDiffString`, yields a
    document that `Equals` `b`, and the diff is empty exactly when `Equals` holds.

  Everything is about the LIBRARY functions of the v1 model (`Jd.V1.diffM`, `Jd.V1.patchM`,
  `Jd.V1.equals`, `Jd.V1.renderM`, `Jd.V1.readDiffM`); no reference interpreter in between.
  Namespace `Jd.V1S`.

  STAGE REACHED: all three items of the task, (1) MERGE in memory, (2) SET / MULTISET in memory,
  (3) the text round trip for LIST, SET, MULTISET and MERGE diffs; no open goals.

  MAIN THEOREMS

  (1) MERGE, in memory (Part 1, 1b)
    `v1_merge_diff_patch` : `MergeMode m` (MERGE, no SET, no MULTISET, precision 0 or absent; a setkeys
        metadata is allowed), `a`: `rawDoc`, `wf`; `b`: `rawDoc`, `wf`, `objVoidFree`, `finiteNums`,
        `FloatLaws`:
          ∃ r, V1.patchM a (V1.diffM m a b) = .ok r ∧ V1.equals m r b = true ∧ specEq r b = true ∧
               r.listDoc = true.
        `b` MAY contain nulls: in memory a merge hunk holding `null` stores `null` (only void
        deletes); null-freeness is needed only for the RFC 7386 rendering (JdProofs/V1MergeRender).
        Method: the v1 merge diff is `Merge.dl []` lifted (`V1M.diffM_eq_dl`), its hunks act as
        `Merge.mapply` (`V1M.patchM_vh`); `direct`: `mapply (dl [] a b) a` is a list document
        structurally equal to `b` (member by member through `Merge.mapply_groups`).
    `v1_merge_diff_empty_iff_equals` : same hypotheses, `V1.diffM m a b = [] ↔ V1.equals m a b = true`.

  (2) SET and MULTISET, in memory (Part 2), no setkeys, strict strategy, precision 0
    `v1_diff_patch_set` (`SetMode m`: SET present — v1 `dispatch` gives SET priority over MULTISET
        whatever the order —, no setkeys, no MERGE, precision 0), `v1_diff_patch_mset` (`MsetMode m`),
        both instances of `v1_diff_patch_setmodes` (`Mode m o`: the v1 metadata `m` tied to the v2
        options `o` under which the specification `equivB` is read):
        `a b`: `setDoc` (plain arrays, sorted unique keys, finite numbers, no `-0`), `DPL.memOK` (no
        void object member), `FloatEq0`, `FloatLaws`, `HashFaithful m o (subterms a ++ subterms b)`:
          ∃ r, V1.patchM a (V1.diffM m a b) = .ok r ∧ V1.equals m r b = true ∧ equivB o r b = true.
    `v1_diff_empty_iff_equals_setmodes` (`…_set`, `…_mset`): same hypotheses,
        `V1.diffM m a b = [] ↔ V1.equals m a b = true`.
    `equivB_hash_core` : equivalent documents have equal V1 hash codes (no hash hypothesis);
    `diffNode_nil_of_equivB`, `node_step` (the induction, for every node and path prefix: `Step`).
    THE HASH HYPOTHESIS. `HashFaithful m o S`: among the nodes `S`, equal V1 hash codes only for
    `equivB`-equivalent nodes. The v1 hash pre-images have NO kind prefix for lists and objects
    (v2 has), so the alias classes are larger than in v2: `Example.alias_classes`: `[]` (every
    reading), `{}` and `""` all hash to the FNV offset basis. FINDING (not a failure of C17 as
    stated, which speaks of `Equals`; a failure of `Equals` against the advertised equivalence):
    `Example.alias_needs_hashFaithful`: `[[]]` and `[{}]` under SET have an EMPTY diff and
    `Equals` is TRUE although they are not equivalent; confirmed on the Go code (/repo/lib):
    `[[]]`/`[{}]`, `[[]]`/`[""]` (SET) and `[{}]`/`[""]` (MULTISET): `Equals` true, `Diff` empty.
    The transfer "v1 set diff/patch = v2 set diff/patch modulo the path encoding" does NOT hold
    literally (different hash functions, hence different member orders and alias classes; v1 passes
    the metadata to `Equals` in `diff_common`, writes `["set"]`,`{}` path elements and reads the
    metadata back from the path): the v2 proofs (EqualsSet, SetPatch, SetDiffPatch) were re-done for
    the V1 functions; hash-independent lemmas (`hsort`, `hdedup`, `ksort`, `hmapSet`, …) are reused.

  (3) the text round trip (Part 3, 4, 5), relative to a codec contract
    `v1_read_render` : for EVERY v1 diff `d` (list, set, multiset, merge hunks) with `wfHunk` hunks
        (decidable: no nil metadata entry, at least one `-` / `+` line, `checkDiffElement`) and
        `CodecOK nc d` (encoding/json is external: the text of each path / non-void value has no
        newline and is read back as that path / `untag` of that value):
          V1.renderM nc false (liftDiff d) = .ok (some text) → V1.readDiffM nc text = .ok (normDiff d)
        on the TEXT, through `strings.Split` (`NativeRT.splitOn_unlines`) and the four-state reader.
        `normDiff`: path elements as raw documents, values `untag`ged, void values that render as
        nothing dropped (a void new value of a MERGE hunk is the bare `+` line and is kept).
    `v1_read_render_raw` : a diff of `GH` hunks (raw documents, no void value) is read back UNCHANGED.
    `v1_text_roundtrip_setmodes` : (2) + `V1P.vfree a`, `vfree b`, `b` not void + `CodecOK`:
          V1.readDiffM nc text = .ok (V1.diffM m a b) ∧ ∃ r, patchM a (diffM m a b) = .ok r ∧ …
        (`shape_node`: every hunk of a set-mode diff is `GH`).
    `v1_text_roundtrip_merge` : (1) + `CodecOK`: ∃ d' r, readDiffM nc text = .ok d' ∧
          V1.patchM a d' = .ok r ∧ V1.equals m r b = true ∧ specEq r b = true ∧ r.listDoc = true
        (`d'` is the diff with values untagged; `untag_mset`: merge hunks commute with `untag`).
    `v1_text_roundtrip_list` : the hypotheses of `V1P.v1_diff_patch_list` (`ListMode m`, `listDoc`,
        `wf`, `finiteNums`, `vfree`, `lenLe N a`, `IdxLaws N`, `FloatLaws`) + `b` not void + `CodecOK`:
          ∃ d' r, readDiffM nc text = .ok d' ∧ V1.patchM a d' = .ok r ∧ V1.equals m r b = true ∧
                  specEq r b = true
        (the v1 list diff emits `jsonList`-typed values when an array is replaced by / replaces a
        non-array; they come back as plain arrays; `sim_patchNode` / `sim_patchAll`: the strict v1
        patch on key / index paths commutes with `untag`; `diff_vals`: the values of a list diff).
    Fully concrete run: `Example.ex_text_roundtrip` (SET: `ex_diffM` computes the library's diff by
    the unfolding equations, `exD_render` is the rendered text by kernel evaluation,
    `exD_codecOK` discharges the codec contract) — the same text as the Go code prints.

  HYPOTHESES and why
    * `MergeMode` / `SetMode` / `MsetMode` / `ListMode`: decidable predicates on the metadata list;
      precision 0 (hash codes ignore precision), no setkeys (with setkeys the identity used by the
      diff and by the patch differ), no MERGE in the set modes.
    * `rawDoc` / `setDoc` / `listDoc`, `wf`: documents as read from JSON text, sorted unique keys.
    * `finiteNums` + `FloatLaws` (`|x - x| ≤ 0`): the patch checks removed values with `Equals`;
      `FloatEq0` + no `-0`: equivalent numbers have equal hash codes.
    * `memOK` / `objVoidFree` / `vfree`, `b` not void: void stands for "absent", a reader never
      produces it; in the text a void value prints nothing.
    * `HashFaithful`: see above. `CodecOK`: the contract about encoding/json; satisfiable
      (`Example.exD_codecOK`, `exL_codecOK`, `exM_codecOK`).
    * `IdxLaws N`, `lenLe N a`: inherited from the list reading (float64 list indices).

  NOT PROVED here: SET / MULTISET together with setkeys or with MERGE; precision ≠ 0; colour.
  No statement of C17 was found false inside the domains above.
-/
import JdModel
import JdSpec
import JdProofs.EqualsList
import JdProofs.Common
import JdProofs.MergeProofs
import JdProofs.V1ListDiffPatch
import JdProofs.V1MergeRender
import JdProofs.EqualsSet
import JdProofs.SetPatch
import JdProofs.DiffEmpty
import JdProofs.DiffPatchList
import JdProofs.SetDiffPatch
import JdProofs.NativeRoundTrip

namespace Jd.V1S
open Jd Jd.Spec

/-! # Part 1. MERGE in memory (list reading of arrays) -/

section MergeDirect
open Jd.Merge Jd.V1M

/-- the hypotheses on the second document for the in-memory statement: as read from JSON text
    (unique keys, plain arrays, finite numbers) and no void at the root / as a member. Nulls ARE
    allowed: in memory a merge hunk carrying `null` stores `null` (only void deletes). -/
structure GoodC (b : Json) : Prop where
  wf : b.wf = true
  raw : b.rawDoc = true
  vf : objVoidFree b = true
  fin : b.finiteNums = true

theorem GoodC.member {kvs' : List (String × Json)} (G : GoodC (.obj kvs')) {j : String} {v' : Json}
    (h : alookup j kvs' = some v') : GoodC v' := by
  obtain ⟨h1, h2, h4, h5⟩ := G
  simp only [Json.wf, Json.rawDoc, objVoidFree, Json.finiteNums, Bool.and_eq_true] at h1 h2 h4 h5
  exact ⟨alookup_wf h h1.2, alookup_rawDoc h h2, alookup_objVoidFree h h4, alookup_finiteNums h h5⟩

theorem GoodC.notVoid {b : Json} (G : GoodC b) : b.isVoid = false := by
  have := G.vf; cases b <;> simp_all [Json.isVoid, objVoidFree]

theorem GoodC.refl (L : FloatLaws) {b : Json} (G : GoodC b) : equivB [] b b = true :=
  equivB_refl_list L [] rfl (by decide) b (rawDoc_listDoc b G.raw) G.wf G.fin

theorem GoodC.listDoc {b : Json} (G : GoodC b) : b.listDoc = true := rawDoc_listDoc b G.raw

/-- the hunks for a key of the first object (values as they are: void = delete) -/
def grpA (kvs' : List (String × Json)) (k : String) (v : Json) : List (List String × Json) :=
  match alookup k kvs' with
  | some v' => dl [] v v'
  | none => [([], .void)]

def groupsA (kvs' kvs : List (String × Json)) : List (String × List (List String × Json)) :=
  kvs.map (fun kv => (kv.1, grpA kvs' kv.1 kv.2))

theorem dlKvs_groups (kvs' : List (String × Json)) :
    ∀ kvs : List (String × Json), dlKvs [] kvs' kvs = flatG (groupsA kvs' kvs)
  | [] => by simp [dlKvs, groupsA, flatG]
  | (k, v) :: r => by
    have ih := dlKvs_groups kvs' r
    rw [dlKvs, ih]
    have : flatG (groupsA kvs' ((k, v) :: r))
        = (grpA kvs' k v).map (consE k) ++ flatG (groupsA kvs' r) := by
      simp [flatG, groupsA]
    rw [this]
    congr 1
    unfold grpA
    cases alookup k kvs' with
    | none => simp [consE]
    | some v' => rfl

theorem additions_groups (kvs : List (String × Json)) :
    ∀ kvs' : List (String × Json),
      (kvs'.filter (fun kv => (alookup kv.1 kvs).isNone)).map (fun kv => ([kv.1], kv.2))
        = flatG (groupsB kvs kvs')
  | [] => by simp [groupsB, flatG]
  | (k, v) :: r => by
    have ih := additions_groups kvs r
    simp only [groupsB, List.filter_cons] at ih ⊢
    split
    · simp only [List.map_cons, ih]
      simp [flatG, consE]
    · exact ih

theorem dl_obj_obj_groups (kvs kvs' : List (String × Json)) :
    dl [] (.obj kvs) (.obj kvs') = flatG (groupsA kvs' kvs ++ groupsB kvs kvs') := by
  rw [dl_obj_obj, dlKvs_groups, additions_groups, flatG_append]

theorem groups_lookup (kvs kvs' : List (String × Json)) (j : String) :
    alookup j (groupsA kvs' kvs ++ groupsB kvs kvs') = match alookup j kvs with
      | some v => some (grpA kvs' j v)
      | none => (alookup j kvs').map (fun v' => [([], v')]) := by
  rw [alookup_append, groupsA, alookup_mapk (fun k v => grpA kvs' k v) j kvs]
  cases hj : alookup j kvs with
  | some v => rfl
  | none =>
    simp only [Option.map_none]
    rw [groupsB, alookup_mapk (fun _ v => [(([] : List String), v)]) j,
      alookup_filter (fun k => (alookup k kvs).isNone) j kvs']
    simp [hj]

theorem groups_nodup {kvs kvs' : List (String × Json)} (hs : keysSorted kvs = true)
    (hs' : keysSorted kvs' = true) :
    ((groupsA kvs' kvs ++ groupsB kvs kvs').map Prod.fst).Nodup := by
  have hA : (groupsA kvs' kvs).map Prod.fst = kvs.map Prod.fst := by
    simp [groupsA, Function.comp_def]
  have hB : (groupsB kvs kvs').map Prod.fst
      = (kvs'.filter (fun kv => (alookup kv.1 kvs).isNone)).map Prod.fst := by
    simp [groupsB, Function.comp_def]
  rw [List.map_append, hA, hB, List.nodup_append]
  refine ⟨keysSorted_nodup hs, ?_, ?_⟩
  · exact (keysSorted_nodup hs').sublist (List.Sublist.map _ List.filter_sublist)
  · intro k hk k' hk' he
    subst he
    obtain ⟨⟨k1, v1⟩, hm1, rfl⟩ := List.mem_map.1 hk
    obtain ⟨⟨k2, v2⟩, hm2, he2⟩ := List.mem_map.1 hk'
    simp only at he2
    subst he2
    have := (List.mem_filter.1 hm2).2
    rw [alookup_of_mem hs hm1] at this
    simp at this

/-- what is proved of a pair of documents: the hunks of the pure merge diff, applied to the first
    document in sequence, give a list document structurally equal to the second -/
def Direct (a b : Json) : Prop :=
  equivB [] (mapply (dl [] a b) a) b = true ∧ (mapply (dl [] a b) a).listDoc = true

theorem direct_single (L : FloatLaws) {a b : Json} (h : dl [] a b = [([], b)]) (G : GoodC b) :
    Direct a b := by
  have : mapply (dl [] a b) a = b := by
    rw [h]; cases a <;> simp [mapply, mset]
  unfold Direct
  rw [this]
  exact ⟨G.refl L, G.listDoc⟩

theorem direct_scalar (L : FloatLaws) {a b : Json} (h1 : a.isObj = false) (h2 : isArr a = false)
    (G : GoodC b) : Direct a b := by
  have hd := dl_scalar [] h1 h2 b
  cases he : equals [] a b with
  | true =>
    rw [he, if_pos rfl] at hd
    unfold Direct
    rw [hd]
    refine ⟨equivB_of_equals_nil_scalar [] rfl h1 h2 he, ?_⟩
    cases a <;> simp_all [mapply, Json.listDoc, Json.isObj, isArr]
  | false =>
    rw [he] at hd
    exact direct_single L (by simpa using hd) G

theorem equivB_isVoid {o : Opts} {r b : Json} (h : equivB o r b = true) : r.isVoid = b.isVoid := by
  cases r <;> cases b <;> simp [equivB, Json.isVoid] at h ⊢

mutual
theorem direct (L : FloatLaws) :
    ∀ (a : Json), a.wf = true → a.rawDoc = true → ∀ b : Json, GoodC b → Direct a b
  | .obj kvs, hw, hr, b, G => by
    cases b with
    | obj kvs' =>
      simp only [Json.wf, Bool.and_eq_true] at hw
      simp only [Json.rawDoc] at hr
      have hs' : keysSorted kvs' = true := by
        have := G.wf; simp only [Json.wf, Bool.and_eq_true] at this; exact this.1
      -- an empty group only where the member is not void
      have hne : ∀ kg ∈ groupsA kvs' kvs ++ groupsB kvs kvs', kg.2 = [] →
          alookup kg.1 kvs ≠ some .void := by
        intro kg hkg hnil hl
        rcases List.mem_append.1 hkg with hm | hm
        · simp only [groupsA, List.mem_map] at hm
          obtain ⟨⟨k, v⟩, hkv, rfl⟩ := hm
          have hv : v = .void := by
            have := alookup_of_mem hw.1 hkv
            simp only at hl
            rw [this] at hl
            cases hl; rfl
          subst hv
          simp only [grpA] at hnil
          cases hb : alookup k kvs' with
          | none => simp [hb] at hnil
          | some v' =>
            have hnv := (G.member hb).notVoid
            simp only [hb] at hnil
            rw [dl_scalar [] rfl rfl] at hnil
            simp [equals, hnv] at hnil
        · simp only [groupsB, List.mem_map] at hm
          obtain ⟨kv, _, rfl⟩ := hm
          simp at hnil
      obtain ⟨acc', he, hsa, hl⟩ := mapply_groups (groupsA kvs' kvs ++ groupsB kvs kvs') kvs
        hne (groups_nodup hw.1 hs') hw.1
      -- member by member
      have key : ∀ j, RelOpt [] (alookup j acc') (alookup j kvs') ∧
          ∀ z, alookup j acc' = some z → z.listDoc = true := by
        intro j
        rw [hl j, groups_lookup]
        cases hja : alookup j kvs with
        | some v =>
          simp only [grpA]
          cases hjb : alookup j kvs' with
          | some v' =>
            have S := directKvs L kvs hw.2 hr j v hja v' (G.member hjb)
            have hnv : (mapply (dl [] v v') v).isVoid = false := by
              rw [equivB_isVoid S.1]; exact (G.member hjb).notVoid
            simp only [getK, hja, Option.getD_some, toOpt, hnv, Bool.false_eq_true, if_false,
              RelOpt, Option.some.injEq]
            exact ⟨S.1, fun z hz => hz ▸ S.2⟩
          | none =>
            simp [mapply, mset, toOpt, Json.isVoid, RelOpt]
        | none =>
          cases hjb : alookup j kvs' with
          | none => simp [RelOpt]
          | some v' =>
            have Gv := G.member hjb
            simp only [Option.map_some, mapply, List.foldl_cons, List.foldl_nil, mset, toOpt,
              Gv.notVoid, Bool.false_eq_true, if_false, RelOpt, Option.some.injEq]
            exact ⟨Gv.refl L, fun z hz => hz ▸ Gv.listDoc⟩
      unfold Direct
      rw [dl_obj_obj_groups, he]
      refine ⟨equivB_obj_of_lookups [] hsa hs' (fun j => (key j).1), ?_⟩
      simp only [Json.listDoc]
      exact listDocKvs_of_mem (fun k v hm => (key k).2 v (alookup_of_mem hsa hm))
    | _ => exact direct_single L (dl_obj_other [] kvs rfl) G
  | .arr t xs, hw, hr, b, G => by
    cases b with
    | arr t' ys =>
      have hd := dl_arr_arr [] t t' xs ys
      have hxs : listDocList xs = true := by
        have := rawDoc_listDoc _ hr; simp only [Json.listDoc, Bool.and_eq_true] at this; exact this.2
      have hys : listDocList ys = true := by
        have := G.listDoc
        simp only [Json.listDoc, Bool.and_eq_true] at this; exact this.2
      unfold Direct
      cases he : equals [] (.arr .list xs) (.arr .list ys) with
      | true =>
        rw [he, if_pos rfl] at hd
        rw [hd]
        refine ⟨?_, rawDoc_listDoc _ hr⟩
        rw [equals_arr_list rfl xs ys rfl rfl, equalsList_eq_equivList [] rfl xs ys hxs hys] at he
        simpa [mapply, equivB, dispatchTag] using he
      | false =>
        rw [he] at hd
        rw [show dl [] (.arr t xs) (.arr t' ys) = [([], .arr .list ys)] by simpa using hd]
        have := G.refl L
        refine ⟨by simpa [mapply, mset, equivB, dispatchTag] using this, ?_⟩
        simp [mapply, mset, Json.listDoc, hys]
    | _ => exact direct_single L (dl_arr_other [] t xs rfl) G
  | .void, _, _, b, G => direct_scalar L rfl rfl G
  | .null, _, _, b, G => direct_scalar L rfl rfl G
  | .bool _, _, _, b, G => direct_scalar L rfl rfl G
  | .num _, _, _, b, G => direct_scalar L rfl rfl G
  | .str _, _, _, b, G => direct_scalar L rfl rfl G
theorem directKvs (L : FloatLaws) :
    ∀ (kvs : List (String × Json)), wfKvs kvs = true → rawDocKvs kvs = true →
    ∀ k v, alookup k kvs = some v → ∀ b : Json, GoodC b → Direct v b
  | [], _, _, k, v, h => by simp [alookup] at h
  | (k0, v0) :: r, hw, hr, k, v, h => by
    simp only [wfKvs, rawDocKvs, Bool.and_eq_true] at hw hr
    simp only [alookup] at h
    split at h
    · cases h; exact direct L v0 hw.1 hr.1
    · exact directKvs L r hw.2 hr.2 k v h
end

/-- **C17, MERGE reading, in memory.** For documents as read from JSON text (`rawDoc`, `wf`), the
    second one with finite numbers and no void member, and metadata `MergeMode m` (MERGE, no SET, no
    MULTISET, precision 0): `a.Patch(a.Diff(b, m...))` succeeds and the result `Equals` `b`, is
    structurally equal to it (`specEq`) and is a list document. `b` MAY contain nulls. -/
theorem v1_merge_diff_patch (L : FloatLaws) {m : V1.Metas} (hm : MergeMode m) (a b : Json)
    (haw : a.wf = true) (har : a.rawDoc = true)
    (hbw : b.wf = true) (hbr : b.rawDoc = true) (hbv : objVoidFree b = true)
    (hbf : b.finiteNums = true) :
    ∃ r, V1.patchM a (V1.diffM m a b) = .ok r ∧ V1.equals m r b = true ∧ specEq r b = true ∧
      r.listDoc = true := by
  have G : GoodC b := ⟨hbw, hbr, hbv, hbf⟩
  obtain ⟨h1, h2⟩ := direct L a haw har b G
  refine ⟨mapply (dl [] a b) a, ?_, ?_, h1, h2⟩
  · rw [diffM_eq_dl hm a b har haw G.listDoc hbw hbv, patchM_vh]
  · rw [equals_eq_specEq hm h2 G.listDoc]; exact h1

end MergeDirect

/-! # Part 2. SET and MULTISET readings (no setkeys), strict strategy -/

/-! ## 2.0 the metadata only matter through `dispatchTag`, `precOf`, `keysOf` -/

theorem effTag_congr {m m' : V1.Metas} (h : V1.dispatchTag m = V1.dispatchTag m') (t : Tag) :
    V1.effTag m t = V1.effTag m' t := by
  cases t <;> simp [V1.effTag, h]

theorem dispatch_congr {m m' : V1.Metas} (h : V1.dispatchTag m = V1.dispatchTag m') (b : Json) :
    V1.dispatch m b = V1.dispatch m' b := by
  cases b with
  | arr t xs => cases t <;> simp [V1.dispatch, h]
  | _ => rfl

mutual
theorem hashCode_congr {m m' : V1.Metas} (h : V1.dispatchTag m = V1.dispatchTag m') :
    ∀ a : Json, V1.hashCode m a = V1.hashCode m' a
  | .void => by simp [V1.hashCode]
  | .null => by simp [V1.hashCode]
  | .bool b => by cases b <;> simp [V1.hashCode]
  | .num _ => by simp [V1.hashCode]
  | .str _ => by simp [V1.hashCode]
  | .arr t xs => by simp only [V1.hashCode, effTag_congr h t, hashList_congr h xs]
  | .obj kvs => by simp only [V1.hashCode, hashKvs_congr' h kvs]
theorem hashList_congr {m m' : V1.Metas} (h : V1.dispatchTag m = V1.dispatchTag m') :
    ∀ xs : List Json, V1.hashList m xs = V1.hashList m' xs
  | [] => by simp [V1.hashList]
  | x :: r => by simp only [V1.hashList, hashCode_congr h x, hashList_congr h r]
theorem hashKvs_congr' {m m' : V1.Metas} (h : V1.dispatchTag m = V1.dispatchTag m') :
    ∀ kvs : List (String × Json), V1.hashKvs m kvs = V1.hashKvs m' kvs
  | [] => by simp [V1.hashKvs]
  | (k, v) :: r => by simp only [V1.hashKvs, hashCode_congr h v, hashKvs_congr' h r]
end

mutual
theorem equals_congr {m m' : V1.Metas} (h : V1.dispatchTag m = V1.dispatchTag m')
    (hp : V1.precOf m = V1.precOf m') : ∀ a b : Json, V1.equals m a b = V1.equals m' a b
  | .void, b => by simp [V1.equals]
  | .null, b => by simp [V1.equals]
  | .bool _, b => by cases b <;> simp [V1.equals]
  | .num _, b => by cases b <;> simp [V1.equals, hp]
  | .str _, b => by cases b <;> simp [V1.equals]
  | .arr t xs, b => by
    have e := equalsList_congr h hp xs
    simp only [V1.equals, effTag_congr h t, dispatch_congr h b, hashCode_congr h, e]
  | .obj kvs, b => by
    cases b with
    | obj kvs' => simp only [V1.equals, equalsKvs_congr h hp kvs kvs']
    | _ => simp [V1.equals]
theorem equalsList_congr {m m' : V1.Metas} (h : V1.dispatchTag m = V1.dispatchTag m')
    (hp : V1.precOf m = V1.precOf m') :
    ∀ xs ys : List Json, V1.equalsList m xs ys = V1.equalsList m' xs ys
  | [], ys => by cases ys <;> simp [V1.equalsList]
  | x :: r, ys => by
    cases ys with
    | nil => simp [V1.equalsList]
    | cons y ys => simp only [V1.equalsList, equals_congr h hp x y, equalsList_congr h hp r ys]
theorem equalsKvs_congr {m m' : V1.Metas} (h : V1.dispatchTag m = V1.dispatchTag m')
    (hp : V1.precOf m = V1.precOf m') :
    ∀ r kvs' : List (String × Json), V1.equalsKvs m r kvs' = V1.equalsKvs m' r kvs'
  | [], _ => by simp [V1.equalsKvs]
  | (k, v) :: r, kvs' => by
    simp only [V1.equalsKvs, equalsKvs_congr h hp r kvs']
    cases alookup k kvs' with
    | none => rfl
    | some v' => simp only [equals_congr h hp v v']
end

/-- without setkeys the identity of every node is its hash code -/
theorem identOf_eq_hashCode {m : V1.Metas} (hk : V1.keysOf m = none) (x : Json) :
    V1.identOf m x = V1.hashCode m x := by
  cases x <;> simp [V1.identOf, V1.identObj, hk]

theorem identOf_congr {m m' : V1.Metas} (h : V1.dispatchTag m = V1.dispatchTag m')
    (hk : V1.keysOf m = none) (hk' : V1.keysOf m' = none) : V1.identOf m = V1.identOf m' := by
  funext x
  rw [identOf_eq_hashCode hk, identOf_eq_hashCode hk', hashCode_congr h]

theorem patchSetLeaf_congr {m m' : V1.Metas} (h : V1.dispatchTag m = V1.dispatchTag m')
    (hk : V1.keysOf m = none) (hk' : V1.keysOf m' = none) (hp : V1.precOf m = V1.precOf m')
    (s old new : List Json) :
    V1.patchSetLeaf m s old new = V1.patchSetLeaf m' s old new := by
  have e1 : V1.identOf m = V1.identOf m' := identOf_congr h hk hk'
  have e2 : V1.equals m = V1.equals m' := by
    funext a b; exact equals_congr h hp a b
  have e3 : ∀ am rem, V1.setRemoveLoop m am rem = V1.setRemoveLoop m' am rem := by
    intro am rem
    induction rem generalizing am with
    | nil => simp [V1.setRemoveLoop]
    | cons v r ih => simp only [V1.setRemoveLoop, e1, e2, ih]
  simp only [V1.patchSetLeaf, e1, e3]

theorem patchMsetLeaf_congr {m m' : V1.Metas} (h : V1.dispatchTag m = V1.dispatchTag m')
    (a old new : List Json) :
    V1.patchMsetLeaf m a old new = V1.patchMsetLeaf m' a old new := by
  have e1 : ∀ l, V1.hashList m l = V1.hashList m' l := hashList_congr h
  have e2 : ∀ hh l, V1.hashLookup m hh l = V1.hashLookup m' hh l := by
    intro hh l
    induction l with
    | nil => simp [V1.hashLookup]
    | cons x r ih => simp only [V1.hashLookup, ih, hashCode_congr h x]
  simp only [V1.patchMsetLeaf, e1, e2]

/-! ## 2.1 the reading: metadata `m` (v1) against options `o` (for the specification `equivB`) -/

/-- the metadata of the set-mode theorems, tied to the options under which the specification
    `equivB` is read: SET or MULTISET (v1: SET wins when both are given), no setkeys, no MERGE,
    precision 0 or absent -/
structure Mode (m : V1.Metas) (o : Opts) : Prop where
  tag : V1.dispatchTag m = dispatchTag o
  sm : dispatchTag o = .set ∨ dispatchTag o = .mset
  prec : precOf o = 0
  vprec : V1.precOf m = 0
  keys : V1.keysOf m = none
  noMerge : V1.hasMerge m = false

theorem Mode.vsm {m : V1.Metas} {o : Opts} (M : Mode m o) :
    V1.dispatchTag m = .set ∨ V1.dispatchTag m = .mset := by
  rw [M.tag]; exact M.sm

theorem hashList_eq_map (m : V1.Metas) : ∀ xs : List Json, V1.hashList m xs = xs.map (V1.hashCode m)
  | [] => by simp [V1.hashList]
  | x :: r => by simp [V1.hashList, hashList_eq_map m r]

/-! ## 2.2 equivalent documents have equal v1 hash codes; the v1 `Equals` in the set modes -/

/-- "no FNV collision and no pre-image alias among these nodes" for the V1 hash codes: equal hash
    codes only for equivalent nodes. The v1 hash pre-images have NO kind prefix for lists and
    objects, so `[]`, `{}` and `""` all hash to the FNV offset basis (and a one-element list hashes
    like the 8-byte string of its element's hash, …): the hypothesis excludes two of those among
    the sub-terms at hand (`alias_classes`). The converse is the theorem `equivB_hash_core`. -/
def HashFaithful (m : V1.Metas) (o : Opts) (S : List Json) : Prop :=
  ∀ x ∈ S, ∀ y ∈ S, V1.hashCode m x = V1.hashCode m y → equivB o x y = true

theorem HashFaithful.mono {m : V1.Metas} {o : Opts} {S T : List Json} (h : HashFaithful m o T)
    (hs : S ⊆ T) : HashFaithful m o S :=
  fun x hx y hy e => h x (hs hx) y (hs hy) e

/-- a bag matching whose matched pairs have equal keys: the key lists are permutations -/
theorem bagSub_key_perm (H : Json → UInt64) (o : Opts) : ∀ (xs ys : List Json),
    xs.length = ys.length → bagSub o xs ys = true →
    (∀ x ∈ xs, ∀ y ∈ ys, equivB o x y = true → H x = H y) →
    (xs.map H).Perm (ys.map H)
  | [], ys, hl, _, _ => by
    cases ys with
    | nil => exact List.Perm.refl _
    | cons _ _ => simp at hl
  | x :: r, ys, hl, hb, hh => by
    rw [bagSub] at hb
    cases hr : removeFirst (fun y => equivB o x y) ys with
    | none => simp [hr] at hb
    | some ys' =>
      simp only [hr] at hb
      obtain ⟨y, hy, hperm⟩ := removeFirst_some _ hr
      have hymem : y ∈ ys := hperm.symm.subset List.mem_cons_self
      have hlen : r.length = ys'.length := by
        have := hperm.length_eq
        simp only [List.length_cons] at this hl
        omega
      have ih := bagSub_key_perm H o r ys' hlen hb
        (fun x' hx' y' hy' e => hh x' (List.mem_cons_of_mem _ hx') y'
          (hperm.symm.subset (List.mem_cons_of_mem _ hy')) e)
      have e := hh x List.mem_cons_self y hymem hy
      have h2 : (ys.map H).Perm (H x :: ys'.map H) := by
        have := hperm.map H
        simpa [e] using this
      exact (List.Perm.cons _ ih).trans h2.symm

/-- objects with the same keys (sorted, unique) and pointwise equal value hashes hash alike -/
theorem hashKvs_congr (m : V1.Metas) (R : Json → Json → Bool) :
    ∀ (kvs kvs' : List (String × Json)), keysSorted kvs = true → keysSorted kvs' = true →
      AllLook R kvs kvs' → AllLook (fun x y => R y x) kvs' kvs →
      (∀ k v v', (k, v) ∈ kvs → (k, v') ∈ kvs' → R v v' = true →
        V1.hashCode m v = V1.hashCode m v') →
      V1.hashKvs m kvs = V1.hashKvs m kvs'
  | [], [], _, _, _, _, _ => rfl
  | [], (k', v') :: r', _, _, _, h2, _ => by
    obtain ⟨_, hl, _⟩ := h2 k' v' List.mem_cons_self
    simp [alookup] at hl
  | (k, v) :: r, [], _, _, h1, _, _ => by
    obtain ⟨_, hl, _⟩ := h1 k v List.mem_cons_self
    simp [alookup] at hl
  | (k, v) :: r, (k', v') :: r', hs, hs', h1, h2, hh => by
    have hkk : k = k' := by
      obtain ⟨w, hl, _⟩ := h1 k v List.mem_cons_self
      obtain ⟨w', hl', _⟩ := h2 k' v' List.mem_cons_self
      have m1 := mem_of_alookup hl
      have m2 := mem_of_alookup hl'
      rcases List.mem_cons.1 m1 with e1 | m1
      · exact (Prod.mk.inj e1).1
      · rcases List.mem_cons.1 m2 with e2 | m2
        · exact (Prod.mk.inj e2).1.symm
        · exact absurd (keysSorted_head_lt hs' k w m1)
            (String.lt_asymm (keysSorted_head_lt hs k' w' m2))
    subst hkk
    have hv : R v v' = true := by
      obtain ⟨w, hl, hr⟩ := h1 k v List.mem_cons_self
      simp only [alookup, if_true] at hl
      cases hl
      exact hr
    have t1 : AllLook R r r' := by
      intro k1 v1 hm1
      obtain ⟨w, hl, hr⟩ := h1 k1 v1 (List.mem_cons_of_mem _ hm1)
      have hlt := keysSorted_head_lt hs k1 v1 hm1
      have hne : k1 ≠ k := fun e => String.lt_irrefl k (e ▸ hlt)
      simp only [alookup, hne, if_false] at hl
      exact ⟨w, hl, hr⟩
    have t2 : AllLook (fun x y => R y x) r' r := by
      intro k1 v1 hm1
      obtain ⟨w, hl, hr⟩ := h2 k1 v1 (List.mem_cons_of_mem _ hm1)
      have hlt := keysSorted_head_lt hs' k1 v1 hm1
      have hne : k1 ≠ k := fun e => String.lt_irrefl k (e ▸ hlt)
      simp only [alookup, hne, if_false] at hl
      exact ⟨w, hl, hr⟩
    simp only [V1.hashKvs]
    rw [hh k v v' List.mem_cons_self List.mem_cons_self hv,
      hashKvs_congr m R r r' (keysSorted_tail hs) (keysSorted_tail hs') t1 t2
        (fun k1 v1 v1' m1 m' e =>
          hh k1 v1 v1' (List.mem_cons_of_mem _ m1) (List.mem_cons_of_mem _ m') e)]

/-- **equivalent ⇒ equal v1 hash codes** (SET and MULTISET readings; no hash hypothesis) -/
theorem equivB_hash_core (F : FloatEq0) {m : V1.Metas} {o : Opts} (M : Mode m o) :
    ∀ a b, DocOk a → DocOk b → equivB o a b = true → V1.hashCode m a = V1.hashCode m b := by
  have hp := M.prec
  intro a
  induction a using jsonInd with
  | void => intro b _ _ h; cases b <;> simp [equivB] at h ⊢
  | null => intro b _ _ h; cases b <;> simp [equivB] at h ⊢
  | bool x => intro b _ _ h; cases b <;> simp [equivB] at h ⊢; simp [h]
  | str x => intro b _ _ h; cases b <;> simp [equivB] at h ⊢; simp [h]
  | num x =>
    intro b ha hb h
    cases b with
    | num y =>
      have hx := ha (.num x) (mem_subterms_self _)
      have hy := hb (.num y) (mem_subterms_self _)
      simp only [nodeOk, Bool.and_eq_true, bne_iff_ne, ne_eq] at hx hy
      simp only [equivB, hp] at h
      rw [F.eq_of_within0 x y hx.1 hy.1 hx.2 hy.2 h]
    | _ => simp [equivB] at h
  | arr t xs ih =>
    intro b ha hb h
    cases b with
    | arr t' ys =>
      have ht := ha.raw
      have ht' := hb.raw
      subst ht ht'
      have ihx : ∀ x ∈ xs, ∀ y ∈ ys, equivB o x y = true → V1.hashCode m x = V1.hashCode m y :=
        fun x hx y hy e => ih x hx y (ha.elem hx) (hb.elem hy) e
      rcases M.sm with hd | hd
      · have hd' : V1.dispatchTag m = .set := M.tag.trans hd
        simp only [equivB, hd, Bool.and_eq_true, allIn_iff, allCovered_iff] at h
        have key : hsort (hdedup (V1.hashList m xs)) = hsort (hdedup (V1.hashList m ys)) := by
          apply hsort_hdedup_ext
          intro c
          simp only [hashList_eq_map, List.mem_map]
          constructor
          · rintro ⟨x, hx, rfl⟩
            obtain ⟨y, hy, e⟩ := h.1 x hx
            exact ⟨y, hy, (ihx x hx y hy e).symm⟩
          · rintro ⟨y, hy, rfl⟩
            obtain ⟨x, hx, e⟩ := h.2 y hy
            exact ⟨x, hx, ihx x hx y hy e⟩
        simp only [V1.hashCode, V1.effTag, hd', hcombine, key]
      · have hd' : V1.dispatchTag m = .mset := M.tag.trans hd
        simp only [equivB, hd, Bool.and_eq_true, beq_iff_eq] at h
        have key : hsort (V1.hashList m xs) = hsort (V1.hashList m ys) := by
          apply hsort_eq_of_perm
          rw [hashList_eq_map, hashList_eq_map]
          exact bagSub_key_perm (V1.hashCode m) o xs ys h.1 h.2 ihx
        simp only [V1.hashCode, V1.effTag, hd', key]
    | _ => simp [equivB] at h
  | obj kvs ih =>
    intro b ha hb h
    cases b with
    | obj kvs' =>
      have hs := ha.sorted
      have hs' := hb.sorted
      simp only [equivB, Bool.and_eq_true, beq_iff_eq, equivKvs_eq_lookAll, lookAll_iff] at h
      have hflip := AllLook.flip hs hs' h.1 h.2
      have key : V1.hashKvs m kvs = V1.hashKvs m kvs' :=
        hashKvs_congr m (equivB o) kvs kvs' hs hs' h.2 hflip
          (fun k v v' hm1 hm2 e => ih k v hm1 v' (ha.val hm1) (hb.val hm2) e)
      simp only [V1.hashCode, key]
    | _ => simp [equivB] at h

theorem equals_arr_raw_set {m : V1.Metas} (hd : V1.dispatchTag m = .set) (xs ys : List Json) :
    V1.equals m (.arr .raw xs) (.arr .raw ys)
      = (V1.hashCode m (.arr .raw xs) == V1.hashCode m (.arr .raw ys)) := by
  simp [V1.equals, V1.effTag, V1.dispatch, hd, V1.hashCode]

theorem equals_arr_raw_mset {m : V1.Metas} (hd : V1.dispatchTag m = .mset) (xs ys : List Json) :
    V1.equals m (.arr .raw xs) (.arr .raw ys)
      = (xs.length == ys.length &&
          V1.hashCode m (.arr .raw xs) == V1.hashCode m (.arr .raw ys)) := by
  simp [V1.equals, V1.effTag, V1.dispatch, hd, V1.hashCode]

theorem equalsKvs_eq_lookAll (m : V1.Metas) (kvs' : List (String × Json)) :
    ∀ (kvs : List (String × Json)), V1.equalsKvs m kvs kvs' = lookAll (V1.equals m) kvs kvs'
  | [] => by simp [V1.equalsKvs, lookAll]
  | (k, v) :: r => by rw [V1.equalsKvs, lookAll, equalsKvs_eq_lookAll m kvs' r]; rfl

/-- core statement: only pairs of ARRAY nodes (one from each document) need faithful hash codes -/
theorem equals_eq_equivB_core (F : FloatEq0) {m : V1.Metas} {o : Opts} (M : Mode m o) :
    ∀ a b, DocOk a → DocOk b →
      (∀ x ∈ subterms a, ∀ y ∈ subterms b, x.isArr = true → y.isArr = true →
        V1.hashCode m x = V1.hashCode m y → equivB o x y = true) →
      V1.equals m a b = equivB o a b := by
  have hp := M.prec
  have hvp := M.vprec
  intro a
  induction a using jsonInd with
  | void => intro b _ _ _; cases b <;> simp [V1.equals, equivB, Json.isVoid]
  | null => intro b _ _ _; cases b <;> simp [V1.equals, equivB, Json.isNull]
  | bool x => intro b _ _ _; cases b <;> simp [V1.equals, equivB]
  | num x => intro b _ _ _; cases b <;> simp [V1.equals, equivB, hp, hvp]
  | str x => intro b _ _ _; cases b <;> simp [V1.equals, equivB]
  | arr t xs _ =>
    intro b ha hb hf
    have ht := ha.raw
    subst ht
    cases b with
    | arr t' ys =>
      have ht' := hb.raw
      subst ht'
      rw [Bool.eq_iff_iff]
      constructor
      · intro h
        apply hf _ (mem_subterms_self _) _ (mem_subterms_self _) rfl rfl
        rcases M.vsm with hd | hd
        · simpa [equals_arr_raw_set hd] using h
        · rw [equals_arr_raw_mset hd, Bool.and_eq_true] at h
          simpa using h.2
      · intro h
        have hh := equivB_hash_core F M _ _ ha hb h
        rcases M.sm with hd | hd
        · simp [equals_arr_raw_set (M.tag.trans hd), hh]
        · have hlen : xs.length = ys.length := by
            simp only [equivB, hd, Bool.and_eq_true, beq_iff_eq] at h
            exact h.1
          simp [equals_arr_raw_mset (M.tag.trans hd), hh, hlen]
    | _ =>
      rcases M.vsm with hd | hd <;> simp [V1.equals, equivB, V1.dispatch, V1.effTag, hd]
  | obj kvs ih =>
    intro b ha hb hf
    cases b with
    | obj kvs' =>
      have key : ∀ r : List (String × Json), (∀ kv ∈ r, kv ∈ kvs) →
          V1.equalsKvs m r kvs' = equivKvs o r kvs' := by
        intro r
        induction r with
        | nil => intro _; simp [V1.equalsKvs, equivKvs]
        | cons kv r ihr =>
          intro hsub
          obtain ⟨k, v⟩ := kv
          rw [V1.equalsKvs, equivKvs, ihr (fun kv h => hsub kv (List.mem_cons_of_mem _ h))]
          cases hl : alookup k kvs' with
          | none => rfl
          | some v' =>
            have hm1 : (k, v) ∈ kvs := hsub _ List.mem_cons_self
            have hm2 : (k, v') ∈ kvs' := mem_of_alookup hl
            have := ih k v hm1 v' (ha.val hm1) (hb.val hm2)
              (fun x hx y hy => hf x (subterms_val_sub hm1 hx) y (subterms_val_sub hm2 hy))
            simp [this]
      simp [V1.equals, equivB, key kvs (fun _ h => h)]
    | _ => simp [V1.equals, equivB]

theorem equals_arr_raw_refl {m : V1.Metas}
    (hm : V1.dispatchTag m = .set ∨ V1.dispatchTag m = .mset) (xs : List Json) :
    V1.equals m (.arr .raw xs) (.arr .raw xs) = true := by
  rcases hm with hd | hd
  · simp [equals_arr_raw_set hd]
  · simp [equals_arr_raw_mset hd]

mutual
/-- the v1 `Equals` is reflexive in the set modes (finite numbers, precision 0) -/
theorem equals_refl_setmode (L : FloatLaws) {m : V1.Metas}
    (hm : V1.dispatchTag m = .set ∨ V1.dispatchTag m = .mset) (hp : V1.precOf m = 0) :
    ∀ (a : Json), a.rawDoc = true → a.wf = true → a.finiteNums = true → V1.equals m a a = true
  | .void, _, _, _ => by simp [V1.equals, Json.isVoid]
  | .null, _, _, _ => by simp [V1.equals, Json.isNull]
  | .bool x, _, _, _ => by simp [V1.equals]
  | .num x, _, _, hf => by
    simp only [Json.finiteNums] at hf
    simp [V1.equals, hp, L.refl 0 x hf (by decide)]
  | .str x, _, _, _ => by simp [V1.equals]
  | .arr t xs, ha, _, _ => by
    simp only [Json.rawDoc, Bool.and_eq_true, beq_iff_eq] at ha
    obtain ⟨rfl, _⟩ := ha
    exact equals_arr_raw_refl hm xs
  | .obj kvs, ha, hw, hf => by
    simp only [Json.rawDoc] at ha
    simp only [Json.wf, Bool.and_eq_true] at hw
    simp only [Json.finiteNums] at hf
    simp only [V1.equals, beq_self_eq_true, Bool.true_and]
    exact equalsKvs_refl_setmode L hm hp kvs kvs (fun k v h => alookup_of_mem hw.1 h) ha hw.2 hf
theorem equalsKvs_refl_setmode (L : FloatLaws) {m : V1.Metas}
    (hm : V1.dispatchTag m = .set ∨ V1.dispatchTag m = .mset) (hp : V1.precOf m = 0) :
    ∀ (r kvs : List (String × Json)), (∀ k v, (k, v) ∈ r → alookup k kvs = some v) →
      rawDocKvs r = true → wfKvs r = true → finiteNumsKvs r = true → V1.equalsKvs m r kvs = true
  | [], _, _, _, _, _ => by simp [V1.equalsKvs]
  | (k, v) :: r, kvs, hsub, ha, hw, hf => by
    simp only [rawDocKvs, wfKvs, finiteNumsKvs, Bool.and_eq_true] at ha hw hf
    rw [V1.equalsKvs, hsub k v List.mem_cons_self]
    simp [equals_refl_setmode L hm hp v ha.1 hw.1 hf.1,
      equalsKvs_refl_setmode L hm hp r kvs
        (fun k' v' h => hsub k' v' (List.mem_cons_of_mem _ h)) ha.2 hw.2 hf.2]
end

/-! ## 2.3 the set leaf and the multiset leaf of the v1 patch code -/

/-- On the finitely many elements `E` at hand: identities (64-bit FNV values) coincide exactly for
    equivalent elements, and the v1 `Equals` agrees with the specification `equivB` -/
def Faithful (m : V1.Metas) (o : Opts) (E : List Json) : Prop :=
  ∀ x ∈ E, ∀ y ∈ E,
    (V1.identOf m x = V1.identOf m y ↔ equivB o x y = true) ∧ (V1.equals m x y = equivB o x y)

theorem Faithful.mono {m : V1.Metas} {o : Opts} {E E' : List Json} (hF : Faithful m o E)
    (h : ∀ x ∈ E', x ∈ E) : Faithful m o E' :=
  fun x hx y hy => hF x (h x hx) y (h y hy)

theorem Faithful.equivB_iff {m : V1.Metas} {o : Opts} {E : List Json} (hF : Faithful m o E)
    {x y : Json} (hx : x ∈ E) (hy : y ∈ E) :
    equivB o x y = true ↔ V1.identOf m x = V1.identOf m y :=
  (hF x hx y hy).1.symm

theorem Faithful.equals_iff {m : V1.Metas} {o : Opts} {E : List Json} (hF : Faithful m o E)
    {x y : Json} (hx : x ∈ E) (hy : y ∈ E) :
    V1.equals m x y = true ↔ V1.identOf m x = V1.identOf m y := by
  rw [(hF x hx y hy).2]; exact hF.equivB_iff hx hy

/-- the map invariant: distinct keys, every entry is an element of `E` stored under its identity -/
def MapInv (m : V1.Metas) (E : List Json) (am : List (UInt64 × Json)) : Prop :=
  (hkeys am).Nodup ∧ ∀ p ∈ am, p.2 ∈ E ∧ V1.identOf m p.2 = p.1

theorem MapInv.nil (m : V1.Metas) (E : List Json) : MapInv m E [] := by simp [MapInv, hkeys]

theorem MapInv.set {m : V1.Metas} {E : List Json} {am : List (UInt64 × Json)} (hI : MapInv m E am)
    {v : Json} (hv : v ∈ E) : MapInv m E (hmapSet (V1.identOf m v) v am) := by
  refine ⟨nodup_hkeys_hmapSet _ _ _ hI.1, ?_⟩
  intro p hp
  rcases mem_hmapSet hp with e | e
  · subst e; exact ⟨hv, rfl⟩
  · exact hI.2 p e

theorem MapInv.erase {m : V1.Metas} {E : List Json} {am : List (UInt64 × Json)}
    (hI : MapInv m E am) (h : UInt64) : MapInv m E (hmapErase h am) := by
  exact ⟨nodup_hkeys_hmapErase h hI.1, fun p hp => hI.2 p ((hmapErase_sublist h am).subset hp)⟩

/-- `for _, v := range l { aMap[ident(v)] = v }` -/
def buildMap (m : V1.Metas) (l : List Json) (am : List (UInt64 × Json)) : List (UInt64 × Json) :=
  l.foldl (fun acc v => hmapSet (V1.identOf m v) v acc) am

theorem buildMap_inv {m : V1.Metas} {E : List Json} :
    ∀ (l : List Json) {am : List (UInt64 × Json)}, MapInv m E am → (∀ v ∈ l, v ∈ E) →
      MapInv m E (buildMap m l am)
  | [], _, hI, _ => by simpa [buildMap] using hI
  | v :: r, am, hI, hl => by
    simp only [buildMap, List.foldl_cons]
    exact buildMap_inv r (hI.set (hl v (by simp))) (fun y hy => hl y (by simp [hy]))

theorem mem_hkeys_buildMap {m : V1.Metas} (h : UInt64) :
    ∀ (l : List Json) (am : List (UInt64 × Json)),
      h ∈ hkeys (buildMap m l am) ↔ h ∈ hkeys am ∨ h ∈ l.map (V1.identOf m)
  | [], am => by simp [buildMap]
  | v :: r, am => by
    have ih := mem_hkeys_buildMap (m := m) h r (hmapSet (V1.identOf m v) v am)
    simp only [buildMap, List.foldl_cons] at ih ⊢
    rw [ih, mem_hkeys_hmapSet]
    simp only [List.map_cons, List.mem_cons]
    grind

theorem setRemoveLoop_ok {m : V1.Metas} {E : List Json}
    (heq : ∀ x ∈ E, ∀ y ∈ E, V1.identOf m x = V1.identOf m y → V1.equals m x y = true) :
    ∀ (rem : List Json) (am : List (UInt64 × Json)), MapInv m E am → (∀ r ∈ rem, r ∈ E) →
      (∀ r ∈ rem, V1.identOf m r ∈ hkeys am) → (rem.map (V1.identOf m)).Nodup →
      ∃ am', V1.setRemoveLoop m am rem = .ok am' ∧ MapInv m E am' ∧
        ∀ h, h ∈ hkeys am' ↔ h ∈ hkeys am ∧ h ∉ rem.map (V1.identOf m)
  | [], am, hI, _, _, _ => ⟨am, by simp [V1.setRemoveLoop], hI, by simp⟩
  | v :: r, am, hI, hE, hk, hn => by
    have hv : v ∈ E := hE v (by simp)
    have hkv : V1.identOf m v ∈ hkeys am := hk v (by simp)
    simp only [List.map_cons, List.nodup_cons] at hn
    cases hg : hmapGet (V1.identOf m v) am with
    | none => exact absurd hkv (hmapGet_none.1 hg)
    | some d =>
      have hd := hI.2 _ (hmapGet_some hg)
      have he : V1.equals m d v = true := heq d hd.1 v hv hd.2
      have hk' : ∀ r' ∈ r, V1.identOf m r' ∈ hkeys (hmapErase (V1.identOf m v) am) := by
        intro r' hr'
        rw [mem_hkeys_hmapErase _ _ _ hI.1]
        refine ⟨hk r' (by simp [hr']), ?_⟩
        intro e
        exact hn.1 (e ▸ List.mem_map_of_mem hr')
      obtain ⟨am', h1, h2, h3⟩ := setRemoveLoop_ok heq r (hmapErase (V1.identOf m v) am)
        (hI.erase _) (fun y hy => hE y (by simp [hy])) hk' hn.2
      refine ⟨am', ?_, h2, ?_⟩
      · simp [V1.setRemoveLoop, hg, he, h1]
      · intro h
        rw [h3, mem_hkeys_hmapErase _ _ _ hI.1]
        simp only [List.map_cons, List.mem_cons]
        grind

theorem patchSetLeaf_eq (m : V1.Metas) (s old new : List Json) :
    V1.patchSetLeaf m s old new =
      (match V1.setRemoveLoop m (buildMap m s []) old with
       | .ok am => .ok (.arr .set ((ksort (buildMap m new am)).map (·.2)))
       | .err => .err
       | .panic => .panic) := by
  unfold V1.patchSetLeaf buildMap
  dsimp only
  cases V1.setRemoveLoop m (List.foldl (fun acc v => hmapSet (V1.identOf m v) v acc) [] s) old <;> rfl

theorem setRemoveLoop_sub {m : V1.Metas} :
    ∀ (rem : List Json) (am am' : List (UInt64 × Json)), V1.setRemoveLoop m am rem = .ok am' →
      ∀ p ∈ am', p ∈ am
  | [], am, am', h => by
    simp only [V1.setRemoveLoop, Outcome.ok.injEq] at h
    subst h; exact fun _ hp => hp
  | v :: r, am, am', h => by
    simp only [V1.setRemoveLoop] at h
    split at h
    · cases h
    · split at h
      · intro p hp
        exact (hmapErase_sublist _ am).subset (setRemoveLoop_sub r _ _ h p hp)
      · cases h

theorem mem_buildMap {m : V1.Metas} {p : UInt64 × Json} :
    ∀ (l : List Json) (am : List (UInt64 × Json)), p ∈ buildMap m l am → p ∈ am ∨ p.2 ∈ l
  | [], am, h => by simpa [buildMap] using h
  | v :: r, am, h => by
    simp only [buildMap, List.foldl_cons] at h
    rcases mem_buildMap r _ h with h' | h'
    · rcases mem_hmapSet h' with e | e
      · subst e; simp
      · exact Or.inl e
    · exact Or.inr (by simp [h'])

theorem values_idents {m : V1.Metas} {E : List Json} {am : List (UInt64 × Json)}
    (hI : MapInv m E am) :
    ((ksort am).map (·.2)).map (V1.identOf m) = hkeys (ksort am) := by
  simp only [hkeys, List.map_map]
  apply List.map_congr_left
  intro p hp
  exact (hI.2 p ((ksort_perm am).mem_iff.1 hp)).2

/-- the outcome of the v1 set leaf in terms of identities (success case) -/
theorem patchSetLeaf_idents {m : V1.Metas} {o : Opts} {s old new : List Json}
    (hF : Faithful m o (s ++ old ++ new))
    (hall : ∀ r ∈ old, V1.identOf m r ∈ s.map (V1.identOf m))
    (hn : (old.map (V1.identOf m)).Nodup) :
    ∃ ys, V1.patchSetLeaf m s old new = .ok (.arr .set ys) ∧
      (∀ y ∈ ys, y ∈ s ∨ y ∈ new) ∧
      ∀ h, h ∈ ys.map (V1.identOf m) ↔
        (h ∈ s.map (V1.identOf m) ∧ h ∉ old.map (V1.identOf m)) ∨ h ∈ new.map (V1.identOf m) := by
  have hI0 : MapInv m (s ++ old ++ new) (buildMap m s []) :=
    buildMap_inv s (MapInv.nil _ _) (fun v hv => by simp [hv])
  have hk0 : ∀ h, h ∈ hkeys (buildMap m s []) ↔ h ∈ s.map (V1.identOf m) := by
    intro h; rw [mem_hkeys_buildMap]; simp [hkeys]
  obtain ⟨am', h1, h2, h3⟩ := setRemoveLoop_ok
    (fun x hx y hy e => (hF.equals_iff hx hy).2 e) old _ hI0
    (fun r hr => by simp [hr]) (fun r hr => by rw [hk0]; exact hall r hr) hn
  have hI2 : MapInv m (s ++ old ++ new) (buildMap m new am') :=
    buildMap_inv new h2 (fun v hv => by simp [hv])
  refine ⟨_, by rw [patchSetLeaf_eq, h1], ?_, ?_⟩
  · intro y hy
    obtain ⟨p, hp, rfl⟩ := List.mem_map.1 hy
    rcases mem_buildMap new am' ((ksort_perm _).mem_iff.1 hp) with h' | h'
    · rcases mem_buildMap s [] (setRemoveLoop_sub old _ _ h1 p h') with h'' | h''
      · simp at h''
      · exact Or.inl h''
    · exact Or.inr h'
  · intro h
    rw [values_idents hI2, mem_hkeys_ksort, mem_hkeys_buildMap, h3, hk0]

theorem hashLookup_some {m : V1.Metas} {h : UInt64} :
    ∀ {l : List Json}, h ∈ l.map (V1.hashCode m) →
      ∃ x, V1.hashLookup m h l = some x ∧ x ∈ l ∧ V1.hashCode m x = h
  | [], hm => by simp at hm
  | y :: r, hm => by
    simp only [V1.hashLookup]
    by_cases hr : h ∈ r.map (V1.hashCode m)
    · obtain ⟨x, e, hx, hk⟩ := hashLookup_some hr
      exact ⟨x, by simp [e], by simp [hx], hk⟩
    · simp only [List.map_cons, List.mem_cons] at hm
      have hy : V1.hashCode m y = h := (hm.resolve_right hr).symm
      cases e : V1.hashLookup m h r with
      | some x => exact absurd e (by
          intro e
          have : ∀ {l : List Json} {x : Json}, V1.hashLookup m h l = some x →
              h ∈ l.map (V1.hashCode m) := by
            intro l
            induction l with
            | nil => intro x e; simp [V1.hashLookup] at e
            | cons z t ih =>
              intro x e
              simp only [V1.hashLookup] at e
              cases e' : V1.hashLookup m h t with
              | some w => simp [ih e']
              | none =>
                rw [e'] at e
                simp only at e
                split at e
                · rename_i hz; simp [(by simpa using hz : V1.hashCode m z = h)]
                · cases e
          exact hr (this e))
      | none => exact ⟨y, by simp [hy], by simp, hy⟩

theorem filterMap_hashLookup {m : V1.Metas} {all : List Json} :
    ∀ hs : List UInt64, (∀ h ∈ hs, h ∈ all.map (V1.hashCode m)) →
      ((hs.filterMap (fun h => V1.hashLookup m h all)).map (V1.hashCode m) = hs) ∧
      ∀ y ∈ hs.filterMap (fun h => V1.hashLookup m h all), y ∈ all
  | [], _ => by simp
  | h :: r, hm => by
    obtain ⟨x, e, hx, hk⟩ := hashLookup_some (hm h (by simp))
    obtain ⟨ih1, ih2⟩ := filterMap_hashLookup r (fun h' hh' => hm h' (by simp [hh']))
    simp only [List.filterMap_cons, e]
    constructor
    · simp [hk, ih1]
    · intro y hy
      simp only [List.mem_cons] at hy
      rcases hy with rfl | hy
      · exact hx
      · exact ih2 y hy

/-- the outcome of the v1 multiset leaf in terms of hash codes (success case) -/
theorem patchMsetLeaf_counts (m : V1.Metas) (a old new : List Json)
    (hle : ∀ h, (old.map (V1.hashCode m)).count h ≤ (a.map (V1.hashCode m)).count h) :
    ∃ ys, V1.patchMsetLeaf m a old new = .ok (.arr .mset ys) ∧
      (∀ y ∈ ys, y ∈ a ++ old ++ new) ∧
      ∀ h, (ys.map (V1.hashCode m)).count h =
        (a.map (V1.hashCode m)).count h - (old.map (V1.hashCode m)).count h +
          (new.map (V1.hashCode m)).count h := by
  have hno : ((hdedup (V1.hashList m a ++ V1.hashList m old)).any
      (fun h => decide (countOcc h (V1.hashList m a) < countOcc h (V1.hashList m old)))) = false := by
    rw [List.any_eq_false]
    intro h _
    simpa [countOcc_eq_count, hashList_eq_map] using hle h
  have hall : (a ++ old ++ new).map (V1.hashCode m) =
      V1.hashList m a ++ V1.hashList m old ++ V1.hashList m new := by
    simp [hashList_eq_map]
  have hL : ∀ h ∈ hsort ((hdedup (V1.hashList m a ++ V1.hashList m old ++ V1.hashList m new)).flatMap
      (fun h => List.replicate (countOcc h (V1.hashList m a) - countOcc h (V1.hashList m old) +
        countOcc h (V1.hashList m new)) h)), h ∈ (a ++ old ++ new).map (V1.hashCode m) := by
    intro h hh
    have := (hsort_perm _).mem_iff.1 hh
    simp only [List.mem_flatMap, List.mem_replicate] at this
    obtain ⟨d, hd, _, rfl⟩ := this
    rw [hall]
    exact (mem_hdedup _ _).1 hd
  obtain ⟨g1, g2⟩ := filterMap_hashLookup _ hL
  refine ⟨_, by simp only [V1.patchMsetLeaf]; rw [if_neg (by simp [hno])], g2, ?_⟩
  intro h
  rw [g1, (hsort_perm _).count_eq, count_flatMap_replicate _ _ _ (nodup_hdedup _)]
  simp only [countOcc_eq_count, hashList_eq_map, mem_hdedup, List.mem_append]
  split
  · rfl
  · rename_i hn
    simp only [not_or] at hn
    rw [List.count_eq_zero.2 hn.1.1, List.count_eq_zero.2 hn.2]
    omega

/-! ## 2.4 the domain; from `HashFaithful` to `Faithful` -/

open Jd.SetDP (Ok Within)

/-- from "equal hash codes only for equivalent nodes" to the hypothesis of the leaf lemmas -/
theorem faithful_of (F : FloatEq0) {m : V1.Metas} {o : Opts} (M : Mode m o)
    {S : List Json} (HF : HashFaithful m o S) {E : List Json}
    (hE : ∀ x ∈ E, DocOk x ∧ Within S x) : Faithful m o E := by
  intro x hx y hy
  obtain ⟨dx, wx⟩ := hE x hx
  obtain ⟨dy, wy⟩ := hE y hy
  rw [identOf_eq_hashCode M.keys, identOf_eq_hashCode M.keys]
  refine ⟨⟨fun e => HF x wx.self y wy.self e, fun e => equivB_hash_core F M x y dx dy e⟩, ?_⟩
  exact equals_eq_equivB_core F M x y dx dy
    (fun x' hx' y' hy' _ _ e => HF x' (wx x' hx') y' (wy y' hy') e)

theorem equals_eq_equivB_of (F : FloatEq0) {m : V1.Metas} {o : Opts} (M : Mode m o)
    {S : List Json} (HF : HashFaithful m o S) {x y : Json} (dx : DocOk x) (dy : DocOk y)
    (wx : Within S x) (wy : Within S y) : V1.equals m x y = equivB o x y :=
  equals_eq_equivB_core F M x y dx dy
    (fun x' hx' y' hy' _ _ e => HF x' (wx x' hx') y' (wy y' hy') e)

/-- reflexivity of both relations on the domain -/
theorem refl_both (F : FloatEq0) (L : FloatLaws) {m : V1.Metas} {o : Opts} (M : Mode m o)
    {S : List Json} (HF : HashFaithful m o S) {b : Json} (hb : Ok b) (wb : Within S b) :
    equivB o b b = true ∧ V1.equals m b b = true := by
  have e := equals_refl_setmode L M.vsm M.vprec b hb.rawDoc hb.wf hb.fin
  exact ⟨by rw [← equals_eq_equivB_of F M HF hb.docOk hb.docOk wb wb]; exact e, e⟩

/-! ## 2.5 unfolding equations of the v1 diff in the set modes (strict strategy) -/

def subOf (kp : UInt64 × V1.SetPart) : V1.VDiff :=
  match kp.2 with | .sub d => d | .removed _ => []

def remOf (kp : UInt64 × V1.SetPart) : Option Json :=
  match kp.2 with | .removed x => some x | .sub _ => none

/-- the added members of a set diff -/
def setAdd (m : V1.Metas) (xs ys : List Json) : List Json :=
  (hsort (hdedup ((ys.map (V1.identOf m)).filter
    (fun h => !(xs.map (V1.identOf m)).contains h)))).filterMap (fun h => V1.identLookup m h ys)

theorem diffNode_set_set {m : V1.Metas} (hd : V1.dispatchTag m = .set) (xs ys : List Json)
    (p : List Json) :
    V1.diffNode m false (.arr .raw xs) (.arr .raw ys) p =
      (ksort (V1.diffSetElems m false p ys xs)).flatMap subOf ++
        (if ((ksort (V1.diffSetElems m false p ys xs)).filterMap remOf).isEmpty &&
            (setAdd m xs ys).isEmpty then []
         else [{ path := V1.appendIndex p [] m,
                 old := (ksort (V1.diffSetElems m false p ys xs)).filterMap remOf,
                 new := setAdd m xs ys }]) := by
  rw [V1.diffNode.eq_def]
  simp only [V1.effTag, hd, V1.dispatch, beq_self_eq_true, if_true, Bool.false_and,
    Bool.false_eq_true, if_false]
  rfl

theorem diffSetElems_nil (m : V1.Metas) (p : List Json) (ys : List Json) :
    V1.diffSetElems m false p ys [] = [] := by
  rw [V1.diffSetElems.eq_def]

theorem diffSetElems_cons (m : V1.Metas) (p : List Json) (ys : List Json) (x : Json)
    (r : List Json) :
    V1.diffSetElems m false p ys (x :: r) =
      if (r.map (V1.identOf m)).contains (V1.identOf m x) then V1.diffSetElems m false p ys r
      else match V1.identLookup m (V1.identOf m x) ys with
        | none => (V1.identOf m x, .removed x) :: V1.diffSetElems m false p ys r
        | some y =>
          match x, y with
          | .obj kvs, .obj _ =>
            (V1.identOf m x, .sub (V1.diffNode m false (.obj kvs) y
                (V1.appendIndex p (V1.pathObject m kvs) m))) ::
              V1.diffSetElems m false p ys r
          | _, _ => V1.diffSetElems m false p ys r := by
  rw [V1.diffSetElems.eq_def]
  rfl

/-- the surplus members of a multiset diff -/
def bagSurplus (m : V1.Metas) (xs ys : List Json) : List Json :=
  (hsort (hdedup (V1.hashList m xs))).flatMap (fun h =>
    match V1.hashLookup m h xs with
    | some v => List.replicate (countOcc h (V1.hashList m xs) - countOcc h (V1.hashList m ys)) v
    | none => [])

theorem diffNode_mset_mset {m : V1.Metas} (hd : V1.dispatchTag m = .mset) (xs ys : List Json)
    (p : List Json) :
    V1.diffNode m false (.arr .raw xs) (.arr .raw ys) p =
      if (bagSurplus m xs ys).isEmpty && (bagSurplus m ys xs).isEmpty then []
      else [{ path := V1.appendIndex p [] m, old := bagSurplus m xs ys,
              new := bagSurplus m ys xs }] := by
  rw [V1.diffNode.eq_def]
  simp only [V1.effTag, hd, V1.dispatch, beq_self_eq_true, if_true, Bool.false_and,
    Bool.false_eq_true, if_false]
  rfl

/-- an array against a non-array: one hunk replacing the whole value; the removed value is the
    PLAIN array -/
theorem diffNode_arr_other {m : V1.Metas}
    (hm : V1.dispatchTag m = .set ∨ V1.dispatchTag m = .mset)
    (xs : List Json) (b : Json) (hb : ∀ t ys, b ≠ .arr t ys) (p : List Json) :
    V1.diffNode m false (.arr .raw xs) b p =
      [{ path := p, old := [.arr .raw xs], new := b.nodeList }] := by
  rw [V1.diffNode.eq_def]
  rcases hm with hd | hd <;> cases b <;>
    simp_all [V1.effTag, V1.dispatch, Json.nodeList, Json.isVoid]

/-! ## 2.6 what the set diff computes -/

theorem identLookup_none {m : V1.Metas} {h : UInt64} :
    ∀ {l : List Json}, V1.identLookup m h l = none ↔ h ∉ l.map (V1.identOf m)
  | [] => by simp [V1.identLookup]
  | x :: r => by
    have ih := @identLookup_none m h r
    simp only [V1.identLookup, List.map_cons, List.mem_cons, not_or]
    cases e : V1.identLookup m h r with
    | some y =>
      have : h ∈ r.map (V1.identOf m) := Classical.byContradiction fun hc => by
        rw [ih.2 hc] at e; cases e
      simp only [reduceCtorEq, false_iff, not_and, Classical.not_not]
      exact fun _ => this
    | none =>
      have hn := ih.1 e
      by_cases hx : V1.identOf m x = h
      · simp [hx]
      · have hx' : ¬ h = V1.identOf m x := fun e => hx e.symm
        simp [hx, hx', hn]

theorem identLookup_some {m : V1.Metas} {h : UInt64} {y : Json} :
    ∀ {l : List Json}, V1.identLookup m h l = some y → y ∈ l ∧ V1.identOf m y = h
  | [], e => by simp [V1.identLookup] at e
  | x :: r, e => by
    simp only [V1.identLookup] at e
    cases e' : V1.identLookup m h r with
    | some w =>
      rw [e'] at e
      simp only [Option.some.injEq] at e
      subst e
      obtain ⟨h1, h2⟩ := identLookup_some e'
      exact ⟨List.mem_cons_of_mem _ h1, h2⟩
    | none =>
      rw [e'] at e
      simp only at e
      split at e
      · next hx =>
        simp only [Option.some.injEq] at e
        subst e
        exact ⟨List.mem_cons_self, by simpa using hx⟩
      · cases e

theorem filterMap_identLookup {m : V1.Metas} {ys : List Json} :
    ∀ hs : List UInt64, (∀ h ∈ hs, h ∈ ys.map (V1.identOf m)) →
      ((hs.filterMap (fun h => V1.identLookup m h ys)).map (V1.identOf m) = hs) ∧
      ∀ y ∈ hs.filterMap (fun h => V1.identLookup m h ys), y ∈ ys
  | [], _ => by simp
  | h :: r, hm => by
    obtain ⟨ih1, ih2⟩ := filterMap_identLookup r (fun h' hh' => hm h' (List.mem_cons_of_mem _ hh'))
    cases e : V1.identLookup m h ys with
    | none => exact absurd (hm h List.mem_cons_self) (identLookup_none.1 e)
    | some y =>
      obtain ⟨h1, h2⟩ := identLookup_some e
      simp only [List.filterMap_cons, e, List.map_cons, h2, ih1, List.mem_cons, true_and]
      rintro z (rfl | hz)
      · exact h1
      · exact ih2 z hz

theorem setAdd_spec (m : V1.Metas) (xs ys : List Json) :
    (∀ y ∈ setAdd m xs ys, y ∈ ys) ∧
    (∀ h, h ∈ (setAdd m xs ys).map (V1.identOf m) ↔
      h ∈ ys.map (V1.identOf m) ∧ h ∉ xs.map (V1.identOf m)) := by
  have hmem : ∀ h, h ∈ hsort (hdedup ((ys.map (V1.identOf m)).filter
      (fun h => !(xs.map (V1.identOf m)).contains h))) ↔
      h ∈ ys.map (V1.identOf m) ∧ h ∉ xs.map (V1.identOf m) := by
    intro h
    rw [(hsort_perm _).mem_iff, mem_hdedup, List.mem_filter]
    simp
  obtain ⟨h1, h2⟩ := filterMap_identLookup (m := m) (ys := ys) _ (fun h hh => ((hmem h).1 hh).1)
  refine ⟨h2, fun h => ?_⟩
  unfold setAdd
  rw [h1, hmem]

/-- the parts of a set diff, when members with the same identity have an empty sub-diff -/
theorem diffSetElems_spec (m : V1.Metas) (p : List Json) (ys : List Json) :
    ∀ (xs : List Json),
      (∀ x ∈ xs, ∀ y ∈ ys, V1.identOf m x = V1.identOf m y → ∀ q, V1.diffNode m false x y q = []) →
      (∀ kp ∈ V1.diffSetElems m false p ys xs, subOf kp = []) ∧
      (∀ z ∈ (V1.diffSetElems m false p ys xs).filterMap remOf, z ∈ xs) ∧
      (((V1.diffSetElems m false p ys xs).filterMap remOf).map (V1.identOf m)).Nodup ∧
      (∀ h, h ∈ ((V1.diffSetElems m false p ys xs).filterMap remOf).map (V1.identOf m) ↔
        h ∈ xs.map (V1.identOf m) ∧ h ∉ ys.map (V1.identOf m))
  | [], _ => by simp [diffSetElems_nil]
  | x :: r, H => by
    obtain ⟨a, b, c, d⟩ := diffSetElems_spec m p ys r
      (fun x' hx' => H x' (List.mem_cons_of_mem _ hx'))
    rw [diffSetElems_cons]
    by_cases hc : (r.map (V1.identOf m)).contains (V1.identOf m x) = true
    · rw [if_pos hc]
      have hc' : V1.identOf m x ∈ r.map (V1.identOf m) := by simpa using hc
      refine ⟨a, fun z hz => List.mem_cons_of_mem _ (b z hz), c, fun h => ?_⟩
      rw [d h]
      simp only [List.map_cons, List.mem_cons]
      constructor
      · rintro ⟨h1, h2⟩; exact ⟨Or.inr h1, h2⟩
      · rintro ⟨h1 | h1, h2⟩
        · exact ⟨h1 ▸ hc', h2⟩
        · exact ⟨h1, h2⟩
    · rw [if_neg hc]
      have hc' : V1.identOf m x ∉ r.map (V1.identOf m) := by simpa using hc
      cases e : V1.identLookup m (V1.identOf m x) ys with
      | none =>
        have hny := identLookup_none.1 e
        simp only []
        refine ⟨?_, ?_, ?_, ?_⟩
        · intro kp hkp
          rcases List.mem_cons.1 hkp with rfl | hkp
          · rfl
          · exact a kp hkp
        · intro z hz
          simp only [List.filterMap_cons, remOf, List.mem_cons] at hz
          rcases hz with rfl | hz
          · exact List.mem_cons_self
          · exact List.mem_cons_of_mem _ (b z hz)
        · simp only [List.filterMap_cons, remOf, List.map_cons, List.nodup_cons]
          refine ⟨fun hm => hc' ((d _).1 hm).1, c⟩
        · intro h
          simp only [List.filterMap_cons, remOf, List.map_cons, List.mem_cons]
          rw [d h]
          constructor
          · rintro (rfl | ⟨h1, h2⟩)
            · exact ⟨Or.inl rfl, hny⟩
            · exact ⟨Or.inr h1, h2⟩
          · rintro ⟨h1 | h1, h2⟩
            · exact Or.inl h1
            · exact Or.inr ⟨h1, h2⟩
      | some y =>
        obtain ⟨hy, hyi⟩ := identLookup_some e
        have hin : V1.identOf m x ∈ ys.map (V1.identOf m) := hyi ▸ List.mem_map_of_mem hy
        have hd : ∀ h, h ∈ ((V1.diffSetElems m false p ys r).filterMap remOf).map (V1.identOf m) ↔
            h ∈ (x :: r).map (V1.identOf m) ∧ h ∉ ys.map (V1.identOf m) := by
          intro h
          rw [d h]
          simp only [List.map_cons, List.mem_cons]
          constructor
          · rintro ⟨h1, h2⟩; exact ⟨Or.inr h1, h2⟩
          · rintro ⟨h1 | h1, h2⟩
            · exact absurd (h1 ▸ hin) h2
            · exact ⟨h1, h2⟩
        simp only []
        split
        · next kvs kvs' =>
          refine ⟨?_, ?_, ?_, ?_⟩
          · intro kp hkp
            rcases List.mem_cons.1 hkp with rfl | hkp
            · simp only [subOf]
              exact H _ List.mem_cons_self _ hy hyi.symm _
            · exact a kp hkp
          · intro z hz
            simp only [List.filterMap_cons, remOf] at hz
            exact List.mem_cons_of_mem _ (b z hz)
          · simpa only [List.filterMap_cons, remOf] using c
          · intro h
            simp only [List.filterMap_cons, remOf]
            exact hd h
        · exact ⟨a, fun z hz => List.mem_cons_of_mem _ (b z hz), c, hd⟩

/-- the same after sorting the parts by identity -/
theorem parts_spec (m : V1.Metas) (p : List Json) (xs ys : List Json)
    (H : ∀ x ∈ xs, ∀ y ∈ ys, V1.identOf m x = V1.identOf m y →
      ∀ q, V1.diffNode m false x y q = []) :
    (ksort (V1.diffSetElems m false p ys xs)).flatMap subOf = [] ∧
    (∀ z ∈ (ksort (V1.diffSetElems m false p ys xs)).filterMap remOf, z ∈ xs) ∧
    (((ksort (V1.diffSetElems m false p ys xs)).filterMap remOf).map (V1.identOf m)).Nodup ∧
    (∀ h, h ∈ ((ksort (V1.diffSetElems m false p ys xs)).filterMap remOf).map (V1.identOf m) ↔
      h ∈ xs.map (V1.identOf m) ∧ h ∉ ys.map (V1.identOf m)) := by
  obtain ⟨a, b, c, d⟩ := diffSetElems_spec m p ys xs H
  have hp := ksort_perm (V1.diffSetElems m false p ys xs)
  have hp' := hp.filterMap remOf
  refine ⟨?_, fun z hz => b z (hp'.mem_iff.1 hz), ?_, fun h => ?_⟩
  · rw [List.flatMap_eq_nil_iff]
    intro kp hkp
    exact a kp (hp.mem_iff.1 hkp)
  · exact ((hp'.map (V1.identOf m)).nodup_iff).2 c
  · rw [(hp'.map (V1.identOf m)).mem_iff]; exact d h

/-! ## 2.7 equivalent documents have an empty v1 diff (set modes, strict strategy) -/

theorem bagSurplus_nil {m : V1.Metas} {xs ys : List Json}
    (h : ∀ c, countOcc c (V1.hashList m xs) ≤ countOcc c (V1.hashList m ys)) :
    bagSurplus m xs ys = [] := by
  unfold bagSurplus
  rw [List.flatMap_eq_nil_iff]
  intro c _
  cases V1.hashLookup m c xs with
  | none => rfl
  | some v => simp [Nat.sub_eq_zero_of_le (h c)]

/-- on a scalar receiver the v1 `Equals` (precision 0) is the specification -/
theorem equivB_scalar_equals {m : V1.Metas} {o : Opts} (hp : precOf o = 0)
    (hvp : V1.precOf m = 0) {a b : Json}
    (ha : ∀ t xs, a ≠ .arr t xs) (ha' : ∀ kvs, a ≠ .obj kvs) :
    equivB o a b = V1.equals m a b := by
  cases a <;> cases b <;> simp_all [equivB, V1.equals, Json.isVoid, Json.isNull]

theorem diffCommon_nil_iff (m : V1.Metas) (a b : Json) (p : List Json) :
    V1.diffCommon m false a b p = [] ↔ V1.equals m a b = true := by
  unfold V1.diffCommon
  cases V1.equals m a b <;> simp

theorem diffNode_nil_of_equivB (F : FloatEq0) {m : V1.Metas} {o : Opts} (M : Mode m o)
    {S : List Json} (HF : HashFaithful m o S) :
    ∀ a b, DocOk a → DocOk b → Within S a → Within S b → equivB o a b = true →
      ∀ p, V1.diffNode m false a b p = [] := by
  have hk := M.keys
  have scalar : ∀ a b : Json, (∀ t xs, a ≠ .arr t xs) → (∀ kvs, a ≠ .obj kvs) →
      equivB o a b = true → ∀ p, V1.diffNode m false a b p = [] := by
    intro a b h1 h2 h p
    rw [V1P.diffNode_scalar m a b h1 h2 p, diffCommon_nil_iff,
      ← equivB_scalar_equals M.prec M.vprec h1 h2]
    exact h
  intro a
  induction a using jsonInd with
  | void => intro b _ _ _ _ h; exact scalar _ b (fun _ _ e => by cases e) (fun _ e => by cases e) h
  | null => intro b _ _ _ _ h; exact scalar _ b (fun _ _ e => by cases e) (fun _ e => by cases e) h
  | bool x => intro b _ _ _ _ h; exact scalar _ b (fun _ _ e => by cases e) (fun _ e => by cases e) h
  | num x => intro b _ _ _ _ h; exact scalar _ b (fun _ _ e => by cases e) (fun _ e => by cases e) h
  | str x => intro b _ _ _ _ h; exact scalar _ b (fun _ _ e => by cases e) (fun _ e => by cases e) h
  | arr t xs ih =>
    intro b ha hb wa wb h p
    cases b with
    | arr t' ys =>
      have ht := ha.raw
      have ht' := hb.raw
      subst ht ht'
      have hhash : ∀ x ∈ xs, ∀ y ∈ ys, equivB o x y = true →
          V1.hashCode m x = V1.hashCode m y :=
        fun x hx y hy e => equivB_hash_core F M x y (ha.elem hx) (hb.elem hy) e
      rcases M.sm with hd | hd
      · have hd' : V1.dispatchTag m = .set := M.tag.trans hd
        simp only [equivB, hd, Bool.and_eq_true, allIn_iff, allCovered_iff] at h
        have H : ∀ x ∈ xs, ∀ y ∈ ys, V1.identOf m x = V1.identOf m y →
            ∀ q, V1.diffNode m false x y q = [] := by
          intro x hx y hy e q
          rw [identOf_eq_hashCode hk, identOf_eq_hashCode hk] at e
          exact ih x hx y (ha.elem hx) (hb.elem hy) (wa.elem hx) (wb.elem hy)
            (HF x (wa.elem hx).self y (wb.elem hy).self e) q
        obtain ⟨a1, _, _, a4⟩ := parts_spec m p xs ys H
        obtain ⟨_, b2⟩ := setAdd_spec m xs ys
        have hrem : (ksort (V1.diffSetElems m false p ys xs)).filterMap remOf = [] := by
          rw [List.eq_nil_iff_forall_not_mem]
          intro z hz
          obtain ⟨h1, h2⟩ := (a4 _).1 (List.mem_map_of_mem (f := V1.identOf m) hz)
          obtain ⟨x, hx, ex⟩ := List.mem_map.1 h1
          obtain ⟨y, hy, e⟩ := h.1 x hx
          apply h2
          rw [← ex, identOf_eq_hashCode hk, hhash x hx y hy e, ← identOf_eq_hashCode hk]
          exact List.mem_map_of_mem hy
        have hadd : setAdd m xs ys = [] := by
          rw [List.eq_nil_iff_forall_not_mem]
          intro z hz
          obtain ⟨h1, h2⟩ := (b2 _).1 (List.mem_map_of_mem (f := V1.identOf m) hz)
          obtain ⟨y, hy, ey⟩ := List.mem_map.1 h1
          obtain ⟨x, hx, e⟩ := h.2 y hy
          apply h2
          rw [← ey, identOf_eq_hashCode hk, ← hhash x hx y hy e, ← identOf_eq_hashCode hk]
          exact List.mem_map_of_mem hx
        rw [diffNode_set_set hd', a1, hrem, hadd]
        rfl
      · have hd' : V1.dispatchTag m = .mset := M.tag.trans hd
        simp only [equivB, hd, Bool.and_eq_true, beq_iff_eq] at h
        have hperm := bagSub_key_perm (V1.hashCode m) o xs ys h.1 h.2 hhash
        have hc : ∀ c, countOcc c (V1.hashList m xs) = countOcc c (V1.hashList m ys) := by
          intro c
          rw [countOcc_eq_count, countOcc_eq_count, hashList_eq_map, hashList_eq_map]
          exact hperm.count_eq c
        rw [diffNode_mset_mset hd', bagSurplus_nil (fun c => Nat.le_of_eq (hc c)),
          bagSurplus_nil (fun c => Nat.le_of_eq (hc c).symm)]
        rfl
    | _ => simp [equivB] at h
  | obj kvs ih =>
    intro b ha hb wa wb h p
    cases b with
    | obj kvs' =>
      have hs := ha.sorted
      have hs' := hb.sorted
      simp only [equivB, Bool.and_eq_true, beq_iff_eq, equivKvs_eq_lookAll, lookAll_iff] at h
      have hflip := AllLook.flip hs hs' h.1 h.2
      have hkv : ∀ r : List (String × Json), (∀ kv ∈ r, kv ∈ kvs) →
          V1.diffKvs m false p kvs' r = [] := by
        intro r
        induction r with
        | nil => intro _; exact V1P.diffKvs_nil m p kvs'
        | cons kv r ihr =>
          intro hsub
          obtain ⟨k, v⟩ := kv
          have hm1 : (k, v) ∈ kvs := hsub _ List.mem_cons_self
          obtain ⟨v', hl, he⟩ := h.2 k v hm1
          have hm2 := mem_of_alookup hl
          rw [V1P.diffKvs_cons, ihr (fun kv hh => hsub kv (List.mem_cons_of_mem _ hh)), hl]
          simp only [List.append_nil]
          exact ih k v hm1 v' (ha.val hm1) (hb.val hm2) (wa.val hm1) (wb.val hm2) he _
      rw [V1P.diffNode_obj_obj, hkv kvs (fun _ hh => hh),
        filter_added_nil (kvs := kvs) (kvs' := kvs') (fun k' v' hm' => by
          obtain ⟨w, hl, _⟩ := hflip k' v' hm'
          simp [hl])]
      rfl
    | _ => simp [equivB] at h

/-! ## 2.8 the v1 patch code on the hunks of a set-mode diff -/

open Jd.V1P (shift ap)
open Jd.DPL (aput)

/-- the metadata array `appendIndex` writes in front of a member object -/
def metaItems (m : V1.Metas) : List Json :=
  (if V1.hasSet m then [Json.str "set"] else []) ++
  (if V1.hasMset m then [Json.str "multiset"] else []) ++
  (match V1.keysOf m with | some ks => [Json.str (V1.setkeysString ks)] | none => [])

theorem appendIndex_eq (p : List Json) (o : List (String × Json)) (m : V1.Metas) :
    V1.appendIndex p o m = p ++ [.arr .raw (metaItems m), .obj o] := rfl

/-- the metadata the patch code reads back from that array -/
def pm (m : V1.Metas) : V1.Metas := V1.metaOfItems (metaItems m)

theorem pm_spec {m : V1.Metas} (hk : V1.keysOf m = none) :
    V1.hasSet (pm m) = V1.hasSet m ∧ V1.hasMset (pm m) = V1.hasMset m ∧
    V1.keysOf (pm m) = none ∧ V1.precOf (pm m) = 0 ∧ V1.hasMerge (pm m) = false := by
  cases h1 : V1.hasSet m <;> cases h2 : V1.hasMset m <;>
    simp [pm, metaItems, hk, h1, h2, V1.metaOfItems, V1.hasSet, V1.hasMset, V1.keysOf,
      V1.precOf, V1.hasMerge]

theorem pm_tag {m : V1.Metas} (hk : V1.keysOf m = none) :
    V1.dispatchTag (pm m) = V1.dispatchTag m := by
  obtain ⟨h1, h2, _⟩ := pm_spec hk
  simp [V1.dispatchTag, h1, h2]

/-- a hunk whose path does not announce the merge strategy -/
def NM (h : V1.Hunk) : Prop := V1.pathIsMerge (V1.liftPath h.path) = false

theorem nm_nil (old new : List Json) : NM { path := [], old := old, new := new } := rfl

theorem nm_meta {m : V1.Metas} (hk : V1.keysOf m = none) (r old new : List Json) :
    NM { path := .arr .raw (metaItems m) :: r, old := old, new := new } := by
  cases h1 : V1.hasSet m <;> cases h2 : V1.hasMset m <;>
    simp [NM, V1.liftPath, V1.pathIsMerge, metaItems, hk, h1, h2]

theorem nm_shift_str (k : String) (h : V1.Hunk) : NM (shift [.str k] h) := rfl

theorem patchAll_cons (n : Json) (h : V1.Hunk) (d : V1.VDiff) (hh : NM h) :
    V1.patchAll n (h :: d) = (ap n h >>= fun n' => V1.patchAll n' d) := by
  unfold NM at hh
  simp only [V1.patchAll, V1.liftDiff, List.map_cons, V1.patchAllP, V1.Hunk.toP, hh, ap]
  cases V1.patchNode false n (V1.liftPath h.path) h.old h.new <;> rfl

theorem patchAll_single (n : Json) (h : V1.Hunk) (hh : NM h) {r : Json} (e : ap n h = .ok r) :
    V1.patchAll n [h] = .ok r := by
  rw [patchAll_cons n h [] hh, e]; rfl

theorem pathNext_meta {m : V1.Metas} (hm : V1.dispatchTag m = .set ∨ V1.dispatchTag m = .mset)
    (hk : V1.keysOf m = none) :
    V1.pathNext (V1.liftPath [.arr .raw (metaItems m), .obj []]) = (.node (.obj []), pm m, []) := by
  obtain ⟨h1, h2, _⟩ := pm_spec hk
  have : (!V1.hasSet (pm m) && !V1.hasMset (pm m)) = false := by
    rw [h1, h2]
    rcases hm with hd | hd <;> revert hd <;> unfold V1.dispatchTag <;>
      cases V1.hasSet m <;> cases V1.hasMset m <;> simp
  simp only [V1.pathNext, V1.liftPath, List.map_cons, List.map_nil, V1.pathNextAux,
    List.nil_append]
  show (V1.PElem.node (Json.obj []), (if (!V1.hasSet (pm m) && !V1.hasMset (pm m)) = true
    then pm m ++ [V1.Meta.set] else pm m), []) = _
  rw [this]; rfl

/-- the set hunk on an array: the leaf case of `jsonSet.patch`, with the metadata of the diff -/
theorem patchNode_set_leaf {m : V1.Metas} (hd : V1.dispatchTag m = .set)
    (hk : V1.keysOf m = none) (hp : V1.precOf m = 0) (xs old new : List Json) :
    V1.patchNode false (.arr .raw xs) (V1.liftPath [.arr .raw (metaItems m), .obj []]) old new =
      V1.patchSetLeaf m xs old new := by
  obtain ⟨_, _, k3, k4, _⟩ := pm_spec hk
  rw [V1.patchNode.eq_def]
  simp only [pathNext_meta (Or.inl hd) hk, V1.effTag, pm_tag hk, hd]
  simp only [V1.liftPath, List.map_cons, List.map_nil, V1.pathIsLeaf, Bool.false_eq_true,
    if_false, List.length_nil, Nat.lt_irrefl, gt_iff_lt]
  exact patchSetLeaf_congr (pm_tag hk) k3 hk (by rw [k4, hp]) xs old new

/-- the multiset hunk on an array: the leaf case of `jsonMultiset.patch` -/
theorem patchNode_mset_leaf {m : V1.Metas} (hd : V1.dispatchTag m = .mset)
    (hk : V1.keysOf m = none) (xs old new : List Json) :
    V1.patchNode false (.arr .raw xs) (V1.liftPath [.arr .raw (metaItems m), .obj []]) old new =
      V1.patchMsetLeaf m xs old new := by
  rw [V1.patchNode.eq_def]
  simp only [pathNext_meta (Or.inr hd) hk, V1.effTag, pm_tag hk, hd]
  simp only [V1.liftPath, List.map_cons, List.map_nil, V1.pathIsLeaf, Bool.false_eq_true,
    if_false, List.isEmpty_nil, if_true]
  exact patchMsetLeaf_congr (pm_tag hk) xs old new

/-! ## 2.9 sequences of hunks below an object key; a value replaced as a whole -/

theorem patchAll_key_frame (D : V1.VDiff) (hD : ∀ h ∈ D, NM h) (k : String) :
    ∀ (cur : List (String × Json)) (x : Json), keysSorted cur = true →
      alookup k cur = (if x.isVoid then none else some x) →
      ∀ r, V1.patchAll x D = .ok r →
      ∃ cur', V1.patchAll (.obj cur) (D.map (shift [.str k])) = .ok (.obj cur') ∧
        keysSorted cur' = true ∧ (∀ k0, k0 ≠ k → alookup k0 cur' = alookup k0 cur) ∧
        alookup k cur' = (if r.isVoid then none else some r) := by
  induction D with
  | nil =>
    intro cur x hs hx r hr
    simp only [V1P.patchAll_nil, Outcome.ok.injEq] at hr
    subst hr
    exact ⟨cur, rfl, hs, fun _ _ => rfl, hx⟩
  | cons h D ih =>
    intro cur x hs hx r hr
    have hh := hD h List.mem_cons_self
    rw [patchAll_cons _ _ _ hh] at hr
    have hget : (alookup k cur).getD .void = x := by
      rw [hx]; split
      · next hv => cases x <;> simp_all [Json.isVoid]
      · rfl
    cases hv : ap x h with
    | err => rw [hv] at hr; cases hr
    | panic => rw [hv] at hr; cases hr
    | ok v =>
      rw [hv] at hr
      simp only [Outcome.bind_ok] at hr
      have hs1 := DPL.keysSorted_aput k v cur hs
      have hx1 : alookup k (aput k v cur) = (if v.isVoid then none else some v) := by
        unfold DPL.aput; split
        · exact DPL.alookup_aerase_self k cur hs
        · rw [DPL.alookup_ainsert, if_pos rfl]
      obtain ⟨cur', h1, h2, h3, h4⟩ :=
        ih (fun h' hm => hD h' (List.mem_cons_of_mem _ hm)) (aput k v cur) v hs1 hx1 r hr
      refine ⟨cur', ?_, h2, fun k0 hne => by rw [h3 k0 hne, DPL.alookup_aput_ne hne], h4⟩
      rw [List.map_cons, patchAll_cons _ _ _ (nm_shift_str k h), V1P.ap_key, hget, hv]
      simp only [Outcome.bind_ok]
      exact h1

theorem patchAll_append_ok (n n' : Json) (d1 d2 : V1.VDiff) (h : V1.patchAll n d1 = .ok n') :
    V1.patchAll n (d1 ++ d2) = V1.patchAll n' d2 := by
  rw [V1P.patchAll_append, h]; rfl

theorem nodeList_length_le (b : Json) : b.nodeList.length ≤ 1 := V1P.nodeList_length b

theorem singleValue_nodeList (b : Json) : Json.singleValue b.nodeList = b := DPL.single_nodeList b

/-- a hunk at the root that removes the value itself: the value is replaced (the old value is
    compared WITHOUT metadata, in list mode: reflexive on documents as read from text) -/
theorem patch_replace (L : FloatLaws) {a : Json} (ha : Ok a) (addl : List Json)
    (hadd : addl.length ≤ 1) :
    V1.patchAll a [{ path := [], old := a.nodeList, new := addl }] =
      .ok (Json.singleValue addl) := by
  have hl := rawDoc_listDoc a ha.rawDoc
  apply V1P.patch_root a a.nodeList addl hl (nodeList_length_le a) hadd
  rw [singleValue_nodeList]
  exact V1P.v1_equals_refl L V1P.ListMode.nil a hl ha.wf ha.fin

/-! ## 2.10 (A) one array read as a set: the diff, then the patch -/

/-- what one node of the diff has to achieve: the hunks are hunks below the path, none announces
    the merge strategy, they apply to the source in sequence (`V1.patchAll`: the library's patch
    loop), and the result is equal to the target -/
def Step (m : V1.Metas) (o : Opts) (a b : Json) (p : List Json) : Prop :=
  ∃ D r, V1.diffNode m false a b p = D.map (shift p) ∧ (∀ h ∈ D, NM h) ∧
    V1.patchAll a D = .ok r ∧ equivB o r b = true ∧ V1.equals m r b = true

theorem hashCode_arr_set (m : V1.Metas) (l : List Json) :
    V1.hashCode m (.arr .set l) = hcombine (hdedup (V1.hashList m l)) := by
  simp [V1.hashCode, V1.effTag]

theorem hashCode_arr_mset (m : V1.Metas) (l : List Json) :
    V1.hashCode m (.arr .mset l) = fnv1a ((hsort (V1.hashList m l)).flatMap le8) := by
  simp [V1.hashCode, V1.effTag]

/-- an array with the same identities as `ys` is equal to `ys` read as a set -/
theorem set_result {m : V1.Metas} {o : Opts} (M : Mode m o) (hd : dispatchTag o = .set)
    {E : List Json} (Fa : Faithful m o E) {t : Tag} (ht : t = .raw ∨ t = .set) {zs ys : List Json}
    (hz : ∀ z ∈ zs, z ∈ E) (hy : ∀ y ∈ ys, y ∈ E)
    (hids : ∀ h, h ∈ zs.map (V1.identOf m) ↔ h ∈ ys.map (V1.identOf m)) :
    equivB o (.arr t zs) (.arr .raw ys) = true ∧ V1.equals m (.arr t zs) (.arr .raw ys) = true := by
  have hd' : V1.dispatchTag m = .set := M.tag.trans hd
  have hk := M.keys
  constructor
  · simp only [equivB, hd, Bool.and_eq_true, allIn_iff, allCovered_iff]
    constructor
    · intro z hzm
      obtain ⟨y, hym, e⟩ :=
        List.mem_map.1 ((hids _).1 (List.mem_map_of_mem (f := V1.identOf m) hzm))
      exact ⟨y, hym, (Fa.equivB_iff (hz z hzm) (hy y hym)).2 e.symm⟩
    · intro y hym
      obtain ⟨z, hzm, e⟩ :=
        List.mem_map.1 ((hids _).2 (List.mem_map_of_mem (f := V1.identOf m) hym))
      exact ⟨z, hzm, (Fa.equivB_iff (hz z hzm) (hy y hym)).2 e⟩
  · have he : V1.effTag m t = .set := by rcases ht with rfl | rfl <;> simp [V1.effTag, hd']
    have key : hsort (hdedup (V1.hashList m zs)) = hsort (hdedup (V1.hashList m ys)) := by
      apply hsort_hdedup_ext
      intro c
      have := hids c
      rw [funext (identOf_eq_hashCode hk)] at this
      rw [hashList_eq_map, hashList_eq_map]
      exact this
    simp only [V1.equals, he, V1.dispatch, hd', hashCode_arr_set, hcombine, key, beq_self_eq_true]

theorem set_step (F : FloatEq0) {m : V1.Metas} {o : Opts} (M : Mode m o)
    (hd : dispatchTag o = .set) {S : List Json} (HF : HashFaithful m o S)
    (xs ys : List Json) (ha : Ok (.arr .raw xs)) (hb : Ok (.arr .raw ys))
    (wa : Within S (.arr .raw xs)) (wb : Within S (.arr .raw ys)) (p : List Json) :
    Step m o (.arr .raw xs) (.arr .raw ys) p := by
  have hd' : V1.dispatchTag m = .set := M.tag.trans hd
  have hE : ∀ x ∈ xs ++ ys, DocOk x ∧ Within S x := by
    intro x hx
    rcases List.mem_append.1 hx with h | h
    · exact ⟨(ha.elem h).docOk, wa.elem h⟩
    · exact ⟨(hb.elem h).docOk, wb.elem h⟩
  have Fa : Faithful m o (xs ++ ys) := faithful_of F M HF hE
  have hxs : ∀ x ∈ xs, x ∈ xs ++ ys := fun x h => List.mem_append.2 (Or.inl h)
  have hys : ∀ y ∈ ys, y ∈ xs ++ ys := fun y h => List.mem_append.2 (Or.inr h)
  have H : ∀ x ∈ xs, ∀ y ∈ ys, V1.identOf m x = V1.identOf m y →
      ∀ q, V1.diffNode m false x y q = [] := by
    intro x hx y hy e q
    exact diffNode_nil_of_equivB F M HF x y (ha.elem hx).docOk (hb.elem hy).docOk
      (wa.elem hx) (wb.elem hy) ((Fa.equivB_iff (hxs x hx) (hys y hy)).2 e) q
  obtain ⟨a1, a2, a3, a4⟩ := parts_spec m p xs ys H
  obtain ⟨b1, b2⟩ := setAdd_spec m xs ys
  unfold Step
  rw [diffNode_set_set hd', a1, List.nil_append]
  generalize (ksort (V1.diffSetElems m false p ys xs)).filterMap remOf = rem at a2 a3 a4
  generalize setAdd m xs ys = add at b1 b2
  by_cases hemp : (rem.isEmpty && add.isEmpty) = true
  · rw [if_pos hemp]
    simp only [Bool.and_eq_true, List.isEmpty_iff] at hemp
    obtain ⟨rfl, rfl⟩ := hemp
    refine ⟨[], .arr .raw xs, rfl, by simp, rfl, ?_⟩
    apply set_result M hd Fa (Or.inl rfl) hxs hys
    intro h
    have h4 := a4 h
    have h2 := b2 h
    simp only [List.map_nil, List.not_mem_nil, false_iff, not_and, Classical.not_not] at h4 h2
    exact ⟨h4, h2⟩
  · rw [if_neg hemp]
    have Fa' : Faithful m o (xs ++ rem ++ add) := Fa.mono (by
      intro x hx
      simp only [List.mem_append] at hx ⊢
      rcases hx with (h | h) | h
      · exact Or.inl h
      · exact Or.inl (a2 x h)
      · exact Or.inr (b1 x h))
    obtain ⟨zs, e, hsub, hmem⟩ := patchSetLeaf_idents Fa'
      (fun r hr => ((a4 _).1 (List.mem_map_of_mem (f := V1.identOf m) hr)).1) a3
    have hnm : NM { path := [.arr .raw (metaItems m), .obj []], old := rem, new := add } :=
      nm_meta M.keys _ _ _
    refine ⟨[{ path := [.arr .raw (metaItems m), .obj []], old := rem, new := add }],
      .arr .set zs, ?_, ?_, ?_, ?_⟩
    · rw [appendIndex_eq]; rfl
    · intro h hh
      simp only [List.mem_singleton] at hh
      subst hh; exact hnm
    · apply patchAll_single _ _ hnm
      show V1.patchNode false (.arr .raw xs) (V1.liftPath [.arr .raw (metaItems m), .obj []])
        rem add = _
      rw [patchNode_set_leaf hd' M.keys M.vprec, e]
    · apply set_result M hd Fa (Or.inr rfl)
      · intro z hz
        rcases hsub z hz with h | h
        · exact hxs z h
        · exact hys z (b1 z h)
      · exact hys
      · intro h
        rw [hmem h, a4 h, b2 h]
        by_cases h1 : h ∈ xs.map (V1.identOf m) <;> by_cases h2 : h ∈ ys.map (V1.identOf m) <;>
          simp [h1, h2]

/-! ## 2.11 (B) one array read as a multiset -/

theorem bagSurplus_spec (m : V1.Metas) (xs ys : List Json) :
    (∀ z ∈ bagSurplus m xs ys, z ∈ xs) ∧
    ∀ c, ((bagSurplus m xs ys).map (V1.hashCode m)).count c =
      (xs.map (V1.hashCode m)).count c - (ys.map (V1.hashCode m)).count c := by
  have key : ∀ D : List UInt64, (∀ h ∈ D, h ∈ xs.map (V1.hashCode m)) →
      (∀ z ∈ D.flatMap (fun h => match V1.hashLookup m h xs with
          | some v => List.replicate
              (countOcc h (V1.hashList m xs) - countOcc h (V1.hashList m ys)) v
          | none => []), z ∈ xs) ∧
      (D.flatMap (fun h => match V1.hashLookup m h xs with
          | some v => List.replicate
              (countOcc h (V1.hashList m xs) - countOcc h (V1.hashList m ys)) v
          | none => [])).map (V1.hashCode m) =
        D.flatMap (fun h => List.replicate
          (countOcc h (V1.hashList m xs) - countOcc h (V1.hashList m ys)) h) := by
    intro D
    induction D with
    | nil => intro _; simp
    | cons h r ih =>
      intro hD
      obtain ⟨ih1, ih2⟩ := ih (fun h' hh' => hD h' (List.mem_cons_of_mem _ hh'))
      obtain ⟨x, e, hx, hkx⟩ := hashLookup_some (hD h List.mem_cons_self)
      simp only [List.flatMap_cons, e, List.map_append, ih2, List.map_replicate, hkx]
      refine ⟨?_, trivial⟩
      intro z hz
      rcases List.mem_append.1 hz with hz | hz
      · rw [(List.mem_replicate.1 hz).2]; exact hx
      · exact ih1 z hz
  have hD : ∀ h ∈ hsort (hdedup (V1.hashList m xs)), h ∈ xs.map (V1.hashCode m) := by
    intro h hh
    rw [(hsort_perm _).mem_iff, mem_hdedup, hashList_eq_map] at hh
    exact hh
  obtain ⟨k1, k2⟩ := key _ hD
  refine ⟨k1, fun c => ?_⟩
  unfold bagSurplus
  rw [k2, count_flatMap_replicate _ _ _ ((hsort_perm _).nodup_iff.2 (nodup_hdedup _))]
  simp only [countOcc_eq_count, hashList_eq_map, (hsort_perm _).mem_iff, mem_hdedup]
  split
  · rfl
  · next hn => rw [List.count_eq_zero.2 hn]; omega

theorem bagSub_of_counts {m : V1.Metas} {o : Opts} {E : List Json} (Fa : Faithful m o E) :
    ∀ (zs ys : List Json), (∀ z ∈ zs, z ∈ E) → (∀ y ∈ ys, y ∈ E) →
      (∀ c, (zs.map (V1.identOf m)).count c ≤ (ys.map (V1.identOf m)).count c) →
      bagSub o zs ys = true
  | [], _, _, _, _ => by simp [bagSub]
  | z :: r, ys, hz, hy, hc => by
    have hzE : z ∈ E := hz z List.mem_cons_self
    have hp : ∀ y ∈ ys, ((fun y => equivB o z y) y = true ↔ V1.identOf m y = V1.identOf m z) :=
      fun y hym => (Fa.equivB_iff hzE (hy y hym)).trans eq_comm
    obtain ⟨_, f2⟩ := removeFirst_count (k := V1.identOf m) (p := fun y => equivB o z y)
      (c := V1.identOf m z) ys hp
    have hin : V1.identOf m z ∈ ys.map (V1.identOf m) := by
      apply List.count_pos_iff.1
      have := hc (V1.identOf m z)
      simp only [List.map_cons, List.count_cons_self] at this
      omega
    obtain ⟨l', e1, e2, e3⟩ := f2 hin
    rw [bagSub, e1]
    apply bagSub_of_counts Fa r l' (fun z' hz' => hz z' (List.mem_cons_of_mem _ hz'))
      (fun y hy' => hy y (e2 y hy'))
    intro c
    have h1 := e3 c
    have h2 := hc c
    simp only [List.map_cons, List.count_cons, beq_iff_eq] at h2
    by_cases ec : c = V1.identOf m z
    · subst ec
      simp at h1 h2
      omega
    · have ec' : ¬ V1.identOf m z = c := fun e => ec e.symm
      simp [ec, ec'] at h1 h2
      omega

/-- an array with the same hash multiplicities as `ys` is equal to `ys` read as a multiset -/
theorem mset_result {m : V1.Metas} {o : Opts} (M : Mode m o) (hd : dispatchTag o = .mset)
    {E : List Json} (Fa : Faithful m o E) {t : Tag} (ht : t = .raw ∨ t = .mset)
    {zs ys : List Json} (hz : ∀ z ∈ zs, z ∈ E) (hy : ∀ y ∈ ys, y ∈ E)
    (hcnt : ∀ c, (zs.map (V1.hashCode m)).count c = (ys.map (V1.hashCode m)).count c) :
    equivB o (.arr t zs) (.arr .raw ys) = true ∧ V1.equals m (.arr t zs) (.arr .raw ys) = true := by
  have hd' : V1.dispatchTag m = .mset := M.tag.trans hd
  have hk := M.keys
  have hperm : (zs.map (V1.hashCode m)).Perm (ys.map (V1.hashCode m)) := List.perm_iff_count.2 hcnt
  have hlen : zs.length = ys.length := by simpa using hperm.length_eq
  constructor
  · simp only [equivB, hd, Bool.and_eq_true, beq_iff_eq]
    refine ⟨hlen, bagSub_of_counts Fa zs ys hz hy (fun c => ?_)⟩
    rw [funext (identOf_eq_hashCode hk)]
    exact Nat.le_of_eq (hcnt c)
  · have he : V1.effTag m t = .mset := by rcases ht with rfl | rfl <;> simp [V1.effTag, hd']
    have key : hsort (V1.hashList m zs) = hsort (V1.hashList m ys) := by
      rw [hashList_eq_map, hashList_eq_map]; exact hsort_eq_of_perm hperm
    simp only [V1.equals, he, V1.dispatch, hd', hashCode_arr_mset, key, hlen, beq_self_eq_true,
      Bool.and_self]

theorem mset_step (F : FloatEq0) {m : V1.Metas} {o : Opts} (M : Mode m o)
    (hd : dispatchTag o = .mset) {S : List Json} (HF : HashFaithful m o S)
    (xs ys : List Json) (ha : Ok (.arr .raw xs)) (hb : Ok (.arr .raw ys))
    (wa : Within S (.arr .raw xs)) (wb : Within S (.arr .raw ys)) (p : List Json) :
    Step m o (.arr .raw xs) (.arr .raw ys) p := by
  have hd' : V1.dispatchTag m = .mset := M.tag.trans hd
  have hE : ∀ x ∈ xs ++ ys, DocOk x ∧ Within S x := by
    intro x hx
    rcases List.mem_append.1 hx with h | h
    · exact ⟨(ha.elem h).docOk, wa.elem h⟩
    · exact ⟨(hb.elem h).docOk, wb.elem h⟩
  have Fa : Faithful m o (xs ++ ys) := faithful_of F M HF hE
  have hxs : ∀ x ∈ xs, x ∈ xs ++ ys := fun x h => List.mem_append.2 (Or.inl h)
  have hys : ∀ y ∈ ys, y ∈ xs ++ ys := fun y h => List.mem_append.2 (Or.inr h)
  obtain ⟨a1, a2⟩ := bagSurplus_spec m xs ys
  obtain ⟨b1, b2⟩ := bagSurplus_spec m ys xs
  unfold Step
  rw [diffNode_mset_mset hd']
  generalize bagSurplus m xs ys = rem at a1 a2
  generalize bagSurplus m ys xs = add at b1 b2
  by_cases hemp : (rem.isEmpty && add.isEmpty) = true
  · rw [if_pos hemp]
    simp only [Bool.and_eq_true, List.isEmpty_iff] at hemp
    obtain ⟨rfl, rfl⟩ := hemp
    refine ⟨[], .arr .raw xs, rfl, by simp, rfl, ?_⟩
    apply mset_result M hd Fa (Or.inl rfl) hxs hys
    intro c
    have h1 := a2 c
    have h2 := b2 c
    simp only [List.map_nil, List.count_nil] at h1 h2
    omega
  · rw [if_neg hemp]
    obtain ⟨zs, e, hsub, hcnt⟩ := patchMsetLeaf_counts m xs rem add (by
      intro c; rw [a2 c]; omega)
    have hnm : NM { path := [.arr .raw (metaItems m), .obj []], old := rem, new := add } :=
      nm_meta M.keys _ _ _
    refine ⟨[{ path := [.arr .raw (metaItems m), .obj []], old := rem, new := add }],
      .arr .mset zs, ?_, ?_, ?_, ?_⟩
    · rw [appendIndex_eq]; rfl
    · intro h hh
      simp only [List.mem_singleton] at hh
      subst hh; exact hnm
    · apply patchAll_single _ _ hnm
      show V1.patchNode false (.arr .raw xs) (V1.liftPath [.arr .raw (metaItems m), .obj []])
        rem add = _
      rw [patchNode_mset_leaf hd' M.keys, e]
    · apply mset_result M hd Fa (Or.inr rfl)
      · intro z hz
        have := hsub z hz
        simp only [List.mem_append] at this
        rcases this with (h | h) | h
        · exact hxs z h
        · exact hxs z (a1 z h)
        · exact hys z (b1 z h)
      · exact hys
      · intro c
        rw [hcnt c, a2 c, b2 c]
        omega

/-! ## 2.12 (D) a value replaced as a whole; scalars -/

theorem replace_step (F : FloatEq0) (L : FloatLaws) {m : V1.Metas} {o : Opts} (M : Mode m o)
    {S : List Json} (HF : HashFaithful m o S) {a b : Json} (ha : Ok a) (hb : Ok b)
    (wb : Within S b) (p : List Json) (addl : List Json) (hl : addl.length ≤ 1)
    (hs : Json.singleValue addl = b)
    (hdiff : V1.diffNode m false a b p = [{ path := p, old := a.nodeList, new := addl }]) :
    Step m o a b p := by
  obtain ⟨e1, e2⟩ := refl_both F L M HF hb wb
  refine ⟨[{ path := [], old := a.nodeList, new := addl }], b, ?_, ?_, ?_, e1, e2⟩
  · rw [hdiff]; simp [shift]
  · intro h hh
    simp only [List.mem_singleton] at hh
    subst hh; exact nm_nil _ _
  · rw [patch_replace L ha addl hl, hs]

theorem scalar_step (F : FloatEq0) (L : FloatLaws) {m : V1.Metas} {o : Opts} (M : Mode m o)
    {S : List Json} (HF : HashFaithful m o S) {a b : Json} (h1 : ∀ t xs, a ≠ .arr t xs)
    (h2 : ∀ kvs, a ≠ .obj kvs) (ha : Ok a) (hb : Ok b) (wb : Within S b) (p : List Json) :
    Step m o a b p := by
  have hd := V1P.diffNode_scalar m a b h1 h2 p
  by_cases he : V1.equals m a b = true
  · refine ⟨[], a, ?_, by simp, rfl, ?_, he⟩
    · rw [hd]; simp [V1.diffCommon, he]
    · rw [equivB_scalar_equals M.prec M.vprec h1 h2]; exact he
  · apply replace_step F L M HF ha hb wb p b.nodeList (nodeList_length_le b)
      (singleValue_nodeList b)
    rw [hd]; simp [V1.diffCommon, he]

/-! ## 2.13 (C) objects -/

theorem shift_shift (p q : List Json) (h : V1.Hunk) : shift p (shift q h) = shift (p ++ q) h :=
  V1P.shift_shift p q h

/-- two objects with sorted keys: the first has exactly the members of the second, up to equality -/
theorem obj_result {m : V1.Metas} {o : Opts} {cur kvs' : List (String × Json)}
    (hs : keysSorted cur = true) (hs' : keysSorted kvs' = true)
    (h : ∀ k, match alookup k kvs' with
      | none => alookup k cur = none
      | some v' => ∃ z, alookup k cur = some z ∧ equivB o z v' = true ∧ V1.equals m z v' = true) :
    equivB o (.obj cur) (.obj kvs') = true ∧ V1.equals m (.obj cur) (.obj kvs') = true := by
  have hsub1 : cur.map Prod.fst ⊆ kvs'.map Prod.fst := by
    intro k hk
    rw [DPL.mem_keys_iff_lookup] at hk ⊢
    have := h k
    cases hl : alookup k kvs' with
    | none => rw [hl] at this; simp [this] at hk
    | some v' => rfl
  have hsub2 : kvs'.map Prod.fst ⊆ cur.map Prod.fst := by
    intro k hk
    rw [DPL.mem_keys_iff_lookup] at hk ⊢
    have := h k
    cases hl : alookup k kvs' with
    | none => simp [hl] at hk
    | some v' =>
      rw [hl] at this
      obtain ⟨z, hz, _⟩ := this
      simp [hz]
  have hlen : cur.length = kvs'.length := by
    have h1 := DPL.nodup_subset_length_le _ _ (keysSorted_nodup hs) hsub1
    have h2 := DPL.nodup_subset_length_le _ _ (keysSorted_nodup hs') hsub2
    simp only [List.length_map] at h1 h2
    omega
  have key : ∀ k z, (k, z) ∈ cur → ∃ v', alookup k kvs' = some v' ∧ equivB o z v' = true ∧
      V1.equals m z v' = true := by
    intro k z hm
    have hz := alookup_of_mem hs hm
    have := h k
    cases hl : alookup k kvs' with
    | none => rw [hl] at this; simp [this] at hz
    | some v' =>
      rw [hl] at this
      obtain ⟨z', hz', hr⟩ := this
      rw [hz] at hz'
      cases hz'
      exact ⟨v', rfl, hr⟩
  constructor
  · simp only [equivB, Bool.and_eq_true, beq_iff_eq, equivKvs_eq_lookAll, lookAll_iff]
    exact ⟨hlen, fun k z hm => by obtain ⟨v', a, b, _⟩ := key k z hm; exact ⟨v', a, b⟩⟩
  · simp only [V1.equals, Bool.and_eq_true, beq_iff_eq, equalsKvs_eq_lookAll, lookAll_iff]
    exact ⟨hlen, fun k z hm => by obtain ⟨v', a, _, c⟩ := key k z hm; exact ⟨v', a, c⟩⟩

/-- the hunk adding a member -/
def addHunk (kv : String × Json) : V1.Hunk :=
  { path := [] ++ [.str kv.1], old := [], new := kv.2.nodeList }

/-- the second loop of `jsonObject.diff`: members of the target that the source does not have -/
theorem patch_adds (L : FloatLaws) (P : String → Bool) :
    ∀ (kvs' : List (String × Json)), keysSorted kvs' = true →
      (∀ k v, (k, v) ∈ kvs' → v.isVoid = false) →
      ∀ (cur : List (String × Json)), keysSorted cur = true →
      (∀ k v', (k, v') ∈ kvs' → P k = true → alookup k cur = none) →
      ∃ cur', V1.patchAll (.obj cur) ((kvs'.filter (fun kv => P kv.1)).map addHunk) =
          .ok (.obj cur') ∧ keysSorted cur' = true ∧
        (∀ k0, (∀ v', (k0, v') ∈ kvs' → P k0 = false) → alookup k0 cur' = alookup k0 cur) ∧
        (∀ k v', (k, v') ∈ kvs' → P k = true → alookup k cur' = some v')
  | [], _, _, cur, hs, _ =>
    ⟨cur, by simp [V1P.patchAll_nil], hs, fun _ _ => rfl, fun _ _ h => by cases h⟩
  | (k, v') :: r, hs', hnv, cur, hs, hnone => by
    have hs'r := DPL.keysSorted_cons_iff.1 hs'
    have hnv' : ∀ k v, (k, v) ∈ r → v.isVoid = false :=
      fun k1 v1 hm => hnv k1 v1 (List.mem_cons_of_mem _ hm)
    by_cases hP : P k = true
    · have hx : alookup k cur = (if Json.void.isVoid then none else some Json.void) := by
        simpa [Json.isVoid] using hnone k v' List.mem_cons_self hP
      have okv : Ok .void := ⟨by decide, by decide⟩
      have hv : V1.patchAll Json.void [{ path := [], old := [], new := v'.nodeList }] = .ok v' := by
        have := patch_replace L okv v'.nodeList (nodeList_length_le v')
        rw [singleValue_nodeList] at this
        exact this
      obtain ⟨cur1, h1, h2, h3, h4⟩ := patchAll_key_frame _
        (fun h hm => by simp only [List.mem_singleton] at hm; subst hm; exact nm_nil _ _)
        k cur .void hs hx v' hv
      rw [hnv k v' List.mem_cons_self] at h4
      simp only [Bool.false_eq_true, if_false] at h4
      obtain ⟨cur', g1, g2, g3, g4⟩ := patch_adds L P r hs'r.2 hnv' cur1 h2
        (fun k1 v1 hm hP1 => by
          have hne : k1 ≠ k := fun e => String.lt_irrefl k (e ▸ hs'r.1 k1 v1 hm)
          rw [h3 k1 hne]
          exact hnone k1 v1 (List.mem_cons_of_mem _ hm) hP1)
      refine ⟨cur', ?_, g2, ?_, ?_⟩
      · simp only [List.filter_cons, hP, if_true, List.map_cons]
        have e : addHunk (k, v') :: List.map addHunk (List.filter (fun kv => P kv.1) r) =
            List.map (shift [.str k]) [{ path := [], old := [], new := v'.nodeList }] ++
            List.map addHunk (List.filter (fun kv => P kv.1) r) := by
          simp [shift, addHunk]
        rw [e, patchAll_append_ok _ _ _ _ h1]
        exact g1
      · intro k0 hk0
        have hne : k0 ≠ k := fun e => by
          have := hk0 v' (e ▸ List.mem_cons_self); simp [e, hP] at this
        rw [g3 k0 (fun v1 hm => hk0 v1 (List.mem_cons_of_mem _ hm)), h3 k0 hne]
      · intro k1 v1 hm hP1
        rcases List.mem_cons.1 hm with e | hm
        · cases e
          rw [g3 k (fun v2 hm2 => absurd (hs'r.1 k v2 hm2) (String.lt_irrefl k)), h4]
        · exact g4 k1 v1 hm hP1
    · obtain ⟨cur', g1, g2, g3, g4⟩ := patch_adds L P r hs'r.2 hnv' cur hs
        (fun k1 v1 hm hP1 => hnone k1 v1 (List.mem_cons_of_mem _ hm) hP1)
      refine ⟨cur', ?_, g2, ?_, ?_⟩
      · simp only [List.filter_cons, hP, Bool.false_eq_true, if_false]
        exact g1
      · intro k0 hk0
        exact g3 k0 (fun v1 hm => hk0 v1 (List.mem_cons_of_mem _ hm))
      · intro k1 v1 hm hP1
        rcases List.mem_cons.1 hm with e | hm
        · cases e; exact absurd hP1 hP
        · exact g4 k1 v1 hm hP1

/-- the first loop of `jsonObject.diff`: the members of the source in key order -/
theorem kvs_step (L : FloatLaws) (m : V1.Metas) (o : Opts) (kvs' : List (String × Json))
    (hb : Ok (.obj kvs')) (p : List Json) :
    ∀ (r : List (String × Json)),
      (∀ k v, (k, v) ∈ r → Ok v ∧ v.isVoid = false ∧
        ∀ v', alookup k kvs' = some v' → ∀ q, Step m o v v' q) →
      keysSorted r = true →
      ∀ cur, keysSorted cur = true → (∀ k v, (k, v) ∈ r → alookup k cur = some v) →
      ∃ D cur', V1.diffKvs m false p kvs' r = D.map (shift p) ∧ (∀ h ∈ D, NM h) ∧
        V1.patchAll (.obj cur) D = .ok (.obj cur') ∧ keysSorted cur' = true ∧
        (∀ k0, (∀ v, (k0, v) ∉ r) → alookup k0 cur' = alookup k0 cur) ∧
        (∀ k v, (k, v) ∈ r → match alookup k kvs' with
          | none => alookup k cur' = none
          | some v' => ∃ z, alookup k cur' = some z ∧ equivB o z v' = true ∧
              V1.equals m z v' = true)
  | [], _, _, cur, hs, _ =>
    ⟨[], cur, by simp [V1P.diffKvs_nil], by simp, rfl, hs, fun _ _ => rfl, fun _ _ h => by cases h⟩
  | (k, v) :: r, hr, hsk, cur, hs, hcur => by
    obtain ⟨okv, hnv, ihv⟩ := hr k v List.mem_cons_self
    have hsk' := DPL.keysSorted_cons_iff.1 hsk
    have hx : alookup k cur = (if v.isVoid then none else some v) := by
      rw [hcur k v List.mem_cons_self, hnv]; rfl
    have hknr : ∀ w, (k, w) ∉ r := fun w hm => String.lt_irrefl k (hsk'.1 k w hm)
    have step : ∀ (D0 : V1.VDiff) (r0 : Json), (∀ h ∈ D0, NM h) →
        V1.patchAll v D0 = .ok r0 →
        ((r0 = .void ∧ alookup k kvs' = none) ∨
          ∃ v', alookup k kvs' = some v' ∧ equivB o r0 v' = true ∧ V1.equals m r0 v' = true) →
        ∃ D cur', D0.map (shift (p ++ [.str k])) ++ V1.diffKvs m false p kvs' r =
            D.map (shift p) ∧ (∀ h ∈ D, NM h) ∧
          V1.patchAll (.obj cur) D = .ok (.obj cur') ∧ keysSorted cur' = true ∧
          (∀ k0, (∀ v_1, (k0, v_1) ∉ (k, v) :: r) → alookup k0 cur' = alookup k0 cur) ∧
          (∀ k_1 v_1, (k_1, v_1) ∈ (k, v) :: r → match alookup k_1 kvs' with
            | none => alookup k_1 cur' = none
            | some v' => ∃ z, alookup k_1 cur' = some z ∧ equivB o z v' = true ∧
                V1.equals m z v' = true) := by
      intro D0 r0 hD0 hr0 hres
      obtain ⟨cur1, g1, g2, g3, g4⟩ := patchAll_key_frame D0 hD0 k cur v hs hx r0 hr0
      obtain ⟨Dr, cur', f0, f0', f1, f2, f3, f4⟩ := kvs_step L m o kvs' hb p r
        (fun k1 v1 hm => hr k1 v1 (List.mem_cons_of_mem _ hm)) hsk'.2 cur1 g2 (fun k1 v1 hm => by
          have hne : k1 ≠ k := fun e => String.lt_irrefl k (e ▸ hsk'.1 k1 v1 hm)
          rw [g3 k1 hne]
          exact hcur k1 v1 (List.mem_cons_of_mem _ hm))
      refine ⟨D0.map (shift [.str k]) ++ Dr, cur', ?_, ?_, ?_, f2, ?_, ?_⟩
      · rw [f0, List.map_append, List.map_map]
        congr 1
        apply List.map_congr_left
        intro h _
        simp [shift_shift]
      · intro h hh
        rcases List.mem_append.1 hh with hh | hh
        · obtain ⟨h0, _, rfl⟩ := List.mem_map.1 hh
          exact nm_shift_str k h0
        · exact f0' h hh
      · rw [patchAll_append_ok _ _ _ _ g1]
        exact f1
      · intro k0 hk0
        have hne : k0 ≠ k := fun e => hk0 v (e ▸ List.mem_cons_self)
        rw [f3 k0 (fun w hm => hk0 w (List.mem_cons_of_mem _ hm)), g3 k0 hne]
      · intro k1 v1 hm
        rcases List.mem_cons.1 hm with e | hm
        · cases e
          rw [f3 k hknr, g4]
          rcases hres with ⟨rfl, hlk⟩ | ⟨v', hlk, hres⟩
          · rw [hlk]; rfl
          · rw [hlk]
            have hnv' : r0.isVoid = false := by
              rw [equivB_isVoid hres.1]; exact (hb.lookup hlk).2
            exact ⟨r0, by rw [hnv']; rfl, hres⟩
        · exact f4 k1 v1 hm
    rw [V1P.diffKvs_cons]
    cases hlk : alookup k kvs' with
    | some v' =>
      obtain ⟨D0, r0, d1, d2, d3, d4, d5⟩ := ihv v' hlk (p ++ [.str k])
      simp only []
      rw [d1]
      exact step D0 r0 d2 d3 (.inr ⟨v', hlk, d4, d5⟩)
    | none =>
      simp only []
      have h1 : V1.patchAll v [{ path := [], old := v.nodeList, new := [] }] = .ok .void :=
        patch_replace L okv [] (by simp)
      have := step [{ path := [], old := v.nodeList, new := [] }] .void
        (fun h hm => by simp only [List.mem_singleton] at hm; subst hm; exact nm_nil _ _)
        h1 (.inl ⟨rfl, hlk⟩)
      simpa [shift] using this

/-! ## 2.14 the main induction and the theorems -/

theorem node_step (F : FloatEq0) (L : FloatLaws) {m : V1.Metas} {o : Opts} (M : Mode m o)
    {S : List Json} (HF : HashFaithful m o S) :
    ∀ a b, Ok a → Ok b → Within S a → Within S b → ∀ p, Step m o a b p := by
  intro a
  induction a using jsonInd with
  | void =>
    intro b ha hb _ wb p
    exact scalar_step F L M HF (fun _ _ e => by cases e) (fun _ e => by cases e) ha hb wb p
  | null =>
    intro b ha hb _ wb p
    exact scalar_step F L M HF (fun _ _ e => by cases e) (fun _ e => by cases e) ha hb wb p
  | bool x =>
    intro b ha hb _ wb p
    exact scalar_step F L M HF (fun _ _ e => by cases e) (fun _ e => by cases e) ha hb wb p
  | num x =>
    intro b ha hb _ wb p
    exact scalar_step F L M HF (fun _ _ e => by cases e) (fun _ e => by cases e) ha hb wb p
  | str x =>
    intro b ha hb _ wb p
    exact scalar_step F L M HF (fun _ _ e => by cases e) (fun _ e => by cases e) ha hb wb p
  | arr t xs _ =>
    intro b ha hb wa wb p
    have ht := ha.raw
    subst ht
    cases b with
    | arr t' ys =>
      have ht' := hb.raw
      subst ht'
      rcases M.sm with hd | hd
      · exact set_step F M hd HF xs ys ha hb wa wb p
      · exact mset_step F M hd HF xs ys ha hb wa wb p
    | _ =>
      refine replace_step F L M HF ha hb wb p _ (nodeList_length_le _)
        (singleValue_nodeList _) ?_
      rw [diffNode_arr_other M.vsm xs _ (fun _ _ e => by cases e) p]
      rfl
  | obj kvs ih =>
    intro b ha hb wa wb p
    cases b with
    | obj kvs' =>
      have hsa := ha.sorted
      have hsb := hb.sorted
      obtain ⟨D1, cur1, e1, m1, h1, hs1, hother1, hmem1⟩ := kvs_step L m o kvs' hb p kvs
        (fun k v hm => ⟨(ha.val hm).1, (ha.val hm).2, fun v' hl q =>
          ih k v hm v' (ha.val hm).1 (hb.lookup hl).1 (wa.val hm) (wb.val (mem_of_alookup hl)) q⟩)
        hsa kvs hsa (fun k v hm => alookup_of_mem hsa hm)
      obtain ⟨cur2, h2, hs2, hother2, hmem2⟩ := patch_adds L (fun k => (alookup k kvs).isNone)
        kvs' hsb (fun k v hm => (hb.val hm).2) cur1 hs1 (fun k v' _ hP => by
          have hkn : alookup k kvs = none := by simpa using hP
          rw [hother1 k (fun v hm => by rw [alookup_of_mem hsa hm] at hkn; cases hkn), hkn])
      have hfin : ∀ k, match alookup k kvs' with
          | none => alookup k cur2 = none
          | some v' => ∃ z, alookup k cur2 = some z ∧ equivB o z v' = true ∧
              V1.equals m z v' = true := by
        intro k
        cases hlk' : alookup k kvs' with
        | some v' =>
          simp only []
          have hm' := mem_of_alookup hlk'
          cases hlk : alookup k kvs with
          | none =>
            obtain ⟨r1, r2⟩ := refl_both F L M HF (hb.val hm').1 (wb.val hm')
            exact ⟨v', hmem2 k v' hm' (by simp [hlk]), r1, r2⟩
          | some v =>
            have := hmem1 k v (mem_of_alookup hlk)
            rw [hlk'] at this
            obtain ⟨z, hz, hr⟩ := this
            refine ⟨z, ?_, hr⟩
            rw [hother2 k (fun _ _ => by simp [hlk]), hz]
        | none =>
          simp only []
          rw [hother2 k (fun v' hm => by rw [alookup_of_mem hsb hm] at hlk'; cases hlk')]
          cases hlk : alookup k kvs with
          | none =>
            rw [hother1 k (fun v hm => by rw [alookup_of_mem hsa hm] at hlk; cases hlk), hlk]
          | some v =>
            have := hmem1 k v (mem_of_alookup hlk)
            rw [hlk'] at this
            exact this
      obtain ⟨r1, r2⟩ := obj_result (m := m) hs2 hsb hfin
      refine ⟨D1 ++ (kvs'.filter (fun kv => (alookup kv.1 kvs).isNone)).map addHunk,
        .obj cur2, ?_, ?_, ?_, r1, r2⟩
      · rw [V1P.diffNode_obj_obj, e1, List.map_append, List.map_map]
        congr 1
      · intro h hh
        rcases List.mem_append.1 hh with hh | hh
        · exact m1 h hh
        · obtain ⟨kv, _, rfl⟩ := List.mem_map.1 hh
          rfl
      · rw [patchAll_append_ok _ _ _ _ h1]
        exact h2
    | _ =>
      refine replace_step F L M HF ha hb wb p [_] (by simp) rfl ?_
      rw [V1P.diffNode_obj_other m kvs _ (fun _ e => by cases e) p]
      rfl

theorem shift_nil_map (D : V1.VDiff) : D.map (shift []) = D := by
  rw [List.map_congr_left (g := id) (fun h _ => by simp [shift]), List.map_id]

/-- **C17, SET and MULTISET readings (no setkeys, strict strategy, no precision), in memory.** -/
theorem v1_diff_patch_setmodes (F : FloatEq0) (L : FloatLaws) {m : V1.Metas} {o : Opts}
    (M : Mode m o) (a b : Json)
    (ha : a.setDoc = true) (hb : b.setDoc = true)
    (ha' : DPL.memOK a = true) (hb' : DPL.memOK b = true)
    (HF : HashFaithful m o (subterms a ++ subterms b)) :
    ∃ r, V1.patchM a (V1.diffM m a b) = .ok r ∧ V1.equals m r b = true ∧ equivB o r b = true := by
  obtain ⟨D, r, e, _, h, h1, h2⟩ := node_step F L M HF a b ⟨ha, ha'⟩ ⟨hb, hb'⟩
    (fun z hz => List.mem_append.2 (Or.inl hz)) (fun z hz => List.mem_append.2 (Or.inr hz)) []
  refine ⟨r, ?_, h2, h1⟩
  unfold V1.diffM V1.patchM
  rw [M.noMerge, e, shift_nil_map]
  exact h

/-! ## 2.15 the statements for the metadata as the caller gives them -/

/-- SET reading: SET present (v1: SET wins over MULTISET whatever the order), no setkeys, no MERGE,
    precision 0 or absent. Decidable. -/
structure SetMode (m : V1.Metas) : Prop where
  set : V1.hasSet m = true
  keys : V1.keysOf m = none
  noMerge : V1.hasMerge m = false
  prec0 : V1.precOf m = 0

/-- MULTISET reading: MULTISET present, SET absent, no setkeys, no MERGE, precision 0 or absent -/
structure MsetMode (m : V1.Metas) : Prop where
  noSet : V1.hasSet m = false
  mset : V1.hasMset m = true
  keys : V1.keysOf m = none
  noMerge : V1.hasMerge m = false
  prec0 : V1.precOf m = 0

theorem SetMode.single : SetMode [.set] := ⟨rfl, rfl, rfl, rfl⟩
theorem MsetMode.single : MsetMode [.mset] := ⟨rfl, rfl, rfl, rfl, rfl⟩
/-- v1 `dispatch` gives SET priority whatever the order -/
theorem SetMode.both : SetMode [.mset, .set] := ⟨rfl, rfl, rfl, rfl⟩

theorem SetMode.mode {m : V1.Metas} (h : SetMode m) : Mode m [.set] :=
  ⟨by simp [V1.dispatchTag, h.set, dispatchTag], Or.inl rfl, rfl, h.prec0, h.keys, h.noMerge⟩

theorem MsetMode.mode {m : V1.Metas} (h : MsetMode m) : Mode m [.mset] :=
  ⟨by simp [V1.dispatchTag, h.noSet, h.mset, dispatchTag], Or.inr rfl, rfl, h.prec0, h.keys,
    h.noMerge⟩

/-- **C17, SET reading, in memory.** For documents as read from JSON text (`setDoc`: plain arrays,
    sorted unique keys, finite numbers, no `-0`; `memOK`: no void object member), when among the
    sub-terms of `a` and `b` equal V1 hash codes occur only for equivalent nodes, the library call
    `a.Patch(a.Diff(b, m...))` succeeds and the result `Equals` `b` (v1 `Equals` with the same
    metadata) and is equivalent to `b` for the advertised set equivalence. -/
theorem v1_diff_patch_set (F : FloatEq0) (L : FloatLaws) {m : V1.Metas} (hm : SetMode m)
    (a b : Json) (ha : a.setDoc = true) (hb : b.setDoc = true)
    (ha' : DPL.memOK a = true) (hb' : DPL.memOK b = true)
    (HF : HashFaithful m [.set] (subterms a ++ subterms b)) :
    ∃ r, V1.patchM a (V1.diffM m a b) = .ok r ∧ V1.equals m r b = true ∧
      equivB [.set] r b = true :=
  v1_diff_patch_setmodes F L hm.mode a b ha hb ha' hb' HF

/-- **C17, MULTISET reading, in memory.** -/
theorem v1_diff_patch_mset (F : FloatEq0) (L : FloatLaws) {m : V1.Metas} (hm : MsetMode m)
    (a b : Json) (ha : a.setDoc = true) (hb : b.setDoc = true)
    (ha' : DPL.memOK a = true) (hb' : DPL.memOK b = true)
    (HF : HashFaithful m [.mset] (subterms a ++ subterms b)) :
    ∃ r, V1.patchM a (V1.diffM m a b) = .ok r ∧ V1.equals m r b = true ∧
      equivB [.mset] r b = true :=
  v1_diff_patch_setmodes F L hm.mode a b ha hb ha' hb' HF

/-- **C17, second half, SET / MULTISET readings: the diff is empty exactly when `Equals` holds.** -/
theorem v1_diff_empty_iff_equals_setmodes (F : FloatEq0) (L : FloatLaws) {m : V1.Metas} {o : Opts}
    (M : Mode m o) (a b : Json) (ha : a.setDoc = true) (hb : b.setDoc = true)
    (ha' : DPL.memOK a = true) (hb' : DPL.memOK b = true)
    (HF : HashFaithful m o (subterms a ++ subterms b)) :
    V1.diffM m a b = [] ↔ V1.equals m a b = true := by
  constructor
  · intro hd
    obtain ⟨r, h1, h2, _⟩ := v1_diff_patch_setmodes F L M a b ha hb ha' hb' HF
    rw [hd] at h1
    cases h1
    exact h2
  · intro he
    have wa : Within (subterms a ++ subterms b) a := fun z hz => List.mem_append.2 (Or.inl hz)
    have wb : Within (subterms a ++ subterms b) b := fun z hz => List.mem_append.2 (Or.inr hz)
    rw [equals_eq_equivB_of F M HF (docOk_of_setDoc ha) (docOk_of_setDoc hb) wa wb] at he
    unfold V1.diffM
    rw [M.noMerge]
    exact diffNode_nil_of_equivB F M HF a b (docOk_of_setDoc ha) (docOk_of_setDoc hb) wa wb he []

theorem v1_diff_empty_iff_equals_set (F : FloatEq0) (L : FloatLaws) {m : V1.Metas}
    (hm : SetMode m) (a b : Json) (ha : a.setDoc = true) (hb : b.setDoc = true)
    (ha' : DPL.memOK a = true) (hb' : DPL.memOK b = true)
    (HF : HashFaithful m [.set] (subterms a ++ subterms b)) :
    V1.diffM m a b = [] ↔ V1.equals m a b = true :=
  v1_diff_empty_iff_equals_setmodes F L hm.mode a b ha hb ha' hb' HF

theorem v1_diff_empty_iff_equals_mset (F : FloatEq0) (L : FloatLaws) {m : V1.Metas}
    (hm : MsetMode m) (a b : Json) (ha : a.setDoc = true) (hb : b.setDoc = true)
    (ha' : DPL.memOK a = true) (hb' : DPL.memOK b = true)
    (HF : HashFaithful m [.mset] (subterms a ++ subterms b)) :
    V1.diffM m a b = [] ↔ V1.equals m a b = true :=
  v1_diff_empty_iff_equals_setmodes F L hm.mode a b ha hb ha' hb' HF

/-! ## 2.16 non-vacuity; the alias classes of the v1 hash; the hypotheses are needed -/

namespace Example

/-- `{"s":[true,null,{"k":null}]}` -/
def exA : Json := .obj [("s", .arr .raw [.bool true, .null, .obj [("k", .null)]])]
/-- `{"s":[{"k":null},null,false],"t":null}` -/
def exB : Json := .obj [("s", .arr .raw [.obj [("k", .null)], .null, .bool false]), ("t", .null)]

theorem ex_docs : exA.setDoc = true ∧ exB.setDoc = true ∧ DPL.memOK exA = true ∧
    DPL.memOK exB = true := by decide

theorem ex_hashFaithful_set : HashFaithful [.set] [.set] (subterms exA ++ subterms exB) := by
  intro x hx y hy
  simp only [exA, exB, subterms, subtermsList, subtermsKvs, List.cons_append, List.nil_append,
    List.append_nil, List.mem_cons, List.not_mem_nil, or_false] at hx hy
  rcases hx with rfl | rfl | rfl | rfl | rfl | rfl | rfl | rfl | rfl | rfl | rfl | rfl | rfl <;>
  rcases hy with rfl | rfl | rfl | rfl | rfl | rfl | rfl | rfl | rfl | rfl | rfl | rfl | rfl <;>
  first
  | (intro _; simp [equivB, dispatchTag, allIn, allCovered, anyEquiv, equivKvs, alookup]; done)
  | (intro e; exact absurd e (by decide +kernel))

theorem ex_hashFaithful_mset : HashFaithful [.mset] [.mset] (subterms exA ++ subterms exB) := by
  intro x hx y hy
  simp only [exA, exB, subterms, subtermsList, subtermsKvs, List.cons_append, List.nil_append,
    List.append_nil, List.mem_cons, List.not_mem_nil, or_false] at hx hy
  rcases hx with rfl | rfl | rfl | rfl | rfl | rfl | rfl | rfl | rfl | rfl | rfl | rfl | rfl <;>
  rcases hy with rfl | rfl | rfl | rfl | rfl | rfl | rfl | rfl | rfl | rfl | rfl | rfl | rfl <;>
  first
  | (intro _; simp [equivB, dispatchTag, bagSub, removeFirst, equivKvs, alookup]; done)
  | (intro e; exact absurd e (by decide +kernel))

/-- the SET theorem describes an actual run (one set hunk below the key `s`, one added member;
    see the `#eval`s at the end of the file); only the IEEE-754 laws are left as assumptions -/
theorem ex_set (F : FloatEq0) (L : FloatLaws) :
    ∃ r, V1.patchM exA (V1.diffM [.set] exA exB) = .ok r ∧ V1.equals [.set] r exB = true ∧
      equivB [.set] r exB = true :=
  v1_diff_patch_set F L SetMode.single exA exB ex_docs.1 ex_docs.2.1 ex_docs.2.2.1 ex_docs.2.2.2
    ex_hashFaithful_set

theorem ex_mset (F : FloatEq0) (L : FloatLaws) :
    ∃ r, V1.patchM exA (V1.diffM [.mset] exA exB) = .ok r ∧ V1.equals [.mset] r exB = true ∧
      equivB [.mset] r exB = true :=
  v1_diff_patch_mset F L MsetMode.single exA exB ex_docs.1 ex_docs.2.1 ex_docs.2.2.1
    ex_docs.2.2.2 ex_hashFaithful_mset

example (F : FloatEq0) (L : FloatLaws) :
    V1.diffM [.set] exA exB = [] ↔ V1.equals [.set] exA exB = true :=
  v1_diff_empty_iff_equals_set F L SetMode.single exA exB ex_docs.1 ex_docs.2.1 ex_docs.2.2.1
    ex_docs.2.2.2 ex_hashFaithful_set

/-- **The alias classes of the v1 hash** (lists and objects have NO kind prefix in the pre-image):
    the empty array (under every reading), the empty object and the empty string all hash to the
    FNV offset basis. `HashFaithful` excludes two of them among the sub-terms at hand. (v2 has only
    `[]` under SET / MULTISET against `""`.) -/
theorem alias_classes (m : V1.Metas) :
    V1.hashCode m (.arr .raw []) = fnvOffset ∧ V1.hashCode m (.obj []) = fnvOffset ∧
    V1.hashCode m (.str "") = fnvOffset := by
  refine ⟨?_, ?_, ?_⟩
  · simp only [V1.hashCode, V1.effTag, V1.hashList]
    cases V1.dispatchTag m <;> decide +kernel
  · simp only [V1.hashCode, V1.hashKvs]; decide +kernel
  · simp only [V1.hashCode]; decide +kernel

/-- `HashFaithful` is needed for the `equivB` part: `[[]]` against `[{}]` under SET: the diff is
    empty, the patched document is `a` itself, which `Equals` `b` but is not equivalent to it. -/
def alA : Json := .arr .raw [.arr .raw []]
def alB : Json := .arr .raw [.obj []]

theorem alias_needs_hashFaithful :
    alA.setDoc = true ∧ alB.setDoc = true ∧ V1.diffM [.set] alA alB = [] ∧
    V1.equals [.set] alA alB = true ∧ equivB [.set] alA alB = false := by
  refine ⟨by decide, by decide, ?_, by decide +kernel, ?_⟩
  · have h0 : V1.identOf [.set] (.arr .raw []) = V1.identOf [.set] (.obj []) := by
      decide +kernel
    unfold V1.diffM
    rw [show V1.hasMerge [V1.Meta.set] = false from rfl, alA, alB, diffNode_set_set rfl,
      diffSetElems_cons, diffSetElems_nil]
    simp [V1.identLookup, h0, setAdd, ksort, hsort, hdedup]
  · simp [alA, alB, equivB, dispatchTag, allIn, allCovered, anyEquiv]

end Example

/-! # Part 1b. MERGE: the diff is empty exactly when `Equals` holds; non-vacuity -/

section MergeEmpty
open Jd.Merge Jd.V1M

/-- **C17, second half, MERGE reading.** -/
theorem v1_merge_diff_empty_iff_equals (L : FloatLaws) {m : V1.Metas} (hm : MergeMode m)
    (a b : Json) (haw : a.wf = true) (har : a.rawDoc = true)
    (hbw : b.wf = true) (hbr : b.rawDoc = true) (hbv : objVoidFree b = true)
    (hbf : b.finiteNums = true) :
    V1.diffM m a b = [] ↔ V1.equals m a b = true := by
  constructor
  · intro hd
    obtain ⟨r, h1, h2, _⟩ := v1_merge_diff_patch L hm a b haw har hbw hbr hbv hbf
    rw [hd] at h1
    cases h1
    exact h2
  · intro he
    unfold V1.diffM
    rw [hm.merge]
    exact empty_node hm a b [] har haw (rawDoc_listDoc b hbr) hbw he

example (L : FloatLaws) :
    ∃ r, V1.patchM V1M.Example.exA (V1.diffM [.merge] V1M.Example.exA V1M.Example.exB) = .ok r ∧
      V1.equals [.merge] r V1M.Example.exB = true ∧ specEq r V1M.Example.exB = true ∧
      r.listDoc = true :=
  v1_merge_diff_patch L MergeMode.single _ _ V1M.Example.hyps.2.1 V1M.Example.hyps.2.2.1
    V1M.Example.hyps.2.2.2.1 V1M.Example.hyps.2.2.2.2.1 V1M.Example.hyps.2.2.2.2.2.2.1
    V1M.Example.hyps.2.2.2.2.2.2.2.1

example (L : FloatLaws) :
    V1.diffM [.merge] V1M.Example.exA V1M.Example.exB = [] ↔
      V1.equals [.merge] V1M.Example.exA V1M.Example.exB = true :=
  v1_merge_diff_empty_iff_equals L MergeMode.single _ _ V1M.Example.hyps.2.1
    V1M.Example.hyps.2.2.1 V1M.Example.hyps.2.2.2.1 V1M.Example.hyps.2.2.2.2.1
    V1M.Example.hyps.2.2.2.2.2.2.1 V1M.Example.hyps.2.2.2.2.2.2.2.1

/-- in memory a target holding `null` is reproduced (outside the domain of the rendered RFC 7386
    form, where `null` means "delete") -/
example (L : FloatLaws) :
    ∃ r, V1.patchM (.obj [("a", .str "x")])
        (V1.diffM [.merge] (.obj [("a", .str "x")]) (.obj [("a", .null)])) = .ok r ∧
      V1.equals [.merge] r (.obj [("a", .null)]) = true ∧ specEq r (.obj [("a", .null)]) = true ∧
      r.listDoc = true :=
  v1_merge_diff_patch L MergeMode.single _ _ (by decide) (by decide) (by decide) (by decide)
    (by decide) (by decide)

end MergeEmpty

/-! # Part 3. The text round trip of v1 diffs: `Diff.Render` then `ReadDiffString` -/

section Text
open Jd.NativeRT (unlines unlines_nil unlines_cons unlines_append splitOn_unlines str_ofList_space
  optAll_cons_some optAll_map_congr optAll_join_lines optAll_join_lines_filter optAll_mem)

/-! ## 3.1 definitions -/

/-- no nil entry in a metadata array of the path (`raw()` would dereference nil) -/
def metaOK : List Json → Bool
  | [] => true
  | .arr .raw items :: r => !(items.any Json.isVoid) && metaOK r
  | _ :: r => metaOK r

/-- the hunk is rendered with the merge conventions (a void new value is a bare `+` line) -/
def rendersMerge (p : List Json) : Bool := V1.pathRendersMerge (V1.liftPath p)

/-- the values that produce a `-` line -/
def oldVals (h : V1.Hunk) : List Json := h.old.filter (fun v => !v.isVoid)

/-- the values that produce a `+` line: in a merge hunk every entry (void = the bare `+` of a
    deletion), otherwise the non-void ones -/
def newVals (h : V1.Hunk) : List Json :=
  if rendersMerge h.path then h.new else h.new.filter (fun v => !v.isVoid)

/-- what reading back can at most change: path elements as raw documents, values `untag`ged, values
    that render as nothing dropped -/
def normHunk (h : V1.Hunk) : V1.Hunk :=
  { path := V1.rawNormList h.path, old := (oldVals h).map untag, new := (newVals h).map untag }

def normDiff (d : V1.VDiff) : V1.VDiff := d.map normHunk

/-- the domain (decidable): the path can be written, at least one `-` / `+` line is rendered (the
    reader rejects `@` directly after `@`), and `checkDiffElement` holds for what is rendered -/
def wfHunk (h : V1.Hunk) : Bool :=
  metaOK h.path && !((oldVals h).isEmpty && (newVals h).isEmpty) && V1.checkHunk (normHunk h)

/-- codec contract for one value: its text has no newline and reads back as the value (up to the
    Go dynamic type of array nodes) -/
def ValOK (nc : NumCodec) (v : Json) : Prop :=
  ∀ t, V1.marshalNode nc v = some t →
    '\n' ∉ t.toList ∧ readJsonM nc (" " ++ t) = .ok (untag v)

/-- codec contract for one path: the text of the array of its elements has no newline and reads
    back as that array -/
def PathOK (nc : NumCodec) (p : List Json) : Prop :=
  ∀ t, jsonText nc (.arr .raw (V1.rawNormList p)) = some t →
    '\n' ∉ t.toList ∧ readJsonM nc (" " ++ t) = .ok (.arr .raw (V1.rawNormList p))

def CodecOK (nc : NumCodec) (d : V1.VDiff) : Prop :=
  ∀ h ∈ d, PathOK nc h.path ∧ ∀ v ∈ h.old ++ h.new, v.isVoid = false → ValOK nc v

/-! ## 3.2 one line -/

theorem readLine_minus (nc : NumCodec) (acc : V1.RAcc) (t : String) (v : Json)
    (hst : acc.st = .at ∨ acc.st = .old)
    (hr : readJsonM nc (" " ++ t) = .ok v) :
    V1.readLine nc acc ("- " ++ t) =
      .ok { acc with st := .old, cur := { acc.cur with old := acc.cur.old ++ [v] } } := by
  have hl : ("- " ++ t).toList = '-' :: ' ' :: t.toList := by simp
  unfold V1.readLine
  rw [hl]
  simp only [str_ofList_space, hr]
  rcases hst with h | h <;> rw [h] <;> simp [V1.stateAllows]

theorem readLine_plus (nc : NumCodec) (acc : V1.RAcc) (t : String) (v : Json)
    (hst : acc.st = .at ∨ acc.st = .old ∨ acc.st = .new)
    (hr : readJsonM nc (" " ++ t) = .ok v) :
    V1.readLine nc acc ("+ " ++ t) =
      .ok { acc with st := .new, cur := { acc.cur with new := acc.cur.new ++ [v] } } := by
  have hl : ("+ " ++ t).toList = '+' :: ' ' :: t.toList := by simp
  unfold V1.readLine
  rw [hl]
  simp only [str_ofList_space, hr]
  rcases hst with h | h | h <;> rw [h] <;> simp [V1.stateAllows]

theorem readJsonM_empty (nc : NumCodec) : readJsonM nc "" = .ok .void := by rfl

theorem readLine_plusBare (nc : NumCodec) (acc : V1.RAcc)
    (hst : acc.st = .at ∨ acc.st = .old ∨ acc.st = .new) :
    V1.readLine nc acc "+" =
      .ok { acc with st := .new, cur := { acc.cur with new := acc.cur.new ++ [.void] } } := by
  have hl : ("+" : String).toList = ['+'] := by simp
  have he : String.ofList [] = "" := by simp
  unfold V1.readLine
  rw [hl]
  simp only [he, readJsonM_empty]
  rcases hst with h | h | h <;> rw [h] <;> simp [V1.stateAllows]

theorem readLine_empty (nc : NumCodec) (acc : V1.RAcc) : V1.readLine nc acc "" = .ok acc := by
  have hl : ("" : String).toList = [] := by simp
  unfold V1.readLine
  rw [hl]

/-- the accumulator is at a hunk boundary: nothing read yet, or a complete hunk is pending that
    passes `checkDiffElement` -/
def AtBoundary (acc : V1.RAcc) : Prop :=
  acc.st = .init ∨ ((acc.st = .old ∨ acc.st = .new) ∧ V1.checkHunk acc.cur = true)

/-- the hunks read so far, the pending one included -/
def flushOut (acc : V1.RAcc) : V1.VDiff :=
  if acc.st = .init then acc.out else acc.out ++ [acc.cur]

theorem readLine_at (nc : NumCodec) (acc : V1.RAcc) (t : String) (xs : List Json)
    (hb : AtBoundary acc) (hr : readJsonM nc (" " ++ t) = .ok (.arr .raw xs)) :
    V1.readLine nc acc ("@ " ++ t) =
      .ok { st := .at, cur := { path := xs }, out := flushOut acc } := by
  have hl : ("@ " ++ t).toList = '@' :: ' ' :: t.toList := by simp
  unfold V1.readLine
  rw [hl]
  simp only [str_ofList_space, hr, flushOut]
  rcases hb with h | ⟨h | h, hc⟩
  · rw [h]; simp [V1.stateAllows]
  · rw [h]; simp [V1.stateAllows, hc]
  · rw [h]; simp [V1.stateAllows, hc]

theorem readLines_append (nc : NumCodec) : ∀ (a b : List String) (acc acc' : V1.RAcc),
    V1.readLines nc acc a = .ok acc' → V1.readLines nc acc (a ++ b) = V1.readLines nc acc' b
  | [], b, acc, acc', h => by
    simp only [V1.readLines, Outcome.ok.injEq] at h
    simp [h]
  | l :: a, b, acc, acc', h => by
    simp only [V1.readLines, List.cons_append] at h ⊢
    cases hl : V1.readLine nc acc l with
    | ok a1 => rw [hl] at h; exact readLines_append nc a b a1 acc' h
    | err => rw [hl] at h; cases h
    | panic => rw [hl] at h; cases h

end Text

section Text2
open Jd.NativeRT (unlines unlines_nil unlines_cons unlines_append splitOn_unlines str_ofList_space
  optAll_cons_some optAll_map_congr optAll_join_lines optAll_join_lines_filter optAll_mem
  map_eq_cases)

/-! ## 3.3 runs of lines -/

def remLine (nc : NumCodec) (v : Json) : Option String :=
  (V1.marshalNode nc v).map (fun t => "- " ++ t)
def addLine (nc : NumCodec) (v : Json) : Option String :=
  if v.isVoid then some "+" else (V1.marshalNode nc v).map (fun t => "+ " ++ t)

theorem racc_eta (acc : V1.RAcc) (l : List Json) (h : l = []) :
    ({ acc with st := acc.st, cur := { acc.cur with old := acc.cur.old ++ l } } : V1.RAcc) = acc := by
  subst h; cases acc; simp

theorem racc_eta' (acc : V1.RAcc) (l : List Json) (h : l = []) :
    ({ acc with st := acc.st, cur := { acc.cur with new := acc.cur.new ++ l } } : V1.RAcc) = acc := by
  subst h; cases acc; simp

theorem readLines_old (nc : NumCodec) : ∀ (vs : List Json) (ls : List String) (acc : V1.RAcc),
    (∀ v ∈ vs, v.isVoid = false ∧ ValOK nc v) → optAll (vs.map (remLine nc)) = some ls →
    (acc.st = .at ∨ acc.st = .old) →
    V1.readLines nc acc ls =
      .ok { acc with st := if vs.isEmpty then acc.st else .old,
                     cur := { acc.cur with old := acc.cur.old ++ vs.map untag } }
  | [], ls, acc, _, hl, _ => by
    simp only [List.map_nil, optAll, Option.some.injEq] at hl
    subst hl
    simp only [V1.readLines, List.isEmpty_nil, if_true, List.map_nil]
    rw [racc_eta acc [] rfl]
  | v :: r, ls, acc, hv, hl, hst => by
    simp only [List.map_cons] at hl
    obtain ⟨l, lr, hl1, hl2, rfl⟩ := optAll_cons_some hl
    simp only [remLine, Option.map_eq_some_iff] at hl1
    obtain ⟨t, ht, rfl⟩ := hl1
    have hok := (hv v List.mem_cons_self).2 t ht
    simp only [V1.readLines]
    rw [readLine_minus nc acc t (untag v) hst hok.2]
    simp only []
    rw [readLines_old nc r lr _ (fun v' hv' => hv v' (List.mem_cons_of_mem _ hv')) hl2 (Or.inr rfl)]
    simp [List.append_assoc]

theorem readLines_new (nc : NumCodec) : ∀ (vs : List Json) (ls : List String) (acc : V1.RAcc),
    (∀ v ∈ vs, v.isVoid = false → ValOK nc v) → optAll (vs.map (addLine nc)) = some ls →
    (acc.st = .at ∨ acc.st = .old ∨ acc.st = .new) →
    V1.readLines nc acc ls =
      .ok { acc with st := if vs.isEmpty then acc.st else .new,
                     cur := { acc.cur with new := acc.cur.new ++ vs.map untag } }
  | [], ls, acc, _, hl, _ => by
    simp only [List.map_nil, optAll, Option.some.injEq] at hl
    subst hl
    simp only [V1.readLines, List.isEmpty_nil, if_true, List.map_nil]
    rw [racc_eta' acc [] rfl]
  | v :: r, ls, acc, hv, hl, hst => by
    simp only [List.map_cons] at hl
    obtain ⟨l, lr, hl1, hl2, rfl⟩ := optAll_cons_some hl
    have ih := fun acc1 h1 => readLines_new nc r lr acc1
      (fun v' hv' => hv v' (List.mem_cons_of_mem _ hv')) hl2 h1
    simp only [V1.readLines]
    unfold addLine at hl1
    by_cases hvv : v.isVoid = true
    · rw [if_pos hvv] at hl1
      simp only [Option.some.injEq] at hl1
      subst hl1
      have hvoid : untag v = .void := by cases v <;> simp_all [Json.isVoid, untag]
      rw [readLine_plusBare nc acc hst]
      simp only []
      rw [ih _ (Or.inr (Or.inr rfl))]
      simp [List.append_assoc, hvoid]
    · rw [if_neg hvv] at hl1
      simp only [Option.map_eq_some_iff] at hl1
      obtain ⟨t, ht, rfl⟩ := hl1
      have hok := hv v List.mem_cons_self (by simpa using hvv) t ht
      rw [readLine_plus nc acc t (untag v) hst hok.2]
      simp only []
      rw [ih _ (Or.inr (Or.inr rfl))]
      simp [List.append_assoc]

/-! ## 3.4 one hunk, a sequence of hunks -/

/-- the lines of one rendered hunk -/
def hunkLines (nc : NumCodec) (h : V1.Hunk) : Option (List String) := do
  let pt ← jsonText nc (.arr .raw (V1.rawNormList h.path))
  let o ← optAll ((oldVals h).map (remLine nc))
  let n ← optAll ((newVals h).map (addLine nc))
  pure (("@ " ++ pt) :: (o ++ n))

theorem mem_oldVals {h : V1.Hunk} {v : Json} (hv : v ∈ oldVals h) :
    v ∈ h.old ++ h.new ∧ v.isVoid = false := by
  have := List.mem_filter.1 hv
  exact ⟨List.mem_append.2 (Or.inl this.1), by simpa using this.2⟩

theorem mem_newVals {h : V1.Hunk} {v : Json} (hv : v ∈ newVals h) : v ∈ h.old ++ h.new := by
  unfold newVals at hv
  split at hv
  · exact List.mem_append.2 (Or.inr hv)
  · exact List.mem_append.2 (Or.inr (List.mem_filter.1 hv).1)

theorem readLines_hunk (nc : NumCodec) (h : V1.Hunk) (ls : List String) (acc : V1.RAcc)
    (hb : AtBoundary acc) (hw : wfHunk h = true) (hp : PathOK nc h.path)
    (hv : ∀ v ∈ h.old ++ h.new, v.isVoid = false → ValOK nc v)
    (hl : hunkLines nc h = some ls) :
    ∃ acc', V1.readLines nc acc ls = .ok acc' ∧ AtBoundary acc' ∧
      flushOut acc' = flushOut acc ++ [normHunk h] := by
  simp only [hunkLines, Option.bind_eq_bind, Option.pure_def, Option.bind_eq_some_iff,
    Option.some.injEq] at hl
  obtain ⟨pt, hpt, o, ho, n, hn, rfl⟩ := hl
  simp only [wfHunk, Bool.and_eq_true, Bool.not_eq_true', Bool.and_eq_false_iff] at hw
  obtain ⟨⟨_, hne⟩, hck⟩ := hw
  have h1 := readLine_at nc acc pt _ hb (hp pt hpt).2
  have h2 : V1.readLines nc
      { st := .at, cur := { path := V1.rawNormList h.path }, out := flushOut acc } o =
      .ok { st := if (oldVals h).isEmpty then .at else .old,
            cur := { path := V1.rawNormList h.path, old := (oldVals h).map untag },
            out := flushOut acc } := by
    rw [readLines_old nc (oldVals h) o _
      (fun v hvm => ⟨(mem_oldVals hvm).2, hv v (mem_oldVals hvm).1 (mem_oldVals hvm).2⟩) ho
      (Or.inl rfl)]
    simp
  have h3 : V1.readLines nc
      { st := if (oldVals h).isEmpty then .at else .old,
        cur := { path := V1.rawNormList h.path, old := (oldVals h).map untag },
        out := flushOut acc } n =
      .ok { st := if (newVals h).isEmpty then (if (oldVals h).isEmpty then .at else .old) else .new,
            cur := normHunk h, out := flushOut acc } := by
    rw [readLines_new nc (newVals h) n _ (fun v hvm => hv v (mem_newVals hvm)) hn
      (by by_cases e : (oldVals h).isEmpty = true <;> simp [e])]
    simp [normHunk]
  refine ⟨{ st := if (newVals h).isEmpty then (if (oldVals h).isEmpty then .at else .old) else .new,
            cur := normHunk h, out := flushOut acc }, ?_, ?_, ?_⟩
  · simp only [V1.readLines, h1]
    rw [readLines_append nc o n _ _ h2]
    exact h3
  · right
    refine ⟨?_, hck⟩
    by_cases e1 : (newVals h).isEmpty = true
    · have e2 : (oldVals h).isEmpty = false := by
        rcases hne with e | e
        · exact e
        · rw [e1] at e; cases e
      simp [e1, e2]
    · simp [e1]
  · have hst : (if (newVals h).isEmpty = true then
        (if (oldVals h).isEmpty = true then V1.RState.at else V1.RState.old)
        else V1.RState.new) ≠ .init := by
      by_cases e1 : (newVals h).isEmpty = true <;> by_cases e2 : (oldVals h).isEmpty = true <;>
        simp [e1, e2]
    simp only [flushOut]
    rw [if_neg hst]

def diffLines (nc : NumCodec) (d : V1.VDiff) : Option (List String) :=
  (optAll (d.map (hunkLines nc))).map List.flatten

theorem readLines_diff (nc : NumCodec) : ∀ (d : V1.VDiff) (ls : List String) (acc : V1.RAcc),
    AtBoundary acc → (∀ h ∈ d, wfHunk h = true) → CodecOK nc d → diffLines nc d = some ls →
    ∃ acc', V1.readLines nc acc ls = .ok acc' ∧ AtBoundary acc' ∧
      flushOut acc' = flushOut acc ++ normDiff d
  | [], ls, acc, hb, _, _, hl => by
    simp only [diffLines, List.map_nil, optAll, Option.map_some, List.flatten_nil,
      Option.some.injEq] at hl
    subst hl
    exact ⟨acc, rfl, hb, by simp [normDiff]⟩
  | h :: r, ls, acc, hb, hw, hc, hl => by
    simp only [diffLines, List.map_cons, Option.map_eq_some_iff] at hl
    obtain ⟨lss, hlss, rfl⟩ := hl
    obtain ⟨lh, lr, hlh, hlr, rfl⟩ := optAll_cons_some hlss
    have hch := hc h List.mem_cons_self
    obtain ⟨acc1, e1, b1, f1⟩ := readLines_hunk nc h lh acc hb (hw h List.mem_cons_self)
      hch.1 hch.2 hlh
    obtain ⟨acc2, e2, b2, f2⟩ := readLines_diff nc r lr.flatten acc1 b1
      (fun x hx => hw x (List.mem_cons_of_mem _ hx))
      (fun x hx => hc x (List.mem_cons_of_mem _ hx)) (by simp [diffLines, hlr])
    refine ⟨acc2, ?_, b2, ?_⟩
    · rw [List.flatten_cons, readLines_append nc lh _ _ _ e1]; exact e2
    · rw [f2, f1]; simp [normDiff]

end Text2

section Text3
open Jd.NativeRT (unlines unlines_nil unlines_cons unlines_append splitOn_unlines str_ofList_space
  optAll_cons_some optAll_map_congr optAll_join_lines optAll_join_lines_filter optAll_mem
  map_eq_cases)

/-! ## 3.5 the rendered text, as lines -/

mutual
theorem rawNorm_isVoid : ∀ x : Json, (V1.rawNorm x).isVoid = x.isVoid
  | .void => rfl
  | .null => rfl
  | .bool _ => rfl
  | .num _ => rfl
  | .str _ => rfl
  | .obj _ => by simp [V1.rawNorm, Json.isVoid]
  | .arr t xs => by cases t <;> simp [V1.rawNorm, Json.isVoid]
end

theorem pathRaw_lift : ∀ p : List Json, metaOK p = true →
    V1.pathRaw (V1.liftPath p) = some (V1.rawNormList p)
  | [], _ => rfl
  | x :: r, h => by
    have hx : V1.pathElemRaw (.node x) = some (V1.rawNorm x) ∧ metaOK r = true := by
      cases x with
      | arr t items =>
        cases t <;> simp_all [metaOK, V1.pathElemRaw, V1.rawNorm]
      | _ => simp_all [metaOK, V1.pathElemRaw]
    simp only [V1.liftPath, List.map_cons, V1.pathRaw, hx.1, Option.bind_eq_bind,
      Option.bind_some, Option.pure_def]
    have := pathRaw_lift r hx.2
    simp only [V1.liftPath] at this
    rw [this]
    simp [V1.rawNormList]

theorem renderHunk_lines (nc : NumCodec) (h : V1.Hunk) (hm : metaOK h.path = true) :
    V1.renderHunk nc false h.toP = .ok ((hunkLines nc h).map unlines) := by
  have ho : (optAll (h.old.map (fun v =>
      (if v.isVoid then some "" else (V1.marshalNode nc v).map (fun t => "- " ++ t ++ "\n")).map
        (fun body => "" ++ body ++ "")))).map String.join =
      (optAll ((oldVals h).map (remLine nc))).map unlines := by
    unfold oldVals
    rw [← optAll_join_lines_filter (remLine nc) h.old]
    congr 2
    apply List.map_congr_left
    intro v _
    by_cases hv : v.isVoid = true
    · simp [hv]
    · simp only [hv, Bool.false_eq_true, if_false, remLine]
      cases V1.marshalNode nc v <;> simp [String.append_assoc]
  have hn : (optAll (h.new.map (fun v =>
      (if v.isVoid then some (if rendersMerge h.path then "+\n" else "")
       else (V1.marshalNode nc v).map (fun t => "+ " ++ t ++ "\n")).map
        (fun body => "" ++ body ++ "")))).map String.join =
      (optAll ((newVals h).map (addLine nc))).map unlines := by
    unfold newVals
    by_cases hmg : rendersMerge h.path = true
    · simp only [hmg, if_true]
      rw [← optAll_join_lines (addLine nc) h.new]
      congr 2
      apply List.map_congr_left
      intro v _
      by_cases hv : v.isVoid = true
      · simp [hv, addLine]
      · simp only [hv, Bool.false_eq_true, if_false, addLine]
        cases V1.marshalNode nc v <;> simp [String.append_assoc]
    · simp only [hmg, Bool.false_eq_true, if_false]
      rw [← optAll_join_lines_filter (addLine nc) h.new]
      congr 2
      apply List.map_congr_left
      intro v _
      by_cases hv : v.isVoid = true
      · simp [hv]
      · simp only [hv, Bool.false_eq_true, if_false, addLine]
        cases V1.marshalNode nc v <;> simp [String.append_assoc]
  unfold V1.renderHunk V1.pathText hunkLines
  simp only [V1.Hunk.toP, pathRaw_lift h.path hm, Bool.false_eq_true, if_false]
  cases hpt : jsonText nc (.arr .raw (V1.rawNormList h.path)) with
  | none => simp
  | some pt =>
    simp only [Option.bind_eq_bind, Option.bind_some, Option.pure_def]
    have hmr : V1.pathRendersMerge (V1.liftPath h.path) = rendersMerge h.path := rfl
    simp only [hmr]
    rcases map_eq_cases ho with ⟨o1, o2⟩ | ⟨oa, ob, o1, o2, o3⟩
    · rw [o1]; simp [o2]
    · rcases map_eq_cases hn with ⟨n1, n2⟩ | ⟨na, nb, n1, n2, n3⟩
      · rw [o1, n1]; simp [o2, n2]
      · rw [o1, n1]
        simp [o2, n2, unlines_cons, unlines_append, o3, n3, String.append_assoc]

theorem renderM_lines (nc : NumCodec) : ∀ (d : V1.VDiff), (∀ h ∈ d, metaOK h.path = true) →
    V1.renderM nc false (V1.liftDiff d) = .ok ((diffLines nc d).map unlines)
  | [], _ => by simp [V1.renderM, V1.liftDiff, diffLines, optAll, unlines_nil]
  | h :: r, hm => by
    have ih := renderM_lines nc r (fun x hx => hm x (List.mem_cons_of_mem _ hx))
    simp only [V1.liftDiff] at ih
    simp only [V1.liftDiff, List.map_cons, V1.renderM, renderHunk_lines nc h (hm h List.mem_cons_self),
      ih, diffLines]
    cases hh : hunkLines nc h with
    | none => simp [optAll]
    | some lh =>
      cases hr : optAll (r.map (hunkLines nc)) with
      | none => simp [optAll, hr]
      | some lr => simp [optAll, hr, unlines_append]

theorem hunkLines_noNL (nc : NumCodec) (h : V1.Hunk) (ls : List String)
    (hp : PathOK nc h.path) (hv : ∀ v ∈ h.old ++ h.new, v.isVoid = false → ValOK nc v)
    (hl : hunkLines nc h = some ls) : ∀ l ∈ ls, '\n' ∉ l.toList := by
  simp only [hunkLines, Option.bind_eq_bind, Option.pure_def, Option.bind_eq_some_iff,
    Option.some.injEq] at hl
  obtain ⟨pt, hpt, o, ho, n, hn, rfl⟩ := hl
  intro l hl
  simp only [List.mem_cons, List.mem_append] at hl
  rcases hl with rfl | hl | hl
  · have := (hp pt hpt).1
    simp [this]
  · obtain ⟨v, hvm, hg⟩ := optAll_mem ho l hl
    simp only [remLine, Option.map_eq_some_iff] at hg
    obtain ⟨t, ht, rfl⟩ := hg
    have := (hv v (mem_oldVals hvm).1 (mem_oldVals hvm).2 t ht).1
    simp [this]
  · obtain ⟨v, hvm, hg⟩ := optAll_mem hn l hl
    unfold addLine at hg
    split at hg
    · simp only [Option.some.injEq] at hg; subst hg; simp
    · rename_i hvv
      simp only [Option.map_eq_some_iff] at hg
      obtain ⟨t, ht, rfl⟩ := hg
      have := (hv v (mem_newVals hvm) (by simpa using hvv) t ht).1
      simp [this]

theorem diffLines_noNL (nc : NumCodec) : ∀ (d : V1.VDiff) (ls : List String), CodecOK nc d →
    diffLines nc d = some ls → ∀ l ∈ ls, '\n' ∉ l.toList
  | [], ls, _, hl => by
    simp only [diffLines, List.map_nil, optAll, Option.map_some, List.flatten_nil,
      Option.some.injEq] at hl
    subst hl; intro l hl; cases hl
  | h :: r, ls, hc, hl => by
    simp only [diffLines, List.map_cons, Option.map_eq_some_iff] at hl
    obtain ⟨lss, hlss, rfl⟩ := hl
    obtain ⟨lh, lr, hlh, hlr, rfl⟩ := optAll_cons_some hlss
    have hch := hc h List.mem_cons_self
    intro l hl
    rw [List.flatten_cons, List.mem_append] at hl
    rcases hl with hl | hl
    · exact hunkLines_noNL nc h lh hch.1 hch.2 hlh l hl
    · exact diffLines_noNL nc r lr.flatten (fun x hx => hc x (List.mem_cons_of_mem _ hx))
        (by simp [diffLines, hlr]) l hl

theorem wfHunk_metaOK {h : V1.Hunk} (hw : wfHunk h = true) : metaOK h.path = true := by
  simp only [wfHunk, Bool.and_eq_true] at hw
  exact hw.1.1

/-- **(3a) `ReadDiffString(d.Render())` is the normalised diff**, for every v1 diff (list, set,
    multiset, merge hunks) in the domain `wfHunk`, relative to the codec contract `CodecOK` on the
    paths and values at hand; on the TEXT (through `strings.Split`). -/
theorem v1_read_render (nc : NumCodec) (d : V1.VDiff) (text : String)
    (hw : ∀ h ∈ d, wfHunk h = true) (hc : CodecOK nc d)
    (hr : V1.renderM nc false (V1.liftDiff d) = .ok (some text)) :
    V1.readDiffM nc text = .ok (normDiff d) := by
  rw [renderM_lines nc d (fun h hh => wfHunk_metaOK (hw h hh))] at hr
  simp only [Outcome.ok.injEq, Option.map_eq_some_iff] at hr
  obtain ⟨ls, hl, rfl⟩ := hr
  obtain ⟨acc, e, hb, hfin⟩ := readLines_diff nc d ls {} (Or.inl rfl) hw hc hl
  unfold V1.readDiffM
  rw [unlines, splitOn_unlines ls (diffLines_noNL nc d ls hc hl),
    readLines_append nc ls [""] _ _ e]
  simp only [V1.readLines, readLine_empty]
  have hf0 : flushOut ({} : V1.RAcc) = [] := rfl
  rw [hf0, List.nil_append] at hfin
  rcases hb with h | ⟨h | h, hck⟩
  · simp only [flushOut, h, if_true] at hfin
    simp [h, hfin]
  · simp only [flushOut, h] at hfin
    simp [h, hck]
    exact hfin
  · simp only [flushOut, h] at hfin
    simp [h, hck]
    exact hfin

end Text3

section Text4
open Jd.V1P (shift vfree vfreeList vfreeKvs)
open Jd.SetDP (Ok Within)

/-! ## 3.6 diffs made of raw documents are read back unchanged -/

mutual
theorem untag_rawDoc : ∀ a : Json, a.rawDoc = true → untag a = a
  | .void, _ => rfl
  | .null, _ => rfl
  | .bool _, _ => rfl
  | .num _, _ => rfl
  | .str _, _ => rfl
  | .arr t xs, h => by
    simp only [Json.rawDoc, Bool.and_eq_true, beq_iff_eq] at h
    simp [untag, h.1, untagList_rawDoc xs h.2]
  | .obj kvs, h => by
    simp only [Json.rawDoc] at h
    simp [untag, untagKvs_rawDoc kvs h]
theorem untagList_rawDoc : ∀ xs : List Json, rawDocList xs = true → untagList xs = xs
  | [], _ => rfl
  | x :: r, h => by
    simp only [rawDocList, Bool.and_eq_true] at h
    simp [untagList, untag_rawDoc x h.1, untagList_rawDoc r h.2]
theorem untagKvs_rawDoc : ∀ kvs : List (String × Json), rawDocKvs kvs = true → untagKvs kvs = kvs
  | [], _ => rfl
  | (k, v) :: r, h => by
    simp only [rawDocKvs, Bool.and_eq_true] at h
    simp [untagKvs, untag_rawDoc v h.1, untagKvs_rawDoc r h.2]
end

theorem map_untag_rawDoc : ∀ {l : List Json}, rawDocList l = true → l.map untag = l
  | [], _ => rfl
  | x :: r, h => by
    simp only [rawDocList, Bool.and_eq_true] at h
    simp [untag_rawDoc x h.1, map_untag_rawDoc h.2]

mutual
theorem rawNorm_rawDoc : ∀ a : Json, a.rawDoc = true → V1.rawNorm a = a
  | .void, _ => rfl
  | .null, _ => rfl
  | .bool _, _ => rfl
  | .num _, _ => rfl
  | .str _, _ => rfl
  | .arr t xs, h => by
    simp only [Json.rawDoc, Bool.and_eq_true, beq_iff_eq] at h
    obtain ⟨rfl, h2⟩ := h
    simp [V1.rawNorm, rawNormList_rawDoc xs h2]
  | .obj kvs, h => by
    simp only [Json.rawDoc] at h
    simp [V1.rawNorm, rawNormKvs_rawDoc kvs h]
theorem rawNormList_rawDoc : ∀ xs : List Json, rawDocList xs = true → V1.rawNormList xs = xs
  | [], _ => rfl
  | x :: r, h => by
    simp only [rawDocList, Bool.and_eq_true] at h
    simp [V1.rawNormList, rawNorm_rawDoc x h.1, rawNormList_rawDoc r h.2]
theorem rawNormKvs_rawDoc : ∀ kvs : List (String × Json), rawDocKvs kvs = true →
    V1.rawNormKvs kvs = kvs
  | [], _ => rfl
  | (k, v) :: r, h => by
    simp only [rawDocKvs, Bool.and_eq_true] at h
    simp [V1.rawNormKvs, rawNorm_rawDoc v h.1, rawNormKvs_rawDoc r h.2]
end

theorem filter_nonvoid {l : List Json} (h : ∀ v ∈ l, v.isVoid = false) :
    l.filter (fun v => !v.isVoid) = l :=
  List.filter_eq_self.2 (fun v hv => by simp [h v hv])

/-- a hunk made of raw documents, without void values, not rendered with the merge conventions,
    with at least one value, accepted by `checkDiffElement`, whose path does not announce the
    merge strategy -/
structure GH (h : V1.Hunk) : Prop where
  nm : NM h
  path : rawDocList h.path = true
  mOK : metaOK h.path = true
  nmr : rendersMerge h.path = false
  old : rawDocList h.old = true
  oldv : ∀ v ∈ h.old, v.isVoid = false
  new : rawDocList h.new = true
  newv : ∀ v ∈ h.new, v.isVoid = false
  ne : ¬ (h.old = [] ∧ h.new = [])
  chk : V1.checkHunk h = true

theorem GH.norm {h : V1.Hunk} (g : GH h) : normHunk h = h := by
  have e1 : oldVals h = h.old := filter_nonvoid g.oldv
  have e2 : newVals h = h.new := by
    unfold newVals; rw [g.nmr]; exact filter_nonvoid g.newv
  cases h with
  | mk p o n =>
    simp only [normHunk, e1, e2, rawNormList_rawDoc _ g.path, map_untag_rawDoc g.old,
      map_untag_rawDoc g.new]

theorem GH.wf {h : V1.Hunk} (g : GH h) : wfHunk h = true := by
  have e1 : oldVals h = h.old := filter_nonvoid g.oldv
  have e2 : newVals h = h.new := by
    unfold newVals; rw [g.nmr]; exact filter_nonvoid g.newv
  have hne := g.ne
  simp only [wfHunk, g.mOK, g.norm, g.chk, e1, e2, Bool.and_true, Bool.true_and,
    Bool.not_eq_true', Bool.and_eq_false_iff, List.isEmpty_eq_false_iff]
  by_cases h1 : h.old = []
  · exact Or.inr (fun h2 => hne ⟨h1, h2⟩)
  · exact Or.inl h1

theorem normDiff_of_GH : ∀ {d : V1.VDiff}, (∀ h ∈ d, GH h) → normDiff d = d
  | [], _ => rfl
  | h :: r, g => by
    have ih := normDiff_of_GH (d := r) (fun x hx => g x (List.mem_cons_of_mem _ hx))
    simp only [normDiff, List.map_cons] at ih ⊢
    rw [(g h List.mem_cons_self).norm, ih]

/-- **(3b)** a diff whose hunks are `GH` is read back from its rendered text UNCHANGED -/
theorem v1_read_render_raw (nc : NumCodec) (d : V1.VDiff) (text : String)
    (hg : ∀ h ∈ d, GH h) (hc : CodecOK nc d)
    (hr : V1.renderM nc false (V1.liftDiff d) = .ok (some text)) :
    V1.readDiffM nc text = .ok d := by
  have := v1_read_render nc d text (fun h hh => (hg h hh).wf) hc hr
  rwa [normDiff_of_GH hg] at this

/-! ## 3.7 the hunks of a set-mode diff are `GH` -/

theorem checkHunk_shift (e : Json) {h : V1.Hunk} (hc : V1.checkHunk h = true) :
    V1.checkHunk (shift [e] h) = true := by
  cases h with
  | mk p o n =>
    show V1.checkHunk { path := e :: p, old := o, new := n } = true
    unfold V1.checkHunk at hc ⊢
    dsimp only at hc ⊢
    by_cases hlen : (decide (n.length > 1) || decide (o.length > 1)) = true
    · rw [if_pos hlen] at hc ⊢
      cases p with
      | nil => simp at hc
      | cons x r =>
        rw [List.getLast?_cons_cons]
        exact hc
    · rw [if_neg hlen]

theorem GH.shift_str {h : V1.Hunk} (g : GH h) (k : String) : GH (shift [.str k] h) where
  nm := nm_shift_str k h
  path := by simpa [shift, rawDocList, Json.rawDoc] using g.path
  mOK := by simpa [shift, metaOK] using g.mOK
  nmr := rfl
  old := g.old
  oldv := g.oldv
  new := g.new
  newv := g.newv
  ne := g.ne
  chk := checkHunk_shift _ g.chk

theorem rawDocList_of_mem : ∀ {l : List Json}, (∀ v ∈ l, v.rawDoc = true) → rawDocList l = true
  | [], _ => rfl
  | x :: r, h => by
    simp only [rawDocList, Bool.and_eq_true]
    exact ⟨h x List.mem_cons_self, rawDocList_of_mem (fun v hv => h v (List.mem_cons_of_mem _ hv))⟩

theorem vfreeList_mem : ∀ {l : List Json} {x : Json}, vfreeList l = true → x ∈ l →
    x.isVoid = false ∧ vfree x = true
  | [], _, _, hx => by cases hx
  | y :: r, x, h, hx => by
    simp only [vfreeList, Bool.and_eq_true, Bool.not_eq_true'] at h
    rcases List.mem_cons.1 hx with rfl | hx
    · exact h.1
    · exact vfreeList_mem h.2 hx

theorem vfreeKvs_mem : ∀ {l : List (String × Json)} {k : String} {x : Json}, vfreeKvs l = true →
    (k, x) ∈ l → x.isVoid = false ∧ vfree x = true
  | [], _, _, _, hx => by cases hx
  | (k', y) :: r, k, x, h, hx => by
    simp only [vfreeKvs, Bool.and_eq_true, Bool.not_eq_true'] at h
    rcases List.mem_cons.1 hx with e | hx
    · cases e; exact h.1
    · exact vfreeKvs_mem h.2 hx

theorem nodeList_rawDoc {x : Json} (h : x.rawDoc = true) : rawDocList x.nodeList = true := by
  unfold Json.nodeList; split <;> simp [rawDocList, h]

theorem nodeList_nonvoid (x : Json) : ∀ v ∈ x.nodeList, v.isVoid = false := by
  unfold Json.nodeList
  split
  · intro v hv; cases hv
  · rename_i hx
    intro v hv
    simp only [List.mem_singleton] at hv
    subst hv; simpa using hx

/-- the root hunk replacing a value -/
theorem gh_root {a b : Json} (ha : a.rawDoc = true) (hb : b.rawDoc = true)
    (hne : ¬ (a.isVoid = true ∧ b.isVoid = true)) :
    GH { path := [], old := a.nodeList, new := b.nodeList } where
  nm := nm_nil _ _
  path := rfl
  mOK := rfl
  nmr := rfl
  old := nodeList_rawDoc ha
  oldv := nodeList_nonvoid a
  new := nodeList_rawDoc hb
  newv := nodeList_nonvoid b
  ne := by
    rintro ⟨h1, h2⟩
    apply hne
    simp only [Json.nodeList] at h1 h2
    constructor
    · by_cases e : a.isVoid = true
      · exact e
      · simp [e] at h1
    · by_cases e : b.isVoid = true
      · exact e
      · simp [e] at h2
  chk := by
    have h1 := nodeList_length_le a
    have h2 := nodeList_length_le b
    unfold V1.checkHunk
    rw [if_neg]
    simp only [Bool.or_eq_true, decide_eq_true_eq, not_or]
    omega

/-- the set / multiset hunk -/
theorem gh_meta {m : V1.Metas} (hm : V1.dispatchTag m = .set ∨ V1.dispatchTag m = .mset)
    (hk : V1.keysOf m = none) {rem add : List Json}
    (h1 : ∀ v ∈ rem, v.rawDoc = true ∧ v.isVoid = false)
    (h2 : ∀ v ∈ add, v.rawDoc = true ∧ v.isVoid = false) (hne : ¬ (rem = [] ∧ add = [])) :
    GH { path := [.arr .raw (metaItems m), .obj []], old := rem, new := add } where
  nm := nm_meta hk _ _ _
  path := by
    cases e1 : V1.hasSet m <;> cases e2 : V1.hasMset m <;>
      simp [rawDocList, Json.rawDoc, metaItems, hk, e1, e2, rawDocKvs]
  mOK := by
    cases e1 : V1.hasSet m <;> cases e2 : V1.hasMset m <;>
      simp [metaOK, metaItems, hk, e1, e2, Json.isVoid]
  nmr := by
    unfold rendersMerge V1.pathRendersMerge
    rw [pathNext_meta hm hk]
    exact (pm_spec hk).2.2.2.2
  old := rawDocList_of_mem (fun v hv => (h1 v hv).1)
  oldv := fun v hv => (h1 v hv).2
  new := rawDocList_of_mem (fun v hv => (h2 v hv).1)
  newv := fun v hv => (h2 v hv).2
  ne := hne
  chk := by
    unfold V1.checkHunk
    split <;> rfl

end Text4

section Text5
open Jd.V1P (shift vfree vfreeList vfreeKvs)
open Jd.SetDP (Ok Within)

/-- the hunks of the diff of `a` and `b` at any path prefix are `GH` hunks below that prefix -/
def Shape (m : V1.Metas) (a b : Json) : Prop :=
  ∀ p, ∃ D : V1.VDiff, V1.diffNode m false a b p = D.map (shift p) ∧ ∀ h ∈ D, GH h

theorem shape_single {m : V1.Metas} {a b : Json} {x y : Json}
    (hx : x.rawDoc = true) (hy : y.rawDoc = true) (hne : ¬ (x.isVoid = true ∧ y.isVoid = true))
    (hd : ∀ p, V1.diffNode m false a b p = [{ path := p, old := x.nodeList, new := y.nodeList }]) :
    Shape m a b := by
  intro p
  refine ⟨[{ path := [], old := x.nodeList, new := y.nodeList }], ?_, ?_⟩
  · rw [hd p]; simp [shift]
  · intro h hh
    simp only [List.mem_singleton] at hh
    subst hh
    exact gh_root hx hy hne

theorem shape_scalar {m : V1.Metas} {a b : Json} (h1 : ∀ t xs, a ≠ .arr t xs)
    (h2 : ∀ kvs, a ≠ .obj kvs) (ha : a.rawDoc = true) (hb : b.rawDoc = true)
    (hbv : b.isVoid = false) : Shape m a b := by
  by_cases he : V1.equals m a b = true
  · intro p
    refine ⟨[], ?_, by simp⟩
    rw [V1P.diffNode_scalar m a b h1 h2 p]; simp [V1.diffCommon, he]
  · apply shape_single ha hb (by simp [hbv])
    intro p
    rw [V1P.diffNode_scalar m a b h1 h2 p]; simp [V1.diffCommon, he]

theorem shape_kvs {m : V1.Metas} (kvs' : List (String × Json)) :
    ∀ (r : List (String × Json)),
      (∀ k v, (k, v) ∈ r → v.rawDoc = true ∧ v.isVoid = false ∧
        ∀ v', alookup k kvs' = some v' → Shape m v v') →
      ∀ p, ∃ D : V1.VDiff, V1.diffKvs m false p kvs' r = D.map (shift p) ∧ ∀ h ∈ D, GH h
  | [], _, p => ⟨[], by simp [V1P.diffKvs_nil], by simp⟩
  | (k, v) :: r, hr, p => by
    obtain ⟨hraw, hnv, ihv⟩ := hr k v List.mem_cons_self
    obtain ⟨Dr, er, gr⟩ := shape_kvs kvs' r
      (fun k1 v1 hm => hr k1 v1 (List.mem_cons_of_mem _ hm)) p
    rw [V1P.diffKvs_cons, er]
    cases hlk : alookup k kvs' with
    | some v' =>
      obtain ⟨D0, e0, g0⟩ := ihv v' hlk (p ++ [.str k])
      refine ⟨D0.map (shift [.str k]) ++ Dr, ?_, ?_⟩
      · simp only [e0, List.map_append, List.map_map]
        congr 1
        apply List.map_congr_left
        intro h _
        simp [shift_shift]
      · intro h hh
        rcases List.mem_append.1 hh with hh | hh
        · obtain ⟨h0, hh0, rfl⟩ := List.mem_map.1 hh
          exact (g0 h0 hh0).shift_str k
        · exact gr h hh
    | none =>
      have g : GH { path := [], old := v.nodeList, new := Json.void.nodeList } :=
        gh_root hraw rfl (by simp [hnv])
      refine ⟨shift [.str k] { path := [], old := v.nodeList, new := Json.void.nodeList } :: Dr,
        ?_, ?_⟩
      · simp [shift, Json.nodeList, Json.isVoid]
      · intro h hh
        rcases List.mem_cons.1 hh with rfl | hh
        · exact g.shift_str k
        · exact gr h hh

theorem shape_adds (kvs kvs' : List (String × Json))
    (hv : ∀ k v, (k, v) ∈ kvs' → v.rawDoc = true ∧ v.isVoid = false) (p : List Json) :
    ∃ D : V1.VDiff, (kvs'.filter (fun kv => (alookup kv.1 kvs).isNone)).map (fun kv =>
        ({ path := p ++ [.str kv.1], old := [], new := kv.2.nodeList } : V1.Hunk)) =
      D.map (shift p) ∧ ∀ h ∈ D, GH h := by
  refine ⟨(kvs'.filter (fun kv => (alookup kv.1 kvs).isNone)).map (fun kv =>
    shift [.str kv.1] { path := [], old := Json.void.nodeList, new := kv.2.nodeList }), ?_, ?_⟩
  · rw [List.map_map]
    apply List.map_congr_left
    intro kv _
    simp [shift, Json.nodeList, Json.isVoid]
  · intro h hh
    obtain ⟨kv, hkv, rfl⟩ := List.mem_map.1 hh
    have := hv kv.1 kv.2 (List.mem_filter.1 hkv).1
    exact (gh_root (a := .void) (b := kv.2) rfl this.1 (by simp [this.2])).shift_str kv.1

theorem shape_node (F : FloatEq0) {m : V1.Metas} {o : Opts} (M : Mode m o)
    {S : List Json} (HF : HashFaithful m o S) :
    ∀ a b, Ok a → Ok b → vfree a = true → vfree b = true → b.isVoid = false →
      Within S a → Within S b → Shape m a b := by
  intro a
  induction a using jsonInd with
  | void =>
    intro b ha hb _ _ hbv _ _
    exact shape_scalar (fun _ _ e => by cases e) (fun _ e => by cases e) ha.rawDoc hb.rawDoc hbv
  | null =>
    intro b ha hb _ _ hbv _ _
    exact shape_scalar (fun _ _ e => by cases e) (fun _ e => by cases e) ha.rawDoc hb.rawDoc hbv
  | bool x =>
    intro b ha hb _ _ hbv _ _
    exact shape_scalar (fun _ _ e => by cases e) (fun _ e => by cases e) ha.rawDoc hb.rawDoc hbv
  | num x =>
    intro b ha hb _ _ hbv _ _
    exact shape_scalar (fun _ _ e => by cases e) (fun _ e => by cases e) ha.rawDoc hb.rawDoc hbv
  | str x =>
    intro b ha hb _ _ hbv _ _
    exact shape_scalar (fun _ _ e => by cases e) (fun _ e => by cases e) ha.rawDoc hb.rawDoc hbv
  | arr t xs _ =>
    intro b ha hb va vb hbv wa wb
    have ht := ha.raw
    subst ht
    cases b with
    | arr t' ys =>
      have ht' := hb.raw
      subst ht'
      have vxs : vfreeList xs = true := by simpa [vfree] using va
      have vys : vfreeList ys = true := by simpa [vfree] using vb
      have hxs : ∀ v ∈ xs, v.rawDoc = true ∧ v.isVoid = false :=
        fun v hv => ⟨(ha.elem hv).rawDoc, (vfreeList_mem vxs hv).1⟩
      have hys : ∀ v ∈ ys, v.rawDoc = true ∧ v.isVoid = false :=
        fun v hv => ⟨(hb.elem hv).rawDoc, (vfreeList_mem vys hv).1⟩
      intro p
      rcases M.sm with hd | hd
      · have hd' : V1.dispatchTag m = .set := M.tag.trans hd
        have hE : ∀ x ∈ xs ++ ys, DocOk x ∧ Within S x := by
          intro x hx
          rcases List.mem_append.1 hx with h | h
          · exact ⟨(ha.elem h).docOk, wa.elem h⟩
          · exact ⟨(hb.elem h).docOk, wb.elem h⟩
        have Fa : Faithful m o (xs ++ ys) := faithful_of F M HF hE
        have H : ∀ x ∈ xs, ∀ y ∈ ys, V1.identOf m x = V1.identOf m y →
            ∀ q, V1.diffNode m false x y q = [] := by
          intro x hx y hy e q
          exact diffNode_nil_of_equivB F M HF x y (ha.elem hx).docOk (hb.elem hy).docOk
            (wa.elem hx) (wb.elem hy)
            ((Fa.equivB_iff (List.mem_append.2 (Or.inl hx)) (List.mem_append.2 (Or.inr hy))).2 e) q
        obtain ⟨a1, a2, _, _⟩ := parts_spec m p xs ys H
        obtain ⟨b1, _⟩ := setAdd_spec m xs ys
        rw [diffNode_set_set hd', a1, List.nil_append]
        generalize (ksort (V1.diffSetElems m false p ys xs)).filterMap remOf = rem at a2
        generalize setAdd m xs ys = add at b1
        by_cases hemp : (rem.isEmpty && add.isEmpty) = true
        · rw [if_pos hemp]; exact ⟨[], rfl, by simp⟩
        · rw [if_neg hemp]
          refine ⟨[{ path := [.arr .raw (metaItems m), .obj []], old := rem, new := add }], ?_, ?_⟩
          · rw [appendIndex_eq]; rfl
          · intro h hh
            simp only [List.mem_singleton] at hh
            subst hh
            exact gh_meta M.vsm M.keys (fun v hv => hxs v (a2 v hv)) (fun v hv => hys v (b1 v hv))
              (by simpa [List.isEmpty_iff] using hemp)
      · have hd' : V1.dispatchTag m = .mset := M.tag.trans hd
        obtain ⟨a1, _⟩ := bagSurplus_spec m xs ys
        obtain ⟨b1, _⟩ := bagSurplus_spec m ys xs
        rw [diffNode_mset_mset hd']
        generalize bagSurplus m xs ys = rem at a1
        generalize bagSurplus m ys xs = add at b1
        by_cases hemp : (rem.isEmpty && add.isEmpty) = true
        · rw [if_pos hemp]; exact ⟨[], rfl, by simp⟩
        · rw [if_neg hemp]
          refine ⟨[{ path := [.arr .raw (metaItems m), .obj []], old := rem, new := add }], ?_, ?_⟩
          · rw [appendIndex_eq]; rfl
          · intro h hh
            simp only [List.mem_singleton] at hh
            subst hh
            exact gh_meta M.vsm M.keys (fun v hv => hxs v (a1 v hv)) (fun v hv => hys v (b1 v hv))
              (by simpa [List.isEmpty_iff] using hemp)
    | _ =>
      apply shape_single (x := .arr .raw xs) ha.rawDoc hb.rawDoc (by simp [Json.isVoid])
      intro p
      rw [diffNode_arr_other M.vsm xs _ (fun _ _ e => by cases e) p]
      rfl
  | obj kvs ih =>
    intro b ha hb va vb hbv wa wb
    cases b with
    | obj kvs' =>
      have vkvs : vfreeKvs kvs = true := by simpa [vfree] using va
      have vkvs' : vfreeKvs kvs' = true := by simpa [vfree] using vb
      intro p
      obtain ⟨D1, e1, g1⟩ := shape_kvs (m := m) kvs' kvs
        (fun k v hm => ⟨(ha.val hm).1.rawDoc, (ha.val hm).2, fun v' hl =>
          ih k v hm v' (ha.val hm).1 (hb.lookup hl).1 (vfreeKvs_mem vkvs hm).2
            (vfreeKvs_mem vkvs' (mem_of_alookup hl)).2 (hb.lookup hl).2 (wa.val hm)
            (wb.val (mem_of_alookup hl))⟩) p
      obtain ⟨D2, e2, g2⟩ := shape_adds kvs kvs'
        (fun k v hm => ⟨(hb.val hm).1.rawDoc, (hb.val hm).2⟩) p
      refine ⟨D1 ++ D2, ?_, ?_⟩
      · rw [V1P.diffNode_obj_obj, e1, e2, List.map_append]
      · intro h hh
        rcases List.mem_append.1 hh with hh | hh
        · exact g1 h hh
        · exact g2 h hh
    | _ =>
      apply shape_single (x := .obj kvs) ha.rawDoc hb.rawDoc (by simp [Json.isVoid])
      intro p
      rw [V1P.diffNode_obj_other m kvs _ (fun _ e => by cases e) p]
      first
      | (simp [Json.nodeList, Json.isVoid]; done)
      | exact absurd hbv (by simp [Json.isVoid])

/-- **C17, SET / MULTISET readings, through the text** (`Render`, then `ReadDiffString`): the diff
    read back from its rendered text IS the diff, hence patching `a` with it yields a document that
    `Equals` `b`. Relative to the codec contract `CodecOK` on the paths and values of the diff. -/
theorem v1_text_roundtrip_setmodes (F : FloatEq0) (L : FloatLaws) (nc : NumCodec)
    {m : V1.Metas} {o : Opts} (M : Mode m o) (a b : Json)
    (ha : a.setDoc = true) (hb : b.setDoc = true)
    (ha' : DPL.memOK a = true) (hb' : DPL.memOK b = true)
    (va : vfree a = true) (vb : vfree b = true) (hbv : b.isVoid = false)
    (HF : HashFaithful m o (subterms a ++ subterms b))
    (hc : CodecOK nc (V1.diffM m a b)) (text : String)
    (hr : V1.renderM nc false (V1.liftDiff (V1.diffM m a b)) = .ok (some text)) :
    V1.readDiffM nc text = .ok (V1.diffM m a b) ∧
    ∃ r, V1.patchM a (V1.diffM m a b) = .ok r ∧ V1.equals m r b = true ∧ equivB o r b = true := by
  refine ⟨?_, v1_diff_patch_setmodes F L M a b ha hb ha' hb' HF⟩
  obtain ⟨D, e, g⟩ := shape_node F M HF a b ⟨ha, ha'⟩ ⟨hb, hb'⟩ va vb hbv
    (fun z hz => List.mem_append.2 (Or.inl hz)) (fun z hz => List.mem_append.2 (Or.inr hz)) []
  rw [shift_nil_map] at e
  have hd : V1.diffM m a b = D := by unfold V1.diffM; rw [M.noMerge, e]
  rw [hd] at hc hr ⊢
  exact v1_read_render_raw nc D text g hc hr

end Text5

/-! ## 3.8 non-vacuity of the text theorems: a concrete run -/

namespace Example
open Jd.NativeRT (exCodec)

/-- the SET diff of `exA` and `exB`: `@ ["s",["set"],{}]  - true  + false` and `@ ["t"]  + null` -/
def exD : V1.VDiff :=
  [{ path := [.str "s", .arr .raw [.str "set"], .obj []], old := [.bool true], new := [.bool false] },
   { path := [.str "t"], old := [], new := [.null] }]

theorem ex_idents :
    V1.identOf [.set] (.bool true) ≠ V1.identOf [.set] .null ∧
    V1.identOf [.set] (.bool true) ≠ V1.identOf [.set] (.obj [("k", .null)]) ∧
    V1.identOf [.set] (.bool true) ≠ V1.identOf [.set] (.bool false) ∧
    V1.identOf [.set] .null ≠ V1.identOf [.set] (.obj [("k", .null)]) ∧
    V1.identOf [.set] .null ≠ V1.identOf [.set] (.bool false) ∧
    V1.identOf [.set] (.obj [("k", .null)]) ≠ V1.identOf [.set] (.bool false) := by
  decide +kernel

set_option linter.unusedSimpArgs false in
/-- the library's diff of the example IS `exD` (unfolding equations + the six hash inequalities) -/
theorem ex_diffM : V1.diffM [.set] exA exB = exD := by
  obtain ⟨h1, h2, h3, h4, h5, h6⟩ := ex_idents
  have e0 : ∀ q, V1.diffNode [.set] false (.obj [("k", .null)]) (.obj [("k", .null)]) q = [] := by
    intro q
    rw [V1P.diffNode_obj_obj, V1P.diffKvs_cons, V1P.diffKvs_nil]
    simp only [alookup, if_true]
    rw [V1P.diffNode_scalar _ _ _ (fun _ _ e => by cases e) (fun _ e => by cases e)]
    simp [V1.diffCommon, V1.equals, Json.isNull, alookup]
  unfold V1.diffM
  rw [show V1.hasMerge [V1.Meta.set] = false from rfl, exA, exB,
    V1P.diffNode_obj_obj, V1P.diffKvs_cons, V1P.diffKvs_nil]
  simp only [alookup, if_true]
  rw [diffNode_set_set rfl]
  simp only [diffSetElems_cons, diffSetElems_nil, List.map_cons, List.map_nil]
  simp [V1.identLookup, h1, h2, h3, h4, h5, h6, h1.symm, h2.symm, h3.symm, h4.symm, h5.symm, h6.symm,
    setAdd, ksort, kinsert, hsort, hinsert, hdedup, exD, appendIndex_eq, metaItems,
    V1.hasSet, V1.hasMset, V1.keysOf, Json.nodeList, Json.isVoid, alookup]
  split <;> simp [e0, subOf] <;> rfl

/-- the rendered text (evaluated by the kernel) -/
theorem exD_render : V1.renderM exCodec false (V1.liftDiff exD) =
    .ok (some "@ [\"s\",[\"set\"],{}]\n- true\n+ false\n@ [\"t\"]\n+ null\n") := by
  rfl

set_option linter.unusedSimpArgs false in
/-- the codec contract is satisfiable: it holds for the example -/
theorem exD_codecOK : CodecOK exCodec exD := by
  intro h hh
  simp only [exD, List.mem_cons, List.not_mem_nil, or_false] at hh
  rcases hh with rfl | rfl
  · refine ⟨?_, ?_⟩
    · intro t ht
      have : t = "[\"s\",[\"set\"],{}]" := by
        simpa [V1.rawNormList, V1.rawNorm, V1.rawNormKvs, jsonText, jsonTextList, jsonTextKvs,
          quoteString, escapeBody, escapeChar, eq_comm] using ht
      subst this
      refine ⟨by simp, ?_⟩
      simp [readJsonM, trimGoSpace, parseJson, parseValue, skipWs, isJsonWs, parseElems, lexString,
        parseMembers, V1.rawNormList, V1.rawNorm, V1.rawNormKvs]
    · intro v hv hnv
      simp only [List.cons_append, List.nil_append, List.mem_cons, List.not_mem_nil, or_false] at hv
      rcases hv with rfl | rfl
      all_goals
        intro t ht
        simp [V1.marshalNode, jsonText] at ht
        subst ht
        refine ⟨by simp, ?_⟩
        simp [readJsonM, trimGoSpace, parseJson, parseValue, skipWs, isJsonWs, untag]
  · refine ⟨?_, ?_⟩
    · intro t ht
      have : t = "[\"t\"]" := by
        simpa [V1.rawNormList, V1.rawNorm, jsonText, jsonTextList, quoteString, escapeBody,
          escapeChar, eq_comm] using ht
      subst this
      refine ⟨by simp, ?_⟩
      simp [readJsonM, trimGoSpace, parseJson, parseValue, skipWs, isJsonWs, parseElems, lexString,
        V1.rawNormList, V1.rawNorm]
    · intro v hv hnv
      simp only [List.cons_append, List.nil_append, List.mem_cons, List.not_mem_nil, or_false] at hv
      subst hv
      intro t ht
      simp [V1.marshalNode, jsonText] at ht
      subst ht
      refine ⟨by simp, ?_⟩
      simp [readJsonM, trimGoSpace, parseJson, parseValue, skipWs, isJsonWs, untag]

/-- (3a) instantiated: the text of the example read back -/
example : V1.readDiffM exCodec "@ [\"s\",[\"set\"],{}]\n- true\n+ false\n@ [\"t\"]\n+ null\n" =
    .ok (normDiff exD) :=
  v1_read_render exCodec exD _ (by decide) exD_codecOK exD_render

/-- **the whole of C17 on the example, SET reading, through the text**: the diff is rendered, read
    back (giving the diff itself), and patching `exA` with it yields a document that `Equals` `exB`;
    only the IEEE-754 laws are left as assumptions -/
theorem ex_text_roundtrip (F : FloatEq0) (L : FloatLaws) :
    V1.renderM exCodec false (V1.liftDiff (V1.diffM [.set] exA exB)) =
      .ok (some "@ [\"s\",[\"set\"],{}]\n- true\n+ false\n@ [\"t\"]\n+ null\n") ∧
    V1.readDiffM exCodec "@ [\"s\",[\"set\"],{}]\n- true\n+ false\n@ [\"t\"]\n+ null\n" =
      .ok (V1.diffM [.set] exA exB) ∧
    ∃ r, V1.patchM exA (V1.diffM [.set] exA exB) = .ok r ∧ V1.equals [.set] r exB = true ∧
      equivB [.set] r exB = true := by
  have hr : V1.renderM exCodec false (V1.liftDiff (V1.diffM [.set] exA exB)) =
      .ok (some "@ [\"s\",[\"set\"],{}]\n- true\n+ false\n@ [\"t\"]\n+ null\n") := by
    rw [ex_diffM]; exact exD_render
  exact ⟨hr, v1_text_roundtrip_setmodes F L exCodec SetMode.single.mode exA exB ex_docs.1 ex_docs.2.1
    ex_docs.2.2.1 ex_docs.2.2.2 (by decide) (by decide) rfl ex_hashFaithful_set
    (by rw [ex_diffM]; exact exD_codecOK) _ hr⟩

end Example

/-! # Part 4. MERGE hunks through the text -/

section MergeText
open Jd.Merge Jd.V1M

theorem untag_nest : ∀ (ks : List String) (v : Json), untag (nest ks v) = nest ks (untag v)
  | [], v => rfl
  | k :: rest, v => by
    simp only [nest, putKvs, untag]
    rw [← untag_nest rest v, untag_isVoid]
    split <;> simp [untagKvs, aerase, ainsert]

theorem untagKvs_putKvs (k : String) (c : Json) (kvs : List (String × Json)) :
    untagKvs (putKvs k c kvs) = putKvs k (untag c) (untagKvs kvs) := by
  unfold putKvs
  rw [untag_isVoid]
  split
  · exact untagKvs_aerase k kvs
  · exact untagKvs_ainsert k c kvs

theorem untag_getK (k : String) (kvs : List (String × Json)) :
    untag (getK k kvs) = getK k (untagKvs kvs) := by
  unfold getK
  rw [alookup_untagKvs]
  cases alookup k kvs <;> rfl

/-- a merge hunk commutes with forgetting the Go dynamic type of array nodes -/
theorem untag_mset : ∀ (ks : List String) (t v : Json),
    untag (mset t ks v) = mset (untag t) ks (untag v)
  | [], t, v => by cases t <;> simp [mset]
  | k :: rest, t, v => by
    cases t with
    | obj kvs =>
      simp only [mset, untag]
      rw [untagKvs_putKvs, untag_mset rest, untag_getK]
    | arr tg xs => simpa [mset, untag] using untag_nest (k :: rest) v
    | void => simpa [mset, untag] using untag_nest (k :: rest) v
    | null => simpa [mset, untag] using untag_nest (k :: rest) v
    | bool _ => simpa [mset, untag] using untag_nest (k :: rest) v
    | num _ => simpa [mset, untag] using untag_nest (k :: rest) v
    | str _ => simpa [mset, untag] using untag_nest (k :: rest) v

/-- a hunk entry with its value untagged -/
def untagE (e : List String × Json) : List String × Json := (e.1, untag e.2)

theorem untag_mapply : ∀ (l : List (List String × Json)) (t : Json),
    untag (mapply l t) = mapply (l.map untagE) (untag t)
  | [], t => rfl
  | e :: l, t => by
    simp only [mapply, List.foldl_cons, List.map_cons] at *
    have := untag_mapply l (mset t e.1 e.2)
    simp only [mapply] at this
    rw [this, untag_mset]
    rfl

theorem listDoc_nest : ∀ (ks : List String) {v : Json}, v.listDoc = true →
    (nest ks v).listDoc = true
  | [], _, h => h
  | k :: rest, v, h => by
    simp only [nest, putKvs, Json.listDoc]
    split
    · rfl
    · simp [ainsert, listDocKvs, listDoc_nest rest h]

theorem listDoc_mset : ∀ (ks : List String) {t v : Json}, t.listDoc = true → v.listDoc = true →
    (mset t ks v).listDoc = true
  | [], t, v, _, hv => by cases t <;> simpa [mset] using hv
  | k :: rest, t, v, ht, hv => by
    cases t with
    | obj kvs =>
      simp only [Json.listDoc] at ht
      simp only [mset, Json.listDoc, putKvs]
      have hc := listDoc_mset rest (listDoc_getK k ht) hv
      split
      · exact listDocKvs_aerase k ht
      · exact listDocKvs_ainsert k hc ht
    | arr tg xs => simpa [mset] using listDoc_nest (k :: rest) hv
    | void => simpa [mset] using listDoc_nest (k :: rest) hv
    | null => simpa [mset] using listDoc_nest (k :: rest) hv
    | bool _ => simpa [mset] using listDoc_nest (k :: rest) hv
    | num _ => simpa [mset] using listDoc_nest (k :: rest) hv
    | str _ => simpa [mset] using listDoc_nest (k :: rest) hv

theorem listDoc_mapply : ∀ (l : List (List String × Json)) {t : Json}, t.listDoc = true →
    (∀ e ∈ l, e.2.listDoc = true) → (mapply l t).listDoc = true
  | [], _, ht, _ => ht
  | e :: l, t, ht, hl => by
    simp only [mapply, List.foldl_cons]
    exact listDoc_mapply l (listDoc_mset e.1 ht (hl e List.mem_cons_self))
      (fun e' he' => hl e' (List.mem_cons_of_mem _ he'))

theorem rendersMerge_vh (ks : List String) :
    rendersMerge (V1.mergeMetaElem :: ks.map Json.str) = true := by
  cases ks <;>
    simp [rendersMerge, V1.pathRendersMerge, V1.liftPath, V1.pathNext, V1.pathNextAux,
      V1.mergeMetaElem, V1.metaOfItems, V1.hasMerge]

theorem rawNormList_strs : ∀ ks : List String,
    V1.rawNormList (ks.map Json.str) = ks.map Json.str
  | [] => rfl
  | k :: r => by simp [V1.rawNormList, V1.rawNorm, rawNormList_strs r]

/-- what reading back does to a v1 merge hunk: the value is untagged -/
theorem normHunk_vh (ks : List String) (v : Json) : normHunk (vh ks v) = vh ks (untag v) := by
  have h2 : newVals (vh ks v) = [v] := by simp only [newVals, vh, rendersMerge_vh, if_true]
  have h1 : oldVals (vh ks v) = [] := rfl
  have h3 : V1.rawNormList (vh ks v).path = (vh ks v).path := by
    simp [vh, V1.rawNormList, V1.rawNorm, V1.mergeMetaElem, rawNormList_strs]
  simp only [normHunk, h1, h2, h3]
  rfl

theorem metaOK_strs : ∀ ks : List String, metaOK (ks.map Json.str) = true
  | [] => rfl
  | k :: r => by simp [metaOK, metaOK_strs r]

theorem wfHunk_vh (ks : List String) (v : Json) : wfHunk (vh ks v) = true := by
  have h1 : metaOK (vh ks v).path = true := by
    simp [vh, V1.mergeMetaElem, metaOK, metaOK_strs, Json.isVoid]
  have h2 : newVals (vh ks v) = [v] := by simp only [newVals, vh, rendersMerge_vh, if_true]
  simp only [wfHunk, h1, h2, normHunk_vh, Bool.true_and, List.isEmpty_cons, Bool.and_false,
    Bool.not_false]
  simp [V1.checkHunk, vh]

/-- **C17, MERGE reading, through the text** (`Render`, then `ReadDiffString`): the rendered v1
    merge diff is read back as the diff with its values untagged (a replaced array comes back as a
    plain `jsonArray`), and patching `a` with the diff read back yields a document that `Equals` `b`.
    Relative to the codec contract `CodecOK` on the paths and values of the diff. -/
theorem v1_text_roundtrip_merge (L : FloatLaws) (nc : NumCodec) {m : V1.Metas} (hm : MergeMode m)
    (a b : Json) (haw : a.wf = true) (har : a.rawDoc = true)
    (hbw : b.wf = true) (hbr : b.rawDoc = true) (hbv : objVoidFree b = true)
    (hbf : b.finiteNums = true)
    (hc : CodecOK nc (V1.diffM m a b)) (text : String)
    (hr : V1.renderM nc false (V1.liftDiff (V1.diffM m a b)) = .ok (some text)) :
    ∃ d' r, V1.readDiffM nc text = .ok d' ∧ V1.patchM a d' = .ok r ∧ V1.equals m r b = true ∧
      specEq r b = true ∧ r.listDoc = true := by
  have G : GoodC b := ⟨hbw, hbr, hbv, hbf⟩
  have hd := diffM_eq_dl hm a b har haw G.listDoc hbw hbv
  obtain ⟨h1, h2⟩ := direct L a haw har b G
  have hrd : V1.readDiffM nc text = .ok (normDiff (V1.diffM m a b)) := by
    apply v1_read_render nc _ text _ hc hr
    intro h hh
    rw [hd] at hh
    obtain ⟨e, _, rfl⟩ := List.mem_map.1 hh
    exact wfHunk_vh e.1 e.2
  have hnd : normDiff (V1.diffM m a b) =
      ((dl [] a b).map untagE).map (fun e => vh e.1 e.2) := by
    rw [hd, normDiff, List.map_map, List.map_map]
    apply List.map_congr_left
    intro e _
    simp [normHunk_vh, untagE]
  have hu : untag (mapply ((dl [] a b).map untagE) a) = untag (mapply (dl [] a b) a) := by
    rw [untag_mapply, untag_mapply, List.map_map]
    congr 1
    apply List.map_congr_left
    intro e _
    simp [untagE, untag_idem]
  have hl : (mapply ((dl [] a b).map untagE) a).listDoc = true := by
    apply listDoc_mapply _ (rawDoc_listDoc a har)
    intro e he
    obtain ⟨e0, _, rfl⟩ := List.mem_map.1 he
    exact untag_listDoc e0.2
  have hs : specEq (mapply ((dl [] a b).map untagE) a) b = true := by
    rw [← specEq_untag_left, hu, specEq_untag_left]; exact h1
  refine ⟨_, mapply ((dl [] a b).map untagE) a, hrd, ?_, ?_, hs, hl⟩
  · rw [hnd, patchM_vh]
  · rw [equals_eq_specEq hm hl G.listDoc]; exact hs

end MergeText

/-! # Part 5. LIST mode through the text: the strict v1 patch commutes with `untag` -/

section Sim
open Jd.V1P (plain HOK ap shift okTag)

/-- two list documents that differ at most in the Go dynamic type of array nodes -/
def Rl (r r' : Json) : Prop := untag r = untag r' ∧ r.listDoc = true ∧ r'.listDoc = true

/-- two outcomes of the same kind with related results -/
def RelO : Outcome Json → Outcome Json → Prop
  | .ok r, .ok r' => Rl r r'
  | .err, .err => True
  | .panic, .panic => True
  | _, _ => False

theorem RelO.bind {x x' : Outcome Json} {f f' : Json → Outcome Json} (h : RelO x x')
    (hf : ∀ r r', Rl r r' → RelO (f r) (f' r')) : RelO (x >>= f) (x' >>= f') := by
  cases x <;> cases x' <;> simp only [RelO] at h <;> first | exact hf _ _ h | trivial

theorem Rl.void : Rl .void .void := ⟨rfl, rfl, rfl⟩

theorem Rl.isVoid {r r' : Json} (h : Rl r r') : r.isVoid = r'.isVoid := by
  rw [← untag_isVoid r, h.1, untag_isVoid]

/-- the metadata-free `Equals` of the patch code does not see the tags of list documents -/
theorem Rl.equals {n n' o o' : Json} (h : Rl n n') (g : Rl o o') :
    V1.equals [] n o = V1.equals [] n' o' := by
  rw [V1P.v1_equals_eq_specEq V1P.ListMode.nil h.2.1 g.2.1,
    V1P.v1_equals_eq_specEq V1P.ListMode.nil h.2.2 g.2.2,
    ← specEq_untag_left, ← specEq_untag_right, h.1, g.1, specEq_untag_left, specEq_untag_right]

/-- related value lists (at most one value each in the strict patch) -/
def RV (l l' : List Json) : Prop :=
  l'.map untag = l.map untag ∧ listDocList l = true ∧ listDocList l' = true

theorem RV.length {l l' : List Json} (h : RV l l') : l'.length = l.length := by
  simpa using congrArg List.length h.1

theorem RV.single {l l' : List Json} (h : RV l l') :
    Rl (Json.singleValue l) (Json.singleValue l') := by
  obtain ⟨h1, h2, h3⟩ := h
  cases l with
  | nil =>
    cases l' with
    | nil => exact Rl.void
    | cons _ _ => simp at h1
  | cons x r =>
    cases l' with
    | nil => simp at h1
    | cons x' r' =>
      simp only [List.map_cons, List.cons.injEq] at h1
      simp only [listDocList, Bool.and_eq_true] at h2 h3
      exact ⟨h1.1.symm, h2.1, h3.1⟩

theorem listDocList_of_mem : ∀ {l : List Json}, (∀ x ∈ l, x.listDoc = true) → listDocList l = true
  | [], _ => rfl
  | x :: r, h => by
    simp only [listDocList, Bool.and_eq_true]
    exact ⟨h x List.mem_cons_self, listDocList_of_mem (fun y hy => h y (List.mem_cons_of_mem _ hy))⟩

theorem listDocList_mem : ∀ {l : List Json} {v : Json}, listDocList l = true → v ∈ l →
    v.listDoc = true
  | [], _, _, hv => by cases hv
  | x :: r, v, h, hv => by
    simp only [listDocList, Bool.and_eq_true] at h
    rcases List.mem_cons.1 hv with rfl | hv
    · exact h.1
    · exact listDocList_mem h.2 hv

/-- related element lists -/
def RL (xs xs' : List Json) : Prop :=
  xs.map untag = xs'.map untag ∧ listDocList xs = true ∧ listDocList xs' = true

theorem RL.length {xs xs' : List Json} (h : RL xs xs') : xs'.length = xs.length := by
  simpa using (congrArg List.length h.1).symm

theorem RL.arr {xs xs' : List Json} (h : RL xs xs') : Rl (.arr .list xs) (.arr .list xs') := by
  refine ⟨?_, by simp [Json.listDoc, h.2.1], by simp [Json.listDoc, h.2.2]⟩
  simp only [untag, untagList_eq_map, h.1]

theorem RL.get {xs xs' : List Json} (h : RL xs xs') {k : Nat} {x : Json} (hx : xs[k]? = some x) :
    ∃ x', xs'[k]? = some x' ∧ Rl x x' := by
  have hk := V1P.lt_of_getElem? hx
  have hk' : k < xs'.length := by rw [h.length]; exact hk
  refine ⟨xs'[k], List.getElem?_eq_getElem hk', ?_, ?_, ?_⟩
  · have := congrArg (fun l => l[k]?) h.1
    simp only [List.getElem?_map, hx, List.getElem?_eq_getElem hk', Option.map_some,
      Option.some.injEq] at this
    exact this
  · exact listDocList_mem h.2.1 (List.mem_of_getElem? hx)
  · exact listDocList_mem h.2.2 (List.getElem_mem hk')

theorem map_eraseIdx' {α β} (f : α → β) (l : List α) (k : Nat) :
    (l.eraseIdx k).map f = (l.map f).eraseIdx k := by
  rw [List.eraseIdx_eq_take_drop_succ, List.eraseIdx_eq_take_drop_succ]
  simp [List.map_take, List.map_drop]

theorem RL.eraseIdx {xs xs' : List Json} (h : RL xs xs') (k : Nat) :
    RL (xs.eraseIdx k) (xs'.eraseIdx k) := by
  refine ⟨?_, ?_, ?_⟩
  · rw [map_eraseIdx', map_eraseIdx', h.1]
  · exact listDocList_of_mem (fun x hx => listDocList_mem h.2.1 (List.mem_of_mem_eraseIdx hx))
  · exact listDocList_of_mem (fun x hx => listDocList_mem h.2.2 (List.mem_of_mem_eraseIdx hx))

theorem RL.set {xs xs' : List Json} (h : RL xs xs') (k : Nat) {r r' : Json} (hr : Rl r r') :
    RL (xs.set k r) (xs'.set k r') := by
  refine ⟨?_, ?_, ?_⟩
  · rw [List.map_set, List.map_set, h.1, hr.1]
  · apply listDocList_of_mem
    intro x hx
    rcases List.mem_or_eq_of_mem_set hx with hx | rfl
    · exact listDocList_mem h.2.1 hx
    · exact hr.2.1
  · apply listDocList_of_mem
    intro x hx
    rcases List.mem_or_eq_of_mem_set hx with hx | rfl
    · exact listDocList_mem h.2.2 hx
    · exact hr.2.2

theorem RL.snoc {xs xs' : List Json} (h : RL xs xs') {r r' : Json} (hr : Rl r r') :
    RL (xs ++ [r]) (xs' ++ [r']) := by
  refine ⟨by simp [h.1, hr.1], ?_, ?_⟩
  · apply listDocList_of_mem
    intro x hx
    rcases List.mem_append.1 hx with hx | hx
    · exact listDocList_mem h.2.1 hx
    · simp only [List.mem_singleton] at hx; subst hx; exact hr.2.1
  · apply listDocList_of_mem
    intro x hx
    rcases List.mem_append.1 hx with hx | hx
    · exact listDocList_mem h.2.2 hx
    · simp only [List.mem_singleton] at hx; subst hx; exact hr.2.2

theorem RL.insert {xs xs' : List Json} (h : RL xs xs') (k : Nat) {r r' : Json} (hr : Rl r r') :
    RL (xs.take k ++ r :: xs.drop k) (xs'.take k ++ r' :: xs'.drop k) := by
  refine ⟨?_, ?_, ?_⟩
  · simp only [List.map_append, List.map_cons, List.map_take, List.map_drop, h.1, hr.1]
  · apply listDocList_of_mem
    intro x hx
    simp only [List.mem_append, List.mem_cons] at hx
    rcases hx with hx | rfl | hx
    · exact listDocList_mem h.2.1 (List.mem_of_mem_take hx)
    · exact hr.2.1
    · exact listDocList_mem h.2.1 (List.mem_of_mem_drop hx)
  · apply listDocList_of_mem
    intro x hx
    simp only [List.mem_append, List.mem_cons] at hx
    rcases hx with hx | rfl | hx
    · exact listDocList_mem h.2.2 (List.mem_of_mem_take hx)
    · exact hr.2.2
    · exact listDocList_mem h.2.2 (List.mem_of_mem_drop hx)

end Sim

section Sim2
open Jd.V1P (plain HOK ap shift okTag)

/-- the list case of `jsonList.patch` on a numeric path element, as a function of the two possible
    child computations (`C1`: the element at the index, `C2`: nothing there) -/
def listE (xs : List Json) (i : Int) (re : Bool) (oldV newV : Json) (C1 C2 : Outcome Json) :
    Outcome Json :=
  let len : Int := xs.length
  if newV.isVoid then
    if i < 0 then .panic
    else do
      let r ← (if len > i then C1 else C2)
      if i ≥ len then .err
      else if re then pure (.arr .list (xs.eraseIdx i.toNat))
      else pure (.arr .list (xs.set i.toNat r))
  else if oldV.isVoid then
    if len > i && !re && i < 0 then .panic
    else do
      let r ← (if len > i && !re then C1 else C2)
      if i < 0 || i > len then .err
      else if i == len then pure (.arr .list (xs ++ [r]))
      else if re then pure (.arr .list (xs.take i.toNat ++ r :: xs.drop i.toNat))
      else pure (.arr .list (xs.set i.toNat r))
  else
    if i < 0 then .panic
    else do
      let r ← (if len > i then C1 else C2)
      let l ← setAtP xs i r
      pure (.arr .list l)

/-- the index a numeric path element denotes in a list of the given length -/
def idxOf (bits : UInt64) (len : Nat) : Int :=
  if V1.floatToInt bits == -1 then (len : Int) else V1.floatToInt bits

theorem patchNode_list_eq {t : Tag} (ht : okTag t) (xs : List Json) (bits : UInt64)
    (rest : V1.PPath) (old new : List Json) (h1 : old.length ≤ 1) (h2 : new.length ≤ 1) :
    V1.patchNode false (.arr t xs) (.node (.num bits) :: rest) old new =
      listE xs (idxOf bits xs.length) rest.isEmpty (Json.singleValue old) (Json.singleValue new)
        (V1.patchListChild (idxOf bits xs.length).toNat rest old new xs)
        (V1.patchCommon false .void rest old new) :=
  V1P.patchNode_list ht xs bits rest old new h1 h2 _ rfl

theorem relO_ok {r r' : Json} (h : Rl r r') : RelO (pure r) (pure r') := h

theorem listE_sim {xs xs' : List Json} (h : RL xs xs') (i : Int) (re : Bool)
    {oldV oldV' newV newV' : Json} (ho : Rl oldV oldV') (hn : Rl newV newV')
    {C1 C1' C2 C2' : Outcome Json}
    (h1 : 0 ≤ i → i < (xs.length : Int) → RelO C1 C1') (h2 : RelO C2 C2') :
    RelO (listE xs i re oldV newV C1 C2) (listE xs' i re oldV' newV' C1' C2') := by
  unfold listE
  simp only [h.length, ← ho.isVoid, ← hn.isVoid]
  by_cases hnv : newV.isVoid = true
  · simp only [hnv, if_true]
    by_cases hi : i < 0
    · simp only [hi, if_true]; trivial
    · simp only [hi, if_false]
      by_cases hl : (xs.length : Int) > i
      · simp only [hl, if_true]
        apply RelO.bind (h1 (by omega) (by omega))
        intro r r' hr
        have hge : ¬ i ≥ (xs.length : Int) := by omega
        simp only [hge, if_false]
        cases re
        · exact relO_ok (h.set _ hr).arr
        · exact relO_ok (h.eraseIdx _).arr
      · simp only [hl, if_false]
        apply RelO.bind h2
        intro r r' _
        have hge : i ≥ (xs.length : Int) := by omega
        simp only [hge, if_true]; trivial
  · simp only [hnv, Bool.false_eq_true, if_false]
    by_cases hov : oldV.isVoid = true
    · simp only [hov, if_true]
      by_cases hc : ((decide ((xs.length : Int) > i) && !re) = true)
      · by_cases hi : i < 0
        · simp only [hc, hi, decide_true, Bool.and_self, if_true]; trivial
        · have hl : (xs.length : Int) > i := by
            simp only [Bool.and_eq_true, decide_eq_true_eq] at hc; exact hc.1
          have hre : re = false := by
            simp only [Bool.and_eq_true, Bool.not_eq_true'] at hc; exact hc.2
          simp only [hc, hi, decide_false, Bool.and_false, Bool.false_eq_true, if_false, if_true]
          apply RelO.bind (h1 (by omega) hl)
          intro r r' hr
          have e1 : ¬ i > (xs.length : Int) := by omega
          have e2 : (i == (xs.length : Int)) = false := by
            simp only [beq_eq_false_iff_ne, ne_eq]; omega
          simp only [e1, decide_false, Bool.or_self, Bool.false_eq_true, if_false, e2, hre]
          exact relO_ok (h.set _ hr).arr
      · have hc' : (decide ((xs.length : Int) > i) && !re) = false := by
          cases hh : (decide ((xs.length : Int) > i) && !re) <;> simp_all
        simp only [hc', Bool.false_and, Bool.false_eq_true, if_false]
        apply RelO.bind h2
        intro r r' hr
        by_cases hbad : (decide (i < 0) || decide (i > (xs.length : Int))) = true
        · simp only [hbad, if_true]; trivial
        · simp only [hbad]
          by_cases he : (i == (xs.length : Int)) = true
          · simp only [he, if_true]
            exact relO_ok (h.snoc hr).arr
          · simp only [he]
            cases re
            · exact relO_ok (h.set _ hr).arr
            · exact relO_ok (h.insert _ hr).arr
    · simp only [hov, Bool.false_eq_true, if_false]
      by_cases hi : i < 0
      · simp only [hi, if_true]; trivial
      · simp only [hi, if_false]
        have key : ∀ {c c' : Outcome Json}, RelO c c' →
            RelO (c >>= fun r => setAtP xs i r >>= fun l => pure (Json.arr .list l))
              (c' >>= fun r => setAtP xs' i r >>= fun l => pure (Json.arr .list l)) := by
          intro c c' hc
          apply RelO.bind hc
          intro r r' hr
          unfold setAtP
          simp only [h.length]
          by_cases hb : (decide (i < 0) || decide (i.toNat ≥ xs.length)) = true
          · simp only [hb, if_true]; trivial
          · simp only [hb]
            exact relO_ok (h.set _ hr).arr
        by_cases hl : (xs.length : Int) > i
        · simp only [hl, if_true]
          exact key (h1 (by omega) hl)
        · simp only [hl, if_false]
          exact key h2

end Sim2

section Sim3
open Jd.V1P (plain HOK ap shift okTag)

theorem Rl.obj_inv {kvs : List (String × Json)} {n' : Json} (h : Rl (.obj kvs) n') :
    ∃ kvs', n' = .obj kvs' ∧ untagKvs kvs = untagKvs kvs' ∧ listDocKvs kvs = true ∧
      listDocKvs kvs' = true := by
  obtain ⟨h1, h2, h3⟩ := h
  cases n' with
  | obj kvs' =>
    simp only [untag, Json.obj.injEq] at h1
    exact ⟨kvs', rfl, h1, by simpa [Json.listDoc] using h2, by simpa [Json.listDoc] using h3⟩
  | _ => simp [untag] at h1

theorem Rl.arr_inv {t : Tag} {xs : List Json} {n' : Json} (h : Rl (.arr t xs) n') :
    ∃ t' xs', n' = .arr t' xs' ∧ okTag t ∧ okTag t' ∧ RL xs xs' := by
  obtain ⟨h1, h2, h3⟩ := h
  cases n' with
  | arr t' xs' =>
    simp only [untag, Json.arr.injEq, true_and, untagList_eq_map] at h1
    simp only [Json.listDoc, Bool.and_eq_true] at h2 h3
    exact ⟨t', xs', rfl, h2.1, h3.1, h1, h2.2, h3.2⟩
  | _ => simp [untag] at h1

theorem Rl.scalar_inv {n n' : Json} (h : Rl n n') (h1 : ∀ t xs, n ≠ .arr t xs)
    (h2 : ∀ kvs, n ≠ .obj kvs) : n' = n := by
  have := h.1
  cases n <;> cases n' <;> simp_all [untag]

/-- a key path element on anything but an object: the strict patch fails -/
theorem patchNode_str_nonobj (n : Json) (hn : ∀ kvs, n ≠ .obj kvs) (k : String) (rest : V1.PPath)
    (old new : List Json) :
    V1.patchNode false n (.node (.str k) :: rest) old new = .err := by
  cases n with
  | obj kvs => exact absurd rfl (hn kvs)
  | arr t xs =>
    rw [V1.patchNode.eq_def]
    simp only [V1.pathNext, V1.pathNextAux, V1.effTag, V1.dispatchTag, V1.hasSet, V1.hasMset]
    cases t <;> simp [V1.pathIsLeaf, V1.asIndexBits]
  | _ =>
    rw [V1.patchNode.eq_def]
    simp only []
    rw [V1.patchCommon.eq_def]
    simp [V1.pathIsLeaf]

/-- a numeric path element on anything but a list: the strict patch fails -/
theorem patchNode_num_nonarr (n : Json) (hn : ∀ t xs, n ≠ .arr t xs) (b : UInt64)
    (rest : V1.PPath) (old new : List Json) :
    V1.patchNode false n (.node (.num b) :: rest) old new = .err := by
  cases n with
  | arr t xs => exact absurd rfl (hn t xs)
  | obj kvs =>
    rw [V1.patchNode.eq_def]
    simp [V1.pathNext, V1.pathNextAux, V1.pathIsLeaf, V1.asKey]
  | _ =>
    rw [V1.patchNode.eq_def]
    simp only []
    rw [V1.patchCommon.eq_def]
    simp [V1.pathIsLeaf]

theorem listDocKvs_aput (k : String) {v : Json} (hv : v.listDoc = true)
    {kvs : List (String × Json)} (h : listDocKvs kvs = true) :
    listDocKvs (DPL.aput k v kvs) = true := by
  unfold DPL.aput
  split
  · exact V1M.listDocKvs_aerase k h
  · exact V1M.listDocKvs_ainsert k hv h

theorem untagKvs_aput (k : String) (v : Json) (kvs : List (String × Json)) :
    untagKvs (DPL.aput k v kvs) = DPL.aput k (untag v) (untagKvs kvs) := by
  unfold DPL.aput
  rw [untag_isVoid]
  split
  · exact untagKvs_aerase k kvs
  · exact untagKvs_ainsert k v kvs

theorem Rl.lookup {kvs kvs' : List (String × Json)} (h : untagKvs kvs = untagKvs kvs')
    (h2 : listDocKvs kvs = true) (h3 : listDocKvs kvs' = true) (k : String) :
    Rl ((alookup k kvs).getD .void) ((alookup k kvs').getD .void) := by
  have e := alookup_untagKvs k kvs
  rw [h, alookup_untagKvs] at e
  cases hl : alookup k kvs with
  | none =>
    cases hl' : alookup k kvs' with
    | none => exact Rl.void
    | some v' => rw [hl, hl'] at e; simp at e
  | some v =>
    cases hl' : alookup k kvs' with
    | none => rw [hl, hl'] at e; simp at e
    | some v' =>
      rw [hl, hl'] at e
      simp only [Option.map_some, Option.some.injEq] at e
      exact ⟨e.symm, alookup_listDoc hl h2, alookup_listDoc hl' h3⟩

/-- **the strict v1 patch on key / index paths commutes with `untag`**: on list documents that
    differ at most in array tags, with values that differ at most in array tags, the outcomes are of
    the same kind and the results again differ at most in array tags -/
theorem sim_patchNode : ∀ (p : List Json), plain p = true → ∀ (n n' : Json)
    (old new old' new' : List Json), Rl n n' → old.length ≤ 1 → new.length ≤ 1 →
    RV old old' → RV new new' →
    RelO (V1.patchNode false n (V1.liftPath p) old new)
      (V1.patchNode false n' (V1.liftPath p) old' new')
  | [], _, n, n', old, new, old', new', hn, h1, h2, ho, hw => by
    have h1' : old'.length ≤ 1 := by rw [ho.length]; exact h1
    have h2' : new'.length ≤ 1 := by rw [hw.length]; exact h2
    simp only [V1.liftPath, List.map_nil]
    rw [V1P.patchNode_root n old new hn.2.1 h1 h2, V1P.patchNode_root n' old' new' hn.2.2 h1' h2',
      ← hn.equals ho.single]
    split
    · exact hw.single
    · trivial
  | .str k :: rest, hp, n, n', old, new, old', new', hn, h1, h2, ho, hw => by
    have hp' : plain rest = true := by simpa [plain] using hp
    by_cases hobj : ∃ kvs, n = .obj kvs
    · obtain ⟨kvs, rfl⟩ := hobj
      obtain ⟨kvs', rfl, e, l1, l2⟩ := hn.obj_inv
      have ih := sim_patchNode rest hp' _ _ old new old' new' (Rl.lookup e l1 l2 k) h1 h2 ho hw
      have a1 := V1P.ap_key kvs k { path := rest, old := old, new := new }
      have a2 := V1P.ap_key kvs' k { path := rest, old := old', new := new' }
      simp only [ap, shift, List.cons_append, List.nil_append] at a1 a2
      rw [a1, a2]
      apply RelO.bind ih
      intro r r' hr
      refine ⟨?_, ?_, ?_⟩
      · simp only [untag, untagKvs_aput, e, hr.1]
      · simpa [Json.listDoc] using listDocKvs_aput k hr.2.1 l1
      · simpa [Json.listDoc] using listDocKvs_aput k hr.2.2 l2
    · have hno : ∀ kvs, n ≠ .obj kvs := fun kvs e => hobj ⟨kvs, e⟩
      have hno' : ∀ kvs, n' ≠ .obj kvs := by
        intro kvs e
        subst e
        have := hn.1
        cases n <;> simp [untag] at this
        exact hno _ rfl
      simp only [V1.liftPath, List.map_cons]
      rw [patchNode_str_nonobj n hno, patchNode_str_nonobj n' hno']
      trivial
  | .num b :: rest, hp, n, n', old, new, old', new', hn, h1, h2, ho, hw => by
    have hp' : plain rest = true := by simpa [plain] using hp
    have h1' : old'.length ≤ 1 := by rw [ho.length]; exact h1
    have h2' : new'.length ≤ 1 := by rw [hw.length]; exact h2
    by_cases harr : ∃ t xs, n = .arr t xs
    · obtain ⟨t, xs, rfl⟩ := harr
      obtain ⟨t', xs', rfl, ht, ht', hx⟩ := hn.arr_inv
      simp only [V1.liftPath, List.map_cons]
      rw [patchNode_list_eq ht xs b _ old new h1 h2, patchNode_list_eq ht' xs' b _ old' new' h1' h2',
        hx.length]
      apply listE_sim hx _ _ ho.single hw.single
      · intro hi0 hil
        have hk : (idxOf b xs.length).toNat < xs.length := by omega
        have hx1 : xs[(idxOf b xs.length).toNat]? = some xs[(idxOf b xs.length).toNat] :=
          List.getElem?_eq_getElem hk
        obtain ⟨x', hx2, hr⟩ := hx.get hx1
        rw [V1P.patchListChild_eq _ _ _ xs _ _ hx1, V1P.patchListChild_eq _ _ _ xs' _ _ hx2]
        exact sim_patchNode rest hp' _ _ old new old' new' hr h1 h2 ho hw
      · rw [← V1P.patchNode_void, ← V1P.patchNode_void]
        exact sim_patchNode rest hp' _ _ old new old' new' Rl.void h1 h2 ho hw
    · have hno : ∀ t xs, n ≠ .arr t xs := fun t xs e => harr ⟨t, xs, e⟩
      have hno' : ∀ t xs, n' ≠ .arr t xs := by
        intro t xs e
        subst e
        have := hn.1
        cases n <;> simp [untag] at this
        exact hno _ _ rfl
      simp only [V1.liftPath, List.map_cons]
      rw [patchNode_num_nonarr n hno, patchNode_num_nonarr n' hno']
      trivial
  | .void :: _, hp, _, _, _, _, _, _, _, _, _, _, _ => by simp [plain] at hp
  | .null :: _, hp, _, _, _, _, _, _, _, _, _, _, _ => by simp [plain] at hp
  | .bool _ :: _, hp, _, _, _, _, _, _, _, _, _, _, _ => by simp [plain] at hp
  | .arr _ _ :: _, hp, _, _, _, _, _, _, _, _, _, _, _ => by simp [plain] at hp
  | .obj _ :: _, hp, _, _, _, _, _, _, _, _, _, _, _ => by simp [plain] at hp

end Sim3

section ListText
open Jd.V1P (plain HOK ap shift okTag vfree vfreeList vfreeKvs ListMode IdxLaws lenLe)

/-- the values of a hunk: list documents, none void, at least one -/
structure VH (h : V1.Hunk) : Prop where
  old : listDocList h.old = true
  new : listDocList h.new = true
  oldv : ∀ v ∈ h.old, v.isVoid = false
  newv : ∀ v ∈ h.new, v.isVoid = false
  ne : ¬ (h.old = [] ∧ h.new = [])

theorem VH.shift {h : V1.Hunk} (g : VH h) (p : List Json) : VH (shift p h) :=
  ⟨g.old, g.new, g.oldv, g.newv, g.ne⟩

theorem nodeList_listDoc {x : Json} (h : x.listDoc = true) : listDocList x.nodeList = true := by
  unfold Json.nodeList; split <;> simp [listDocList, h]

theorem vh_root {a b : Json} (ha : a.listDoc = true) (hb : b.listDoc = true)
    (hne : ¬ (a.isVoid = true ∧ b.isVoid = true)) (p : List Json) :
    VH { path := p, old := a.nodeList, new := b.nodeList } where
  old := nodeList_listDoc ha
  new := nodeList_listDoc hb
  oldv := nodeList_nonvoid a
  newv := nodeList_nonvoid b
  ne := by
    rintro ⟨h1, h2⟩
    apply hne
    simp only [Json.nodeList] at h1 h2
    constructor
    · by_cases e : a.isVoid = true
      · exact e
      · simp [e] at h1
    · by_cases e : b.isVoid = true
      · exact e
      · simp [e] at h2

theorem vfree_dispatch (m : V1.Metas) (y : Json) : vfree (V1.dispatch m y) = vfree y := by
  cases y with
  | arr t ys => cases t <;> simp [V1.dispatch, vfree]
  | _ => rfl

/-- the values of the hunks of a list-mode diff -/
theorem diff_vals (m : V1.Metas) (hm : ListMode m) :
    (∀ a b, a.listDoc = true → b.listDoc = true → vfree a = true → vfree b = true →
      b.isVoid = false → ∀ h ∈ V1.diffNode m false a b [], VH h) ∧
    (∀ kvs' kvs, listDocKvs kvs' = true → listDocKvs kvs = true → vfreeKvs kvs' = true →
      vfreeKvs kvs = true → ∀ h ∈ V1.diffKvs m false [] kvs' kvs, VH h) ∧
    (∀ ys xs, listDocList ys = true → listDocList xs = true → vfreeList ys = true →
      vfreeList xs = true → ∀ i, ∀ d ∈ V1.diffElems m false [] i ys xs, ∀ h ∈ d, VH h) := by
  have := V1P.v1_induct m hm
    (mN := fun a b => vfree a = true → vfree b = true → b.isVoid = false →
      ∀ h ∈ V1.diffNode m false a b [], VH h)
    (mK := fun kvs' kvs => vfreeKvs kvs' = true → vfreeKvs kvs = true →
      ∀ h ∈ V1.diffKvs m false [] kvs' kvs, VH h)
    (mE := fun ys xs => vfreeList ys = true → vfreeList xs = true →
      ∀ i, ∀ d ∈ V1.diffElems m false [] i ys xs, ∀ h ∈ d, VH h)
    ?_ ?_ ?_ ?_ ?_ ?_ ?_ ?_ ?_ ?_
  · exact ⟨fun a b ha hb => this.1 a b ha hb, fun kvs' kvs h' h => this.2.1 kvs' kvs h' h,
      fun ys xs h' h => this.2.2 ys xs h' h⟩
  · intro t t' xs ys ht ht' htt hlx hly ih va vb _ h hmem
    have vxs : vfreeList xs = true := by simpa [vfree] using va
    have vys : vfreeList ys = true := by simpa [vfree] using vb
    rw [V1P.diffNode_arr_arr hm xs ys ht ht' htt] at hmem
    unfold V1P.listDiff at hmem
    split at hmem
    · rcases List.mem_append.1 hmem with hmem | hmem
      · obtain ⟨d, hd, hh⟩ := List.mem_flatten.1 hmem
        exact ih vys vxs 0 d hd h hh
      · obtain ⟨y, hy, rfl⟩ := List.mem_map.1 hmem
        have hy' := List.mem_of_mem_drop hy
        have := vh_root (a := .void) (b := y) rfl (listDocList_mem hly hy')
          (by simp [(vfreeList_mem vys hy').1]) ([] ++ [V1.numNeg1])
        simpa [Json.nodeList, Json.isVoid] using this
    · rcases List.mem_append.1 hmem with hmem | hmem
      · obtain ⟨xi, hxi, rfl⟩ := List.mem_map.1 hmem
        have hx' : xi.1 ∈ xs := by
          have := List.mem_reverse.1 hxi
          exact List.mem_of_mem_drop (List.fst_mem_of_mem_zipIdx this)
        have := vh_root (a := xi.1) (b := .void) (listDocList_mem hlx hx') rfl
          (by simp [(vfreeList_mem vxs hx').1]) ([] ++ [V1.numOfNat xi.2])
        simpa [Json.nodeList, Json.isVoid] using this
      · obtain ⟨d, hd, hh⟩ := List.mem_flatten.1 hmem
        exact ih vys vxs 0 d (List.mem_reverse.1 hd) h hh
  · intro t xs b ht hlx hb hbb _ _ _ h hmem
    rw [V1P.diffNode_arr_other hm xs b ht hbb] at hmem
    simp only [List.mem_singleton] at hmem
    subst hmem
    have := vh_root (a := .arr .list xs) (b := b) (by simp [Json.listDoc, hlx]) hb
      (by simp [Json.isVoid]) []
    simpa [Json.nodeList, Json.isVoid] using this
  · intro kvs kvs' hl hl' ih va vb _ h hmem
    have vk : vfreeKvs kvs = true := by simpa [vfree] using va
    have vk' : vfreeKvs kvs' = true := by simpa [vfree] using vb
    rw [V1P.diffNode_obj_obj] at hmem
    rcases List.mem_append.1 hmem with hmem | hmem
    · exact ih vk' vk h hmem
    · obtain ⟨kv, hkv, rfl⟩ := List.mem_map.1 hmem
      have hm' := (List.mem_filter.1 hkv).1
      have hnv := (vfreeKvs_mem vk' hm').1
      have := vh_root (a := .void) (b := kv.2) rfl
        (V1M.listDoc_of_mem hl' kv.1 kv.2 hm') (by simp [hnv]) ([] ++ [.str kv.1])
      simpa [Json.nodeList, Json.isVoid] using this
  · intro kvs b hl hb hbb _ _ hbv h hmem
    rw [V1P.diffNode_obj_other m kvs b hbb] at hmem
    simp only [List.mem_singleton] at hmem
    subst hmem
    have := vh_root (a := .obj kvs) (b := b) (by simpa [Json.listDoc] using hl) hb
      (by simp [Json.isVoid]) []
    rw [V1P.nodeList_of_notVoid hbv] at this
    exact this
  · intro a b h1 h2 hb _ _ hbv h hmem
    rw [V1P.diffNode_scalar m a b h1 h2] at hmem
    unfold V1.diffCommon at hmem
    split at hmem
    · cases hmem
    · simp only [Bool.false_eq_true, if_false, List.mem_singleton] at hmem
      subst hmem
      have hal : a.listDoc = true := by
        cases a with
        | arr t xs => exact absurd rfl (h1 t xs)
        | obj kvs => exact absurd rfl (h2 kvs)
        | _ => rfl
      exact vh_root hal hb (by simp [hbv]) []
  · intro kvs' _ _ h hmem
    simp [V1P.diffKvs_nil] at hmem
  · intro kvs' k v r hl' hv hlr ihN ihK vk' vk h hmem
    simp only [vfreeKvs, Bool.and_eq_true, Bool.not_eq_true'] at vk
    rw [V1P.diffKvs_cons] at hmem
    rcases List.mem_append.1 hmem with hmem | hmem
    · cases hlk : alookup k kvs' with
      | none =>
        rw [hlk] at hmem
        simp only [List.mem_singleton] at hmem
        subst hmem
        have := vh_root (a := v) (b := .void) hv rfl (by simp [vk.1.1]) ([] ++ [.str k])
        simpa [Json.nodeList, Json.isVoid] using this
      | some v' =>
        rw [hlk] at hmem
        simp only [] at hmem
        have hv' := vfreeKvs_mem vk' (mem_of_alookup hlk)
        rw [V1P.diffNode_at hm v v' hv (alookup_listDoc hlk hl')] at hmem
        obtain ⟨h0, hh0, rfl⟩ := List.mem_map.1 hmem
        exact (ihN v' (alookup_listDoc hlk hl') vk.1.2 hv'.2 hv'.1 h0 hh0).shift _
    · exact ihK vk' vk.2 h hmem
  · intro ys _ _ i d hd
    simp [V1P.diffElems_nil] at hd
  · intro x xs _ _ i d hd
    simp [V1P.diffElems_nil'] at hd
  · intro x xs y ys hx hlx hy hly ihN ihE vys vxs i d hd h hh
    simp only [vfreeList, Bool.and_eq_true, Bool.not_eq_true'] at vys vxs
    rw [V1P.diffElems_cons] at hd
    rcases List.mem_cons.1 hd with rfl | hd
    · rw [V1P.diffNode_at hm x _ hx (V1P.dispatch_listDoc hm hy)] at hh
      obtain ⟨h0, hh0, rfl⟩ := List.mem_map.1 hh
      exact (ihN vxs.1.2 (by rw [vfree_dispatch]; exact vys.1.2)
        (by rw [V1P.dispatch_isVoid]; exact vys.1.1) h0 hh0).shift _
    · exact ihE vys.2 vxs.2 (i + 1) d hd h hh

end ListText

section ListText2
open Jd.V1P (plain HOK ap shift okTag vfree vfreeList vfreeKvs ListMode IdxLaws lenLe)

theorem rawNormList_plain : ∀ p : List Json, plain p = true → V1.rawNormList p = p
  | [], _ => rfl
  | .str _ :: r, h => by
    simp only [V1.rawNormList, V1.rawNorm]; rw [rawNormList_plain r (by simpa [plain] using h)]
  | .num _ :: r, h => by
    simp only [V1.rawNormList, V1.rawNorm]; rw [rawNormList_plain r (by simpa [plain] using h)]
  | .void :: _, h => by simp [plain] at h
  | .null :: _, h => by simp [plain] at h
  | .bool _ :: _, h => by simp [plain] at h
  | .arr _ _ :: _, h => by simp [plain] at h
  | .obj _ :: _, h => by simp [plain] at h

theorem metaOK_plain : ∀ p : List Json, plain p = true → metaOK p = true
  | [], _ => rfl
  | .str _ :: r, h => by simp only [metaOK]; exact metaOK_plain r (by simpa [plain] using h)
  | .num _ :: r, h => by simp only [metaOK]; exact metaOK_plain r (by simpa [plain] using h)
  | .void :: _, h => by simp [plain] at h
  | .null :: _, h => by simp [plain] at h
  | .bool _ :: _, h => by simp [plain] at h
  | .arr _ _ :: _, h => by simp [plain] at h
  | .obj _ :: _, h => by simp [plain] at h

theorem rendersMerge_plain : ∀ p : List Json, plain p = true → rendersMerge p = false
  | [], _ => rfl
  | .str _ :: _, _ => rfl
  | .num _ :: _, _ => rfl
  | .void :: _, h => by simp [plain] at h
  | .null :: _, h => by simp [plain] at h
  | .bool _ :: _, h => by simp [plain] at h
  | .arr _ _ :: _, h => by simp [plain] at h
  | .obj _ :: _, h => by simp [plain] at h

theorem normHunk_plain {h : V1.Hunk} (hk : HOK h) (g : VH h) :
    normHunk h = { path := h.path, old := h.old.map untag, new := h.new.map untag } := by
  have e1 : oldVals h = h.old := filter_nonvoid g.oldv
  have e2 : newVals h = h.new := by
    unfold newVals; rw [rendersMerge_plain _ hk.plain]; exact filter_nonvoid g.newv
  simp only [normHunk, e1, e2, rawNormList_plain _ hk.plain]

theorem wfHunk_plain {h : V1.Hunk} (hk : HOK h) (g : VH h) : wfHunk h = true := by
  have e1 : oldVals h = h.old := filter_nonvoid g.oldv
  have e2 : newVals h = h.new := by
    unfold newVals; rw [rendersMerge_plain _ hk.plain]; exact filter_nonvoid g.newv
  have hne := g.ne
  have hck : V1.checkHunk (normHunk h) = true := by
    rw [normHunk_plain hk g]
    unfold V1.checkHunk
    rw [if_neg]
    simp only [List.length_map, Bool.or_eq_true, decide_eq_true_eq, not_or]
    have := hk.old; have := hk.new
    omega
  simp only [wfHunk, metaOK_plain _ hk.plain, hck, e1, e2, Bool.and_true, Bool.true_and,
    Bool.not_eq_true', Bool.and_eq_false_iff, List.isEmpty_eq_false_iff]
  by_cases h1 : h.old = []
  · exact Or.inr (fun h2 => hne ⟨h1, h2⟩)
  · exact Or.inl h1

theorem listDocList_map_untag (l : List Json) : listDocList (l.map untag) = true :=
  listDocList_of_mem (fun x hx => by
    obtain ⟨y, _, rfl⟩ := List.mem_map.1 hx
    exact untag_listDoc y)

theorem rv_untag {l : List Json} (h : listDocList l = true) : RV l (l.map untag) :=
  ⟨by simp [List.map_map, untag_comp_untag], h, listDocList_map_untag l⟩

/-- a sequence of strict hunks on key / index paths applied with its values untagged -/
theorem sim_patchAll : ∀ (D : V1.VDiff), (∀ h ∈ D, HOK h ∧ VH h) → ∀ n n', Rl n n' →
    RelO (V1.patchAll n D) (V1.patchAll n' (normDiff D))
  | [], _, n, n', hn => hn
  | h :: D, hD, n, n', hn => by
    obtain ⟨hk, g⟩ := hD h List.mem_cons_self
    have hk' : HOK (normHunk h) := by
      rw [normHunk_plain hk g]
      exact ⟨hk.plain, by simpa using hk.old, by simpa using hk.new⟩
    simp only [normDiff, List.map_cons]
    rw [V1P.patchAll_cons n h D hk, V1P.patchAll_cons n' (normHunk h) _ hk']
    apply RelO.bind
    · unfold ap
      rw [normHunk_plain hk g]
      exact sim_patchNode h.path hk.plain n n' _ _ _ _ hn hk.old hk.new (rv_untag g.old)
        (rv_untag g.new)
    · intro r r' hr
      exact sim_patchAll D (fun x hx => hD x (List.mem_cons_of_mem _ hx)) r r' hr

/-- **C17, LIST reading, through the text** (`Render`, then `ReadDiffString`): the rendered v1 list
    diff is read back as the diff with its values untagged (a replaced array comes back as a plain
    `jsonArray`), and patching `a` with the diff read back yields a document that `Equals` `b`.
    Relative to the codec contract `CodecOK` on the paths (keys and float64 indices) and values of
    the diff; `b` not void (a reader never produces void). -/
theorem v1_text_roundtrip_list (L : FloatLaws) {N : Nat} (I : IdxLaws N) (nc : NumCodec)
    (m : V1.Metas) (hm : ListMode m) (a b : Json)
    (ha1 : a.listDoc = true) (ha2 : a.wf = true) (ha3 : a.finiteNums = true) (ha4 : vfree a = true)
    (ha5 : lenLe N a = true)
    (hb1 : b.listDoc = true) (hb2 : b.wf = true) (hb3 : b.finiteNums = true) (hb4 : vfree b = true)
    (hbv : b.isVoid = false)
    (hc : CodecOK nc (V1.diffM m a b)) (text : String)
    (hr : V1.renderM nc false (V1.liftDiff (V1.diffM m a b)) = .ok (some text)) :
    ∃ d' r, V1.readDiffM nc text = .ok d' ∧ V1.patchM a d' = .ok r ∧ V1.equals m r b = true ∧
      specEq r b = true := by
  have hd : V1.diffM m a b = V1.diffNode m false a b [] := by
    unfold V1.diffM; rw [hm.noMerge]
  have hH : ∀ h ∈ V1.diffM m a b, HOK h ∧ VH h := by
    intro h hh
    rw [hd] at hh
    exact ⟨((V1P.diff_hunks m hm).1 a b ha1 hb1 h hh).1,
      (diff_vals m hm).1 a b ha1 hb1 ha4 hb4 hbv h hh⟩
  have hrd := v1_read_render nc _ text (fun h hh => wfHunk_plain (hH h hh).1 (hH h hh).2) hc hr
  obtain ⟨r0, p1, _, p3, _, p5⟩ :=
    V1P.v1_diff_patch_list L I m hm a b ha1 ha2 ha3 ha4 ha5 hb1 hb2 hb3 hb4
  have hs := sim_patchAll (V1.diffM m a b) hH a a ⟨rfl, ha1, ha1⟩
  unfold V1.patchM at p1
  rw [p1] at hs
  cases hp : V1.patchAll a (normDiff (V1.diffM m a b)) with
  | ok r' =>
    rw [hp] at hs
    have hs' : Rl r0 r' := hs
    have hsp : specEq r' b = true := by
      rw [← specEq_untag_left, ← hs'.1, specEq_untag_left]; exact p3
    refine ⟨_, r', hrd, hp, ?_, hsp⟩
    rw [V1P.v1_equals_eq_specEq hm hs'.2.2 hb1]; exact hsp
  | err => rw [hp] at hs; exact absurd hs (by simp [RelO])
  | panic => rw [hp] at hs; exact absurd hs (by simp [RelO])

end ListText2

/-! # Part 6. non-vacuity of the list-mode and merge-mode text theorems -/

namespace Example
open Jd.NativeRT (exCodec)

/-- the document hypotheses of `v1_text_roundtrip_list` hold for the pair of JdProofs.V1ListDiffPatch
    (the codec contract and the rendered text stay hypotheses: they depend on the number codec) -/
example (L : FloatLaws) (I : V1P.IdxLaws 8) (nc : NumCodec) (text : String)
    (hc : CodecOK nc (V1.diffM [] V1P.Example.exA V1P.Example.exB))
    (hr : V1.renderM nc false (V1.liftDiff (V1.diffM [] V1P.Example.exA V1P.Example.exB)) =
      .ok (some text)) :
    ∃ d' r, V1.readDiffM nc text = .ok d' ∧ V1.patchM V1P.Example.exA d' = .ok r ∧
      V1.equals [] r V1P.Example.exB = true ∧ specEq r V1P.Example.exB = true := by
  obtain ⟨h1, h2, h3, h4, h5, h6, h7, h8, h9, _⟩ := V1P.Example.hyps
  exact v1_text_roundtrip_list L I nc [] V1P.ListMode.nil _ _ h1 h2 h3 h4 h5 h6 h7 h8 h9 rfl hc
    text hr

/-- a list-mode hunk whose removed value is the `jsonList`-typed array the v1 diff emits when an
    array is replaced by a non-array: `@ ["a"]  - [null]  + true` -/
def exL : V1.VDiff := [{ path := [.str "a"], old := [.arr .list [.null]], new := [.bool true] }]

theorem exL_render : V1.renderM exCodec false (V1.liftDiff exL) =
    .ok (some "@ [\"a\"]\n- [null]\n+ true\n") := by
  rfl

set_option linter.unusedSimpArgs false in
theorem exL_codecOK : CodecOK exCodec exL := by
  intro h hh
  simp only [exL, List.mem_singleton] at hh
  subst hh
  refine ⟨?_, ?_⟩
  · intro t ht
    have : t = "[\"a\"]" := by
      simpa [V1.rawNormList, V1.rawNorm, jsonText, jsonTextList, quoteString, escapeBody,
        escapeChar, eq_comm] using ht
    subst this
    refine ⟨by simp, ?_⟩
    simp [readJsonM, trimGoSpace, parseJson, parseValue, skipWs, isJsonWs, parseElems, lexString,
      V1.rawNormList, V1.rawNorm]
  · intro v hv hnv
    simp only [List.cons_append, List.nil_append, List.mem_cons, List.not_mem_nil, or_false] at hv
    rcases hv with rfl | rfl
    all_goals
      intro t ht
      simp [V1.marshalNode, V1.marshalList, jsonText] at ht
      subst ht
      refine ⟨by simp, ?_⟩
      simp [readJsonM, trimGoSpace, parseJson, parseValue, skipWs, isJsonWs, parseElems, untag,
        untagList]

/-- read back, the removed array is a plain `jsonArray` (`untag`); the effect is the same
    (`sim_patchAll`) -/
example : V1.readDiffM exCodec "@ [\"a\"]\n- [null]\n+ true\n" =
    .ok [{ path := [.str "a"], old := [.arr .raw [.null]], new := [.bool true] }] :=
  v1_read_render exCodec exL _ (by decide) exL_codecOK exL_render

/-- the document hypotheses of `v1_text_roundtrip_merge` hold for the pair of
    JdProofs.V1MergeRender -/
example (L : FloatLaws) (nc : NumCodec) (text : String)
    (hc : CodecOK nc (V1.diffM [.merge] V1M.Example.exA V1M.Example.exB))
    (hr : V1.renderM nc false (V1.liftDiff (V1.diffM [.merge] V1M.Example.exA V1M.Example.exB)) =
      .ok (some text)) :
    ∃ d' r, V1.readDiffM nc text = .ok d' ∧ V1.patchM V1M.Example.exA d' = .ok r ∧
      V1.equals [.merge] r V1M.Example.exB = true ∧ specEq r V1M.Example.exB = true ∧
      r.listDoc = true :=
  v1_text_roundtrip_merge L nc V1M.MergeMode.single _ _ V1M.Example.hyps.2.1
    V1M.Example.hyps.2.2.1 V1M.Example.hyps.2.2.2.1 V1M.Example.hyps.2.2.2.2.1
    V1M.Example.hyps.2.2.2.2.2.2.1 V1M.Example.hyps.2.2.2.2.2.2.2.1 hc text hr

/-- a merge hunk deleting a key (`+` with nothing after it) and one setting a value:
    `@ [["MERGE"],"a"]  +` and `@ [["MERGE"],"b"]  + true` -/
def exM : V1.VDiff := [V1M.vh ["a"] .void, V1M.vh ["b"] (.bool true)]

theorem exM_render : V1.renderM exCodec false (V1.liftDiff exM) =
    .ok (some "@ [[\"MERGE\"],\"a\"]\n+\n@ [[\"MERGE\"],\"b\"]\n+ true\n") := by
  rfl

set_option linter.unusedSimpArgs false in
theorem exM_codecOK : CodecOK exCodec exM := by
  intro h hh
  simp only [exM, List.mem_cons, List.not_mem_nil, or_false] at hh
  rcases hh with rfl | rfl
  · refine ⟨?_, ?_⟩
    · intro t ht
      have : t = "[[\"MERGE\"],\"a\"]" := by
        simpa [V1M.vh, V1.mergeMetaElem, V1.rawNormList, V1.rawNorm, jsonText, jsonTextList,
          quoteString, escapeBody, escapeChar, eq_comm] using ht
      subst this
      refine ⟨by simp, ?_⟩
      simp [readJsonM, trimGoSpace, parseJson, parseValue, skipWs, isJsonWs, parseElems, lexString,
        V1M.vh, V1.mergeMetaElem, V1.rawNormList, V1.rawNorm]
    · intro v hv hnv
      simp [V1M.vh] at hv
      subst hv
      simp [Json.isVoid] at hnv
  · refine ⟨?_, ?_⟩
    · intro t ht
      have : t = "[[\"MERGE\"],\"b\"]" := by
        simpa [V1M.vh, V1.mergeMetaElem, V1.rawNormList, V1.rawNorm, jsonText, jsonTextList,
          quoteString, escapeBody, escapeChar, eq_comm] using ht
      subst this
      refine ⟨by simp, ?_⟩
      simp [readJsonM, trimGoSpace, parseJson, parseValue, skipWs, isJsonWs, parseElems, lexString,
        V1M.vh, V1.mergeMetaElem, V1.rawNormList, V1.rawNorm]
    · intro v hv hnv
      simp [V1M.vh] at hv
      subst hv
      intro t ht
      simp [V1.marshalNode, jsonText] at ht
      subst ht
      refine ⟨by simp, ?_⟩
      simp [readJsonM, trimGoSpace, parseJson, parseValue, skipWs, isJsonWs, untag]

/-- the bare `+` of a merge deletion comes back as the void value -/
example : V1.readDiffM exCodec "@ [[\"MERGE\"],\"a\"]\n+\n@ [[\"MERGE\"],\"b\"]\n+ true\n" =
    .ok exM := by
  have := v1_read_render exCodec exM _ (by decide) exM_codecOK exM_render
  rw [this]
  rfl

end Example

end Jd.V1S

#eval Jd.V1.diffM [.set] Jd.V1S.Example.exA Jd.V1S.Example.exB
#eval Jd.V1.patchM Jd.V1S.Example.exA (Jd.V1.diffM [.set] Jd.V1S.Example.exA Jd.V1S.Example.exB)
#eval Jd.V1.patchM Jd.V1S.Example.exA (Jd.V1.diffM [.mset] Jd.V1S.Example.exA Jd.V1S.Example.exB)
#eval Jd.V1.renderM Jd.NativeRT.exCodec false
  (Jd.V1.liftDiff (Jd.V1.diffM [.set] Jd.V1S.Example.exA Jd.V1S.Example.exB))
-- the alias pair `[[]]` / `[{}]`: empty diff, `Equals` true, not equivalent
#eval (Jd.V1.diffM [.set] Jd.V1S.Example.alA Jd.V1S.Example.alB,
  Jd.V1.equals [.set] Jd.V1S.Example.alA Jd.V1S.Example.alB)

#print axioms Jd.V1S.v1_merge_diff_patch
#print axioms Jd.V1S.v1_merge_diff_empty_iff_equals
#print axioms Jd.V1S.equivB_hash_core
#print axioms Jd.V1S.diffNode_nil_of_equivB
#print axioms Jd.V1S.node_step
#print axioms Jd.V1S.v1_diff_patch_setmodes
#print axioms Jd.V1S.v1_diff_patch_set
#print axioms Jd.V1S.v1_diff_patch_mset
#print axioms Jd.V1S.v1_diff_empty_iff_equals_setmodes
#print axioms Jd.V1S.v1_read_render
#print axioms Jd.V1S.v1_read_render_raw
#print axioms Jd.V1S.shape_node
#print axioms Jd.V1S.v1_text_roundtrip_setmodes
#print axioms Jd.V1S.Example.ex_set
#print axioms Jd.V1S.Example.ex_mset
#print axioms Jd.V1S.Example.alias_classes
#print axioms Jd.V1S.Example.alias_needs_hashFaithful
#print axioms Jd.V1S.Example.ex_diffM
#print axioms Jd.V1S.Example.exD_codecOK
#print axioms Jd.V1S.Example.ex_text_roundtrip
#print axioms Jd.V1S.v1_diff_empty_iff_equals_set
#print axioms Jd.V1S.v1_diff_empty_iff_equals_mset
#print axioms Jd.V1S.v1_text_roundtrip_merge
#print axioms Jd.V1S.sim_patchNode
#print axioms Jd.V1S.sim_patchAll
#print axioms Jd.V1S.diff_vals
#print axioms Jd.V1S.v1_text_roundtrip_list
#print axioms Jd.V1S.Example.exL_codecOK
#print axioms Jd.V1S.Example.exM_codecOK
