/-
  JdProofs.MergeProofs — properties C12 and C11 (JSON Merge Patch, RFC 7386).
  Everything lives in the namespace `Jd.Merge` (helper lemmas on association lists have common
  names; the namespace keeps them apart from the other proof files).

  C12 (reading a JSON Merge Patch and applying it is `MergePatch(target, patch)`):
    `merge_read_apply_iff`     : for wf target / wf void-free patch,
                                 `patchAll true t (readMergeDoc p) = .ok (mergePatch t p) ↔ Clean t p`
                                 (exact equality of documents; `Clean` is decidable and excludes exactly
                                 the three known classes, so it is the weakest sufficient restriction);
    `merge_read_apply_partial` : the `←` direction, the property on its domain;
    `merge_read_apply_unclean` : the `→` direction, contrapositive;
    `witness_root_empty_object`, `witness_nested_empty_object`, `witness_root_null` : the three
                                 classes are inhabited (concrete counter-witnesses).
  C11 (for null-free `b ≠ a` the rendered merge patch applied by RFC 7386 yields `b`), MERGE option
  alone (list reading of arrays, precision 0):
    `merge_render_correct`     : `equals o a b = false → ∃ m, renderMergeDoc (diffM o a b) = .ok m ∧
                                 equivB o (mergePatch a m) b = true`;
    `merge_render_correct_obj` : the same without `a ≠ b` when `a` is an object;
    `merge_render_doc`         : the rendered document is never void and never `null`.

  Method: a merge hunk `{merge, path = keys, add = [v]}` is the pure function `mset`
  (`patchNode_merge`); hunks under pairwise different keys act independently (`mapply_frame`,
  `mapply_groups`: the result is described member by member through `alookup`); RFC 7386's
  `mergeMembers` is described the same way (`alookup_mergeMembers`); objects with strictly increasing
  keys are determined by their lookups (`kvs_ext`).
-/
import JdModel
import JdSpec
import JdProofs.EqualsList
import JdProofs.NoPanic
import JdProofs.StrictPatch
import JdProofs.Common

namespace Jd.Merge
open Jd Jd.Spec

/-! ### 0. association lists with strictly increasing keys -/

theorem str_lt_of_not (a b : String) (h : ¬ a < b) (h' : a ≠ b) : b < a :=
  Std.lt_of_le_of_ne (String.not_lt.1 h) (Ne.symm h')

/-- every key of the list is above `k` -/
def Lb {β} (k : String) (r : List (String × β)) : Prop := ∀ k' v', (k', v') ∈ r → k < k'

theorem Lb.nil {β} (k : String) : Lb (β := β) k [] := by intro _ _ h; simp at h

theorem Lb.mono {β} {k j : String} {r : List (String × β)} (h : Lb k r) (hj : j < k) : Lb j r :=
  fun k' v' hm => String.lt_trans hj (h k' v' hm)

theorem keysSorted_cons_iff {β} {k : String} {v : β} {r : List (String × β)} :
    keysSorted ((k, v) :: r) = true ↔ Lb k r ∧ keysSorted r = true := by
  constructor
  · intro h; exact ⟨keysSorted_head_lt h, keysSorted_tail h⟩
  · rintro ⟨hl, hs⟩
    cases r with
    | nil => rfl
    | cons kv r' =>
      obtain ⟨k', v'⟩ := kv
      simp only [keysSorted, Bool.and_eq_true, decide_eq_true_eq]
      exact ⟨hl k' v' List.mem_cons_self, hs⟩

theorem alookup_none_of_Lb {β} {j : String} : ∀ {r : List (String × β)}, Lb j r → alookup j r = none
  | [], _ => rfl
  | (k, v) :: r, h => by
    have hlt : j < k := h k v List.mem_cons_self
    have hne : j ≠ k := fun e => String.lt_irrefl k (e ▸ hlt)
    simp only [alookup, hne, if_false]
    exact alookup_none_of_Lb (fun k' v' hm => h k' v' (List.mem_cons_of_mem _ hm))

theorem mem_ainsert {β} {k : String} {v : β} {k' : String} {v' : β} :
    ∀ {r : List (String × β)}, (k', v') ∈ ainsert k v r → (k', v') = (k, v) ∨ (k', v') ∈ r
  | [], h => by simp [ainsert] at h; exact Or.inl (by simp [h])
  | (k0, v0) :: r, h => by
    simp only [ainsert] at h
    split at h
    · rcases List.mem_cons.1 h with e | hm
      · exact Or.inl e
      · exact Or.inr hm
    · split at h
      · rcases List.mem_cons.1 h with e | hm
        · exact Or.inl e
        · exact Or.inr (List.mem_cons_of_mem _ hm)
      · rcases List.mem_cons.1 h with e | hm
        · exact Or.inr (e ▸ List.mem_cons_self)
        · rcases mem_ainsert hm with e | hm'
          · exact Or.inl e
          · exact Or.inr (List.mem_cons_of_mem _ hm')

theorem mem_aerase {β} {k : String} {k' : String} {v' : β} :
    ∀ {r : List (String × β)}, (k', v') ∈ aerase k r → (k', v') ∈ r
  | [], h => by simp [aerase] at h
  | (k0, v0) :: r, h => by
    simp only [aerase] at h
    split at h
    · exact List.mem_cons_of_mem _ h
    · rcases List.mem_cons.1 h with e | hm
      · exact e ▸ List.mem_cons_self
      · exact List.mem_cons_of_mem _ (mem_aerase hm)

theorem keysSorted_ainsert {β} (k : String) (v : β) :
    ∀ {r : List (String × β)}, keysSorted r = true → keysSorted (ainsert k v r) = true
  | [], _ => rfl
  | (k0, v0) :: r, h => by
    obtain ⟨hl, hs⟩ := keysSorted_cons_iff.1 h
    simp only [ainsert]
    split
    · rename_i hlt
      refine keysSorted_cons_iff.2 ⟨?_, h⟩
      intro k' v' hm
      rcases List.mem_cons.1 hm with e | hm'
      · cases e; exact hlt
      · exact String.lt_trans hlt (hl k' v' hm')
    · split
      · rename_i _ he; subst he
        exact keysSorted_cons_iff.2 ⟨hl, hs⟩
      · rename_i hnlt hne
        refine keysSorted_cons_iff.2 ⟨?_, keysSorted_ainsert k v hs⟩
        intro k' v' hm
        rcases mem_ainsert hm with e | hm'
        · cases e; exact str_lt_of_not _ _ hnlt hne
        · exact hl k' v' hm'

theorem keysSorted_aerase {β} (k : String) :
    ∀ {r : List (String × β)}, keysSorted r = true → keysSorted (aerase k r) = true
  | [], _ => rfl
  | (k0, v0) :: r, h => by
    obtain ⟨hl, hs⟩ := keysSorted_cons_iff.1 h
    simp only [aerase]
    split
    · exact hs
    · exact keysSorted_cons_iff.2 ⟨fun k' v' hm => hl k' v' (mem_aerase hm), keysSorted_aerase k hs⟩

theorem alookup_ainsert_self {β} (k : String) (v : β) :
    ∀ (r : List (String × β)), alookup k (ainsert k v r) = some v
  | [] => by simp [ainsert, alookup]
  | (k0, v0) :: r => by
    simp only [ainsert]
    split
    · simp [alookup]
    · split
      · simp [alookup]
      · rename_i _ hne
        simp only [alookup, hne, if_false]
        exact alookup_ainsert_self k v r

theorem alookup_ainsert_ne {β} {k j : String} (v : β) (hne : j ≠ k) :
    ∀ (r : List (String × β)), alookup j (ainsert k v r) = alookup j r
  | [] => by simp [ainsert, alookup, hne]
  | (k0, v0) :: r => by
    simp only [ainsert]
    split
    · simp [alookup, hne]
    · split
      · rename_i _ he; subst he
        simp [alookup, hne]
      · simp only [alookup]
        split
        · rfl
        · exact alookup_ainsert_ne v hne r

theorem alookup_aerase_self {β} (k : String) :
    ∀ {r : List (String × β)}, keysSorted r = true → alookup k (aerase k r) = none
  | [], _ => rfl
  | (k0, v0) :: r, h => by
    obtain ⟨hl, hs⟩ := keysSorted_cons_iff.1 h
    simp only [aerase]
    split
    · rename_i he; subst he
      exact alookup_none_of_Lb hl
    · rename_i hne
      simp only [alookup, hne, if_false]
      exact alookup_aerase_self k hs

theorem alookup_aerase_ne {β} {k j : String} (hne : j ≠ k) :
    ∀ (r : List (String × β)), alookup j (aerase k r) = alookup j r
  | [] => rfl
  | (k0, v0) :: r => by
    simp only [aerase]
    split
    · rename_i he; subst he
      simp [alookup, hne]
    · simp only [alookup]
      split
      · rfl
      · exact alookup_aerase_ne hne r

theorem aerase_of_none {β} {k : String} :
    ∀ {r : List (String × β)}, alookup k r = none → aerase k r = r
  | [], _ => rfl
  | (k0, v0) :: r, h => by
    simp only [alookup] at h
    split at h
    · cases h
    · rename_i hne
      simp only [aerase, hne, if_false]
      rw [aerase_of_none h]

/-- lists with strictly increasing keys are determined by their lookups -/
theorem kvs_ext {β} :
    ∀ {X Y : List (String × β)}, keysSorted X = true → keysSorted Y = true →
      (∀ k, alookup k X = alookup k Y) → X = Y
  | [], [], _, _, _ => rfl
  | [], (k, y) :: Y, _, _, h => by have := h k; simp [alookup] at this
  | (k, x) :: X, [], _, _, h => by have := h k; simp [alookup] at this
  | (k, x) :: X, (k', y) :: Y, hX, hY, h => by
    obtain ⟨hlX, hsX⟩ := keysSorted_cons_iff.1 hX
    obtain ⟨hlY, hsY⟩ := keysSorted_cons_iff.1 hY
    have hk : k = k' := by
      by_cases h1 : k < k'
      · have := h k
        rw [alookup_none_of_Lb (r := (k', y) :: Y)] at this
        · simp [alookup] at this
        · intro k2 v2 hm
          rcases List.mem_cons.1 hm with e | hm'
          · cases e; exact h1
          · exact String.lt_trans h1 (hlY k2 v2 hm')
      · by_cases h2 : k = k'
        · exact h2
        · have h3 := str_lt_of_not _ _ h1 h2
          have := h k'
          rw [alookup_none_of_Lb (r := (k, x) :: X)] at this
          · simp [alookup] at this
          · intro k2 v2 hm
            rcases List.mem_cons.1 hm with e | hm'
            · cases e; exact h3
            · exact String.lt_trans h3 (hlX k2 v2 hm')
    subst hk
    have hx : x = y := by have := h k; simpa [alookup] using this
    subst hx
    have : X = Y := by
      refine kvs_ext hsX hsY (fun j => ?_)
      by_cases hj : j = k
      · subst hj; rw [alookup_none_of_Lb hlX, alookup_none_of_Lb hlY]
      · have := h j
        simpa [alookup, hj] using this
    rw [this]

theorem wfKvs_ainsert (k : String) {v : Json} (hv : v.wf = true) :
    ∀ {r : List (String × Json)}, wfKvs r = true → wfKvs (ainsert k v r) = true
  | [], _ => by simp [ainsert, wfKvs, hv]
  | (k0, v0) :: r, h => by
    simp only [wfKvs, Bool.and_eq_true] at h
    simp only [ainsert]
    split
    · simp [wfKvs, hv, h.1, h.2]
    · split
      · simp [wfKvs, hv, h.2]
      · simp [wfKvs, h.1, wfKvs_ainsert k hv h.2]

theorem wfKvs_aerase (k : String) :
    ∀ {r : List (String × Json)}, wfKvs r = true → wfKvs (aerase k r) = true
  | [], _ => rfl
  | (k0, v0) :: r, h => by
    simp only [wfKvs, Bool.and_eq_true] at h
    simp only [aerase]
    split
    · exact h.2
    · simp [wfKvs, h.1, wfKvs_aerase k h.2]

/-! ### 1. pure semantics of a merge hunk `{merge, path = keys, add = [v]}` -/

/-- store (or, for `void`, delete) a member -/
def putKvs (k : String) (c : Json) (kvs : List (String × Json)) : List (String × Json) :=
  if c.isVoid then aerase k kvs else ainsert k c kvs

/-- member lookup with "absent = void" -/
def getK (k : String) (kvs : List (String × Json)) : Json := (alookup k kvs).getD .void

/-- what `patch` (patch_common.go) builds in merge mode from nothing along a key path -/
def nest : List String → Json → Json
  | [], v => v
  | k :: rest, v => .obj (putKvs k (nest rest v) [])

/-- the effect of one merge hunk with key path `ks` and value `v` (`void` = delete) -/
def mset : Json → List String → Json → Json
  | _, [], v => v
  | .obj kvs, k :: rest, v => .obj (putKvs k (mset (getK k kvs) rest v) kvs)
  | _, k :: rest, v => nest (k :: rest) v

/-- the merge hunk with key path `ks` and value `v` -/
def mh (ks : List String) (v : Json) : Hunk := { merge := true, path := ks.map .key, add := [v] }

def mapply (l : List (List String × Json)) (t : Json) : Json :=
  l.foldl (fun t e => mset t e.1 e.2) t

theorem mset_void (ks : List String) (v : Json) : mset .void ks v = nest ks v := by
  cases ks <;> simp [mset, nest]

theorem nest_isVoid_cons (k : String) (rest : List String) (v : Json) :
    (nest (k :: rest) v).isVoid = false := by simp [nest, Json.isVoid]

theorem patchFresh_merge (n : Json) (v : Json) (before after : List Json) :
    ∀ ks : List String,
      patchFresh true n (ks.map .key) before [] [v] after = .ok (nest ks v)
  | [] => by
    unfold patchFresh
    simp [Path.isLeaf, Json.singleValue, Json.isVoid, nest]
  | k :: rest => by
    unfold patchFresh
    have ih := patchFresh_merge n v before after rest
    have hl : Path.isLeaf (PathElem.key k :: List.map PathElem.key rest) = false := by
      cases rest <;> simp [Path.isLeaf]
    simp only [List.map_cons, ih, hl]
    cases rest with
    | nil =>
      cases hv : v.isVoid <;> simp [nest, putKvs, hv, aerase, ainsert]
    | cons k' r' =>
      simp [nest, putKvs, Json.isVoid, ainsert]

theorem patchNew_merge (v : Json) (before after : List Json) :
    ∀ ks : List String,
      patchNew true (true && !(ks.map PathElem.key).isEmpty) (ks.map .key) before [] [v] after
        = .ok (nest ks v)
  | [] => by
    simp [patchNew]
    exact patchFresh_merge .void v before after []
  | k :: rest => by
    have ih := patchNew_merge v before after rest
    simp only [List.map_cons, List.isEmpty_cons, Bool.not_false, Bool.and_self, patchNew, ih]
    cases rest with
    | nil =>
      cases hv : v.isVoid <;> simp [nest, putKvs, hv, aerase, ainsert]
    | cons k' r' =>
      simp [nest, putKvs, Json.isVoid, ainsert]

/-- one merge hunk, as the library applies it, is `mset` -/
theorem patchNode_merge (sw : Bool) (v : Json) (before after : List Json) :
    ∀ (ks : List String) (t : Json),
      patchNode sw true t (ks.map .key) before [] [v] after = .ok (mset t ks v)
  | [], t => by
    rw [patchNode.eq_def]
    cases t with
    | obj kvs => simp [Json.singleValue, mset]
    | arr tg xs =>
      simp only [List.map_nil, if_true]
      split <;> simpa [mset, nest] using patchFresh_merge _ v before after []
    | _ => simpa [mset, nest] using patchFresh_merge _ v before after []
  | k :: rest, t => by
    rw [patchNode.eq_def]
    cases t with
    | obj kvs =>
      simp only [List.map_cons]
      cases hl : alookup k kvs with
      | some c =>
        simp only [patchObjChild_eq _ _ _ _ _ _ _ _ kvs c hl,
          patchNode_merge sw v before after rest c, Outcome.bind_ok]
        simp only [mset, getK, hl, Option.getD_some, putKvs]
        split <;> rfl
      | none =>
        simp only [patchNew_merge v before after rest, Outcome.bind_ok]
        simp only [mset, getK, hl, Option.getD_none, putKvs, mset_void]
        split <;> rfl
    | arr tg xs =>
      simp only [if_true]
      split <;> simpa [mset] using patchFresh_merge _ v before after (k :: rest)
    | _ => simpa [mset] using patchFresh_merge _ v before after (k :: rest)

theorem patchAll_mh (sw : Bool) :
    ∀ (l : List (List String × Json)) (t : Json),
      patchAll sw t (l.map (fun e => mh e.1 e.2)) = .ok (mapply l t)
  | [], t => by simp [patchAll, mapply]
  | e :: l, t => by
    simp only [List.map_cons, patchAll, mh, patchNode_merge]
    exact patchAll_mh sw l _

/-! ### 2. frame lemma: hunks under one key act on that member only -/

/-- `void` stands for "absent" -/
def toOpt (c : Json) : Option Json := if c.isVoid then none else some c

theorem keysSorted_putKvs (k : String) (c : Json) {kvs : List (String × Json)}
    (h : keysSorted kvs = true) : keysSorted (putKvs k c kvs) = true := by
  unfold putKvs; split
  · exact keysSorted_aerase k h
  · exact keysSorted_ainsert k c h

theorem alookup_putKvs_self (k : String) (c : Json) {kvs : List (String × Json)}
    (h : keysSorted kvs = true) : alookup k (putKvs k c kvs) = toOpt c := by
  unfold putKvs toOpt; split
  · exact alookup_aerase_self k h
  · exact alookup_ainsert_self k c kvs

theorem alookup_putKvs_ne {k j : String} (c : Json) (kvs : List (String × Json)) (hne : j ≠ k) :
    alookup j (putKvs k c kvs) = alookup j kvs := by
  unfold putKvs; split
  · exact alookup_aerase_ne hne kvs
  · exact alookup_ainsert_ne c hne kvs

theorem getD_toOpt (c : Json) : (toOpt c).getD .void = c := by
  unfold toOpt; split
  · cases c <;> simp_all [Json.isVoid]
  · rfl

theorem getK_putKvs_self (k : String) (c : Json) {kvs : List (String × Json)}
    (h : keysSorted kvs = true) : getK k (putKvs k c kvs) = c := by
  rw [getK, alookup_putKvs_self k c h, getD_toOpt]

theorem getK_putKvs_ne {k j : String} (c : Json) (kvs : List (String × Json)) (hne : j ≠ k) :
    getK j (putKvs k c kvs) = getK j kvs := by
  rw [getK, alookup_putKvs_ne c kvs hne, getK]

theorem putKvs_putKvs (k : String) (x c : Json) {kvs : List (String × Json)}
    (h : keysSorted kvs = true) : putKvs k x (putKvs k c kvs) = putKvs k x kvs := by
  have h1 := keysSorted_putKvs k c h
  refine kvs_ext (keysSorted_putKvs k x h1) (keysSorted_putKvs k x h) (fun j => ?_)
  by_cases hj : j = k
  · subst hj; rw [alookup_putKvs_self j x h1, alookup_putKvs_self j x h]
  · rw [alookup_putKvs_ne x _ hj, alookup_putKvs_ne x _ hj, alookup_putKvs_ne c _ hj]

/-- prefix the path of an entry with a key -/
def consE (k : String) (e : List String × Json) : List String × Json := (k :: e.1, e.2)

theorem mapply_append (l l' : List (List String × Json)) (t : Json) :
    mapply (l ++ l') t = mapply l' (mapply l t) := by
  simp [mapply, List.foldl_append]

theorem mapply_frame (k : String) :
    ∀ (l : List (List String × Json)) (kvs : List (String × Json)), l ≠ [] →
      keysSorted kvs = true →
      mapply (l.map (consE k)) (.obj kvs) = .obj (putKvs k (mapply l (getK k kvs)) kvs)
  | [], _, h, _ => absurd rfl h
  | [e], kvs, _, _ => by simp [mapply, consE, mset]
  | e :: e' :: l, kvs, _, hs => by
    have ih := mapply_frame k (e' :: l) (putKvs k (mset (getK k kvs) e.1 e.2) kvs) (by simp)
      (keysSorted_putKvs _ _ hs)
    rw [getK_putKvs_self _ _ hs, putKvs_putKvs _ _ _ hs] at ih
    have : mapply ((e :: e' :: l).map (consE k)) (.obj kvs)
        = mapply ((e' :: l).map (consE k)) (.obj (putKvs k (mset (getK k kvs) e.1 e.2) kvs)) := by
      simp [mapply, consE, mset]
    rw [this, ih]
    simp [mapply]

/-- the hunks of a list of groups, each group under its own key -/
def flatG (groups : List (String × List (List String × Json))) : List (List String × Json) :=
  groups.flatMap (fun kg => kg.2.map (consE kg.1))

theorem putKvs_getK (k : String) {kvs : List (String × Json)} (h : keysSorted kvs = true)
    (hv : alookup k kvs ≠ some .void) : putKvs k (getK k kvs) kvs = kvs := by
  refine kvs_ext (keysSorted_putKvs _ _ h) h (fun j => ?_)
  by_cases hj : j = k
  · subst hj
    rw [alookup_putKvs_self _ _ h, getK]
    cases hl : alookup j kvs with
    | none => simp [toOpt, Json.isVoid]
    | some c =>
      have : c.isVoid = false := by cases c <;> simp_all [Json.isVoid]
      simp [toOpt, this]
  · exact alookup_putKvs_ne _ _ hj

theorem mapply_frame' (k : String) (l : List (List String × Json)) (kvs : List (String × Json))
    (h : l = [] → alookup k kvs ≠ some .void) (hs : keysSorted kvs = true) :
    mapply (l.map (consE k)) (.obj kvs) = .obj (putKvs k (mapply l (getK k kvs)) kvs) := by
  cases l with
  | nil => simp [mapply, putKvs_getK k hs (h rfl)]
  | cons e l => exact mapply_frame k (e :: l) kvs (by simp) hs

/-- groups of hunks under pairwise different keys act independently: the result is described
    member by member (an empty group is allowed where the accumulator holds no `void` member) -/
theorem mapply_groups :
    ∀ (groups : List (String × List (List String × Json))) (acc : List (String × Json)),
      (∀ kg ∈ groups, kg.2 = [] → alookup kg.1 acc ≠ some .void) →
      (groups.map Prod.fst).Nodup → keysSorted acc = true →
      ∃ acc', mapply (flatG groups) (.obj acc) = .obj acc' ∧ keysSorted acc' = true ∧
        ∀ j, alookup j acc' = match alookup j groups with
          | some g => toOpt (mapply g (getK j acc))
          | none => alookup j acc
  | [], acc, _, _, hs => ⟨acc, by simp [flatG, mapply], hs, fun j => by simp [alookup]⟩
  | (k, g) :: rest, acc, hne, hnd, hs => by
    rw [List.map_cons, List.nodup_cons] at hnd
    have hg : g = [] → alookup k acc ≠ some .void := hne (k, g) List.mem_cons_self
    have hs1 := keysSorted_putKvs k (mapply g (getK k acc)) hs
    obtain ⟨acc', he, hs', hl⟩ := mapply_groups rest (putKvs k (mapply g (getK k acc)) acc)
      (fun kg hm hnil => by
        have hne' : kg.1 ≠ k := fun e => hnd.1 (e ▸ List.mem_map.2 ⟨kg, hm, rfl⟩)
        rw [alookup_putKvs_ne _ _ hne']
        exact hne kg (List.mem_cons_of_mem _ hm) hnil) hnd.2 hs1
    refine ⟨acc', ?_, hs', fun j => ?_⟩
    · have : flatG ((k, g) :: rest) = g.map (consE k) ++ flatG rest := by simp [flatG]
      rw [this, mapply_append, mapply_frame' k g acc hg hs, he]
    · rw [hl j]
      by_cases hj : j = k
      · subst hj
        have hn : alookup j rest = none := by
          cases hr : alookup j rest with
          | none => rfl
          | some g' =>
            exact absurd (List.mem_map.2 ⟨(j, g'), mem_of_alookup hr, rfl⟩) hnd.1
        simp [alookup, hn, alookup_putKvs_self j _ hs]
      · simp only [alookup, hj, if_false]
        rw [getK_putKvs_ne _ _ hj, alookup_putKvs_ne _ _ hj]

/-! ### 3. RFC 7386 `MergePatch`, member by member -/

/-- the members of an object, none for any other node -/
def objKvs : Json → List (String × Json)
  | .obj kvs => kvs
  | _ => []

theorem mergePatch_obj (t : Json) (pkvs : List (String × Json)) :
    mergePatch t (.obj pkvs) = .obj (mergeMembers (objKvs t) pkvs) := by
  cases t <;> simp [mergePatch, objKvs]

theorem mergeMembers_cons (t : List (String × Json)) (k : String) (v : Json)
    (r : List (String × Json)) :
    mergeMembers t ((k, v) :: r)
      = mergeMembers (if v.isNull then aerase k t else ainsert k (mergePatch (getK k t) v) t) r := by
  cases v <;> simp [mergeMembers, Json.isNull, getK]

theorem keysSorted_mergeMembers :
    ∀ (pkvs t : List (String × Json)), keysSorted t = true →
      keysSorted (mergeMembers t pkvs) = true
  | [], t, h => by simpa [mergeMembers] using h
  | (k, v) :: r, t, h => by
    rw [mergeMembers_cons]
    apply keysSorted_mergeMembers r
    split
    · exact keysSorted_aerase k h
    · exact keysSorted_ainsert k _ h

theorem alookup_mergeMembers (j : String) :
    ∀ (pkvs t : List (String × Json)), keysSorted pkvs = true → keysSorted t = true →
      alookup j (mergeMembers t pkvs) = match alookup j pkvs with
        | some v => if v.isNull then none else some (mergePatch (getK j t) v)
        | none => alookup j t
  | [], t, _, _ => by simp [mergeMembers, alookup]
  | (k, v) :: r, t, hp, ht => by
    obtain ⟨hlb, hr⟩ := keysSorted_cons_iff.1 hp
    rw [mergeMembers_cons]
    have ht' : keysSorted (if v.isNull then aerase k t else ainsert k (mergePatch (getK k t) v) t)
        = true := by
      split
      · exact keysSorted_aerase k ht
      · exact keysSorted_ainsert k _ ht
    rw [alookup_mergeMembers j r _ hr ht']
    by_cases hj : j = k
    · subst hj
      rw [alookup_none_of_Lb hlb]
      simp only [alookup, if_true]
      split
      · exact alookup_aerase_self j ht
      · exact alookup_ainsert_self j _ t
    · simp only [alookup, hj, if_false]
      have h1 : alookup j (if v.isNull then aerase k t else ainsert k (mergePatch (getK k t) v) t)
          = alookup j t := by
        split
        · exact alookup_aerase_ne hj t
        · exact alookup_ainsert_ne _ hj t
      have h2 : getK j (if v.isNull then aerase k t else ainsert k (mergePatch (getK k t) v) t)
          = getK j t := by rw [getK, h1, getK]
      rw [h1, h2]

/-! ### 4. the reader of merge patch documents, purely -/

mutual
/-- `readMergeInto` with relative key paths and bare values -/
def rdInto : Json → List (List String × Json)
  | .obj kvs => if kvs.isEmpty then [([], .obj [])] else rdKvs kvs
  | .void => []
  | .null => [([], .void)]
  | n => [([], n)]
def rdKvs : List (String × Json) → List (List String × Json)
  | [] => []
  | (k, v) :: r => (rdInto v).map (consE k) ++ rdKvs r
end

mutual
theorem readMergeInto_eq : ∀ (p : Json) (q : List String),
    readMergeInto (q.map .key) p = (rdInto p).map (fun e => mh (q ++ e.1) e.2)
  | .obj kvs, q => by
    rw [readMergeInto, rdInto]
    split
    · simp [mh]
    · exact readMergeKvs_eq kvs q
  | .void, q => by simp [readMergeInto, rdInto]
  | .null, q => by simp [readMergeInto, rdInto, mh]
  | .bool _, q => by simp [readMergeInto, rdInto, mh]
  | .num _, q => by simp [readMergeInto, rdInto, mh]
  | .str _, q => by simp [readMergeInto, rdInto, mh]
  | .arr _ _, q => by simp [readMergeInto, rdInto, mh]
theorem readMergeKvs_eq : ∀ (kvs : List (String × Json)) (q : List String),
    readMergeKvs (q.map .key) kvs = (rdKvs kvs).map (fun e => mh (q ++ e.1) e.2)
  | [], q => by simp [readMergeKvs, rdKvs]
  | (k, v) :: r, q => by
    rw [readMergeKvs, rdKvs, readMergeKvs_eq r q]
    have := readMergeInto_eq v (q ++ [k])
    rw [List.map_append] at this
    rw [List.map_cons, List.map_nil] at this
    rw [this]
    simp [consE, Function.comp_def]
end

/-! ### 5. the domain of the C12 theorem -/

mutual
/-- a document without `void`, at the root or as an object member (what a JSON reader produces) -/
def objVoidFree : Json → Bool
  | .void => false
  | .obj kvs => objVoidFreeKvs kvs
  | _ => true
def objVoidFreeKvs : List (String × Json) → Bool
  | [] => true
  | (_, v) :: r => objVoidFree v && objVoidFreeKvs r
end

theorem alookup_objVoidFree {k : String} {v : Json} :
    ∀ {kvs : List (String × Json)}, alookup k kvs = some v → objVoidFreeKvs kvs = true →
      objVoidFree v = true
  | [], h, _ => by simp [alookup] at h
  | (k', v') :: r, h, hd => by
    simp only [objVoidFreeKvs, Bool.and_eq_true] at hd
    simp only [alookup] at h
    split at h
    · cases h; exact hd.1
    · exact alookup_objVoidFree h hd.2

mutual
/-- below the root: the patch has `{}` only where the target does not hold a non-empty object
    (known finding: the library replaces the member by `{}`, RFC 7386 leaves it unchanged) -/
def cleanIn (t : Json) : Json → Bool
  | .obj pkvs => if pkvs.isEmpty then (objKvs t).isEmpty else cleanKvs (objKvs t) pkvs
  | _ => true
def cleanKvs (tkvs : List (String × Json)) : List (String × Json) → Bool
  | [] => true
  | (k, v) :: r => cleanIn (getK k tkvs) v && cleanKvs tkvs r
end

/-- the domain of the theorem: outside the three known classes
    (a) patch `{}` at the root and the target is not an object,
    (b) patch has `{}` where the target holds a non-empty object,
    (c) patch `null` at the root. -/
def Clean (t p : Json) : Bool :=
  match p with
  | .null => false
  | .obj [] => t.isObj
  | p => cleanIn t p

/-- expected result of the hunks read from a (sub-)patch: `null` deletes -/
def mpv (t p : Json) : Json := if p.isNull then .void else mergePatch t p

theorem cleanKvs_lookup (tkvs : List (String × Json)) {k : String} {v : Json} :
    ∀ {pkvs : List (String × Json)}, cleanKvs tkvs pkvs = true → alookup k pkvs = some v →
      cleanIn (getK k tkvs) v = true
  | [], _, h => by simp [alookup] at h
  | (k0, v0) :: r, hc, h => by
    simp only [cleanKvs, Bool.and_eq_true] at hc
    simp only [alookup] at h
    split at h
    · rename_i he; cases h; subst he; exact hc.1
    · exact cleanKvs_lookup tkvs hc.2 h

theorem rdInto_ne_nil {p : Json} (h : objVoidFree p = true) : rdInto p ≠ [] := by
  cases p with
  | obj kvs =>
    rw [rdInto]
    split
    · simp
    · cases kvs with
      | nil => simp at *
      | cons kv r =>
        obtain ⟨k, v⟩ := kv
        simp only [objVoidFree, objVoidFreeKvs, Bool.and_eq_true] at h
        have := rdInto_ne_nil h.1
        simp [rdKvs, this]
  | void => simp [objVoidFree] at h
  | _ => simp [rdInto]

theorem rdKvs_eq_flatG : ∀ (kvs : List (String × Json)),
    rdKvs kvs = flatG (kvs.map (fun kv => (kv.1, rdInto kv.2)))
  | [] => by simp [rdKvs, flatG]
  | (k, v) :: r => by
    rw [rdKvs, rdKvs_eq_flatG r]; simp [flatG]

theorem alookup_map {β γ} (f : β → γ) (k : String) :
    ∀ (kvs : List (String × β)), alookup k (kvs.map (fun kv => (kv.1, f kv.2))) = (alookup k kvs).map f
  | [] => rfl
  | (k0, v0) :: r => by
    simp only [List.map_cons, alookup]
    split
    · rfl
    · exact alookup_map f k r

/-- a non-object target behaves like `{}` under a hunk with a non-empty path -/
theorem mset_nonobj {t : Json} (ht : t.isObj = false) (k : String) (ks : List String) (v : Json) :
    mset t (k :: ks) v = mset (.obj []) (k :: ks) v := by
  have : mset (.obj []) (k :: ks) v = nest (k :: ks) v := by
    simp [mset, nest, getK, alookup, mset_void]
  rw [this]
  cases t <;> simp_all [mset, Json.isObj]

theorem mpv_toOpt (c v : Json) (hv : objVoidFree v = true) :
    toOpt (mpv c v) = if v.isNull then none else some (mergePatch c v) := by
  unfold mpv
  cases v <;> simp_all [toOpt, Json.isNull, Json.isVoid, mergePatch, objVoidFree]

theorem toOpt_inj {x y : Json} (h : toOpt x = toOpt y) : x = y := by
  rw [← getD_toOpt x, ← getD_toOpt y, h]

/-- the hunks read from a non-empty patch object, applied: the result member by member
    (no cleanliness hypothesis) -/
theorem rdKvs_apply (pkvs : List (String × Json)) (hne : pkvs ≠ [])
    (hv : objVoidFreeKvs pkvs = true) (hs : keysSorted pkvs = true) (t : Json)
    (ht : t.wf = true) :
    ∃ acc', mapply (rdKvs pkvs) t = .obj acc' ∧ keysSorted acc' = true ∧
      ∀ j, alookup j acc' = match alookup j pkvs with
        | some v => toOpt (mapply (rdInto v) (getK j (objKvs t)))
        | none => alookup j (objKvs t) := by
  -- reduce to an object target
  have hobj : mapply (rdKvs pkvs) t = mapply (rdKvs pkvs) (.obj (objKvs t)) := by
    cases hto : t.isObj with
    | true => cases t <;> simp_all [Json.isObj, objKvs]
    | false =>
      have ho : objKvs t = [] := by cases t <;> simp_all [Json.isObj, objKvs]
      rw [ho]
      cases pkvs with
      | nil => exact absurd rfl hne
      | cons kv r =>
        obtain ⟨k, v⟩ := kv
        simp only [objVoidFreeKvs, Bool.and_eq_true] at hv
        have hne' := rdInto_ne_nil hv.1
        rw [rdKvs]
        cases hrd : rdInto v with
        | nil => exact absurd hrd hne'
        | cons e l =>
          simp only [List.map_cons, List.cons_append, mapply, List.foldl_cons, consE]
          rw [mset_nonobj hto]
  have hts : keysSorted (objKvs t) = true := by
    cases t <;> simp_all [objKvs, Json.wf, keysSorted]
  obtain ⟨acc', he, hs', hl⟩ := mapply_groups
    (pkvs.map (fun kv => (kv.1, rdInto kv.2))) (objKvs t)
    (by
      intro kg hm hnil
      obtain ⟨⟨k, v⟩, hm', rfl⟩ := List.mem_map.1 hm
      exact absurd hnil (rdInto_ne_nil (alookup_objVoidFree (alookup_of_mem hs hm') hv)))
    (by
      have := keysSorted_nodup hs
      simpa [List.map_map, Function.comp_def] using this)
    hts
  refine ⟨acc', by rw [hobj, rdKvs_eq_flatG, he], hs', fun j => ?_⟩
  rw [hl j, alookup_map]
  cases alookup j pkvs <;> rfl

theorem cleanKvs_iff (tkvs : List (String × Json)) :
    ∀ {pkvs : List (String × Json)}, keysSorted pkvs = true →
      (cleanKvs tkvs pkvs = true ↔
        ∀ k v, alookup k pkvs = some v → cleanIn (getK k tkvs) v = true)
  | [], _ => by simp [cleanKvs, alookup]
  | (k0, v0) :: r, hs => by
    obtain ⟨hlb, hr⟩ := keysSorted_cons_iff.1 hs
    rw [cleanKvs, Bool.and_eq_true, cleanKvs_iff tkvs hr]
    constructor
    · rintro ⟨h1, h2⟩ k v h
      simp only [alookup] at h
      split at h
      · rename_i he; cases h; subst he; exact h1
      · exact h2 k v h
    · intro h
      refine ⟨h k0 v0 (by simp [alookup]), fun k v hk => h k v ?_⟩
      have hne : k ≠ k0 := fun e =>
        String.lt_irrefl k0 (e ▸ hlb k v (mem_of_alookup hk))
      simp [alookup, hne, hk]

mutual
/-- below the root, the library's result is RFC 7386's EXACTLY on the clean pairs -/
theorem mapply_rdInto_iff : ∀ (p : Json), objVoidFree p = true → p.wf = true →
    ∀ t : Json, t.wf = true → (mapply (rdInto p) t = mpv t p ↔ cleanIn t p = true)
  | .obj pkvs, hv, hw, t, ht => by
    simp only [objVoidFree] at hv
    simp only [Json.wf, Bool.and_eq_true] at hw
    have hmp : mpv t (.obj pkvs) = .obj (mergeMembers (objKvs t) pkvs) := by
      simp [mpv, Json.isNull, mergePatch_obj]
    rw [hmp, rdInto, cleanIn]
    cases pkvs with
    | nil =>
      simp only [List.isEmpty_nil, if_true]
      simp only [mapply, List.foldl_cons, List.foldl_nil, mset, mergeMembers, Json.obj.injEq,
        List.isEmpty_iff]
      exact eq_comm
    | cons kv r =>
      simp only [List.isEmpty_cons, Bool.false_eq_true, if_false]
      have hts : keysSorted (objKvs t) = true := by
        cases t <;> simp_all [objKvs, Json.wf, keysSorted]
      have htw : wfKvs (objKvs t) = true := by
        cases t <;> simp_all [objKvs, Json.wf, wfKvs]
      obtain ⟨acc', he, hs', hl⟩ := rdKvs_apply (kv :: r) (by simp) hv hw.1 t ht
      rw [he, cleanKvs_iff (objKvs t) hw.1]
      have hmem : ∀ j v, alookup j (kv :: r) = some v →
          (toOpt (mapply (rdInto v) (getK j (objKvs t)))
              = (if v.isNull then none else some (mergePatch (getK j (objKvs t)) v))
            ↔ cleanIn (getK j (objKvs t)) v = true) := by
        intro j v hj
        obtain ⟨hvv, hrec⟩ := mapply_rdKvs_iff (kv :: r) hv hw.2 j v hj
        have hwj : (getK j (objKvs t)).wf = true := by
          unfold getK
          cases hl' : alookup j (objKvs t) with
          | none => rfl
          | some c => exact alookup_wf hl' htw
        rw [← mpv_toOpt _ _ hvv, ← hrec _ hwj]
        exact ⟨toOpt_inj, fun h => by rw [h]⟩
      constructor
      · intro heq j v hj
        have heq' : acc' = mergeMembers (objKvs t) (kv :: r) := by simpa using heq
        have := hl j
        rw [heq', alookup_mergeMembers j _ _ hw.1 hts, hj] at this
        exact (hmem j v hj).1 this.symm
      · intro hc
        congr 1
        refine kvs_ext hs' (keysSorted_mergeMembers _ _ hts) (fun j => ?_)
        rw [hl j, alookup_mergeMembers j _ _ hw.1 hts]
        cases hj : alookup j (kv :: r) with
        | none => rfl
        | some v => exact (hmem j v hj).2 (hc j v hj)
  | .void, hv, _, _, _ => by simp [objVoidFree] at hv
  | .null, _, _, t, _ => by simp [rdInto, mapply, mset, mpv, Json.isNull, cleanIn]
  | .bool _, _, _, t, _ => by simp [rdInto, mapply, mset, mpv, Json.isNull, mergePatch, cleanIn]
  | .num _, _, _, t, _ => by simp [rdInto, mapply, mset, mpv, Json.isNull, mergePatch, cleanIn]
  | .str _, _, _, t, _ => by simp [rdInto, mapply, mset, mpv, Json.isNull, mergePatch, cleanIn]
  | .arr _ _, _, _, t, _ => by simp [rdInto, mapply, mset, mpv, Json.isNull, mergePatch, cleanIn]
theorem mapply_rdKvs_iff : ∀ (pkvs : List (String × Json)), objVoidFreeKvs pkvs = true →
    wfKvs pkvs = true → ∀ k v, alookup k pkvs = some v →
      objVoidFree v = true ∧
      ∀ t : Json, t.wf = true → (mapply (rdInto v) t = mpv t v ↔ cleanIn t v = true)
  | [], _, _, k, v, h => by simp [alookup] at h
  | (k0, v0) :: r, hv, hw, k, v, h => by
    simp only [objVoidFreeKvs, wfKvs, Bool.and_eq_true] at hv hw
    simp only [alookup] at h
    split at h
    · cases h
      exact ⟨hv.1, mapply_rdInto_iff v0 hv.1 hw.1⟩
    · exact mapply_rdKvs_iff r hv.2 hw.2 k v h
end

theorem mapply_rdInto (p : Json) (hv : objVoidFree p = true) (hw : p.wf = true) (t : Json)
    (ht : t.wf = true) (hc : cleanIn t p = true) : mapply (rdInto p) t = mpv t p :=
  (mapply_rdInto_iff p hv hw t ht).2 hc

/-! ### 6. C12: reading a JSON Merge Patch and applying it is RFC 7386 `MergePatch` -/

theorem readMergeDoc_eq (p : Json) :
    readMergeDoc p = if p.isObj && (objKvs p).isEmpty then []
      else (rdInto p).map (fun e => mh e.1 e.2) := by
  have := readMergeInto_eq p []
  simp only [List.map_nil, List.nil_append] at this
  unfold readMergeDoc
  rw [this]
  cases p with
  | obj kvs => cases kvs <;> simp [equals, Json.isObj, objKvs, equalsKvs]
  | arr t xs => simp [equals, Json.isObj, Json.dispatch]
  | _ => simp [equals, Json.isObj, Json.isVoid, Json.isNull]

/-- C12, sharp form: for documents with unique (sorted) object keys and a patch without `void`, the
    hunks read from the merge patch document `p`, applied to `t` by the library, give EXACTLY
    `MergePatch(t, p)` of RFC 7386 (equality of documents, tags included) if and only if the pair is
    `Clean`: the three known classes are the only deviations. -/
theorem merge_read_apply_iff (t p : Json) (ht : t.wf = true) (hp : p.wf = true)
    (hv : objVoidFree p = true) :
    patchAll true t (readMergeDoc p) = .ok (mergePatch t p) ↔ Clean t p = true := by
  rw [readMergeDoc_eq]
  split
  · rename_i h
    cases p with
    | obj kvs =>
      cases kvs with
      | nil =>
        cases t <;> simp [Clean, Json.isObj, patchAll, mergePatch, mergeMembers]
      | cons _ _ => simp [objKvs] at h
    | _ => simp [Json.isObj] at h
  · rename_i h
    rw [patchAll_mh]
    cases hn : p.isNull with
    | true =>
      have : p = .null := by cases p <;> simp_all [Json.isNull]
      subst this
      simp [rdInto, mapply, mset, mergePatch, Clean]
    | false =>
      have hcl : Clean t p = cleanIn t p := by
        cases p with
        | obj kvs =>
          cases kvs with
          | nil => simp [Json.isObj, objKvs] at h
          | cons _ _ => simp [Clean]
        | null => simp [Json.isNull] at hn
        | _ => simp [Clean]
      have := mapply_rdInto_iff p hv hp t ht
      rw [mpv, hn] at this
      rw [hcl, ← this]
      simp

/-- C12 on the domain `Clean` (the direction used as the property) -/
theorem merge_read_apply_partial (t p : Json) (ht : t.wf = true) (hp : p.wf = true)
    (hv : objVoidFree p = true) (hc : Clean t p = true) :
    patchAll true t (readMergeDoc p) = .ok (mergePatch t p) :=
  (merge_read_apply_iff t p ht hp hv).2 hc

/-- outside `Clean` the library's result is NOT the RFC 7386 result: `Clean` is the weakest
    sufficient restriction -/
theorem merge_read_apply_unclean (t p : Json) (ht : t.wf = true) (hp : p.wf = true)
    (hv : objVoidFree p = true) (hc : Clean t p = false) :
    patchAll true t (readMergeDoc p) ≠ .ok (mergePatch t p) := by
  intro h
  rw [(merge_read_apply_iff t p ht hp hv).1 h] at hc
  cases hc

/-- the same up to array tags, with the existential phrasing of the property statement -/
theorem merge_read_apply_partial_untag (t p : Json) (ht : t.wf = true) (hp : p.wf = true)
    (hv : objVoidFree p = true) (hc : Clean t p = true) :
    ∃ r, patchAll true t (readMergeDoc p) = .ok r ∧ untag r = untag (mergePatch t p) :=
  ⟨_, merge_read_apply_partial t p ht hp hv hc, rfl⟩

/-! the three classes outside `Clean` are genuine: counter-witnesses, by evaluation -/

/-- (a) patch `{}` at the root, target not an object: the library does nothing, RFC 7386 gives `{}` -/
theorem witness_root_empty_object (one : UInt64) :
    patchAll true (.num one) (readMergeDoc (.obj [])) = .ok (.num one) ∧
    mergePatch (.num one) (.obj []) = .obj [] ∧ Clean (.num one) (.obj []) = false := by
  refine ⟨?_, ?_, ?_⟩
  · simp [readMergeDoc_eq, Json.isObj, objKvs, patchAll]
  · simp [mergePatch, mergeMembers]
  · simp [Clean, Json.isObj]

/-- (b) patch `{"a":{}}`, target `{"a":{"b":1}}`: the library replaces the member by `{}`, RFC 7386
    leaves the target unchanged -/
theorem witness_nested_empty_object (one : UInt64) :
    patchAll true (.obj [("a", .obj [("b", .num one)])]) (readMergeDoc (.obj [("a", .obj [])]))
      = .ok (.obj [("a", .obj [])]) ∧
    mergePatch (.obj [("a", .obj [("b", .num one)])]) (.obj [("a", .obj [])])
      = .obj [("a", .obj [("b", .num one)])] ∧
    Clean (.obj [("a", .obj [("b", .num one)])]) (.obj [("a", .obj [])]) = false := by
  refine ⟨?_, ?_, ?_⟩
  · rw [readMergeDoc_eq, if_neg (by simp [Json.isObj, objKvs]), patchAll_mh]
    simp [rdInto, rdKvs, consE, mapply, mset, putKvs, Json.isVoid, ainsert]
  · simp [mergePatch, mergeMembers, alookup, ainsert]
  · simp [Clean, cleanIn, cleanKvs, objKvs, getK, alookup]

/-- (c) patch `null` at the root: the library returns void (no document), RFC 7386 gives `null` -/
theorem witness_root_null (t : Json) :
    patchAll true t (readMergeDoc .null) = .ok .void ∧ mergePatch t .null = .null ∧
    Clean t .null = false := by
  refine ⟨?_, ?_, ?_⟩
  · rw [readMergeDoc_eq, if_neg (by simp [Json.isObj]), patchAll_mh]
    simp [rdInto, mapply, mset]
  · simp [mergePatch]
  · simp [Clean]

/-! ### 7. the merge-strategy diff, purely (list reading of arrays) -/

mutual
/-- `diffNode o true a b p` on documents as read from text, in list mode: relative key paths and
    bare values (`void` = delete) -/
def dl (o : Opts) : Json → Json → List (List String × Json)
  | .obj kvs, b =>
    match b with
    | .obj kvs' =>
      dlKvs o kvs' kvs ++
        (kvs'.filter (fun kv => (alookup kv.1 kvs).isNone)).map (fun kv => ([kv.1], kv.2))
    | _ => [([], b)]
  | .arr _ xs, b =>
    match b with
    | .arr _ ys => if equals o (.arr .list xs) (.arr .list ys) then [] else [([], .arr .list ys)]
    | _ => [([], b)]
  | a, b => if equals [] a b then [] else [([], b)]
def dlKvs (o : Opts) (kvs' : List (String × Json)) :
    List (String × Json) → List (List String × Json)
  | [] => []
  | (k, v) :: r =>
    (match alookup k kvs' with
     | some v' => (dl o v v').map (consE k)
     | none => [([k], .void)]) ++ dlKvs o kvs' r
end

theorem nodeList_of_objVoidFree {v : Json} (h : objVoidFree v = true) : v.nodeList = [v] := by
  cases v <;> simp_all [Json.nodeList, Json.isVoid, objVoidFree]

theorem additions_eq (q : List String) (kvs : List (String × Json)) :
    ∀ (kvs' : List (String × Json)), objVoidFreeKvs kvs' = true →
      (kvs'.filter (fun kv => (alookup kv.1 kvs).isNone)).map (fun kv =>
          ({ merge := true, path := q.map .key ++ [.key kv.1], add := kv.2.nodeList } : Hunk))
        = ((kvs'.filter (fun kv => (alookup kv.1 kvs).isNone)).map
            (fun kv => ([kv.1], kv.2))).map (fun e => mh (q ++ e.1) e.2)
  | [], _ => rfl
  | (k, v) :: r, h => by
    simp only [objVoidFreeKvs, Bool.and_eq_true] at h
    have ih := additions_eq q kvs r h.2
    simp only [List.filter_cons]
    split
    · simp only [List.map_cons, ih, nodeList_of_objVoidFree h.1]
      simp [mh]
    · exact ih

def isArr : Json → Bool
  | .arr _ _ => true
  | _ => false

theorem dl_obj_obj (o : Opts) (kvs kvs' : List (String × Json)) :
    dl o (.obj kvs) (.obj kvs') = dlKvs o kvs' kvs ++
      (kvs'.filter (fun kv => (alookup kv.1 kvs).isNone)).map (fun kv => ([kv.1], kv.2)) := by
  simp [dl]

theorem dl_obj_other (o : Opts) (kvs : List (String × Json)) {b : Json} (hb : b.isObj = false) :
    dl o (.obj kvs) b = [([], b)] := by
  cases b <;> simp_all [dl, Json.isObj]

theorem dl_arr_arr (o : Opts) (t t' : Tag) (xs ys : List Json) :
    dl o (.arr t xs) (.arr t' ys)
      = if equals o (.arr .list xs) (.arr .list ys) then [] else [([], .arr .list ys)] := by
  simp [dl]

theorem dl_arr_other (o : Opts) (t : Tag) (xs : List Json) {b : Json} (hb : isArr b = false) :
    dl o (.arr t xs) b = [([], b)] := by
  cases b <;> simp_all [dl, isArr]

theorem dl_scalar (o : Opts) {a : Json} (h1 : a.isObj = false) (h2 : isArr a = false) (b : Json) :
    dl o a b = if equals [] a b then [] else [([], b)] := by
  cases a <;> simp_all [dl, Json.isObj, isArr]

theorem diffNode_scalar (o : Opts) {a : Json} (h1 : a.isObj = false) (h2 : isArr a = false)
    (b : Json) (p : Path) : diffNode o true a b p = diffCommon true a b p := by
  rw [diffNode.eq_def]
  cases a <;> simp_all [Json.isObj, isArr]

mutual
theorem diffNode_eq_dl (o : Opts) (ho : dispatchTag o = .list) :
    ∀ (a b : Json) (q : List String), a.rawDoc = true → b.rawDoc = true → objVoidFree b = true →
      diffNode o true a b (q.map .key) = (dl o a b).map (fun e => mh (q ++ e.1) e.2)
  | .obj kvs, b, q, ha, hb, hv => by
    rw [diffNode.eq_def]
    cases b with
    | obj kvs' =>
      simp only [Json.rawDoc, objVoidFree] at ha hb hv
      simp only [dl_obj_obj, List.map_append]
      rw [diffKvs_eq_dlKvs o ho kvs' hb hv kvs q ha, additions_eq q kvs kvs' hv]
    | _ => rw [dl_obj_other o kvs rfl]; simp [mh]
  | .arr t xs, b, q, ha, hb, hv => by
    simp only [Json.rawDoc, Bool.and_eq_true, beq_iff_eq] at ha
    obtain ⟨rfl, _⟩ := ha
    rw [diffNode.eq_def]
    have he : effTag o .raw = .list := by simp [effTag, ho]
    cases b with
    | arr t' ys =>
      simp only [Json.rawDoc, Bool.and_eq_true, beq_iff_eq] at hb
      obtain ⟨rfl, _⟩ := hb
      simp only [he, Json.dispatch, ho, beq_self_eq_true, if_true, dl_arr_arr]
      cases equals o (.arr .list xs) (.arr .list ys) <;> simp [mh, Json.nodeList, Json.isVoid]
    | _ => rw [dl_arr_other o _ xs rfl]; simp [he, Json.dispatch, mh]
  | .void, b, q, _, _, _ => by
    rw [diffNode_scalar o rfl rfl, dl_scalar o rfl rfl, diffCommon]; split <;> simp [mh]
  | .null, b, q, _, _, _ => by
    rw [diffNode_scalar o rfl rfl, dl_scalar o rfl rfl, diffCommon]; split <;> simp [mh]
  | .bool _, b, q, _, _, _ => by
    rw [diffNode_scalar o rfl rfl, dl_scalar o rfl rfl, diffCommon]; split <;> simp [mh]
  | .num _, b, q, _, _, _ => by
    rw [diffNode_scalar o rfl rfl, dl_scalar o rfl rfl, diffCommon]; split <;> simp [mh]
  | .str _, b, q, _, _, _ => by
    rw [diffNode_scalar o rfl rfl, dl_scalar o rfl rfl, diffCommon]; split <;> simp [mh]
theorem diffKvs_eq_dlKvs (o : Opts) (ho : dispatchTag o = .list) (kvs' : List (String × Json))
    (hb : rawDocKvs kvs' = true) (hv : objVoidFreeKvs kvs' = true) :
    ∀ (kvs : List (String × Json)) (q : List String), rawDocKvs kvs = true →
      diffKvs o true (q.map .key) kvs' kvs = (dlKvs o kvs' kvs).map (fun e => mh (q ++ e.1) e.2)
  | [], q, _ => by rw [diffKvs.eq_def, dlKvs]; rfl
  | (k, v) :: r, q, ha => by
    simp only [rawDocKvs, Bool.and_eq_true] at ha
    rw [diffKvs.eq_def, dlKvs]
    simp only [List.map_append]
    rw [diffKvs_eq_dlKvs o ho kvs' hb hv r q ha.2]
    congr 1
    cases hl : alookup k kvs' with
    | none => simp [mh]
    | some v' =>
      have := diffNode_eq_dl o ho v v' (q ++ [k]) ha.1 (alookup_rawDoc hl hb)
        (alookup_objVoidFree hl hv)
      simp only [List.map_append, List.map_cons, List.map_nil] at this
      simp only [this]
      simp [consE, Function.comp_def]
end

/-! ### 8. rendering the merge diff -/

/-- `void` (delete) is rendered as `null` -/
def nulE (e : List String × Json) : List String × Json := (e.1, if e.2.isVoid then .null else e.2)

/-- the hunks of the merge diff as `RenderMerge` applies them -/
def rl (o : Opts) (a b : Json) : List (List String × Json) := (dl o a b).map nulE

theorem renderMergeDoc_diffM (o : Opts) (ho : dispatchTag o = .list) (hm : isMerge o = true)
    (a b : Json) (ha : a.rawDoc = true) (hb : b.rawDoc = true) (hv : objVoidFree b = true) :
    renderMergeDoc (diffM o a b)
      = .ok (if dl o a b = [] then .obj [] else mapply (rl o a b) .void) := by
  have hd := diffNode_eq_dl o ho a b [] ha hb hv
  simp only [List.map_nil, List.nil_append] at hd
  unfold renderMergeDoc diffM
  rw [hm, hd]
  cases hdl : dl o a b with
  | nil => simp
  | cons e l =>
    have h1 : ((e :: l).map (fun e => mh e.1 e.2)).isEmpty = false := by simp
    have h2 : ((e :: l).map (fun e => mh e.1 e.2)).any (fun h => !h.merge) = false := by
      simp [mh]
    rw [h1, h2]
    simp only [Bool.false_eq_true, if_false, List.map_map]
    have h3 : ((fun h : Hunk => { h with add := h.add.map (fun v => if v.isVoid then Json.null else v) })
        ∘ fun e : List String × Json => mh e.1 e.2) = (fun e => mh e.1 e.2) ∘ nulE := by
      funext e; simp [mh, nulE]
    rw [h3, ← List.map_map, patchAll_mh]
    simp [rl, hdl]

/-! ### 9. RFC 7386 on wholesale values; reflexivity; objects compared member by member -/

mutual
/-- a null-free value used as a patch on a non-object target (or on nothing) is copied -/
theorem mergePatch_copy : ∀ (v : Json), v.wf = true → v.nullFree = true →
    ∀ t : Json, t.isObj = false → mergePatch t v = v
  | .obj kvs, hw, hn, t, ht => by
    simp only [Json.wf, Bool.and_eq_true] at hw
    simp only [Json.nullFree] at hn
    have hto : objKvs t = [] := by cases t <;> simp_all [objKvs, Json.isObj]
    rw [mergePatch_obj, hto]
    congr 1
    refine kvs_ext (keysSorted_mergeMembers _ _ rfl) hw.1 (fun j => ?_)
    rw [alookup_mergeMembers j kvs [] hw.1 rfl]
    cases hj : alookup j kvs with
    | none => simp [alookup]
    | some v =>
      obtain ⟨hnn, hcopy⟩ := mergePatch_copyKvs kvs hw.2 hn j v hj
      simp [hnn, getK, alookup, hcopy .void rfl]
  | .void, _, _, _, _ => by simp [mergePatch]
  | .null, _, _, _, _ => by simp [mergePatch]
  | .bool _, _, _, _, _ => by simp [mergePatch]
  | .num _, _, _, _, _ => by simp [mergePatch]
  | .str _, _, _, _, _ => by simp [mergePatch]
  | .arr _ _, _, _, _, _ => by simp [mergePatch]
theorem mergePatch_copyKvs : ∀ (kvs : List (String × Json)), wfKvs kvs = true →
    nullFreeKvs kvs = true → ∀ k v, alookup k kvs = some v →
      v.isNull = false ∧ ∀ t : Json, t.isObj = false → mergePatch t v = v
  | [], _, _, k, v, h => by simp [alookup] at h
  | (k0, v0) :: r, hw, hn, k, v, h => by
    simp only [wfKvs, nullFreeKvs, Bool.and_eq_true] at hw hn
    simp only [alookup] at h
    split at h
    · cases h
      refine ⟨?_, mergePatch_copy v0 hw.1 hn.1⟩
      cases v0 <;> simp_all [Json.isNull, Json.nullFree]
    · exact mergePatch_copyKvs r hw.2 hn.2 k v h
end

theorem equivB_refl_list (L : FloatLaws) (o : Opts) (ho : dispatchTag o = .list)
    (hp : nonnegBits (precOf o) = true) (b : Json) (hl : b.listDoc = true) (hw : b.wf = true)
    (hf : b.finiteNums = true) : equivB o b b = true := by
  rw [← equals_eq_equivB_list o ho b b hl hl]
  exact equals_refl_list L o ho hp b hl hw hf

/-- lookups of two objects related: both absent, or both present with equivalent values -/
def RelOpt (o : Opts) : Option Json → Option Json → Prop
  | some x, some y => equivB o x y = true
  | none, none => True
  | _, _ => False

theorem keysSorted_map {β γ} (f : β → γ) :
    ∀ {kvs : List (String × β)}, keysSorted kvs = true →
      keysSorted (kvs.map (fun kv => (kv.1, f kv.2))) = true
  | [], _ => rfl
  | [_], _ => rfl
  | (k, v) :: (k', v') :: r, h => by
    simp only [keysSorted, Bool.and_eq_true, decide_eq_true_eq] at h
    have ih := keysSorted_map f (kvs := (k', v') :: r) h.2
    simp only [List.map_cons] at ih ⊢
    simp only [keysSorted, Bool.and_eq_true, decide_eq_true_eq]
    exact ⟨h.1, ih⟩

theorem equivKvs_of_lookups (o : Opts) (Y : List (String × Json)) :
    ∀ (R : List (String × Json)),
      (∀ k v, (k, v) ∈ R → ∃ v', alookup k Y = some v' ∧ equivB o v v' = true) →
      equivKvs o R Y = true
  | [], _ => by rw [equivKvs]
  | (k, v) :: r, h => by
    rw [equivKvs]
    obtain ⟨v', hl, he⟩ := h k v List.mem_cons_self
    rw [hl]
    simp only [he, Bool.true_and]
    exact equivKvs_of_lookups o Y r (fun k0 v0 hm => h k0 v0 (List.mem_cons_of_mem _ hm))

theorem equivB_obj_of_lookups (o : Opts) {R Y : List (String × Json)}
    (hR : keysSorted R = true) (hY : keysSorted Y = true)
    (h : ∀ j, RelOpt o (alookup j R) (alookup j Y)) : equivB o (.obj R) (.obj Y) = true := by
  have hlen : R.length = Y.length := by
    have : R.map (fun kv => (kv.1, ())) = Y.map (fun kv => (kv.1, ())) := by
      refine kvs_ext (keysSorted_map (fun _ => ()) hR) (keysSorted_map (fun _ => ()) hY) (fun j => ?_)
      rw [alookup_map (fun _ => ()) j R, alookup_map (fun _ => ()) j Y]
      have := h j
      cases h1 : alookup j R <;> cases h2 : alookup j Y <;> simp_all [RelOpt]
    have := congrArg List.length this
    simpa using this
  have hk : equivKvs o R Y = true := by
    apply equivKvs_of_lookups
    intro k v hm
    have h1 := alookup_of_mem hR hm
    have := h k
    rw [h1] at this
    cases h2 : alookup k Y with
    | none => simp [h2, RelOpt] at this
    | some v' => exact ⟨v', rfl, by simpa [h2, RelOpt] using this⟩
  rw [equivB]
  simp [hlen, hk]

/-! ### 10. the rendered diff of two objects, as groups of hunks per key -/

/-- the hunks for a key of the first object -/
def grpA (o : Opts) (kvs' : List (String × Json)) (k : String) (v : Json) :
    List (List String × Json) :=
  match alookup k kvs' with
  | some v' => rl o v v'
  | none => [([], .null)]

def groupsA (o : Opts) (kvs' kvs : List (String × Json)) :
    List (String × List (List String × Json)) :=
  kvs.map (fun kv => (kv.1, grpA o kvs' kv.1 kv.2))

/-- the hunks for the keys only the second object has -/
def groupsB (kvs kvs' : List (String × Json)) : List (String × List (List String × Json)) :=
  (kvs'.filter (fun kv => (alookup kv.1 kvs).isNone)).map (fun kv => (kv.1, [([], kv.2)]))

theorem flatG_append (A B : List (String × List (List String × Json))) :
    flatG (A ++ B) = flatG A ++ flatG B := by simp [flatG]

theorem nulE_consE (k : String) (l : List (List String × Json)) :
    (l.map (consE k)).map nulE = (l.map nulE).map (consE k) := by
  rw [List.map_map, List.map_map]; rfl

theorem dlKvs_groups (o : Opts) (kvs' : List (String × Json)) :
    ∀ kvs : List (String × Json), (dlKvs o kvs' kvs).map nulE = flatG (groupsA o kvs' kvs)
  | [] => by simp [dlKvs, groupsA, flatG]
  | (k, v) :: r => by
    have ih := dlKvs_groups o kvs' r
    rw [dlKvs, List.map_append, ih]
    have : flatG (groupsA o kvs' ((k, v) :: r))
        = (grpA o kvs' k v).map (consE k) ++ flatG (groupsA o kvs' r) := by
      simp [flatG, groupsA]
    rw [this]
    congr 1
    unfold grpA
    cases alookup k kvs' with
    | none => simp [nulE, consE, Json.isVoid]
    | some v' => simp only [nulE_consE]; rfl

theorem additions_groups (kvs : List (String × Json)) :
    ∀ kvs' : List (String × Json), objVoidFreeKvs kvs' = true →
      ((kvs'.filter (fun kv => (alookup kv.1 kvs).isNone)).map (fun kv => ([kv.1], kv.2))).map nulE
        = flatG (groupsB kvs kvs')
  | [], _ => by simp [groupsB, flatG]
  | (k, v) :: r, h => by
    simp only [objVoidFreeKvs, Bool.and_eq_true] at h
    have ih := additions_groups kvs r h.2
    have hvv : v.isVoid = false := by cases v <;> simp_all [Json.isVoid, objVoidFree]
    simp only [groupsB, List.filter_cons] at ih ⊢
    split
    · simp only [List.map_cons, ih]
      simp [flatG, nulE, consE, hvv]
    · exact ih

theorem rl_obj_obj (o : Opts) (kvs kvs' : List (String × Json))
    (hv : objVoidFreeKvs kvs' = true) :
    rl o (.obj kvs) (.obj kvs') = flatG (groupsA o kvs' kvs ++ groupsB kvs kvs') := by
  rw [rl, dl_obj_obj, List.map_append, dlKvs_groups, additions_groups kvs kvs' hv, flatG_append]

theorem alookup_mapk {β γ} (f : String → β → γ) (j : String) :
    ∀ (kvs : List (String × β)),
      alookup j (kvs.map (fun kv => (kv.1, f kv.1 kv.2))) = (alookup j kvs).map (f j)
  | [] => rfl
  | (k0, v0) :: r => by
    simp only [List.map_cons, alookup]
    split
    · rename_i he; subst he; rfl
    · exact alookup_mapk f j r

theorem alookup_append {β} (j : String) (B : List (String × β)) :
    ∀ (A : List (String × β)),
      alookup j (A ++ B) = match alookup j A with | some x => some x | none => alookup j B
  | [] => rfl
  | (k0, v0) :: r => by
    simp only [List.cons_append, alookup]
    split
    · rfl
    · exact alookup_append j B r

theorem alookup_filter {β} (P : String → Bool) (j : String) :
    ∀ (kvs : List (String × β)),
      alookup j (kvs.filter (fun kv => P kv.1)) = if P j then alookup j kvs else none
  | [] => by simp [alookup]
  | (k0, v0) :: r => by
    have ih := alookup_filter P j r
    simp only [List.filter_cons]
    by_cases hk : j = k0
    · subst hk
      cases hp : P j <;> simp_all [alookup]
    · cases hp : P k0 <;> simp_all [alookup]

theorem groups_lookup (o : Opts) (kvs kvs' : List (String × Json)) (j : String) :
    alookup j (groupsA o kvs' kvs ++ groupsB kvs kvs') = match alookup j kvs with
      | some v => some (grpA o kvs' j v)
      | none => (alookup j kvs').map (fun v' => [([], v')]) := by
  rw [alookup_append, groupsA, alookup_mapk (fun k v => grpA o kvs' k v) j kvs]
  cases hj : alookup j kvs with
  | some v => rfl
  | none =>
    simp only [Option.map_none]
    rw [groupsB, alookup_mapk (fun _ v => [(([] : List String), v)]) j,
      alookup_filter (fun k => (alookup k kvs).isNone) j kvs']
    simp [hj]

theorem groups_nodup (o : Opts) {kvs kvs' : List (String × Json)} (hs : keysSorted kvs = true)
    (hs' : keysSorted kvs' = true) :
    ((groupsA o kvs' kvs ++ groupsB kvs kvs').map Prod.fst).Nodup := by
  have hA : (groupsA o kvs' kvs).map Prod.fst = kvs.map Prod.fst := by
    simp [groupsA, Function.comp_def]
  have hB : (groupsB kvs kvs').map Prod.fst
      = (kvs'.filter (fun kv => (alookup kv.1 kvs).isNone)).map Prod.fst := by
    simp [groupsB, Function.comp_def]
  rw [List.map_append, hA, hB, List.nodup_append]
  refine ⟨keysSorted_nodup hs, ?_, ?_⟩
  · exact (keysSorted_nodup hs').sublist (List.Sublist.map _ List.filter_sublist)
  · intro k hk k' hk' he
    subst he
    obtain ⟨⟨k1, v1⟩, hm1, rfl⟩ := List.mem_map.1 hk
    obtain ⟨⟨k2, v2⟩, hm2, he2⟩ := List.mem_map.1 hk'
    simp only at he2
    subst he2
    have := (List.mem_filter.1 hm2).2
    rw [alookup_of_mem hs hm1] at this
    simp at this

theorem mapply_flatG_nonobj (groups : List (String × List (List String × Json))) {t : Json}
    (ht : t.isObj = false) (hne : flatG groups ≠ []) :
    mapply (flatG groups) t = mapply (flatG groups) (.obj []) := by
  cases hf : flatG groups with
  | nil => exact absurd hf hne
  | cons e l =>
    have hm : e ∈ flatG groups := by rw [hf]; exact List.mem_cons_self
    simp only [flatG, List.mem_flatMap, List.mem_map] at hm
    obtain ⟨kg, _, e', _, rfl⟩ := hm
    simp only [mapply, List.foldl_cons, consE]
    rw [mset_nonobj ht]

/-! ### 11. C11: the rendered merge patch, applied by RFC 7386, yields the second document -/

theorem alookup_nullFree {k : String} {v : Json} :
    ∀ {kvs : List (String × Json)}, alookup k kvs = some v → nullFreeKvs kvs = true →
      v.nullFree = true
  | [], h, _ => by simp [alookup] at h
  | (k', v') :: r, h, hd => by
    simp only [nullFreeKvs, Bool.and_eq_true] at hd
    simp only [alookup] at h
    split at h
    · cases h; exact hd.1
    · exact alookup_nullFree h hd.2

theorem alookup_finiteNums {k : String} {v : Json} :
    ∀ {kvs : List (String × Json)}, alookup k kvs = some v → finiteNumsKvs kvs = true →
      v.finiteNums = true
  | [], h, _ => by simp [alookup] at h
  | (k', v') :: r, h, hd => by
    simp only [finiteNumsKvs, Bool.and_eq_true] at hd
    simp only [alookup] at h
    split at h
    · cases h; exact hd.1
    · exact alookup_finiteNums h hd.2

/-- the hypotheses on the second document: as read from JSON text (unique keys, plain arrays, no
    void, finite numbers) and null-free -/
structure GoodB (b : Json) : Prop where
  wf : b.wf = true
  raw : b.rawDoc = true
  nf : b.nullFree = true
  vf : objVoidFree b = true
  fin : b.finiteNums = true

theorem GoodB.member {kvs' : List (String × Json)} (G : GoodB (.obj kvs')) {j : String} {v' : Json}
    (h : alookup j kvs' = some v') : GoodB v' := by
  obtain ⟨h1, h2, h3, h4, h5⟩ := G
  simp only [Json.wf, Json.rawDoc, Json.nullFree, objVoidFree, Json.finiteNums,
    Bool.and_eq_true] at h1 h2 h3 h4 h5
  exact ⟨alookup_wf h h1.2, alookup_rawDoc h h2, alookup_nullFree h h3, alookup_objVoidFree h h4,
    alookup_finiteNums h h5⟩

theorem GoodB.notVoid {b : Json} (G : GoodB b) : b.isVoid = false := by
  have := G.vf; cases b <;> simp_all [Json.isVoid, objVoidFree]

theorem GoodB.notNull {b : Json} (G : GoodB b) : b.isNull = false := by
  have := G.nf; cases b <;> simp_all [Json.isNull, Json.nullFree]

/-- what is proved of a pair of documents: an empty diff means equivalent documents; a non-empty
    diff renders to a patch document (not void, not null) that RFC 7386 turns `a` into `b` with -/
def Sound (o : Opts) (a b : Json) : Prop :=
  (dl o a b = [] → equivB o a b = true) ∧
  (dl o a b ≠ [] →
    (mapply (rl o a b) .void).isVoid = false ∧ (mapply (rl o a b) .void).isNull = false ∧
    equivB o (mergePatch a (mapply (rl o a b) .void)) b = true)

theorem sound_of_nil {o : Opts} {a b : Json} (h : dl o a b = []) (he : equivB o a b = true) :
    Sound o a b := ⟨fun _ => he, fun hne => absurd h hne⟩

theorem sound_of_single {o : Opts} {a b x : Json} (h : dl o a b = [([], x)])
    (hv : x.isVoid = false) (hn : x.isNull = false) (he : equivB o (mergePatch a x) b = true) :
    Sound o a b := by
  have hm : mapply (rl o a b) .void = x := by simp [rl, h, nulE, hv, mapply, mset]
  refine ⟨fun h0 => by simp [h] at h0, fun _ => ?_⟩
  rw [hm]; exact ⟨hv, hn, he⟩

theorem GoodB.refl (L : FloatLaws) (o : Opts) (ho : dispatchTag o = .list) (hprec : precOf o = 0)
    {b : Json} (G : GoodB b) : equivB o b b = true :=
  equivB_refl_list L o ho (by rw [hprec]; decide) b (rawDoc_listDoc b G.raw) G.wf G.fin

/-- the second document is taken wholesale -/
theorem sound_wholesale (L : FloatLaws) (o : Opts) (ho : dispatchTag o = .list)
    (hprec : precOf o = 0) {a b : Json} (h : dl o a b = [([], b)])
    (hab : a.isObj = false ∨ b.isObj = false) (G : GoodB b) : Sound o a b := by
  refine sound_of_single h G.notVoid G.notNull ?_
  have : mergePatch a b = b := by
    rcases hab with ha | hb
    · exact mergePatch_copy b G.wf G.nf a ha
    · cases b <;> simp_all [mergePatch, Json.isObj]
  rw [this]; exact G.refl L o ho hprec

theorem equivB_of_equals_nil_scalar (o : Opts) (hprec : precOf o = 0) {a b : Json}
    (h1 : a.isObj = false) (h2 : isArr a = false)
    (he : equals [] a b = true) : equivB o a b = true := by
  cases a <;> cases b <;>
    simp_all [equals, equivB, Json.isObj, isArr, Json.isVoid, Json.isNull, precOf]

theorem sound_scalar (L : FloatLaws) (o : Opts) (ho : dispatchTag o = .list)
    (hprec : precOf o = 0) {a b : Json} (h1 : a.isObj = false) (h2 : isArr a = false) (G : GoodB b) :
    Sound o a b := by
  have hd := dl_scalar o h1 h2 b
  cases he : equals [] a b with
  | true =>
    rw [he, if_pos rfl] at hd
    exact sound_of_nil hd (equivB_of_equals_nil_scalar o hprec h1 h2 he)
  | false =>
    rw [he] at hd
    exact sound_wholesale L o ho hprec (by simpa using hd) (Or.inl h1) G

mutual
theorem sound (L : FloatLaws) (o : Opts) (ho : dispatchTag o = .list) (hprec : precOf o = 0) :
    ∀ (a : Json), a.wf = true → a.rawDoc = true → ∀ b : Json, GoodB b → Sound o a b
  | .obj kvs, hw, hr, b, G => by
    cases b with
    | obj kvs' =>
      simp only [Json.wf, Bool.and_eq_true] at hw
      simp only [Json.rawDoc] at hr
      have hs' : keysSorted kvs' = true := by
        have := G.wf; simp only [Json.wf, Bool.and_eq_true] at this; exact this.1
      have hvf : objVoidFreeKvs kvs' = true := by simpa [objVoidFree] using G.vf
      have hrl := rl_obj_obj o kvs kvs' hvf
      obtain ⟨acc', he, hsa, hl⟩ := mapply_groups (groupsA o kvs' kvs ++ groupsB kvs kvs') []
        (fun _ _ _ => by simp [alookup]) (groups_nodup o hw.1 hs') rfl
      -- the patch document, member by member, against `b`
      have key : equivB o (mergePatch (.obj kvs) (.obj acc')) (.obj kvs') = true := by
        rw [mergePatch_obj]
        refine equivB_obj_of_lookups o (keysSorted_mergeMembers _ _ hw.1) hs' (fun j => ?_)
        have hlj := hl j
        rw [groups_lookup] at hlj
        rw [alookup_mergeMembers j acc' (objKvs (.obj kvs)) hsa hw.1, hlj]
        simp only [objKvs]
        have hgv : getK j ([] : List (String × Json)) = .void := rfl
        cases hja : alookup j kvs with
        | some v =>
          simp only [grpA]
          cases hjb : alookup j kvs' with
          | some v' =>
            have S := soundKvs L o ho hprec kvs hw.2 hr j v hja v' (G.member hjb)
            simp only [hgv]
            by_cases hd : dl o v v' = []
            · have : rl o v v' = [] := by simp [rl, hd]
              simp only [this, mapply, List.foldl_nil, toOpt, Json.isVoid, if_true]
              exact S.1 hd
            · obtain ⟨h1, h2, h3⟩ := S.2 hd
              simp only [toOpt, h1, Bool.false_eq_true, if_false, h2, getK, hja, Option.getD_some]
              exact h3
          | none =>
            simp [hgv, mapply, mset, toOpt, Json.isVoid, Json.isNull, RelOpt]
        | none =>
          cases hjb : alookup j kvs' with
          | none => simp [RelOpt, alookup]
          | some v' =>
            have Gv := G.member hjb
            simp only [Option.map_some, mapply, List.foldl_cons, List.foldl_nil, mset, toOpt,
              Gv.notVoid, Bool.false_eq_true, if_false, Gv.notNull, getK, hja, Option.getD_none]
            rw [mergePatch_copy v' Gv.wf Gv.nf .void rfl]
            exact Gv.refl L o ho hprec
      constructor
      · intro hd
        have h0 : rl o (.obj kvs) (.obj kvs') = [] := by simp [rl, hd]
        rw [← hrl, h0] at he
        simp only [mapply, List.foldl_nil, Json.obj.injEq] at he
        subst he
        have : mergePatch (.obj kvs) (.obj []) = .obj kvs := by
          simp [mergePatch, mergeMembers]
        rw [this] at key
        exact key
      · intro hd
        have hne : flatG (groupsA o kvs' kvs ++ groupsB kvs kvs') ≠ [] := by
          rw [← hrl]; simpa [rl] using hd
        rw [hrl, mapply_flatG_nonobj _ (t := .void) rfl hne, he]
        exact ⟨rfl, rfl, key⟩
    | _ => exact sound_wholesale L o ho hprec (dl_obj_other o kvs rfl) (Or.inr rfl) G
  | .arr t xs, hw, hr, b, G => by
    cases b with
    | arr t' ys =>
      have hd := dl_arr_arr o t t' xs ys
      have hxs : listDocList xs = true := by
        have := rawDoc_listDoc _ hr; simp only [Json.listDoc, Bool.and_eq_true] at this; exact this.2
      have hys : listDocList ys = true := by
        have := rawDoc_listDoc _ G.raw
        simp only [Json.listDoc, Bool.and_eq_true] at this; exact this.2
      cases he : equals o (.arr .list xs) (.arr .list ys) with
      | true =>
        rw [he, if_pos rfl] at hd
        refine sound_of_nil hd ?_
        rw [equals_arr_list ho xs ys rfl rfl, equalsList_eq_equivList o ho xs ys hxs hys] at he
        simpa [equivB, ho] using he
      | false =>
        rw [he] at hd
        refine sound_of_single (by simpa using hd) rfl rfl ?_
        have := G.refl L o ho hprec
        simpa [mergePatch, equivB, ho] using this
    | _ => exact sound_wholesale L o ho hprec (dl_arr_other o t xs rfl) (Or.inl rfl) G
  | .void, _, _, b, G => sound_scalar L o ho hprec rfl rfl G
  | .null, _, _, b, G => sound_scalar L o ho hprec rfl rfl G
  | .bool _, _, _, b, G => sound_scalar L o ho hprec rfl rfl G
  | .num _, _, _, b, G => sound_scalar L o ho hprec rfl rfl G
  | .str _, _, _, b, G => sound_scalar L o ho hprec rfl rfl G
theorem soundKvs (L : FloatLaws) (o : Opts) (ho : dispatchTag o = .list) (hprec : precOf o = 0) :
    ∀ (kvs : List (String × Json)), wfKvs kvs = true → rawDocKvs kvs = true →
    ∀ k v, alookup k kvs = some v → ∀ b : Json, GoodB b → Sound o v b
  | [], _, _, k, v, h => by simp [alookup] at h
  | (k0, v0) :: r, hw, hr, k, v, h => by
    simp only [wfKvs, rawDocKvs, Bool.and_eq_true] at hw hr
    simp only [alookup] at h
    split at h
    · cases h; exact sound L o ho hprec v0 hw.1 hr.1
    · exact soundKvs L o ho hprec r hw.2 hr.2 k v h
end

/-- C11, MERGE option alone (list reading of arrays, no Precision): for documents as read from JSON
    text, `b` null-free, that `Equals` tells apart, the diff renders to a JSON Merge Patch document
    `m` and RFC 7386 `MergePatch(a, m)` is `b` (up to the advertised equivalence, which ignores
    the Go dynamic type of array nodes).
    `a` needs unique keys and plain arrays only (it may contain `null`s: they are overwritten or
    deleted, never kept, because an empty sub-diff means equal members). -/
theorem merge_render_correct (L : FloatLaws) (o : Opts) (hm : isMerge o = true)
    (ho : dispatchTag o = .list) (hprec : precOf o = 0) (a b : Json)
    (haw : a.wf = true) (har : a.rawDoc = true)
    (hbw : b.wf = true) (hbr : b.rawDoc = true) (hbn : b.nullFree = true)
    (hbv : objVoidFree b = true) (hbf : b.finiteNums = true)
    (hne : equals o a b = false) :
    ∃ m, renderMergeDoc (diffM o a b) = .ok m ∧ equivB o (mergePatch a m) b = true := by
  have G : GoodB b := ⟨hbw, hbr, hbn, hbv, hbf⟩
  have S := sound L o ho hprec a haw har b G
  rw [renderMergeDoc_diffM o ho hm a b har hbr hbv]
  by_cases hd : dl o a b = []
  · have := S.1 hd
    rw [← equals_eq_equivB_list o ho a b (rawDoc_listDoc a har) (rawDoc_listDoc b hbr), hne] at this
    cases this
  · rw [if_neg hd]
    exact ⟨_, rfl, (S.2 hd).2.2⟩

/-- the same without the hypothesis `a ≠ b` when the first document is an object: the empty diff
    renders to `{}`, which RFC 7386 applies as the identity on objects -/
theorem merge_render_correct_obj (L : FloatLaws) (o : Opts) (hm : isMerge o = true)
    (ho : dispatchTag o = .list) (hprec : precOf o = 0) (a b : Json)
    (haw : a.wf = true) (har : a.rawDoc = true)
    (hbw : b.wf = true) (hbr : b.rawDoc = true) (hbn : b.nullFree = true)
    (hbv : objVoidFree b = true) (hbf : b.finiteNums = true)
    (hobj : a.isObj = true) :
    ∃ m, renderMergeDoc (diffM o a b) = .ok m ∧ equivB o (mergePatch a m) b = true := by
  have G : GoodB b := ⟨hbw, hbr, hbn, hbv, hbf⟩
  have S := sound L o ho hprec a haw har b G
  rw [renderMergeDoc_diffM o ho hm a b har hbr hbv]
  by_cases hd : dl o a b = []
  · rw [if_pos hd]
    refine ⟨_, rfl, ?_⟩
    have : mergePatch a (.obj []) = a := by
      cases a <;> simp_all [Json.isObj, mergePatch, mergeMembers]
    rw [this]; exact S.1 hd
  · rw [if_neg hd]
    exact ⟨_, rfl, (S.2 hd).2.2⟩

/-- C11 for the option list `[MERGE]` itself -/
theorem merge_render_correct_MERGE (L : FloatLaws) (a b : Json)
    (haw : a.wf = true) (har : a.rawDoc = true)
    (hbw : b.wf = true) (hbr : b.rawDoc = true) (hbn : b.nullFree = true)
    (hbv : objVoidFree b = true) (hbf : b.finiteNums = true)
    (hne : equals [.merge] a b = false) :
    ∃ m, renderMergeDoc (diffM [.merge] a b) = .ok m ∧
      equivB [.merge] (mergePatch a m) b = true :=
  merge_render_correct L [.merge] rfl rfl rfl a b haw har hbw hbr hbn hbv hbf hne

/-- the rendered patch is a proper merge patch document: never void, and `null` never at the root -/
theorem merge_render_doc (L : FloatLaws) (o : Opts) (hm : isMerge o = true)
    (ho : dispatchTag o = .list) (hprec : precOf o = 0) (a b : Json)
    (haw : a.wf = true) (har : a.rawDoc = true)
    (hbw : b.wf = true) (hbr : b.rawDoc = true) (hbn : b.nullFree = true)
    (hbv : objVoidFree b = true) (hbf : b.finiteNums = true) :
    ∃ m, renderMergeDoc (diffM o a b) = .ok m ∧ m.isVoid = false ∧ m.isNull = false := by
  have G : GoodB b := ⟨hbw, hbr, hbn, hbv, hbf⟩
  have S := sound L o ho hprec a haw har b G
  rw [renderMergeDoc_diffM o ho hm a b har hbr hbv]
  by_cases hd : dl o a b = []
  · rw [if_pos hd]; exact ⟨_, rfl, rfl, rfl⟩
  · rw [if_neg hd]; exact ⟨_, rfl, (S.2 hd).1, (S.2 hd).2.1⟩

end Jd.Merge

#print axioms Jd.Merge.merge_read_apply_iff
#print axioms Jd.Merge.merge_read_apply_partial
#print axioms Jd.Merge.merge_read_apply_unclean
#print axioms Jd.Merge.merge_read_apply_partial_untag
#print axioms Jd.Merge.witness_root_empty_object
#print axioms Jd.Merge.witness_nested_empty_object
#print axioms Jd.Merge.witness_root_null
#print axioms Jd.Merge.merge_render_correct
#print axioms Jd.Merge.merge_render_correct_MERGE
#print axioms Jd.Merge.merge_render_correct_obj
#print axioms Jd.Merge.merge_render_doc
