/-
  JdProofs.CliExitCodesV1 (namespace `Jd.CliExitV1`) — property C05, second sentence ("the CLI exits
  0 exactly when the two inputs are equal under the flags given and 1 exactly when they differ"),
  and C14 ("exit 0 when there is no difference, 1 when there is, 2 on any error"), for the V1
  LIBRARY: binary B (/repo/main.go) started with `-v2=false` calls package `lib` (`printDiff` →
  `diff(a, b, metadata)`).  JdProofs.CliExitCodes proves the clause for the v2 library only.

  HOW v1 MODE DECIDES THE EXIT STATUS (main.go `diff`, lines 315-368; same three tests as `diffV2`):
    native  `str = diff.Render(renderOptions...)`, `haveDiff = str != ""`   (from the TEXT)
    patch   `str, err = diff.RenderPatch()`; err → exit 2; `haveDiff = str != "[]"` (from the TEXT)
    merge   `str, err = diff.RenderMerge()`; err → exit 2; `haveDiff = len(diff) > 0` (from the DIFF)
  and `printDiff` exits 1 when `haveDiff`, else 0 (after printing / writing `-o`; a write error exits
  2).  This is `Cli.diffCore` / `Cli.run`, which do not depend on the library; the process model is
  `CliRT.proc Ls b fl e` with `Ls true = v1Lib nc Y` (JdProofs.CliRoundTripV1).

  SETTING.  `DiffRun nc Y Ls b fl e a b'`: `Ls true` is the v1 library of the model, `fl` is a diff
  command line, `libIsV1 b fl = true`, one or two arguments, both inputs are read and parse (v1
  reader for `-yaml`) to `a`, `b'`, writing `-o` succeeds where asked for.  `opts` with
  `parsedOptions b fl = ok opts` is the metadata list in v2 naming; `metasOf opts` is the
  `[]jd.Metadata` (`CliV1.metasOf_parsedOptions`).  `dOf opts a b' = V1.diffM (metasOf opts) a b'`.

  §1  `exit_of_render`, `exit_of_render_error` — for ANY `Lib`: exit = `firstExit` when the renderer
      returns a text, 2 when it returns an error.
  §2  `exit_cases` — the two ways a v1 diff run ends.
  §3  `renderM_empty_iff` (`V1.renderM … = ok (some T) → (T = "" ↔ d = [])`),
      `renderPatchM_text_iff` (`T = "[]" ↔ d = [] ∨ renderPatchOps d = ok []`).
  §4  `jd_exit` (never 2; empty diff → 0; when `Render` succeeds 0 ↔ d = [], 1 ↔ d ≠ []),
      `merge_exit`, `patch_exit` (exact three-way characterisations), `exit_zero_of_nil`.
  §5  LIST reading of the v1 library = `V1Pr.ListReading` (no SET / MULTISET / MERGE; ANY `Setkeys`,
      ANY precision): `lr_vals` (the values of the hunks are parts of the documents — generalises
      `V1T.diff_valsP` from precision 0 — and every hunk removes or adds a non-void value or holds
      no value), `diffM_nil_of_no_ops` (a list-reading diff that renders to no JSON Patch operation
      is empty: NO hypothesis on void markers), `lr_idx` (list indices in paths: -1 or below `N`;
      generalises `V1R.diff_shape`).
  §6  TARGETS, list reading (`ListFlags`: no `-set`, no `-mset`; any `-setkeys`, ANY `-precision`):
      `cli_exit_iff_equal_list` (native): exit 0 ↔ `V1.equals (metasOf opts) a b'`, exit 1 ↔ not,
        never 2.  Hypotheses: `a.rawDoc`, `a.wf`, `b'.listDoc`, `b'.wf` (those of
        `V1Pr.v1_diff_empty_iff_equals_precision`) and `hren`: `Render` succeeds on the model.
        NO hash hypothesis, NO float hypothesis; TRUE FOR EVERY PRECISION (v1 `Diff` compares
        numbers with the metadata) — unlike the v2 library (KF-C05-precision).
      `cli_equal_exit_zero_list` (Equal ⇒ exit 0; native and patch; no `hren`).
      `cli_exit_iff_equal_list_patch`: 0 ↔ Equal; 1 ↔ ¬Equal ∧ RenderPatch ok; 2 ↔ ¬Equal ∧
        RenderPatch error.   `cli_exit_iff_equal_list_merge` (`-f merge`, any precision): same
        shape with RenderMerge; extra hypothesis `Merge.objVoidFree b'`.
      `renderM_any_color`, `lr_contract`, `lr_render_ok`, `cli_exit_iff_equal_list_docs`: `hren`
        DISCHARGED from hypotheses on the two documents (`Yaml.voidFree`, `JText.NumOK nc`,
        `lenLe N a`) and `IdxNumOK nc N`, with or without `-color`, any precision.
      `v1_native_cli_round_trip_precision_docs`: the `-p` round trip with `-precision` with the
        codec contract `hp` / `hv` of `CliV1.v1_native_cli_round_trip_precision` discharged.
      JSON inputs (`DiffRun.shape`): `cli_exit_iff_equal_list_json` (only `hren` left),
        `cli_exit_iff_equal_list_patch_json` (NO hypothesis on the documents),
        `cli_exit_iff_equal_list_merge_json` (second file not blank),
        `cli_exit_iff_equal_list_docs_json`.
  §7  `-set` / `-mset` (`SetFlags`: no `-setkeys`, precision 0), relative to `V1S.HashFaithful`:
      `cli_exit_iff_equal_set` (native), `cli_equal_exit_zero_set`, `cli_exit_iff_equal_set_merge`;
      with `-setkeys`: `cli_exit_iff_equal_set_setkeys` (relative to `V1K.KeysHyp`),
      `cli_exit_iff_equal_mset_setkeys` (`-mset`, any `-setkeys`).  `metas_keys`.
  §8  `cli_exit_codes_list_patch` (no key `-`: never exit 2), `cli_exit_codes_list_merge`.
  §9  `Example.ex_list_differ`, `Example.ex_precision_exit_zero`, `Example.ex_set_equal`;
      `Witness.dash_key_exit_two` (`{"-":true}` / `{}` with `-f patch`: not Equal, exit 2),
      `Witness.render_artifact` (why `hren` is asked for on the model).

  NOT PROVED: the codec contract `hp` / `hv` of `CliV1.v1_setmodes_cli_round_trip` from the input
  documents (needs the analogue of `lr_vals` for the set readings: the induction of
  `V1S.shape_node` carrying a part-closed predicate); `hren` from the documents for `-set` /
  `-mset` (same gap); `-set` / `-mset` with `-f patch` in the direction exit 0 ⇒ Equal (a non-empty
  set diff holds metadata path elements, `RenderPatch` refuses it: evaluated on the model, exit 2);
  (exit 0 ⇒ Equal) for sets WITHOUT `HashFaithful` (the v1 library theorems give the equivalence
  only under it); `-precision=-0` with `-set` / `-mset`.
-/
import JdProofs.CliRoundTripV1
import JdProofs.CliExitCodes
import JdProofs.V1PrecisionMerge
import JdProofs.V1PrecisionModes
import JdProofs.V1KeysDiffPatchA
import JdProofs.V1KeysDiffPatchB
import JdProofs.V1KeysDiffPatchC
import JdProofs.V1KeysDiffPatchE
import JdProofs.RfcTextLevel

set_option linter.unusedVariables false
set_option autoImplicit false

namespace Jd.CliExitV1
open Jd Jd.Spec Jd.Cli Jd.CliRT Jd.CliRTM Jd.CliV1

/-! ## 1. the exit status of a diff run, for ANY library `L` (on `cliM` and the harness results) -/

section Generic
variable {N D : Type}

/-- a diff run in which both inputs are read and parsed and the renderer of the format returns a
    text: exit status `firstExit` (`haveDiff` of `main`), the text is what leaves the program -/
theorem exit_of_render (L : Lib N D) (b : Binary) {fl : Flags} {e : Env} {opts : List Opt}
    {fmt : Format} (hm : isDiffMode fl) (hn : fl.nargs = 1 ∨ fl.nargs = 2)
    (ho : parsedOptions b fl = .ok opts) (hf : formatOf fl.f = some fmt)
    {ta tb : String} {a b' : N}
    (hi1 : e.in1 = .ok ta) (hi2 : e.in2 = .ok tb) (hw : fl.o = "" ∨ e.write = .ok ())
    (hra : L.readDoc fl.yaml ta = .ok a) (hrb : L.readDoc fl.yaml tb = .ok b')
    {T : String} (hren : renderAs L fmt fl.color (L.diff opts a b') = .ok T) :
    (cliM b fl (resultsDiff L opts fl.color fl e)).exit = firstExit L fmt (L.diff opts a b') T ∧
    emitted (cliM b fl (resultsDiff L opts fl.color fl e)) = T ∧
    (cliM b fl (resultsDiff L opts fl.color fl e)).stderr = "" := by
  have hR : libRendering fl (resultsDiff L opts fl.color fl e) = some T := by
    cases fmt <;>
      simp [libRendering, hf, resultsDiff, hi1, hi2, hra, hrb, renderAs, okText] at hren ⊢
    · exact hren
    · rw [hren]
    · rw [hren]
  have hrun1 := run_diff_ok (b := b) (r := resultsDiff L opts fl.color fl e) hm hn ho
    (by simp [resultsDiff, hi1]) (by simp [resultsDiff, hi2])
    (by simp [resultsDiff, hi1, hra]) (by simp [resultsDiff, hi2, hrb]) hR
    (by rcases hw with hw | hw
        · exact .inl hw
        · exact .inr (by simp [resultsDiff, hw]))
  have hcode : (if haveDiff fl (resultsDiff L opts fl.color fl e) T = true then 1 else 0)
      = firstExit L fmt (L.diff opts a b') T := by
    cases fmt <;> simp [haveDiff, hf, firstExit, resultsDiff, hi1, hi2, hra, hrb]
  rw [hcode] at hrun1
  unfold cliM
  rw [hrun1]
  obtain ⟨y1, y2, y3, _, _⟩ := outcome_emit b (firstExit L fmt (L.diff opts a b') T) T (fl.o != "")
  exact ⟨y1, y2, y3⟩

/-- a diff run in which the renderer of the format returns an error exits 2 -/
theorem exit_of_render_error (L : Lib N D) (b : Binary) {fl : Flags} {e : Env} {opts : List Opt}
    {fmt : Format} (hm : isDiffMode fl) (hn : fl.nargs = 1 ∨ fl.nargs = 2)
    (ho : parsedOptions b fl = .ok opts) (hf : formatOf fl.f = some fmt)
    {ta tb : String} {a b' : N}
    (hi1 : e.in1 = .ok ta) (hi2 : e.in2 = .ok tb)
    (hra : L.readDoc fl.yaml ta = .ok a) (hrb : L.readDoc fl.yaml tb = .ok b')
    {msg : String} (hren : renderAs L fmt fl.color (L.diff opts a b') = .error msg) :
    (cliM b fl (resultsDiff L opts fl.color fl e)).exit = 2 := by
  rw [exit_two_iff_error]
  have hmode := modeOf_diff hm
  obtain ⟨hv, hp, hg, hpp, ht⟩ := hm
  refine ⟨.error (.msg msg), ?_, _, rfl⟩
  have hpt : (fl.p && fl.t != "") = false := by simp [hpp]
  simp only [checks, hv, hp, hg, inputsOf_of_nargs ht hn, hmode, hpt, renderChecks, hf]
  cases fmt with
  | jd => simp [renderAs] at hren
  | patch =>
    simp only [renderAs] at hren
    simp [resultsDiff, hi1, hi2, hra, hrb, hren]
  | merge =>
    simp only [renderAs] at hren
    simp [resultsDiff, hi1, hi2, hra, hrb, hren]

end Generic

/-! ## 2. the situation for the v1 library, and the two ways a diff run ends -/

/-- THE SITUATION: a diff command line (`jd -v2=false [flags] FILE1 [FILE2]`) of binary B run with
    the v1 library (`Ls true` is the v1 library of the model), both inputs are read and parse (with
    the v1 reader for `-yaml`) to `a` and `b'`, writing the `-o` file (if asked for) succeeds. -/
structure DiffRun (nc : NumCodec) (Y : YamlCarrier) (Ls : Bool → LibPack) (b : Binary) (fl : Flags)
    (e : Env) (a b' : Json) : Prop where
  lib   : Ls true = ⟨Json, V1.PDiff, v1Lib nc Y⟩
  mode  : isDiffMode fl
  v1    : libIsV1 b fl = true
  nargs : fl.nargs = 1 ∨ fl.nargs = 2
  read1 : ∃ ta, e.in1 = .ok ta ∧ (v1Lib nc Y).readDoc fl.yaml ta = .ok a
  read2 : ∃ tb, e.in2 = .ok tb ∧ (v1Lib nc Y).readDoc fl.yaml tb = .ok b'
  write : fl.o = "" ∨ e.write = .ok ()

variable {nc : NumCodec} {Y : YamlCarrier} {Ls : Bool → LibPack} {b : Binary} {fl : Flags} {e : Env}
  {a b' : Json}

/-- the v1 diff of the situation, as `main` holds it -/
abbrev dOf (opts : List Opt) (a b' : Json) : V1.VDiff := V1.diffM (metasOf opts) a b'

theorem proc_eq (R : DiffRun nc Y Ls b fl e a b') {opts : List Opt}
    (ho : parsedOptions b fl = .ok opts) :
    proc Ls b fl e = cliM b fl (resultsDiff (v1Lib nc Y) opts fl.color fl e) := by
  have hplan := planOf_diff_ok b R.mode ho R.nargs
  rw [proc_diff Ls b e hplan]
  rw [R.v1, R.lib]

/-- `haveDiff` of `diff()` in /repo/main.go (the v1 path has the same three tests as the v2 path):
    native: `str != ""`; patch: `str != "[]"`; merge: `len(diff) > 0` -/
def haveDiffOf (fmt : Format) (T : String) (d : V1.VDiff) : Bool :=
  match fmt with
  | .jd => T != ""
  | .patch => T != "[]"
  | .merge => decide (d.length > 0)

theorem firstExit_eq (fmt : Format) (d : V1.VDiff) (T : String) :
    firstExit (v1Lib nc Y) fmt (V1.liftDiff d) T = (if haveDiffOf fmt T d then 1 else 0) := by
  cases fmt
  · by_cases h : T = "" <;> simp [firstExit, haveDiffOf, h]
  · by_cases h : T = "[]" <;> simp [firstExit, haveDiffOf, h]
  · simp [firstExit, haveDiffOf, v1Lib_diffLen]

/-- **the two ways a diff run of the situation ends**: the renderer of the format returned a text
    `T`, which is what leaves the program, and the exit status is 1 when `haveDiff`, 0 otherwise;
    or the renderer returned an error (`RenderPatch`, `RenderMerge` only) and the exit status is 2 -/
theorem exit_cases (R : DiffRun nc Y Ls b fl e a b') {opts : List Opt}
    (ho : parsedOptions b fl = .ok opts) {fmt : Format} (hf : formatOf fl.f = some fmt) :
    (∃ T, renderAs (v1Lib nc Y) fmt fl.color (V1.liftDiff (dOf opts a b')) = .ok T ∧
      (proc Ls b fl e).exit = (if haveDiffOf fmt T (dOf opts a b') then 1 else 0) ∧
      emitted (proc Ls b fl e) = T ∧ (proc Ls b fl e).stderr = "") ∨
    (∃ msg, renderAs (v1Lib nc Y) fmt fl.color (V1.liftDiff (dOf opts a b')) = .error msg ∧
      (proc Ls b fl e).exit = 2) := by
  obtain ⟨ta, hi1, hra⟩ := R.read1
  obtain ⟨tb, hi2, hrb⟩ := R.read2
  rw [proc_eq R ho]
  cases hren : renderAs (v1Lib nc Y) fmt fl.color (V1.liftDiff (dOf opts a b')) with
  | ok T =>
    left
    obtain ⟨x1, x2, x3⟩ := exit_of_render (v1Lib nc Y) b R.mode R.nargs ho hf hi1 hi2 R.write hra hrb
      (T := T) (by rw [v1Lib_diff]; exact hren)
    rw [v1Lib_diff, firstExit_eq] at x1
    exact ⟨T, rfl, x1, x2, x3⟩
  | error msg =>
    right
    exact ⟨msg, rfl, exit_of_render_error (v1Lib nc Y) b R.mode R.nargs ho hf hi1 hi2 hra hrb
      (msg := msg) (by rw [v1Lib_diff]; exact hren)⟩

/-! ## 3. what the text of a v1 diff tells about its emptiness -/

theorem renderHunk_ne_empty {color : Bool} {h : V1.PHunk} {t : String}
    (ht : V1.renderHunk nc color h = .ok (some t)) : t ≠ "" := by
  unfold V1.renderHunk at ht
  split at ht
  · cases ht
  · cases ht
  · cases ht
  · simp only at ht
    split at ht
    · cases ht
      intro h0
      simp only [String.append_eq_empty_iff] at h0
      exact absurd h0.1.1.1.1 (by decide)
    · cases ht

/-- **the native text of a v1 diff is empty exactly when the diff is** (every hunk prints `@ `) -/
theorem renderM_empty_iff {color : Bool} {d : V1.PDiff} {T : String}
    (h : V1.renderM nc color d = .ok (some T)) : T = "" ↔ d = [] := by
  cases d with
  | nil =>
    simp only [V1.renderM, Outcome.ok.injEq, Option.some.injEq] at h
    simp [← h]
  | cons x r =>
    simp only [reduceCtorEq, iff_false]
    unfold V1.renderM at h
    split at h
    · rename_i a ha
      split at h
      · rename_i b' hb
        cases h
        intro h0
        simp only [String.append_eq_empty_iff] at h0
        exact renderHunk_ne_empty ha h0.1
      · rename_i r' hr
        rw [h] at hr
        exact absurd rfl (hr _)
    · split at h
      · cases h
      · rename_i r' hr
        rw [h] at hr
        exact absurd rfl (hr _)
    · rename_i r' h1 h2
      rw [h] at h1
      exact absurd rfl (h1 _)

theorem liftDiff_nil_iff (d : V1.VDiff) : V1.liftDiff d = [] ↔ d = [] := by
  cases d <;> simp [V1.liftDiff]

theorem patchOpText_ne_empty {p : PatchOp} {t : String}
    (h : V1.patchOpText nc p = some t) : t ≠ "" := by
  simp only [V1.patchOpText, Option.map_eq_some_iff] at h
  obtain ⟨v, _, rfl⟩ := h
  intro h0
  simp only [String.append_eq_empty_iff] at h0
  exact absurd h0.1.1.1.1.1.1 (by decide)

/-- the JSON Patch text of a v1 diff is `[]` exactly when the diff is empty or renders to no
    operation -/
theorem renderPatchM_text_iff {d : V1.PDiff} {T : String}
    (h : V1.renderPatchM nc d = .ok (some T)) :
    T = "[]" ↔ (d = [] ∨ V1.renderPatchOps d = .ok []) := by
  unfold V1.renderPatchM at h
  by_cases hd : d = []
  · subst hd
    simp at h
    simp [← h]
  · have hd' : d.isEmpty = false := by cases d <;> simp_all
    rw [hd'] at h
    simp only [Bool.false_eq_true, if_false] at h
    cases ho : V1.renderPatchOps d with
    | err => rw [ho] at h; cases h
    | panic => rw [ho] at h; cases h
    | ok ops =>
      rw [ho] at h
      simp only [Outcome.ok.injEq, Option.map_eq_some_iff] at h
      obtain ⟨l, hl, rfl⟩ := h
      cases ops with
      | nil =>
        simp [optAll] at hl
        subst hl
        simp
      | cons p ps =>
        obtain ⟨y, ys, hy, _, rfl⟩ := Jd.CliExit.optAll_cons_some hl
        simp only [hd, false_or, Outcome.ok.injEq, reduceCtorEq, iff_false]
        intro h0
        exact Jd.CliExit.intercalate_cons_ne (patchOpText_ne_empty hy) (Jd.CliExit.bracket_eq h0)

/-! ## 4. exit status and emptiness of the diff, format by format (any metadata, any documents) -/


/-- **native format (v1)**: the run never exits 2; an empty diff gives exit 0; when `Render`
    succeeds on the model (`hren`: no nil metadata entry, every number printable by the codec),
    exit 0 / 1 tell exactly whether the diff is empty -/
theorem jd_exit (R : DiffRun nc Y Ls b fl e a b') {opts : List Opt}
    (ho : parsedOptions b fl = .ok opts) (hf : formatOf fl.f = some .jd) :
    (proc Ls b fl e).exit ≠ 2 ∧
    (dOf opts a b' = [] → (proc Ls b fl e).exit = 0) ∧
    ((∃ T, V1.renderM nc fl.color (V1.liftDiff (dOf opts a b')) = .ok (some T)) →
      ((proc Ls b fl e).exit = 0 ↔ dOf opts a b' = []) ∧
      ((proc Ls b fl e).exit = 1 ↔ dOf opts a b' ≠ [])) := by
  rcases exit_cases R ho hf with ⟨T, hT, hx, _⟩ | ⟨m, hm, _⟩
  · simp only [renderAs, Except.ok.injEq] at hT
    have hT' : textOrEmpty (V1.renderM nc fl.color (V1.liftDiff (dOf opts a b'))) = T := hT
    refine ⟨by rw [hx]; exact Jd.CliExit.ite_10_ne_two, ?_, ?_⟩
    · intro hd
      rw [hd] at hT'
      have : T = "" := by rw [← hT']; rfl
      rw [hx, Jd.CliExit.ite_10_eq_zero]
      simp [haveDiffOf, this]
    · rintro ⟨t, ht⟩
      rw [ht] at hT'
      simp only [textOrEmpty] at hT'
      subst hT'
      have := (renderM_empty_iff ht).trans (liftDiff_nil_iff _)
      rw [hx, Jd.CliExit.ite_10_eq_zero, Jd.CliExit.ite_10_eq_one]
      simp only [haveDiffOf, bne_eq_false_iff_eq, bne_iff_ne, ne_eq, this, and_self]
  · simp [renderAs] at hm

/-- **merge format (v1)** (exit status from `len(diff)`, not from the text) -/
theorem merge_exit (R : DiffRun nc Y Ls b fl e a b') {opts : List Opt}
    (ho : parsedOptions b fl = .ok opts) (hf : formatOf fl.f = some .merge) :
    ((proc Ls b fl e).exit = 0 ↔ dOf opts a b' = []) ∧
    ((proc Ls b fl e).exit = 1 ↔ dOf opts a b' ≠ [] ∧
      ∃ T, (v1Lib nc Y).renderMerge (V1.liftDiff (dOf opts a b')) = .ok T) ∧
    ((proc Ls b fl e).exit = 2 ↔ dOf opts a b' ≠ [] ∧
      ∃ m, (v1Lib nc Y).renderMerge (V1.liftDiff (dOf opts a b')) = .error m) := by
  have hnil : dOf opts a b' = [] →
      (v1Lib nc Y).renderMerge (V1.liftDiff (dOf opts a b')) = .ok "{}" := by
    intro hd
    rw [hd]
    rfl
  have hlen : ∀ T d, haveDiffOf .merge T d = !d.isEmpty := by
    intro T d
    cases d <;> simp [haveDiffOf]
  rcases exit_cases R ho hf with ⟨T, hT, hx, _⟩ | ⟨m, hm, hx⟩
  · simp only [renderAs] at hT
    rw [hlen] at hx
    cases hd : dOf opts a b' with
    | nil =>
      rw [hd] at hx
      simp at hx
      simp [hx]
    | cons x r =>
      rw [hd] at hx hT
      simp at hx
      simp [hx, hT]
  · simp only [renderAs] at hm
    have hd : dOf opts a b' ≠ [] := by
      intro hd
      rw [hnil hd] at hm
      cases hm
    simp [hx, hm, hd]

/-- **JSON Patch format (v1)** (exit status from `text != "[]"`), for a diff that renders to no
    operation only when it is empty (`hgen`; proved below for the list reading) -/
theorem patch_exit (R : DiffRun nc Y Ls b fl e a b') {opts : List Opt}
    (ho : parsedOptions b fl = .ok opts) (hf : formatOf fl.f = some .patch)
    (hgen : V1.renderPatchOps (V1.liftDiff (dOf opts a b')) = .ok [] → dOf opts a b' = []) :
    ((proc Ls b fl e).exit = 0 ↔ dOf opts a b' = []) ∧
    ((proc Ls b fl e).exit = 1 ↔ dOf opts a b' ≠ [] ∧
      ∃ T, (v1Lib nc Y).renderPatch (V1.liftDiff (dOf opts a b')) = .ok T) ∧
    ((proc Ls b fl e).exit = 2 ↔
      ∃ m, (v1Lib nc Y).renderPatch (V1.liftDiff (dOf opts a b')) = .error m) := by
  rcases exit_cases R ho hf with ⟨T, hT, hx, _⟩ | ⟨m, hm, hx⟩
  · simp only [renderAs] at hT
    have hT' : V1.renderPatchM nc (V1.liftDiff (dOf opts a b')) = .ok (some T) :=
      Jd.CliExit.ofOutcomeText_ok.1 hT
    have hiff : T = "[]" ↔ dOf opts a b' = [] := by
      rw [renderPatchM_text_iff hT', liftDiff_nil_iff]
      exact ⟨fun h => h.elim id hgen, .inl⟩
    have hb : haveDiffOf .patch T (dOf opts a b') = !decide (dOf opts a b' = []) := by
      by_cases hd : dOf opts a b' = []
      · simp [haveDiffOf, hiff.2 hd, hd]
      · have : T ≠ "[]" := fun h => hd (hiff.1 h)
        simp [haveDiffOf, this, hd]
    rw [hb] at hx
    by_cases hd : dOf opts a b' = []
    · simp [hd] at hx
      rw [hd] at hT
      simp [hx, hd, hT]
    · simp [hd] at hx
      simp [hx, hd, hT]
  · simp only [renderAs] at hm
    have hd : dOf opts a b' ≠ [] := by
      intro hd
      rw [hd] at hm
      have : (v1Lib nc Y).renderPatch (V1.liftDiff []) = .ok "[]" := rfl
      rw [this] at hm
      cases hm
    simp [hx, hm, hd]

/-- an empty diff gives exit 0, in every format -/
theorem exit_zero_of_nil (R : DiffRun nc Y Ls b fl e a b') {opts : List Opt}
    (ho : parsedOptions b fl = .ok opts) {fmt : Format} (hf : formatOf fl.f = some fmt)
    (hd : dOf opts a b' = []) : (proc Ls b fl e).exit = 0 := by
  cases fmt with
  | jd => exact (jd_exit R ho hf).2.1 hd
  | merge => exact (merge_exit R ho hf).1.2 hd
  | patch => exact (patch_exit R ho hf (fun _ => hd)).1.2 hd

/-! ## 5. the hunks of a v1 diff in the LIST reading (`V1Pr.ListReading`: no SET / MULTISET / MERGE;
      ANY `Setkeys`, ANY precision): their values are parts of the two documents, and every hunk
      removes or adds a value that is not the void marker -/

section ListReadingHunks
open Jd.V1P (shift listDiff okTag)
open Jd.V1Pr (ListReading)
open Jd.V1T (Closed VP vp_nodeList)
open Jd.V1R (nodeList_mem)

/-- the hunk removes or adds a non-void value, or holds no value at all (`RenderPatch` refuses such
    a hunk: "cannot render empty diff element as JSON Patch op") -/
def NE (h : V1.Hunk) : Prop :=
  (∃ v ∈ h.old, v.isVoid = false) ∨ (∃ v ∈ h.new, v.isVoid = false) ∨ (h.old = [] ∧ h.new = [])

theorem NE.shift {h : V1.Hunk} (g : NE h) (p : List Json) : NE (shift p h) := g

theorem ne_nodeList (a b : Json) (p : List Json) :
    NE { path := p, old := a.nodeList, new := b.nodeList } := by
  unfold NE Json.nodeList
  cases ha : a.isVoid <;> cases hb : b.isVoid <;> simp [ha, hb]

theorem ne_old {v : Json} (hv : v.isVoid = false) (p : List Json) (new : List Json) :
    NE { path := p, old := [v], new := new } := .inl ⟨v, List.mem_singleton.2 rfl, hv⟩

/-- **the values of a list-reading diff are parts of the two documents** (every predicate inherited
    by parts and blind to array tags that holds of `a` and `b` holds of every value of
    `a.Diff(b, metadata...)`), **and every hunk is `NE`** — for ANY precision and ANY `Setkeys`
    (`V1T.diff_valsP` is the first half for precision 0) -/
theorem lr_vals (P : Json → Prop) (C : Closed P) (m : V1.Metas) (hm : ListReading m) :
    (∀ a b, a.listDoc = true → b.listDoc = true → P a → P b →
      ∀ h ∈ V1.diffNode m false a b [], VP P h ∧ NE h) ∧
    (∀ kvs' kvs, listDocKvs kvs' = true → listDocKvs kvs = true → (∀ k v, (k, v) ∈ kvs' → P v) →
      (∀ k v, (k, v) ∈ kvs → P v) → ∀ h ∈ V1.diffKvs m false [] kvs' kvs, VP P h ∧ NE h) ∧
    (∀ ys xs, listDocList ys = true → listDocList xs = true → (∀ y ∈ ys, P y) →
      (∀ x ∈ xs, P x) → ∀ i, ∀ d ∈ V1.diffElems m false [] i ys xs, ∀ h ∈ d, VP P h ∧ NE h) := by
  have := V1Pr.v1_induct m hm
    (mN := fun a b => P a → P b → ∀ h ∈ V1.diffNode m false a b [], VP P h ∧ NE h)
    (mK := fun kvs' kvs => (∀ k v, (k, v) ∈ kvs' → P v) → (∀ k v, (k, v) ∈ kvs → P v) →
      ∀ h ∈ V1.diffKvs m false [] kvs' kvs, VP P h ∧ NE h)
    (mE := fun ys xs => (∀ y ∈ ys, P y) → (∀ x ∈ xs, P x) →
      ∀ i, ∀ d ∈ V1.diffElems m false [] i ys xs, ∀ h ∈ d, VP P h ∧ NE h)
    ?_ ?_ ?_ ?_ ?_ ?_ ?_ ?_ ?_ ?_
  · exact ⟨fun a b ha hb => this.1 a b ha hb, fun kvs' kvs h' h => this.2.1 kvs' kvs h' h,
      fun ys xs h' h => this.2.2 ys xs h' h⟩
  · intro t t' xs ys ht ht' htt hlx hly ih pa pb h hmem
    have pxs : ∀ x ∈ xs, P x := fun x hx => C.elem pa hx
    have pys : ∀ y ∈ ys, P y := fun y hy => C.elem pb hy
    rw [V1Pr.diffNode_arr_arr hm xs ys ht ht' htt] at hmem
    unfold V1P.listDiff at hmem
    split at hmem
    · rcases List.mem_append.1 hmem with hmem | hmem
      · obtain ⟨d, hd, hh⟩ := List.mem_flatten.1 hmem
        exact ih pys pxs 0 d hd h hh
      · obtain ⟨y, hy, rfl⟩ := List.mem_map.1 hmem
        have hy' := List.mem_of_mem_drop hy
        have h1 := vp_nodeList (P := P) (a := .void) (b := y) (by simp [Json.isVoid])
          (fun _ => pys y hy') ([] ++ [V1.numNeg1])
        have h2 := ne_nodeList .void y ([] ++ [V1.numNeg1])
        exact ⟨by simpa [Json.nodeList, Json.isVoid] using h1,
          by simpa [Json.nodeList, Json.isVoid] using h2⟩
    · rcases List.mem_append.1 hmem with hmem | hmem
      · obtain ⟨xi, hxi, rfl⟩ := List.mem_map.1 hmem
        have hx' : xi.1 ∈ xs := by
          have := List.mem_reverse.1 hxi
          exact List.mem_of_mem_drop (List.fst_mem_of_mem_zipIdx this)
        have h1 := vp_nodeList (P := P) (a := xi.1) (b := .void) (fun _ => pxs _ hx')
          (by simp [Json.isVoid]) ([] ++ [V1.numOfNat xi.2])
        have h2 := ne_nodeList xi.1 .void ([] ++ [V1.numOfNat xi.2])
        exact ⟨by simpa [Json.nodeList, Json.isVoid] using h1,
          by simpa [Json.nodeList, Json.isVoid] using h2⟩
      · obtain ⟨d, hd, hh⟩ := List.mem_flatten.1 hmem
        exact ih pys pxs 0 d (List.mem_reverse.1 hd) h hh
  · intro t xs b ht hlx hb hbb pa pb h hmem
    rw [V1Pr.diffNode_arr_other hm xs b ht hbb] at hmem
    simp only [List.mem_singleton] at hmem
    subst hmem
    have h1 := vp_nodeList (P := P) (a := .arr .list xs) (b := b) (fun _ => C.retag _ pa)
      (fun _ => pb) []
    exact ⟨by simpa [Json.nodeList, Json.isVoid] using h1, ne_old rfl _ _⟩
  · intro kvs kvs' hl hl' ih pa pb h hmem
    rw [V1P.diffNode_obj_obj] at hmem
    rcases List.mem_append.1 hmem with hmem | hmem
    · exact ih (fun k v hkv => C.member pb hkv) (fun k v hkv => C.member pa hkv) h hmem
    · obtain ⟨kv, hkv, rfl⟩ := List.mem_map.1 hmem
      have hm' := (List.mem_filter.1 hkv).1
      have h1 := vp_nodeList (P := P) (a := .void) (b := kv.2) (by simp [Json.isVoid])
        (fun _ => C.member pb hm') ([] ++ [.str kv.1])
      have h2 := ne_nodeList .void kv.2 ([] ++ [.str kv.1])
      exact ⟨by simpa [Json.nodeList, Json.isVoid] using h1,
        by simpa [Json.nodeList, Json.isVoid] using h2⟩
  · intro kvs b hl hb hbb pa pb h hmem
    rw [V1P.diffNode_obj_other m kvs b hbb] at hmem
    simp only [List.mem_singleton] at hmem
    subst hmem
    exact ⟨⟨fun v hv => by simp only [List.mem_singleton] at hv; subst hv; exact pa,
      fun v hv => by simp only [List.mem_singleton] at hv; subst hv; exact pb⟩, ne_old rfl _ _⟩
  · intro a b h1 h2 hb pa pb h hmem
    rw [V1P.diffNode_scalar m a b h1 h2] at hmem
    unfold V1.diffCommon at hmem
    split at hmem
    · cases hmem
    · simp only [Bool.false_eq_true, if_false, List.mem_singleton] at hmem
      subst hmem
      exact ⟨vp_nodeList (fun _ => pa) (fun _ => pb) [], ne_nodeList a b []⟩
  · intro kvs' _ _ h hmem
    simp [V1P.diffKvs_nil] at hmem
  · intro kvs' k v r hl' hv hlr ihN ihK pk' pk h hmem
    rw [V1P.diffKvs_cons] at hmem
    rcases List.mem_append.1 hmem with hmem | hmem
    · cases hlk : alookup k kvs' with
      | none =>
        rw [hlk] at hmem
        simp only [List.mem_singleton] at hmem
        subst hmem
        have h1 := vp_nodeList (P := P) (a := v) (b := .void) (fun _ => pk k v List.mem_cons_self)
          (by simp [Json.isVoid]) ([] ++ [.str k])
        have h2 := ne_nodeList v .void ([] ++ [.str k])
        exact ⟨by simpa [Json.nodeList, Json.isVoid] using h1,
          by simpa [Json.nodeList, Json.isVoid] using h2⟩
      | some v' =>
        rw [hlk] at hmem
        simp only [] at hmem
        rw [V1Pr.diffNode_at hm v v' hv (alookup_listDoc hlk hl')] at hmem
        obtain ⟨h0, hh0, rfl⟩ := List.mem_map.1 hmem
        have := ihN v' (alookup_listDoc hlk hl') (pk k v List.mem_cons_self)
          (pk' k v' (mem_of_alookup hlk)) h0 hh0
        exact ⟨this.1.shift _, this.2.shift _⟩
    · exact ihK pk' (fun k' v' hkv => pk k' v' (List.mem_cons_of_mem _ hkv)) h hmem
  · intro ys _ _ i d hd
    simp [V1P.diffElems_nil] at hd
  · intro x xs _ _ i d hd
    simp [V1P.diffElems_nil'] at hd
  · intro x xs y ys hx hlx hy hly ihN ihE pys pxs i d hd h hh
    rw [V1P.diffElems_cons] at hd
    rcases List.mem_cons.1 hd with rfl | hd
    · rw [V1Pr.diffNode_at hm x _ hx (V1Pr.dispatch_listDoc hm hy)] at hh
      obtain ⟨h0, hh0, rfl⟩ := List.mem_map.1 hh
      have := ihN (pxs x List.mem_cons_self) (C.dispatch m (pys y List.mem_cons_self)) h0 hh0
      exact ⟨this.1.shift _, this.2.shift _⟩
    · exact ihE (fun y' hy' => pys y' (List.mem_cons_of_mem _ hy'))
        (fun x' hx' => pxs x' (List.mem_cons_of_mem _ hx')) (i + 1) d hd h hh

/-- `RenderPatch` of an `NE` hunk gives at least one operation (or an error) -/
theorem renderPatchHunk_ops_ne {h : V1.Hunk} (g : NE h) {ops : List PatchOp}
    (e : V1.renderPatchHunk h.toP = .ok ops) : ops ≠ [] := by
  unfold V1.renderPatchHunk at e
  cases hw : V1.writePointer h.toP.path with
  | err => rw [hw] at e; cases e
  | panic => rw [hw] at e; cases e
  | ok pt =>
    rw [hw] at e
    simp only [Outcome.bind_ok, V1.Hunk.toP] at e
    by_cases h1 : h.old.length > 1
    · simp only [h1, ↓reduceIte] at e; cases e
    · simp only [h1, ↓reduceIte] at e
      by_cases h2 : h.new.length > 1
      · simp only [h2, ↓reduceIte] at e; cases e
      · simp only [h2, ↓reduceIte] at e
        by_cases h3 : (h.old.isEmpty && h.new.isEmpty) = true
        · simp only [h3] at e; cases e
        · simp only [h3] at e
          have e' := Outcome.ok.inj e
          subst e'
          rcases g with ⟨v, hv, hvv⟩ | ⟨v, hv, hvv⟩ | ⟨g1, g2⟩
          · cases ho : h.old with
            | nil => rw [ho] at hv; cases hv
            | cons x r =>
              cases r with
              | nil =>
                rw [ho] at hv
                simp only [List.mem_singleton] at hv
                subst hv
                simp [hvv]
              | cons y r' => rw [ho] at h1; simp at h1
          · cases hn : h.new with
            | nil => rw [hn] at hv; cases hv
            | cons x r =>
              cases r with
              | nil =>
                rw [hn] at hv
                simp only [List.mem_singleton] at hv
                subst hv
                simp [hvv]
              | cons y r' => rw [hn] at h2; simp at h2
          · simp [g1, g2] at h3

theorem renderPatchOps_nil_of_ne : ∀ (d : V1.VDiff), (∀ h ∈ d, NE h) →
    V1.renderPatchOps (V1.liftDiff d) = .ok [] → d = []
  | [], _, _ => rfl
  | h :: d, g, e => by
    exfalso
    simp only [V1.liftDiff, List.map_cons, V1.renderPatchOps] at e
    cases h1 : V1.renderPatchHunk h.toP with
    | err => rw [h1] at e; cases e
    | panic => rw [h1] at e; cases e
    | ok a =>
      rw [h1] at e
      simp only [Outcome.bind_ok] at e
      cases h2 : V1.renderPatchOps (List.map V1.Hunk.toP d) with
      | err => rw [h2] at e; cases e
      | panic => rw [h2] at e; cases e
      | ok b =>
        rw [h2] at e
        simp only [Outcome.bind_ok] at e
        have : a ++ b = [] := Outcome.ok.inj e
        exact renderPatchHunk_ops_ne (g h List.mem_cons_self) h1 (List.append_eq_nil_iff.1 this).1

/-- **a list-reading v1 diff that renders to NO JSON Patch operation is empty** (any precision, any
    `Setkeys`; no hypothesis on void markers: a hunk without any value is refused by `RenderPatch`) -/
theorem diffM_nil_of_no_ops (m : V1.Metas) (hm : ListReading m) (a b : Json)
    (ha : a.listDoc = true) (hb : b.listDoc = true)
    (h : V1.renderPatchOps (V1.liftDiff (V1.diffM m a b)) = .ok []) : V1.diffM m a b = [] := by
  apply renderPatchOps_nil_of_ne _ _ h
  intro x hx
  have hd : V1.diffM m a b = V1.diffNode m false a b [] := by
    unfold V1.diffM; rw [hm.noMerge]
  rw [hd] at hx
  exact ((lr_vals (fun _ => True) ⟨fun _ _ => trivial, fun _ _ => trivial, fun _ _ => trivial⟩
    m hm).1 a b ha hb trivial trivial x hx).2

open Jd.V1P (lenLe lenLeList lenLeKvs) in
/-- **the list indices in the paths of a list-reading diff**: `jsonNumber(-1)` (append) or
    `jsonNumber(k)` with `k` below the bound `N` on the array lengths of `a` — for ANY precision and
    ANY `Setkeys` (`V1R.diff_shape` for precision 0) -/
theorem lr_idx (N : Nat) (m : V1.Metas) (hm : ListReading m) :
    (∀ a b, a.listDoc = true → b.listDoc = true → lenLe N a = true →
      ∀ h ∈ V1.diffNode m false a b [], V1R.idxP N h.path) ∧
    (∀ kvs' kvs, listDocKvs kvs' = true → listDocKvs kvs = true → lenLeKvs N kvs = true →
      ∀ h ∈ V1.diffKvs m false [] kvs' kvs, V1R.idxP N h.path) ∧
    (∀ ys xs, listDocList ys = true → listDocList xs = true → lenLeList N xs = true →
      ∀ i, i + xs.length ≤ N → ∀ d ∈ V1.diffElems m false [] i ys xs, ∀ h ∈ d,
        V1R.idxP N h.path) := by
  have sh_str : ∀ (k : String) (h : V1.Hunk), V1R.idxP N h.path → V1R.idxP N (shift [.str k] h).path := by
    intro k h g e he
    rcases List.mem_cons.1 he with rfl | he
    · intro b hb; cases hb
    · exact g e he
  have sh_num : ∀ (i : Nat) (h : V1.Hunk), i < N → V1R.idxP N h.path →
      V1R.idxP N (shift [V1.numOfNat i] h).path := by
    intro i h hi g e he
    rcases List.mem_cons.1 he with rfl | he
    · intro b _; exact .inr ⟨i, hi, rfl⟩
    · exact g e he
  have single_str : ∀ k : String, V1R.idxP N ([] ++ [Json.str k]) := by
    intro k e he
    simp only [List.nil_append, List.mem_singleton] at he
    subst he
    intro b hb; cases hb
  have := V1Pr.v1_induct m hm
    (mN := fun a b => lenLe N a = true → ∀ h ∈ V1.diffNode m false a b [], V1R.idxP N h.path)
    (mK := fun kvs' kvs => lenLeKvs N kvs = true →
      ∀ h ∈ V1.diffKvs m false [] kvs' kvs, V1R.idxP N h.path)
    (mE := fun ys xs => lenLeList N xs = true → ∀ i, i + xs.length ≤ N →
      ∀ d ∈ V1.diffElems m false [] i ys xs, ∀ h ∈ d, V1R.idxP N h.path)
    ?_ ?_ ?_ ?_ ?_ ?_ ?_ ?_ ?_ ?_
  · exact ⟨fun a b ha hb => this.1 a b ha hb, fun kvs' kvs h' h => this.2.1 kvs' kvs h' h,
      fun ys xs h' h => this.2.2 ys xs h' h⟩
  · intro t t' xs ys ht ht' htt _ _ ih hlen h hmem
    rw [V1Pr.diffNode_arr_arr hm xs ys ht ht' htt] at hmem
    simp only [lenLe, Bool.and_eq_true, decide_eq_true_eq] at hlen
    have ih' := ih hlen.2 0 (by omega)
    unfold V1P.listDiff at hmem
    split at hmem
    · rcases List.mem_append.1 hmem with hmem | hmem
      · obtain ⟨d, hd, hh⟩ := List.mem_flatten.1 hmem
        exact ih' d hd h hh
      · obtain ⟨y, hy, rfl⟩ := List.mem_map.1 hmem
        intro e he
        simp only [List.nil_append, List.mem_singleton] at he
        subst he
        intro b _; exact .inl rfl
    · rcases List.mem_append.1 hmem with hmem | hmem
      · obtain ⟨xi, hxi, rfl⟩ := List.mem_map.1 hmem
        obtain ⟨x, j⟩ := xi
        have hz := List.mem_zipIdx (List.mem_reverse.1 hxi)
        have hj : j < N := by
          have := hz.2.1
          simp only [List.length_drop] at this
          omega
        intro e he
        simp only [List.nil_append, List.mem_singleton] at he
        subst he
        intro b _; exact .inr ⟨j, hj, rfl⟩
      · obtain ⟨d, hd, hh⟩ := List.mem_flatten.1 hmem
        exact ih' d (List.mem_reverse.1 hd) h hh
  · intro t xs b ht hlx _ hb' _ h hmem
    rw [V1Pr.diffNode_arr_other hm xs b ht hb'] at hmem
    simp only [List.mem_singleton] at hmem
    subst hmem
    exact V1R.idxP_nil N
  · intro kvs kvs' _ _ ih hlen h hmem
    simp only [lenLe] at hlen
    rw [V1P.diffNode_obj_obj] at hmem
    rcases List.mem_append.1 hmem with hmem | hmem
    · exact ih hlen h hmem
    · obtain ⟨kv, hkv, rfl⟩ := List.mem_map.1 hmem
      exact single_str kv.1
  · intro kvs b _ _ hb' _ h hmem
    rw [V1P.diffNode_obj_other m kvs b hb'] at hmem
    simp only [List.mem_singleton] at hmem
    subst hmem
    exact V1R.idxP_nil N
  · intro a b h1 h2 _ _ h hmem
    rw [V1P.diffNode_scalar m a b h1 h2] at hmem
    unfold V1.diffCommon at hmem
    split at hmem
    · cases hmem
    · simp only [Bool.false_eq_true, if_false, List.mem_singleton] at hmem
      subst hmem
      exact V1R.idxP_nil N
  · intro kvs' _ h hmem
    simp [V1P.diffKvs_nil] at hmem
  · intro kvs' k v r hl' hv _ ihN ihK hlen h hmem
    simp only [lenLeKvs, Bool.and_eq_true] at hlen
    rw [V1P.diffKvs_cons] at hmem
    rcases List.mem_append.1 hmem with hmem | hmem
    · cases hlk : alookup k kvs' with
      | none =>
        rw [hlk] at hmem
        simp only [List.mem_singleton] at hmem
        subst hmem
        exact single_str k
      | some v' =>
        rw [hlk] at hmem
        simp only [] at hmem
        rw [V1Pr.diffNode_at hm v v' hv (alookup_listDoc hlk hl')] at hmem
        obtain ⟨h0, hh0, rfl⟩ := List.mem_map.1 hmem
        exact sh_str k h0 (ihN v' (alookup_listDoc hlk hl') hlen.1 h0 hh0)
    · exact ihK hlen.2 h hmem
  · intro ys _ i _ d hd
    simp [V1P.diffElems_nil] at hd
  · intro x xs _ i _ d hd
    simp [V1P.diffElems_nil'] at hd
  · intro x xs y ys hx _ hy _ ihN ihE hlen i hi d hd h hh
    simp only [lenLeList, Bool.and_eq_true] at hlen
    simp only [List.length_cons] at hi
    rw [V1P.diffElems_cons] at hd
    rcases List.mem_cons.1 hd with rfl | hd
    · rw [V1Pr.diffNode_at hm x _ hx (V1Pr.dispatch_listDoc hm hy)] at hh
      obtain ⟨h0, hh0, rfl⟩ := List.mem_map.1 hh
      exact sh_num i h0 (by omega) (ihN hlen.1 h0 hh0)
    · exact ihE hlen.2 (i + 1) (by omega) d hd h hh

end ListReadingHunks

/-! ## 6. LIST reading (`-set`, `-mset` absent; ANY `-setkeys`, ANY `-precision`) -/

section ListCli
open Jd.V1Pr (ListReading)

/-- the flags of the list reading: neither `-set` nor `-mset` (in v1 `-setkeys` alone leaves arrays
    lists; `-precision` is free) -/
structure ListFlags (fl : Flags) : Prop where
  set  : fl.set = false
  mset : fl.mset = false

theorem listReading_of_flags {opts : List Opt} (ho : parsedOptions b fl = .ok opts)
    (P : ListFlags fl) (hnm : (fl.f == "merge") = false) : ListReading (metasOf opts) := by
  obtain ⟨m1, m2, m3, _⟩ := metas_facts ho
  exact ⟨by rw [m1, P.set], by rw [m2, P.mset], by rw [m3, hnm]⟩

theorem ne_nil_iff_not_equal {d : V1.VDiff} {c : Bool} (h : d = [] ↔ c = true) :
    d ≠ [] ↔ c = false := by
  rw [← Bool.not_eq_true, ← h]

/-- **C05 / C14 on the process, v1 library, native format, list reading**
    (`cli_exit_iff_equal_list`): `jd -v2=false [-setkeys ks] [-precision eps] [-color] [-yaml] [-o F]
    a b` exits 0 exactly when `a.Equals(b, metadata...)`, exits 1 exactly when not, never 2.
    Unlike the v2 library (KF-C05-precision) this holds for EVERY `-precision`: v1 `Diff` compares
    numbers with the metadata.  No hash, no float hypothesis. -/
theorem cli_exit_iff_equal_list (R : DiffRun nc Y Ls b fl e a b') {opts : List Opt}
    (ho : parsedOptions b fl = .ok opts) (P : ListFlags fl) (hfmt : formatOf fl.f = some .jd)
    (hraw : a.rawDoc = true) (haw : a.wf = true) (hbl : b'.listDoc = true) (hbw : b'.wf = true)
    (hren : ∃ T, V1.renderM nc fl.color (V1.liftDiff (dOf opts a b')) = .ok (some T)) :
    ((proc Ls b fl e).exit = 0 ↔ V1.equals (metasOf opts) a b' = true) ∧
    ((proc Ls b fl e).exit = 1 ↔ V1.equals (metasOf opts) a b' = false) ∧
    (proc Ls b fl e).exit ≠ 2 := by
  have LR := listReading_of_flags ho P (not_merge_of_jd hfmt)
  obtain ⟨h2, _, h01⟩ := jd_exit R ho hfmt
  obtain ⟨h0, h1⟩ := h01 hren
  have hiff := V1Pr.v1_diff_empty_iff_equals_precision (metasOf opts) LR a b' hraw haw hbl hbw
  exact ⟨h0.trans hiff, h1.trans (ne_nil_iff_not_equal hiff), h2⟩

/-- (Equal ⇒ exit 0), list reading, native and JSON Patch formats: no rendering hypothesis -/
theorem cli_equal_exit_zero_list (R : DiffRun nc Y Ls b fl e a b') {opts : List Opt}
    (ho : parsedOptions b fl = .ok opts) (P : ListFlags fl) {fmt : Format}
    (hfmt : formatOf fl.f = some fmt) (hnm : fmt ≠ .merge)
    (hraw : a.rawDoc = true) (haw : a.wf = true) (hbl : b'.listDoc = true) (hbw : b'.wf = true)
    (heq : V1.equals (metasOf opts) a b' = true) : (proc Ls b fl e).exit = 0 := by
  have hm : (fl.f == "merge") = false := by
    cases fmt with
    | jd => exact not_merge_of_jd hfmt
    | patch => exact CliV1.not_merge_of_patch hfmt
    | merge => exact absurd rfl hnm
  have LR := listReading_of_flags ho P hm
  exact exit_zero_of_nil R ho hfmt
    ((V1Pr.v1_diff_empty_iff_equals_precision (metasOf opts) LR a b' hraw haw hbl hbw).2 heq)

/-- **`-f patch`, list reading, v1 library**: the exit status comes from `text != "[]"`; the text is
    `[]` exactly when the diff is empty (`diffM_nil_of_no_ops`), so exit 0 exactly when Equal; when
    not Equal, exit 1 or — exactly when `RenderPatch` returns an error — exit 2. -/
theorem cli_exit_iff_equal_list_patch (R : DiffRun nc Y Ls b fl e a b') {opts : List Opt}
    (ho : parsedOptions b fl = .ok opts) (P : ListFlags fl) (hfmt : formatOf fl.f = some .patch)
    (hraw : a.rawDoc = true) (haw : a.wf = true) (hbl : b'.listDoc = true) (hbw : b'.wf = true) :
    ((proc Ls b fl e).exit = 0 ↔ V1.equals (metasOf opts) a b' = true) ∧
    ((proc Ls b fl e).exit = 1 ↔ V1.equals (metasOf opts) a b' = false ∧
      ∃ T, (v1Lib nc Y).renderPatch (V1.liftDiff (dOf opts a b')) = .ok T) ∧
    ((proc Ls b fl e).exit = 2 ↔ V1.equals (metasOf opts) a b' = false ∧
      ∃ m, (v1Lib nc Y).renderPatch (V1.liftDiff (dOf opts a b')) = .error m) := by
  have LR := listReading_of_flags ho P (CliV1.not_merge_of_patch hfmt)
  obtain ⟨h0, h1, h2⟩ := patch_exit R ho hfmt
    (diffM_nil_of_no_ops (metasOf opts) LR a b' (rawDoc_listDoc a hraw) hbl)
  have hiff := V1Pr.v1_diff_empty_iff_equals_precision (metasOf opts) LR a b' hraw haw hbl hbw
  have hne := ne_nil_iff_not_equal hiff
  refine ⟨h0.trans hiff, ?_, ?_⟩
  · rw [← hne]; exact h1
  · rw [h2, ← hne]
    constructor
    · rintro ⟨m, hm⟩
      refine ⟨?_, m, hm⟩
      intro hd
      have hd' : dOf opts a b' = [] := hd
      rw [hd'] at hm
      cases hm
    · exact fun h => h.2

/-- **`-f merge`, no `-set` / `-mset`, v1 library**: the exit status comes from `len(diff)`; exit 0
    exactly when `a.Equals(b, metadata...)` (MERGE and the precision included), for ANY precision;
    when not Equal, exit 1 or — exactly when `RenderMerge` returns an error — exit 2. -/
theorem cli_exit_iff_equal_list_merge (R : DiffRun nc Y Ls b fl e a b') {opts : List Opt}
    (ho : parsedOptions b fl = .ok opts) (P : ListFlags fl) (hfmt : formatOf fl.f = some .merge)
    (hraw : a.rawDoc = true) (haw : a.wf = true) (hbr : b'.rawDoc = true) (hbw : b'.wf = true)
    (hbv : Merge.objVoidFree b' = true) :
    ((proc Ls b fl e).exit = 0 ↔ V1.equals (metasOf opts) a b' = true) ∧
    ((proc Ls b fl e).exit = 1 ↔ V1.equals (metasOf opts) a b' = false ∧
      ∃ T, (v1Lib nc Y).renderMerge (V1.liftDiff (dOf opts a b')) = .ok T) ∧
    ((proc Ls b fl e).exit = 2 ↔ V1.equals (metasOf opts) a b' = false ∧
      ∃ m, (v1Lib nc Y).renderMerge (V1.liftDiff (dOf opts a b')) = .error m) := by
  obtain ⟨m1, m2, m3, _⟩ := metas_facts ho
  have hmg : V1.hasMerge (metasOf opts) = true := by rw [m3]; exact Jd.CliExit.merge_of_fmt hfmt
  have LR : V1PM.LR (metasOf opts) := ⟨by rw [m1, P.set], by rw [m2, P.mset]⟩
  obtain ⟨h0, h1, h2⟩ := merge_exit R ho hfmt
  have hiff := V1PM.v1_merge_diff_empty_iff_equals_anyprec hmg LR a b' haw hraw hbw hbr hbv
  have hne := ne_nil_iff_not_equal hiff
  refine ⟨h0.trans hiff, ?_, ?_⟩
  · rw [← hne]; exact h1
  · rw [← hne]; exact h2

end ListCli

/-! ### `Render` succeeds: from hypotheses on the two documents and the codec -/

section RenderOK
open Jd.V1P (plain lenLe)
open Jd.V1Pr (ListReading)

theorem optAll_isSome_congr {α β γ : Type} (f : α → Option β) (g : α → Option γ)
    (h : ∀ x, (f x).isSome = (g x).isSome) :
    ∀ l : List α, (optAll (l.map f)).isSome = (optAll (l.map g)).isSome
  | [] => rfl
  | x :: l => by
    have ih := optAll_isSome_congr f g h l
    have hx := h x
    cases hf : f x with
    | none =>
      cases hg : g x with
      | none => simp [optAll, hf, hg]
      | some y => rw [hf, hg] at hx; cases hx
    | some y =>
      cases hg : g x with
      | none => rw [hf, hg] at hx; cases hx
      | some z =>
        simp only [List.map_cons, hf, hg, optAll, Option.isSome_map]
        exact ih

/-- the `-` line of a removed value, with or without COLOR -/
def oldLine (nc : NumCodec) (color : Bool) (v : Json) : Option String :=
  (if v.isVoid then some "" else (V1.marshalNode nc v).map (fun t => "- " ++ t ++ "\n")).map
    (fun body => (if color then colorRed else "") ++ body ++ (if color then colorDefault else ""))

/-- the `+` line of an added value -/
def newLine (nc : NumCodec) (color : Bool) (isMerge : Bool) (v : Json) : Option String :=
  (if v.isVoid then some (if isMerge then "+\n" else "")
   else (V1.marshalNode nc v).map (fun t => "+ " ++ t ++ "\n")).map
    (fun body => (if color then colorGreen else "") ++ body ++ (if color then colorDefault else ""))

theorem renderHunk_eq (color : Bool) (h : V1.PHunk) {pt : String}
    (hp : V1.pathText nc h.path = .ok (some pt)) :
    V1.renderHunk nc color h =
      match optAll (h.old.map (oldLine nc color)),
        optAll (h.new.map (newLine nc color (V1.pathRendersMerge h.path))) with
      | some o, some n => .ok (some ("@ " ++ pt ++ "\n" ++ String.join o ++ String.join n))
      | _, _ => .ok none := by
  unfold V1.renderHunk
  rw [hp]
  rfl

/-- whether `DiffElement.Render` succeeds does not depend on COLOR -/
theorem renderHunk_color {h : V1.PHunk} {t : String}
    (ht : V1.renderHunk nc false h = .ok (some t)) :
    ∃ t', V1.renderHunk nc true h = .ok (some t') := by
  cases hp : V1.pathText nc h.path with
  | panic => unfold V1.renderHunk at ht; rw [hp] at ht; cases ht
  | err => unfold V1.renderHunk at ht; rw [hp] at ht; cases ht
  | ok o =>
    cases o with
    | none => unfold V1.renderHunk at ht; rw [hp] at ht; cases ht
    | some pt =>
      rw [renderHunk_eq false h hp] at ht
      rw [renderHunk_eq true h hp]
      have ho' := optAll_isSome_congr (oldLine nc false) (oldLine nc true)
        (fun x => by simp only [oldLine, Option.isSome_map]) h.old
      have hn' := optAll_isSome_congr (newLine nc false (V1.pathRendersMerge h.path))
        (newLine nc true (V1.pathRendersMerge h.path))
        (fun x => by simp only [newLine, Option.isSome_map]) h.new
      split at ht
      · rename_i o n ho hn
        rw [ho] at ho'
        rw [hn] at hn'
        obtain ⟨o', ho''⟩ := Option.isSome_iff_exists.1 ho'.symm
        obtain ⟨n', hn''⟩ := Option.isSome_iff_exists.1 hn'.symm
        rw [ho'', hn'']
        exact ⟨_, rfl⟩
      · cases ht

/-- … nor does whether `Diff.Render` succeeds -/
theorem renderM_color : ∀ {d : V1.PDiff} {t : String},
    V1.renderM nc false d = .ok (some t) → ∃ t', V1.renderM nc true d = .ok (some t')
  | [], _, _ => ⟨"", rfl⟩
  | h :: d, t, ht => by
    unfold V1.renderM at ht ⊢
    cases h1 : V1.renderHunk nc false h with
    | err => rw [h1] at ht; cases ht
    | panic => rw [h1] at ht; cases ht
    | ok o =>
      cases o with
      | none =>
        rw [h1] at ht
        simp only at ht
        split at ht
        · cases ht
        · rename_i hr; exact (hr _ ht).elim
      | some a =>
        rw [h1] at ht
        simp only at ht
        obtain ⟨a', ha'⟩ := renderHunk_color h1
        rw [ha']
        simp only
        cases h2 : V1.renderM nc false d with
        | err => rw [h2] at ht; cases ht
        | panic => rw [h2] at ht; cases ht
        | ok o2 =>
          cases o2 with
          | none => rw [h2] at ht; simp at ht
          | some b2 =>
            obtain ⟨b2', hb2'⟩ := renderM_color h2
            rw [hb2']
            exact ⟨_, rfl⟩

theorem renderM_any_color {d : V1.PDiff} (color : Bool)
    (h : ∃ t, V1.renderM nc false d = .ok (some t)) : ∃ t, V1.renderM nc color d = .ok (some t) := by
  cases color with
  | false => exact h
  | true => obtain ⟨t, ht⟩ := h; exact renderM_color ht

end RenderOK

/-! ### the codec contract and `Render` success of a list-reading diff (ANY precision), from the
      two documents -/

section ListDocs
open Jd.V1P (plain lenLe IdxLaws)
open Jd.V1Pr (ListReading)

/-- what is known of every hunk of a list-reading v1 diff of two documents of the text domain
    (`CliV1.list_diff_facts` for any precision; `finiteNums` is not needed) -/
theorem lr_diff_facts (nc : NumCodec) {N : Nat} (m : V1.Metas) (hm : ListReading m) (a b : Json)
    (ha1 : a.listDoc = true) (ha2 : a.wf = true) (ha4 : Yaml.voidFree a = true)
    (ha5 : lenLe N a = true) (ha6 : JText.NumOK nc a = true)
    (hb1 : b.listDoc = true) (hb2 : b.wf = true) (hb4 : Yaml.voidFree b = true)
    (hb6 : JText.NumOK nc b = true) :
    ∀ h ∈ V1.diffM m a b, plain h.path = true ∧ V1R.idxP N h.path ∧
      ∀ v ∈ h.old ++ h.new, v.listDoc = true ∧ WTOK nc v := by
  have hd : V1.diffM m a b = V1.diffNode m false a b [] := by
    unfold V1.diffM; rw [hm.noMerge]
  have va := V1T.vfree_of_voidFree a ha4
  have vb := V1T.vfree_of_voidFree b hb4
  have hbv := V1T.voidFree_notVoid hb4
  intro h hh
  rw [hd] at hh
  have k1 := ((V1Pr.diff_hunks m hm).1 a b ha1 hb1 h hh).1
  have k2 := (V1Pr.diff_vals m hm).1 a b ha1 hb1 va vb hbv h hh
  have k3 := (lr_idx N m hm).1 a b ha1 hb1 ha5 h hh
  have k4 := ((lr_vals (WTOK nc) (WTOK.closed nc) m hm).1 a b ha1 hb1 ⟨ha2, ha4, ha6⟩
    ⟨hb2, hb4, hb6⟩ h hh).1
  refine ⟨k1.plain, k3, ?_⟩
  intro v hv
  rcases List.mem_append.1 hv with hv | hv
  · exact ⟨V1S.listDocList_mem k2.old hv, k4.1 v hv⟩
  · exact ⟨V1S.listDocList_mem k2.new hv, k4.2 v hv⟩

/-- **the codec contract of a list-reading diff, from the two documents**: every path is printed
    and reads back, every value is printed and reads back (the hypotheses `hp`, `hv` of
    `CliV1.v1_native_cli_round_trip_precision`) -/
theorem lr_contract (nc : NumCodec) {N : Nat} (J : IdxNumOK nc N) (m : V1.Metas)
    (hm : ListReading m) (a b : Json)
    (ha1 : a.listDoc = true) (ha2 : a.wf = true) (ha4 : Yaml.voidFree a = true)
    (ha5 : lenLe N a = true) (ha6 : JText.NumOK nc a = true)
    (hb1 : b.listDoc = true) (hb2 : b.wf = true) (hb4 : Yaml.voidFree b = true)
    (hb6 : JText.NumOK nc b = true) :
    (∀ h ∈ V1.diffM m a b,
      (jsonText nc (.arr .raw (V1.rawNormList h.path))).isSome = true ∧ V1S.PathOK nc h.path) ∧
    (∀ h ∈ V1.diffM m a b, ∀ v ∈ h.old ++ h.new,
      (V1.marshalNode nc v).isSome = true ∧ V1S.ValOK nc v) := by
  have F := lr_diff_facts nc (N := N) m hm a b ha1 ha2 ha4 ha5 ha6 hb1 hb2 hb4 hb6
  exact ⟨fun h hh => pathOK_of_idx nc J h.path (F h hh).1 (F h hh).2.1,
    fun h hh v hv => valOK_of_wtok nc ((F h hh).2.2 v hv).1 ((F h hh).2.2 v hv).2⟩

/-- **`Render` / `Render(COLOR)` succeeds on a list-reading diff** of two documents of the text
    domain (no void marker, every number printed and read back by the codec, list indices below
    `N` printable) -/
theorem lr_render_ok (nc : NumCodec) {N : Nat} (J : IdxNumOK nc N) (m : V1.Metas)
    (hm : ListReading m) (a b : Json) (color : Bool)
    (ha1 : a.listDoc = true) (ha2 : a.wf = true) (ha4 : Yaml.voidFree a = true)
    (ha5 : lenLe N a = true) (ha6 : JText.NumOK nc a = true)
    (hb1 : b.listDoc = true) (hb2 : b.wf = true) (hb4 : Yaml.voidFree b = true)
    (hb6 : JText.NumOK nc b = true) :
    ∃ T, V1.renderM nc color (V1.liftDiff (V1.diffM m a b)) = .ok (some T) := by
  have F := lr_diff_facts nc (N := N) m hm a b ha1 ha2 ha4 ha5 ha6 hb1 hb2 hb4 hb6
  obtain ⟨C1, C2⟩ := lr_contract nc J m hm a b ha1 ha2 ha4 ha5 ha6 hb1 hb2 hb4 hb6
  exact renderM_any_color color (render_ok nc (V1.diffM m a b)
    (fun h hh => V1S.metaOK_plain h.path (F h hh).1)
    (fun h hh => (C1 h hh).1) (fun h hh v hv _ => (C2 h hh v hv).1))

/-- **C05 / C14 on the process, v1 library, native format, list reading, hypotheses on the two
    documents only** (`cli_exit_iff_equal_list_docs`): no hypothesis about the diff or its
    rendering.  ANY `-setkeys`, ANY `-precision`, `-color` or not. -/
theorem cli_exit_iff_equal_list_docs {N : Nat} (J : IdxNumOK nc N)
    (R : DiffRun nc Y Ls b fl e a b') {opts : List Opt}
    (ho : parsedOptions b fl = .ok opts) (P : ListFlags fl) (hfmt : formatOf fl.f = some .jd)
    (ha1 : a.rawDoc = true) (ha2 : a.wf = true) (ha4 : Yaml.voidFree a = true)
    (ha5 : lenLe N a = true) (ha6 : JText.NumOK nc a = true)
    (hb1 : b'.listDoc = true) (hb2 : b'.wf = true) (hb4 : Yaml.voidFree b' = true)
    (hb6 : JText.NumOK nc b' = true) :
    ((proc Ls b fl e).exit = 0 ↔ V1.equals (metasOf opts) a b' = true) ∧
    ((proc Ls b fl e).exit = 1 ↔ V1.equals (metasOf opts) a b' = false) ∧
    (proc Ls b fl e).exit ≠ 2 :=
  cli_exit_iff_equal_list R ho P hfmt ha1 ha2 hb1 hb2
    (lr_render_ok nc J (metasOf opts) (listReading_of_flags ho P (not_merge_of_jd hfmt)) a b'
      fl.color (rawDoc_listDoc a ha1) ha2 ha4 ha5 ha6 hb1 hb2 hb4 hb6)

/-- **END TO END, native format, list reading with `-precision eps` (finite, `eps ≥ 0`), v1
    library, hypotheses on the two documents only**: `CliV1.v1_native_cli_round_trip_precision`
    with its codec contract (`hp`, `hv`) discharged by `lr_contract`.  What remains: the IEEE laws
    (`FloatLaws`, `IdxLaws N`), the codec on list indices (`IdxNumOK nc N`), and on the parsed
    documents `listDoc`, `wf`, `finiteNums`, `Yaml.voidFree`, `lenLe N a`, `JText.NumOK`. -/
theorem v1_native_cli_round_trip_precision_docs (FL : FloatLaws) {N : Nat} (I : IdxLaws N)
    (nc : NumCodec) (J : IdxNumOK nc N) (Y : YamlCarrier)
    (Ls : Bool → LibPack) (hL : Ls true = ⟨Json, V1.PDiff, v1Lib nc Y⟩)
    (b : Binary) {fl fl2 : Flags} {e1 e2 : Env} {opts : List Opt}
    (hm : isDiffMode fl) (h : PatchTwin fl fl2) (hv1 : libIsV1 b fl = true)
    (ho : parsedOptions b fl = .ok opts)
    (hset : fl.set = false) (hmset : fl.mset = false) (hprec : nonnegBits fl.precision = true)
    (hfmt : formatOf fl.f = some .jd) (hcolor : fl.color = false)
    (hn : fl.nargs = 1 ∨ fl.nargs = 2)
    {ta tb : String} {a b' : Json}
    (hi1 : e1.in1 = .ok ta) (hi2 : e1.in2 = .ok tb) (hw1 : fl.o = "" ∨ e1.write = .ok ())
    (hra : (v1Lib nc Y).readDoc fl.yaml ta = .ok a)
    (hrb : (v1Lib nc Y).readDoc fl.yaml tb = .ok b')
    (ha1 : a.listDoc = true) (ha2 : a.wf = true) (ha3 : a.finiteNums = true)
    (ha4 : Yaml.voidFree a = true) (ha5 : lenLe N a = true) (ha6 : JText.NumOK nc a = true)
    (hb1 : b'.listDoc = true) (hb2 : b'.wf = true) (hb3 : b'.finiteNums = true)
    (hb4 : Yaml.voidFree b' = true) (hb6 : JText.NumOK nc b' = true)
    (hT : e2.in1 = .ok (emitted (proc Ls b fl e1)))
    (ha : e2.in2 = e1.in1) (hw : fl2.o = "" ∨ e2.write = .ok ()) :
    ∃ T d' r,
      V1.renderM nc false (V1.liftDiff (V1.diffM (metasOf opts) a b')) = .ok (some T) ∧
      V1.readDiffM nc T = .ok d' ∧ V1.patchM a d' = .ok r ∧
      V1.equals (metasOf opts) r b' = true ∧ equivB [Opt.prec fl.precision] r b' = true ∧
      TwoRuns (proc Ls b fl e1) (proc Ls b fl2 e2) fl fl2 T (if T = "" then 0 else 1)
        ((v1Lib nc Y).renderDoc fl.yaml opts r) := by
  have LR := listReading_of_flags ho ⟨hset, hmset⟩ (not_merge_of_jd hfmt)
  obtain ⟨C1, C2⟩ := lr_contract nc J (metasOf opts) LR a b' ha1 ha2 ha4 ha5 ha6 hb1 hb2 hb4 hb6
  exact v1_native_cli_round_trip_precision FL I nc Y Ls hL b hm h hv1 ho hset hmset hprec hfmt
    hcolor hn hi1 hi2 hw1 hra hrb ha1 ha2 ha3 ha4 ha5 hb1 hb2 hb3 hb4 C1 C2 hT ha hw

end ListDocs

/-! ### JSON inputs (no `-yaml`): the shape hypotheses are discharged by the reader -/

section JsonInputs
open Jd.V1P (lenLe)

/-- both documents of a situation without `-yaml` are what `ReadJsonString` returns: plain arrays,
    sorted unique keys, no void marker inside (`CliExit.readJsonM_shape`; v1 `unmarshal` is the v2
    one) -/
theorem DiffRun.shape (R : DiffRun nc Y Ls b fl e a b') (hy : fl.yaml = false) :
    (a.rawDoc = true ∧ a.listDoc = true ∧ a.wf = true ∧ PRC.vfree a = true) ∧
    (b'.rawDoc = true ∧ b'.listDoc = true ∧ b'.wf = true ∧ PRC.vfree b' = true) := by
  obtain ⟨ta, _, hra⟩ := R.read1
  obtain ⟨tb, _, hrb⟩ := R.read2
  rw [hy, v1Lib_readDoc_json] at hra hrb
  exact ⟨Jd.CliExit.readJsonM_shape (ofOutcome_ok.1 hra),
    Jd.CliExit.readJsonM_shape (ofOutcome_ok.1 hrb)⟩

/-- native format, list reading, JSON files: the only hypothesis left is that `Render` succeeds -/
theorem cli_exit_iff_equal_list_json (R : DiffRun nc Y Ls b fl e a b') {opts : List Opt}
    (ho : parsedOptions b fl = .ok opts) (P : ListFlags fl) (hfmt : formatOf fl.f = some .jd)
    (hy : fl.yaml = false)
    (hren : ∃ T, V1.renderM nc fl.color (V1.liftDiff (dOf opts a b')) = .ok (some T)) :
    ((proc Ls b fl e).exit = 0 ↔ V1.equals (metasOf opts) a b' = true) ∧
    ((proc Ls b fl e).exit = 1 ↔ V1.equals (metasOf opts) a b' = false) ∧
    (proc Ls b fl e).exit ≠ 2 := by
  obtain ⟨⟨a1, _, a3, _⟩, ⟨_, b2, b3, _⟩⟩ := R.shape hy
  exact cli_exit_iff_equal_list R ho P hfmt a1 a3 b2 b3 hren

/-- **`-f patch`, list reading, JSON files: NO hypothesis on the documents** -/
theorem cli_exit_iff_equal_list_patch_json (R : DiffRun nc Y Ls b fl e a b') {opts : List Opt}
    (ho : parsedOptions b fl = .ok opts) (P : ListFlags fl) (hfmt : formatOf fl.f = some .patch)
    (hy : fl.yaml = false) :
    ((proc Ls b fl e).exit = 0 ↔ V1.equals (metasOf opts) a b' = true) ∧
    ((proc Ls b fl e).exit = 1 ↔ V1.equals (metasOf opts) a b' = false ∧
      ∃ T, (v1Lib nc Y).renderPatch (V1.liftDiff (dOf opts a b')) = .ok T) ∧
    ((proc Ls b fl e).exit = 2 ↔ V1.equals (metasOf opts) a b' = false ∧
      ∃ m, (v1Lib nc Y).renderPatch (V1.liftDiff (dOf opts a b')) = .error m) := by
  obtain ⟨⟨a1, _, a3, _⟩, ⟨_, b2, b3, _⟩⟩ := R.shape hy
  exact cli_exit_iff_equal_list_patch R ho P hfmt a1 a3 b2 b3

/-- **`-f merge`, no `-set` / `-mset`, JSON files**: the second file is not blank (`hbv`: blank
    text is read as the void document, outside the domain of `V1PM.…_anyprec`) -/
theorem cli_exit_iff_equal_list_merge_json (R : DiffRun nc Y Ls b fl e a b') {opts : List Opt}
    (ho : parsedOptions b fl = .ok opts) (P : ListFlags fl) (hfmt : formatOf fl.f = some .merge)
    (hy : fl.yaml = false) (hbv : b'.isVoid = false) :
    ((proc Ls b fl e).exit = 0 ↔ V1.equals (metasOf opts) a b' = true) ∧
    ((proc Ls b fl e).exit = 1 ↔ V1.equals (metasOf opts) a b' = false ∧
      ∃ T, (v1Lib nc Y).renderMerge (V1.liftDiff (dOf opts a b')) = .ok T) ∧
    ((proc Ls b fl e).exit = 2 ↔ V1.equals (metasOf opts) a b' = false ∧
      ∃ m, (v1Lib nc Y).renderMerge (V1.liftDiff (dOf opts a b')) = .error m) := by
  obtain ⟨⟨a1, _, a3, _⟩, ⟨b1, _, b3, b4⟩⟩ := R.shape hy
  exact cli_exit_iff_equal_list_merge R ho P hfmt a1 a3 b1 b3
    (V1T.objVoidFree_of_voidFree b' (RTL.voidFree_of_vfree b' hbv b4))

/-- **native format, list reading, JSON files, no hypothesis about the diff**: neither file is
    blank, the arrays of the first have at most `N` elements, the codec prints and reads back every
    number of the two documents and the list indices below `N` -/
theorem cli_exit_iff_equal_list_docs_json {N : Nat} (J : IdxNumOK nc N)
    (R : DiffRun nc Y Ls b fl e a b') {opts : List Opt}
    (ho : parsedOptions b fl = .ok opts) (P : ListFlags fl) (hfmt : formatOf fl.f = some .jd)
    (hy : fl.yaml = false) (hav : a.isVoid = false) (hbv : b'.isVoid = false)
    (ha5 : lenLe N a = true) (ha6 : JText.NumOK nc a = true) (hb6 : JText.NumOK nc b' = true) :
    ((proc Ls b fl e).exit = 0 ↔ V1.equals (metasOf opts) a b' = true) ∧
    ((proc Ls b fl e).exit = 1 ↔ V1.equals (metasOf opts) a b' = false) ∧
    (proc Ls b fl e).exit ≠ 2 := by
  obtain ⟨⟨a1, _, a3, a4⟩, ⟨_, b2, b3, b4⟩⟩ := R.shape hy
  exact cli_exit_iff_equal_list_docs J R ho P hfmt a1 a3 (RTL.voidFree_of_vfree a hav a4) ha5 ha6
    b2 b3 (RTL.voidFree_of_vfree b' hbv b4) hb6

end JsonInputs

/-! ## 7. SET / MULTISET readings (`-set`, `-mset`; `-precision` 0 or absent) -/

section SetCli

/-- `getSetkeysMetadata` on the metadata `parseMetadata` built: the trimmed keys of `-setkeys` -/
theorem metas_keys {opts : List Opt} (ho : parsedOptions b fl = .ok opts) :
    (fl.setkeys = "" → V1.keysOf (metasOf opts) = none) ∧
    (∀ ks, fl.setkeys ≠ "" → splitKeys fl.setkeys = .ok ks →
      V1.keysOf (metasOf opts) = some ks) := by
  rw [parsedOptions_same] at ho
  unfold optionsOf at ho
  split at ho
  · cases ho
  · split at ho
    · cases ho
    · rename_i ks hks
      cases ho
      constructor
      · intro h0
        simp only [h0, bne_self_eq_false, Bool.false_eq_true, if_false, Except.ok.injEq] at hks
        subst hks
        cases fl.set <;> cases fl.mset <;> cases (fl.f == "merge") <;>
          simp [metasOf, toV1, v1MetaOf, V1.keysOf]
      · intro ks' hne hsp
        have : (fl.setkeys != "") = true := by simpa using hne
        simp only [this, if_true, hsp, Except.map, Except.ok.injEq] at hks
        subst hks
        cases fl.set <;> cases fl.mset <;> cases (fl.f == "merge") <;>
          simp [metasOf, toV1, v1MetaOf, V1.keysOf]

/-- `-set` or `-mset`, no `-setkeys`, `-precision` 0 or absent -/
structure SetFlags (fl : Flags) : Prop where
  some    : fl.set = true ∨ fl.mset = true
  setkeys : fl.setkeys = ""
  prec    : fl.precision = 0

/-- the metadata of `jd -v2=false -set` / `-mset` (native or patch format) select the SET resp.
    MULTISET reading (`setReading`: SET wins when both are given) -/
theorem mode_of_setFlags {opts : List Opt} (ho : parsedOptions b fl = .ok opts) (S : SetFlags fl)
    (hnm : (fl.f == "merge") = false) : V1S.Mode (metasOf opts) (setReading fl) := by
  obtain ⟨m1, m2, m3, m4⟩ := metas_facts ho
  have mk := (metas_keys ho).1 S.setkeys
  unfold setReading
  cases hs : fl.set with
  | true =>
    exact (show V1S.SetMode (metasOf opts) from
      ⟨by rw [m1, hs], mk, by rw [m3, hnm], by rw [m4, S.prec]⟩).mode
  | false =>
    have hms : fl.mset = true := by rcases S.some with h | h; · rw [hs] at h; cases h
                                    · exact h
    exact (show V1S.MsetMode (metasOf opts) from
      ⟨by rw [m1, hs], by rw [m2, hms], mk, by rw [m3, hnm], by rw [m4, S.prec]⟩).mode

/-- … and with `-f merge` the SET + MERGE resp. MULTISET + MERGE reading -/
theorem mmode_of_setFlags {opts : List Opt} (ho : parsedOptions b fl = .ok opts) (S : SetFlags fl)
    (hmg : (fl.f == "merge") = true) : V1K.MMode (metasOf opts) (setReading fl) := by
  obtain ⟨m1, m2, m3, m4⟩ := metas_facts ho
  have mk := (metas_keys ho).1 S.setkeys
  unfold setReading
  cases hs : fl.set with
  | true =>
    exact ⟨by simp [V1.dispatchTag, m1, hs, dispatchTag], .inl rfl, rfl, by rw [m4, S.prec], mk,
      by rw [m3, hmg]⟩
  | false =>
    have hms : fl.mset = true := by rcases S.some with h | h; · rw [hs] at h; cases h
                                    · exact h
    exact ⟨by simp [V1.dispatchTag, m1, m2, hs, hms, dispatchTag], .inr rfl, rfl,
      by rw [m4, S.prec], mk, by rw [m3, hmg]⟩

/-- **`-set` / `-mset`, native format, v1 library, relative to `V1S.HashFaithful`** (v1 hash codes
    of the sub-terms of the two documents collide only for equivalent nodes): exit 0 ⇔ Equal, exit 1
    ⇔ not Equal, never 2 -/
theorem cli_exit_iff_equal_set (F : FloatEq0) (FL : FloatLaws) (R : DiffRun nc Y Ls b fl e a b')
    {opts : List Opt} (ho : parsedOptions b fl = .ok opts) (S : SetFlags fl)
    (hfmt : formatOf fl.f = some .jd)
    (ha : a.setDoc = true) (hb : b'.setDoc = true)
    (ma : DPL.memOK a = true) (mb : DPL.memOK b' = true)
    (HF : V1S.HashFaithful (metasOf opts) (setReading fl) (subterms a ++ subterms b'))
    (hren : ∃ T, V1.renderM nc fl.color (V1.liftDiff (dOf opts a b')) = .ok (some T)) :
    ((proc Ls b fl e).exit = 0 ↔ V1.equals (metasOf opts) a b' = true) ∧
    ((proc Ls b fl e).exit = 1 ↔ V1.equals (metasOf opts) a b' = false) ∧
    (proc Ls b fl e).exit ≠ 2 := by
  have M := mode_of_setFlags ho S (not_merge_of_jd hfmt)
  obtain ⟨h2, _, h01⟩ := jd_exit R ho hfmt
  obtain ⟨h0, h1⟩ := h01 hren
  have hiff := V1S.v1_diff_empty_iff_equals_setmodes F FL M a b' ha hb ma mb HF
  exact ⟨h0.trans hiff, h1.trans (ne_nil_iff_not_equal hiff), h2⟩

/-- (Equal ⇒ exit 0), `-set` / `-mset`, native and JSON Patch formats, under `HashFaithful`: no
    rendering hypothesis -/
theorem cli_equal_exit_zero_set (F : FloatEq0) (FL : FloatLaws) (R : DiffRun nc Y Ls b fl e a b')
    {opts : List Opt} (ho : parsedOptions b fl = .ok opts) (S : SetFlags fl) {fmt : Format}
    (hfmt : formatOf fl.f = some fmt) (hnm : fmt ≠ .merge)
    (ha : a.setDoc = true) (hb : b'.setDoc = true)
    (ma : DPL.memOK a = true) (mb : DPL.memOK b' = true)
    (HF : V1S.HashFaithful (metasOf opts) (setReading fl) (subterms a ++ subterms b'))
    (heq : V1.equals (metasOf opts) a b' = true) : (proc Ls b fl e).exit = 0 := by
  have hm : (fl.f == "merge") = false := by
    cases fmt with
    | jd => exact not_merge_of_jd hfmt
    | patch => exact CliV1.not_merge_of_patch hfmt
    | merge => exact absurd rfl hnm
  have M := mode_of_setFlags ho S hm
  exact exit_zero_of_nil R ho hfmt
    ((V1S.v1_diff_empty_iff_equals_setmodes F FL M a b' ha hb ma mb HF).2 heq)

/-- **`-set` / `-mset` with `-f merge`, v1 library, relative to `HashFaithful`**: exit 0 ⇔ Equal;
    when not Equal, exit 1 or — exactly when `RenderMerge` returns an error — exit 2 -/
theorem cli_exit_iff_equal_set_merge (F : FloatEq0) (FL : FloatLaws)
    (R : DiffRun nc Y Ls b fl e a b')
    {opts : List Opt} (ho : parsedOptions b fl = .ok opts) (S : SetFlags fl)
    (hfmt : formatOf fl.f = some .merge)
    (ha : a.setDoc = true) (hb : b'.setDoc = true) (mb : DPL.memOK b' = true)
    (HF : V1S.HashFaithful (metasOf opts) (setReading fl) (subterms a ++ subterms b')) :
    ((proc Ls b fl e).exit = 0 ↔ V1.equals (metasOf opts) a b' = true) ∧
    ((proc Ls b fl e).exit = 1 ↔ V1.equals (metasOf opts) a b' = false ∧
      ∃ T, (v1Lib nc Y).renderMerge (V1.liftDiff (dOf opts a b')) = .ok T) ∧
    ((proc Ls b fl e).exit = 2 ↔ V1.equals (metasOf opts) a b' = false ∧
      ∃ m, (v1Lib nc Y).renderMerge (V1.liftDiff (dOf opts a b')) = .error m) := by
  have M := mmode_of_setFlags ho S (Jd.CliExit.merge_of_fmt hfmt)
  obtain ⟨h0, h1, h2⟩ := merge_exit R ho hfmt
  have hiff := V1K.v1_merge_diff_empty_iff_equals_setmodes F FL M a b' ha hb mb HF
  have hne := ne_nil_iff_not_equal hiff
  refine ⟨h0.trans hiff, ?_, ?_⟩
  · rw [← hne]; exact h1
  · rw [← hne]; exact h2

/-! ### `-set` / `-mset` combined with `-setkeys` (native format) -/

/-- `-set -setkeys k1,k2,…` (`-mset` may be present too: SET wins), `-precision` 0 or absent: the
    metadata are `V1K.KMode` for the trimmed key list -/
theorem kmode_of_flags {opts : List Opt} (ho : parsedOptions b fl = .ok opts)
    (hset : fl.set = true) (hk : fl.setkeys ≠ "") {ks : List String}
    (hks : splitKeys fl.setkeys = .ok ks) (hprec : fl.precision = 0)
    (hnm : (fl.f == "merge") = false) : V1K.KMode (metasOf opts) ks := by
  obtain ⟨m1, m2, m3, m4⟩ := metas_facts ho
  refine ⟨by rw [m1, hset], (metas_keys ho).2 ks hk hks, ?_, by rw [m3, hnm], by rw [m4, hprec]⟩
  have := splitKeys_ne_nil hks
  cases ks with
  | nil => exact absurd rfl this
  | cons _ _ => rfl

/-- **`-set -setkeys ks`, native format, v1 library, relative to `V1K.KeysHyp`** (the decidable
    hypotheses of `V1K.v1_diff_empty_iff_equals_setkeys` on the two documents: faithful v1 hashes,
    keyed objects of `a` distinct and carrying the keys, …): exit 0 ⇔ Equal, exit 1 ⇔ not, never 2 -/
theorem cli_exit_iff_equal_set_setkeys (F : FloatEq0) (FL : FloatLaws)
    (R : DiffRun nc Y Ls b fl e a b')
    {opts : List Opt} (ho : parsedOptions b fl = .ok opts)
    (hset : fl.set = true) (hk : fl.setkeys ≠ "") {ks : List String}
    (hks : splitKeys fl.setkeys = .ok ks) (hprec : fl.precision = 0)
    (hfmt : formatOf fl.f = some .jd)
    (ha : a.setDoc = true) (hb : b'.setDoc = true)
    (ma : DPL.memOK a = true) (mb : DPL.memOK b' = true)
    (H : V1K.KeysHyp (metasOf opts) ks a b')
    (hren : ∃ T, V1.renderM nc fl.color (V1.liftDiff (dOf opts a b')) = .ok (some T)) :
    ((proc Ls b fl e).exit = 0 ↔ V1.equals (metasOf opts) a b' = true) ∧
    ((proc Ls b fl e).exit = 1 ↔ V1.equals (metasOf opts) a b' = false) ∧
    (proc Ls b fl e).exit ≠ 2 := by
  have K := kmode_of_flags ho hset hk hks hprec (not_merge_of_jd hfmt)
  obtain ⟨h2, _, h01⟩ := jd_exit R ho hfmt
  obtain ⟨h0, h1⟩ := h01 hren
  have hiff := V1K.v1_diff_empty_iff_equals_setkeys F FL K a b' ha hb ma mb H
  exact ⟨h0.trans hiff, h1.trans (ne_nil_iff_not_equal hiff), h2⟩

/-- **`-mset` (no `-set`) with ANY `-setkeys` (absent included), native format, v1 library,
    relative to `HashFaithful` for the MULTISET reading**: in v1 the set keys do not matter for
    multisets; exit 0 ⇔ Equal, exit 1 ⇔ not, never 2 -/
theorem cli_exit_iff_equal_mset_setkeys (F : FloatEq0) (FL : FloatLaws)
    (R : DiffRun nc Y Ls b fl e a b')
    {opts : List Opt} (ho : parsedOptions b fl = .ok opts)
    (hset : fl.set = false) (hmset : fl.mset = true) (hprec : fl.precision = 0)
    (hfmt : formatOf fl.f = some .jd)
    (ha : a.setDoc = true) (hb : b'.setDoc = true)
    (ma : DPL.memOK a = true) (mb : DPL.memOK b' = true)
    (HF : V1S.HashFaithful (metasOf opts) [.mset] (subterms a ++ subterms b'))
    (hren : ∃ T, V1.renderM nc fl.color (V1.liftDiff (dOf opts a b')) = .ok (some T)) :
    ((proc Ls b fl e).exit = 0 ↔ V1.equals (metasOf opts) a b' = true) ∧
    ((proc Ls b fl e).exit = 1 ↔ V1.equals (metasOf opts) a b' = false) ∧
    (proc Ls b fl e).exit ≠ 2 := by
  obtain ⟨m1, m2, m3, m4⟩ := metas_facts ho
  have X : V1K.XMsMode (metasOf opts) :=
    ⟨by rw [m1, hset], by rw [m2, hmset], by rw [m3, not_merge_of_jd hfmt], by rw [m4, hprec]⟩
  obtain ⟨h2, _, h01⟩ := jd_exit R ho hfmt
  obtain ⟨h0, h1⟩ := h01 hren
  have hiff := V1K.v1_diff_empty_iff_equals_mset_setkeys F FL X a b' ha hb ma mb HF
  exact ⟨h0.trans hiff, h1.trans (ne_nil_iff_not_equal hiff), h2⟩

end SetCli

/-! ## 8. when `-f patch` / `-f merge` never exit 2 (list reading, precision 0) -/

section NeverTwo
open Jd.V1P (ListMode IdxLaws lenLe)

/-- **`-f patch`, list reading, never exit 2**: no key `-` in the two documents (`V1R.noDash`: the
    one key `writePointer` refuses), documents of the text domain, precision 0 or absent: the run
    exits 0 when Equal and 1 when not.  (`FloatLaws`, `IdxLaws`: `RenderPatch` succeeds is taken
    from `V1T.v1_patch_text_readback_noDash`.) -/
theorem cli_exit_codes_list_patch (L : FloatLaws) {N : Nat} (I : IdxLaws N) (hN : N ≤ 2 ^ 63)
    (R : DiffRun nc Y Ls b fl e a b') {opts : List Opt}
    (ho : parsedOptions b fl = .ok opts) (P : ListFlags fl) (hprec : fl.precision = 0)
    (hfmt : formatOf fl.f = some .patch)
    (ha0 : a.rawDoc = true) (ha2 : a.wf = true) (ha3 : a.finiteNums = true)
    (ha4 : Yaml.voidFree a = true) (ha5 : lenLe N a = true) (ha6 : JText.NumOK nc a = true)
    (hb1 : b'.listDoc = true) (hb2 : b'.wf = true) (hb3 : b'.finiteNums = true)
    (hb4 : Yaml.voidFree b' = true) (hb6 : JText.NumOK nc b' = true)
    (hda : V1R.noDash a = true) (hdb : V1R.noDash b' = true) :
    ((proc Ls b fl e).exit = 0 ↔ V1.equals (metasOf opts) a b' = true) ∧
    ((proc Ls b fl e).exit = 1 ↔ V1.equals (metasOf opts) a b' = false) ∧
    (proc Ls b fl e).exit ≠ 2 := by
  obtain ⟨m1, m2, m3, m4⟩ := metas_facts ho
  have hM : ListMode (metasOf opts) :=
    ⟨by rw [m1, P.set], by rw [m2, P.mset], by rw [m3, CliV1.not_merge_of_patch hfmt],
      by rw [m4, hprec]⟩
  obtain ⟨T, _, _, g1, _⟩ :=
    V1T.v1_patch_text_readback_noDash L I hN nc (metasOf opts) hM a b' (rawDoc_listDoc a ha0) ha2
      ha3 ha4 ha5 ha6 hb1 hb2 hb3 hb4 hb6 hda hdb
  have hT : (v1Lib nc Y).renderPatch (V1.liftDiff (dOf opts a b')) = .ok T := by
    show ofOutcomeText (V1.renderPatchM nc _) = .ok T
    rw [g1]; rfl
  obtain ⟨h0, h1, h2⟩ := cli_exit_iff_equal_list_patch R ho P hfmt ha0 ha2 hb1 hb2
  refine ⟨h0, ⟨fun h => (h1.1 h).1, fun h => h1.2 ⟨h, T, hT⟩⟩, ?_⟩
  intro hx
  obtain ⟨_, m, hm⟩ := h2.1 hx
  rw [hT] at hm
  cases hm

/-- **`-f merge`, list reading, never exit 2**: second document in the domain of JSON Merge Patch
    (no `null`, no void), documents of the text domain, precision 0 or absent (`RenderMerge`
    succeeds is taken from `CliV1.v1_merge_lib_round_trip`) -/
theorem cli_exit_codes_list_merge (L : FloatLaws)
    (R : DiffRun nc Y Ls b fl e a b') {opts : List Opt}
    (ho : parsedOptions b fl = .ok opts) (P : ListFlags fl) (hprec : fl.precision = 0)
    (hfmt : formatOf fl.f = some .merge)
    (haw : a.wf = true) (har : a.rawDoc = true)
    (hbw : b'.wf = true) (hbr : b'.rawDoc = true) (hbn : b'.nullFree = true)
    (hbf : b'.finiteNums = true) (hbv : Yaml.voidFree b' = true) (hbN : JText.NumOK nc b' = true)
    (hab : mergeRTDom a b' = true) :
    ((proc Ls b fl e).exit = 0 ↔ V1.equals (metasOf opts) a b' = true) ∧
    ((proc Ls b fl e).exit = 1 ↔ V1.equals (metasOf opts) a b' = false) ∧
    (proc Ls b fl e).exit ≠ 2 := by
  have hf : fl.f = "merge" := by
    have := Jd.CliExit.merge_of_fmt hfmt
    simpa using this
  have hM := mergeMode_of_flags ho P.set P.mset hf hprec
  obtain ⟨T, _, _, g1, _⟩ := v1_merge_lib_round_trip L nc hM a b' haw har hbw hbr hbn hbf hbv hbN hab
  have hT : (v1Lib nc Y).renderMerge (V1.liftDiff (dOf opts a b')) = .ok T := by
    show ofOutcomeText (V1.renderMergeM nc _) = .ok T
    rw [g1]; rfl
  obtain ⟨h0, h1, h2⟩ := cli_exit_iff_equal_list_merge R ho P hfmt har haw hbr hbw
    (V1T.objVoidFree_of_voidFree b' hbv)
  refine ⟨h0, ⟨fun h => (h1.1 h).1, fun h => h1.2 ⟨h, T, hT⟩⟩, ?_⟩
  intro hx
  obtain ⟨_, m, hm⟩ := h2.1 hx
  rw [hT] at hm
  cases hm

end NeverTwo

/-! ## 9. non-vacuity and witnesses: concrete command lines and files (binary B, `-v2=false`) -/

namespace Example
open Jd.NativeRT (exCodec)
open Jd.E2E.Example (exA exB)
open Jd.CliRT.NativeExample (taE tbE read_a read_b noYaml)
open Jd.CliV1.Example (docs_ok)

/-- the situation for binary B with `-v2=false`, two JSON files, no `-o`, the codec `exCodec` -/
theorem mkRun {fl : Flags} {ta tb : String} {a b' : Json} (hm : isDiffMode fl)
    (hv : fl.v2 = false) (hn : fl.nargs = 2) (hy : fl.yaml = false) (ho : fl.o = "")
    (ha : readJsonM exCodec ta = .ok a) (hb : readJsonM exCodec tb = .ok b') :
    DiffRun exCodec noYaml Jd.CliV1.Example.Ls .top fl { in1 := .ok ta, in2 := .ok tb } a b' where
  lib := rfl
  mode := hm
  v1 := by simp [libIsV1, hv]
  nargs := .inr hn
  read1 := ⟨ta, rfl, by rw [hy, v1Lib_readDoc_json, ha]; rfl⟩
  read2 := ⟨tb, rfl, by rw [hy, v1Lib_readDoc_json, hb]; rfl⟩
  write := .inl ho

/-- `jd -v2=false a.json b.json` -/
def fl1 : Flags := { nargs := 2, v2 := false }

/-- **`cli_exit_iff_equal_list_docs_json` applies** to `jd -v2=false a.json b.json` with
    `{"k":[true,null,["x"]]}` and `{"k":[false,null,["x","y"]],"n":null}`: every hypothesis is
    discharged except the codec law on the list indices below 3 (`Float` is opaque to the kernel);
    the documents are not Equal and the process exits 1 -/
theorem ex_list_differ (J : IdxNumOK exCodec 3) :
    (proc Jd.CliV1.Example.Ls .top fl1 { in1 := .ok taE, in2 := .ok tbE }).exit = 1 ∧
      V1.equals [.prec 0] exA exB = false := by
  have R : DiffRun exCodec noYaml Jd.CliV1.Example.Ls .top fl1 { in1 := .ok taE, in2 := .ok tbE } exA exB :=
    mkRun ⟨rfl, rfl, rfl, rfl, rfl⟩ rfl rfl rfl rfl read_a read_b
  obtain ⟨_, _, _, _, a5, a6, _, _, _, _, b6⟩ := docs_ok
  have hne : V1.equals [.prec 0] exA exB = false := by decide
  obtain ⟨_, h1, _⟩ := cli_exit_iff_equal_list_docs_json J R (opts := [Opt.prec 0]) rfl ⟨rfl, rfl⟩
    (by decide) rfl (by decide) (by decide) a5 a6 b6
  exact ⟨h1.2 hne, hne⟩

/-- `jd -v2=false -precision 1.5 a.json b.json` -/
def flPrec : Flags := { precision := Jd.CliExit.Witness.eps15, nargs := 2, v2 := false }

/-- **v1 honours `-precision` in the exit status** (contrast: KF-C05-precision for the v2 library,
    `CliExit.Witness.precision_process_witness`, exit 1): `jd -v2=false -precision 1.5 a.json
    b.json` with the files `1` and `2` EXITS 0, and the two are Equal under `SetPrecision(1.5)` —
    relative to the IEEE fact `|1 − 2| ≤ 1.5` (`numWithin` computes with the opaque runtime
    `Float`; `#eval` in JdProofs.CliExitCodes gives `true`). -/
theorem ex_precision_exit_zero
    (h1 : numWithin Jd.CliExit.Witness.eps15 Jd.CliExit.Witness.one Jd.CliExit.Witness.two = true) :
    (proc Jd.CliV1.Example.Ls .top flPrec { in1 := .ok "1", in2 := .ok "2" }).exit = 0 ∧
    V1.equals [.prec Jd.CliExit.Witness.eps15] (.num Jd.CliExit.Witness.one)
      (.num Jd.CliExit.Witness.two) = true := by
  have R : DiffRun exCodec noYaml Jd.CliV1.Example.Ls .top flPrec { in1 := .ok "1", in2 := .ok "2" }
      (.num Jd.CliExit.Witness.one) (.num Jd.CliExit.Witness.two) :=
    mkRun ⟨rfl, rfl, rfl, rfl, rfl⟩ rfl rfl rfl rfl Jd.CliExit.Witness.read_one
      Jd.CliExit.Witness.read_two
  have he : V1.equals [.prec Jd.CliExit.Witness.eps15] (.num Jd.CliExit.Witness.one)
      (.num Jd.CliExit.Witness.two) = true := by
    simp only [V1.equals, V1.precOf]; exact h1
  refine ⟨?_, he⟩
  exact cli_equal_exit_zero_list R (opts := [Opt.prec Jd.CliExit.Witness.eps15]) rfl ⟨rfl, rfl⟩
    (fmt := .jd) (by decide) (by decide) (by decide) (by decide) (by decide) (by decide) he

/-- `jd -v2=false -set a.json b.json` -/
def flSet : Flags := { set := true, nargs := 2, v2 := false }
def sA : Json := .obj [("s", .arr .raw [.bool true, .null, .obj [("k", .null)]])]
def sB : Json := .obj [("s", .arr .raw [.obj [("k", .null)], .null, .bool true, .null])]
def tsA : String := "{\"s\":[true,null,{\"k\":null}]}"
def tsB : String := "{\"s\":[{\"k\":null},null,true,null]}"

theorem read_sA : readJsonM exCodec tsA = .ok sA := by
  simp [tsA, sA, readJsonM, trimGoSpace, parseJson, parseValue, skipWs, isJsonWs, parseElems,
    parseMembers, lexString, ainsert]
theorem read_sB : readJsonM exCodec tsB = .ok sB := by
  simp [tsB, sB, readJsonM, trimGoSpace, parseJson, parseValue, skipWs, isJsonWs, parseElems,
    parseMembers, lexString, ainsert]

/-- **the `-set` theorems apply**: `{"s":[true,null,{"k":null}]}` against
    `{"s":[{"k":null},null,true,null]}` with `jd -v2=false -set`: `HashFaithful` for the v1 hashes
    holds (checked by the kernel), the documents are Equal as sets, the process exits 0 -/
theorem ex_set_equal (F : FloatEq0) (FL : FloatLaws) :
    (proc Jd.CliV1.Example.Ls .top flSet { in1 := .ok tsA, in2 := .ok tsB }).exit = 0 ∧
      V1.equals [.set, .prec 0] sA sB = true := by
  have R : DiffRun exCodec noYaml Jd.CliV1.Example.Ls .top flSet
      { in1 := .ok tsA, in2 := .ok tsB } sA sB :=
    mkRun ⟨rfl, rfl, rfl, rfl, rfl⟩ rfl rfl rfl rfl read_sA read_sB
  have he : V1.equals [.set, .prec 0] sA sB = true := by decide +kernel
  have HF : V1S.HashFaithful [.set, .prec 0] [.set] (subterms sA ++ subterms sB) := by
    intro x hx y hy
    simp only [sA, sB, subterms, subtermsList, subtermsKvs, List.cons_append, List.nil_append,
      List.append_nil, List.mem_cons, List.not_mem_nil, or_false] at hx hy
    rcases hx with rfl | rfl | rfl | rfl | rfl | rfl | rfl | rfl | rfl | rfl | rfl | rfl | rfl <;>
    rcases hy with rfl | rfl | rfl | rfl | rfl | rfl | rfl | rfl | rfl | rfl | rfl | rfl | rfl <;>
    first
    | (intro _; simp [equivB, dispatchTag, allIn, allCovered, anyEquiv, equivKvs, alookup]; done)
    | (intro e; exact absurd e (by decide +kernel))
  exact ⟨cli_equal_exit_zero_set F FL R (opts := [Opt.set, Opt.prec 0]) rfl ⟨.inl rfl, rfl, rfl⟩
    (fmt := .jd) (by decide) (by decide) (by decide) (by decide) (by decide) (by decide) HF he, he⟩

end Example

namespace Witness
open Jd.NativeRT (exCodec)
open Jd.CliRT.NativeExample (noYaml)

def dA : Json := .obj [("-", .bool true)]
def dB : Json := .obj []
def tdA : String := "{\"-\":true}"
def tdB : String := "{}"

theorem read_dA : readJsonM exCodec tdA = .ok dA := by
  simp [tdA, dA, readJsonM, trimGoSpace, parseJson, parseValue, skipWs, isJsonWs, parseMembers,
    lexString, ainsert]
theorem read_dB : readJsonM exCodec tdB = .ok dB := by
  simp [tdB, dB, readJsonM, trimGoSpace, parseJson, parseValue, skipWs, isJsonWs]

/-- `jd -v2=false -f patch a.json b.json` -/
def flPatch : Flags := { f := "patch", nargs := 2, v2 := false }

theorem dash_diff : V1.diffM [.prec 0] dA dB =
    [{ path := [.str "-"], old := [.bool true], new := [] }] := by
  simp only [V1.diffM, V1.hasMerge, dA, dB]
  rw [V1P.diffNode_obj_obj, V1P.diffKvs_cons, V1P.diffKvs_nil]
  simp [alookup, Json.nodeList, Json.isVoid]

/-- **"1 exactly when they differ" is FALSE for `-f patch` with the v1 library as soon as a changed
    location lies at or below the object key `-`**: `jd -v2=false -f patch a.json b.json` with
    `{"-":true}` and `{}` — not Equal, `RenderPatch` returns an error (`writePointer`: "JSON Pointer
    does not support object key '-'"), the process exits 2. -/
theorem dash_key_exit_two :
    V1.equals [.prec 0] dA dB = false ∧
    (proc Jd.CliV1.Example.Ls .top flPatch { in1 := .ok tdA, in2 := .ok tdB }).exit = 2 := by
  have R : DiffRun exCodec noYaml Jd.CliV1.Example.Ls .top flPatch { in1 := .ok tdA, in2 := .ok tdB } dA dB :=
    Example.mkRun ⟨rfl, rfl, rfl, rfl, rfl⟩ rfl rfl rfl rfl read_dA read_dB
  have hne : V1.equals [.prec 0] dA dB = false := by decide
  obtain ⟨_, _, h2⟩ := cli_exit_iff_equal_list_patch_json R (opts := [Opt.prec 0]) rfl ⟨rfl, rfl⟩
    (by decide) rfl
  refine ⟨hne, h2.2 ⟨hne, "error", ?_⟩⟩
  show ofOutcomeText (V1.renderPatchM exCodec (V1.liftDiff (V1.diffM [.prec 0] dA dB))) = _
  rw [dash_diff]
  simp [V1.renderPatchM, V1.liftDiff, V1.Hunk.toP, V1.liftPath, V1.renderPatchOps,
    V1.renderPatchHunk, V1.writePointer, ofOutcomeText]

/-! ### why the native-format theorems ask that `Render` succeeds (`hren`) -/

open Jd.CliExit.Witness (badCodec x15 read_15 read_null) in
/-- **the hypothesis `hren` of `cli_exit_iff_equal_list` is needed ON THE MODEL** (an artifact of
    the totalisation `textOrEmpty` in `v1Lib.renderJd`, not a behaviour of the Go program: there
    `json.Marshal` of a finite number does not fail): with a codec that cannot print `1.5`, the
    files `1.5` and `null` are not Equal and the model process exits 0. -/
theorem render_artifact :
    V1.equals [.prec 0] x15 .null = false ∧
    (proc (fun _ => ⟨Json, V1.PDiff, v1Lib badCodec noYaml⟩) .top Example.fl1
      { in1 := .ok "1.5", in2 := .ok "null" }).exit = 0 := by
  have R : DiffRun badCodec noYaml (fun _ => ⟨Json, V1.PDiff, v1Lib badCodec noYaml⟩) .top
      Example.fl1 { in1 := .ok "1.5", in2 := .ok "null" } x15 .null :=
    { lib := rfl, mode := ⟨rfl, rfl, rfl, rfl, rfl⟩, v1 := rfl, nargs := .inr rfl,
      read1 := ⟨_, rfl, by
        rw [show Example.fl1.yaml = false from rfl, v1Lib_readDoc_json, read_15]; rfl⟩,
      read2 := ⟨_, rfl, by
        rw [show Example.fl1.yaml = false from rfl, v1Lib_readDoc_json, read_null]; rfl⟩,
      write := .inl rfl }
  have hne : V1.equals [.prec 0] x15 .null = false := by simp [V1.equals, x15]
  have hd : V1.diffM [.prec 0] x15 .null = [{ path := [], old := [x15], new := [.null] }] := by
    simp only [V1.diffM, V1.hasMerge, x15]
    rw [V1P.diffNode_scalar _ _ _ (fun _ _ e => by cases e) (fun _ e => by cases e)]
    simp [V1.diffCommon, V1.equals, Json.nodeList, Json.isVoid]
  have h2 : floatToInt? 0x3FF8000000000000 = none := by decide
  have hr : V1.renderM badCodec false (V1.liftDiff (V1.diffM [.prec 0] x15 .null)) = .ok none := by
    rw [hd]
    simp [V1.renderM, V1.renderHunk, V1.liftDiff, V1.Hunk.toP, V1.liftPath, V1.pathText,
      V1.pathRaw, jsonText, jsonTextList, V1.marshalNode, fmtNum, h2, badCodec, x15, optAll,
      Json.isVoid]
  refine ⟨hne, ?_⟩
  rcases exit_cases R (opts := [Opt.prec 0]) rfl (fmt := .jd) (by decide) with
    ⟨T, hT, hx, _⟩ | ⟨m, hm, _⟩
  · have hT' : textOrEmpty (V1.renderM badCodec false
        (V1.liftDiff (V1.diffM [.prec 0] x15 .null))) = T := by
      simp only [renderAs, Except.ok.injEq] at hT
      exact hT
    rw [hr] at hT'
    rw [hx, ← hT']
    simp [haveDiffOf, textOrEmpty]
  · simp [renderAs] at hm

end Witness

end Jd.CliExitV1
