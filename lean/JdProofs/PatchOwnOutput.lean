/-
  JdProofs.PatchOwnOutput (namespace `Jd.Own`) — property C10 (v2 library), LAST SENTENCE, closed:
  "Reading jd's own JSON Patch output and applying it to a reproduces b."

  What was missing. JdProofs.PatchNeverMorePermissive / PatchParseBack prove parse-back for every diff
  of the Bool grammar `PB.PBwf` (`NMP.readPatchOps_render`, `NMP.readPatchOps_render_patch`), with
  `PBwf (diffM o a b)`, `jdShaped`, `hunkListDoc` and `applyStrictAll a d = some b` as HYPOTHESES.
  Here `PBwf (diffM o a b)` is a THEOREM (list reading, strict strategy, the domain of
  JdProofs.PatchRenderClosed), including the inter-hunk condition `chainOK`, and the end-to-end
  statement is restated about the library functions `diffM`, `renderPatchOps`, `readPatchOps`
  (= `ReadPatchString`: element loop AND the context check of fix D28), `patchM`, with NO hypothesis
  about hunks.

  STAGE REACHED: C (full nesting: lists in lists, objects, scalars, void at the root; the one diff
  outside the grammar handled separately), plus ONE COUNTEREXAMPLE inside the former domain, proved
  as a witness and replayed on the Go code (below). No open goal.

  ═══ MAIN THEOREMS ═══ (`o` with `dispatchTag o = .list`, `isMerge o = false`)
   1. `diff_own` (induction over `diffNode / diffKvs / diffRest`, principle `DPL.listDiff_induct`) /
      `diffM_own`: every hunk of `a.Diff(b)` is `OwnH` — strict; removed values are list documents,
      well-formed, finite; all payloads list documents; and the hunk is EITHER a plain replacement
      (no context, at most one value on each side) at a path that does NOT end in a list index, OR a
      list hunk `pp ++ [idx s]` with one before- and one after-context line whose before-context is a
      real value only if `s ≥ 1` — AND the paths of the hunks of `a.Diff(b)` are PAIRWISE DIFFERENT
      (`Distinct`). The latter is the inter-hunk condition: inside one `diffRest` run the start index
      of the accumulated hunk never exceeds the cursor (`s ≤ k`), a hunk is closed only when the
      cursor moves on (`k + 1`), sub-diffs of same-kind containers live STRICTLY below `idx k`, members
      of an object have different keys (`RPath` is the bookkeeping). So two hunks never share a path
      and the disjunct "the later hunk starts with a real context test" of `PB.sepH` is not even
      needed (it is also true: the before-context of a later hunk of the same array is the element
      `y ≠ void` of `b` just passed).
   2. `diffM_in_grammar_of_paths`, `diffM_in_grammar` (`FloatEq0`):
        PBwf (diffM o a b) ∧ (diffM o a b).all jdShaped ∧ (diffM o a b).all hunkListDoc
      from `PRC.diffM_gen` (`Gen`: values not void, indices in `[0, Na+Nb+1)`, `s + |remove|` bounded),
      `OwnH`, expressible paths and `Distinct` (`pbwfH_of`, `chainOK_of` through `NMP.pathEq_eq`).
      Hypothesis `(a.isObj && b.isVoid) = false`: see 4.
   3. `own_patch_output_reproduces_target_of_paths` (sharp: the paths of the diff are expressible ⇔
      `RenderPatch` succeeds), `own_patch_output_reproduces_target` (all object keys of `a`, `b`
      expressible), `…_noPrecision`, `…_rawDoc` (documents as read from text):
        ∃ ops d' r, renderPatchOps (diffM o a b) = .ok ops ∧ readPatchOps ops = .ok d' ∧
          ((a.isObj && b.isVoid) = false → d' = normPB (diffM o a b)) ∧
          patchM a d' = .ok r ∧ specEq r b ∧ specEq b r ∧ r.listDoc ∧
          (PrecMono o → equivB o r b ∧ equals o r b)
      (`…_noPrecision`: `precOf o = 0` ⟹ `equals o r b`). `parse_back_of_grammar` is the general step
      (any diff of the grammar, the diff read is `normPB d`, the result is a list document).
   4. THE ONE DIFF OUTSIDE THE GRAMMAR, `{…}.Diff(void)` = `PRC.objVoidHunk` (`- {…}` / `+ void` at the
      root: the Go code adds the void marker): `objVoidHunk_not_in_grammar`. By evaluation and then by
      proof the reader still reads it back correctly: `RenderPatch` skips an addition whose first
      value is void, the operations are those of the hunk `- {…}` alone (`objGoneHunk`,
      `render_objGoneHunk`), which IS in the grammar (`objGone_in_grammar`), and `Patch` yields void.
      The closed theorems of 3 INCLUDE this pair (no hypothesis excludes it).

  ═══ COUNTEREXAMPLE FOUND (genuine; proved on the model, replayed on the Go code at head 4a34e3b) ═══
   `Witness.typed_list_element_witness`: `wA = [null, [true]]` whose INNER array is a typed `jsonList`
   node, `wB = [null, [false]]` as read from text. Every hypothesis of the C01 list theorem and of
   JdProofs.PatchRenderClosed holds (`Witness.hyps`: listDoc, wf, finite, vfree, lengths, HashOK, ZeroOK,
   expressible keys), the native diff applies to `wA` and gives `wB`, `RenderPatch` succeeds with
       test /1 [true]; remove /1 [true]; add /1 [false]
   `ReadPatchString` ACCEPTS these operations, reading `@ [1]  [  - [true]  + [false]  ]` (both context
   lines the boundary marker), and `wA.Patch` of that diff FAILS (`patchM wA [wRead] = .err`): the void
   before-context can only match at index 0. Mechanism: `sameContainerType` dispatches both nodes
   (jsonList / jsonArray → same kind), then `jsonList.diff` type-asserts the other side WITHOUT
   dispatching it (`n.(jsonList)` fails on a `jsonArray`) and replaces the element wholesale: a hunk at
   an ARRAY INDEX WITHOUT before-context (`wHunk`; it is in `PBwf` but not `jdShaped`). The reader
   (`setPatchDiffElementContext`) turns "test + remove at the same index, no context test" into
   Before = After = [void].
   Go replay: `a := ReadJsonString("[null,[true,true]]"); a.Patch(a.Diff([null,[true]]))` — `Patch`
   stores the patched child into the receiver's backing array (`l[i] = patchedNode` on
   `jsonList(a)`), so `a` now holds a `jsonList` element; `a.Diff([null,[false]])` renders exactly the
   three operations above, `ReadPatchString` reads `@ [1] / [ / - [true] / + [false] / ]`, and applying
   it to a fresh copy of `a` fails with "invalid patch. expected {} before. got …", while the native
   diff applies. Documents read from text never contain such a node (`elemsRaw_of_rawDoc`); the state
   is reachable only through that in-place mutation by `Patch`. (The model follows the Go
   `diffRest` here: it tells its own accumulated hunk from a sub-diff by the LENGTH of the path, so
   a wholesale-replacement sub-diff with nothing accumulated receives the after-context
   (`Jd.subAfter`). The witness sits at the LAST position, where that context is the void marker and
   is not rendered. `Witness.typed_list_element_witness_mid`: the same pair at a NON-LAST position
   `k ≥ 1` — the hunk carries the true next element as after-context, the rendered JSON Patch gets
   the after-context test `test /k+1`, the reader accepts it, and `Patch` of the hunk read back still
   fails (void before-context at index `k ≥ 1`). `Witness.first_position_reads_back_and_applies`: at
   index 0 the hunk read back applies, the void before-context matching the array start.)
   Consequently the closed theorems take the explicit, decidable hypothesis `elemsRaw a`; it is not
   silently added: the witness shows the statement is false without it.

  ═══ HYPOTHESES and why ═══
    `dispatchTag o = .list`, `isMerge o = false`  list reading, strict strategy (C10 is a list-mode property).
    `a.listDoc`, `a.wf`, `a.finiteNums`, `b.listDoc`, `b.wf`, `b.finiteNums`, `HashOK o a b`, `ZeroOK a b`,
    `FloatLaws`        the C01 list theorem `DPL.diffM_list_correct` (the native diff applies); in the
                       grammar part `a.finiteNums` is what lets the reader compare a `test` value with
                       the `remove` value that follows (`Equals` of a value with itself), `a.wf` /
                       `b.wf` (sorted unique keys) make the member hunks of one object different.
    `PRC.vfree a`, `PRC.vfree b`, `PRC.lenLe Na a`, `PRC.lenLe Nb b`, `Na + Nb < 2^53`
                       the domain of JdProofs.PatchRenderClosed (`Gen`: no void marker inside; indices
                       written travel through a float64).
    `elemsRaw a` (Bool, NEW)  no array node that is an ELEMENT of an array of `a` is a typed `jsonList`
                       (root and object members may be typed; nothing is asked of `b`). Necessary: see
                       the counterexample. Implied by `a.rawDoc` (`elemsRaw_of_rawDoc`).
    `∀ h ∈ diffM o a b, PRC.PE h.path` / `PRC.keysExpressible a`, `… b`  `RenderPatch` succeeds exactly
                       when the paths are expressible (`PRC.render_diffM_ok_iff`).
    `FloatEq0` (`|x − y| ≤ +0` only for `x = y`, JdProofs.Common)  the reader coalesces elements whose
                       paths compare `Equals` (indices are float64): needed to turn "different paths"
                       into "the reader does not coalesce" (`NMP.pathEq_eq`).

  NOT PROVED / OUTSIDE: set / multiset readings and the merge strategy (C10 is a list-mode property);
  the text layer around the operations (`renderPatchM` / `readPatchM`: JSON marshalling of the patch
  document; `NMP.readPatchDoc_of_ops` starts from the parsed document); documents with a typed
  `jsonList` element (counterexample above: there the statement is false).

  Reused: `DPL.listDiff_induct` and the unfolding equations of `diffNode / diffKvs / diffRest`,
  `DPL.Good*`, `DPL.diffM_list_correct`; `PRC.diffM_gen`, `PRC.diffM_paths_expressible`,
  `PRC.render_diffM_ok_iff`, `PRC.render_objVoidHunk`; `PB.PBwf`, `PB.applyStrictAll_normPB`,
  `NMP.readPatchOps_render`, `NMP.pathEq_eq`; `patchM_strict_eq_ref` (StrictPatch),
  `E2E.patchAll_listDoc` (NativeEndToEnd).
  Non-vacuity: section 10 (`Example`: the five-hunk pair of JdProofs.PatchRenderClosed through every
  main theorem; an object against void through the closed theorem).
-/
import JdProofs.PatchNeverMorePermissive
import JdProofs.PatchRenderClosed
import JdProofs.DiffPatchList
import JdProofs.NativeEndToEnd

namespace Jd.Own
open Jd Jd.Spec Jd.DPL Jd.PB

/-! ## 0. the extra decidable predicate: no typed `jsonList` node as an ELEMENT of an array -/

/-- the node is not a typed array node (`jsonList`, …): a plain `jsonArray`, or not an array -/
def topRaw : Json → Bool
  | .arr t _ => t == .raw
  | _ => true

mutual
/-- every array node that is an ELEMENT of an array is a plain `jsonArray` (the root and object
    members may be typed) -/
def elemsRaw : Json → Bool
  | .arr _ xs => elemsRawList xs
  | .obj kvs => elemsRawKvs kvs
  | _ => true
def elemsRawList : List Json → Bool
  | [] => true
  | x :: r => topRaw x && elemsRaw x && elemsRawList r
def elemsRawKvs : List (String × Json) → Bool
  | [] => true
  | (_, v) :: r => elemsRaw v && elemsRawKvs r
end

mutual
theorem topRaw_elemsRaw_of_rawDoc : ∀ (a : Json), a.rawDoc = true → topRaw a = true ∧ elemsRaw a = true
  | .arr t xs, h => by
    simp only [Json.rawDoc, Bool.and_eq_true] at h
    exact ⟨by simpa [topRaw] using h.1, by simpa [elemsRaw] using elemsRawList_of_rawDoc xs h.2⟩
  | .obj kvs, h => by
    simp only [Json.rawDoc] at h
    exact ⟨rfl, by simpa [elemsRaw] using elemsRawKvs_of_rawDoc kvs h⟩
  | .void, _ => ⟨rfl, by simp [elemsRaw]⟩
  | .null, _ => ⟨rfl, by simp [elemsRaw]⟩
  | .bool _, _ => ⟨rfl, by simp [elemsRaw]⟩
  | .num _, _ => ⟨rfl, by simp [elemsRaw]⟩
  | .str _, _ => ⟨rfl, by simp [elemsRaw]⟩
theorem elemsRawList_of_rawDoc : ∀ (xs : List Json), rawDocList xs = true → elemsRawList xs = true
  | [], _ => by simp [elemsRawList]
  | x :: r, h => by
    simp only [rawDocList, Bool.and_eq_true] at h
    have := topRaw_elemsRaw_of_rawDoc x h.1
    simp [elemsRawList, this.1, this.2, elemsRawList_of_rawDoc r h.2]
theorem elemsRawKvs_of_rawDoc : ∀ (kvs : List (String × Json)), rawDocKvs kvs = true → elemsRawKvs kvs = true
  | [], _ => by simp [elemsRawKvs]
  | (_, v) :: r, h => by
    simp only [rawDocKvs, Bool.and_eq_true] at h
    simp [elemsRawKvs, (topRaw_elemsRaw_of_rawDoc v h.1).2, elemsRawKvs_of_rawDoc r h.2]
end

/-- documents as read from text satisfy the predicate -/
theorem elemsRaw_of_rawDoc {a : Json} (h : a.rawDoc = true) : elemsRaw a = true :=
  (topRaw_elemsRaw_of_rawDoc a h).2

theorem elemsRawKvs_lookup {k : String} {v : Json} :
    ∀ {kvs : List (String × Json)}, alookup k kvs = some v → elemsRawKvs kvs = true → elemsRaw v = true
  | [], h, _ => by simp [alookup] at h
  | (k', v') :: r, h, hr => by
    simp only [elemsRawKvs, Bool.and_eq_true] at hr
    simp only [alookup] at h
    split at h
    · injection h with h; subst h; exact hr.1
    · exact elemsRawKvs_lookup h hr.2

/-! ## 1. `sameContainerType` on the branches of the list-mode recursion -/

theorem sct_scalar (o : Opts) {a : Json} (b : Json) (h1 : ∀ t xs, a ≠ .arr t xs)
    (h2 : ∀ kvs, a ≠ .obj kvs) : sameContainerType o a b = false := by
  cases a with
  | arr t xs => exact absurd rfl (h1 t xs)
  | obj kvs => exact absurd rfl (h2 kvs)
  | _ => simp [sameContainerType, Json.dispatch]

theorem sct_obj_other (o : Opts) (kvs : List (String × Json)) {b : Json} (hb : ∀ kvs', b ≠ .obj kvs') :
    sameContainerType o (.obj kvs) b = false := by
  cases b with
  | obj kvs' => exact absurd rfl (hb kvs')
  | arr t ys => cases t <;> simp [sameContainerType, Json.dispatch]
  | _ => simp [sameContainerType, Json.dispatch]

theorem sct_arr_other (o : Opts) (t : Tag) (xs : List Json) {b : Json} (hb : ∀ t' ys, b ≠ .arr t' ys) :
    sameContainerType o (.arr t xs) b = false := by
  cases b with
  | arr t' ys => exact absurd rfl (hb t' ys)
  | _ => cases t <;> simp [sameContainerType, Json.dispatch]

/-! ## 2. what the parse-back grammar needs to know of a generated hunk, beyond `PRC.Gen` -/

/-- the facts about one hunk of a list-mode diff that `PRC.Gen` does not record: strict; removed
    values are list documents, well-formed, finite (the reader compares each with itself); all
    payloads are list documents; the hunk is a plain replacement at a path that does NOT end in an
    index (no context, at most one value on each side) or a list hunk with one line of context on
    each side whose before-context is a real value only at an index `≥ 1` -/
structure OwnH (h : Hunk) : Prop where
  strict : h.merge = false
  remGood : ∀ v ∈ h.remove, v.listDoc = true ∧ v.wf = true ∧ v.finiteNums = true
  ld : hunkListDoc h = true
  shape : (h.before = [] ∧ h.after = [] ∧ h.remove.length ≤ 1 ∧ h.add.length ≤ 1 ∧
            lastIdx? h.path = none) ∨
          (∃ (pp : Path) (s : Nat) (prev after : Json), h.path = pp ++ [.idx (s : Int)] ∧
            h.before = [prev] ∧ h.after = [after] ∧ (prev.isVoid = false → 1 ≤ s))

/-- the paths of the hunks are pairwise different -/
def Distinct (d : Diff) : Prop := d.Pairwise (fun h1 h2 => h1.path ≠ h2.path)

theorem Distinct.nil : Distinct [] := List.Pairwise.nil

theorem distinct_single (h : Hunk) : Distinct [h] := List.pairwise_singleton _ _

theorem distinct_append {d1 d2 : Diff} (h1 : Distinct d1) (h2 : Distinct d2)
    (hc : ∀ a ∈ d1, ∀ b ∈ d2, a.path ≠ b.path) : Distinct (d1 ++ d2) :=
  List.pairwise_append.2 ⟨h1, h2, hc⟩

theorem lastIdx_snoc_key (p : Path) (k : String) : lastIdx? (p ++ [.key k]) = none := by
  simp [lastIdx?]

theorem listDocList_nodeList {b : Json} (h : b.listDoc = true) : listDocList b.nodeList = true := by
  unfold Json.nodeList
  split <;> simp [listDocList, h]

theorem good_of_mem_nodeList {a : Json} (g : Good a) :
    ∀ v ∈ a.nodeList, v.listDoc = true ∧ v.wf = true ∧ v.finiteNums = true := by
  intro v hv
  unfold Json.nodeList at hv
  split at hv
  · cases hv
  · simp only [List.mem_singleton] at hv; subst hv; exact ⟨g.listDoc, g.wf, g.fin⟩

/-- a plain replacement hunk -/
theorem own_plain {p : Path} (hp : lastIdx? p = none) {rem add : List Json}
    (hr : ∀ v ∈ rem, v.listDoc = true ∧ v.wf = true ∧ v.finiteNums = true)
    (hla : listDocList add = true) (h1 : rem.length ≤ 1) (h2 : add.length ≤ 1) :
    OwnH { path := p, remove := rem, add := add } where
  strict := rfl
  remGood := hr
  ld := by
    have : listDocList rem = true := listDocList_iff.2 (fun v hv => (hr v hv).1)
    simp [hunkListDoc, listDocList, this, hla]
  shape := .inl ⟨rfl, rfl, h1, h2, hp⟩

theorem goodL_remGood {R : List Json} (g : GoodL R) :
    ∀ v ∈ R, v.listDoc = true ∧ v.wf = true ∧ v.finiteNums = true := fun _ hv =>
  have := g.of_mem hv
  ⟨this.listDoc, this.wf, this.fin⟩

/-- the accumulated list hunk -/
theorem own_accHunk {p : Path} {s : Nat} {prev after : Json} {R A : List Json}
    (gR : GoodL R) (hA : listDocList A = true) (hprev : prev.listDoc = true)
    (hafter : after.listDoc = true) (hs : prev.isVoid = false → 1 ≤ s) :
    ∀ h ∈ accHunk p s prev R A after, OwnH h ∧ h.path = p ++ [.idx (s : Int)] := by
  intro h hm
  unfold accHunk at hm
  split at hm
  · cases hm
  · simp only [List.mem_singleton] at hm
    subst hm
    refine ⟨⟨rfl, goodL_remGood gR, ?_, .inr ⟨p, s, prev, after, rfl, rfl, rfl, hs⟩⟩, rfl⟩
    simp [hunkListDoc, listDocList, gR.listDoc, hA, hprev, hafter]

theorem distinct_accHunk (p : Path) (s : Nat) (prev after : Json) (R A : List Json) :
    Distinct (accHunk p s prev R A after) := by
  unfold accHunk
  split
  · exact Distinct.nil
  · exact distinct_single _

/-- paths below different first elements are different -/
theorem path_ne_of_head_ne {p q q' : Path} {e e' : PathElem} (h : e ≠ e') :
    p ++ e :: q ≠ p ++ e' :: q' := by
  intro he
  have := List.append_cancel_left he
  injection this with h1 _
  exact h h1

theorem key_ne {k k' : String} (h : k ≠ k') : PathElem.key k ≠ PathElem.key k' := by
  intro e; injection e with e; exact h e

theorem idx_ne {i j : Nat} (h : i ≠ j) : PathElem.idx (i : Int) ≠ PathElem.idx (j : Int) := by
  intro e; injection e with e; exact h (by omega)

theorem listDocKvs_mem {k : String} {v : Json} :
    ∀ {kvs : List (String × Json)}, listDocKvs kvs = true → (k, v) ∈ kvs → v.listDoc = true
  | [], _, h => by cases h
  | (k', v') :: r, hl, h => by
    simp only [listDocKvs, Bool.and_eq_true] at hl
    rcases List.mem_cons.1 h with e | h
    · cases e; exact hl.1
    · exact listDocKvs_mem hl.2 h

/-! ## 3. the induction over `diffNode` / `diffKvs` / `diffRest` -/

/-- where the hunks of one `diffRest` call are: the accumulated hunk at the start index `s`, or at /
    below an index `j ≥ k` (the cursor), strictly below when `j = k` -/
def RPath (p : Path) (k s : Nat) (h : Hunk) : Prop :=
  h.path = p ++ [.idx (s : Int)] ∨
  ∃ (j : Nat) (q : Path), h.path = p ++ .idx (j : Int) :: q ∧ k ≤ j ∧ (j = k → q ≠ [])

theorem rpath_succ {p : Path} {k s : Nat} {h : Hunk} (r : RPath p (k + 1) s h) : RPath p k s h := by
  rcases r with e | ⟨j, q, e, hj, _⟩
  · exact .inl e
  · exact .inr ⟨j, q, e, by omega, fun h => by omega⟩

theorem rpath_fresh {p : Path} {k : Nat} {h : Hunk} (r : RPath p (k + 1) (k + 1) h) :
    ∃ (j : Nat) (q : Path), h.path = p ++ .idx (j : Int) :: q ∧ k + 1 ≤ j := by
  rcases r with e | ⟨j, q, e, hj, _⟩
  · exact ⟨k + 1, [], e, Nat.le_refl _⟩
  · exact ⟨j, q, e, hj⟩

theorem goodL_single {x : Json} (g : Good x) : GoodL [x] := goodL_cons.2 ⟨g, GoodL.nil⟩

theorem listDocList_snoc {A : List Json} {y : Json} (hA : listDocList A = true) (hy : y.listDoc = true) :
    listDocList (A ++ [y]) = true :=
  listDocList_append.2 ⟨hA, by simp [listDocList, hy]⟩

/-- **the invariant**: per hunk `OwnH`, pairwise different paths, and where the paths are -/
theorem diff_own (o : Opts) (ho : dispatchTag o = .list) :
    (∀ a b, a.listDoc = true → b.listDoc = true → Good a → elemsRaw a = true → b.wf = true → ∀ p,
      (lastIdx? p = none ∨ (sameContainerType o a b = true ∧ topRaw a = true)) →
      (∀ h ∈ diffNode o false a b p, OwnH h) ∧ Distinct (diffNode o false a b p) ∧
      (∀ h ∈ diffNode o false a b p, ∃ q, h.path = p ++ q ∧
        (sameContainerType o a b = true → topRaw a = true → q ≠ []))) ∧
    (∀ kvs' kvs, listDocKvs kvs' = true → listDocKvs kvs = true → GoodK kvs → keysSorted kvs = true →
      elemsRawKvs kvs = true → wfKvs kvs' = true → ∀ p,
      (∀ h ∈ diffKvs o false p kvs' kvs, OwnH h) ∧ Distinct (diffKvs o false p kvs' kvs) ∧
      (∀ h ∈ diffKvs o false p kvs' kvs, ∃ (k : String) (q : Path), h.path = p ++ PathElem.key k :: q ∧ k ∈ kvs.map Prod.fst)) ∧
    (∀ k s prev a b c R A, listDocList a = true → listDocList b = true → GoodL a → GoodL R →
      elemsRawList a = true → wfList b = true → listDocList A = true → prev.listDoc = true →
      (prev.isVoid = false → 1 ≤ s) → s ≤ k → ∀ p,
      (∀ h ∈ diffRest o p k s prev a b c R A, OwnH h) ∧ Distinct (diffRest o p k s prev a b c R A) ∧
      (∀ h ∈ diffRest o p k s prev a b c R A, RPath p k s h)) := by
  apply listDiff_induct o ho
    (mN := fun a b => Good a → elemsRaw a = true → b.wf = true → ∀ p,
      (lastIdx? p = none ∨ (sameContainerType o a b = true ∧ topRaw a = true)) →
      (∀ h ∈ diffNode o false a b p, OwnH h) ∧ Distinct (diffNode o false a b p) ∧
      (∀ h ∈ diffNode o false a b p, ∃ q, h.path = p ++ q ∧
        (sameContainerType o a b = true → topRaw a = true → q ≠ [])))
    (mK := fun kvs' kvs => GoodK kvs → keysSorted kvs = true →
      elemsRawKvs kvs = true → wfKvs kvs' = true → ∀ p,
      (∀ h ∈ diffKvs o false p kvs' kvs, OwnH h) ∧ Distinct (diffKvs o false p kvs' kvs) ∧
      (∀ h ∈ diffKvs o false p kvs' kvs, ∃ (k : String) (q : Path), h.path = p ++ PathElem.key k :: q ∧ k ∈ kvs.map Prod.fst))
    (mR := fun k s prev a b c R A => GoodL a → GoodL R →
      elemsRawList a = true → wfList b = true → listDocList A = true → prev.listDoc = true →
      (prev.isVoid = false → 1 ≤ s) → s ≤ k → ∀ p,
      (∀ h ∈ diffRest o p k s prev a b c R A, OwnH h) ∧ Distinct (diffRest o p k s prev a b c R A) ∧
      (∀ h ∈ diffRest o p k s prev a b c R A, RPath p k s h))
  · -- list against list
    intro t t' xs ys ht ht' htt _ _ ih ga er wb p _
    rw [diffNode_arr_arr ho xs ys ht ht' htt]
    obtain ⟨i1, i2, i3⟩ := ih (good_arr.1 ga).2 GoodL.nil (by simpa [elemsRaw] using er)
      (by simpa [Json.wf] using wb) rfl rfl (fun h => by simp [Json.isVoid] at h) (Nat.le_refl 0) p
    refine ⟨i1, i2, fun h hm => ?_⟩
    rcases i3 h hm with e | ⟨j, q, e, _, _⟩
    · exact ⟨_, e, fun _ _ => by simp⟩
    · exact ⟨_, e, fun _ _ => by simp⟩
  · -- list against something else
    intro t xs b ht _ hlb hb ga _ _ p hp
    rw [diffNode_arr_other ho xs b ht hb]
    have hno : ¬ (sameContainerType o (.arr t xs) b = true ∧ topRaw (.arr t xs) = true) := by
      rintro ⟨hs, htr⟩
      rcases hb with hb | ⟨rfl, _⟩
      · rw [sct_arr_other o t xs hb] at hs; cases hs
      · simp [topRaw] at htr
    have hp' : lastIdx? p = none := hp.resolve_right hno
    have gl : Good (.arr .list xs) := good_arr.2 ⟨rfl, (good_arr.1 ga).2⟩
    refine ⟨fun h hm => ?_, distinct_single _, fun h hm => ?_⟩
    · simp only [List.mem_singleton] at hm
      subst hm
      exact own_plain hp' (fun v hv => by
        simp only [List.mem_singleton] at hv; subst hv; exact ⟨gl.listDoc, gl.wf, gl.fin⟩)
        (listDocList_nodeList hlb) (by simp) (PRC.nodeList_length_le b)
    · simp only [List.mem_singleton] at hm
      subst hm
      exact ⟨[], by simp, fun h1 h2 => absurd ⟨h1, h2⟩ hno⟩
  · -- object against object
    intro kvs kvs' _ hl' ih ga er wb p _
    rw [diffNode_obj_obj]
    have ga' := good_obj.1 ga
    simp only [Json.wf, Bool.and_eq_true] at wb
    obtain ⟨i1, i2, i3⟩ := ih ga'.2 ga'.1 (by simpa [elemsRaw] using er) wb.2 p
    have own2 : ∀ h ∈ (kvs'.filter (fun kv => (alookup kv.1 kvs).isNone)).map (fun kv =>
        ({ merge := false, path := p ++ [.key kv.1], add := kv.2.nodeList } : Hunk)),
        OwnH h ∧ ∃ k, h.path = p ++ [.key k] ∧ k ∉ kvs.map Prod.fst := by
      intro h hm
      obtain ⟨kv, hkv, rfl⟩ := List.mem_map.1 hm
      obtain ⟨hkv1, hkv2⟩ := List.mem_filter.1 hkv
      refine ⟨own_plain (lastIdx_snoc_key p kv.1) (rem := []) (fun _ hv => by cases hv)
        (listDocList_nodeList (listDocKvs_mem (k := kv.1) hl' hkv1)) (by simp)
        (PRC.nodeList_length_le kv.2), kv.1, rfl, ?_⟩
      intro hk
      have := mem_keys_iff_lookup.1 hk
      simp only [Option.isNone_iff_eq_none] at hkv2
      rw [hkv2] at this
      cases this
    have dist2 : Distinct ((kvs'.filter (fun kv => (alookup kv.1 kvs).isNone)).map (fun kv =>
        ({ merge := false, path := p ++ [.key kv.1], add := kv.2.nodeList } : Hunk))) := by
      have nd : (kvs'.map Prod.fst).Nodup := keysSorted_nodup wb.1
      have pw : kvs'.Pairwise (fun a b => a.1 ≠ b.1) := List.pairwise_map.1 nd
      have pw' := pw.sublist (List.filter_sublist (p := fun kv => (alookup kv.1 kvs).isNone))
      refine List.pairwise_map.2 (pw'.imp ?_)
      intro a b hab
      exact path_ne_of_head_ne (q := []) (q' := []) (key_ne hab)
    refine ⟨fun h hm => ?_, distinct_append i2 dist2 ?_, fun h hm => ?_⟩
    · rcases List.mem_append.1 hm with hm | hm
      · exact i1 h hm
      · exact (own2 h hm).1
    · intro h1 hm1 h2 hm2
      obtain ⟨k, q, e, hk⟩ := i3 h1 hm1
      obtain ⟨_, k', e', hk'⟩ := own2 h2 hm2
      rw [e, e']
      exact path_ne_of_head_ne (q' := []) (key_ne (fun ekk => hk' (ekk ▸ hk)))
    · rcases List.mem_append.1 hm with hm | hm
      · obtain ⟨k, q, e, _⟩ := i3 h hm
        exact ⟨_, e, fun _ _ => by simp⟩
      · obtain ⟨_, k', e', _⟩ := own2 h hm
        exact ⟨_, e', fun _ _ => by simp⟩
  · -- object against something else
    intro kvs b _ hlb hb ga _ _ p hp
    rw [diffNode_obj_other o kvs b hb]
    have hs : sameContainerType o (.obj kvs) b = false := sct_obj_other o kvs hb
    have hp' : lastIdx? p = none := hp.resolve_right (fun h => by rw [hs] at h; cases h.1)
    refine ⟨fun h hm => ?_, distinct_single _, fun h hm => ?_⟩
    · simp only [List.mem_singleton] at hm
      subst hm
      exact own_plain hp' (fun v hv => by
        simp only [List.mem_singleton] at hv; subst hv; exact ⟨ga.listDoc, ga.wf, ga.fin⟩)
        (by simp [listDocList, hlb]) (by simp) (by simp)
    · simp only [List.mem_singleton] at hm
      subst hm
      exact ⟨[], by simp, fun h1 _ => by rw [hs] at h1; cases h1⟩
  · -- scalar
    intro a b h1 h2 hlb ga _ _ p hp
    rw [diffNode_scalar o a b h1 h2]
    have hs : sameContainerType o a b = false := sct_scalar o b h1 h2
    have hp' : lastIdx? p = none := hp.resolve_right (fun h => by rw [hs] at h; cases h.1)
    unfold diffCommon
    split
    · exact ⟨fun _ hm => (by cases hm), Distinct.nil, fun _ hm => (by cases hm)⟩
    · simp only [Bool.false_eq_true, if_false]
      refine ⟨fun h hm => ?_, distinct_single _, fun h hm => ?_⟩
      · simp only [List.mem_singleton] at hm
        subst hm
        exact own_plain hp' (good_of_mem_nodeList ga) (listDocList_nodeList hlb)
          (PRC.nodeList_length_le a) (PRC.nodeList_length_le b)
      · simp only [List.mem_singleton] at hm
        subst hm
        exact ⟨[], by simp, fun h1 _ => by rw [hs] at h1; cases h1⟩
  · intro kvs' _ _ _ _ p
    rw [diffKvs_nil]
    exact ⟨fun _ hm => (by cases hm), Distinct.nil, fun _ hm => (by cases hm)⟩
  · -- one member of the first object
    intro kvs' k v r hl' _ _ ihN ihK ga ks er wb p
    rw [diffKvs_cons]
    obtain ⟨⟨gv, _⟩, gr⟩ := goodK_cons.1 ga
    have ks' := keysSorted_cons_iff.1 ks
    simp only [elemsRawKvs, Bool.and_eq_true] at er
    obtain ⟨j1, j2, j3⟩ := ihK gr ks'.2 er.2 wb p
    have first : ∀ F : Diff, F = (match alookup k kvs' with
          | some v' => diffNode o false v v' (p ++ [PathElem.key k])
          | none => [{ path := p ++ [PathElem.key k], remove := v.nodeList }]) →
        (∀ h ∈ F, OwnH h) ∧ Distinct F ∧ (∀ h ∈ F, ∃ q, h.path = p ++ PathElem.key k :: q) := by
      intro F hF
      subst hF
      cases hlk : alookup k kvs' with
      | none =>
        refine ⟨fun h hm => ?_, distinct_single _, fun h hm => ?_⟩
        · simp only [List.mem_singleton] at hm
          subst hm
          exact own_plain (lastIdx_snoc_key p k) (add := []) (good_of_mem_nodeList gv) rfl
            (PRC.nodeList_length_le v) (by simp)
        · simp only [List.mem_singleton] at hm
          subst hm
          exact ⟨[], rfl⟩
      | some v' =>
        obtain ⟨i1, i2, i3⟩ := ihN v' (alookup_listDoc hlk hl') gv er.1 (alookup_wf hlk wb)
          (p ++ [.key k]) (.inl (lastIdx_snoc_key p k))
        refine ⟨i1, i2, fun h hm => ?_⟩
        obtain ⟨q, e, _⟩ := i3 h hm
        exact ⟨q, by rw [e]; simp⟩
    obtain ⟨f1, f2, f3⟩ := first _ rfl
    refine ⟨fun h hm => ?_, distinct_append f2 j2 ?_, fun h hm => ?_⟩
    · rcases List.mem_append.1 hm with hm | hm
      · exact f1 h hm
      · exact j1 h hm
    · intro h1 hm1 h2 hm2
      obtain ⟨q, e⟩ := f3 h1 hm1
      obtain ⟨k', q', e', hk'⟩ := j3 h2 hm2
      rw [e, e']
      refine path_ne_of_head_ne (key_ne ?_)
      obtain ⟨kv, hkv, rfl⟩ := List.mem_map.1 hk'
      have hlt := ks'.1 kv.1 kv.2 hkv
      exact fun ekk => String.lt_irrefl k (by rw [← ekk] at hlt; exact hlt)
    · rcases List.mem_append.1 hm with hm | hm
      · obtain ⟨q, e⟩ := f3 h hm
        exact ⟨k, q, e, by simp⟩
      · obtain ⟨k', q', e', hk'⟩ := j3 h hm
        exact ⟨k', q', e', by simp [hk']⟩
  · -- first list exhausted
    intro k s prev c R A b hlb _ gR _ _ hA hprev hs _ p
    rw [diffRest_nilA]
    have acc := own_accHunk (p := p) (after := .void) gR (listDocList_append.2 ⟨hA, hlb⟩) hprev rfl hs
    exact ⟨fun h hm => (acc h hm).1, distinct_accHunk _ _ _ _ _ _, fun h hm => .inl (acc h hm).2⟩
  · -- second list exhausted
    intro k s prev c R A a hne _ ga gR _ _ hA hprev hs _ p
    rw [diffRest_nilB _ _ _ _ _ _ _ _ _ hne]
    have acc := own_accHunk (p := p) (after := .void) (gR.append ga) hA hprev rfl hs
    exact ⟨fun h hm => (acc h hm).1, distinct_accHunk _ _ _ _ _ _, fun h hm => .inl (acc h hm).2⟩
  · -- common element
    intro k s prev c R A x a' y b' _ hlb hA hB ih ga gR er wb hlA hprev hs hsk p
    rw [diffRest_cons]
    simp only [hA, hB, Bool.and_self, if_true]
    obtain ⟨gx, ga'⟩ := goodL_cons.1 ga
    simp only [elemsRawList, Bool.and_eq_true] at er
    simp only [wfList, Bool.and_eq_true] at wb
    simp only [listDocList, Bool.and_eq_true] at hlb
    obtain ⟨i1, i2, i3⟩ := ih ga' GoodL.nil er.2 wb.2 rfl hlb.1 (fun _ => by omega) (Nat.le_refl _) p
    have acc := own_accHunk (p := p) (after := x) gR hlA hprev gx.listDoc hs
    refine ⟨fun h hm => ?_, distinct_append (distinct_accHunk _ _ _ _ _ _) i2 ?_, fun h hm => ?_⟩
    · rcases List.mem_append.1 hm with hm | hm
      · exact (acc h hm).1
      · exact i1 h hm
    · intro h1 hm1 h2 hm2
      obtain ⟨j, q, e, hj⟩ := rpath_fresh (i3 h2 hm2)
      rw [(acc h1 hm1).2, e]
      exact path_ne_of_head_ne (q := []) (idx_ne (by omega))
    · rcases List.mem_append.1 hm with hm | hm
      · exact .inl (acc h hm).2
      · obtain ⟨j, q, e, hj⟩ := rpath_fresh (i3 h hm)
        exact .inr ⟨j, q, e, by omega, fun h => by omega⟩
  · -- an element of the second list is added
    intro k s prev c R A x a' y b' _ hlb hA hB ih ga gR er wb hlA hprev hs hsk p
    rw [diffRest_cons]
    simp only [hA, hB, Bool.and_false, Bool.false_eq_true, if_false, if_true]
    simp only [wfList, Bool.and_eq_true] at wb
    simp only [listDocList, Bool.and_eq_true] at hlb
    obtain ⟨i1, i2, i3⟩ := ih ga gR er wb.2 (listDocList_snoc hlA hlb.1) hprev hs (by omega) p
    exact ⟨i1, i2, fun h hm => rpath_succ (i3 h hm)⟩
  · -- an element of the first list is removed
    intro k s prev c R A x a' y b' _ _ hA hB ih ga gR er wb hlA hprev hs hsk p
    rw [diffRest_cons]
    simp only [hA, hB, Bool.false_and, Bool.false_eq_true, if_false, if_true]
    obtain ⟨gx, ga'⟩ := goodL_cons.1 ga
    simp only [elemsRawList, Bool.and_eq_true] at er
    exact ih ga' (gR.append (goodL_single gx)) er.2 wb hlA hprev hs hsk p
  · -- two containers of the same type: sub-diff below the index
    intro k s prev c R A x a' y b' _ hlb hA hB hsc ihN ihR ga gR er wb hlA hprev hs hsk p
    rw [diffRest_cons]
    simp only [hA, hB, hsc, Bool.false_and, Bool.false_eq_true, if_false, if_true]
    obtain ⟨gx, ga'⟩ := goodL_cons.1 ga
    simp only [elemsRawList, Bool.and_eq_true] at er
    simp only [wfList, Bool.and_eq_true] at wb
    simp only [listDocList, Bool.and_eq_true] at hlb
    -- `x` is not a typed `jsonList` (`elemsRaw`): `subAfter` does not touch the sub-diff
    have hsa : subAfter p (R.isEmpty && A.isEmpty) (a'.headD .void)
        (diffNode o false x y (p ++ [.idx (k : Int)])) = diffNode o false x y (p ++ [.idx (k : Int)]) := by
      rcases subAfter_diffNode_cases o ho gx.listDoc hlb.1 hsc p (k : Int) (R.isEmpty && A.isEmpty)
        (a'.headD .void) with e | ⟨_, xs, ys, rfl, _⟩
      · exact e
      · have := er.1.1
        simp [topRaw] at this
    rw [hsa]
    obtain ⟨i1, i2, i3⟩ := ihR ga' GoodL.nil er.2 wb.2 rfl hlb.1 (fun _ => by omega) (Nat.le_refl _) p
    obtain ⟨n1, n2, n3⟩ := ihN gx er.1.2 wb.1 (p ++ [.idx (k : Int)]) (.inr ⟨hsc, er.1.1⟩)
    have hafter : (if (diffNode o false x y (p ++ [.idx (k : Int)])).isEmpty then a'.headD .void
        else x).listDoc = true := by
      split
      · cases a' with
        | nil => rfl
        | cons z _ => exact (goodL_cons.1 ga').1.listDoc
      · exact gx.listDoc
    have acc := own_accHunk (p := p) gR hlA hprev hafter hs
    have sub : ∀ h ∈ diffNode o false x y (p ++ [.idx (k : Int)]),
        ∃ q, h.path = p ++ .idx (k : Int) :: q ∧ q ≠ [] := by
      intro h hm
      obtain ⟨q, e, hq⟩ := n3 h hm
      exact ⟨q, by rw [e]; simp, hq hsc er.1.1⟩
    refine ⟨fun h hm => ?_, distinct_append (distinct_append (distinct_accHunk _ _ _ _ _ _) n2 ?_) i2 ?_,
      fun h hm => ?_⟩
    · rcases List.mem_append.1 hm with hm | hm
      · rcases List.mem_append.1 hm with hm | hm
        · exact (acc h hm).1
        · exact n1 h hm
      · exact i1 h hm
    · intro h1 hm1 h2 hm2
      obtain ⟨q, e, hq⟩ := sub h2 hm2
      rw [(acc h1 hm1).2, e]
      intro he
      have := List.append_cancel_left he
      injection this with _ h3
      exact hq h3.symm
    · intro h1 hm1 h2 hm2
      obtain ⟨j, q, e, hj⟩ := rpath_fresh (i3 h2 hm2)
      rw [e]
      rcases List.mem_append.1 hm1 with hm1 | hm1
      · rw [(acc h1 hm1).2]
        exact path_ne_of_head_ne (q := []) (idx_ne (by omega))
      · obtain ⟨q1, e1, _⟩ := sub h1 hm1
        rw [e1]
        exact path_ne_of_head_ne (idx_ne (by omega))
    · rcases List.mem_append.1 hm with hm | hm
      · rcases List.mem_append.1 hm with hm | hm
        · exact .inl (acc h hm).2
        · obtain ⟨q, e, hq⟩ := sub h hm
          exact .inr ⟨k, q, e, Nat.le_refl _, fun _ => hq⟩
      · obtain ⟨j, q, e, hj⟩ := rpath_fresh (i3 h hm)
        exact .inr ⟨j, q, e, by omega, fun h => by omega⟩
  · -- two unrelated elements: one removed, one added
    intro k s prev c R A x a' y b' _ hlb hA hB hsc ih ga gR er wb hlA hprev hs hsk p
    rw [diffRest_cons]
    simp only [hA, hB, hsc, Bool.false_and, Bool.false_eq_true, if_false]
    obtain ⟨gx, ga'⟩ := goodL_cons.1 ga
    simp only [elemsRawList, Bool.and_eq_true] at er
    simp only [wfList, Bool.and_eq_true] at wb
    simp only [listDocList, Bool.and_eq_true] at hlb
    obtain ⟨i1, i2, i3⟩ := ih ga' (gR.append (goodL_single gx)) er.2 wb.2 (listDocList_snoc hlA hlb.1)
      hprev hs (by omega) p
    exact ⟨i1, i2, fun h hm => rpath_succ (i3 h hm)⟩

/-! ## 4. from the invariants to the parse-back grammar `PB.PBwf` -/

theorem pathOK_of {M : Nat} {p : Path} (pe : PRC.PE p)
    (hi : ∀ i, PathElem.idx i ∈ p → 0 ≤ i ∧ i < (M : Int)) (hM : M ≤ 2 ^ 53) : pathOK p = true := by
  unfold pathOK
  rw [List.all_eq_true]
  intro e he
  have hx := pe e he
  cases e with
  | key k =>
    simp only [expressible] at hx
    simp [elemOK, hx.1, hx.2]
  | idx i =>
    have := hi i he
    simp only [elemOK, Bool.and_eq_true, decide_eq_true_eq]
    omega
  | _ => simp [expressible] at hx

/-- one generated hunk with an expressible path is a hunk of the grammar, is jd-shaped, and carries
    list documents only -/
theorem pbwfH_of {M : Nat} {h : Hunk} (g : PRC.Gen M h) (w : OwnH h) (pe : PRC.PE h.path)
    (hM : M ≤ 2 ^ 53) : PBwfH h = true ∧ jdShaped h = true ∧ pathOK h.path = true := by
  have hpo : pathOK h.path = true := pathOK_of pe g.pathIdx hM
  have hval : h.remove.all valOK = true := by
    rw [List.all_eq_true]
    intro v hv
    obtain ⟨a1, a2, a3⟩ := w.remGood v hv
    simp [valOK, g.remNoVoid v hv, a1, a2, a3]
  have hadd : h.add.all (fun v => !v.isVoid) = true := by
    rw [List.all_eq_true]
    intro v hv
    simp [g.addNoVoid v hv]
  rcases w.shape with ⟨b0, a0, r1, d1, hl⟩ | ⟨pp, s, prev, after, hpth, hb, ha, hs⟩
  · refine ⟨?_, by simp [jdShaped, hl], hpo⟩
    simp [PBwfH, w.strict, hpo, b0, a0, hval, hadd, g.nonEmpty, hl, realCtx, r1, d1]
  · have hl : lastIdx? h.path = some (s : Int) := by rw [hpth]; exact lastIdx_concat_idx pp _
    have hrange : (s : Int) + (h.remove.length : Int) < 2 ^ 53 := by
      rcases g.shape with ⟨b0, _⟩ | ⟨pp', s', _, _, hp', _, _, _, _, hs'⟩ | ⟨_, _, _, _, b0, _⟩
      · rw [hb] at b0; cases b0
      · rw [hp', lastIdx_concat_idx] at hl
        injection hl with hl
        omega
      · rw [hb] at b0; cases b0
    have hctx : (!realCtx [prev] || decide (1 ≤ (s : Int))) = true := by
      cases hv : prev.isVoid with
      | true => simp [realCtx, hv]
      | false =>
        have := hs hv
        simp only [Bool.or_eq_true, decide_eq_true_eq]
        right; omega
    refine ⟨?_, by simp [jdShaped, hl, hb, ha], hpo⟩
    simp only [PBwfH, Bool.and_eq_true, Bool.not_eq_true', decide_eq_true_eq, hl]
    rw [hb] at *
    exact ⟨⟨⟨⟨⟨⟨⟨w.strict, hpo⟩, by simp⟩, by simp [ha]⟩, hval⟩, hadd⟩, g.nonEmpty⟩, hctx, hrange⟩

/-- hunks with pairwise different supported paths are told apart by the reader's path comparison -/
theorem chainOK_of (F : FloatEq0) : ∀ {d : Diff}, (∀ h ∈ d, pathOK h.path = true) → Distinct d →
    chainOK d = true
  | [], _, _ => rfl
  | [_], _, _ => rfl
  | h1 :: h2 :: r, hp, hd => by
    have hd' := List.pairwise_cons.1 hd
    simp only [chainOK, Bool.and_eq_true]
    refine ⟨?_, chainOK_of F (fun h hm => hp h (List.mem_cons_of_mem _ hm)) hd'.2⟩
    simp only [sepH, Bool.or_eq_true, Bool.not_eq_true']
    left
    cases he : pathEq h1.path h2.path with
    | false => rfl
    | true =>
      exact absurd (NMP.pathEq_eq F (NMP.pathOK'_of_pathOK (hp h1 List.mem_cons_self))
        (NMP.pathOK'_of_pathOK (hp h2 (List.mem_cons_of_mem _ List.mem_cons_self))) he)
        (hd'.1 h2 List.mem_cons_self)

/-- a diff all of whose hunks are generated hunks with expressible, pairwise different paths lies
    in the grammar -/
theorem pbwf_of (F : FloatEq0) {M : Nat} {d : Diff} (hM : M ≤ 2 ^ 53)
    (hg : ∀ h ∈ d, PRC.Gen M h) (hw : ∀ h ∈ d, OwnH h) (hpe : ∀ h ∈ d, PRC.PE h.path)
    (hd : Distinct d) :
    PBwf d = true ∧ d.all jdShaped = true ∧ d.all hunkListDoc = true := by
  have key := fun h hm => pbwfH_of (hg h hm) (hw h hm) (hpe h hm) hM
  refine ⟨?_, List.all_eq_true.2 (fun h hm => (key h hm).2.1),
    List.all_eq_true.2 (fun h hm => (hw h hm).ld)⟩
  simp only [PBwf, Bool.and_eq_true]
  exact ⟨List.all_eq_true.2 (fun h hm => (key h hm).1), chainOK_of F (fun h hm => (key h hm).2.2) hd⟩

/-! ## 5. `a.Diff(b)` lies in the grammar -/

section Main
variable (o : Opts) (ho : dispatchTag o = .list) (hm : isMerge o = false) (a b : Json)
  (ha1 : a.listDoc = true) (ha2 : a.wf = true) (ha3 : a.finiteNums = true) (ha4 : PRC.vfree a = true)
  (ha5 : elemsRaw a = true)
  (hb1 : b.listDoc = true) (hb2 : b.wf = true) (hb4 : PRC.vfree b = true)
include ho hm ha1 ha2 ha3 ha4 ha5 hb1 hb2

/-- the new facts about the hunks of `a.Diff(b)`: `OwnH` for each, paths pairwise different -/
theorem diffM_own : (∀ h ∈ diffM o a b, OwnH h) ∧ Distinct (diffM o a b) := by
  unfold diffM
  rw [hm]
  obtain ⟨h1, h2, _⟩ := (diff_own o ho).1 a b ha1 hb1 ⟨ha1, ha2, ha3, PRC.memOK_of_vfree a ha4⟩ ha5 hb2 []
    (.inl rfl)
  exact ⟨h1, h2⟩

include hb4 in
/-- **`a.Diff(b)` is in the parse-back grammar** (sharp form: the paths of the diff are expressible,
    which is exactly when `RenderPatch` succeeds, `PRC.render_diffM_ok_iff`) -/
theorem diffM_in_grammar_of_paths (F : FloatEq0) {Na Nb : Nat} (la : PRC.lenLe Na a = true)
    (lb : PRC.lenLe Nb b = true) (hN : Na + Nb < 2 ^ 53) (hv : (a.isObj && b.isVoid) = false)
    (hp : ∀ h ∈ diffM o a b, PRC.PE h.path) :
    PBwf (diffM o a b) = true ∧ (diffM o a b).all jdShaped = true ∧
      (diffM o a b).all hunkListDoc = true := by
  obtain ⟨w, dd⟩ := diffM_own o ho hm a b ha1 ha2 ha3 ha4 ha5 hb1 hb2
  exact pbwf_of F (M := Na + Nb + 1) (by omega)
    (PRC.diffM_gen o ho hm a b ha1 ha2 ha4 hb1 hb2 hb4 la lb hv) w hp dd

include hb4 in
/-- **`a.Diff(b)` is in the parse-back grammar** when the object keys of `a` and `b` are expressible
    as JSON Pointer tokens -/
theorem diffM_in_grammar (F : FloatEq0) {Na Nb : Nat} (la : PRC.lenLe Na a = true)
    (lb : PRC.lenLe Nb b = true) (hN : Na + Nb < 2 ^ 53) (hv : (a.isObj && b.isVoid) = false)
    (ka : PRC.keysExpressible a = true) (kb : PRC.keysExpressible b = true) :
    PBwf (diffM o a b) = true ∧ (diffM o a b).all jdShaped = true ∧
      (diffM o a b).all hunkListDoc = true :=
  diffM_in_grammar_of_paths o ho hm a b ha1 ha2 ha3 ha4 ha5 hb1 hb2 hb4 F la lb hN hv
    (PRC.diffM_paths_expressible o ho hm a b ha1 hb1 ka kb)

end Main

/-! ## 6. parse-back of a diff of the grammar, with the diff read made explicit -/

/-- for a diff `d` of the grammar that turns `a` into `m`: `ReadPatchString` reads
    `RenderPatch(d)` to `normPB d`, and the library's `Patch` applies that to `a` with a result equal
    to `m` up to the Go type of array nodes; the result is a list document -/
theorem parse_back_of_grammar (L : FloatLaws) (F : FloatEq0) {d : Diff} (hwf : PBwf d = true)
    (hs : d.all jdShaped = true) (hld : d.all hunkListDoc = true) {ops : List PatchOp}
    (h : renderPatchOps d = .ok ops) {a m : Json} (ha : a.listDoc = true)
    (hab : applyStrictAll a d = some m) :
    readPatchOps ops = .ok (normPB d) ∧
      ∃ r, patchM a (normPB d) = .ok r ∧ untag r = untag m ∧ r.listDoc = true := by
  refine ⟨NMP.readPatchOps_render L F d hwf ops h, ?_⟩
  have hN := applyStrictAll_normPB d hs a m hab
  have hall : (normPB d).all (fun h => !h.merge && strictPath h.path && hunkListDoc h) = true := by
    simp only [PBwf, Bool.and_eq_true] at hwf
    rw [List.all_eq_true]
    intro h' hm
    obtain ⟨h0, hm0, rfl⟩ := List.mem_map.1 hm
    have hw := List.all_eq_true.1 hwf.1 h0 hm0
    have hl := List.all_eq_true.1 hld h0 hm0
    simp only [PBwfH, Bool.and_eq_true] at hw
    simp only [normH_merge, normH_path, Bool.not_false, Bool.true_and, Bool.and_eq_true]
    exact ⟨strictPath_of_pathOK hw.1.1.1.1.1.1.2, hunkListDoc_normH hl⟩
  have := patchM_strict_eq_ref a (normPB d) hall ha
  rw [hN] at this
  cases hP : patchM a (normPB d) with
  | ok r =>
    rw [hP] at this
    simp only [Outcome.mapO, optToOutcome, Outcome.ok.injEq] at this
    exact ⟨r, rfl, this, E2E.patchAll_listDoc true (normPB d) a hall ha r hP⟩
  | err => rw [hP] at this; simp [Outcome.mapO, optToOutcome] at this
  | panic => rw [hP] at this; simp [Outcome.mapO, optToOutcome] at this

/-! ## 7. the one diff outside the grammar: an object against "no document"

  `{…}.Diff(void)` is the single hunk `- {…}` / `+ void` at the root (`PRC.objVoidHunk`: the Go code
  builds `Add: []JsonNode{n}` without `nodeList`). It ADDS THE VOID MARKER, so it is not a hunk of
  the grammar (`objVoidHunk_not_in_grammar`). `RenderPatch` skips an addition whose first value is
  void: the operations are `test ""`, `remove ""` — the same as for the hunk `- {…}` alone, which IS in
  the grammar; so the reader reads them back, and `Patch` yields void. The end-to-end statement
  holds for this pair too. -/

/-- the hunk that renders to the same operations and lies in the grammar -/
def objGoneHunk (kvs : List (String × Json)) : Hunk := { path := [], remove := [Json.obj kvs] }

theorem objVoidHunk_not_in_grammar (kvs : List (String × Json)) :
    PBwf [PRC.objVoidHunk kvs] = false := by
  simp [PBwf, PBwfH, PRC.objVoidHunk, Json.isVoid]

theorem render_objGoneHunk (kvs : List (String × Json)) :
    renderPatchOps [objGoneHunk kvs] =
      .ok [{ op := "test", path := "", value := .obj kvs }, { op := "remove", path := "", value := .obj kvs }] := by
  have : renderPatchHunk (objGoneHunk kvs) =
      .ok [{ op := "test", path := "", value := .obj kvs }, { op := "remove", path := "", value := .obj kvs }] := by
    rw [renderPatchHunk_eq]
    simp [renderPatchHunk', objGoneHunk, writePointerPath_nil, ctxOps, remOpsOf, addOpsOf, Json.isVoid]
    rfl
  rw [renderPatchOps, this]
  rfl

theorem objGone_in_grammar {kvs : List (String × Json)} (g : Good (.obj kvs)) :
    PBwf [objGoneHunk kvs] = true ∧ [objGoneHunk kvs].all jdShaped = true ∧
      [objGoneHunk kvs].all hunkListDoc = true := by
  refine ⟨?_, by simp [jdShaped, objGoneHunk, lastIdx?], ?_⟩
  · simp [PBwf, PBwfH, chainOK, objGoneHunk, pathOK, valOK, Json.isVoid, g.listDoc, g.wf, g.fin,
      lastIdx?, realCtx]
  · have := g.listDoc
    simp [hunkListDoc, objGoneHunk, listDocList, this]

theorem apply_objGone (L : FloatLaws) {kvs : List (String × Json)} (g : Good (.obj kvs)) :
    applyStrictAll (.obj kvs) [objGoneHunk kvs] = some .void := by
  have hs : specEq (Json.obj kvs) (Json.obj kvs) = true := DPL.specEq_refl L g
  simp [applyStrictAll, applyStrict, objGoneHunk, single, Json.singleValue, hs]

/-! ## 8. the closed end-to-end theorem -/

/-- **C10, last sentence, closed (sharp form).** For `a`, `b` in the C01 list domain, array lengths
    bounded with `Na + Nb < 2^53`, no typed `jsonList` node among the array elements of `a`, and the
    paths of `a.Diff(b)` expressible as JSON Pointers (exactly when `RenderPatch` succeeds):
    `RenderPatch(a.Diff(b))` succeeds with operations `ops`; `ReadPatchString` (element loop AND
    context check) reads `ops` to a diff `d'` — the normal form `normPB (a.Diff(b))`, except for an
    object against void —; the library's `a.Patch(d')` succeeds with a list document `r` that is
    structurally equal to `b` (both ways) and `Equals` `b` under the options of the diff. There is no
    hypothesis about the hunks. -/
theorem own_patch_output_reproduces_target_of_paths (L : FloatLaws) (F : FloatEq0) (o : Opts)
    (ho : dispatchTag o = .list) (hm : isMerge o = false) (a b : Json)
    (ha1 : a.listDoc = true) (ha2 : a.wf = true) (ha3 : a.finiteNums = true) (ha4 : PRC.vfree a = true)
    (ha5 : elemsRaw a = true)
    (hb1 : b.listDoc = true) (hb2 : b.wf = true) (hb3 : b.finiteNums = true) (hb4 : PRC.vfree b = true)
    {Na Nb : Nat} (la : PRC.lenLe Na a = true) (lb : PRC.lenLe Nb b = true) (hN : Na + Nb < 2 ^ 53)
    (H : HashOK o a b) (Z : ZeroOK a b)
    (hp : ∀ h ∈ diffM o a b, PRC.PE h.path) :
    ∃ ops d' r, renderPatchOps (diffM o a b) = .ok ops ∧ readPatchOps ops = .ok d' ∧
      ((a.isObj && b.isVoid) = false → d' = normPB (diffM o a b)) ∧
      patchM a d' = .ok r ∧ specEq r b = true ∧ specEq b r = true ∧ r.listDoc = true ∧
      (PrecMono o → equivB o r b = true ∧ equals o r b = true) := by
  have ga : Good a := ⟨ha1, ha2, ha3, PRC.memOK_of_vfree a ha4⟩
  cases hv : (a.isObj && b.isVoid) with
  | false =>
    obtain ⟨ops, er⟩ := (PRC.render_diffM_ok_iff o ho hm a b ha1 ha2 ha4 hb1 hb2 hb4).2 hp
    obtain ⟨g1, g2, g3⟩ := diffM_in_grammar_of_paths o ho hm a b ha1 ha2 ha3 ha4 ha5 hb1 hb2 hb4 F
      la lb hN hv hp
    obtain ⟨m, hm1, hm2, hm3, _, hm5⟩ := DPL.diffM_list_correct L o ho hm a b ha1 ha2 ha3
      (PRC.memOK_of_vfree a ha4) hb1 hb2 hb3 (PRC.memOK_of_vfree b hb4) H Z
    obtain ⟨hread, r, hP, hu, hrl⟩ := parse_back_of_grammar L F g1 g2 g3 er ha1 hm1
    refine ⟨ops, _, r, er, hread, fun _ => rfl, hP, ?_, ?_, hrl, fun hpm => ?_⟩
    · rw [← specEq_untag_left, hu, specEq_untag_left]; exact hm2
    · rw [← specEq_untag_right, hu, specEq_untag_right]; exact hm3
    · have e : equivB o r b = true := by
        rw [← equivB_untag_left o ho, hu, equivB_untag_left o ho]; exact (hm5 hpm).1
      exact ⟨e, by rw [equals_eq_equivB_list o ho r b hrl hb1]; exact e⟩
  | true =>
    simp only [Bool.and_eq_true] at hv
    cases a with
    | obj kvs =>
      have hb : b = .void := PRC.isVoid_eq hv.2
      subst hb
      obtain ⟨g1, g2, g3⟩ := objGone_in_grammar ga
      obtain ⟨hread, r, hP, hu, hrl⟩ := parse_back_of_grammar L F g1 g2 g3 (render_objGoneHunk kvs) ha1
        (apply_objGone L ga)
      refine ⟨_, _, r, by rw [PRC.diffM_obj_void o hm, PRC.render_objVoidHunk], hread,
        fun h => by simp at h, hP, ?_, ?_, hrl, fun _ => ?_⟩
      · rw [← specEq_untag_left, hu, specEq_untag_left]; exact DPL.specEq_void_void
      · rw [← specEq_untag_right, hu, specEq_untag_right]; exact DPL.specEq_void_void
      · have e : equivB o r .void = true := by
          rw [← equivB_untag_left o ho, hu, equivB_untag_left o ho]; simp [equivB]
        exact ⟨e, by rw [equals_eq_equivB_list o ho r .void hrl rfl]; exact e⟩
    | _ => simp [Json.isObj] at hv

/-- **C10, last sentence, closed**: the same for documents all of whose object keys are expressible
    as JSON Pointer tokens (`PRC.keysExpressible`, decidable: not number-like, not "-") -/
theorem own_patch_output_reproduces_target (L : FloatLaws) (F : FloatEq0) (o : Opts)
    (ho : dispatchTag o = .list) (hm : isMerge o = false) (a b : Json)
    (ha1 : a.listDoc = true) (ha2 : a.wf = true) (ha3 : a.finiteNums = true) (ha4 : PRC.vfree a = true)
    (ha5 : elemsRaw a = true)
    (hb1 : b.listDoc = true) (hb2 : b.wf = true) (hb3 : b.finiteNums = true) (hb4 : PRC.vfree b = true)
    {Na Nb : Nat} (la : PRC.lenLe Na a = true) (lb : PRC.lenLe Nb b = true) (hN : Na + Nb < 2 ^ 53)
    (H : HashOK o a b) (Z : ZeroOK a b)
    (ka : PRC.keysExpressible a = true) (kb : PRC.keysExpressible b = true) :
    ∃ ops d' r, renderPatchOps (diffM o a b) = .ok ops ∧ readPatchOps ops = .ok d' ∧
      ((a.isObj && b.isVoid) = false → d' = normPB (diffM o a b)) ∧
      patchM a d' = .ok r ∧ specEq r b = true ∧ specEq b r = true ∧ r.listDoc = true ∧
      (PrecMono o → equivB o r b = true ∧ equals o r b = true) :=
  own_patch_output_reproduces_target_of_paths L F o ho hm a b ha1 ha2 ha3 ha4 ha5 hb1 hb2 hb3 hb4 la lb
    hN H Z (PRC.diffM_paths_expressible o ho hm a b ha1 hb1 ka kb)

/-- without a Precision option: the patched document `Equals` the target -/
theorem own_patch_output_reproduces_target_noPrecision (L : FloatLaws) (F : FloatEq0) (o : Opts)
    (ho : dispatchTag o = .list) (hm : isMerge o = false) (hprec : precOf o = 0) (a b : Json)
    (ha1 : a.listDoc = true) (ha2 : a.wf = true) (ha3 : a.finiteNums = true) (ha4 : PRC.vfree a = true)
    (ha5 : elemsRaw a = true)
    (hb1 : b.listDoc = true) (hb2 : b.wf = true) (hb3 : b.finiteNums = true) (hb4 : PRC.vfree b = true)
    {Na Nb : Nat} (la : PRC.lenLe Na a = true) (lb : PRC.lenLe Nb b = true) (hN : Na + Nb < 2 ^ 53)
    (H : HashOK o a b) (Z : ZeroOK a b)
    (ka : PRC.keysExpressible a = true) (kb : PRC.keysExpressible b = true) :
    ∃ ops d' r, renderPatchOps (diffM o a b) = .ok ops ∧ readPatchOps ops = .ok d' ∧
      patchM a d' = .ok r ∧ specEq r b = true ∧ equals o r b = true := by
  obtain ⟨ops, d', r, h1, h2, _, h3, h4, _, _, h5⟩ := own_patch_output_reproduces_target L F o ho hm a b
    ha1 ha2 ha3 ha4 ha5 hb1 hb2 hb3 hb4 la lb hN H Z ka kb
  exact ⟨ops, d', r, h1, h2, h3, h4, (h5 (PrecMono.of_noPrecision hprec)).2⟩

/-! ## 9. WITNESS: why `elemsRaw a` is a hypothesis (a typed `jsonList` element against a `jsonArray`) -/

namespace Witness

/-- `[null, [true]]`, the inner array being a typed `jsonList` node -/
def wA : Json := .arr .raw [.null, .arr .list [.bool true]]
/-- `[null, [false]]` as read from text -/
def wB : Json := .arr .raw [.null, .arr .raw [.bool false]]
/-- the hunk of `wA.Diff(wB)`: a wholesale replacement at index 1, WITHOUT before-context; its
    after-context (set by `subAfter`, as the Go `diffRest` does) is the array-end marker -/
def wHunk : Hunk :=
  { path := [.idx 1], remove := [.arr .list [.bool true]], add := [.arr .raw [.bool false]],
    after := [.void] }
/-- what `ReadPatchString` makes of its rendering: both context lines are the boundary marker -/
def wRead : Hunk :=
  { path := [.idx 1], before := [.void], remove := [.arr .list [.bool true]],
    add := [.arr .raw [.bool false]], after := [.void] }
def wOps : List PatchOp :=
  [tst "/1" (.arr .list [.bool true]), rmv "/1" (.arr .list [.bool true]),
   adp "/1" (.arr .raw [.bool false])]

theorem diff_w : diffM [] wA wB = [wHunk] := by
  have hl : lcsValues (hashList [] [Json.null, .arr .list [.bool true]])
      (hashList [] [Json.null, .arr .raw [.bool false]]) = [hashCode [] Json.null] := by
    decide +kernel
  unfold diffM wA wB
  rw [show isMerge [] = false from rfl, diffNode_arr_arr (o := []) rfl _ _ rfl rfl (.inl rfl), hl,
    diffRest_cons]
  have h1 : atC [] Json.null [hashCode [] Json.null] = true := by decide +kernel
  simp only [h1, Bool.and_self, if_true]
  rw [diffRest_cons]
  have h2 : atC [] (Json.arr .list [.bool true]) ([hashCode [] Json.null] : List UInt64).tail = false := rfl
  have h3 : atC [] (Json.arr .raw [.bool false]) ([hashCode [] Json.null] : List UInt64).tail = false := rfl
  have h4 : sameContainerType [] (Json.arr .list [.bool true]) (Json.arr .raw [.bool false]) = true := rfl
  simp only [h2, h3, h4, Bool.false_and, Bool.false_eq_true, if_false, if_true]
  rw [diffNode_arr_other (o := []) rfl _ _ rfl (.inr ⟨rfl, _, rfl⟩), diffRest_nil_nil]
  rfl

theorem render_w : renderPatchOps [wHunk] = .ok wOps := by
  have : renderPatchHunk wHunk = .ok wOps := by
    rw [renderPatchHunk_eq]
    simp [renderPatchHunk', wHunk, NMP.wpp_1, ctxOps, remOpsOf, addOpsOf, Json.isVoid]
    rfl
  rw [renderPatchOps, this]; rfl

theorem wHunk_in_grammar : PBwf [wHunk] = true := by decide +kernel

theorem wHunk_not_jdShaped : jdShaped wHunk = false := by decide

theorem read_w (L : FloatLaws) (F : FloatEq0) : readPatchOps wOps = .ok [wRead] := by
  have := NMP.readPatchOps_render L F [wHunk] wHunk_in_grammar wOps render_w
  rw [this]
  rfl

theorem patch_w : patchM wA [wRead] = .err := by
  have h := patchM_strict_eq_ref wA [wRead] (by decide) (by decide)
  have hn : applyStrictAll wA [wRead] = none := by
    simp [applyStrictAll, applyStrict, wA, wRead, splice, prefixEq, beforeOk, afterOk, specEq, equivB,
      equivList, dispatchTag, Json.isVoid]
  rw [hn] at h
  cases hP : patchM wA [wRead] with
  | ok r => rw [hP] at h; simp [Outcome.mapO, optToOutcome] at h
  | err => rfl
  | panic => rw [hP] at h; simp [Outcome.mapO, optToOutcome] at h

set_option maxRecDepth 8000 in
/-- every hypothesis of the closed theorem EXCEPT `elemsRaw wA` holds for this pair -/
theorem hyps :
    wA.listDoc = true ∧ wA.wf = true ∧ wA.finiteNums = true ∧ PRC.vfree wA = true ∧
    wB.listDoc = true ∧ wB.wf = true ∧ wB.finiteNums = true ∧ PRC.vfree wB = true ∧
    PRC.lenLe 2 wA = true ∧ PRC.lenLe 2 wB = true ∧ 2 + 2 < 2 ^ 53 ∧
    HashOK [] wA wB ∧ ZeroOK wA wB ∧
    PRC.keysExpressible wA = true ∧ PRC.keysExpressible wB = true ∧ elemsRaw wA = false := by
  refine ⟨by decide, by decide, by decide, by decide, by decide, by decide, by decide, by decide,
    by decide, by decide, by decide, ?_, ?_, by decide, by decide, by decide⟩
  · intro x hx y hy h
    simp [wA, wB, subterms, subtermsList] at hx hy
    rcases hx with rfl | rfl | rfl | rfl <;> rcases hy with rfl | rfl | rfl | rfl <;>
      first
        | exact absurd h (by decide +kernel)
        | simp [specEq, equivB]
  · intro u v hu hv _
    simp [wA, subterms, subtermsList] at hu

/-- **WITNESS (genuine, replayed on the Go code).** `wA = [null, [true]]` whose inner array is a typed
    `jsonList` node, `wB = [null, [false]]` as read from text: all hypotheses of the closed theorem
    hold except `elemsRaw wA`; the native diff applies to `wA` and gives `wB` (C01); `RenderPatch`
    succeeds; `ReadPatchString` ACCEPTS the operations; but the diff read back does NOT apply to `wA`:
    `Patch` returns an error. `sameContainerType` dispatches both nodes (true), `jsonList.diff` then
    type-asserts the other side (a `jsonArray`) and replaces the element wholesale, emitting a hunk at
    an array index with NO before-context (its after-context, set by `subAfter`, is the array-end
    marker here and is not rendered); the reader turns "no context test" into the boundary marker
    on both sides, and the void before-context can never match at index 1. -/
theorem typed_list_element_witness (L : FloatLaws) (F : FloatEq0) :
    (∃ r, applyStrictAll wA (diffM [] wA wB) = some r ∧ specEq r wB = true) ∧
    renderPatchOps (diffM [] wA wB) = .ok wOps ∧
    readPatchOps wOps = .ok [wRead] ∧
    patchM wA [wRead] = .err ∧
    PBwf (diffM [] wA wB) = true ∧ (diffM [] wA wB).all jdShaped = false := by
  obtain ⟨h1, h2, h3, h4, h5, h6, h7, h8, _, _, _, h12, h13, _, _, _⟩ := hyps
  obtain ⟨r, hr, e, _⟩ := diffM_list_correct L [] rfl rfl wA wB h1 h2 h3 (PRC.memOK_of_vfree _ h4) h5 h6 h7
    (PRC.memOK_of_vfree _ h8) h12 h13
  refine ⟨⟨r, hr, e⟩, by rw [diff_w, render_w], read_w L F, patch_w, by rw [diff_w]; exact wHunk_in_grammar,
    by rw [diff_w]; decide⟩


/-! ### the same pair at a NON-LAST position: the after-context set by `subAfter` is a real value -/

/-- `[null, [true], null]`, the inner array being a typed `jsonList` node -/
def mA : Json := .arr .raw [.null, .arr .list [.bool true], .null]
/-- `[null, [false], null]` as read from text -/
def mB : Json := .arr .raw [.null, .arr .raw [.bool false], .null]
/-- the hunk of `mA.Diff(mB)`: no before-context, the TRUE next element as after-context -/
def mHunk : Hunk :=
  { path := [.idx 1], remove := [.arr .list [.bool true]], add := [.arr .raw [.bool false]],
    after := [.null] }
/-- what `ReadPatchString` makes of its rendering -/
def mRead : Hunk :=
  { path := [.idx 1], before := [.void], remove := [.arr .list [.bool true]],
    add := [.arr .raw [.bool false]], after := [.null] }
def mOps : List PatchOp :=
  [tst "/2" .null, tst "/1" (.arr .list [.bool true]), rmv "/1" (.arr .list [.bool true]),
   adp "/1" (.arr .raw [.bool false])]

theorem diff_m : diffM [] mA mB = [mHunk] := by
  have hl : lcsValues (hashList [] [Json.null, .arr .list [.bool true], .null])
      (hashList [] [Json.null, .arr .raw [.bool false], .null]) =
      [hashCode [] Json.null, hashCode [] Json.null] := by
    decide +kernel
  unfold diffM mA mB
  rw [show isMerge [] = false from rfl, diffNode_arr_arr (o := []) rfl _ _ rfl rfl (.inl rfl), hl,
    diffRest_cons]
  have h1 : atC [] Json.null [hashCode [] Json.null, hashCode [] Json.null] = true := by decide +kernel
  simp only [h1, Bool.and_self, if_true]
  rw [diffRest_cons]
  have h2 : atC [] (Json.arr .list [.bool true])
      ([hashCode [] Json.null, hashCode [] Json.null] : List UInt64).tail = false := by decide +kernel
  have h3 : atC [] (Json.arr .raw [.bool false])
      ([hashCode [] Json.null, hashCode [] Json.null] : List UInt64).tail = false := by decide +kernel
  have h4 : sameContainerType [] (Json.arr .list [.bool true]) (Json.arr .raw [.bool false]) = true := rfl
  simp only [h2, h3, h4, Bool.false_and, Bool.false_eq_true, if_false, if_true]
  rw [diffNode_arr_other (o := []) rfl _ _ rfl (.inr ⟨rfl, _, rfl⟩), diffRest_cons]
  have h5 : atC [] Json.null ([hashCode [] Json.null, hashCode [] Json.null] : List UInt64).tail = true := by
    decide +kernel
  simp only [h5, Bool.and_self, if_true]
  rw [diffRest_nil_nil]
  rfl

theorem render_m : renderPatchOps [mHunk] = .ok mOps := by
  have : renderPatchHunk mHunk = .ok mOps := by
    rw [renderPatchHunk_eq]
    simp [renderPatchHunk', mHunk, NMP.wpp_1, ctxOps, remOpsOf, addOpsOf, Json.isVoid]
    rfl
  rw [renderPatchOps, this]; rfl

theorem mHunk_in_grammar : PBwf [mHunk] = true := by decide +kernel

theorem mHunk_not_jdShaped : jdShaped mHunk = false := by decide

theorem read_m (L : FloatLaws) (F : FloatEq0) : readPatchOps mOps = .ok [mRead] := by
  have := NMP.readPatchOps_render L F [mHunk] mHunk_in_grammar mOps render_m
  rw [this]
  rfl

theorem patch_m : patchM mA [mRead] = .err := by
  have h := patchM_strict_eq_ref mA [mRead] (by decide) (by decide)
  have hn : applyStrictAll mA [mRead] = none := by
    simp [applyStrictAll, applyStrict, mA, mRead, splice, prefixEq, beforeOk, afterOk, specEq, equivB,
      equivList, dispatchTag]
  rw [hn] at h
  cases hP : patchM mA [mRead] with
  | ok r => rw [hP] at h; simp [Outcome.mapO, optToOutcome] at h
  | err => rfl
  | panic => rw [hP] at h; simp [Outcome.mapO, optToOutcome] at h

/-- the native diff (with its after-context `null`, the true next element) applies -/
theorem native_m : applyStrictAll mA (diffM [] mA mB) =
    some (.arr .raw [.null, .arr .raw [.bool false], .null]) := by
  rw [diff_m]
  simp [applyStrictAll, applyStrict, mA, mHunk, splice, prefixEq, beforeOk, afterOk, specEq, equivB,
    equivList, dispatchTag]

/-- **WITNESS at a non-last position** (`mA = [null, [true], null]`, inner array a typed `jsonList`;
    `mB = [null, [false], null]`): the hunk now carries the after-context `null` (the true next
    element), the native diff applies, the rendered JSON Patch gets the after-context test
    `test /2 null`, the reader accepts it and reads a hunk whose before-context is the boundary
    marker, and `Patch` of that hunk still FAILS at index 1: `elemsRaw` remains necessary. -/
theorem typed_list_element_witness_mid (L : FloatLaws) (F : FloatEq0) :
    applyStrictAll mA (diffM [] mA mB) = some (.arr .raw [.null, .arr .raw [.bool false], .null]) ∧
    renderPatchOps (diffM [] mA mB) = .ok mOps ∧
    readPatchOps mOps = .ok [mRead] ∧
    patchM mA [mRead] = .err ∧
    PBwf (diffM [] mA mB) = true ∧ (diffM [] mA mB).all jdShaped = false ∧ elemsRaw mA = false :=
  ⟨native_m, by rw [diff_m, render_m], read_m L F, patch_m, by rw [diff_m]; exact mHunk_in_grammar,
    by rw [diff_m]; decide, by decide⟩

/-! ### … and at the FIRST position the read-back hunk applies (the void before-context matches the
    array start) -/

def fA : Json := .arr .raw [.arr .list [.bool true], .null]
def fB : Json := .arr .raw [.arr .raw [.bool false], .null]
def fHunk : Hunk :=
  { path := [.idx 0], remove := [.arr .list [.bool true]], add := [.arr .raw [.bool false]],
    after := [.null] }
def fRead : Hunk :=
  { path := [.idx 0], before := [.void], remove := [.arr .list [.bool true]],
    add := [.arr .raw [.bool false]], after := [.null] }

theorem diff_f : diffM [] fA fB = [fHunk] := by
  have hl : lcsValues (hashList [] [.arr .list [.bool true], Json.null])
      (hashList [] [.arr .raw [.bool false], Json.null]) = [hashCode [] Json.null] := by
    decide +kernel
  unfold diffM fA fB
  rw [show isMerge [] = false from rfl, diffNode_arr_arr (o := []) rfl _ _ rfl rfl (.inl rfl), hl,
    diffRest_cons]
  have h2 : atC [] (Json.arr .list [.bool true]) [hashCode [] Json.null] = false := by decide +kernel
  have h3 : atC [] (Json.arr .raw [.bool false]) [hashCode [] Json.null] = false := by decide +kernel
  have h4 : sameContainerType [] (Json.arr .list [.bool true]) (Json.arr .raw [.bool false]) = true := rfl
  simp only [h2, h3, h4, Bool.false_and, Bool.false_eq_true, if_false, if_true]
  rw [diffNode_arr_other (o := []) rfl _ _ rfl (.inr ⟨rfl, _, rfl⟩), diffRest_cons]
  have h5 : atC [] Json.null [hashCode [] Json.null] = true := by decide +kernel
  simp only [h5, Bool.and_self, if_true]
  rw [diffRest_nil_nil]
  rfl

def fOps : List PatchOp :=
  [tst "/1" .null, tst "/0" (.arr .list [.bool true]), rmv "/0" (.arr .list [.bool true]),
   adp "/0" (.arr .raw [.bool false])]

theorem render_f : renderPatchOps [fHunk] = .ok fOps := by
  have : renderPatchHunk fHunk = .ok fOps := by
    rw [renderPatchHunk_eq]
    simp [renderPatchHunk', fHunk, NMP.wpp_0, NMP.wpp_1, ctxOps, remOpsOf, addOpsOf, Json.isVoid,
      lastIdx?, setLastIdx, fOps, tst, rmv, adp]
    rfl
  rw [renderPatchOps, this]; rfl

theorem fHunk_in_grammar : PBwf [fHunk] = true := by decide +kernel

/-- at the FIRST position the diff read back from the rendered JSON Patch applies: the boundary
    marker the reader puts as before-context matches the array start -/
theorem first_position_reads_back_and_applies (L : FloatLaws) (F : FloatEq0) :
    renderPatchOps (diffM [] fA fB) = .ok fOps ∧ readPatchOps fOps = .ok [fRead] ∧
      applyStrictAll fA [fRead] = some (.arr .raw [.arr .raw [.bool false], .null]) := by
  refine ⟨by rw [diff_f, render_f], ?_, ?_⟩
  · have := NMP.readPatchOps_render L F [fHunk] fHunk_in_grammar fOps render_f
    rw [this]
    rfl
  · simp [applyStrictAll, applyStrict, fA, fRead, splice, prefixEq, beforeOk, afterOk, specEq, equivB,
      equivList, dispatchTag, Json.isVoid]


end Witness

/-! ## 10. documents as read from text, non-vacuity -/

/-- **C10, last sentence, for documents as read from text** (`rawDoc`: every array node a plain
    `jsonArray`, what `ReadJsonString` / `ReadYamlString` produce): `elemsRaw` and `listDoc` follow -/
theorem own_patch_output_reproduces_target_rawDoc (L : FloatLaws) (F : FloatEq0) (o : Opts)
    (ho : dispatchTag o = .list) (hm : isMerge o = false) (a b : Json)
    (ha1 : a.rawDoc = true) (ha2 : a.wf = true) (ha3 : a.finiteNums = true) (ha4 : PRC.vfree a = true)
    (hb1 : b.rawDoc = true) (hb2 : b.wf = true) (hb3 : b.finiteNums = true) (hb4 : PRC.vfree b = true)
    {Na Nb : Nat} (la : PRC.lenLe Na a = true) (lb : PRC.lenLe Nb b = true) (hN : Na + Nb < 2 ^ 53)
    (H : HashOK o a b) (Z : ZeroOK a b)
    (ka : PRC.keysExpressible a = true) (kb : PRC.keysExpressible b = true) :
    ∃ ops d' r, renderPatchOps (diffM o a b) = .ok ops ∧ readPatchOps ops = .ok d' ∧
      ((a.isObj && b.isVoid) = false → d' = normPB (diffM o a b)) ∧
      patchM a d' = .ok r ∧ specEq r b = true ∧ specEq b r = true ∧ r.listDoc = true ∧
      (PrecMono o → equivB o r b = true ∧ equals o r b = true) :=
  own_patch_output_reproduces_target L F o ho hm a b (rawDoc_listDoc a ha1) ha2 ha3 ha4
    (elemsRaw_of_rawDoc ha1) (rawDoc_listDoc b hb1) hb2 hb3 hb4 la lb hN H Z ka kb

namespace Example
open PRC.Example

/-- the pair of JdProofs.PatchRenderClosed (`{"a~/b": [true, 1, [1], null], "k": null}` against
    `{"a~/b": [false, 1, [1, 1], null, null], "m": 1}`: five hunks, three of them list hunks, one in a
    nested list; eleven operations) satisfies the extra hypothesis -/
theorem exA_elemsRaw : elemsRaw exA = true := by decide

theorem exA_rawDoc : exA.rawDoc = true ∧ exB.rawDoc = true := by decide

example (L : FloatLaws) : (∀ h ∈ diffM [] exA exB, OwnH h) ∧ Distinct (diffM [] exA exB) := by
  obtain ⟨h1, h2, h3, h4, h5, h6, _, _, _, _, _, _, _, _, _, _⟩ := hyps L
  exact diffM_own [] rfl rfl exA exB h1 h2 h3 h4 exA_elemsRaw h5 h6

example (L : FloatLaws) (F : FloatEq0) : PBwf (diffM [] exA exB) = true ∧
    (diffM [] exA exB).all jdShaped = true ∧ (diffM [] exA exB).all hunkListDoc = true := by
  obtain ⟨h1, h2, h3, h4, h5, h6, _, h8, h9, h10, h11, _, _, h14, h15, h16⟩ := hyps L
  exact diffM_in_grammar [] rfl rfl exA exB h1 h2 h3 h4 exA_elemsRaw h5 h6 h8 F h9 h10 h11 h16 h14 h15

example (L : FloatLaws) (F : FloatEq0) :
    ∃ ops d' r, renderPatchOps (diffM [] exA exB) = .ok ops ∧ readPatchOps ops = .ok d' ∧
      patchM exA d' = .ok r ∧ specEq r exB = true ∧ equals [] r exB = true := by
  obtain ⟨h1, h2, h3, h4, h5, h6, h7, h8, h9, h10, h11, h12, h13, h14, h15, _⟩ := hyps L
  exact own_patch_output_reproduces_target_noPrecision L F [] rfl rfl rfl exA exB h1 h2 h3 h4 exA_elemsRaw
    h5 h6 h7 h8 h9 h10 h11 h12 h13 h14 h15

example (L : FloatLaws) (F : FloatEq0) :
    ∃ ops d' r, renderPatchOps (diffM [] exA exB) = .ok ops ∧ readPatchOps ops = .ok d' ∧
      ((exA.isObj && exB.isVoid) = false → d' = normPB (diffM [] exA exB)) ∧
      patchM exA d' = .ok r ∧ specEq r exB = true ∧ specEq exB r = true ∧ r.listDoc = true ∧
      (PrecMono [] → equivB [] r exB = true ∧ equals [] r exB = true) := by
  obtain ⟨_, h2, h3, h4, _, h6, h7, h8, h9, h10, h11, h12, h13, h14, h15, _⟩ := hyps L
  exact own_patch_output_reproduces_target_rawDoc L F [] rfl rfl exA exB exA_rawDoc.1 h2 h3 h4
    exA_rawDoc.2 h6 h7 h8 h9 h10 h11 h12 h13 h14 h15

/-- the exception: an object against "no document" goes through the closed theorem as well -/
example (L : FloatLaws) (F : FloatEq0) :
    ∃ ops d' r, renderPatchOps (diffM [] (.obj [("k", .null)]) .void) = .ok ops ∧
      readPatchOps ops = .ok d' ∧ patchM (.obj [("k", .null)]) d' = .ok r ∧ specEq r .void = true := by
  obtain ⟨ops, d', r, h1, h2, _, h3, h4, _⟩ := own_patch_output_reproduces_target L F [] rfl rfl
    (.obj [("k", .null)]) .void (by decide) (by decide) (by decide) (by decide) (by decide) (by decide)
    (by decide) (by decide) (by decide) (Na := 0) (Nb := 0) (by decide) (by decide) (by decide)
    (fun x _ y hy h => by
      simp [subterms] at hy; subst hy
      simp [subterms, subtermsKvs] at *
      rename_i hx
      rcases hx with rfl | rfl <;> exact absurd h (by decide +kernel))
    (fun u v hu _ _ => by simp [subterms, subtermsKvs] at hu) (by decide) (by decide)
  exact ⟨ops, d', r, h1, h2, h3, h4⟩

end Example

/-! ### axioms -/

#print axioms diff_own
#print axioms diffM_own
#print axioms diffM_in_grammar_of_paths
#print axioms diffM_in_grammar
#print axioms parse_back_of_grammar
#print axioms own_patch_output_reproduces_target_of_paths
#print axioms own_patch_output_reproduces_target
#print axioms own_patch_output_reproduces_target_noPrecision
#print axioms own_patch_output_reproduces_target_rawDoc
#print axioms objVoidHunk_not_in_grammar
#print axioms Witness.typed_list_element_witness
#print axioms Witness.hyps
#print axioms Witness.typed_list_element_witness_mid
#print axioms Witness.first_position_reads_back_and_applies

end Jd.Own
