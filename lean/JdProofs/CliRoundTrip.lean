/-
  JdProofs.CliRoundTrip (namespace `Jd.CliRT`) — property C14, last sentence:
  "Feeding the output of `jd [flags] a b` to `jd -p [flags]` on a reproduces b, in jd, patch and
  merge formats, for JSON and YAML."

  STAGE REACHED: C (all three formats, both carriers, all three binaries, with / without `-o`,
  second input a file or stdin) for the CLI-level theorem RELATIVE to the library round trip;
  plus the end-to-end corollary for the native format (list reading, v2 library) with the library
  hypothesis discharged by `Jd.E2E.diff_print_read_patch`; plus a COUNTER-WITNESS for `-color`.

  SETTING.  `Jd.Cli.cliM b fl r` is the decision logic of `main` as a function of the flags and of the
  record `r : LibResults` of what the library calls returned.  To speak about TWO runs whose library
  results are related (the second run reads the text the first one printed) the library calls are
  made explicit:
    `Lib N D`       the calls both `main.go` files make, as functions (`readDoc yaml`, `diff opts`,
                    `renderJd color`, `renderPatch`, `renderMerge`, `readDiff fmt`, `patch`,
                    `renderDoc yaml opts`, `diffLen`) — no option reaches a reader or `Patch`, exactly
                    as in `printPatch`;
    `Env`           what the OS returns: bytes of the first / second input, result of writing `-o`;
    `resultsDiff`, `resultsPatch`, `resultsFor`   the harness instantiation: `LibResults` obtained by
                    making exactly the calls of the `Plan` (`planOf`): diff run — parse both inputs
                    with the reader for `-yaml`, `Diff` with the option list of the plan, render;
                    `-p` run — read the FIRST input with the reader for `-f`, parse the SECOND with
                    the reader for `-yaml`, `Patch`, render with `Json/Yaml(options of the plan)`;
    `proc Ls b fl e`  THE PROCESS = `cliM b fl (resultsFor (Ls plan.v1).lib plan fl e)`; `Ls true` is
                    the v1 library, `Ls false` the v2 library (different carrier types: `LibPack`);
    `emitted o`     the bytes that leave the program (`-o` file if written, stdout otherwise);
    `PatchTwin fl fl2`  `fl2` is `jd -p [same flags]`: `-p` set, no `-t`/`-version`/`-port`/git
                    driver, same `-f -set -mset -setkeys -precision -yaml -color -v2`, ANY `-o`, one or
                    two arguments (`patchTwin_with`: `{fl with p := true, o := o2, nargs := n2}` is one);
    `LibRoundTrip L fmt color opts a b Post`   the library-level round trip for ONE pair:
                    ∀ T, render_fmt(L.diff opts a b) = ok T → ∃ d' r, L.readDiff fmt T = ok d' ∧
                    L.patch a d' = ok r ∧ Post r.   It is the shape of `Jd.E2E.diff_render_read_patch`
                    (native), `Jd.NMP.readPatchOps_render_patch` + `Jd.PRC` (JSON Patch),
                    `Jd.Merge.merge_render_correct` + `merge_read_apply_iff` + `Jd.DPK` (merge).

  MAIN THEOREMS
   1. `parsedOptions_twin`, `libIsV1_twin`, `planOf_twin`, `plans_agree` — SAME OPTION LIST, SAME
      LIBRARY: for every binary, every diff command line `fl` and every `-p` twin `fl2`,
      `parsedOptions b fl2 = parsedOptions b fl`; if `planOf b fl = some p1` then `planOf b fl2 =
      some p2` with `p1.mode = "diff"`, `p2.mode = "patch"`, `p2.v1 = p1.v1`, `p2.opts = p1.opts`,
      `p2.color = p1.color`, and both plans read `flag.Arg(0)` first (the document `a` in the diff run,
      the diff text in the `-p` run; `planOf_twin` gives the source list `[arg 0, arg 1 | stdin]`).
      NO flag combination with different option lists or readers exists in the model (the reader is
      chosen by `formatOf fl.f` in `resultsPatch`, the renderer by `formatOf fl.f` in `diffCore`, and
      `PatchTwin` has `fl2.f = fl.f`).
   2. `cli_round_trip` (and `core_round_trip`, the same for one library on `cliM` directly) — THE CLI
      ADDS NOTHING AND LOSES NOTHING AROUND THE LIBRARY ROUND TRIP.  Hypotheses:
        `isDiffMode fl`, `PatchTwin fl fl2`;
        `(proc Ls b fl e1).exit ≠ 2`           the first process ended with status 0 or 1;
        `e2.in1 = ok (emitted (proc Ls b fl e1))`  FILE1 of the second run holds the bytes the first
                                               run emitted (stdout, or its `-o` file);
        `e2.in2 = e1.in1`                      the second input of the second run (file or stdin) has
                                               the bytes of the FIRST input of the first run;
        `fl2.o = "" ∨ e2.write = ok ()`        writing the `-o` file of the second run succeeds;
        `LibRoundTrip` for the library the plan selects, the format of `-f`, `fl.color`, the parsed
        option list and the two parsed documents (quantified over what the inputs parse to), with
        an arbitrary postcondition `Post a b r` (instances: `r` Equals `b`).
      Conclusion: there are `opts p1 p2 ta tb a b fmt T d' r` with
        both plans as in 1 (`p1.opts = p2.opts = opts`, `p1.v1 = p2.v1 = libIsV1 b fl`);
        the inputs of the first run were read (`ta`, `tb`) and parsed (`a`, `b`);
        `formatOf fl.f = some fmt`, `T` = the rendering in that format of `diff opts a b`,
        `emitted (first process) = T`, first exit status 0 or 1;
        `readDiff fmt T = ok d'`, `patch a d' = ok r`, `Post a b r`;
        the second process exits 0, writes nothing to stderr, and emits EXACTLY
        `renderDoc fl.yaml opts r` — on stdout (and no file) without `-o`, in the file (and nothing on
        stdout) with `-o`.
      Covers: the three binaries, formats jd / patch / merge, JSON / YAML, `-o` in either run,
      second input from a file or stdin in either run, exit status 0 (empty diff) or 1 of the first run.
   3. `native_cli_round_trip` — END TO END, NO LIBRARY HYPOTHESIS: `Ls false` is `nativeLib nc Y` (the
      v2 library functions of the model: `readJsonM`, `diffM`, `renderM`, `renderPatchM`,
      `renderMergeM`, `readDiffM`, `readPatchM`, `readMergeM`, `patchM`, `jsonM`; the YAML carrier `Y`
      is a parameter about which NOTHING is assumed), v2 library (`libIsV1 b fl = false`), native
      format, list reading (`-set -mset -setkeys` absent), no `-color`, any `-precision`, any
      `-yaml`, any `-o`, one or two arguments.  If the two inputs are read, parse to `a`, `b` in the
      domain of `Jd.E2E.diff_print_read_patch` (list documents, sorted keys, finite numbers, no hash
      collision `HashOK`, no signed-zero pair `ZeroOK`, `voidFree`, `shortArrays b`, codec contract
      `ValOK` / `PathOK` and `json.Marshal` succeeding on the sub-terms and on the paths of the diff —
      each justified in JdProofs/NativeEndToEnd.lean) and the OS hypotheses of 2 hold, then:
      the first process exits `if T = "" then 0 else 1` and emits `T = Render(a.Diff(b, Precision))`;
      `ReadDiffString T = ok d'`, `a.Patch(d') = ok r`, `specEq r b`, `specEq b r`, `r.listDoc`,
      (under `PrecMono`, trivial without `-precision`) `r.Equals(b, options)`;
      the second process exits 0 and emits `Json()` (resp. `Y.render`) of `r`.
      Here the first run is PROVED not to fail (`run_diff_ok`), so no `exit ≠ 2` hypothesis remains.
      `(jsonM nc r).getD ""`: `Json()` has no error result in Go; the model's `none` (a number
      `json.Marshal` cannot print = a Go panic, which `cliM` does not represent) is mapped to "".
   4. COUNTER-WITNESS `ColorWitness.color_breaks_round_trip`, `color_no_libRoundTrip`: with `-color`
      (which is in the flag set of the property) the round trip FAILS.  `jd -color a.json b.json`
      with `{"a":"ab"}`, `{"a":"ac"}` exits 1 and prints `@ ["a"]` / `- "a␛[31mb␛[0m"` /
      `+ "a␛[32mc␛[0m"`; `jd -p -color T a.json` — same flags, same library, same option list, same
      reader — exits 2, because `ReadDiffString` rejects the ANSI escapes (`c_read`).  So
      `LibRoundTrip … color := true` is false and `cli_round_trip` is not applicable: the defect is
      not an inconsistency between the two runs of the CLI but that `-color` output is not input for
      `jd -p`.  Confirmed on the real binary (/repo/v2/jd): exit 1, then exit 2 with
      "invalid diff at line 2".  README says only "-color  Print color diff."

  NON-VACUITY: `Toy` (a toy library; format patch, `-o` in the first run, stdin in the first run,
  `-yaml -set -color`, binary B: all hypotheses of `cli_round_trip` hold and the theorem is applied);
  `NativeExample.ex_cli_end_to_end` (`native_cli_round_trip` on two concrete JSON files with the
  codec `exCodec`, every hypothesis discharged except `FloatLaws`; `-o out.json` in the second run).

  NOT PROVED HERE: the instantiation of `LibRoundTrip` for `-f patch` and `-f merge` and for the
  set / multiset / setkeys readings.  The library theorems named above are stated on the operation
  list (`readPatchOps (renderPatchOps d)`) resp. on the merge DOCUMENT (`readMergeDoc
  (renderMergeDoc d)`), not on the TEXT (`readPatchM nc (text)`, `readMergeM nc (text)`): the missing
  glue is the parse-back of `patchOpText` / `jsonM` through `parseJson` under the codec contract,
  which is library-level work, not CLI-level.  The v1 library (`Ls true`) is covered by theorems
  1–2 only (no `Lib` instance of the V1 model is built here).
-/
import JdModel
import JdSpec
import JdProofs.CliProofs
import JdProofs.NativeEndToEnd

namespace Jd.CliRT
open Jd Jd.Cli

/-! ## 1. the library as the CLI sees it, and the harness instantiation of `LibResults` -/

/-- the library calls `main` makes (both `main.go` files, v1 and v2 library alike), as functions.
    `N` = documents (`JsonNode`), `D` = diffs (`Diff`). -/
structure Lib (N D : Type) where
  /-- `ReadJsonString` (false) / `ReadYamlString` (true) -/
  readDoc     : Bool → String → Except String N
  /-- `a.Diff(b, options…)` -/
  diff        : List Opt → N → N → D
  /-- `len(diff)` -/
  diffLen     : D → Nat
  /-- `diff.Render()` (false) / `diff.Render(COLOR)` (true) -/
  renderJd    : Bool → D → String
  renderPatch : D → Except String String
  renderMerge : D → Except String String
  /-- `ReadDiffString` / `ReadPatchString` / `ReadMergeString` (no option is handed to a reader) -/
  readDiff    : Format → String → Except String D
  /-- `a.Patch(diff)` -/
  patch       : N → D → Except String N
  /-- `n.Json(options…)` (false) / `n.Yaml(options…)` (true) -/
  renderDoc   : Bool → List Opt → N → String

/-- a library with its carrier types (the v1 and the v2 library have different ones) -/
structure LibPack where
  N : Type
  D : Type
  lib : Lib N D

/-- what the operating system returns: the bytes of the first and the second input (`flag.Arg(0)`;
    `flag.Arg(1)` or stdin) and the result of writing the `-o` file -/
structure Env where
  in1   : Except String String
  in2   : Except String String
  write : Except String Unit := .ok ()

def forget {α} : Except String α → Except String Unit
  | .ok _ => .ok ()
  | .error e => .error e

def andThen {α β} : Except String α → (α → Except String β) → Except String β
  | .ok a, f => f a
  | .error e, _ => .error e

@[simp] theorem forget_ok {α} (a : α) : forget (.ok a : Except String α) = .ok () := rfl
@[simp] theorem forget_error {α} (e : String) : forget (.error e : Except String α) = .error e := rfl
@[simp] theorem andThen_ok {α β} (a : α) (f : α → Except String β) : andThen (.ok a) f = f a := rfl
@[simp] theorem andThen_error {α β} (e : String) (f : α → Except String β) :
    andThen (.error e) f = .error e := rfl

/-- the rendering of a diff in the format chosen with `-f` -/
def renderAs {N D} (L : Lib N D) (fmt : Format) (color : Bool) (d : D) : Except String String :=
  match fmt with
  | .jd => .ok (L.renderJd color d)
  | .patch => L.renderPatch d
  | .merge => L.renderMerge d

/-- `LibResults` of a DIFF run, obtained by making the calls of the plan: both inputs are parsed with
    the reader for `-yaml`, the diff is taken with the option list of the plan and rendered (jd
    format: with COLOR when the plan says so). -/
def resultsDiff {N D} (L : Lib N D) (opts : List Opt) (color : Bool) (fl : Flags) (e : Env) :
    LibResults :=
  let a := andThen e.in1 (L.readDoc fl.yaml)
  let b := andThen e.in2 (L.readDoc fl.yaml)
  let d : Except String D := andThen a (fun a => andThen b (fun b => .ok (L.diff opts a b)))
  { file1 := forget e.in1, file2 := forget e.in2,
    parse1 := forget a, parse2 := forget b,
    diffLen := match d with | .ok d => L.diffLen d | .error _ => 0,
    renderJd := match d with | .ok d => L.renderJd color d | .error _ => "",
    renderPatch := andThen d L.renderPatch,
    renderMerge := andThen d L.renderMerge,
    write := e.write }

/-- `LibResults` of a PATCH run: the FIRST input is read as a diff with the reader for `-f`, the
    SECOND input is parsed with the reader for `-yaml`, the diff is applied to it and the result is
    rendered with `Json(options…)` / `Yaml(options…)` for the option list of the plan. -/
def resultsPatch {N D} (L : Lib N D) (opts : List Opt) (fl : Flags) (e : Env) : LibResults :=
  let d : Except String D :=
    match formatOf fl.f with
    | some fmt => andThen e.in1 (L.readDiff fmt)
    | none => uncomputed
  let a := andThen e.in2 (L.readDoc fl.yaml)
  let r := andThen d (fun d => andThen a (fun a => L.patch a d))
  { file1 := forget e.in1, file2 := forget e.in2,
    readDiff := forget d, parse2 := forget a, patch := forget r,
    patched := match r with | .ok r => L.renderDoc fl.yaml opts r | .error _ => "",
    write := e.write }

/-- the harness: `LibResults` for a plan (the translate and git-driver plans are not needed here) -/
def resultsFor {N D} (L : Lib N D) (p : Plan) (fl : Flags) (e : Env) : LibResults :=
  if p.mode = "diff" then resultsDiff L p.opts p.color fl e
  else if p.mode = "patch" then resultsPatch L p.opts fl e
  else {}

/-- THE PROCESS: the CLI decision model run on what the library selected by the plan (`Ls true` =
    the v1 library, `Ls false` = the v2 library) returns for the calls of the plan. -/
def proc (Ls : Bool → LibPack) (b : Binary) (fl : Flags) (e : Env) : Cli.Outcome :=
  match planOf b fl with
  | some p => cliM b fl (resultsFor (Ls p.v1).lib p fl e)
  | none => cliM b fl {}

/-- the bytes that leave the program: the `-o` file when one is written, stdout otherwise -/
def emitted (o : Cli.Outcome) : String :=
  match o.outfile with
  | some s => s
  | none => o.stdout

/-! ## 2. the two command lines -/

/-- `fl2` is `jd -p [the same flags]` for the diff command line `fl`: `-p` set, the flags that
    select library, options, format and carrier are the same; `-o` is free; one or two arguments. -/
structure PatchTwin (fl fl2 : Flags) : Prop where
  version   : fl2.version = false
  port      : fl2.port = 0
  git       : fl2.gitDiffDriver = false
  p         : fl2.p = true
  t         : fl2.t = ""
  f         : fl2.f = fl.f
  set       : fl2.set = fl.set
  mset      : fl2.mset = fl.mset
  setkeys   : fl2.setkeys = fl.setkeys
  precision : fl2.precision = fl.precision
  yaml      : fl2.yaml = fl.yaml
  color     : fl2.color = fl.color
  v2        : fl2.v2 = fl.v2
  nargs     : fl2.nargs = 1 ∨ fl2.nargs = 2

/-- the canonical twin: the same command line with `-p`, any `-o`, one or two arguments -/
theorem patchTwin_with {fl : Flags} (hm : isDiffMode fl) (o2 : String) (n2 : Nat)
    (hn : n2 = 1 ∨ n2 = 2) : PatchTwin fl { fl with p := true, o := o2, nargs := n2 } :=
  ⟨hm.1, hm.2.1, hm.2.2.1, rfl, hm.2.2.2.2, rfl, rfl, rfl, rfl, rfl, rfl, rfl, rfl, hn⟩

theorem optionsOf_twin {fl fl2 : Flags} (h : PatchTwin fl fl2) : optionsOf fl2 = optionsOf fl := by
  unfold optionsOf
  rw [h.precision, h.set, h.mset, h.setkeys, h.f]

/-- **same option list**: the `-p` run computes the option list of the diff run -/
theorem parsedOptions_twin (b : Binary) {fl fl2 : Flags} (h : PatchTwin fl fl2) :
    parsedOptions b fl2 = parsedOptions b fl := by
  rw [parsedOptions_same, parsedOptions_same, optionsOf_twin h]

/-- **same library** -/
theorem libIsV1_twin (b : Binary) {fl fl2 : Flags} (h : PatchTwin fl fl2) :
    libIsV1 b fl2 = libIsV1 b fl := by
  cases b <;> simp [libIsV1, h.v2]

theorem modeOf_diff {fl : Flags} (hm : isDiffMode fl) : modeOf fl = .diff := by
  obtain ⟨_, _, _, hp, ht⟩ := hm
  simp [modeOf, hp, ht]

theorem modeOf_twin {fl fl2 : Flags} (h : PatchTwin fl fl2) : modeOf fl2 = .patch := by
  simp [modeOf, h.p, h.t]

theorem inputsOf_of_nargs {fl : Flags} (ht : fl.t = "") (hn : fl.nargs = 1 ∨ fl.nargs = 2) :
    inputsOf fl = .ok [.arg 0, if fl.nargs = 1 then .stdin else .arg 1] := by
  have hmode : modeOf fl = .diff ∨ modeOf fl = .patch := by
    unfold modeOf; simp only [ht]; cases fl.p <;> simp
  unfold inputsOf
  rcases hn with hn | hn <;> rcases hmode with hmo | hmo <;> rw [hmo, hn] <;> rfl

/-! ## 3. the plans of the two runs -/

theorem planOf_diff_ok (b : Binary) {fl : Flags} (hm : isDiffMode fl) {opts : List Opt}
    (ho : parsedOptions b fl = .ok opts) (hn : fl.nargs = 1 ∨ fl.nargs = 2) :
    planOf b fl = some ⟨"diff", libIsV1 b fl, opts, fl.color,
        [.arg 0, if fl.nargs = 1 then .stdin else .arg 1]⟩ := by
  have hmode := modeOf_diff hm
  obtain ⟨hv, hp, hg, hpp, ht⟩ := hm
  simp [planOf, hv, hp, ho, hg, hpp, inputsOf_of_nargs ht hn, hmode]

/-- in diff mode either no plan exists, and then the run exits 2 whatever the library returns, or
    the plan is the "diff" plan with the parsed option list -/
theorem planOf_diff (b : Binary) {fl : Flags} (hm : isDiffMode fl) :
    (planOf b fl = none ∧ ∀ r, (cliM b fl r).exit = 2) ∨
    (∃ opts, parsedOptions b fl = .ok opts ∧ (fl.nargs = 1 ∨ fl.nargs = 2) ∧
      planOf b fl = some ⟨"diff", libIsV1 b fl, opts, fl.color,
        [.arg 0, if fl.nargs = 1 then .stdin else .arg 1]⟩) := by
  have hmode := modeOf_diff hm
  obtain ⟨hv, hp, hg, hpp, ht⟩ := hm
  cases ho : parsedOptions b fl with
  | error e =>
    left
    refine ⟨by simp [planOf, hv, hp, ho], fun r => ?_⟩
    simp [cliM, run, hv, hp, ho, outcomeOf]
  | ok opts =>
    by_cases hn : fl.nargs = 1 ∨ fl.nargs = 2
    · right
      refine ⟨opts, rfl, hn, ?_⟩
      simp [planOf, hv, hp, ho, hg, hpp, inputsOf_of_nargs ht hn, hmode]
    · left
      have hi : inputsOf fl = .error .usage := by
        unfold inputsOf
        rw [hmode]
        split <;> first | rfl | (exfalso; simp_all)
      refine ⟨by simp [planOf, hv, hp, ho, hg, hpp, hi], fun r => ?_⟩
      simp [cliM, run, hv, hp, ho, hg, hpp, hi, outcomeOf]

/-- the plan of the `-p` twin: mode "patch", the diff is ALWAYS the first positional argument, the
    document to patch the second one or stdin -/
theorem planOf_twin (b : Binary) {fl fl2 : Flags} (h : PatchTwin fl fl2) {opts : List Opt}
    (ho : parsedOptions b fl = .ok opts) :
    planOf b fl2 = some ⟨"patch", libIsV1 b fl, opts, fl.color,
      [.arg 0, if fl2.nargs = 1 then .stdin else .arg 1]⟩ := by
  have ho2 : parsedOptions b fl2 = .ok opts := by rw [parsedOptions_twin b h, ho]
  simp [planOf, h.version, h.port, ho2, h.git, h.t, inputsOf_of_nargs h.t h.nargs, modeOf_twin h,
    libIsV1_twin b h, h.color]

/-- **the two runs call the same library with the same option list** (and both read the first
    positional argument first: the document `a` in the diff run, the diff text in the `-p` run) -/
theorem plans_agree (b : Binary) {fl fl2 : Flags} (hm : isDiffMode fl) (h : PatchTwin fl fl2)
    {p1 : Plan} (h1 : planOf b fl = some p1) :
    ∃ p2, planOf b fl2 = some p2 ∧ p1.mode = "diff" ∧ p2.mode = "patch" ∧ p2.v1 = p1.v1 ∧
      p2.opts = p1.opts ∧ p2.color = p1.color ∧ parsedOptions b fl = .ok p1.opts ∧
      parsedOptions b fl2 = .ok p1.opts ∧ p1.srcs.head? = some (.arg 0) ∧
      p2.srcs.head? = some (.arg 0) := by
  rcases planOf_diff b hm with ⟨hn, _⟩ | ⟨opts, ho, _, hp⟩
  · rw [hn] at h1; cases h1
  · rw [hp] at h1
    cases h1
    exact ⟨_, planOf_twin b h ho, rfl, rfl, rfl, rfl, rfl, ho, by rw [parsedOptions_twin b h, ho],
      rfl, rfl⟩

/-- `proc` in diff mode, once the option list is known -/
theorem proc_diff (Ls : Bool → LibPack) (b : Binary) {fl : Flags} (e : Env) {opts : List Opt}
    (hp : planOf b fl = some ⟨"diff", libIsV1 b fl, opts, fl.color,
        [.arg 0, if fl.nargs = 1 then .stdin else .arg 1]⟩) :
    proc Ls b fl e = cliM b fl (resultsDiff (Ls (libIsV1 b fl)).lib opts fl.color fl e) := by
  simp [proc, hp, resultsFor]

theorem proc_twin (Ls : Bool → LibPack) (b : Binary) {fl fl2 : Flags} (e : Env) {opts : List Opt}
    (h : PatchTwin fl fl2) (ho : parsedOptions b fl = .ok opts) :
    proc Ls b fl2 e = cliM b fl2 (resultsPatch (Ls (libIsV1 b fl)).lib opts fl2 e) := by
  simp [proc, planOf_twin b h ho, resultsFor]

/-! ## 4. the two runs on `LibResults` -/

/-- a `-p` run in which every call succeeds: exit 0, the bytes are the rendering of the patched
    document, on stdout or in the `-o` file -/
theorem run_patch_ok {b : Binary} {fl2 : Flags} {r : LibResults} {opts : List Opt} {fmt : Format}
    (hv : fl2.version = false) (hp : fl2.port = 0) (hg : fl2.gitDiffDriver = false)
    (hpp : fl2.p = true) (ht : fl2.t = "") (hn : fl2.nargs = 1 ∨ fl2.nargs = 2)
    (ho : parsedOptions b fl2 = .ok opts) (hf : formatOf fl2.f = some fmt)
    (h1 : r.file1 = .ok ()) (h2 : r.file2 = .ok ()) (h3 : r.readDiff = .ok ())
    (h4 : r.parse2 = .ok ()) (h5 : r.patch = .ok ()) (hw : fl2.o = "" ∨ r.write = .ok ()) :
    run b fl2 r = .ok ⟨0, r.patched, fl2.o != ""⟩ := by
  have hmode : modeOf fl2 = .patch := by simp [modeOf, hpp, ht]
  have hpc : patchCore fl2 r = .ok r.patched := by simp [patchCore, hf, h3, h4, h5]
  have hd : deliver fl2 r 0 r.patched = .ok ⟨0, r.patched, fl2.o != ""⟩ := by
    unfold deliver
    by_cases hoo : fl2.o = ""
    · simp [hoo]
    · rcases hw with hw | hw
      · exact absurd hw hoo
      · simp [hoo, hw]
  have hri : readInputs [Src.arg 0, if fl2.nargs = 1 then Src.stdin else Src.arg 1] r = .ok () := by
    simp [readInputs, h1, h2]
  unfold run
  simp [hv, hp, ho, hg, ht, inputsOf_of_nargs ht hn, hri, hmode, hpc, hd]

theorem outcome_emit (b : Binary) (c : Nat) (s : String) (tf : Bool) :
    (outcomeOf b (.ok ⟨c, s, tf⟩)).exit = c ∧ emitted (outcomeOf b (.ok ⟨c, s, tf⟩)) = s ∧
    (outcomeOf b (.ok ⟨c, s, tf⟩)).stderr = "" ∧
    (tf = false → (outcomeOf b (.ok ⟨c, s, tf⟩)).stdout = s ∧
      (outcomeOf b (.ok ⟨c, s, tf⟩)).outfile = none) ∧
    (tf = true → (outcomeOf b (.ok ⟨c, s, tf⟩)).stdout = "" ∧
      (outcomeOf b (.ok ⟨c, s, tf⟩)).outfile = some s) := by
  cases tf <;> simp [outcomeOf, emitted]

/-- the library-level round trip, for one pair of documents: whatever text `T` the diff of `a` and `b`
    renders to in the format `fmt`, the reader of that format accepts `T`, the diff read applies to
    `a`, and the result satisfies `Post` (in the instances: it `Equals` `b`).  This is the shape of
    `Jd.E2E.diff_render_read_patch` (native), `Jd.NMP.readPatchOps_render_patch` + `Jd.PRC` (JSON
    Patch) and `Jd.Merge.merge_render_correct` + `merge_read_apply_iff` (merge patch). -/
def LibRoundTrip {N D} (L : Lib N D) (fmt : Format) (color : Bool) (opts : List Opt) (a b : N)
    (Post : N → Prop) : Prop :=
  ∀ T, renderAs L fmt color (L.diff opts a b) = .ok T →
    ∃ d' r, L.readDiff fmt T = .ok d' ∧ L.patch a d' = .ok r ∧ Post r

/-- what a successful diff run tells about the inputs and the library calls -/
theorem diff_run_inv {N D} (L : Lib N D) {b : Binary} {fl : Flags} {e : Env} {opts : List Opt}
    (hm : isDiffMode fl)
    (hne : (cliM b fl (resultsDiff L opts fl.color fl e)).exit ≠ 2) :
    ∃ ta tb a b' fmt T, e.in1 = .ok ta ∧ e.in2 = .ok tb ∧ L.readDoc fl.yaml ta = .ok a ∧
      L.readDoc fl.yaml tb = .ok b' ∧ formatOf fl.f = some fmt ∧
      renderAs L fmt fl.color (L.diff opts a b') = .ok T ∧
      emitted (cliM b fl (resultsDiff L opts fl.color fl e)) = T ∧
      ((cliM b fl (resultsDiff L opts fl.color fl e)).exit = 0 ∨
       (cliM b fl (resultsDiff L opts fl.color fl e)).exit = 1) ∧
      (fl.o = "" → (cliM b fl (resultsDiff L opts fl.color fl e)).stdout = T) ∧
      (fl.o ≠ "" → (cliM b fl (resultsDiff L opts fl.color fl e)).outfile = some T) := by
  obtain ⟨em, he⟩ := exit_ne_two_run hne
  obtain ⟨s, hd, hdc, hdel⟩ := run_diff_mode hm he
  obtain ⟨hp1, hp2, hren, _⟩ := diffCore_ok hdc
  obtain ⟨hc, htx, htf⟩ := deliver_code hdel
  -- the inputs were read and parsed
  cases hi1 : e.in1 with
  | error x => simp [resultsDiff, hi1] at hp1
  | ok ta =>
  cases hi2 : e.in2 with
  | error x => simp [resultsDiff, hi2] at hp2
  | ok tb =>
  cases ha : L.readDoc fl.yaml ta with
  | error x => simp [resultsDiff, hi1, ha] at hp1
  | ok a =>
  cases hb : L.readDoc fl.yaml tb with
  | error x => simp [resultsDiff, hi2, hb] at hp2
  | ok b' =>
  cases hf : formatOf fl.f with
  | none => simp [libRendering, hf] at hren
  | some fmt =>
  have hT : renderAs L fmt fl.color (L.diff opts a b') = .ok s := by
    cases fmt <;> simp [libRendering, hf, resultsDiff, hi1, hi2, ha, hb, renderAs, okText] at hren ⊢
    · exact hren
    · cases hr : L.renderPatch (L.diff opts a b') with
      | error x => simp [hr] at hren
      | ok t => simpa [hr, okText] using hren
    · cases hr : L.renderMerge (L.diff opts a b') with
      | error x => simp [hr] at hren
      | ok t => simpa [hr, okText] using hren
  have hcode := run_code he
  refine ⟨ta, tb, a, b', fmt, s, rfl, rfl, ha, hb, rfl, hT, ?_⟩
  unfold cliM
  rw [he]
  obtain ⟨c, t, tf⟩ := em
  simp only at hc htx htf hcode
  subst htx
  obtain ⟨x1, x2, _, x4, x5⟩ := outcome_emit b c t tf
  refine ⟨x2, by rw [x1]; exact hcode, fun ho => (x4 (by simp [htf, ho])).1,
    fun ho => (x5 (by simp [htf, ho])).2⟩

/-! ## 5. THE CLI ROUND TRIP relative to the library round trip -/

/-- core statement for one library `L`, on `cliM` and the harness instantiation -/
theorem core_round_trip {N D} (L : Lib N D) (b : Binary) {fl fl2 : Flags} {e1 e2 : Env}
    {opts : List Opt} (hm : isDiffMode fl) (h : PatchTwin fl fl2)
    (ho : parsedOptions b fl = .ok opts)
    (hne : (cliM b fl (resultsDiff L opts fl.color fl e1)).exit ≠ 2)
    (hT : e2.in1 = .ok (emitted (cliM b fl (resultsDiff L opts fl.color fl e1))))
    (ha : e2.in2 = e1.in1) (hw : fl2.o = "" ∨ e2.write = .ok ())
    (Post : N → N → N → Prop)
    (hrt : ∀ ta tb a b' fmt, e1.in1 = .ok ta → e1.in2 = .ok tb → L.readDoc fl.yaml ta = .ok a →
      L.readDoc fl.yaml tb = .ok b' → formatOf fl.f = some fmt →
      LibRoundTrip L fmt fl.color opts a b' (Post a b')) :
    ∃ ta tb a b' fmt T d' r, e1.in1 = .ok ta ∧ e1.in2 = .ok tb ∧ L.readDoc fl.yaml ta = .ok a ∧
      L.readDoc fl.yaml tb = .ok b' ∧ formatOf fl.f = some fmt ∧
      renderAs L fmt fl.color (L.diff opts a b') = .ok T ∧
      emitted (cliM b fl (resultsDiff L opts fl.color fl e1)) = T ∧
      ((cliM b fl (resultsDiff L opts fl.color fl e1)).exit = 0 ∨
       (cliM b fl (resultsDiff L opts fl.color fl e1)).exit = 1) ∧
      L.readDiff fmt T = .ok d' ∧ L.patch a d' = .ok r ∧ Post a b' r ∧
      (cliM b fl2 (resultsPatch L opts fl2 e2)).exit = 0 ∧
      emitted (cliM b fl2 (resultsPatch L opts fl2 e2)) = L.renderDoc fl.yaml opts r ∧
      (cliM b fl2 (resultsPatch L opts fl2 e2)).stderr = "" ∧
      (fl2.o = "" → (cliM b fl2 (resultsPatch L opts fl2 e2)).stdout = L.renderDoc fl.yaml opts r ∧
        (cliM b fl2 (resultsPatch L opts fl2 e2)).outfile = none) ∧
      (fl2.o ≠ "" → (cliM b fl2 (resultsPatch L opts fl2 e2)).stdout = "" ∧
        (cliM b fl2 (resultsPatch L opts fl2 e2)).outfile = some (L.renderDoc fl.yaml opts r)) := by
  obtain ⟨ta, tb, a, b', fmt, T, hi1, hi2, hra, hrb, hf, hren, hem, hex, _, _⟩ :=
    diff_run_inv L hm hne
  obtain ⟨d', r, hrd, hpa, hpost⟩ := hrt ta tb a b' fmt hi1 hi2 hra hrb hf T hren
  have hem0 := hem
  rw [hem] at hT
  rw [hi1] at ha
  have hf2 : formatOf fl2.f = some fmt := by rw [h.f, hf]
  have ho2 : parsedOptions b fl2 = .ok opts := by rw [parsedOptions_twin b h, ho]
  have hrun : run b fl2 (resultsPatch L opts fl2 e2) =
      .ok ⟨0, L.renderDoc fl.yaml opts r, fl2.o != ""⟩ := by
    have := run_patch_ok (b := b) (fl2 := fl2) (r := resultsPatch L opts fl2 e2) (opts := opts)
      (fmt := fmt) h.version h.port h.git h.p h.t h.nargs ho2 hf2
      (by simp [resultsPatch, hT]) (by simp [resultsPatch, ha])
      (by simp [resultsPatch, hf2, hT, hrd]) (by simp [resultsPatch, ha, h.yaml, hra])
      (by simp [resultsPatch, hf2, hT, hrd, ha, h.yaml, hra, hpa])
      (by rcases hw with hw | hw
          · exact .inl hw
          · exact .inr (by simp [resultsPatch, hw]))
    rw [this]
    simp [resultsPatch, hf2, hT, hrd, ha, h.yaml, hra, hpa]
  refine ⟨ta, tb, a, b', fmt, T, d', r, hi1, hi2, hra, hrb, hf, hren, hem0, hex, hrd, hpa, hpost, ?_⟩
  unfold cliM
  rw [hrun]
  obtain ⟨x1, x2, x3, x4, x5⟩ := outcome_emit b 0 (L.renderDoc fl.yaml opts r) (fl2.o != "")
  exact ⟨x1, x2, x3, fun ho => x4 (by simp [ho]), fun ho => x5 (by simp [ho])⟩

/-- **C14, last sentence, on the model (`cli_round_trip`).**
    `Ls` gives the library for each value of `Plan.v1`; `fl` is a diff command line
    (`jd [flags] a b`, any `-f`, with or without `-o`, second input a file or stdin), `fl2` its `-p`
    twin (`jd -p [flags] T a`).  If the first process does not exit 2, the second process is given
    as first input the bytes the first one emitted (stdout, or the `-o` file) and as second input
    the bytes of the first input of the first run, and writing its `-o` file (if any) succeeds, and
    the library has the round-trip property for the parsed documents, THEN
      the two plans exist, name the same library and the same option list;
      the second process exits 0 with nothing on stderr, and the bytes it emits are exactly
      `Json(options…)` / `Yaml(options…)` of a document `r` with `Post a b r` — where `a`, `b` are what
      the document reader of `-yaml` made of the two inputs of the first run, and `r` is what
      `Patch` returned; the bytes are on stdout without `-o`, in the file (and nothing on stdout) with. -/
theorem cli_round_trip (Ls : Bool → LibPack) (b : Binary) {fl fl2 : Flags} {e1 e2 : Env}
    (hm : isDiffMode fl) (h : PatchTwin fl fl2)
    (hne : (proc Ls b fl e1).exit ≠ 2)
    (hT : e2.in1 = .ok (emitted (proc Ls b fl e1)))
    (ha : e2.in2 = e1.in1) (hw : fl2.o = "" ∨ e2.write = .ok ())
    (Post : (Ls (libIsV1 b fl)).N → (Ls (libIsV1 b fl)).N → (Ls (libIsV1 b fl)).N → Prop)
    (hrt : ∀ opts ta tb a b' fmt, parsedOptions b fl = .ok opts → e1.in1 = .ok ta →
      e1.in2 = .ok tb → (Ls (libIsV1 b fl)).lib.readDoc fl.yaml ta = .ok a →
      (Ls (libIsV1 b fl)).lib.readDoc fl.yaml tb = .ok b' → formatOf fl.f = some fmt →
      LibRoundTrip (Ls (libIsV1 b fl)).lib fmt fl.color opts a b' (Post a b')) :
    ∃ opts p1 p2 ta tb a b' fmt T d' r,
      planOf b fl = some p1 ∧ planOf b fl2 = some p2 ∧ p1.mode = "diff" ∧ p2.mode = "patch" ∧
      p1.v1 = libIsV1 b fl ∧ p2.v1 = libIsV1 b fl ∧ p1.opts = opts ∧ p2.opts = opts ∧
      e1.in1 = .ok ta ∧ e1.in2 = .ok tb ∧
      (Ls (libIsV1 b fl)).lib.readDoc fl.yaml ta = .ok a ∧
      (Ls (libIsV1 b fl)).lib.readDoc fl.yaml tb = .ok b' ∧ formatOf fl.f = some fmt ∧
      renderAs (Ls (libIsV1 b fl)).lib fmt fl.color ((Ls (libIsV1 b fl)).lib.diff opts a b') = .ok T ∧
      emitted (proc Ls b fl e1) = T ∧ ((proc Ls b fl e1).exit = 0 ∨ (proc Ls b fl e1).exit = 1) ∧
      (Ls (libIsV1 b fl)).lib.readDiff fmt T = .ok d' ∧
      (Ls (libIsV1 b fl)).lib.patch a d' = .ok r ∧ Post a b' r ∧
      (proc Ls b fl2 e2).exit = 0 ∧
      emitted (proc Ls b fl2 e2) = (Ls (libIsV1 b fl)).lib.renderDoc fl.yaml opts r ∧
      (proc Ls b fl2 e2).stderr = "" ∧
      (fl2.o = "" → (proc Ls b fl2 e2).stdout = (Ls (libIsV1 b fl)).lib.renderDoc fl.yaml opts r ∧
        (proc Ls b fl2 e2).outfile = none) ∧
      (fl2.o ≠ "" → (proc Ls b fl2 e2).stdout = "" ∧
        (proc Ls b fl2 e2).outfile = some ((Ls (libIsV1 b fl)).lib.renderDoc fl.yaml opts r)) := by
  rcases planOf_diff b hm with ⟨hn, h2⟩ | ⟨opts, ho, _, hp⟩
  · exact absurd (by simp only [proc, hn]; exact h2 _) hne
  · rw [proc_diff Ls b e1 hp] at hne hT ⊢
    rw [proc_twin Ls b e2 h ho]
    obtain ⟨ta, tb, a, b', fmt, T, d', r, c1, c2, c3, c4, c5, c6⟩ :=
      core_round_trip (Ls (libIsV1 b fl)).lib b hm h ho hne hT ha hw Post
        (fun ta tb a b' fmt => hrt opts ta tb a b' fmt ho)
    exact ⟨opts, _, _, ta, tb, a, b', fmt, T, d', r, hp, planOf_twin b h ho, rfl, rfl, rfl, rfl, rfl, rfl,
      c1, c2, c3, c4, c5, c6⟩

/-! ## 6. the first run made total: a diff run in which every call succeeds -/

theorem run_diff_ok {b : Binary} {fl : Flags} {r : LibResults} {opts : List Opt} {T : String}
    (hm : isDiffMode fl) (hn : fl.nargs = 1 ∨ fl.nargs = 2) (ho : parsedOptions b fl = .ok opts)
    (h1 : r.file1 = .ok ()) (h2 : r.file2 = .ok ()) (h3 : r.parse1 = .ok ())
    (h4 : r.parse2 = .ok ()) (hren : libRendering fl r = some T)
    (hw : fl.o = "" ∨ r.write = .ok ()) :
    run b fl r = .ok ⟨if haveDiff fl r T then 1 else 0, T, fl.o != ""⟩ := by
  have hmode := modeOf_diff hm
  obtain ⟨hv, hp, hg, hpp, ht⟩ := hm
  have hdc : diffCore fl r = .ok (T, haveDiff fl r T) := by
    unfold libRendering at hren
    unfold diffCore haveDiff
    cases hf : formatOf fl.f with
    | none => simp [hf] at hren
    | some fmt =>
      cases fmt <;> simp [hf, h3, h4] at hren ⊢
      · simp [hren]
      · cases hr : r.renderPatch with
        | error x => simp [hr, okText] at hren
        | ok t => simp [hr, okText] at hren; simp [hren]
      · cases hr : r.renderMerge with
        | error x => simp [hr, okText] at hren
        | ok t => simp [hr, okText] at hren; simp [hren]
  have hd : ∀ c, deliver fl r c T = .ok ⟨c, T, fl.o != ""⟩ := by
    intro c
    unfold deliver
    by_cases hoo : fl.o = ""
    · simp [hoo]
    · rcases hw with hw | hw
      · exact absurd hw hoo
      · simp [hoo, hw]
  have hri : readInputs [Src.arg 0, if fl.nargs = 1 then Src.stdin else Src.arg 1] r = .ok () := by
    simp [readInputs, h1, h2]
  unfold run
  simp [hv, hp, ho, hg, hpp, ht, inputsOf_of_nargs ht hn, hri, hmode, hdc, hd]

/-! ## 7. the v2 library of the model as a `Lib`, and the end-to-end corollary (native format) -/

def ofOutcome {α} : Jd.Outcome α → Except String α
  | .ok a => .ok a
  | .err => .error "error"
  | .panic => .error "panic"

/-- renderers that return `(string, error)`; `none` (a number `json.Marshal` cannot print) is an error -/
def ofOutcomeText : Jd.Outcome (Option String) → Except String String
  | .ok (some s) => .ok s
  | .ok none => .error "json: unsupported value"
  | .err => .error "error"
  | .panic => .error "panic"

/-- the YAML carrier (`ReadYamlString`, `Yaml(options…)`): the text level of yaml.v2 is not modelled,
    so it is a parameter; nothing is assumed about it -/
structure YamlCarrier where
  read   : String → Except String Json
  render : List Opt → Json → String

/-- the v2 library functions of the model, in the shape the CLI calls them.  `Render` and `Json` have
    no error result in Go; the model's `none` (`json.Marshal` fails on a number: a panic in Go, which
    the CLI model does not represent) is mapped to the empty text and excluded by hypothesis in the
    corollary (`marshalNode … isSome`). -/
def nativeLib (nc : NumCodec) (Y : YamlCarrier) : Lib Json Diff where
  readDoc yaml s := if yaml then Y.read s else ofOutcome (readJsonM nc s)
  diff o a b := diffM o a b
  diffLen d := d.length
  renderJd color d := (renderM nc (if color then [Opt.color] else []) d).getD ""
  renderPatch d := ofOutcomeText (renderPatchM nc d)
  renderMerge d := ofOutcomeText (renderMergeM nc d)
  readDiff fmt s := ofOutcome (match fmt with
    | .jd => readDiffM nc s
    | .patch => readPatchM nc s
    | .merge => readMergeM nc s)
  patch a d := ofOutcome (patchM a d)
  renderDoc yaml o n := if yaml then Y.render o n else (jsonM nc n).getD ""

theorem nativeLib_renderJd_plain (nc : NumCodec) (Y : YamlCarrier) (d : Diff) :
    (nativeLib nc Y).renderJd false d = (renderM nc [] d).getD "" := rfl
theorem nativeLib_diff (nc : NumCodec) (Y : YamlCarrier) (o : List Opt) (a b : Json) :
    (nativeLib nc Y).diff o a b = diffM o a b := rfl
theorem nativeLib_readDiff_jd (nc : NumCodec) (Y : YamlCarrier) (s : String) :
    (nativeLib nc Y).readDiff .jd s = ofOutcome (readDiffM nc s) := rfl
theorem nativeLib_patch (nc : NumCodec) (Y : YamlCarrier) (a : Json) (d : Diff) :
    (nativeLib nc Y).patch a d = ofOutcome (patchM a d) := rfl
theorem nativeLib_renderDoc_json (nc : NumCodec) (Y : YamlCarrier) (o : List Opt) (n : Json) :
    (nativeLib nc Y).renderDoc false o n = (jsonM nc n).getD "" := rfl
theorem nativeLib_readDoc_json (nc : NumCodec) (Y : YamlCarrier) (s : String) :
    (nativeLib nc Y).readDoc false s = ofOutcome (readJsonM nc s) := rfl

theorem ofOutcome_ok {α} {x : Jd.Outcome α} {a : α} : ofOutcome x = .ok a ↔ x = .ok a := by
  cases x <;> simp [ofOutcome]

theorem not_merge_of_jd {s : String} (h : formatOf s = some .jd) : (s == "merge") = false := by
  by_cases hs : s = "merge"
  · subst hs; exact absurd h (by decide)
  · simp [hs]

/-- list reading (`-set`, `-mset`, `-setkeys` absent), native format: the option list is the
    Precision option alone -/
theorem parsedOptions_list (b : Binary) {fl : Flags} (hset : fl.set = false)
    (hmset : fl.mset = false) (hkeys : fl.setkeys = "") (hfmt : formatOf fl.f = some .jd) :
    parsedOptions b fl = .ok [Opt.prec fl.precision] := by
  rw [parsedOptions_same]
  simp [optionsOf, hset, hmset, hkeys, not_merge_of_jd hfmt]

open Jd.Spec Jd.DPL Jd.NativeRT Jd.E2E in
/-- **END TO END, native format, list reading, v2 library** (`native_cli_round_trip`): no library
    hypothesis left — `LibRoundTrip` is discharged by `Jd.E2E.diff_print_read_patch`.
    `jd [-precision e] [-yaml] [-o F] a b` followed by `jd -p [same flags] [-o G] T a`:
    the first process exits 0 or 1 (1 exactly when the text is not empty) and emits the text `T` of
    `a.Diff(b)`; the second exits 0 and emits `Json()` / `Yaml()` of a document `r` that is
    structurally equal to `b` and `Equals` it. -/
theorem native_cli_round_trip (FL : FloatLaws) (nc : NumCodec) (Y : YamlCarrier)
    (Ls : Bool → LibPack) (hL : Ls false = ⟨Json, Diff, nativeLib nc Y⟩)
    (b : Binary) {fl fl2 : Flags} {e1 e2 : Env}
    (hm : isDiffMode fl) (h : PatchTwin fl fl2) (hv2 : libIsV1 b fl = false)
    (hset : fl.set = false) (hmset : fl.mset = false) (hkeys : fl.setkeys = "")
    (hfmt : formatOf fl.f = some .jd) (hcolor : fl.color = false)
    (hn : fl.nargs = 1 ∨ fl.nargs = 2)
    {ta tb : String} {a b' : Json}
    (hi1 : e1.in1 = .ok ta) (hi2 : e1.in2 = .ok tb) (hw1 : fl.o = "" ∨ e1.write = .ok ())
    (hra : (nativeLib nc Y).readDoc fl.yaml ta = .ok a)
    (hrb : (nativeLib nc Y).readDoc fl.yaml tb = .ok b')
    (ha1 : a.listDoc = true) (ha2 : a.wf = true) (ha3 : a.finiteNums = true)
    (hb1 : b'.listDoc = true) (hb2 : b'.wf = true) (hb3 : b'.finiteNums = true)
    (H : HashOK [Opt.prec fl.precision] a b') (Z : ZeroOK a b')
    (hva : voidFree a = true) (hvb : voidFree b' = true) (hlen : shortArrays b' = true)
    (hv : ∀ z ∈ subterms a ++ subterms b', (marshalNode nc z).isSome = true ∧ ValOK nc z)
    (hp : ∀ h ∈ diffM [Opt.prec fl.precision] a b',
      (jsonM nc (pathToJson h.path)).isSome = true ∧ PathOK nc h.path)
    (hT : e2.in1 = .ok (emitted (proc Ls b fl e1)))
    (ha : e2.in2 = e1.in1) (hw : fl2.o = "" ∨ e2.write = .ok ()) :
    ∃ T d' r,
      renderM nc [] (diffM [Opt.prec fl.precision] a b') = some T ∧
      emitted (proc Ls b fl e1) = T ∧
      (proc Ls b fl e1).exit = (if T = "" then 0 else 1) ∧
      (fl.o = "" → (proc Ls b fl e1).stdout = T ∧ (proc Ls b fl e1).outfile = none) ∧
      (fl.o ≠ "" → (proc Ls b fl e1).stdout = "" ∧ (proc Ls b fl e1).outfile = some T) ∧
      readDiffM nc T = .ok d' ∧ patchM a d' = .ok r ∧
      specEq r b' = true ∧ specEq b' r = true ∧ r.listDoc = true ∧
      (PrecMono [Opt.prec fl.precision] →
        equivB [Opt.prec fl.precision] r b' = true ∧ equals [Opt.prec fl.precision] r b' = true) ∧
      (proc Ls b fl2 e2).exit = 0 ∧ (proc Ls b fl2 e2).stderr = "" ∧
      emitted (proc Ls b fl2 e2) =
        (nativeLib nc Y).renderDoc fl.yaml [Opt.prec fl.precision] r ∧
      (fl2.o = "" → (proc Ls b fl2 e2).stdout =
          (nativeLib nc Y).renderDoc fl.yaml [Opt.prec fl.precision] r ∧
        (proc Ls b fl2 e2).outfile = none) ∧
      (fl2.o ≠ "" → (proc Ls b fl2 e2).stdout = "" ∧
        (proc Ls b fl2 e2).outfile =
          some ((nativeLib nc Y).renderDoc fl.yaml [Opt.prec fl.precision] r)) := by
  have ho := parsedOptions_list b hset hmset hkeys hfmt
  -- the library round trip (Jd.E2E)
  obtain ⟨text, d0, r0, g1, g2, g3, g4, g5, g6, g7⟩ :=
    diff_print_read_patch FL nc [Opt.prec fl.precision] rfl rfl a b' ha1 ha2 ha3 hb1 hb2 hb3 H Z
      hva hvb hlen hv hp
  -- the plans
  have hplan := planOf_diff_ok b hm ho hn
  rw [proc_diff Ls b e1 hplan] at hT ⊢
  rw [proc_twin Ls b e2 h ho]
  rw [hv2, hL] at hT ⊢
  simp only at hT ⊢
  -- the first run
  have hR : libRendering fl (resultsDiff (nativeLib nc Y) [Opt.prec fl.precision] fl.color fl e1)
      = some text := by
    simp [libRendering, hfmt, resultsDiff, hi1, hi2, hra, hrb, hcolor, nativeLib_renderJd_plain,
      nativeLib_diff, g1]
  have hrun1 := run_diff_ok (b := b)
    (r := resultsDiff (nativeLib nc Y) [Opt.prec fl.precision] fl.color fl e1) hm hn ho
    (by simp [resultsDiff, hi1]) (by simp [resultsDiff, hi2])
    (by simp [resultsDiff, hi1, hra]) (by simp [resultsDiff, hi2, hrb]) hR
    (by rcases hw1 with hw1 | hw1
        · exact .inl hw1
        · exact .inr (by simp [resultsDiff, hw1]))
  have hne : (cliM b fl (resultsDiff (nativeLib nc Y) [Opt.prec fl.precision] fl.color fl e1)).exit
      ≠ 2 := by
    unfold cliM
    rw [hrun1]
    have := (outcome_emit b (if haveDiff fl (resultsDiff (nativeLib nc Y) [Opt.prec fl.precision]
      fl.color fl e1) text = true then 1 else 0) text (fl.o != "")).1
    rw [this]
    split <;> decide
  obtain ⟨ta', tb', a', b'', fmt, T, d', r, c1, c2, c3, c4, c5, c6, c7, c8, c9, c10, c11, c12⟩ :=
    core_round_trip (nativeLib nc Y) b hm h ho hne hT ha hw
      (fun a b r => specEq r b = true ∧ specEq b r = true ∧ r.listDoc = true ∧
        (PrecMono [Opt.prec fl.precision] →
          equivB [Opt.prec fl.precision] r b = true ∧ equals [Opt.prec fl.precision] r b = true))
      (by
        intro ta' tb' a' b'' fmt q1 q2 q3 q4 q5 T hTT
        rw [hi1] at q1; cases q1
        rw [hi2] at q2; cases q2
        rw [hra] at q3; cases q3
        rw [hrb] at q4; cases q4
        rw [hfmt] at q5; cases q5
        have : T = text := by
          simp [renderAs, hcolor, nativeLib_renderJd_plain, nativeLib_diff, g1] at hTT
          exact hTT.symm
        subst this
        exact ⟨d0, r0, by simp [nativeLib_readDiff_jd, ofOutcome, g2],
          by simp [nativeLib_patch, ofOutcome, g3], g4, g5, g6, g7⟩)
  rw [hi1] at c1; cases c1
  rw [hi2] at c2; cases c2
  rw [hra] at c3; cases c3
  rw [hrb] at c4; cases c4
  rw [hfmt] at c5; cases c5
  have hTt : T = text := by
    simp [renderAs, hcolor, nativeLib_renderJd_plain, nativeLib_diff, g1] at c6
    exact c6.symm
  subst hTt
  have hd' : readDiffM nc T = .ok d' := ofOutcome_ok.1 (by simpa [nativeLib_readDiff_jd] using c9)
  have hr' : patchM a d' = .ok r := ofOutcome_ok.1 (by simpa [nativeLib_patch] using c10)
  refine ⟨T, d', r, g1, c7, ?_, ?_, ?_, hd', hr', c11.1, c11.2.1, c11.2.2.1, c11.2.2.2, ?_⟩
  · unfold cliM
    rw [hrun1]
    rw [(outcome_emit b _ T (fl.o != "")).1]
    simp [haveDiff, hfmt]
  · intro hoo
    unfold cliM
    rw [hrun1]
    exact (outcome_emit b _ T (fl.o != "")).2.2.2.1 (by simp [hoo])
  · intro hoo
    unfold cliM
    rw [hrun1]
    exact (outcome_emit b _ T (fl.o != "")).2.2.2.2 (by simp [hoo])
  · obtain ⟨k1, k2, k3, k4, k5⟩ := c12
    exact ⟨k1, k3, k2, k4, k5⟩

/-! ## 8. non-vacuity -/

namespace Toy

/-- a toy library: a diff is the target document; readers and renderers are the identity -/
def toyLib : Lib String String where
  readDoc _ s := .ok s
  diff _ _ b := b
  diffLen d := d.length
  renderJd _ d := d
  renderPatch d := .ok d
  renderMerge d := .ok d
  readDiff _ s := .ok s
  patch _ d := .ok d
  renderDoc _ _ n := n

def toyLs : Bool → LibPack := fun _ => ⟨String, String, toyLib⟩

/-- `jd -f patch -o out.diff -yaml -set -color a` (second input from stdin), binary B -/
def toyFl : Flags :=
  { f := "patch", o := "out.diff", nargs := 1, yaml := true, set := true, color := true }
/-- `jd -p -f patch -yaml -set -color out.diff a` -/
def toyFl2 : Flags := { toyFl with p := true, o := "", nargs := 2 }
def toyE1 : Env := { in1 := .ok "A", in2 := .ok "B" }
def toyE2 : Env := { in1 := .ok "B", in2 := .ok "A" }

theorem toy_libRoundTrip (fmt : Format) (color : Bool) (opts : List Opt) (a b : String) :
    LibRoundTrip toyLib fmt color opts a b (fun r => r = b) := by
  intro T hT
  have : T = b := by cases fmt <;> simp [renderAs, toyLib] at hT <;> exact hT.symm
  subst this
  exact ⟨T, T, rfl, rfl, rfl⟩

/-- every hypothesis of `cli_round_trip` holds for a concrete command line (format patch, `-o` in the
    first run only, stdin in the first run only), and the conclusion is what evaluation gives -/
example : isDiffMode toyFl ∧ PatchTwin toyFl toyFl2 ∧ (proc toyLs .top toyFl toyE1).exit = 1 ∧
    (proc toyLs .top toyFl toyE1).outfile = some "B" ∧
    toyE2.in1 = .ok (emitted (proc toyLs .top toyFl toyE1)) ∧ toyE2.in2 = toyE1.in1 ∧
    (proc toyLs .top toyFl2 toyE2).exit = 0 ∧ (proc toyLs .top toyFl2 toyE2).stdout = "B" :=
  ⟨⟨rfl, rfl, rfl, rfl, rfl⟩, patchTwin_with ⟨rfl, rfl, rfl, rfl, rfl⟩ "" 2 (.inr rfl),
    by decide, by decide,
    congrArg Except.ok (by decide : "B" = emitted (proc toyLs .top toyFl toyE1)), rfl,
    by decide, by decide⟩

/-- … and `cli_round_trip` applies to it -/
example : (proc toyLs .top toyFl2 toyE2).exit = 0 := by
  obtain ⟨_, _, _, _, _, _, _, _, _, _, _, _, _, _, _, _, _, _, _, _, _, _, _, _, _, _, _,
      _, _, _, hx, _⟩ :=
    cli_round_trip toyLs .top (fl := toyFl) (fl2 := toyFl2) (e1 := toyE1) (e2 := toyE2)
      ⟨rfl, rfl, rfl, rfl, rfl⟩ (patchTwin_with ⟨rfl, rfl, rfl, rfl, rfl⟩ "" 2 (.inr rfl))
      (by decide)
      (congrArg Except.ok (by decide : "B" = emitted (proc toyLs .top toyFl toyE1))) rfl (.inl rfl)
      (fun _ b r => r = b)
      (fun opts _ _ a b fmt _ _ _ _ _ _ => toy_libRoundTrip fmt _ opts a b)
  exact hx

end Toy

namespace NativeExample
open Jd.Spec Jd.DPL Jd.NativeRT Jd.E2E Jd.E2E.Example

/-- the option list of a plain `jd a b`: the Precision option with the default +0.0 -/
def o0 : List Opt := [Opt.prec 0]
/-- the two input files -/
def taE : String := "{\"k\":[true,null,[\"x\"]]}"
def tbE : String := "{\"k\":[false,null,[\"x\",\"y\"]],\"n\":null}"

theorem read_a : readJsonM exCodec taE = .ok exA := by
  simp [taE, exA, readJsonM, trimGoSpace, parseJson, parseValue, skipWs, isJsonWs, parseElems,
    parseMembers, lexString, ainsert]

theorem read_b : readJsonM exCodec tbE = .ok exB := by
  simp [tbE, exB, readJsonM, trimGoSpace, parseJson, parseValue, skipWs, isJsonWs, parseElems,
    parseMembers, lexString, ainsert]

theorem k1 : hashCode o0 (.bool true) = 2079635739932584740 := by decide +kernel
theorem k2 : hashCode o0 .null = 3942432649579961653 := by decide +kernel
theorem k3 : hashCode o0 (.arr .raw [.str "x"]) = 3137035804415266084 := by decide +kernel
theorem k4 : hashCode o0 (.bool false) = 13771864770451290310 := by decide +kernel
theorem k5 : hashCode o0 (.arr .raw [.str "x", .str "y"]) = 1797125989231641989 := by
  decide +kernel
theorem k6 : hashCode o0 (.str "x") = 12638214688346347271 := by decide +kernel
theorem k7 : hashCode o0 (.str "y") = 12638213588834719060 := by decide +kernel

theorem ex_diff0 : diffM o0 exA exB =
    [ { path := [.key "k", .idx 0], before := [.void], remove := [.bool true], add := [.bool false],
        after := [.null] },
      { path := [.key "k", .idx 2, .idx 1], before := [.str "x"], remove := [], add := [.str "y"],
        after := [.void] },
      { path := [.key "n"], add := [.null] } ] := by
  unfold diffM exA exB
  rw [show isMerge o0 = false from rfl, diffNode_obj_obj]
  have raw_raw : ∀ xs ys p, diffNode o0 false (.arr .raw xs) (.arr .raw ys) p =
      diffRest o0 p 0 0 .void xs ys (lcsValues (hashList o0 xs) (hashList o0 ys)) [] [] :=
    fun xs ys p => diffNode_arr_arr (o := o0) rfl xs ys rfl rfl (.inl rfl) p
  simp [diffKvs_cons, diffKvs_nil, alookup, diffRest_cons, atC, k1, k2, k3, k4, k5, k6, k7,
    sameContainerType, Json.dispatch, accHunk, diffRest_nilA, raw_raw, hashList,
    lcsValues, lcsRows, lcsRow, lcsRowGo, lcsBack, Json.nodeList, Json.isVoid, subAfter]

/-- the text `jd a.json b.json` prints -/
def exText : String :=
  unlines ["@ [\"k\",0]", "[", "- true", "+ false", "  null",
    "@ [\"k\",2,1]", "  \"x\"", "+ \"y\"", "]", "@ [\"n\"]", "+ null"]

theorem ex_text : renderM exCodec [] (diffM o0 exA exB) = some exText := by
  rw [ex_diff0, renderM_lines]
  simp [exText, diffLines, hunkLines, optAll, jsonM, pathToJson, rawNorm, rawNormList, jsonText,
    jsonTextList, fmt_zero, fmt_two, exCodec_fmt_one, String.intercalate_singleton,
    String.intercalate_cons_cons, ctxLine, NativeRT.remLines, NativeRT.addLines, remLine, addLine,
    marshalNode, quoteString, escapeBody, escapeChar, Json.isVoid]

set_option linter.unusedSimpArgs false in
theorem ex_paths0 : ∀ h ∈ diffM o0 exA exB,
    (jsonM exCodec (pathToJson h.path)).isSome = true ∧ PathOK exCodec h.path := by
  intro h hh
  rw [ex_diff0] at hh
  simp only [List.mem_cons, List.not_mem_nil, or_false] at hh
  rcases hh with rfl | rfl | rfl
  · path_ok "[\"k\",0]"
  · path_ok "[\"k\",2,1]"
  · path_ok "[\"n\"]"

set_option maxRecDepth 8000 in
theorem ex_hash0 (L : FloatLaws) : HashOK o0 exA exB ∧ ZeroOK exA exB := by
  refine ⟨?_, (ex_hash L).2⟩
  intro x hx y hy h
  simp only [exA, exB, subterms, subtermsList, subtermsKvs, List.cons_append, List.nil_append,
    List.append_nil, List.mem_cons, List.not_mem_nil, or_false] at hx hy
  have g1 : Good (Json.str "x") := ⟨by decide, by decide, by decide, by decide⟩
  have g2 : Good Json.null := ⟨by decide, by decide, by decide, by decide⟩
  rcases hx with rfl | rfl | rfl | rfl | rfl | rfl <;>
    rcases hy with rfl | rfl | rfl | rfl | rfl | rfl | rfl | rfl <;>
    first
      | exact specEq_refl L g1
      | exact specEq_refl L g2
      | exact absurd h (by decide +kernel)

/-- `jd a.json b.json` -/
def fl1 : Flags := { nargs := 2 }
/-- `jd -p -o out.json T a.json` -/
def fl2 : Flags := { fl1 with p := true, o := "out.json" }
def noYaml : YamlCarrier := { read := fun _ => .error "no yaml", render := fun _ _ => "" }
def Ls : Bool → LibPack := fun _ => ⟨Json, Diff, nativeLib exCodec noYaml⟩
def e1 : Env := { in1 := .ok taE, in2 := .ok tbE }
/-- the second run: FILE1 holds what the first run printed, FILE2 is `a.json` -/
def e2 : Env := { in1 := .ok (emitted (proc Ls .v2jd fl1 e1)), in2 := .ok taE }

/-- **`native_cli_round_trip` on a concrete pair of files**: every hypothesis is discharged (only
    the IEEE laws `FloatLaws` remain): `jd a.json b.json` exits 1 and prints the text `T` of the
    diff, and `jd -p -o out.json T a.json` exits 0, prints nothing and writes to `out.json` the JSON
    text of a document that `Equals` `b.json`. -/
theorem ex_cli_end_to_end (L : FloatLaws) :
    ∃ T r, T = exText ∧
      (proc Ls .v2jd fl1 e1).stdout = T ∧ (proc Ls .v2jd fl1 e1).exit = 1 ∧
      specEq r exB = true ∧ equals o0 r exB = true ∧
      (proc Ls .v2jd fl2 e2).exit = 0 ∧ (proc Ls .v2jd fl2 e2).stdout = "" ∧
      (proc Ls .v2jd fl2 e2).outfile = some ((jsonM exCodec r).getD "") := by
  obtain ⟨a1, a2, a3, a4, b1, b2, b3, b4, va, vb, lb⟩ := dom
  obtain ⟨H, Z⟩ := ex_hash0 L
  have hdm : isDiffMode fl1 := ⟨rfl, rfl, rfl, rfl, rfl⟩
  obtain ⟨T, d', r, c1, c2, c3, c3a, c3b, c4, c5, c6, c7, c8, c9, c10, c11, c12, c13, c14⟩ :=
    native_cli_round_trip L exCodec noYaml Ls rfl .v2jd (fl := fl1) (fl2 := fl2) (e1 := e1)
      (e2 := e2) hdm (patchTwin_with hdm "out.json" 2 (.inr rfl)) rfl rfl rfl rfl rfl rfl
      (.inr rfl) (ta := taE) (tb := tbE) (a := exA) (b' := exB) rfl rfl (.inl rfl)
      (by rw [show fl1.yaml = false from rfl, nativeLib_readDoc_json, read_a]; rfl)
      (by rw [show fl1.yaml = false from rfl, nativeLib_readDoc_json, read_b]; rfl)
      a1 a2 a3 b1 b2 b3 H Z va vb lb ex_vals ex_paths0 rfl rfl (.inr rfl)
  have hT : T = exText := by
    have := c1.symm.trans ex_text
    exact Option.some.inj this
  subst hT
  have hstd : (proc Ls .v2jd fl1 e1).stdout = exText := (c3a rfl).1
  refine ⟨exText, r, rfl, hstd, ?_, c6, (c9 (PrecMono.of_noPrecision rfl)).2, c10,
    (c14 (by decide)).1, ?_⟩
  · rw [c3]; decide
  · rw [(c14 (by decide)).2]; rfl

end NativeExample

/-! ## 9. COUNTER-WITNESS: `-color` breaks the round trip

  `-color` is in the flag set of the property.  The diff run hands COLOR to `Render` (jd format),
  the `-p` run ignores `-color` and reads with `ReadDiffString`, which rejects the ANSI escapes.
  Option list, library and reader are the same in both runs (`plans_agree`): the CLI is consistent,
  but the text it prints with `-color` is not input for `jd -p`.  Checked on the real binary
  (v2/jd): `jd -color a b > T` exits 1, `jd -p -color T a` exits 2 "invalid diff at line 2". -/

/-- a `-p` run whose diff reader rejects the first input: the run ends with that error -/
theorem run_patch_reader_rejects {b : Binary} {fl2 : Flags} {r : LibResults} {opts : List Opt}
    {fmt : Format} {m : String}
    (hv : fl2.version = false) (hp : fl2.port = 0) (hg : fl2.gitDiffDriver = false)
    (hpp : fl2.p = true) (ht : fl2.t = "") (hn : fl2.nargs = 1 ∨ fl2.nargs = 2)
    (ho : parsedOptions b fl2 = .ok opts) (hf : formatOf fl2.f = some fmt)
    (h1 : r.file1 = .ok ()) (h2 : r.file2 = .ok ()) (h3 : r.readDiff = .error m) :
    run b fl2 r = .error (.msg m) := by
  have hmode : modeOf fl2 = .patch := by simp [modeOf, hpp, ht]
  have hpc : patchCore fl2 r = .error (.msg m) := by simp [patchCore, hf, h3]
  have hri : readInputs [Src.arg 0, if fl2.nargs = 1 then Src.stdin else Src.arg 1] r = .ok () := by
    simp [readInputs, h1, h2]
  unfold run
  simp [hv, hp, ho, hg, ht, inputsOf_of_nargs ht hn, hri, hmode, hpc]

theorem nativeLib_renderJd_color (nc : NumCodec) (Y : YamlCarrier) (d : Diff) :
    (nativeLib nc Y).renderJd true d = (renderM nc [Opt.color] d).getD "" := rfl

namespace ColorWitness
open Jd.Spec Jd.DPL Jd.NativeRT Jd.E2E Jd.E2E.Example NativeExample

def cA : Json := .obj [("a", .str "ab")]
def cB : Json := .obj [("a", .str "ac")]
def tcA : String := "{\"a\":\"ab\"}"
def tcB : String := "{\"a\":\"ac\"}"

theorem read_cA : readJsonM exCodec tcA = .ok cA := by
  simp [tcA, cA, readJsonM, trimGoSpace, parseJson, parseValue, skipWs, isJsonWs,
    parseMembers, lexString, ainsert]
theorem read_cB : readJsonM exCodec tcB = .ok cB := by
  simp [tcB, cB, readJsonM, trimGoSpace, parseJson, parseValue, skipWs, isJsonWs,
    parseMembers, lexString, ainsert]

def cDiff : Diff := [ { path := [.key "a"], remove := [.str "ab"], add := [.str "ac"] } ]

theorem c_diff : diffM o0 cA cB = cDiff := by
  unfold diffM cA cB
  rw [show isMerge o0 = false from rfl, diffNode_obj_obj]
  simp [diffKvs_cons, diffKvs_nil, alookup, cDiff]
  rw [diffNode_scalar _ _ _ (by simp) (by simp)]
  simp [diffCommon, equals, Json.nodeList, Json.isVoid]

def cText : String :=
  unlines ["@ [\"a\"]", "- \"a\x1b[31mb\x1b[0m\"", "+ \"a\x1b[32mc\x1b[0m\""]

theorem c_render : renderM exCodec [Opt.color] cDiff = some cText := by
  simp [renderM, cDiff, renderHunk, optAll, isColor, isMerge, jsonM, pathToJson, rawNorm, rawNormList,
    jsonText, jsonTextList, String.intercalate_singleton, quoteString, escapeBody, escapeChar,
    lcsValues, lcsRows, lcsRow, lcsRowGo, lcsBack, colorStringMarshal, colorStringMarshal.go,
    Json.isVoid, colorRed, colorGreen, colorDefault, cText, unlines]

theorem read_path_a : readJsonM exCodec " [\"a\"]" = .ok (.arr .raw [.str "a"]) := by
  simp [readJsonM, trimGoSpace, parseJson, parseValue, skipWs, isJsonWs, parseElems, lexString]

theorem read_colored : readJsonM exCodec " \"a\x1b[31mb\x1b[0m\"" = .err := by
  simp [readJsonM, trimGoSpace, parseJson, parseValue, skipWs, isJsonWs, lexString]

theorem c_read : readDiffM exCodec cText = .err := by
  unfold readDiffM
  rw [cText, unlines, splitOn_unlines _ (by simp)]
  have e1 : newPathM (.arr .raw [.str "a"]) = .ok [.key "a"] := by
    simp [newPathM, newPathM.go]
  have s1 : readLine exCodec {} "@ [\"a\"]" =
      .ok { st := .at, cur := { path := [.key "a"] }, out := [] } := by
    simp [readLine, readerAllows, readerFlushes, tableLookup, Gen.readerAllow, Gen.readerFlush,
      RState.name, read_path_a, e1]
  have s2 : readLine exCodec { st := .at, cur := { path := [.key "a"] }, out := [] }
      "- \"a\x1b[31mb\x1b[0m\"" = .err := by
    simp [readLine, readerAllows, tableLookup, Gen.readerAllow, RState.name, read_colored]
  simp [readLines, s1, s2]


/-- `jd -color a.json b.json` -/
def flc : Flags := { color := true, nargs := 2 }
/-- `jd -p -color T a.json` -/
def flc2 : Flags := { flc with p := true }
def ec1 : Env := { in1 := .ok tcA, in2 := .ok tcB }
def ec2 : Env := { in1 := .ok cText, in2 := .ok tcA }

theorem flc_opts : parsedOptions .v2jd flc = .ok o0 := rfl

theorem read_doc_cA : (nativeLib exCodec noYaml).readDoc flc.yaml tcA = .ok cA := by
  rw [show flc.yaml = false from rfl, nativeLib_readDoc_json, read_cA]; rfl
theorem read_doc_cB : (nativeLib exCodec noYaml).readDoc flc.yaml tcB = .ok cB := by
  rw [show flc.yaml = false from rfl, nativeLib_readDoc_json, read_cB]; rfl

/-- what the library returns for the first run -/
def R1 : LibResults := resultsDiff (nativeLib exCodec noYaml) o0 true flc ec1
/-- what the library returns for the second run -/
def R2 : LibResults := resultsPatch (nativeLib exCodec noYaml) o0 flc2 ec2

theorem R1_rendering : libRendering flc R1 = some cText := by
  have hf : formatOf flc.f = some .jd := rfl
  simp [R1, libRendering, hf, resultsDiff, ec1, read_doc_cA, read_doc_cB, nativeLib_renderJd_color,
    nativeLib_diff, c_diff, c_render]

/-- **the library round trip fails with COLOR** (model of the v2 library, codec `exCodec`) -/
theorem color_no_libRoundTrip :
    ¬ LibRoundTrip (nativeLib exCodec noYaml) .jd true o0 cA cB (fun _ => True) := by
  intro h
  obtain ⟨d', r, h1, _, _⟩ := h cText (by
    simp [renderAs, nativeLib_renderJd_color, nativeLib_diff, c_diff, c_render])
  rw [nativeLib_readDiff_jd, c_read] at h1
  cases h1

/-- **WITNESS (`-color`)**: `jd -color a.json b.json` with `{"a":"ab"}` / `{"a":"ac"}` exits 1 and
    prints the coloured text; `jd -p -color T a.json` — the same flags, the same library, the same
    option list — exits 2: the round trip of C14 fails for the flag `-color`. -/
theorem color_breaks_round_trip :
    isDiffMode flc ∧ PatchTwin flc flc2 ∧
    (proc NativeExample.Ls .v2jd flc ec1).exit = 1 ∧
    (proc NativeExample.Ls .v2jd flc ec1).stdout = cText ∧
    ec2.in1 = .ok (emitted (proc NativeExample.Ls .v2jd flc ec1)) ∧ ec2.in2 = ec1.in1 ∧
    (proc NativeExample.Ls .v2jd flc2 ec2).exit = 2 := by
  have hdm : isDiffMode flc := ⟨rfl, rfl, rfl, rfl, rfl⟩
  have htw : PatchTwin flc flc2 := patchTwin_with hdm "" 2 (.inr rfl)
  have hplan := planOf_diff_ok .v2jd hdm flc_opts (.inr rfl)
  have hp1 : proc NativeExample.Ls .v2jd flc ec1 = cliM .v2jd flc R1 :=
    proc_diff NativeExample.Ls .v2jd ec1 hplan
  have hp2 : proc NativeExample.Ls .v2jd flc2 ec2 = cliM .v2jd flc2 R2 :=
    proc_twin NativeExample.Ls .v2jd ec2 htw flc_opts
  have hrun1 : run .v2jd flc R1 = .ok ⟨if haveDiff flc R1 cText then 1 else 0, cText, flc.o != ""⟩ :=
    run_diff_ok hdm (.inr rfl) flc_opts (by simp [R1, resultsDiff, ec1])
      (by simp [R1, resultsDiff, ec1]) (by simp [R1, resultsDiff, ec1, read_doc_cA])
      (by simp [R1, resultsDiff, ec1, read_doc_cB]) R1_rendering (.inl rfl)
  have hhd : haveDiff flc R1 cText = true := by
    have hf : formatOf flc.f = some .jd := rfl
    simp only [haveDiff, hf]
    decide
  rw [hhd] at hrun1
  have hf2 : formatOf flc2.f = some .jd := rfl
  have hrun2 : run .v2jd flc2 R2 = .error (.msg "error") :=
    run_patch_reader_rejects (opts := o0) (fmt := .jd) htw.version htw.port htw.git htw.p htw.t
      htw.nargs rfl hf2 (by simp [R2, resultsPatch, ec2]) (by simp [R2, resultsPatch, ec2])
      (by simp [R2, resultsPatch, hf2, ec2, nativeLib_readDiff_jd, c_read, ofOutcome])
  have hout1 : cliM .v2jd flc R1 = ⟨1, cText, none, "", .none⟩ := by
    unfold cliM
    rw [hrun1]
    rfl
  refine ⟨hdm, htw, ?_, ?_, ?_, rfl, ?_⟩
  · rw [hp1, hout1]
  · rw [hp1, hout1]
  · rw [hp1, hout1]; rfl
  · rw [hp2]
    unfold cliM
    rw [hrun2]
    rfl

end ColorWitness

#print axioms parsedOptions_twin
#print axioms plans_agree
#print axioms core_round_trip
#print axioms cli_round_trip
#print axioms native_cli_round_trip
#print axioms NativeExample.ex_cli_end_to_end
#print axioms ColorWitness.color_no_libRoundTrip
#print axioms ColorWitness.color_breaks_round_trip

end Jd.CliRT
