/-
  JdProofs.V1MergeRender — property C18, JSON Merge Patch half (v1 library `lib/`):
  `Diff.RenderMerge` / `ReadMergeString` / `Patch` of the v1 library against RFC 7386.
  Namespace `Jd.V1M`. Everything is about the LIBRARY functions of the v1 model (`Jd.V1.diffM`,
  `Jd.V1.renderMergeDoc`, `Jd.V1.readMergeDoc`, `Jd.V1.patchM`, `Jd.V1.equals`) and the transcription
  of the RFC (`Jd.Spec.mergePatch`).

  STAGE REACHED: C (all three items, full nesting, no open goals).

  Domain
    * metadata `MergeMode m`: MERGE present, no SET, no MULTISET, precision 0 or absent (a `setkeys`
      metadata is allowed: alone it leaves arrays lists in v1). `MergeMode.single : MergeMode [.merge]`.
    * first document `a`: `rawDoc` (plain `jsonArray` nodes: what the readers produce), `wf` (sorted
      unique keys). `a` MAY contain nulls (they are overwritten or deleted, never kept). `a.wf` is
      needed already for the shape of the diff: on EQUAL lists the v1 merge diff still runs the
      positional loop of `jsonList.diff`, and the sub-diff of two equal objects is empty only for
      unique keys.
    * second document `b`: `rawDoc`, `wf`, `nullFree` (RFC 7386 cannot express "set to null": the
      domain of the property), `objVoidFree` (no void at the root / as a member: a reader never
      produces one), `finiteNums` + `FloatLaws` (reflexivity of `|x - y| ≤ 0` on copied numbers).
    * `V1.equals m a b = false` ("that differ"): for equal NON-object documents the empty diff
      renders to `{}` and `MergePatch(a, {})` is `{}`; not needed when `a` is an object (`…_obj`).
    NO hash hypothesis (list reading never hashes), no `IdxLaws` (merge hunks carry no indices).

  Main results
   (1) `v1_merge_render_correct` (and `…_obj`):
         ∃ p, V1.renderMergeDoc (liftDiff (V1.diffM m a b)) = .ok p ∧ p is not void, not null ∧
              specEq (mergePatch a p) b = true
       (`specEq` = `equivB []`: structural equality, ignoring only the Go dynamic type of array
       nodes; `renderMergeDoc` takes the diff lifted to `PDiff` by `liftDiff`, as in the model).
       `v1_renderMergeM_eq`: the text is the JSON encoding of that document.
   (2) `v1_merge_render_readback` (and `…_obj`): additionally `a.isObj ∨ b ≠ {}`; for the `p` of (1)
         V1.patchM a (V1.readMergeDoc p) = .ok r ∧ r = mergePatch a p ∧ V1.equals m r b = true ∧
         specEq r b = true ∧ r.listDoc = true.
       COUNTEREXAMPLE on the excluded pairs, `v1_witness_readback_nonobj_to_empty_object`: for EVERY
       non-object `a` (rawDoc, wf) and `b = {}` the documents differ, the rendered patch is `{}`,
       RFC 7386 gives `{}` = b, but `ReadMergeString("{}")` is the empty diff and `Patch` returns `a`
       unchanged: read-back does NOT yield `b`. Confirmed on the Go code (/repo/lib) for
       a = `1`, `[]` and b = `{}`: RenderMerge = "{}", ReadMergeString("{}") = empty diff,
       Patch result `1` / `[]`, `Equals(b)` false. (Class (a) of `Merge.Clean`, also in v2.)
   (3) `v1_read_apply_eq_v2` : `V1.patchM t (V1.readMergeDoc p) = patchAll true t (readMergeDoc p)`
       for ALL t, p (the v1 reader + v1 patch is the v2 reader + v2 patch: no hypothesis), hence
       `v1_merge_read_apply_iff` : for wf t, wf void-free p,
         V1.patchM t (V1.readMergeDoc p) = .ok (mergePatch t p) ↔ Merge.Clean t p = true
       (`v1_merge_read_apply`: the `←` direction; `v1_merge_read_apply_unclean`: outside `Clean` the
       results differ), with the three witness theorems `v1_witness_root_empty_object`,
       `v1_witness_nested_empty_object`, `v1_witness_root_null` for the excluded classes.

  NOT proved here: the TEXT round trip (`renderMergeM` then `readMergeM`: JSON encoding / parsing
  of the patch document) — (2) starts from the document `p`; SET / MULTISET + MERGE.

  Method: transfer to the pure functions of JdProofs/MergeProofs.lean.
    §1 one v1 merge hunk `{path = ["MERGE"] :: keys, new = [v]}` is `Merge.mset` (`patchNode_mm_kp`,
       through `patchCommon` / `patchEmptyObj` / `patchMissing` on key paths), so `patchM` on such
       hunks is `Merge.mapply` (`patchM_vh`);
    §2 the v1 reader is `Merge.rdInto` (`readMergeDoc_eq`);
    §3 in merge mode the v1 `Equals` is the v2 `Equals []` (`equals_eq`; the ListMode version of
       V1ListDiffPatch excludes MERGE, hence re-proved), `equals_dispatch`;
    §4 unfolding equations of `V1.diffNode … true`; equal documents have an EMPTY merge diff at any
       path (`empty_node`: the positional loop over equal lists produces nothing);
    §5 the v1 merge diff is `Merge.dl []` (`diffNode_eq_dl`, `diffM_eq_dl`);
    §6 `renderMergeDoc_diffM`; §7 (1) from `Merge.sound`; §8 (3);
    §9 the rendered patch is wf, void-free, a list document and `cleanIn a` (`xnode`, member by
       member through `Merge.mapply_groups`), and not `{}` for objects (`dl_nil_of_equivB`);
    §10 `mergePatch` keeps list documents; §11 (2) = (1) + (3) + §9 + §10.
-/
import JdModel
import JdSpec
import JdProofs.EqualsList
import JdProofs.Common
import JdProofs.MergeProofs
import JdProofs.V1ListDiffPatch

namespace Jd.V1M
open Jd Jd.Spec Jd.Merge

/-! ## 1. one v1 merge hunk is `mset` -/

/-- the metadata path element `["MERGE"]` -/
def mm : V1.PElem := .node V1.mergeMetaElem

/-- a path of object keys -/
def kp (ks : List String) : V1.PPath := ks.map (fun k => V1.PElem.node (.str k))

theorem kp_cons (k : String) (ks : List String) : kp (k :: ks) = .node (.str k) :: kp ks := rfl

theorem leaf_kp : ∀ ks : List String, V1.pathIsLeaf (kp ks) = ks.isEmpty
  | [] => rfl
  | [_] => rfl
  | _ :: _ :: _ => rfl

theorem leaf_mm_kp : ∀ ks : List String, V1.pathIsLeaf (mm :: kp ks) = ks.isEmpty
  | [] => rfl
  | _ :: _ => rfl

theorem next_kp (k : String) (ks : List String) :
    V1.pathNext (kp (k :: ks)) = (.node (.str k), [], kp ks) := rfl

theorem next_mm_kp (k : String) (ks : List String) :
    V1.pathNext (mm :: kp (k :: ks)) = (.node (.str k), [.merge], kp ks) := by
  simp [V1.pathNext, V1.pathNextAux, mm, V1.mergeMetaElem, kp, V1.metaOfItems]

theorem patchCommon_kp (n v : Json) :
    ∀ ks : List String, V1.patchCommon true n (kp ks) [] [v] = .ok (nest ks v)
  | [] => by
    rw [V1.patchCommon.eq_def]
    simp [kp, V1.pathIsLeaf, Json.singleValue, Json.isVoid, nest]
  | k :: rest => by
    rw [V1.patchCommon.eq_def]
    have ih := patchCommon_kp n v rest
    simp only [leaf_kp, List.isEmpty_cons, Bool.false_eq_true, dite_false, Bool.not_true]
    rw [next_kp]
    simp only [ih, leaf_kp]
    cases rest with
    | nil =>
      cases hv : v.isVoid <;> simp [nest, putKvs, hv, aerase, ainsert]
    | cons k' r' =>
      simp [nest, putKvs, Json.isVoid, ainsert]

theorem patchCommon_mm_kp (n v : Json) :
    ∀ ks : List String, V1.patchCommon true n (mm :: kp ks) [] [v] = .ok (nest ks v)
  | [] => by
    rw [V1.patchCommon.eq_def]
    simp [kp, mm, V1.mergeMetaElem, V1.pathIsLeaf, Json.singleValue, Json.isVoid, nest]
  | k :: rest => by
    rw [V1.patchCommon.eq_def]
    simp only [leaf_mm_kp, List.isEmpty_cons, Bool.false_eq_true, dite_false, Bool.not_true]
    rw [next_mm_kp]
    simp only [patchCommon_kp, leaf_kp]
    cases rest with
    | nil =>
      cases hv : v.isVoid <;> simp [nest, putKvs, hv, aerase, ainsert]
    | cons k' r' =>
      simp [nest, putKvs, Json.isVoid, ainsert]

/-- a freshly created empty object patched along a non-empty key path -/
theorem patchEmptyObj_kp (v : Json) :
    ∀ (k : String) (ks : List String),
      V1.patchEmptyObj true (kp (k :: ks)) [] [v] = .ok (nest (k :: ks) v)
  | k, [] => by
    rw [V1.patchEmptyObj.eq_def]
    simp only [leaf_kp, List.isEmpty_cons, Bool.false_eq_true, dite_false]
    rw [next_kp]
    simp only [V1.asKey, leaf_kp, List.isEmpty_nil, Bool.not_true, Bool.and_false,
      Bool.false_eq_true, if_false, patchCommon_kp]
    have : (kp [k]).isEmpty = false := rfl
    simp only [this, Bool.false_and, Bool.false_eq_true, if_false]
    cases hv : v.isVoid <;> simp [nest, putKvs, hv, aerase, ainsert]
  | k, k' :: r => by
    rw [V1.patchEmptyObj.eq_def]
    have ih := patchEmptyObj_kp v k' r
    simp only [leaf_kp, List.isEmpty_cons, Bool.false_eq_true, dite_false]
    rw [next_kp]
    have : (kp (k :: k' :: r)).isEmpty = false := rfl
    simp only [this, Bool.false_and, Bool.false_eq_true, if_false, V1.asKey, leaf_kp,
      List.isEmpty_cons, Bool.not_false, Bool.and_self, if_true, ih]
    simp [nest, putKvs, Json.isVoid, ainsert]

theorem patchMissing_kp (v : Json) (ks : List String) :
    V1.patchMissing true (kp ks) [] [v] = .ok (nest ks v) := by
  unfold V1.patchMissing
  cases ks with
  | nil => simp [leaf_kp, patchCommon_kp]
  | cons k r => simp [leaf_kp, patchEmptyObj_kp]

/-- one merge hunk along a key path (no metadata element: the recursive calls), as the v1 library
    applies it, is `Merge.mset` -/
theorem patchNode_kp (v : Json) :
    ∀ (ks : List String) (t : Json), V1.patchNode true t (kp ks) [] [v] = .ok (mset t ks v)
  | [], t => by
    rw [V1.patchNode.eq_def]
    cases t with
    | obj kvs => simp [kp, V1.pathIsLeaf, Json.singleValue, mset]
    | arr tg xs =>
      simp only [if_true]
      split <;> simpa [mset, nest] using patchCommon_kp _ v []
    | _ => simpa [mset, nest] using patchCommon_kp _ v []
  | k :: rest, t => by
    rw [V1.patchNode.eq_def]
    cases t with
    | obj kvs =>
      have he : (kp (k :: rest)).isEmpty = false := rfl
      simp only [he, Bool.false_and, Bool.false_eq_true, if_false, leaf_kp, List.isEmpty_cons,
        next_kp, V1.asKey]
      cases hl : alookup k kvs with
      | some c =>
        simp only [V1P.patchObjChild_eq true k _ _ _ kvs c hl, patchNode_kp v rest c,
          Outcome.bind_ok]
        simp only [mset, getK, hl, Option.getD_some, putKvs]
        split <;> rfl
      | none =>
        simp only [patchMissing_kp, Outcome.bind_ok]
        simp only [mset, getK, hl, Option.getD_none, putKvs, mset_void]
        split <;> rfl
    | arr tg xs =>
      simp only [if_true]
      split <;> simpa [mset] using patchCommon_kp _ v (k :: rest)
    | _ => simpa [mset] using patchCommon_kp _ v (k :: rest)

/-- one merge hunk `{path = ["MERGE"] :: keys, new = [v]}`, as the v1 library applies it -/
theorem patchNode_mm_kp (v : Json) :
    ∀ (ks : List String) (t : Json), V1.patchNode true t (mm :: kp ks) [] [v] = .ok (mset t ks v)
  | [], t => by
    rw [V1.patchNode.eq_def]
    cases t with
    | obj kvs => simp [kp, mm, V1.mergeMetaElem, V1.pathIsLeaf, Json.singleValue, mset]
    | arr tg xs =>
      simp only [if_true]
      split <;> simpa [mset, nest] using patchCommon_mm_kp _ v []
    | _ => simpa [mset, nest] using patchCommon_mm_kp _ v []
  | k :: rest, t => by
    rw [V1.patchNode.eq_def]
    cases t with
    | obj kvs =>
      have he : (mm :: kp (k :: rest)).isEmpty = false := rfl
      simp only [he, Bool.false_and, Bool.false_eq_true, if_false, leaf_mm_kp, List.isEmpty_cons,
        next_mm_kp, V1.asKey]
      cases hl : alookup k kvs with
      | some c =>
        simp only [V1P.patchObjChild_eq true k _ _ _ kvs c hl, patchNode_kp v rest c,
          Outcome.bind_ok]
        simp only [mset, getK, hl, Option.getD_some, putKvs]
        split <;> rfl
      | none =>
        simp only [patchMissing_kp, Outcome.bind_ok]
        simp only [mset, getK, hl, Option.getD_none, putKvs, mset_void]
        split <;> rfl
    | arr tg xs =>
      simp only [if_true]
      split <;> simpa [mset] using patchCommon_mm_kp _ v (k :: rest)
    | _ => simpa [mset] using patchCommon_mm_kp _ v (k :: rest)

/-- the v1 merge hunk with key path `ks` and value `v` -/
def vh (ks : List String) (v : Json) : V1.Hunk :=
  { path := V1.mergeMetaElem :: ks.map Json.str, old := [], new := [v] }

theorem vh_toP (ks : List String) (v : Json) :
    (vh ks v).toP = { path := mm :: kp ks, old := [], new := [v] } := by
  simp [vh, V1.Hunk.toP, V1.liftPath, mm, kp]

theorem pathIsMerge_mm (p : V1.PPath) : V1.pathIsMerge (mm :: p) = true := by
  simp [V1.pathIsMerge, mm, V1.mergeMetaElem]

theorem patchAllP_vh :
    ∀ (l : List (List String × Json)) (t : Json),
      V1.patchAllP t (V1.liftDiff (l.map (fun e => vh e.1 e.2))) = .ok (mapply l t)
  | [], t => by simp [V1.patchAllP, V1.liftDiff, mapply]
  | e :: l, t => by
    simp only [List.map_cons, V1.liftDiff, V1.patchAllP, vh_toP, pathIsMerge_mm, patchNode_mm_kp]
    exact patchAllP_vh l _

theorem patchM_vh (l : List (List String × Json)) (t : Json) :
    V1.patchM t (l.map (fun e => vh e.1 e.2)) = .ok (mapply l t) := patchAllP_vh l t

/-! ## 2. the v1 reader of merge patch documents, purely -/

mutual
theorem readMergeInto_eq : ∀ (p : Json) (q : List String),
    V1.readMergeInto (V1.mergeMetaElem :: q.map Json.str) p
      = (rdInto p).map (fun e => vh (q ++ e.1) e.2)
  | .obj kvs, q => by
    rw [V1.readMergeInto, rdInto]
    split
    · simp [vh]
    · exact readMergeKvs_eq kvs q
  | .void, q => by simp [V1.readMergeInto, rdInto]
  | .null, q => by simp [V1.readMergeInto, rdInto, vh]
  | .bool _, q => by simp [V1.readMergeInto, rdInto, vh]
  | .num _, q => by simp [V1.readMergeInto, rdInto, vh]
  | .str _, q => by simp [V1.readMergeInto, rdInto, vh]
  | .arr _ _, q => by simp [V1.readMergeInto, rdInto, vh]
theorem readMergeKvs_eq : ∀ (kvs : List (String × Json)) (q : List String),
    V1.readMergeKvs (V1.mergeMetaElem :: q.map Json.str) kvs
      = (rdKvs kvs).map (fun e => vh (q ++ e.1) e.2)
  | [], q => by simp [V1.readMergeKvs, rdKvs]
  | (k, v) :: r, q => by
    rw [V1.readMergeKvs, rdKvs, readMergeKvs_eq r q]
    have := readMergeInto_eq v (q ++ [k])
    rw [List.map_append, List.map_cons, List.map_nil] at this
    rw [List.cons_append, this]
    simp [consE, Function.comp_def]
end

theorem readMergeDoc_eq (p : Json) :
    V1.readMergeDoc p = if p.isObj && (objKvs p).isEmpty then []
      else (rdInto p).map (fun e => vh e.1 e.2) := by
  have := readMergeInto_eq p []
  simp only [List.map_nil, List.nil_append] at this
  unfold V1.readMergeDoc
  cases p with
  | obj kvs =>
    cases kvs with
    | nil => simp [Json.isObj, objKvs]
    | cons kv r => simp only [this]; simp [Json.isObj, objKvs]
  | _ => simp only [this]; simp [Json.isObj]

/-! ## 3. merge mode with the list reading of arrays; the v1 `Equals` there -/

/-- the metadata of the theorems: MERGE, no SET, no MULTISET, precision 0 or absent (a `setkeys`
    metadata is allowed: alone it leaves arrays as lists in v1) -/
structure MergeMode (m : V1.Metas) : Prop where
  merge : V1.hasMerge m = true
  noSet : V1.hasSet m = false
  noMset : V1.hasMset m = false
  prec0 : V1.precOf m = 0

theorem MergeMode.single : MergeMode [.merge] := ⟨rfl, rfl, rfl, rfl⟩

theorem MergeMode.tag {m : V1.Metas} (hm : MergeMode m) : V1.dispatchTag m = .list := by
  simp [V1.dispatchTag, hm.noSet, hm.noMset]

abbrev okTag (t : Tag) : Prop := (t == .raw || t == .list) = true

theorem effTag_ok {m : V1.Metas} (hm : MergeMode m) {t : Tag} (ht : okTag t) :
    V1.effTag m t = .list := by
  cases t <;> simp_all [V1.effTag, hm.tag, okTag]

theorem dispatch_listDoc {m : V1.Metas} (hm : MergeMode m) {b : Json} (hb : b.listDoc = true) :
    (V1.dispatch m b).listDoc = true := by
  cases b with
  | arr t ys => cases t <;> simp_all [V1.dispatch, hm.tag, Json.listDoc]
  | _ => simpa [V1.dispatch] using hb

theorem dispatch_idem {m : V1.Metas} (hm : MergeMode m) (b : Json) :
    V1.dispatch m (V1.dispatch m b) = V1.dispatch m b := by
  cases b with
  | arr t ys => cases t <;> simp [V1.dispatch, hm.tag]
  | _ => rfl

theorem equals_arr {m : V1.Metas} (hm : MergeMode m) {t : Tag} (ht : okTag t) (xs : List Json)
    (b : Json) :
    V1.equals m (.arr t xs) b =
      match b with
      | .arr .raw ys => V1.equalsList m xs ys
      | .arr .list ys => V1.equalsList m xs ys
      | _ => false := by
  rw [V1.equals.eq_def]
  simp only [effTag_ok hm ht]
  cases b with
  | arr t' ys => cases t' <;> simp [V1.dispatch, hm.tag]
  | _ => simp [V1.dispatch]

mutual
/-- in merge mode with the list reading the v1 `Equals` is the v2 `Equals` without options -/
theorem equals_eq {m : V1.Metas} (hm : MergeMode m) :
    ∀ (a b : Json), a.listDoc = true → V1.equals m a b = equals [] a b
  | .void, b, _ => by simp [V1.equals, equals]
  | .null, b, _ => by simp [V1.equals, equals]
  | .bool x, b, _ => by cases b <;> simp [V1.equals, equals]
  | .num x, b, _ => by cases b <;> simp [V1.equals, equals, hm.prec0, precOf]
  | .str x, b, _ => by cases b <;> simp [V1.equals, equals]
  | .arr t xs, b, ha => by
    simp only [Json.listDoc, Bool.and_eq_true] at ha
    rw [equals_arr hm ha.1, V1P.v2_equals_arr ha.1]
    cases b with
    | arr t' ys => cases t' <;> simp [equalsList_eq hm xs ys ha.2]
    | _ => rfl
  | .obj kvs, b, ha => by
    simp only [Json.listDoc] at ha
    cases b with
    | obj kvs' => simp [V1.equals, equals, equalsKvs_eq hm kvs kvs' ha]
    | _ => simp [V1.equals, equals]
theorem equalsList_eq {m : V1.Metas} (hm : MergeMode m) :
    ∀ (xs ys : List Json), listDocList xs = true → V1.equalsList m xs ys = equalsList [] xs ys
  | [], ys, _ => by cases ys <;> simp [V1.equalsList, equalsList]
  | x :: xs, [], _ => by simp [V1.equalsList, equalsList]
  | x :: xs, y :: ys, ha => by
    simp only [listDocList, Bool.and_eq_true] at ha
    simp [V1.equalsList, equalsList, equals_eq hm x y ha.1, equalsList_eq hm xs ys ha.2]
theorem equalsKvs_eq {m : V1.Metas} (hm : MergeMode m) :
    ∀ (kvs kvs' : List (String × Json)), listDocKvs kvs = true →
      V1.equalsKvs m kvs kvs' = equalsKvs [] kvs kvs'
  | [], _, _ => by simp [V1.equalsKvs, equalsKvs]
  | (k, v) :: r, kvs', ha => by
    simp only [listDocKvs, Bool.and_eq_true] at ha
    rw [V1.equalsKvs, equalsKvs, equalsKvs_eq hm r kvs' ha.2]
    cases hl : alookup k kvs' with
    | none => rfl
    | some v' => simp [equals_eq hm v v' ha.1]
end

/-- the v1 `Equals` in merge mode decides structural equality (`specEq`, array tags ignored) -/
theorem equals_eq_specEq {m : V1.Metas} (hm : MergeMode m) {a b : Json}
    (ha : a.listDoc = true) (hb : b.listDoc = true) : V1.equals m a b = specEq a b := by
  rw [equals_eq hm a b ha, specEq, equals_eq_equivB_list [] rfl a b ha hb]

theorem equals_dispatch {m : V1.Metas} (hm : MergeMode m) (x y : Json) :
    V1.equals m x (V1.dispatch m y) = V1.equals m x y := by
  cases x with
  | arr t xs => rw [V1.equals.eq_def, V1.equals.eq_def]; simp only [dispatch_idem hm]
  | obj kvs =>
    cases y with
    | arr t ys => cases t <;> simp [V1.dispatch, V1.equals]
    | _ => rfl
  | _ =>
    cases y with
    | arr t ys => cases t <;> simp [V1.dispatch, V1.equals, Json.isVoid, Json.isNull]
    | _ => rfl

/-! ## 4. unfolding equations of the v1 diff, merge strategy, list reading -/

/-- the hunk that replaces the value at `p` wholesale -/
def whole (p : List Json) (b : Json) : V1.Hunk := { path := V1.prependMerge p, old := [], new := [b] }

theorem diffNode_arr_arr {m : V1.Metas} (hm : MergeMode m) {t' : Tag} (xs ys : List Json)
    (ht' : okTag t') (p : List Json) :
    V1.diffNode m true (.arr .raw xs) (.arr t' ys) p =
      if V1.equalsList m xs ys then
        (if xs.length < ys.length then
          (V1.diffElems m true p 0 ys xs).flatten ++ (ys.drop xs.length).map (fun y =>
            { path := p ++ [V1.numNeg1], old := [], new := y.nodeList })
        else
          ((xs.drop ys.length).zipIdx ys.length).reverse.map (fun xi =>
            { path := p ++ [V1.numOfNat xi.2], old := xi.1.nodeList, new := [] }) ++
          (V1.diffElems m true p 0 ys xs).reverse.flatten)
      else [whole p (.arr .list ys)] := by
  rw [V1.diffNode.eq_def]
  have he : V1.equals m (.arr .list xs) (.arr .list ys) = V1.equalsList m xs ys := by
    rw [equals_arr hm (t := .list) rfl]
  have hd : V1.dispatch m (.arr t' ys) = .arr .list ys := by
    cases t' <;> simp_all [V1.dispatch, hm.tag, okTag]
  simp only [effTag_ok hm (t := .raw) rfl, beq_self_eq_true, if_true, hd, he, Bool.true_and]
  cases V1.equalsList m xs ys <;> simp [whole, Json.nodeList, Json.isVoid]

theorem diffNode_arr_other {m : V1.Metas} (hm : MergeMode m) (xs : List Json) (b : Json)
    (hb : ∀ t' ys, b ≠ .arr t' ys) (p : List Json) :
    V1.diffNode m true (.arr .raw xs) b p = [whole p b] := by
  rw [V1.diffNode.eq_def]
  simp only [effTag_ok hm (t := .raw) rfl]
  cases b <;> simp_all [V1.dispatch, whole]

theorem diffNode_obj_obj (m : V1.Metas) (kvs kvs' : List (String × Json)) (p : List Json) :
    V1.diffNode m true (.obj kvs) (.obj kvs') p =
      V1.diffKvs m true p kvs' kvs ++
        (kvs'.filter (fun kv => (alookup kv.1 kvs).isNone)).map (fun kv =>
          { path := V1.prependMerge (p ++ [.str kv.1]), old := [], new := kv.2.nodeList }) := by
  rw [V1.diffNode.eq_def]
  simp

theorem diffNode_obj_other (m : V1.Metas) (kvs : List (String × Json)) (b : Json)
    (hb : ∀ kvs', b ≠ .obj kvs') (p : List Json) :
    V1.diffNode m true (.obj kvs) b p = [whole p b] := by
  rw [V1.diffNode.eq_def]
  cases b <;> simp_all [whole]

theorem diffNode_scalar (m : V1.Metas) (a b : Json) (ha : ∀ t xs, a ≠ .arr t xs)
    (ha' : ∀ kvs, a ≠ .obj kvs) (p : List Json) :
    V1.diffNode m true a b p = if V1.equals m a b then [] else [whole p b] := by
  rw [V1.diffNode.eq_def]
  cases a <;> simp_all [V1.diffCommon, whole]

theorem diffKvs_nil (m : V1.Metas) (p : List Json) (kvs' : List (String × Json)) :
    V1.diffKvs m true p kvs' [] = [] := by
  rw [V1.diffKvs.eq_def]

theorem diffKvs_cons (m : V1.Metas) (p : List Json) (kvs' : List (String × Json)) (k : String)
    (v : Json) (r : List (String × Json)) :
    V1.diffKvs m true p kvs' ((k, v) :: r) =
      (match alookup k kvs' with
       | some v' => V1.diffNode m true v v' (p ++ [.str k])
       | none => [whole (p ++ [.str k]) .void]) ++
        V1.diffKvs m true p kvs' r := by
  rw [V1.diffKvs.eq_def]
  simp only [if_true, whole]
  rfl

theorem diffElems_nil (m : V1.Metas) (p : List Json) (i : Nat) (ys : List Json) :
    V1.diffElems m true p i ys [] = [] := by
  rw [V1.diffElems.eq_def]

theorem diffElems_cons (m : V1.Metas) (p : List Json) (i : Nat) (x y : Json) (xs ys : List Json) :
    V1.diffElems m true p i (y :: ys) (x :: xs) =
      V1.diffNode m true x (V1.dispatch m y) (p ++ [V1.numOfNat i]) ::
        V1.diffElems m true p (i + 1) ys xs := by
  rw [V1.diffElems.eq_def]

/-! ### equal documents have an empty merge diff (whatever the path) -/

mutual
theorem empty_node {m : V1.Metas} (hm : MergeMode m) :
    ∀ (a b : Json) (p : List Json), a.rawDoc = true → a.wf = true → b.listDoc = true →
      b.wf = true → V1.equals m a b = true → V1.diffNode m true a b p = []
  | .arr t xs, b, p, hr, hw, hl, hwb, he => by
    simp only [Json.rawDoc, Bool.and_eq_true, beq_iff_eq] at hr
    obtain ⟨rfl, hrx⟩ := hr
    rw [equals_arr hm (t := .raw) rfl] at he
    cases b with
    | arr t' ys =>
      simp only [Json.listDoc, Bool.and_eq_true] at hl
      simp only [Json.wf] at hw hwb
      have he' : V1.equalsList m xs ys = true := by cases t' <;> simp_all
      rw [diffNode_arr_arr hm xs ys hl.1, he', if_pos rfl]
      have hlen := V1P.v1_equalsList_length m xs ys he'
      rw [if_neg (by omega), List.drop_of_length_le (by omega)]
      simp only [List.zipIdx_nil, List.reverse_nil, List.map_nil, List.nil_append]
      exact List.flatten_eq_nil_iff.2 (fun d hd =>
        empty_elems hm xs ys p 0 hrx hw hl.2 hwb he' d (List.mem_reverse.1 hd))
    | _ => simp at he
  | .obj kvs, b, p, hr, hw, hl, hwb, he => by
    cases b with
    | obj kvs' =>
      simp only [Json.rawDoc] at hr
      simp only [Json.listDoc] at hl
      simp only [Json.wf, Bool.and_eq_true] at hw hwb
      simp only [V1.equals, Bool.and_eq_true, beq_iff_eq] at he
      rw [diffNode_obj_obj, empty_kvs hm kvs kvs' p hr hw.2 hl hwb.2 he.2, List.nil_append,
        List.map_eq_nil_iff, V1P.filter_isNone_eq_nil_iff]
      exact subset_of_nodup_subset_length _ _ (keysSorted_nodup hw.1)
        (V1P.v1_equalsKvs_keys m kvs' kvs he.2) (by simp [he.1])
    | _ => simp [V1.equals] at he
  | .void, b, p, _, _, _, _, he => by
    rw [diffNode_scalar m _ b (by simp) (by simp), he]; rfl
  | .null, b, p, _, _, _, _, he => by
    rw [diffNode_scalar m _ b (by simp) (by simp), he]; rfl
  | .bool _, b, p, _, _, _, _, he => by
    rw [diffNode_scalar m _ b (by simp) (by simp), he]; rfl
  | .num _, b, p, _, _, _, _, he => by
    rw [diffNode_scalar m _ b (by simp) (by simp), he]; rfl
  | .str _, b, p, _, _, _, _, he => by
    rw [diffNode_scalar m _ b (by simp) (by simp), he]; rfl
theorem empty_kvs {m : V1.Metas} (hm : MergeMode m) :
    ∀ (kvs kvs' : List (String × Json)) (p : List Json), rawDocKvs kvs = true → wfKvs kvs = true →
      listDocKvs kvs' = true → wfKvs kvs' = true → V1.equalsKvs m kvs kvs' = true →
      V1.diffKvs m true p kvs' kvs = []
  | [], kvs', p, _, _, _, _, _ => diffKvs_nil m p kvs'
  | (k, v) :: r, kvs', p, hr, hw, hl, hwb, he => by
    simp only [rawDocKvs, wfKvs, Bool.and_eq_true] at hr hw
    rw [V1.equalsKvs, Bool.and_eq_true] at he
    rw [diffKvs_cons, empty_kvs hm r kvs' p hr.2 hw.2 hl hwb he.2, List.append_nil]
    cases hlk : alookup k kvs' with
    | none => rw [hlk] at he; simp at he
    | some v' =>
      rw [hlk] at he
      exact empty_node hm v v' _ hr.1 hw.1 (alookup_listDoc hlk hl) (alookup_wf hlk hwb) he.1
theorem empty_elems {m : V1.Metas} (hm : MergeMode m) :
    ∀ (xs ys : List Json) (p : List Json) (i : Nat), rawDocList xs = true → wfList xs = true →
      listDocList ys = true → wfList ys = true → V1.equalsList m xs ys = true →
      ∀ d ∈ V1.diffElems m true p i ys xs, d = []
  | [], ys, p, i, _, _, _, _, _ => by simp [diffElems_nil]
  | x :: xs, [], p, i, _, _, _, _, he => by simp [V1.equalsList] at he
  | x :: xs, y :: ys, p, i, hr, hw, hl, hwb, he => by
    simp only [rawDocList, wfList, listDocList, Bool.and_eq_true] at hr hw hl hwb
    simp only [V1.equalsList, Bool.and_eq_true] at he
    rw [diffElems_cons, List.forall_mem_cons]
    refine ⟨?_, empty_elems hm xs ys p (i + 1) hr.2 hw.2 hl.2 hwb.2 he.2⟩
    exact empty_node hm x (V1.dispatch m y) _ hr.1 hw.1 (dispatch_listDoc hm hl.1)
      (by rw [V1P.dispatch_wf]; exact hwb.1) (by rw [equals_dispatch hm]; exact he.1)
end

/-! ## 5. the v1 merge diff is the pure merge diff `Merge.dl` (the one of the v2 proofs) -/

theorem prependMerge_keys (q : List String) :
    V1.prependMerge (q.map Json.str) = V1.mergeMetaElem :: q.map Json.str := by
  cases q <;> rfl

theorem whole_keys (q : List String) (b : Json) : whole (q.map Json.str) b = vh q b := by
  simp [whole, vh, prependMerge_keys]

theorem whole_keys_snoc (q : List String) (k : String) (b : Json) :
    whole (q.map Json.str ++ [.str k]) b = vh (q ++ [k]) b := by
  rw [← whole_keys]; simp

theorem additions_eq (q : List String) (kvs : List (String × Json)) :
    ∀ (kvs' : List (String × Json)), objVoidFreeKvs kvs' = true →
      (kvs'.filter (fun kv => (alookup kv.1 kvs).isNone)).map (fun kv =>
          ({ path := V1.prependMerge (q.map Json.str ++ [.str kv.1]), old := [],
             new := kv.2.nodeList } : V1.Hunk))
        = ((kvs'.filter (fun kv => (alookup kv.1 kvs).isNone)).map
            (fun kv => ([kv.1], kv.2))).map (fun e => vh (q ++ e.1) e.2)
  | [], _ => rfl
  | (k, v) :: r, h => by
    simp only [objVoidFreeKvs, Bool.and_eq_true] at h
    have ih := additions_eq q kvs r h.2
    simp only [List.filter_cons]
    split
    · simp only [List.map_cons, ih, nodeList_of_objVoidFree h.1]
      have := whole_keys_snoc q k v
      simp only [whole] at this
      rw [this]
    · exact ih

mutual
theorem diffNode_eq_dl {m : V1.Metas} (hm : MergeMode m) :
    ∀ (a b : Json) (q : List String), a.rawDoc = true → a.wf = true → b.listDoc = true →
      b.wf = true → objVoidFree b = true →
      V1.diffNode m true a b (q.map Json.str) = (dl [] a b).map (fun e => vh (q ++ e.1) e.2)
  | .obj kvs, b, q, ha, haw, hb, hbw, hv => by
    cases b with
    | obj kvs' =>
      simp only [Json.rawDoc, Json.listDoc, objVoidFree] at ha hb hv
      simp only [Json.wf, Bool.and_eq_true] at haw hbw
      simp only [diffNode_obj_obj, dl_obj_obj, List.map_append]
      rw [diffKvs_eq_dlKvs hm kvs' hb hbw.2 hv kvs q ha haw.2, additions_eq q kvs kvs' hv]
    | _ => rw [dl_obj_other [] kvs rfl, diffNode_obj_other m kvs _ (by simp)]; simp [whole_keys]
  | .arr t xs, b, q, ha, haw, hb, hbw, hv => by
    have ha0 := ha
    simp only [Json.rawDoc, Bool.and_eq_true, beq_iff_eq] at ha
    obtain ⟨rfl, hrx⟩ := ha
    cases b with
    | arr t' ys =>
      have hb0 := hb
      simp only [Json.listDoc, Bool.and_eq_true] at hb
      have h2 : equals [] (.arr .list xs) (.arr .list ys) = V1.equalsList m xs ys := by
        rw [← equals_eq hm (.arr .list xs) (.arr .list ys)
          (by simp [Json.listDoc, rawDocList_listDocList xs hrx]), equals_arr hm (t := .list) rfl]
      have h1 : V1.equals m (.arr .raw xs) (.arr t' ys) = V1.equalsList m xs ys := by
        rw [equals_arr hm (t := .raw) rfl]; cases t' <;> simp_all
      rw [dl_arr_arr, h2]
      cases he : V1.equalsList m xs ys with
      | true =>
        rw [empty_node hm _ _ _ ha0 haw hb0 hbw (h1.trans he)]; rfl
      | false =>
        rw [diffNode_arr_arr hm xs ys hb.1, he]
        simp [whole_keys]
    | _ => rw [dl_arr_other [] _ xs rfl, diffNode_arr_other hm xs _ (by simp)]; simp [whole_keys]
  | .void, b, q, _, _, _, _, _ => by
    rw [diffNode_scalar m _ b (by simp) (by simp), dl_scalar [] rfl rfl, equals_eq hm _ b rfl]
    split <;> simp [whole_keys]
  | .null, b, q, _, _, _, _, _ => by
    rw [diffNode_scalar m _ b (by simp) (by simp), dl_scalar [] rfl rfl, equals_eq hm _ b rfl]
    split <;> simp [whole_keys]
  | .bool _, b, q, _, _, _, _, _ => by
    rw [diffNode_scalar m _ b (by simp) (by simp), dl_scalar [] rfl rfl, equals_eq hm _ b rfl]
    split <;> simp [whole_keys]
  | .num _, b, q, _, _, _, _, _ => by
    rw [diffNode_scalar m _ b (by simp) (by simp), dl_scalar [] rfl rfl, equals_eq hm _ b rfl]
    split <;> simp [whole_keys]
  | .str _, b, q, _, _, _, _, _ => by
    rw [diffNode_scalar m _ b (by simp) (by simp), dl_scalar [] rfl rfl, equals_eq hm _ b rfl]
    split <;> simp [whole_keys]
theorem diffKvs_eq_dlKvs {m : V1.Metas} (hm : MergeMode m) (kvs' : List (String × Json))
    (hb : listDocKvs kvs' = true) (hbw : wfKvs kvs' = true) (hv : objVoidFreeKvs kvs' = true) :
    ∀ (kvs : List (String × Json)) (q : List String), rawDocKvs kvs = true → wfKvs kvs = true →
      V1.diffKvs m true (q.map Json.str) kvs' kvs
        = (dlKvs [] kvs' kvs).map (fun e => vh (q ++ e.1) e.2)
  | [], q, _, _ => by rw [diffKvs_nil, dlKvs]; rfl
  | (k, v) :: r, q, ha, haw => by
    simp only [rawDocKvs, wfKvs, Bool.and_eq_true] at ha haw
    rw [diffKvs_cons, dlKvs]
    simp only [List.map_append]
    rw [diffKvs_eq_dlKvs hm kvs' hb hbw hv r q ha.2 haw.2]
    congr 1
    cases hl : alookup k kvs' with
    | none => simp [whole_keys_snoc]
    | some v' =>
      have := diffNode_eq_dl hm v v' (q ++ [k]) ha.1 haw.1 (alookup_listDoc hl hb)
        (alookup_wf hl hbw) (alookup_objVoidFree hl hv)
      simp only [List.map_append, List.map_cons, List.map_nil] at this
      simp only [this]
      simp [consE, Function.comp_def]
end

/-! ## 6. rendering the v1 merge diff -/

theorem diffM_eq_dl {m : V1.Metas} (hm : MergeMode m) (a b : Json) (ha : a.rawDoc = true)
    (haw : a.wf = true) (hb : b.listDoc = true) (hbw : b.wf = true) (hv : objVoidFree b = true) :
    V1.diffM m a b = (dl [] a b).map (fun e => vh e.1 e.2) := by
  have hd := diffNode_eq_dl hm a b [] ha haw hb hbw hv
  simp only [List.map_nil, List.nil_append] at hd
  rw [V1.diffM, hm.merge, hd]

/-- `RenderMerge` on hunks of the shape `vh` is `mapply` of the nulled hunks on nothing -/
theorem renderMergeDoc_vh (l : List (List String × Json)) :
    V1.renderMergeDoc (V1.liftDiff (l.map (fun e => vh e.1 e.2)))
      = .ok (if l = [] then .obj [] else mapply (l.map nulE) .void) := by
  unfold V1.renderMergeDoc
  cases l with
  | nil => simp [V1.liftDiff]
  | cons e l =>
    have h1 : (V1.liftDiff ((e :: l).map (fun e => vh e.1 e.2))).isEmpty = false := by
      simp [V1.liftDiff]
    have h2 : ∀ h ∈ V1.liftDiff ((e :: l).map (fun e => vh e.1 e.2)), ∃ r, h.path = mm :: r := by
      intro h hh
      simp only [V1.liftDiff, List.map_map, List.mem_map, Function.comp] at hh
      obtain ⟨x, _, rfl⟩ := hh
      exact ⟨_, by rw [vh_toP]⟩
    rw [h1, if_neg (by simp), if_neg]
    case hnc =>
      simp only [List.any_eq_true, not_exists, not_and]
      intro h hh
      obtain ⟨r, hr⟩ := h2 h hh
      rw [hr]
      simp [mm, V1.mergeMetaElem, V1.isMergeMetaElem]
    have h3 : (V1.liftDiff ((e :: l).map (fun e => vh e.1 e.2))).map
        (fun h => { h with new := h.new.map (fun v => if v.isVoid then Json.null else v) })
        = V1.liftDiff (((e :: l).map nulE).map (fun e => vh e.1 e.2)) := by
      simp only [V1.liftDiff, List.map_map]
      apply List.map_congr_left
      intro x _
      simp [vh, V1.Hunk.toP, nulE]
    rw [h3, patchAllP_vh]
    simp

theorem renderMergeDoc_diffM {m : V1.Metas} (hm : MergeMode m) (a b : Json) (ha : a.rawDoc = true)
    (haw : a.wf = true) (hb : b.listDoc = true) (hbw : b.wf = true) (hv : objVoidFree b = true) :
    V1.renderMergeDoc (V1.liftDiff (V1.diffM m a b))
      = .ok (if dl [] a b = [] then .obj [] else mapply (rl [] a b) .void) := by
  rw [diffM_eq_dl hm a b ha haw hb hbw hv, renderMergeDoc_vh]; rfl

/-! ## 7. C18 (1): the rendered v1 merge patch, applied by RFC 7386, yields the second document -/

theorem equals_eq_equivB {m : V1.Metas} (hm : MergeMode m) {a b : Json}
    (ha : a.listDoc = true) (hb : b.listDoc = true) : V1.equals m a b = equivB [] a b :=
  equals_eq_specEq hm ha hb

/-- the rendered patch document of a non-empty diff -/
def pdoc (a b : Json) : Json := mapply (rl [] a b) .void

theorem dl_ne_nil_of_ne (L : FloatLaws) {m : V1.Metas} (hm : MergeMode m) {a b : Json}
    (haw : a.wf = true) (har : a.rawDoc = true) (G : GoodB b)
    (hne : V1.equals m a b = false) : dl [] a b ≠ [] := by
  intro hd
  have := (sound L [] rfl rfl a haw har b G).1 hd
  rw [← equals_eq_equivB hm (rawDoc_listDoc a har) (rawDoc_listDoc b G.raw), hne] at this
  cases this

/-- **C18, merge half, (1).** For documents as read from JSON text (`rawDoc`, `wf`), `b` null-free,
    that the v1 `Equals` tells apart: the v1 merge diff renders (`Diff.RenderMerge`) to a JSON Merge
    Patch document `p`, and RFC 7386 `MergePatch(a, p)` is `b` (structurally: `specEq`, which ignores
    the Go dynamic type of array nodes only). -/
theorem v1_merge_render_correct (L : FloatLaws) {m : V1.Metas} (hm : MergeMode m) (a b : Json)
    (haw : a.wf = true) (har : a.rawDoc = true)
    (hbw : b.wf = true) (hbr : b.rawDoc = true) (hbn : b.nullFree = true)
    (hbv : objVoidFree b = true) (hbf : b.finiteNums = true)
    (hne : V1.equals m a b = false) :
    ∃ p, V1.renderMergeDoc (V1.liftDiff (V1.diffM m a b)) = .ok p ∧
      p.isVoid = false ∧ p.isNull = false ∧ specEq (mergePatch a p) b = true := by
  have G : GoodB b := ⟨hbw, hbr, hbn, hbv, hbf⟩
  have S := sound L [] rfl rfl a haw har b G
  have hd := dl_ne_nil_of_ne L hm haw har G hne
  rw [renderMergeDoc_diffM hm a b har haw (rawDoc_listDoc b hbr) hbw hbv, if_neg hd]
  exact ⟨_, rfl, (S.2 hd).1, (S.2 hd).2.1, (S.2 hd).2.2⟩

/-- the same without the hypothesis `a ≠ b` when the first document is an object: the empty diff
    renders to `{}`, which RFC 7386 applies as the identity on objects -/
theorem v1_merge_render_correct_obj (L : FloatLaws) {m : V1.Metas} (hm : MergeMode m) (a b : Json)
    (haw : a.wf = true) (har : a.rawDoc = true)
    (hbw : b.wf = true) (hbr : b.rawDoc = true) (hbn : b.nullFree = true)
    (hbv : objVoidFree b = true) (hbf : b.finiteNums = true)
    (hobj : a.isObj = true) :
    ∃ p, V1.renderMergeDoc (V1.liftDiff (V1.diffM m a b)) = .ok p ∧
      p.isVoid = false ∧ p.isNull = false ∧ specEq (mergePatch a p) b = true := by
  have G : GoodB b := ⟨hbw, hbr, hbn, hbv, hbf⟩
  have S := sound L [] rfl rfl a haw har b G
  rw [renderMergeDoc_diffM hm a b har haw (rawDoc_listDoc b hbr) hbw hbv]
  by_cases hd : dl [] a b = []
  · rw [if_pos hd]
    refine ⟨_, rfl, rfl, rfl, ?_⟩
    have : mergePatch a (.obj []) = a := by
      cases a <;> simp_all [Json.isObj, mergePatch, mergeMembers]
    rw [this]; exact S.1 hd
  · rw [if_neg hd]
    exact ⟨_, rfl, (S.2 hd).1, (S.2 hd).2.1, (S.2 hd).2.2⟩

/-- the text: `Diff.RenderMerge()` is the JSON encoding of that document -/
theorem v1_renderMergeM_eq (nc : NumCodec) (d : V1.PDiff) (p : Json)
    (h : V1.renderMergeDoc d = .ok p) (hne : d.isEmpty = false) :
    V1.renderMergeM nc d = .ok (V1.jsonM nc p) := by
  simp [V1.renderMergeM, hne, h]

/-! ## 8. C18 (3): reading a merge patch document with the v1 reader and applying it with the v1
    `Patch` is what the v2 library does, hence RFC 7386 `MergePatch` exactly on `Merge.Clean` -/

/-- the v1 reader followed by the v1 patch is the v2 reader followed by the v2 patch: no hypothesis -/
theorem v1_read_apply_eq_v2 (t p : Json) :
    V1.patchM t (V1.readMergeDoc p) = patchAll true t (readMergeDoc p) := by
  rw [readMergeDoc_eq, Merge.readMergeDoc_eq]
  split
  · rfl
  · rw [patchM_vh, patchAll_mh]

/-- C12 for the v1 library, sharp form -/
theorem v1_merge_read_apply_iff (t p : Json) (ht : t.wf = true) (hp : p.wf = true)
    (hv : objVoidFree p = true) :
    V1.patchM t (V1.readMergeDoc p) = .ok (mergePatch t p) ↔ Clean t p = true := by
  rw [v1_read_apply_eq_v2]; exact merge_read_apply_iff t p ht hp hv

/-- **C18, merge half, (3)**: on the domain `Clean` -/
theorem v1_merge_read_apply (t p : Json) (ht : t.wf = true) (hp : p.wf = true)
    (hv : objVoidFree p = true) (hc : Clean t p = true) :
    V1.patchM t (V1.readMergeDoc p) = .ok (mergePatch t p) :=
  (v1_merge_read_apply_iff t p ht hp hv).2 hc

/-- outside `Clean` the v1 library's result is NOT the RFC 7386 result -/
theorem v1_merge_read_apply_unclean (t p : Json) (ht : t.wf = true) (hp : p.wf = true)
    (hv : objVoidFree p = true) (hc : Clean t p = false) :
    V1.patchM t (V1.readMergeDoc p) ≠ .ok (mergePatch t p) := by
  rw [v1_read_apply_eq_v2]; exact merge_read_apply_unclean t p ht hp hv hc

/-- (a) patch `{}` at the root, target not an object: v1 does nothing, RFC 7386 gives `{}` -/
theorem v1_witness_root_empty_object (one : UInt64) :
    V1.patchM (.num one) (V1.readMergeDoc (.obj [])) = .ok (.num one) ∧
    mergePatch (.num one) (.obj []) = .obj [] ∧ Clean (.num one) (.obj []) = false := by
  rw [v1_read_apply_eq_v2]; exact witness_root_empty_object one

/-- (b) patch `{"a":{}}`, target `{"a":{"b":1}}`: v1 replaces the member by `{}`, RFC 7386 leaves
    the target unchanged -/
theorem v1_witness_nested_empty_object (one : UInt64) :
    V1.patchM (.obj [("a", .obj [("b", .num one)])]) (V1.readMergeDoc (.obj [("a", .obj [])]))
      = .ok (.obj [("a", .obj [])]) ∧
    mergePatch (.obj [("a", .obj [("b", .num one)])]) (.obj [("a", .obj [])])
      = .obj [("a", .obj [("b", .num one)])] ∧
    Clean (.obj [("a", .obj [("b", .num one)])]) (.obj [("a", .obj [])]) = false := by
  rw [v1_read_apply_eq_v2]; exact witness_nested_empty_object one

/-- (c) patch `null` at the root: v1 returns void (no document), RFC 7386 gives `null` -/
theorem v1_witness_root_null (t : Json) :
    V1.patchM t (V1.readMergeDoc .null) = .ok .void ∧ mergePatch t .null = .null ∧
    Clean t .null = false := by
  rw [v1_read_apply_eq_v2]; exact witness_root_null t

/-! ## 9. the rendered patch document is a well-formed, clean merge patch for `a` -/

mutual
/-- against a target that is not an object every patch is clean below the root -/
theorem cleanIn_nonobj : ∀ (v t : Json), objKvs t = [] → cleanIn t v = true
  | .obj pkvs, t, ht => by
    rw [cleanIn, ht]
    split
    · rfl
    · exact cleanKvs_nil pkvs
  | .void, _, _ => rfl
  | .null, _, _ => rfl
  | .bool _, _, _ => rfl
  | .num _, _, _ => rfl
  | .str _, _, _ => rfl
  | .arr _ _, _, _ => rfl
theorem cleanKvs_nil : ∀ (pkvs : List (String × Json)), cleanKvs [] pkvs = true
  | [] => rfl
  | (k, v) :: r => by
    rw [cleanKvs, Bool.and_eq_true]
    exact ⟨cleanIn_nonobj v (getK k []) rfl, cleanKvs_nil r⟩
end

/-- what is proved of the rendered patch `v` for the target `t` -/
structure Q (t v : Json) : Prop where
  wf : v.wf = true
  vf : objVoidFree v = true
  ld : v.listDoc = true
  cl : cleanIn t v = true

theorem Q.of_goodB {t b : Json} (G : GoodB b) (h : objKvs t = [] ∨ b.isObj = false) : Q t b := by
  refine ⟨G.wf, G.vf, rawDoc_listDoc b G.raw, ?_⟩
  rcases h with h | h
  · exact cleanIn_nonobj b t h
  · cases b <;> simp_all [Json.isObj, cleanIn]

theorem Q.null (t : Json) : Q t .null := ⟨rfl, rfl, rfl, rfl⟩

theorem pdoc_single {a b x : Json} (h : dl [] a b = [([], x)]) (hv : x.isVoid = false) :
    pdoc a b = x := by
  simp [pdoc, rl, h, nulE, hv, mapply, mset]

theorem wfKvs_of_mem : ∀ {kvs : List (String × Json)}, (∀ k v, (k, v) ∈ kvs → v.wf = true) →
    wfKvs kvs = true
  | [], _ => rfl
  | (k, v) :: r, h => by
    rw [wfKvs, Bool.and_eq_true]
    exact ⟨h k v List.mem_cons_self,
      wfKvs_of_mem (fun k' v' hm => h k' v' (List.mem_cons_of_mem _ hm))⟩

theorem objVoidFreeKvs_of_mem : ∀ {kvs : List (String × Json)},
    (∀ k v, (k, v) ∈ kvs → objVoidFree v = true) → objVoidFreeKvs kvs = true
  | [], _ => rfl
  | (k, v) :: r, h => by
    rw [objVoidFreeKvs, Bool.and_eq_true]
    exact ⟨h k v List.mem_cons_self,
      objVoidFreeKvs_of_mem (fun k' v' hm => h k' v' (List.mem_cons_of_mem _ hm))⟩

theorem listDocKvs_of_mem : ∀ {kvs : List (String × Json)},
    (∀ k v, (k, v) ∈ kvs → v.listDoc = true) → listDocKvs kvs = true
  | [], _ => rfl
  | (k, v) :: r, h => by
    rw [listDocKvs, Bool.and_eq_true]
    exact ⟨h k v List.mem_cons_self,
      listDocKvs_of_mem (fun k' v' hm => h k' v' (List.mem_cons_of_mem _ hm))⟩

/-- equivalent documents have an empty pure merge diff (through the v1 diff) -/
theorem dl_nil_of_equivB {a b : Json} (har : a.rawDoc = true) (haw : a.wf = true)
    (hb : b.listDoc = true) (hbw : b.wf = true) (hv : objVoidFree b = true)
    (h : equivB [] a b = true) : dl [] a b = [] := by
  have hm := MergeMode.single
  have he : V1.equals [.merge] a b = true := by
    rw [equals_eq_equivB hm (rawDoc_listDoc a har) hb]; exact h
  have h1 := empty_node hm a b [] har haw hb hbw he
  have h2 := diffNode_eq_dl hm a b [] har haw hb hbw hv
  rw [List.map_nil] at h2
  rw [h1] at h2
  exact List.map_eq_nil_iff.1 h2.symm

/-- what is proved of a pair of documents: a non-empty diff renders to a good patch for `a` -/
def X (a b : Json) : Prop := dl [] a b ≠ [] → Q a (pdoc a b)

theorem x_wholesale {a b : Json} (h : dl [] a b = [([], b)]) (G : GoodB b)
    (hab : objKvs a = [] ∨ b.isObj = false) : X a b := by
  intro _
  rw [pdoc_single h G.notVoid]
  exact Q.of_goodB G hab

theorem x_scalar {a b : Json} (h1 : a.isObj = false) (h2 : isArr a = false) (G : GoodB b) :
    X a b := by
  have hd := dl_scalar [] h1 h2 b
  intro hne
  have hd' : dl [] a b = [([], b)] := by
    rw [hd] at hne ⊢
    split
    · rename_i he; rw [if_pos he] at hne; exact absurd rfl hne
    · rfl
  exact x_wholesale hd' G (Or.inl (by cases a <;> simp_all [Json.isObj, objKvs])) hne

mutual
theorem xnode (L : FloatLaws) :
    ∀ (a : Json), a.wf = true → a.rawDoc = true → ∀ b : Json, GoodB b → X a b
  | .obj kvs, hw, hr, b, G => by
    cases b with
    | obj kvs' =>
      intro hd
      have hw0 := hw
      have hr0 := hr
      simp only [Json.wf, Bool.and_eq_true] at hw
      simp only [Json.rawDoc] at hr
      have hs' : keysSorted kvs' = true := by
        have := G.wf; simp only [Json.wf, Bool.and_eq_true] at this; exact this.1
      have hvf : objVoidFreeKvs kvs' = true := by simpa [objVoidFree] using G.vf
      have hrl := rl_obj_obj [] kvs kvs' hvf
      obtain ⟨acc', he, hsa, hl⟩ := mapply_groups (groupsA [] kvs' kvs ++ groupsB kvs kvs') []
        (fun _ _ _ => by simp [alookup]) (groups_nodup [] hw.1 hs') rfl
      have hne : flatG (groupsA [] kvs' kvs ++ groupsB kvs kvs') ≠ [] := by
        rw [← hrl]; simpa [rl] using hd
      have hp : pdoc (.obj kvs) (.obj kvs') = .obj acc' := by
        rw [pdoc, hrl, mapply_flatG_nonobj _ (t := .void) rfl hne, he]
      rw [hp]
      -- every member of the patch document is good for the member of `a` under the same key
      have mem : ∀ j v, alookup j acc' = some v → Q (getK j kvs) v := by
        intro j v hj
        have hlj := hl j
        rw [groups_lookup, hj] at hlj
        have hgv : getK j ([] : List (String × Json)) = .void := rfl
        cases hja : alookup j kvs with
        | some v0 =>
          rw [hja] at hlj
          simp only [grpA, hgv] at hlj
          have hg : getK j kvs = v0 := by simp [getK, hja]
          rw [hg]
          cases hjb : alookup j kvs' with
          | some v' =>
            rw [hjb] at hlj
            simp only at hlj
            by_cases hdv : dl [] v0 v' = []
            · have : rl [] v0 v' = [] := by simp [rl, hdv]
              simp [this, mapply, toOpt, Json.isVoid] at hlj
            · have hX := xkvs L kvs hw.2 hr j v0 hja v' (G.member hjb) hdv
              have : v = pdoc v0 v' := by
                unfold toOpt at hlj
                split at hlj
                · cases hlj
                · exact (Option.some.inj hlj)
              rw [this]; exact hX
          | none =>
            rw [hjb] at hlj
            simp only [mapply, List.foldl_cons, List.foldl_nil, mset, toOpt, Json.isVoid,
              Bool.false_eq_true, if_false, Option.some.injEq] at hlj
            rw [hlj]; exact Q.null _
        | none =>
          rw [hja] at hlj
          simp only at hlj
          cases hjb : alookup j kvs' with
          | none => rw [hjb] at hlj; simp [alookup] at hlj
          | some v' =>
            rw [hjb] at hlj
            have Gv := G.member hjb
            simp only [Option.map_some, mapply, List.foldl_cons, List.foldl_nil, mset, toOpt,
              Gv.notVoid, Bool.false_eq_true, if_false, Option.some.injEq] at hlj
            rw [hlj]
            exact Q.of_goodB Gv (Or.inl (by simp [getK, hja, objKvs]))
      have mem' : ∀ k v, (k, v) ∈ acc' → Q (getK k kvs) v :=
        fun k v hm => mem k v (alookup_of_mem hsa hm)
      -- the patch document is not `{}`: otherwise the documents are equivalent and the diff empty
      have hnil : acc' ≠ [] := by
        intro h0
        subst h0
        have S := sound L [] rfl rfl (.obj kvs) hw0 hr0 (.obj kvs') G
        have h3 := (S.2 hd).2.2
        have hp' : mapply (rl [] (.obj kvs) (.obj kvs')) .void = .obj [] := hp
        have : mergePatch (.obj kvs) (.obj []) = .obj kvs := by simp [mergePatch, mergeMembers]
        rw [hp', this] at h3
        exact hd (dl_nil_of_equivB hr0 hw0 (rawDoc_listDoc _ G.raw) G.wf G.vf h3)
      refine ⟨?_, ?_, ?_, ?_⟩
      · simp only [Json.wf, Bool.and_eq_true]
        exact ⟨hsa, wfKvs_of_mem (fun k v hm => (mem' k v hm).wf)⟩
      · simp only [objVoidFree]
        exact objVoidFreeKvs_of_mem (fun k v hm => (mem' k v hm).vf)
      · simp only [Json.listDoc]
        exact listDocKvs_of_mem (fun k v hm => (mem' k v hm).ld)
      · rw [cleanIn]
        have : acc'.isEmpty = false := by
          cases hacc : acc' with
          | nil => exact absurd hacc hnil
          | cons _ _ => rfl
        rw [this]
        simp only [Bool.false_eq_true, if_false, objKvs]
        exact (cleanKvs_iff kvs hsa).2 (fun k v hk => (mem k v hk).cl)
    | _ => exact x_wholesale (dl_obj_other [] kvs rfl) G (Or.inr rfl)
  | .arr t xs, hw, hr, b, G => by
    cases b with
    | arr t' ys =>
      intro hd
      have hdl := dl_arr_arr [] t t' xs ys
      have hdl' : dl [] (.arr t xs) (.arr t' ys) = [([], .arr .list ys)] := by
        rw [hdl] at hd ⊢
        split
        · rename_i he; rw [if_pos he] at hd; exact absurd rfl hd
        · rfl
      rw [pdoc_single hdl' rfl]
      have hys : listDocList ys = true := by
        have := rawDoc_listDoc _ G.raw
        simp only [Json.listDoc, Bool.and_eq_true] at this; exact this.2
      refine ⟨?_, rfl, ?_, rfl⟩
      · have := G.wf; simpa [Json.wf] using this
      · simp [Json.listDoc, hys]
    | _ => exact x_wholesale (dl_arr_other [] t xs rfl) G (Or.inl rfl)
  | .void, _, _, b, G => x_scalar rfl rfl G
  | .null, _, _, b, G => x_scalar rfl rfl G
  | .bool _, _, _, b, G => x_scalar rfl rfl G
  | .num _, _, _, b, G => x_scalar rfl rfl G
  | .str _, _, _, b, G => x_scalar rfl rfl G
theorem xkvs (L : FloatLaws) :
    ∀ (kvs : List (String × Json)), wfKvs kvs = true → rawDocKvs kvs = true →
    ∀ k v, alookup k kvs = some v → ∀ b : Json, GoodB b → X v b
  | [], _, _, k, v, h => by simp [alookup] at h
  | (k0, v0) :: r, hw, hr, k, v, h => by
    simp only [wfKvs, rawDocKvs, Bool.and_eq_true] at hw hr
    simp only [alookup] at h
    split at h
    · cases h; exact xnode L v0 hw.1 hr.1
    · exact xkvs L r hw.2 hr.2 k v h
end

/-! ## 10. RFC 7386 keeps list documents list documents -/

theorem listDoc_of_mem : ∀ {kvs : List (String × Json)}, listDocKvs kvs = true →
    ∀ k v, (k, v) ∈ kvs → v.listDoc = true
  | [], _, _, _, hm => by cases hm
  | (k0, v0) :: r, h, k, v, hm => by
    simp only [listDocKvs, Bool.and_eq_true] at h
    rcases List.mem_cons.1 hm with e | hm'
    · cases e; exact h.1
    · exact listDoc_of_mem h.2 k v hm'

theorem listDocKvs_ainsert (k : String) {v : Json} (hv : v.listDoc = true)
    {r : List (String × Json)} (h : listDocKvs r = true) : listDocKvs (ainsert k v r) = true :=
  listDocKvs_of_mem (fun k' v' hm => by
    rcases mem_ainsert hm with e | hm'
    · cases e; exact hv
    · exact listDoc_of_mem h k' v' hm')

theorem listDocKvs_aerase (k : String) {r : List (String × Json)} (h : listDocKvs r = true) :
    listDocKvs (aerase k r) = true :=
  listDocKvs_of_mem (fun k' v' hm => listDoc_of_mem h k' v' (mem_aerase hm))

theorem listDoc_getK (k : String) {t : List (String × Json)} (h : listDocKvs t = true) :
    (getK k t).listDoc = true := by
  unfold getK
  cases hl : alookup k t with
  | none => rfl
  | some v => exact alookup_listDoc hl h

theorem listDocKvs_objKvs {t : Json} (h : t.listDoc = true) : listDocKvs (objKvs t) = true := by
  cases t <;> simp_all [objKvs, Json.listDoc, listDocKvs]

mutual
theorem mergePatch_listDoc : ∀ (p t : Json), p.listDoc = true → t.listDoc = true →
    (mergePatch t p).listDoc = true
  | .obj pkvs, t, hp, ht => by
    rw [mergePatch_obj]
    simp only [Json.listDoc] at hp ⊢
    exact mergeMembers_listDoc pkvs (objKvs t) hp (listDocKvs_objKvs ht)
  | .void, _, _, _ => by simp [mergePatch, Json.listDoc]
  | .null, _, _, _ => by simp [mergePatch, Json.listDoc]
  | .bool _, _, _, _ => by simp [mergePatch, Json.listDoc]
  | .num _, _, _, _ => by simp [mergePatch, Json.listDoc]
  | .str _, _, _, _ => by simp [mergePatch, Json.listDoc]
  | .arr _ _, _, hp, _ => by simpa [mergePatch] using hp
theorem mergeMembers_listDoc : ∀ (pkvs t : List (String × Json)), listDocKvs pkvs = true →
    listDocKvs t = true → listDocKvs (mergeMembers t pkvs) = true
  | [], t, _, ht => by simpa [mergeMembers] using ht
  | (k, v) :: r, t, hp, ht => by
    simp only [listDocKvs, Bool.and_eq_true] at hp
    rw [mergeMembers_cons]
    apply mergeMembers_listDoc r _ hp.2
    split
    · exact listDocKvs_aerase k ht
    · exact listDocKvs_ainsert k (mergePatch_listDoc v (getK k t) hp.1 (listDoc_getK k ht)) ht
end

/-! ## 11. C18 (2): reading the rendered patch back with the v1 reader and applying it to `a` with
    the v1 `Patch` yields a document equal to `b` -/

theorem equivB_empty_obj {b : Json} (h : equivB [] (.obj []) b = true) : b = .obj [] := by
  cases b with
  | obj kvs' =>
    cases kvs' with
    | nil => rfl
    | cons _ _ => simp [equivB] at h
  | _ => simp [equivB] at h

/-- the rendered patch of a non-empty diff is in the domain of the read-back theorem, unless it is
    `{}` for a first document that is not an object -/
theorem pdoc_clean (L : FloatLaws) (a b : Json) (haw : a.wf = true) (har : a.rawDoc = true)
    (G : GoodB b) (hd : dl [] a b ≠ []) (hab : a.isObj = true ∨ b ≠ .obj []) :
    (pdoc a b).wf = true ∧ objVoidFree (pdoc a b) = true ∧ (pdoc a b).listDoc = true ∧
      Clean a (pdoc a b) = true := by
  have Qp := xnode L a haw har b G hd
  have S := (sound L [] rfl rfl a haw har b G).2 hd
  refine ⟨Qp.wf, Qp.vf, Qp.ld, ?_⟩
  have hcl := Qp.cl
  have hnn := S.2.1
  have h3 := S.2.2
  change (pdoc a b).isNull = false at hnn
  change equivB [] (mergePatch a (pdoc a b)) b = true at h3
  generalize pdoc a b = p at hcl hnn h3
  cases p with
  | null => simp [Json.isNull] at hnn
  | obj pkvs =>
    cases pkvs with
    | nil =>
      simp only [Clean]
      rcases hab with h | h
      · exact h
      · cases a with
        | obj kvs => rfl
        | _ =>
          have : b = .obj [] := equivB_empty_obj (by simpa [mergePatch, mergeMembers] using h3)
          exact absurd this h
    | cons kv r => simpa [Clean] using hcl
  | _ => simpa [Clean] using hcl

/-- **C18, merge half, (2).** For documents as read from JSON text, `b` null-free, that the v1
    `Equals` tells apart, and not (`a` a non-object and `b = {}`): the document `p` that
    `RenderMerge` produces from the v1 merge diff, read back with the v1 reader
    (`ReadMergeString`) and applied to `a` with the v1 `Patch`, succeeds and yields EXACTLY
    RFC 7386 `MergePatch(a, p)`, which the v1 `Equals` (and `specEq`) identifies with `b`. -/
theorem v1_merge_render_readback (L : FloatLaws) {m : V1.Metas} (hm : MergeMode m) (a b : Json)
    (haw : a.wf = true) (har : a.rawDoc = true)
    (hbw : b.wf = true) (hbr : b.rawDoc = true) (hbn : b.nullFree = true)
    (hbv : objVoidFree b = true) (hbf : b.finiteNums = true)
    (hne : V1.equals m a b = false) (hab : a.isObj = true ∨ b ≠ .obj []) :
    ∃ p r, V1.renderMergeDoc (V1.liftDiff (V1.diffM m a b)) = .ok p ∧
      V1.patchM a (V1.readMergeDoc p) = .ok r ∧ r = mergePatch a p ∧
      V1.equals m r b = true ∧ specEq r b = true ∧ r.listDoc = true := by
  have G : GoodB b := ⟨hbw, hbr, hbn, hbv, hbf⟩
  have hd := dl_ne_nil_of_ne L hm haw har G hne
  have S := (sound L [] rfl rfl a haw har b G).2 hd
  obtain ⟨h1, h2, h3, h4⟩ := pdoc_clean L a b haw har G hd hab
  have hr : (mergePatch a (pdoc a b)).listDoc = true :=
    mergePatch_listDoc _ _ h3 (rawDoc_listDoc a har)
  refine ⟨pdoc a b, mergePatch a (pdoc a b), ?_, ?_, rfl, ?_, S.2.2, hr⟩
  · rw [renderMergeDoc_diffM hm a b har haw (rawDoc_listDoc b hbr) hbw hbv, if_neg hd]; rfl
  · exact v1_merge_read_apply a _ haw h1 h2 h4
  · rw [equals_eq_equivB hm hr (rawDoc_listDoc b hbr)]; exact S.2.2

/-- the same without the hypothesis `a ≠ b` when the first document is an object (an empty diff
    renders to `{}`, which reads back as the empty diff) -/
theorem v1_merge_render_readback_obj (L : FloatLaws) {m : V1.Metas} (hm : MergeMode m) (a b : Json)
    (haw : a.wf = true) (har : a.rawDoc = true)
    (hbw : b.wf = true) (hbr : b.rawDoc = true) (hbn : b.nullFree = true)
    (hbv : objVoidFree b = true) (hbf : b.finiteNums = true)
    (hobj : a.isObj = true) :
    ∃ p r, V1.renderMergeDoc (V1.liftDiff (V1.diffM m a b)) = .ok p ∧
      V1.patchM a (V1.readMergeDoc p) = .ok r ∧ r = mergePatch a p ∧
      V1.equals m r b = true ∧ specEq r b = true ∧ r.listDoc = true := by
  have G : GoodB b := ⟨hbw, hbr, hbn, hbv, hbf⟩
  by_cases hd : dl [] a b = []
  · have S := (sound L [] rfl rfl a haw har b G).1 hd
    have hmp : mergePatch a (.obj []) = a := by
      cases a <;> simp_all [Json.isObj, mergePatch, mergeMembers]
    refine ⟨.obj [], a, ?_, ?_, hmp.symm, ?_, S, rawDoc_listDoc a har⟩
    · rw [renderMergeDoc_diffM hm a b har haw (rawDoc_listDoc b hbr) hbw hbv, if_pos hd]
    · rfl
    · rw [equals_eq_equivB hm (rawDoc_listDoc a har) (rawDoc_listDoc b hbr)]; exact S
  · have S := (sound L [] rfl rfl a haw har b G).2 hd
    obtain ⟨h1, h2, h3, h4⟩ := pdoc_clean L a b haw har G hd (Or.inl hobj)
    have hr : (mergePatch a (pdoc a b)).listDoc = true :=
      mergePatch_listDoc _ _ h3 (rawDoc_listDoc a har)
    refine ⟨pdoc a b, mergePatch a (pdoc a b), ?_, ?_, rfl, ?_, S.2.2, hr⟩
    · rw [renderMergeDoc_diffM hm a b har haw (rawDoc_listDoc b hbr) hbw hbv, if_neg hd]; rfl
    · exact v1_merge_read_apply a _ haw h1 h2 h4
    · rw [equals_eq_equivB hm hr (rawDoc_listDoc b hbr)]; exact S.2.2

/-- **Counterexample to (2) on the excluded pairs (a real defect of the Go code, checked against
    /repo/lib: `a = 1`, `b = {}` and `a = []`, `b = {}`).** For EVERY first document `a` that is not
    an object (as read from text) and `b = {}`: the documents differ, the merge diff renders to the
    patch document `{}`, RFC 7386 applied to `a` gives `{}` = `b` (so (1) holds), but
    `ReadMergeString("{}")` is the EMPTY diff and patching `a` with it returns `a`, which is not
    equal to `b`. The exclusion `a.isObj ∨ b ≠ {}` in `v1_merge_render_readback` is therefore
    exactly what is needed. -/
theorem v1_witness_readback_nonobj_to_empty_object {m : V1.Metas} (hm : MergeMode m) (a : Json)
    (haw : a.wf = true) (har : a.rawDoc = true) (hobj : a.isObj = false) :
    V1.equals m a (.obj []) = false ∧
    V1.renderMergeDoc (V1.liftDiff (V1.diffM m a (.obj []))) = .ok (.obj []) ∧
    mergePatch a (.obj []) = .obj [] ∧
    V1.patchM a (V1.readMergeDoc (.obj [])) = .ok a := by
  have he : V1.equals m a (.obj []) = false := by
    cases a with
    | arr t xs =>
      simp only [Json.rawDoc, Bool.and_eq_true, beq_iff_eq] at har
      obtain ⟨rfl, _⟩ := har
      rw [equals_arr hm (t := .raw) rfl]
    | obj _ => simp [Json.isObj] at hobj
    | _ => simp [V1.equals, Json.isVoid, Json.isNull]
  have hd : dl [] a (.obj []) = [([], .obj [])] := by
    cases a with
    | arr t xs => exact dl_arr_other [] t xs rfl
    | obj _ => simp [Json.isObj] at hobj
    | _ => simp [dl, equals, Json.isVoid, Json.isNull]
  refine ⟨he, ?_, ?_, rfl⟩
  · rw [renderMergeDoc_diffM hm a _ har haw rfl rfl rfl]
    simp [rl, hd, nulE, mapply, mset, Json.isVoid]
  · cases a <;> simp_all [Json.isObj, mergePatch, mergeMembers]

/-! ## 12. non-vacuity: concrete documents satisfying the hypotheses -/

namespace Example

/-- `{"a":{"b":"x","c":null},"d":["p"],"f":[{"g":1}]}` -/
def exA : Json :=
  .obj [("a", .obj [("b", .str "x"), ("c", .null)]), ("d", .arr .raw [.str "p"]),
        ("f", .arr .raw [.obj [("g", .num 0x3FF0000000000000)]])]
/-- `{"a":{"b":"y"},"e":{"h":{}},"f":[{"g":1}]}`: a changed member at depth, a removed key at depth
    (holding a null), an array replaced by nothing, an added object holding `{}`, an equal array of
    objects (the v1 positional loop runs over it) -/
def exB : Json :=
  .obj [("a", .obj [("b", .str "y")]), ("e", .obj [("h", .obj [])]),
        ("f", .arr .raw [.obj [("g", .num 0x3FF0000000000000)]])]

theorem hyps : MergeMode [.merge] ∧ exA.wf = true ∧ exA.rawDoc = true ∧ exB.wf = true ∧
    exB.rawDoc = true ∧ exB.nullFree = true ∧ objVoidFree exB = true ∧ exB.finiteNums = true ∧
    V1.equals [.merge] exA exB = false ∧ (exA.isObj = true ∨ exB ≠ .obj []) := by
  refine ⟨MergeMode.single, by decide, by decide, by decide, by decide, by decide, by decide,
    by decide, ?_, Or.inl rfl⟩
  simp [exA, exB, V1.equals, V1.equalsKvs, alookup]

example (L : FloatLaws) :
    ∃ p, V1.renderMergeDoc (V1.liftDiff (V1.diffM [.merge] exA exB)) = .ok p ∧
      p.isVoid = false ∧ p.isNull = false ∧ specEq (mergePatch exA p) exB = true :=
  v1_merge_render_correct L hyps.1 exA exB hyps.2.1 hyps.2.2.1 hyps.2.2.2.1 hyps.2.2.2.2.1
    hyps.2.2.2.2.2.1 hyps.2.2.2.2.2.2.1 hyps.2.2.2.2.2.2.2.1 hyps.2.2.2.2.2.2.2.2.1

example (L : FloatLaws) :
    ∃ p r, V1.renderMergeDoc (V1.liftDiff (V1.diffM [.merge] exA exB)) = .ok p ∧
      V1.patchM exA (V1.readMergeDoc p) = .ok r ∧ r = mergePatch exA p ∧
      V1.equals [.merge] r exB = true ∧ specEq r exB = true ∧ r.listDoc = true :=
  v1_merge_render_readback L hyps.1 exA exB hyps.2.1 hyps.2.2.1 hyps.2.2.2.1 hyps.2.2.2.2.1
    hyps.2.2.2.2.2.1 hyps.2.2.2.2.2.2.1 hyps.2.2.2.2.2.2.2.1 hyps.2.2.2.2.2.2.2.2.1
    hyps.2.2.2.2.2.2.2.2.2

/-- the patch document `{"a":{"b":"y","c":null},"d":null,"e":{"h":{}}}` is clean for `exA` -/
def exP : Json :=
  .obj [("a", .obj [("b", .str "y"), ("c", .null)]), ("d", .null), ("e", .obj [("h", .obj [])])]

theorem hypsP : exA.wf = true ∧ exP.wf = true ∧ objVoidFree exP = true ∧ Clean exA exP = true := by
  refine ⟨by decide, by decide, by decide, ?_⟩
  simp [exA, exP, Clean, cleanIn, cleanKvs, objKvs, getK, alookup]

example : V1.patchM exA (V1.readMergeDoc exP) = .ok (mergePatch exA exP) :=
  v1_merge_read_apply exA exP hypsP.1 hypsP.2.1 hypsP.2.2.1 hypsP.2.2.2

/-- the counterexample at `a = 1` and at `a = []` -/
example : V1.equals [.merge] (.num 0x3FF0000000000000) (.obj []) = false ∧
    V1.renderMergeDoc (V1.liftDiff (V1.diffM [.merge] (.num 0x3FF0000000000000) (.obj [])))
      = .ok (.obj []) ∧
    mergePatch (.num 0x3FF0000000000000) (.obj []) = .obj [] ∧
    V1.patchM (.num 0x3FF0000000000000) (V1.readMergeDoc (.obj []))
      = .ok (.num 0x3FF0000000000000) :=
  v1_witness_readback_nonobj_to_empty_object MergeMode.single _ (by decide) (by decide) (by decide)

example : V1.patchM (.arr .raw []) (V1.readMergeDoc (.obj [])) = .ok (.arr .raw []) :=
  (v1_witness_readback_nonobj_to_empty_object MergeMode.single (.arr .raw []) (by decide)
    (by decide) (by decide)).2.2.2

end Example

end Jd.V1M

#print axioms Jd.V1M.v1_merge_render_correct
#print axioms Jd.V1M.v1_merge_render_correct_obj
#print axioms Jd.V1M.v1_merge_render_readback
#print axioms Jd.V1M.v1_merge_render_readback_obj
#print axioms Jd.V1M.v1_witness_readback_nonobj_to_empty_object
#print axioms Jd.V1M.v1_read_apply_eq_v2
#print axioms Jd.V1M.v1_merge_read_apply_iff
#print axioms Jd.V1M.v1_merge_read_apply
#print axioms Jd.V1M.v1_merge_read_apply_unclean
#print axioms Jd.V1M.v1_witness_root_empty_object
#print axioms Jd.V1M.v1_witness_nested_empty_object
#print axioms Jd.V1M.v1_witness_root_null
#print axioms Jd.V1M.diffM_eq_dl
#print axioms Jd.V1M.patchM_vh
#print axioms Jd.V1M.equals_eq
#print axioms Jd.V1M.Example.hyps
#print axioms Jd.V1M.Example.hypsP
